import Bp7.Driver.Ops
open Bp7.Driver

partial def loop (hin : IO.FS.Stream) (hout : IO.FS.Stream) : IO Unit := do
  let line ← hin.getLine
  if line.isEmpty then return ()
  let l := line.trimAscii.toString
  hout.putStrLn (answer l)
  hout.flush
  loop hin hout

def main : IO Unit := do
  loop (← IO.getStdin) (← IO.getStdout)
