/-
  C07 — validation accepts exactly the bundles satisfying the RFC 9171 rules it checks.

  `Spec.valid` is written from the property text and RFC 9171 §4.2.3 / §4.2.4 bit numbering
  (bit tests, duplicate-freeness, counting), not from the code. The stale "reserved bits" masks
  (0xE218 on bundle flags, 0xF0 on block flags: rejected by the code only when *all* their bits
  are set) are don't-care: the theorem assumes they do not hit.
-/
import Bp7.Model.Validate
import Bp7.Lemmas.Flags
namespace Bp7.C07
open Bp7

namespace Spec

/-- RFC 9171 §4.2.3 bundle processing control flags, by bit position -/
def isFragment (w : Nat) : Bool := w.testBit 0
def isAdminRecord (w : Nat) : Bool := w.testBit 1
def mustNotFragment (w : Nat) : Bool := w.testBit 2
def reqReception (w : Nat) : Bool := w.testBit 14
def reqForward (w : Nat) : Bool := w.testBit 16
def reqDelivery (w : Nat) : Bool := w.testBit 17
def reqDeletion (w : Nat) : Bool := w.testBit 18
/-- §4.2.4 block processing control flags: bit 1 = "transmit status report if block can't be processed" -/
def blockStatusReport (w : Nat) : Bool := w.testBit 1

/-- well-formed endpoint ID: dtn:none, ipn with node number ≥ 1, dtn "//node/…" -/
def eidWellFormed : Eid → Bool
  | .null c v => c == 1 && v == 0
  | .ipn c n _ => c == 2 && decide (1 ≤ n)
  | .dtn _ ssp => ssp.take 2 == [47, 47] && (ssp.drop 2).contains 47

/-- block data matches the block type; the payload block has number 1 -/
def dataMatches (c : Canon) : Bool :=
  match c.data with
  | .data _ => c.btype == 1 && c.num == 1
  | .age _ => c.btype == 7
  | .hop _ _ => c.btype == 10
  | .prev e => c.btype == 6 && eidWellFormed e
  | .unknown _ => c.btype != 1 && c.btype != 6 && c.btype != 7 && c.btype != 10
  | .decErr => false

/-- two blocks may coexist: different numbers, and not the same singleton type (6, 7, 10) -/
def compatible (x y : Canon) : Prop :=
  x.num ≠ y.num ∧ ¬ (x.btype = y.btype ∧ (y.btype = 6 ∨ y.btype = 7 ∨ y.btype = 10))

/-- the rules of the property statement -/
def Valid (b : Bundle) : Prop :=
  let w := b.primary.flags
  b.primary.version = 7
  ∧ ¬ (isFragment w = true ∧ mustNotFragment w = true)
  ∧ ¬ (isAdminRecord w = true ∧ (reqReception w = true ∨ reqForward w = true ∨ reqDelivery w = true ∨ reqDeletion w = true))
  ∧ eidWellFormed b.primary.dst = true ∧ eidWellFormed b.primary.src = true ∧ eidWellFormed b.primary.rpt = true
  ∧ (∀ c ∈ b.canon, dataMatches c = true)
  ∧ b.canon.Pairwise compatible
  ∧ (∃ c ∈ b.canon, c.btype = 1)
  ∧ ((isAdminRecord w = true ∨ b.primary.src = .null 1 0) → ∀ c ∈ b.canon, blockStatusReport c.flags = false)
  ∧ (b.primary.ts = 0 → ∃ c ∈ b.canon, c.btype = 7)

end Spec

/-- the don't-care of the property: a stale reserved mask fully set -/
def staleMaskHit (b : Bundle) : Bool :=
  has b.primary.flags F_RESERVED || b.canon.any (fun c => bhas c.flags BF_RESERVED)

/-- shapes a decoder can produce: opaque data only for unknown block types, no decoding-error marker -/
def decodableShape (c : Canon) : Bool :=
  match c.data with
  | .unknown _ => c.btype != 1 && c.btype != 6 && c.btype != 7 && c.btype != 10
  | .decErr => false
  | _ => true

/-! ### flag word: code's `contains` tests = RFC bit tests -/

theorem has_bit (w k : Nat) (hk : F_ALL.testBit k = true) : has w (2 ^ k) = w.testBit k :=
  flagsContain_bit F_ALL w k hk
theorem bhas_bit (w k : Nat) (hk : BF_ALL.testBit k = true) : bhas w (2 ^ k) = w.testBit k :=
  flagsContain_bit BF_ALL w k hk

theorem has_frag (w : Nat) : has w F_IS_FRAGMENT = w.testBit 0 := has_bit w 0 (by decide)
theorem has_admin (w : Nat) : has w F_ADMIN = w.testBit 1 := has_bit w 1 (by decide)
theorem has_mnf (w : Nat) : has w F_MUST_NOT_FRAGMENT = w.testBit 2 := has_bit w 2 (by decide)
theorem has_rec (w : Nat) : has w F_REQ_RECEPTION = w.testBit 14 := has_bit w 14 (by decide)
theorem has_fwd (w : Nat) : has w F_REQ_FORWARD = w.testBit 16 := has_bit w 16 (by decide)
theorem has_dlv (w : Nat) : has w F_REQ_DELIVERY = w.testBit 17 := has_bit w 17 (by decide)
theorem has_del (w : Nat) : has w F_REQ_DELETION = w.testBit 18 := has_bit w 18 (by decide)
theorem bhas_sr (w : Nat) : bhas w BF_STATUS_REPORT = w.testBit 1 := bhas_bit w 1 (by decide)

theorem eidOk_eq (e : Eid) : eidOk e = Spec.eidWellFormed e := by
  cases e <;> simp [eidOk, Spec.eidWellFormed, dtnSspOk, startsWith, SLASH]

theorem extOk_eq (c : Canon) (h : decodableShape c = true) : c.extOk = Spec.dataMatches c := by
  unfold Canon.extOk Spec.dataMatches decodableShape at *
  cases hd : c.data <;> simp_all [PAYLOAD_BLOCK, BUNDLE_AGE_BLOCK, HOP_COUNT_BLOCK, PREVIOUS_NODE_BLOCK, eidOk_eq]

/-! ### the per-block loop with its two "seen" sets -/

theorem ite_nil {α} (c : Prop) [Decidable c] (e : α) : (if c then [e] else []) = [] ↔ ¬ c := by
  by_cases h : c <;> simp [h]

theorem singleton_iff (t : Nat) : isSingletonType t = true ↔ (t = 6 ∨ t = 7 ∨ t = 10) := by
  simp [isSingletonType, BUNDLE_AGE_BLOCK, HOP_COUNT_BLOCK, PREVIOUS_NODE_BLOCK]
  omega

/-- per-block conditions that do not involve other blocks -/
def localOk (p : Primary) (c : Canon) : Prop :=
  c.validate = [] ∧ ¬ ((has p.flags F_ADMIN || p.src == Eid.dtnNone) && bhas c.flags BF_STATUS_REPORT) = true

theorem validateBlocks_nil_iff (p : Primary) (cs : List Canon) :
    ∀ (nums types : List Nat),
      validateBlocks p cs nums types = [] ↔
        (∀ c ∈ cs, localOk p c ∧ c.num ∉ nums ∧ (c.btype ∈ types → ¬ (c.btype = 6 ∨ c.btype = 7 ∨ c.btype = 10))) ∧
        cs.Pairwise Spec.compatible := by
  induction cs with
  | nil => intro nums types; simp [validateBlocks]
  | cons c cs ih =>
    intro nums types
    simp only [validateBlocks, List.append_eq_nil_iff, ih (c.num :: nums) (c.btype :: types), ite_nil,
      List.contains_iff_mem, Bool.and_eq_true, singleton_iff, List.pairwise_cons]
    constructor
    · rintro ⟨⟨⟨⟨hv, hsr⟩, hnum⟩, hty⟩, hall, hpw⟩
      refine ⟨?_, ?_, hpw⟩
      · intro x hx
        rcases List.mem_cons.mp hx with rfl | hx
        · exact ⟨⟨hv, by simpa using hsr⟩, hnum, fun hm hs => hty ⟨hm, hs⟩⟩
        · obtain ⟨hl, hn, ht⟩ := hall x hx
          exact ⟨hl, fun hm => hn (List.mem_cons_of_mem _ hm), fun hm => ht (List.mem_cons_of_mem _ hm)⟩
      · intro x hx
        obtain ⟨_, hn, ht⟩ := hall x hx
        refine ⟨fun he => hn (by simp [he]), ?_⟩
        rintro ⟨he, hs⟩
        exact ht (by simp [he]) hs
    · rintro ⟨hall, hcomp, hpw⟩
      obtain ⟨⟨hv, hsr⟩, hnum, hty⟩ := hall c (by simp)
      refine ⟨⟨⟨⟨hv, by simpa using hsr⟩, hnum⟩, fun ⟨hm, hs⟩ => hty hm hs⟩, ?_, hpw⟩
      intro x hx
      obtain ⟨hl, hn, ht⟩ := hall x (List.mem_cons_of_mem _ hx)
      obtain ⟨hne, hnt⟩ := hcomp x hx
      refine ⟨hl, ?_, ?_⟩
      · intro hm
        rcases List.mem_cons.mp hm with he | hm
        · exact hne he.symm
        · exact hn hm
      · intro hm hs
        rcases List.mem_cons.mp hm with he | hm
        · exact hnt ⟨he.symm, hs⟩
        · exact ht hm hs

theorem payload_isSome_iff (b : Bundle) (hall : ∀ c ∈ b.canon, Spec.dataMatches c = true)
    (hs : ∀ c ∈ b.canon, decodableShape c = true) :
    b.payload.isSome = true ↔ ∃ c ∈ b.canon, c.btype = 1 := by
  unfold Bundle.payload Bundle.blockByType
  constructor
  · intro h
    cases hf : b.canon.find? (fun c => c.btype == PAYLOAD_BLOCK && c.extOk) with
    | none => simp [hf] at h
    | some c =>
      have hm := List.mem_of_find?_eq_some hf
      have hp := List.find?_some hf
      simp only [Bool.and_eq_true, beq_iff_eq, PAYLOAD_BLOCK] at hp
      exact ⟨c, hm, hp.1⟩
  · rintro ⟨c, hc, ht⟩
    have hex : ∃ x ∈ b.canon, (x.btype == PAYLOAD_BLOCK && x.extOk) = true :=
      ⟨c, hc, by simp [PAYLOAD_BLOCK, ht, extOk_eq c (hs c hc), hall c hc]⟩
    cases hf : b.canon.find? (fun c => c.btype == PAYLOAD_BLOCK && c.extOk) with
    | none =>
      rw [List.find?_eq_none] at hf
      obtain ⟨x, hx, hxp⟩ := hex
      exact absurd hxp (hf x hx)
    | some x =>
      have hm := List.mem_of_find?_eq_some hf
      have hp := List.find?_some hf
      simp only [Bool.and_eq_true, beq_iff_eq, PAYLOAD_BLOCK] at hp
      have hd := hall x hm
      unfold Spec.dataMatches at hd
      cases hxd : x.data <;> simp_all

/-- **C07.** For every bundle of a shape the decoder can produce, on which the stale
    reserved-bit masks do not hit, validation succeeds iff all rules of the property hold. -/
theorem validate_iff_spec (b : Bundle) (hm : staleMaskHit b = false)
    (hs : ∀ c ∈ b.canon, decodableShape c = true) :
    b.validate = [] ↔ Spec.Valid b := by
  simp only [staleMaskHit, Bool.or_eq_false_iff, List.any_eq_false] at hm
  obtain ⟨hmp, hmc⟩ := hm
  have hcv : ∀ c ∈ b.canon, (c.validate = [] ↔ Spec.dataMatches c = true) := by
    intro c hc
    have := hmc c hc
    simp only [Canon.validate, List.append_eq_nil_iff, ite_nil, extOk_eq c (hs c hc)]
    simp [this]
  have hnone : (b.primary.src == Eid.dtnNone) = decide (b.primary.src = .null 1 0) := rfl
  have hany7 : (b.canon.any (fun c => c.btype == BUNDLE_AGE_BLOCK)) = true ↔ ∃ c ∈ b.canon, c.btype = 7 := by
    simp [BUNDLE_AGE_BLOCK]
  simp only [Bundle.validate, List.append_eq_nil_iff, validateBlocks_nil_iff, ite_nil, Primary.validate,
    validateBundleFlags, hmp, Bool.false_eq_true, if_false, List.nil_append, Spec.Valid, localOk,
    has_frag, has_admin, has_mnf, has_rec, has_fwd, has_dlv, has_del, bhas_sr, eidOk_eq,
    Spec.isFragment, Spec.isAdminRecord, Spec.mustNotFragment, Spec.reqReception, Spec.reqForward,
    Spec.reqDelivery, Spec.reqDeletion, Spec.blockStatusReport, DTN_VERSION]
  constructor
  · rintro ⟨⟨⟨⟨⟨⟨⟨hver, hfr, hadm⟩, hdst⟩, hsrc⟩, hrpt⟩, hblocks, hpw⟩, hage⟩, hpay⟩
    have hall : ∀ c ∈ b.canon, Spec.dataMatches c = true := fun c hc => (hcv c hc).mp (hblocks c hc).1.1
    have hver' : b.primary.version = 7 := by
      by_cases h7 : b.primary.version = 7
      · exact h7
      · simp [h7] at hver
    refine ⟨hver', by simpa using hfr, by grind, by simpa using hdst,
      by simpa using hsrc, by simpa using hrpt, hall, hpw, ?_, ?_, ?_⟩
    · apply (payload_isSome_iff b hall hs).mp
      cases hp : b.payload
      · simp [hp] at hpay
      · rfl
    · intro hcond c hc
      have := (hblocks c hc).1.2
      rcases hcond with ha | hsn
      · simpa [ha] using this
      · have hd : decide (b.primary.src = Eid.null 1 0) = true := by simp [hsn]
        rw [hnone, hd] at this
        simpa using this
    · intro hts
      apply hany7.mp
      simpa [hts] using hage
  · rintro ⟨hver, hfr, hadm, hdst, hsrc, hrpt, hall, hpw, hpay, hsr, hage⟩
    refine ⟨⟨⟨⟨⟨⟨⟨by simp [hver], by simpa using hfr, by grind⟩, by simpa using hdst⟩,
      by simpa using hsrc⟩, by simpa using hrpt⟩, ?_, hpw⟩, ?_⟩, ?_⟩
    · intro c hc
      refine ⟨⟨(hcv c hc).mpr (hall c hc), ?_⟩, by simp, by simp⟩
      intro hbad
      simp only [Bool.and_eq_true, Bool.or_eq_true, hnone, decide_eq_true_eq] at hbad
      have := hsr hbad.1 c hc
      simp [this] at hbad
    · intro hbad
      simp only [Bool.and_eq_true, beq_iff_eq, Bool.not_eq_true'] at hbad
      obtain ⟨c, hc, h7⟩ := hage hbad.1
      have : (b.canon.any (fun c => c.btype == BUNDLE_AGE_BLOCK)) = true := hany7.mpr ⟨c, hc, h7⟩
      simp [this] at hbad
    · have := (payload_isSome_iff b hall hs).mpr hpay
      intro hn
      cases hp : b.payload <;> simp_all

/-- a rejected bundle comes with a non-empty error list (the list *is* the verdict) -/
theorem validate_err_nonempty (b : Bundle) : b.isValid = false ↔ b.validate ≠ [] := by
  simp [Bundle.isValid]

/-! ### non-vacuity: a valid and an invalid instance meeting the hypotheses -/
def good : Bundle :=
  { primary := { version := 7, flags := 0x20004, crc := .no, dst := .dtn 1 [47, 47, 110, 50, 47, 105],
                 src := .ipn 2 23 42, rpt := .null 1 0, ts := 0, seq := 1, lifetime := 3600000, fragOff := 0, total := 0 },
    canon := [ { btype := 7, num := 2, flags := 0, crc := .no, data := .age 300 },
               { btype := 1, num := 1, flags := 0, crc := .no, data := .data [0x41] } ] }
example : staleMaskHit good = false ∧ (∀ c ∈ good.canon, decodableShape c = true) ∧ good.validate = [] := by decide
example : Spec.Valid good := (validate_iff_spec good (by decide) (by decide)).mp (by decide)
/-- creation time zero without a bundle age block is rejected (the F2 witness) -/
example : ({ good with canon := [ { btype := 1, num := 1, flags := 0, crc := .no, data := .data [0x41] } ] } : Bundle).validate
    = [.ageMissing] := by decide

end Bp7.C07
