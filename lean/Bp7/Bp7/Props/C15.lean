/-
  C15 — JSON codec round trip (tree level; serde_json's text syntax is a modelled dependency).
-/
import Bp7.Model.Json
import Bp7.Props.C01
namespace Bp7.C15
open Bp7

theorem jNum_ok (n bound : Nat) (h : n < bound) : jNum bound (.num n) = .ok n := by simp [jNum, h]

theorem jReadBytes_jBytes : ∀ b : Bytes, jReadBytes (jBytes b) = .ok b := by
  intro b
  unfold jReadBytes jBytes
  simp only
  induction b with
  | nil => rfl
  | cons x xs ih =>
    have hx : x.toNat < 256 := x.toNat_lt
    simp [jReadU8s, jNum, hx, ih]

theorem jReadEid_jEid (e : Eid) (h : e.wf = true) : jReadEid (jEid e) = .ok e := by
  cases e with
  | null c v =>
    simp only [Eid.wf, Bool.and_eq_true, beq_iff_eq] at h
    obtain ⟨rfl, rfl⟩ := h
    simp [jEid, jReadEid, jEidRest, jNum, Eid.dtnNone]
  | dtn c ssp =>
    simp only [Eid.wf, Bool.and_eq_true, beq_iff_eq, Bool.not_eq_true'] at h
    obtain ⟨⟨⟨rfl, hne⟩, _⟩, _⟩ := h
    simp [jEid, jReadEid, jEidRest, jNum, hne]
  | ipn c n s =>
    simp only [Eid.wf, Bool.and_eq_true, beq_iff_eq, decide_eq_true_eq] at h
    obtain ⟨⟨⟨rfl, h1⟩, hn⟩, hs⟩ := h
    simp [jEid, jReadEid, jEidRest, jNum, jReadPair, hn, hs, withIpn, h1]

theorem jReadCrc_field (c : CrcVal) (hw : c.wire = true) : jReadCrc c.toCode (jCrcField c) = .ok c := by
  cases c <;> simp [CrcVal.wire] at hw <;>
    simp [jReadCrc, jCrcField, CrcVal.toCode, CrcVal.bytes, jReadBytes_jBytes]

theorem jReadPrimary_enc (p : Primary) (h : p.wf = true) (hw : p.crc.wire = true) :
    jReadPrimary (jPrimary p) = .ok p := by
  simp only [Primary.wf, Bool.and_eq_true] at h
  obtain ⟨⟨⟨⟨⟨⟨⟨⟨⟨⟨⟨hver, hfl⟩, _⟩, hdst⟩, hsrc⟩, hrpt⟩, hts⟩, hseq⟩, hlt⟩, hfo⟩, htot⟩, hfr⟩ := h
  have hver := of_decide_eq_true hver
  have hfl := of_decide_eq_true hfl
  have hts := of_decide_eq_true hts
  have hseq := of_decide_eq_true hseq
  have hlt := of_decide_eq_true hlt
  have hfo := of_decide_eq_true hfo
  have htot := of_decide_eq_true htot
  have hcode : p.crc.toCode < 256 := by
    cases hc : p.crc <;> simp [hc, CrcVal.wire] at hw <;> simp [CrcVal.toCode]
  cases hfrag : p.isFragment
  · simp only [hfrag, Bool.false_or, Bool.and_eq_true, beq_iff_eq] at hfr
    have hf2 : flagsContain F_ALL p.flags F_IS_FRAGMENT = false := hfrag
    simp only [jPrimary, hfrag, Bool.false_eq_true, if_false, List.append_nil, List.cons_append,
      List.nil_append, jReadPrimary, jNum_ok _ _ hver, jNum_ok _ _ hfl, jNum_ok _ _ hcode,
      jReadEid_jEid _ hdst, jReadEid_jEid _ hsrc, jReadEid_jEid _ hrpt, jReadPair, jNum_ok _ _ hts,
      jNum_ok _ _ hseq, jNum_ok _ _ hlt, Res.bind_ok, hf2, jReadCrc_field _ hw]
    cases p; simp_all
  · have hf2 : flagsContain F_ALL p.flags F_IS_FRAGMENT = true := hfrag
    simp only [jPrimary, hfrag, if_true, List.cons_append, List.nil_append, jReadPrimary,
      jNum_ok _ _ hver, jNum_ok _ _ hfl, jNum_ok _ _ hcode,
      jReadEid_jEid _ hdst, jReadEid_jEid _ hsrc, jReadEid_jEid _ hrpt, jReadPair, jNum_ok _ _ hts,
      jNum_ok _ _ hseq, jNum_ok _ _ hlt, Res.bind_ok, hf2, jNum_ok _ _ hfo, jNum_ok _ _ htot,
      jReadCrc_field _ hw]

theorem jReadCanon_enc (c : Canon) (h : c.wf = true) (hw : c.crc.wire = true) :
    jReadCanon (jCanon c) = .ok c := by
  have hb := decodeBtsd_enc c h
  simp only [Canon.wf, Bool.and_eq_true, U64_eq] at h
  obtain ⟨⟨⟨⟨⟨ht, hn⟩, hf⟩, _⟩, _⟩, _⟩ := h
  have ht := of_decide_eq_true ht
  have hn := of_decide_eq_true hn
  have hf := of_decide_eq_true hf
  have hcode : c.crc.toCode < 256 := by
    cases hc : c.crc <;> simp [hc, CrcVal.wire] at hw <;> simp [CrcVal.toCode]
  simp only [jCanon, List.cons_append, List.nil_append, jReadCanon, U64_eq, jNum_ok _ _ ht, jNum_ok _ _ hn,
    jNum_ok _ _ hf, jNum_ok _ _ hcode, jReadBytes_jBytes, hb, Res.bind_ok, jReadCrc_field _ hw]

theorem jReadCanons_enc (cs : List Canon) (h : ∀ c ∈ cs, c.wf = true ∧ c.crc.wire = true) :
    jReadCanons (cs.map jCanon) = .ok cs := by
  induction cs with
  | nil => rfl
  | cons c cs ih =>
    have hc := h c (by simp)
    simp [jReadCanons, jReadCanon_enc c hc.1 hc.2, ih (fun x hx => h x (by simp [hx]))]

/-- **C15.** Parsing the JSON form of any well-formed bundle (fragment or not, any CRC type,
    any prior CRC state) yields the bundle as it is after serialisation. -/
theorem json_roundtrip (b : Bundle) (h : b.wf = true) :
    Bundle.fromJson (b.toJson).2 = .ok (b.toJson).1 := by
  obtain ⟨hp, hc⟩ := C01.calculateCrc_wf b h
  simp only [Bundle.toJson, jBundle, Bundle.fromJson, jReadPrimary_enc _ hp.1 hp.2,
    jReadCanons_enc _ hc, Res.bind_ok]

/-- the F5 witness: with the pinned rule (no size hint ⇒ no fragment fields) the sample
    fragment does not parse back; here it does -/
example : Bundle.fromJson (C01.sample.toJson).2 = .ok (C01.sample.toJson).1 :=
  json_roundtrip C01.sample (by decide)
example : C01.sample.primary.isFragment = true := by decide

end Bp7.C15
