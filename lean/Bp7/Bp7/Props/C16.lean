/-
  C16 — BPSec integrity: IPPT and HMAC results follow RFC 9173, the abstract security block
  follows RFC 9172, and the IPPT separates targets that differ in a protected field.
-/
import Bp7.Spec.Bpsec
import Bp7.Lemmas.SpecEq
import Bp7.Lemmas.Cbor
namespace Bp7.C16
open Bp7 Bp7.Bpsec Bp7.Spec

def SecHeader.wf (h : SecHeader) : Prop := h.btype < U64 ∧ h.num < U64 ∧ h.flags < 256

/-- the property's domain for the optional primary block: C01 domain, no CRC -/
def primOk : Option Primary → Prop
  | some p => p.wf = true ∧ p.crc = .no
  | none => True

theorem encPrimary_nocrc (p : Primary) (h : p.wf = true) (hc : p.crc = .no) :
    encPrimary p = encItem (primaryItem p) := by
  rw [encPrimary_eq p h]
  simp [primaryItem, hc, crcItems, CrcVal.bytes, crcType, crcItem]

theorem targetContents_eq (t : Canon) (h : t.wf = true) :
    targetContents false t.data = encItem (.bstr (btsdBytes t.data)) := by
  have hb := btsd_eq t h
  have hl := btsd_length t h
  rw [← hb, ← encBytes_eq _ hl]
  cases hd : t.data <;> simp [targetContents, btsd, hd]

/-- **C16 (IPPT).** For every scope-flag word, optional primary block of the domain, optional
    security header and well-formed target of any type, the plaintext is the RFC 9173 §3.7
    concatenation. -/
theorem ippt_eq_spec (flags : Nat) (hf : flags < 65536) (primary : Option Primary) (hp : primOk primary)
    (sec : Option SecHeader) (hs : ∀ h, sec = some h → SecHeader.wf h) (t : Canon) (ht : t.wf = true) :
    Bpsec.ippt false flags primary sec t = Spec.ippt flags primary sec t := by
  have htc := targetContents_eq t ht
  have htw := ht
  simp only [Canon.wf, Bool.and_eq_true, U64_eq] at htw
  obtain ⟨⟨⟨⟨⟨h1, h2⟩, h3⟩, _⟩, _⟩, _⟩ := htw
  have h1 := of_decide_eq_true h1
  have h2 := of_decide_eq_true h2
  have h3 := of_decide_eq_true h3
  unfold Bpsec.ippt Spec.ippt ipptItems scopeHas
  simp only [encItems_append, htc]
  congr 1
  congr 1
  congr 1
  congr 1
  · simp [encItems, encUint_eq flags (by omega)]
  · split
    · cases primary with
      | none => rfl
      | some p => simp [encItems, encPrimary_nocrc p hp.1 hp.2]
    · rfl
  · split
    · simp [encItems, encUint_eq _ h1, encUint_eq _ h2, encUint_eq t.flags (by omega)]
    · rfl
  · split
    · cases sec with
      | none => rfl
      | some h =>
        obtain ⟨a, b, c⟩ := hs h rfl
        rw [U64_eq] at a b
        simp [encItems, encUint_eq _ a, encUint_eq _ b, encUint_eq h.flags (by omega)]
    · rfl
  · simp [encItems]

/-! ### security results -/

/-- HMAC-SHA2 of RFC 9173 §3.3.1 by SHA variant (RFC 2104 construction over FIPS 180-4) -/
def hmacSha2 (variant : Nat) (key msg : Bytes) : Bytes :=
  if variant = 5 then Sha2.hmac Sha2.sha256 64 key msg
  else if variant = 6 then Sha2.hmac Sha2.sha384 128 key msg
  else Sha2.hmac Sha2.sha512 128 key msg

theorem hmacVariant_eq (v : Nat) (hv : v = 5 ∨ v = 6 ∨ v = 7) (key msg : Bytes) :
    Sha2.hmacVariant v key msg = some (hmacSha2 v key msg) := by
  rcases hv with rfl | rfl | rfl <;> simp [Sha2.hmacVariant, hmacSha2]

/-- one result set per IPPT that belongs to a target, in order: a single (id 1, HMAC) pair -/
def resultsOf (targets : List Nat) (v : Nat) (key : Bytes) (ippts : List (Nat × Bytes)) : List (List (Nat × Bytes)) :=
  (ippts.filter (fun x => targets.contains x.1)).map (fun x => [(1, hmacSha2 v key x.2)])

/-- **C16 (results).** For every key, SHA variant 5/6/7, target list and IPPT list: exactly one
    result set per IPPT that belongs to a target, in order, each a single pair
    (result id 1, HMAC-SHA2 of that plaintext with that key); nothing else in the block changes. -/
theorem results_spec (b : Bib) (key : Bytes) (ippts : List (Nat × Bytes)) (p : Params) (i v : Nat)
    (hp : b.params = some p) (hsv : p.shaVariant = some (i, v)) (hv : v = 5 ∨ v = 6 ∨ v = 7) :
    computeHmac false b key ippts = .ok { b with results := resultsOf b.targets v key ippts } := by
  unfold computeHmac resultsOf
  simp only [hp, hsv]
  split
  · rename_i he
    have : ippts.filter (fun x => b.targets.contains x.1) = [] := by simpa using he
    rw [this]; rfl
  · simp only [hmacVariant_eq v hv, Bool.false_eq_true, if_false, Option.getD_some]

theorem results_single (b b' : Bib) (key : Bytes) (ippts : List (Nat × Bytes)) (p : Params) (i v : Nat)
    (hp : b.params = some p) (hsv : p.shaVariant = some (i, v)) (hv : v = 5 ∨ v = 6 ∨ v = 7)
    (h : computeHmac false b key ippts = .ok b') :
    ∀ r ∈ b'.results, ∃ m, r = [(1, hmacSha2 v key m)] := by
  rw [results_spec b key ippts p i v hp hsv hv] at h
  injection h with h
  subst h
  intro r hr
  simp only [resultsOf, List.mem_map] at hr
  obtain ⟨x, _, rfl⟩ := hr
  exact ⟨x.2, rfl⟩

def bibSample (results : List (List (Nat × Bytes))) : Bib :=
  { targets := [2], ctxFlags := 1, source := .null 1 0,
    params := some { shaVariant := some (1, 5), wrappedKey := none, scopeFlags := none },
    results := results }

/-- the pinned tree (before the fix) stored the target's block number as result id -/
theorem pinned_result_id (key : Bytes) :
    computeHmac true (bibSample []) key [(2, [])] = .ok (bibSample [[(2, hmacSha2 5 key [])]]) := by
  simp [computeHmac, bibSample, Sha2.hmacVariant, hmacSha2]

/-- … the repaired code stores 1 (non-vacuity of `results_spec`) -/
example (key : Bytes) :
    computeHmac false (bibSample []) key [(2, [])] = .ok (bibSample [[(1, hmacSha2 5 key [])]]) := by
  rw [results_spec (bibSample []) key [(2, [])] _ 1 5 rfl rfl (Or.inl rfl)]
  simp [bibSample, resultsOf]

/-! ### abstract security block -/

def pairItem (x : Nat × Bytes) : Item := .arr [.uint x.1, .bstr x.2]

/-- value ranges of the Rust types (u64 ids and targets, u8/u16 parameters, Vec lengths) -/
def Params.wf (p : Params) : Prop :=
  (∀ i v, p.shaVariant = some (i, v) → i < 256 ∧ v < 65536)
  ∧ (∀ i k, p.wrappedKey = some (i, k) → i < 256 ∧ k.length < U64)
  ∧ (∀ i f, p.scopeFlags = some (i, f) → i < 256 ∧ f < 65536)

theorem encUints_eq (l : List Nat) (h : ∀ x ∈ l, x < U64) :
    (l.map encUint).flatten = encItems (l.map .uint) := by
  induction l with
  | nil => rfl
  | cons x xs ih =>
    have hx := h x (by simp)
    rw [U64_eq] at hx
    simp only [List.map_cons, List.flatten_cons, encItems, encItem, ih (fun y hy => h y (by simp [hy])),
      encUint_eq x hx]

theorem encResults_ok : ∀ (rs : List (List (Nat × Bytes))),
    (∀ r ∈ rs, ∃ i v, r = [(i, v)] ∧ i < U64 ∧ v.length < U64) →
    encResults rs.length rs = .ok (encItems (rs.map (fun r => .arr (r.map pairItem)))) := by
  intro rs
  induction rs with
  | nil => intro _; rfl
  | cons r rest ih =>
    intro h
    obtain ⟨i, v, rfl, hi, hv⟩ := h r (by simp)
    rw [U64_eq] at hi hv
    simp only [List.length_cons, encResults, ih (fun r hr => h r (by simp [hr])), Res.bind]
    simp only [List.map_cons, List.map_nil, encItems, encItem, pairItem, List.length_cons, List.length_nil,
      encUint_eq i hi, encBytes_eq v hv, encArrayHead_eq 1 (by omega), encArrayHead_eq 2 (by omega),
      List.append_nil, List.append_assoc]

theorem encParams_eq (p : Params) (h : Params.wf p) : encParams p = encItem (.arr (paramItems p)) := by
  obtain ⟨h1, h2, h3⟩ := h
  unfold encParams paramItems
  rcases hs : p.shaVariant with _ | ⟨i1, v1⟩ <;> rcases hk : p.wrappedKey with _ | ⟨i2, k2⟩ <;>
    rcases hf : p.scopeFlags with _ | ⟨i3, f3⟩ <;>
    simp only [List.append_nil, List.nil_append, List.length_cons, List.length_nil, List.flatten_cons,
      List.flatten_nil, List.cons_append, encItem, encItems, List.append_assoc]
  all_goals (try have a1 := h1 _ _ hs)
  all_goals (try have a2 := h2 _ _ hk)
  all_goals (try have a3 := h3 _ _ hf)
  all_goals (try rw [U64_eq] at a2)
  all_goals
    simp only [encArrayHead_eq _ (by omega : (0:Nat) < 18446744073709551616),
      encArrayHead_eq _ (by omega : (1:Nat) < 18446744073709551616),
      encArrayHead_eq _ (by omega : (2:Nat) < 18446744073709551616),
      encArrayHead_eq _ (by omega : (3:Nat) < 18446744073709551616)]
  all_goals (try rw [encUint_eq i1 (by omega), encUint_eq v1 (by omega)])
  all_goals (try rw [encUint_eq i2 (by omega), encBytes_eq k2 (by omega)])
  all_goals (try rw [encUint_eq i3 (by omega), encUint_eq f3 (by omega)])
  all_goals simp [encItem, encItems, List.append_assoc]

/-- **C16 (abstract security block).** For every integrity block with parameters present, one
    single-pair result set per target and fields in the range of their Rust types, `to_cbor`
    is the RFC 9172 §3.6 field sequence. -/
theorem asb_eq_spec (b : Bib) (p : Params) (hp : b.params = some p) (hpw : Params.wf p)
    (ht : ∀ x ∈ b.targets, x < U64) (hn : b.targets.length < U64) (hc : b.ctxFlags < 256)
    (hsrc : b.source.wf = true) (hlen : b.results.length = b.targets.length)
    (hr : ∀ r ∈ b.results, ∃ i v, r = [(i, v)] ∧ i < U64 ∧ v.length < U64) :
    asbToCbor b = .ok (encItems (asbItems b p)) := by
  unfold asbToCbor
  rw [← hlen, encResults_ok b.results hr]
  simp only [Res.bind, hp, encParams_eq p hpw]
  rw [U64_eq] at hn
  have hpi : (fun r : List (Nat × Bytes) => Item.arr (r.map pairItem))
      = (fun r => Item.arr (r.map (fun x => Item.arr [.uint x.1, .bstr x.2]))) := rfl
  simp only [asbItems, encItems, encItem, List.length_map, encUints_eq b.targets ht, hlen,
    encArrayHead_eq _ hn, encUint_eq 1 (by omega), encUint_eq b.ctxFlags (by omega),
    encEid_eq b.source (Eid.bounded_of_wf _ hsrc), List.append_nil, List.append_assoc, hpi]

/-! ### the IPPT separates targets -/

theorem uint_cancel (a b : Nat) (ha : a < 18446744073709551616) (hb : b < 18446744073709551616)
    (x y : Bytes) (h : encUint a ++ x = encUint b ++ y) : a = b ∧ x = y := by
  have h1 := readU64_enc a ha x 0
  have h2 := readU64_enc b hb y 0
  rw [h, h2] at h1
  injection h1 with h3 h4
  injection h3 with h3
  injection h4 with h4
  exact ⟨h3.symm, h4.symm⟩

theorem bytes_cancel (a b : Bytes) (ha : a.length < 18446744073709551616) (hb : b.length < 18446744073709551616)
    (x y : Bytes) (h : encBytes a ++ x = encBytes b ++ y) : a = b ∧ x = y := by
  have h1 := readByteBuf_enc a ha x 0
  have h2 := readByteBuf_enc b hb y 0
  rw [h, h2] at h1
  injection h1 with h3 h4
  injection h3 with h3
  injection h4 with h4
  exact ⟨h3.symm, h4.symm⟩

theorem targetContents_btsd (d : CData) : targetContents false d = encBytes (btsd d) := by
  cases d <;> rfl

/-- **C16 (separation).** With the same scope flags, primary block and security header, two
    well-formed targets with the same IPPT have the same block-type-specific data and — when the
    target header is in scope — the same type, number and flags. Contrapositive: targets that differ
    in any protected field never yield the same plaintext. -/
theorem ippt_injective (flags : Nat) (primary : Option Primary) (sec : Option SecHeader) (t1 t2 : Canon)
    (h1 : t1.wf = true) (h2 : t2.wf = true)
    (h : Bpsec.ippt false flags primary sec t1 = Bpsec.ippt false flags primary sec t2) :
    btsd t1.data = btsd t2.data ∧
    (flags.testBit 1 = true → t1.btype = t2.btype ∧ t1.num = t2.num ∧ t1.flags = t2.flags) := by
  have l1 := btsd_length t1 h1
  have l2 := btsd_length t2 h2
  simp only [Canon.wf, Bool.and_eq_true, U64_eq] at h1 h2
  obtain ⟨⟨⟨⟨⟨a1, b1⟩, c1⟩, _⟩, _⟩, _⟩ := h1
  obtain ⟨⟨⟨⟨⟨a2, b2⟩, c2⟩, _⟩, _⟩, _⟩ := h2
  have a1 := of_decide_eq_true a1
  have b1 := of_decide_eq_true b1
  have c1 := of_decide_eq_true c1
  have a2 := of_decide_eq_true a2
  have b2 := of_decide_eq_true b2
  have c2 := of_decide_eq_true c2
  unfold Bpsec.ippt scopeHas at h
  simp only [List.append_assoc, targetContents_btsd] at h
  have h := List.append_cancel_left (List.append_cancel_left h)
  by_cases hb : flags.testBit 1 = true
  · simp only [hb, if_true, List.append_assoc] at h
    obtain ⟨e1, h⟩ := uint_cancel _ _ a1 a2 _ _ h
    obtain ⟨e2, h⟩ := uint_cancel _ _ b1 b2 _ _ h
    obtain ⟨e3, h⟩ := uint_cancel _ _ (by omega) (by omega) _ _ h
    have h := List.append_cancel_left h
    have := bytes_cancel _ _ l1 l2 [] [] (by simpa using h)
    exact ⟨this.1, fun _ => ⟨e1, e2, e3⟩⟩
  · simp only [hb, Bool.false_eq_true, if_false, List.nil_append] at h
    have h := List.append_cancel_left h
    have := bytes_cancel _ _ l1 l2 [] [] (by simpa using h)
    exact ⟨this.1, fun hc => absurd hc hb⟩

/-- for opaque and payload targets "same block-type-specific data" is "same bytes" -/
example (b1 b2 : Bytes) (h : btsd (.data b1) = btsd (.data b2)) : b1 = b2 := h

/-- the pinned tree wrapped opaque data twice: not the RFC concatenation -/
theorem pinned_ippt_differs :
    Bpsec.ippt true 0 none none { btype := 192, num := 2, flags := 0, crc := .no, data := .unknown [7] }
      ≠ Spec.ippt 0 none none { btype := 192, num := 2, flags := 0, crc := .no, data := .unknown [7] } := by
  decide

/-- non-vacuity: RFC 9173 Appendix A.1.  IPPT of the payload block with scope flags 0 -/
def a1Payload : Canon :=
  { btype := 1, num := 1, flags := 0, crc := .no,
    data := .data [0x52, 0x65, 0x61, 0x64, 0x79, 0x20, 0x74, 0x6f, 0x20, 0x67, 0x65, 0x6e, 0x65, 0x72, 0x61, 0x74, 0x65,
                   0x20, 0x61, 0x20, 0x33, 0x32, 0x2d, 0x62, 0x79, 0x74, 0x65, 0x20, 0x70, 0x61, 0x79, 0x6c, 0x6f, 0x61, 0x64] }

example : a1Payload.wf = true := by decide
example : Bpsec.ippt false 0 none (some ⟨11, 2, 0⟩) a1Payload
    = [0x00, 0x58, 0x23] ++ btsd a1Payload.data := by decide

end Bp7.C16
