/-
  C03, other conformant spellings: semantic tags in front of a bundle.

  RFC 8949 lets any data item be wrapped in tags; serde_cbor (built without its `tags` feature,
  as this crate does) skips them, each at the price of one level of its recursion budget.  A peer
  that prefixes the bundle with the self-described-CBOR tag 55799 (`d9 d9 f7`) — or with any other
  tags — is therefore understood: the tagged bytes decode to the very bundle the untagged bytes
  decode to, for every conformant bundle and up to 123 tags.
-/
import Bp7.Props.C19
namespace Bp7.C03
open Bp7 Bp7.C19

/-- the bundle visitor on `9f <blocks> ff <rest>` at any depth that leaves four levels for the
    blocks, with any positive fuel -/
theorem parse_wire_depth (b : Bundle) (h : Conformant b) (rest : Bytes) (f D : Nat) (hD : 4 ≤ D) :
    parseWith (kSeq visitBundle) (f + 1) ⟨wire b ++ rest, D + 1⟩ = (.ok b, ⟨rest, D + 1⟩) := by
  obtain ⟨hp, hc⟩ := h
  obtain ⟨pb, ptl, hpe, hpne⟩ := encPrimary_cons b.primary
  have hrp := readPrimary_enc b.primary hp.1 hp.2 ((b.canon.map encCanon).flatten ++ (255 :: rest)) D hD
  have hcol := collectCanons b.canon hc D (by omega) rest
    (((b.canon.map encCanon).flatten ++ (255 :: rest)).length + 1) []
    (by have := encCanons_length b.canon; simp only [List.length_append, List.length_cons]; omega)
  rw [hpe] at hrp
  simp only [List.cons_append] at hrp
  unfold wire
  simp only [encBlocks, hpe, List.cons_append, List.nil_append, List.append_assoc]
  rw [parseWith]
  have h9f : readHead ⟨(0x9f : UInt8) :: pb :: (ptl ++ ((b.canon.map encCanon).flatten ++ (255 :: rest))), D + 1⟩
      = (.ok .arrayI, ⟨pb :: (ptl ++ ((b.canon.map encCanon).flatten ++ (255 :: rest))), D + 1⟩) := by
    simp [readHead]
  have hD0 : ¬ D = 0 := by omega
  simp only [h9f, kSeq, recursionChecked]
  simp only [visitBundle, reqElem, nextElem, hpne, if_false, hrp, Nat.add_sub_cancel, hD0, Nat.succ_ne_zero]
  simp only [List.nil_append] at hcol
  rw [hcol]
  simp [seqEnd]

def tagBytes (ts : List Nat) : Bytes := (ts.map (encHead 6)).flatten

/-- tags in front cost one level and one unit of fuel each, nothing else -/
theorem parse_tags (b : Bundle) (h : Conformant b) (rest : Bytes) :
    ∀ (ts : List Nat), (∀ t ∈ ts, t < 18446744073709551616) → ∀ (f D : Nat), 4 ≤ D →
      parseWith (kSeq visitBundle) (f + 1 + ts.length) ⟨tagBytes ts ++ (wire b ++ rest), D + 1 + ts.length⟩
        = (.ok b, ⟨rest, D + 1 + ts.length⟩) := by
  intro ts
  induction ts with
  | nil => intro _ f D hD; simpa [tagBytes] using parse_wire_depth b h rest f D hD
  | cons t ts ih =>
    intro hts f D hD
    have ht := hts t (by simp)
    have ih' := ih (fun x hx => hts x (by simp [hx])) f D hD
    have hr := readHead_encHead 6 t (by omega) ht (tagBytes ts ++ (wire b ++ rest)) (D + 1 + (ts.length + 1))
    simp only [tagBytes, List.map_cons, List.flatten_cons, List.length_cons, List.append_assoc] at hr ⊢
    rw [show f + 1 + (ts.length + 1) = (f + 1 + ts.length) + 1 by omega]
    simp only [parseWith, hr]
    simp only [headOf, show ¬ (6 : Nat) = 0 by decide, show ¬ (6 : Nat) = 1 by decide, show ¬ (6 : Nat) = 2 by decide,
      show ¬ (6 : Nat) = 3 by decide, show ¬ (6 : Nat) = 4 by decide, show ¬ (6 : Nat) = 5 by decide, if_false]
    simp only [recursionChecked, show ¬ D + 1 + (ts.length + 1) = 0 by omega, if_false,
      show D + 1 + (ts.length + 1) - 1 = D + 1 + ts.length by omega, show ¬ D + 1 + ts.length = 0 by omega]
    simp only [tagBytes] at ih'
    rw [ih']
    simp only [Nat.add_assoc]

/-- **C03 (tagged bundles).** Every conformant bundle prefixed with up to 123 semantic tags of any
    numbers decodes to exactly the bundle the untagged bytes decode to. -/
theorem accepted_tagged (b : Bundle) (h : Conformant b) (ts : List Nat)
    (hts : ∀ t ∈ ts, t < 18446744073709551616) (hn : ts.length ≤ 123) :
    decodeBundle (tagBytes ts ++ wire b) = .ok b := by
  have := parse_tags b h [] ts hts (129 - ts.length) (127 - ts.length) (by omega)
  rw [show 129 - ts.length + 1 + ts.length = 130 by omega, show 127 - ts.length + 1 + ts.length = 128 by omega] at this
  simp only [List.append_nil] at this
  simp [decodeBundle, fromSlice, readBundle, readSeq, tagFuel, this]

/-- the self-described-CBOR tag 55799 is `d9 d9 f7` -/
example : tagBytes [55799] = [0xd9, 0xd9, 0xf7] := by decide

end Bp7.C03
