/-
  C09 — generated creation timestamps are unique under any thread interleaving and any clock.
-/
import Bp7.Model.TsGen
namespace Bp7.C09
open Bp7 Bp7.TsGen

/-- lexicographic order on (time, seq) -/
def lexLt (a b : Nat × Nat) : Prop := a.1 < b.1 ∨ (a.1 = b.1 ∧ a.2 < b.2)

/-- every pair handed out so far is below the shared (last, next), and they are pairwise distinct -/
def Inv (s : St) : Prop := (∀ p ∈ s.out, lexLt p (s.last, s.next)) ∧ s.out.Nodup

theorem inv_init : Inv init := by simp [Inv, init]

theorem lexLt_trans {a b c : Nat × Nat} (h1 : lexLt a b) (h2 : lexLt b c ∨ b = c) : lexLt a c := by
  unfold lexLt at *
  rcases h2 with h2 | rfl
  · omega
  · exact h1

theorem inv_critical (s : St) (now : Nat) (h : Inv s) : Inv (critical s now) := by
  obtain ⟨hlt, hnd⟩ := h
  unfold critical
  by_cases hc : now > s.last
  · simp only [hc, if_true]
    refine ⟨?_, ?_⟩
    · intro p hp
      rcases List.mem_cons.mp hp with rfl | hp
      · simp [lexLt]
      · have := hlt p hp
        unfold lexLt at *; simp at this ⊢; omega
    · refine List.nodup_cons.mpr ⟨?_, hnd⟩
      intro hm
      have := hlt _ hm
      unfold lexLt at this; simp at this; omega
  · simp only [hc, if_false]
    refine ⟨?_, ?_⟩
    · intro p hp
      rcases List.mem_cons.mp hp with rfl | hp
      · simp [lexLt]
      · have := hlt p hp
        unfold lexLt at *; simp at this ⊢; omega
    · refine List.nodup_cons.mpr ⟨?_, hnd⟩
      intro hm
      have := hlt _ hm
      unfold lexLt at this; simp at this

theorem inv_step (s : St) (t clock : Nat) (h : Inv s) : Inv (step s t clock) := by
  unfold step
  cases hl : lookup t s.pcs with
  | none => exact h
  | some now => exact inv_critical _ now h

theorem inv_run (sched : List (Nat × Nat)) : Inv (run sched) := by
  unfold run
  suffices ∀ s, Inv s → Inv (sched.foldl (fun s e => step s e.1 e.2) s) from this init inv_init
  induction sched with
  | nil => intro s h; exact h
  | cons e es ih => intro s h; exact ih _ (inv_step s e.1 e.2 h)

/-- **C09 (uniqueness).** For every number of threads, every interleaving of their steps and
    every sequence of clock readings (same millisecond, later, stepped back), all (time, sequence
    number) pairs returned so far are pairwise distinct. -/
theorem now_unique (sched : List (Nat × Nat)) : (run sched).out.Nodup := (inv_run sched).2

/-- **C09 (sequential behaviour).** A call that does not overlap any other (its two steps are
    adjacent) returns `(now, 0)` when the clock reads later than every time handed out before,
    and otherwise the successor of the last pair handed out. -/
theorem now_sequential (sched : List (Nat × Nat)) (t c c' : Nat)
    (hidle : lookup t (run sched).pcs = none) :
    let s := run sched
    let s' := run (sched ++ [(t, c), (t, c')])
    (c > s.last → s'.out.head? = some (c, 0)) ∧
    (¬ c > s.last → s'.out.head? = some (s.last, s.next)) := by
  have hrun : run (sched ++ [(t, c), (t, c')]) = step (step (run sched) t c) t c' := by
    simp [run, List.foldl_append]
  simp only [hrun]
  have h1 : step (run sched) t c = { run sched with pcs := (t, c) :: (run sched).pcs } := by
    simp [step, hidle]
  rw [h1]
  constructor
  · intro hc
    simp [step, lookup, erase, critical, hc]
  · intro hc
    simp [step, lookup, erase, critical, hc]

/-- consecutive non-overlapping calls within the same millisecond: consecutive sequence numbers -/
example : (run [(0, 5), (0, 5), (0, 5), (0, 5), (1, 5), (1, 5), (0, 6), (0, 6)]).out
    = [(6, 0), (5, 2), (5, 1), (5, 0)] := by decide
/-- clock stepping back: still unique (time never goes back, sequence continues) -/
example : (run [(0, 5), (0, 5), (0, 4), (0, 4), (0, 5), (0, 5)]).out = [(5, 2), (5, 1), (5, 0)] := by decide

/-! ### the pinned code violates the property (F4 witnesses) -/

def hasDup (l : List (Nat × Nat)) : Bool := !(decide l.Nodup)

/-- one thread, clock 5, 4, 5: `(5,0)` is returned twice -/
theorem pinned_not_unique_clock_back :
    hasDup (runP [(0,5),(0,5),(0,5),(0,5), (0,4),(0,4),(0,4),(0,4), (0,5),(0,5),(0,5),(0,5)]).out = true := by
  decide

/-- two threads in the same millisecond after an earlier one: A swaps, B runs a whole call,
    A resets the counter afterwards — B's number is handed out again -/
theorem pinned_not_unique_race :
    hasDup (runP [(0,4),(0,4),(0,4),(0,4),   -- warm-up call in ms 4
                  (0,5),(0,5),               -- A: clock, swap (old = 4)
                  (1,5),(1,5),(1,5),(1,5),   -- B: complete call in ms 5 -> (5,1)
                  (0,5),(0,5),               -- A: store 0, fetch_add -> (5,0)
                  (1,5),(1,5),(1,5),(1,5)]).out = true := by   -- B again -> (5,1)
  decide

end Bp7.C09
