/-
  C20 — the command-line tool agrees with the library.
  Theorems about the model of src/main.rs (Bp7/Model/Cli.lean); the model is tied to the real
  `bp7` binary by running it (correspondence check, harness/src/p_cli.rs).
-/
import Bp7.Model.Cli
import Bp7.Props.C01
import Bp7.Props.C10
import Bp7.Props.C18
namespace Bp7.C20
open Bp7 Bp7.Cli

/-! ### encode -/

theorem updateCrc_no_p (p : Primary) (h : p.crc = .no) : p.updateCrc = p := by
  cases p; simp only at h; subst h; rfl

theorem updateCrc_no_c (c : Canon) (h : c.crc = .no) : c.updateCrc = c := by
  cases c; simp only at h; subst h; rfl

/-- the bundle `generate_bundle` builds from a primary block without CRC -/
def built (p : Primary) (payload : Bytes) : Bundle := { primary := p, canon := [newPayloadBlock 0 payload] }

theorem setCrc0 (p : Primary) (payload : Bytes) (hc : p.crc = .no) : (built p payload).setCrc 0 = built p payload := by
  cases p; simp only at hc; subst hc; rfl

theorem built_wf (p : Primary) (payload : Bytes) (hp : p.wf = true) (hl : payload.length < U64) :
    (built p payload).wf = true := by
  simp only [Bundle.wf, built, Bool.and_eq_true, List.all_cons, List.all_nil, Bool.and_true]
  refine ⟨hp, ?_⟩
  simp only [Canon.wf, newPayloadBlock, Bool.and_eq_true, btsd]
  exact ⟨⟨⟨⟨⟨by simp [PAYLOAD_BLOCK, U64_eq], by simp [U64_eq]⟩, by simp⟩, rfl⟩, decide_eq_true hl⟩, by simp⟩

theorem built_toCbor (p : Primary) (payload : Bytes) (hc : p.crc = .no) :
    ((built p payload).toCbor).1 = built p payload := by
  simp only [Bundle.toCbor, Bundle.calculateCrc, built, List.map_cons, List.map_nil,
    updateCrc_no_p p hc, updateCrc_no_c (newPayloadBlock 0 payload) rfl]

theorem built_payload (p : Primary) (payload : Bytes) : (built p payload).payload = some payload := by
  simp [Bundle.payload, Bundle.blockByType, built, newPayloadBlock, Canon.extOk, PAYLOAD_BLOCK]

/-- **C20 (encode, raw and hex).** For every primary block without CRC of the C01 domain and every
    payload: either the tool refuses (the bundle would not validate; exit 101, nothing printed) or
    it prints bytes that decode to exactly that primary block and payload and validate; the hex
    mode prints the lower-case hex form of the same bytes and a newline, which `unhexify` maps back. -/
theorem generate_spec (p : Primary) (payload : Bytes) (hp : p.wf = true) (hc : p.crc = .no)
    (hl : payload.length < U64) :
    (generate p payload false = .panic ∧ generate p payload true = .panic ∧ (built p payload).validate ≠ [])
    ∨ (∃ bytes, generate p payload false = .ok bytes
        ∧ generate p payload true = .ok (hexify bytes ++ [10])
        ∧ unhexify (hexify bytes) = .ok bytes
        ∧ decodeBundle bytes = .ok (built p payload)
        ∧ (built p payload).validate = []
        ∧ (built p payload).payload = some payload) := by
  unfold generate
  have hs := setCrc0 p payload hc
  unfold built at hs
  simp only [hs]
  by_cases hv : (built p payload).validate = []
  · right
    unfold built at hv
    refine ⟨(({ primary := p, canon := [newPayloadBlock 0 payload] } : Bundle).toCbor).2, by simp [hv], by simp [hv],
      C18.unhex_hex _, ?_, hv, built_payload p payload⟩
    have := C01.decode_encode (built p payload) (built_wf p payload hp hl)
    rw [built_toCbor p payload hc] at this
    exact this
  · left
    unfold built at hv
    exact ⟨by simp [hv], by simp [hv], hv⟩

/-- **C20 (manifest → primary block).** What `manifest_to_primary` returns carries the fields of the
    builder the manifest's entries were folded into, the fixed version and CRC type, and the given
    creation timestamp; it refuses a manifest without destination. -/
theorem manifest_fields (manifest : Bytes) (ts seq : Nat) (p : Primary)
    (h : manifestToPrimary manifest ts seq = .ok p) :
    ∃ b, applyEntries (entriesOf manifest) {} = .ok b ∧ b.dst ≠ Eid.dtnNone ∧
      p.version = 7 ∧ p.crc = .no ∧ p.ts = ts ∧ p.seq = seq ∧ p.fragOff = 0 ∧ p.total = 0 ∧
      p.dst = b.dst ∧ p.src = b.src ∧ p.rpt = b.rpt ∧ p.flags = b.flags ∧ p.lifetime = millisOf b.lifetime := by
  unfold manifestToPrimary at h
  split at h
  · cases h
  · cases ha : applyEntries (entriesOf manifest) {} with
    | ok b =>
      simp only [ha] at h
      split at h
      · cases h
      · rename_i hne
        injection h with h
        subst h
        exact ⟨b, rfl, hne, rfl, rfl, rfl, rfl, rfl, rfl, rfl, rfl, rfl, rfl, rfl⟩
    | panic => simp [ha] at h
    | unmodelled => simp [ha] at h

/-- one manifest entry sets exactly its field, from the library's own parser -/
theorem entry_destination (b b' : Builder) (v : Bytes) (h : applyEntry b (asc "destination") v = .ok b') :
    parseEid v = .ok b'.dst ∧ b'.src = b.src ∧ b'.rpt = b.rpt ∧ b'.flags = b.flags ∧ b'.lifetime = b.lifetime := by
  unfold applyEntry eidOrPanic at h
  simp only [if_true] at h
  cases hp : parseEid v <;> simp [hp] at h
  subst h; exact ⟨rfl, rfl, rfl, rfl, rfl⟩

theorem entry_flags (b b' : Builder) (v : Bytes) (h : applyEntry b (asc "flags") v = .ok b') :
    parseU64 v = some b'.flags ∧ b'.dst = b.dst ∧ b'.src = b.src ∧ b'.rpt = b.rpt ∧ b'.lifetime = b.lifetime := by
  unfold applyEntry at h
  have e1 : ¬ asc "flags" = asc "destination" := by decide
  have e2 : ¬ asc "flags" = asc "source" := by decide
  have e3 : ¬ asc "flags" = asc "report_to" := by decide
  have e4 : ¬ asc "flags" = asc "lifetime" := by decide
  simp only [e1, e2, e3, e4, if_false, if_true] at h
  cases hp : parseU64 v <;> simp [hp] at h
  subst h; exact ⟨rfl, rfl, rfl, rfl, rfl⟩

theorem entry_lifetime (b b' : Builder) (v : Bytes) (h : applyEntry b (asc "lifetime") v = .ok b') :
    parseDuration v = .ok b'.lifetime ∧ b'.dst = b.dst ∧ b'.src = b.src ∧ b'.rpt = b.rpt ∧ b'.flags = b.flags := by
  unfold applyEntry at h
  have e1 : ¬ asc "lifetime" = asc "destination" := by decide
  have e2 : ¬ asc "lifetime" = asc "source" := by decide
  have e3 : ¬ asc "lifetime" = asc "report_to" := by decide
  simp only [e1, e2, e3, if_false, if_true] at h
  cases hp : parseDuration v with
  | ok d => simp [hp] at h; subst h; exact ⟨rfl, rfl, rfl, rfl, rfl⟩
  | error e => cases e <;> simp [hp] at h

/-- **C20 (encode, whole command).** -/
theorem encode_spec (manifest payload : Bytes) (ts seq : Nat) (p : Primary)
    (hm : manifestToPrimary manifest ts seq = .ok p) (hp : p.wf = true) (hl : payload.length < U64) :
    (encode manifest payload false ts seq = .panic ∧ encode manifest payload true ts seq = .panic)
    ∨ (∃ bytes, encode manifest payload false ts seq = .ok bytes
        ∧ encode manifest payload true ts seq = .ok (hexify bytes ++ [10])
        ∧ unhexify (hexify bytes) = .ok bytes
        ∧ decodeBundle bytes = .ok (built p payload)
        ∧ (built p payload).validate = []
        ∧ (built p payload).payload = some payload) := by
  obtain ⟨_, _, _, _, hc, _⟩ := manifest_fields manifest ts seq p hm
  unfold encode
  simp only [hm]
  rcases generate_spec p payload hp hc hl with ⟨h1, h2, _⟩ | ⟨bytes, h1, h2, h3, h4, h5, h6⟩
  · exact Or.inl ⟨h1, h2⟩
  · exact Or.inr ⟨bytes, h1, h2, h3, h4, h5, h6⟩

/-! ### decode, payload mode -/

theorem payload_calculateCrc (b : Bundle) : b.calculateCrc.payload = b.payload := by
  unfold Bundle.payload Bundle.blockByType Bundle.calculateCrc
  simp only [List.find?_map]
  have : ((fun c : Canon => c.btype == PAYLOAD_BLOCK && c.extOk) ∘ Canon.updateCrc)
      = (fun c : Canon => c.btype == PAYLOAD_BLOCK && c.extOk) := by
    funext c; rfl
  rw [this]
  cases List.find? (fun c : Canon => c.btype == PAYLOAD_BLOCK && c.extOk) b.canon <;> rfl

/-- **C20 (decode -p).** Applied to the encoding of any bundle of the C01 domain — raw on stdin or
    as hex argument — the tool prints exactly the payload bytes (nothing when there is none). -/
theorem decode_payload_spec (b : Bundle) (h : b.wf = true) :
    decodePayload (b.toCbor).2 = .ok (b.payload.getD []) ∧
    decodeArg (hexify (b.toCbor).2) = .ok (b.payload.getD []) := by
  have hd := C01.decode_encode b h
  have hp : (b.toCbor).1.payload = b.payload := payload_calculateCrc b
  have h1 : decodePayload (b.toCbor).2 = .ok (b.payload.getD []) := by
    unfold decodePayload
    rw [hd]
    simp only [hp]
    cases b.payload <;> rfl
  refine ⟨h1, ?_⟩
  unfold decodeArg
  rw [C18.unhex_hex]
  exact h1

/-! ### time commands and argument counts -/

/-- **C20 (dtntime, d2u).** For every u64 timestamp given in decimal the tool prints the library's
    conversion followed by a newline. -/
theorem time_cmds (t : Nat) (h : t < U64) :
    dtntimeCmd (decStr t) = .ok (dtnString t ++ [10]) ∧ d2uCmd (decStr t) = .ok (decStr (dtnUnix t) ++ [10]) := by
  simp [dtntimeCmd, d2uCmd, C10.parseU64_decStr t h]

theorem encode_mode (n : Nat) (last : Bytes) :
    encodeMode n last = (if n = 4 then some false else if n = 5 then some (decide (last = asc "-x")) else none) := rfl

theorem decode_mode (n : Nat) (last : Bytes) :
    decodeMode n last = (if n = 3 then some false else if n = 4 then some (decide (last = asc "-p")) else none) := rfl

/-! ### non-vacuity: a manifest in the style of the README -/

/-- "destination=dtn://node2/inbox\nsource=dtn://node1/123456\nlifetime=1h\nflags=4\n" -/
def readmeBytes : Bytes :=
  [100,101,115,116,105,110,97,116,105,111,110,61,100,116,110,58,47,47,110,111,100,101,50,47,105,110,98,111,120,10,
   115,111,117,114,99,101,61,100,116,110,58,47,47,110,111,100,101,49,47,49,50,51,52,53,54,10,
   108,105,102,101,116,105,109,101,61,49,104,10,102,108,97,103,115,61,52,10]

def readmeP : Primary :=
  { version := 7, flags := 4, crc := .no, dst := .dtn 1 [47,47,110,111,100,101,50,47,105,110,98,111,120],
    src := .dtn 1 [47,47,110,111,100,101,49,47,49,50,51,52,53,54], rpt := .null 1 0, ts := 1000, seq := 0,
    lifetime := 3600000, fragOff := 0, total := 0 }

example : manifestToPrimary readmeBytes 1000 0 = .ok readmeP := by decide +kernel
example : readmeP.wf = true := by decide
example : (built readmeP [104, 105]).validate = [] := by decide
example : (match parseDuration [49, 104, 32, 51, 48, 109] with | .ok d => d == (5400, 0) | _ => false) = true := by decide +kernel   -- "1h 30m"
example : (match parseDuration [49, 53] with | .error .error => true | _ => false) = true := by decide +kernel   -- "15"

end Bp7.C20
