/-
  C18 — hex helpers are mutually inverse and reject malformed text without panic.
  Property theorems only; the model is Bp7/Model/Hex.lean.
-/
import Bp7.Model.Hex
namespace Bp7.C18
open Bp7

/-- ASCII lower-casing of a byte (`A`–`Z` only). -/
def lowerByte (c : UInt8) : UInt8 :=
  if 65 ≤ c.toNat ∧ c.toNat ≤ 90 then UInt8.ofNat (c.toNat + 32) else c

theorem hexVal_lt {c : UInt8} {v : Nat} (h : hexVal c = some v) : v < 16 := by
  unfold hexVal at h
  simp only at h
  split at h
  · cases h; omega
  · split at h
    · cases h; omega
    · split at h
      · cases h; omega
      · cases h

theorem hexDigit_isHex (n : Nat) (h : n < 16) : hexVal (hexDigit n) = some n := by
  have : ∀ n : Fin 16, hexVal (hexDigit n.val) = some n.val := by decide
  exact this ⟨n, h⟩

theorem isCharStart_of_hex {c : UInt8} (h : isHexDigit c = true) : isCharStart c = true := by
  unfold isHexDigit hexVal at h
  unfold isCharStart
  simp only at h
  simp only [Bool.or_eq_true, decide_eq_true_eq]
  split at h
  · omega
  · split at h
    · omega
    · split at h
      · omega
      · simp at h

theorem not43_of_hex {c : UInt8} (h : isHexDigit c = true) : c.toNat ≠ 43 := by
  unfold isHexDigit hexVal at h
  simp only at h
  split at h
  · omega
  · split at h
    · omega
    · split at h
      · omega
      · simp at h

/-- The value the well-formed case denotes. -/
def pairVal (a b : UInt8) : UInt8 :=
  UInt8.ofNat (((hexVal a).getD 0) * 16 + ((hexVal b).getD 0))

def unhexSpec : Bytes → Bytes
  | a :: b :: rest => pairVal a b :: unhexSpec rest
  | _ => []

theorem fromStrRadix16_hex {a b : UInt8} (ha : isHexDigit a = true) (hb : isHexDigit b = true) :
    fromStrRadix16 a b = .ok (pairVal a b) := by
  have h43 := not43_of_hex ha
  unfold fromStrRadix16 pairVal
  unfold isHexDigit at ha hb
  rw [if_neg h43]
  cases hx : hexVal a <;> cases hy : hexVal b <;> simp_all

theorem unhexLoop_hex : ∀ (s : Bytes), s.length % 2 = 0 → s.all isHexDigit = true →
    unhexLoop s = .ok (unhexSpec s)
  | [], _, _ => by simp [unhexLoop, unhexSpec]
  | [_], h, _ => by simp at h
  | a :: b :: rest, h, hall => by
    have hlen : rest.length % 2 = 0 := by simp at h; omega
    simp only [List.all_cons, Bool.and_eq_true] at hall
    obtain ⟨ha, hb, hrest⟩ := hall
    have ih := unhexLoop_hex rest hlen hrest
    unfold unhexLoop
    cases rest with
    | nil => simp [fromStrRadix16_hex ha hb, unhexSpec]
    | cons c rest' =>
      simp only [List.all_cons, Bool.and_eq_true] at hrest
      have hc := isCharStart_of_hex hrest.1
      simp only [hc, if_true, fromStrRadix16_hex ha hb, ih, Res.bind_ok]
      rfl

/-- C18 (a): bytes -> hex -> bytes is the identity, for every byte string. -/
theorem hexify_allHex : ∀ bs : Bytes, (hexify bs).all isHexDigit = true
  | [] => rfl
  | b :: bs => by
    have h1 : b.toNat / 16 < 16 := by have := b.toNat_lt; omega
    have h2 : b.toNat % 16 < 16 := by omega
    simp [hexify, isHexDigit, hexDigit_isHex _ h1, hexDigit_isHex _ h2, hexify_allHex bs]

theorem hexify_length : ∀ bs : Bytes, (hexify bs).length = 2 * bs.length
  | [] => rfl
  | b :: bs => by simp [hexify, hexify_length bs]; omega

theorem unhexSpec_hexify : ∀ bs : Bytes, unhexSpec (hexify bs) = bs
  | [] => rfl
  | b :: bs => by
    have h1 : b.toNat / 16 < 16 := by have := b.toNat_lt; omega
    have h2 : b.toNat % 16 < 16 := by omega
    simp only [hexify, unhexSpec, pairVal, hexDigit_isHex _ h1, hexDigit_isHex _ h2,
      Option.getD_some, unhexSpec_hexify bs]
    congr 1
    have : b.toNat / 16 * 16 + b.toNat % 16 = b.toNat := by omega
    rw [this]; simp

theorem unhex_hex (bs : Bytes) : unhexify (hexify bs) = .ok bs := by
  have hl : (hexify bs).length % 2 = 0 := by rw [hexify_length]; omega
  unfold unhexify
  simp only [hl, hexify_allHex, bne_self_eq_false, Bool.not_true, Bool.or_self]
  simp [unhexLoop_hex _ hl (hexify_allHex bs), unhexSpec_hexify]

/-- C18 (c): every string that is not an even-length string of hex digits is rejected
    with an error (never a panic, never a byte string). -/
theorem unhex_rejects (s : Bytes) (h : ¬ (s.length % 2 = 0 ∧ s.all isHexDigit = true)) :
    unhexify s = .err .parse := by
  unfold unhexify
  by_cases h1 : s.length % 2 = 0
  · have h2 : s.all isHexDigit = false := by
      cases hh : s.all isHexDigit
      · rfl
      · exact absurd ⟨h1, hh⟩ h
    simp [h2]
  · simp [h1]

theorem hexDigit_lower (a : UInt8) (x : Nat) (h : hexVal a = some x) : hexDigit x = lowerByte a := by
  -- finite check over the 256 byte values
  have key : ∀ n : Fin 256, ∀ x : Fin 16, hexVal (UInt8.ofNat n.val) = some x.val →
      hexDigit x.val = lowerByte (UInt8.ofNat n.val) := by decide +kernel
  have hx := hexVal_lt h
  have := key ⟨a.toNat, a.toNat_lt⟩ ⟨x, hx⟩
  simpa using this (by simpa using h)

theorem lower_pair (a b : UInt8) (ha : isHexDigit a = true) (hb : isHexDigit b = true) :
    hexDigit ((pairVal a b).toNat / 16) = lowerByte a ∧
    hexDigit ((pairVal a b).toNat % 16) = lowerByte b := by
  unfold isHexDigit at ha hb
  obtain ⟨x, hx⟩ := Option.isSome_iff_exists.mp ha
  obtain ⟨y, hy⟩ := Option.isSome_iff_exists.mp hb
  have hxl := hexVal_lt hx
  have hyl := hexVal_lt hy
  have hv : (pairVal a b).toNat = x * 16 + y := by
    unfold pairVal
    simp only [hx, hy, Option.getD_some, UInt8.toNat_ofNat']
    omega
  rw [hv]
  have h1 : (x * 16 + y) / 16 = x := by omega
  have h2 : (x * 16 + y) % 16 = y := by omega
  rw [h1, h2]
  exact ⟨hexDigit_lower a x hx, hexDigit_lower b y hy⟩

theorem hexify_unhexSpec : ∀ s : Bytes, s.length % 2 = 0 → s.all isHexDigit = true →
    hexify (unhexSpec s) = s.map lowerByte
  | [], _, _ => rfl
  | [_], h, _ => by simp at h
  | a :: b :: rest, h, hall => by
    have hlen : rest.length % 2 = 0 := by simp at h; omega
    simp only [List.all_cons, Bool.and_eq_true] at hall
    obtain ⟨ha, hb, hrest⟩ := hall
    have := lower_pair a b ha hb
    simp [unhexSpec, hexify, this.1, this.2, hexify_unhexSpec rest hlen hrest]

/-- C18 (b): even-length hex string -> bytes -> hex gives the same string in lower case. -/
theorem hex_unhex_lower (s : Bytes) (h : s.length % 2 = 0 ∧ s.all isHexDigit = true) :
    ∃ v, unhexify s = .ok v ∧ hexify v = s.map lowerByte := by
  refine ⟨unhexSpec s, ?_, hexify_unhexSpec s h.1 h.2⟩
  unfold unhexify
  simp [h.1, h.2, unhexLoop_hex s h.1 h.2]

/-- Totality: no string makes `unhexify` panic. -/
theorem unhex_no_panic (s : Bytes) : (unhexify s).isPanic = false := by
  by_cases h : s.length % 2 = 0 ∧ s.all isHexDigit = true
  · obtain ⟨v, hv, _⟩ := hex_unhex_lower s h
    simp [hv, Res.isPanic]
  · simp [unhex_rejects s h, Res.isPanic]

/-- Never a silently different byte string: whenever the result is `ok v`, the input was an
    even-length hex string and `v` prints back to it (up to case). -/
theorem unhex_ok_faithful (s v : Bytes) (h : unhexify s = .ok v) :
    s.length % 2 = 0 ∧ s.all isHexDigit = true ∧ hexify v = s.map lowerByte := by
  by_cases hg : s.length % 2 = 0 ∧ s.all isHexDigit = true
  · obtain ⟨v', hv, hl⟩ := hex_unhex_lower s hg
    rw [hv] at h; cases h
    exact ⟨hg.1, hg.2, hl⟩
  · rw [unhex_rejects s hg] at h; cases h

/-! Non-vacuity and the F8 witnesses (the pinned, unguarded loop violates the property). -/
example : unhexify [0x41, 0x66] = .ok [0xaf] := by decide
example : ([0x41, 0x66] : Bytes).length % 2 = 0 ∧ ([0x41, 0x66] : Bytes).all isHexDigit = true := by decide
/-- "abc": odd length -> slice out of range panic on the pinned tree. -/
theorem pinned_odd_panics : unhexifyPinned [0x61, 0x62, 0x63] = .panic .sliceRange := by decide
/-- "0é": char-boundary panic on the pinned tree. -/
theorem pinned_nonascii_panics : unhexifyPinned [0x30, 0xc3, 0xa9] = .panic .charBoundary := by decide
/-- "+f": silently accepted as [15] on the pinned tree. -/
theorem pinned_sign_accepted : unhexifyPinned [0x2b, 0x66] = .ok [15] := by decide

end Bp7.C18
