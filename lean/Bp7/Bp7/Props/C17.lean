/-
  C17 — DTN time conversion and formatting are total and match the epoch definition.
  (The calendar statement `string_denotes` is in Props/C17Calendar.lean.)
-/
import Bp7.Model.Time
namespace Bp7.C17
open Bp7

/-- **C17 (Unix seconds).** For every DTN time — every `u64` and beyond — the conversion is
    `floor(t / 1000) + 946 684 800`, and for `t < 2^64` the result fits in a `u64` (no wrap). -/
theorem unix_eq (t : Nat) : dtnUnix t = t / 1000 + 946684800 := rfl

theorem unix_fits (t : Nat) (h : t < U64) : dtnUnix t < U64 := by
  unfold dtnUnix SECONDS1970_TO2K
  have : U64 = 18446744073709551616 := rfl
  omega

/-- the pinned formula `(t + MS1970_TO2K) / 1000` agrees with the fixed one whenever it does not
    overflow, and overflows exactly for the top 946 684 800 000 values (F7a) -/
theorem unix_pinned_agrees (t : Nat) : (t + MS1970_TO2K) / 1000 = dtnUnix t := by
  unfold dtnUnix MS1970_TO2K SECONDS1970_TO2K; omega
theorem unix_pinned_overflows (t : Nat) (h : t < U64) :
    t + MS1970_TO2K ≥ U64 ↔ t ≥ 18446743127024751616 := by
  unfold MS1970_TO2K; have : U64 = 18446744073709551616 := rfl; omega

/-- **C17 (formatting is total).** `string()` takes the RFC 3339 branch exactly up to the last
    millisecond of year 9999 and the plain-number branch afterwards; both are total functions,
    there is no arithmetic that can overflow a `u64` on the RFC 3339 branch. -/
theorem string_branch (t : Nat) :
    (t ≤ 252455615999999 → dtnString t = rfc3339 (t + 946684800000)) ∧
    (t > 252455615999999 → dtnString t = decStr t ++ asc "ms") := by
  unfold dtnString MS1970_TO2K MAX_RFC3339_MS
  constructor
  · intro h; have : t + 946684800000 < 253402300800000 := by omega
    simp [this]
  · intro h; have : ¬ t + 946684800000 < 253402300800000 := by omega
    simp [this]

theorem rfc3339_arg_fits (t : Nat) (h : t ≤ 252455615999999) : t + 946684800000 < U64 := by
  have : U64 = 18446744073709551616 := rfl; omega

/-- shape of the RFC 3339 form: 20 characters ending in 'Z' for whole seconds, otherwise 30
    characters with a 9-digit fraction -/
theorem rfc3339_shape (ms : Nat) :
    (ms % 1000 = 0 → (rfc3339 ms).length = 20 ∧ (rfc3339 ms).getLast? = some 90) ∧
    (ms % 1000 ≠ 0 → (rfc3339 ms).length = 30 ∧ (rfc3339 ms).getLast? = some 90) := by
  unfold rfc3339
  constructor
  · intro h
    have : ms % 1000 * 1000000 = 0 := by omega
    simp [this]
  · intro h
    have : ¬ ms % 1000 * 1000000 = 0 := by omega
    simp [this]

/-- **C17 (creation timestamps).** Display = time string, a space, the sequence number. -/
theorem ts_string (t s : Nat) : tsString t s = dtnString t ++ [32] ++ decStr s := rfl

/-- **C17 (current time).** DTN now = Unix clock in ms minus the year-2000 offset. -/
theorem now_eq_clock_minus_epoch (c : Nat) : dtnTimeNow c = c - 946684800000 := rfl

/-! anchors (kernel evaluation of the copied humantime algorithm) -/
example : dtnString 0 = asc "2000-01-01T00:00:00Z" := by decide +kernel
example : dtnString 5097600000 = asc "2000-02-29T00:00:00Z" := by decide +kernel
example : dtnString 252455615999999 = asc "9999-12-31T23:59:59.999000000Z" := by decide +kernel
example : dtnString 252455616000000 = asc "252455616000000ms" := by decide +kernel
example : dtnString 18446744073709551615 = asc "18446744073709551615ms" := by decide +kernel

end Bp7.C17
