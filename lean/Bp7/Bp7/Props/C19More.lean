/-
  C19, further fault classes: a mandatory item missing, an array replaced by an integer,
  an integer in place of the CRC byte string.
-/
import Bp7.Props.C19
namespace Bp7.C19
open Bp7

/-- the first seven mandatory items of a primary block (the lifetime is missing) -/
def enc7 (p : Primary) (crcType : Nat) : Bytes :=
  encUint p.version ++ encUint p.flags ++ encUint crcType ++ encEid p.dst ++ encEid p.src ++ encEid p.rpt
  ++ (encArrayHead 2 ++ encUint p.ts ++ encUint p.seq)

/-- **C19 (a mandatory item missing, primary block).** A primary block that announces seven items
    and carries the first seven — the lifetime is missing — is rejected, whatever follows. -/
theorem reject_primary_missing_item (p : Primary) (h : p.wf = true) (t : Nat) (ht : t < 256) (rest : Bytes) :
    decodeBundle ([0x9f] ++ (encArrayHead 7 ++ (enc7 p t ++ rest))) = .err .length := by
  apply reject_of_visit_err 7 (by omega) _ .length ⟨rest, 126⟩
  simp only [Primary.wf, Bool.and_eq_true, U64_eq, U32_eq] at h
  obtain ⟨⟨⟨⟨⟨⟨⟨⟨⟨⟨⟨hver, hfl⟩, _⟩, hdst⟩, hsrc⟩, hrpt⟩, hts⟩, hseq⟩, _⟩, _⟩, _⟩, _⟩ := h
  have hver := of_decide_eq_true hver
  have hfl := of_decide_eq_true hfl
  have hts := of_decide_eq_true hts
  have hseq := of_decide_eq_true hseq
  have hpair := fun r => readPairU64_enc p.ts p.seq (by rw [U64_eq]; exact hts) (by rw [U64_eq]; exact hseq) r 126 (by omega)
  simp only [List.append_assoc] at hpair
  simp only [visitPrimary, enc7, bind_apply, pure_apply, reqElem_succ, List.append_assoc,
    readU32_enc p.version hver, readU64_enc p.flags hfl, readU8_enc t ht,
    readEid_enc p.dst hdst _ 126 (by omega), readEid_enc p.src hsrc _ 126 (by omega), readEid_enc p.rpt hrpt _ 126 (by omega),
    hpair]
  simp [reqElem, nextElem]

/-- an unsigned integer where an endpoint ID (an array) is required -/
theorem uint_small (n : Nat) (hn : n < 24) : [UInt8.ofNat n] = encHead 0 n := by
  simp [encHead, hn]

theorem readEid_uint (n : Nat) (hn : n < 24) (tail : Bytes) :
    readEid ⟨[UInt8.ofNat n] ++ tail, 126⟩ = (.err .type, ⟨tail, 126⟩) := by
  unfold readEid readSeq tagFuel
  rw [uint_small n hn, parseWith_encHead _ 0 n 129 (by omega) (by omega)]
  simp [headOf, kSeq, reject, P.fail]

/-- **C19 (an array replaced by an integer: destination EID).** -/
theorem reject_primary_dst_uint (p : Primary) (h : p.wf = true) (count : Nat) (hc : count < 24) (hc4 : 4 ≤ count)
    (n : Nat) (hn : n < 24) (tail : Bytes) :
    ∃ e, decodeBundle ([0x9f] ++ (encArrayHead count ++
        (encUint p.version ++ (encUint p.flags ++ (encUint p.crc.toCode ++ ([UInt8.ofNat n] ++ tail)))))) = .err e := by
  simp only [Primary.wf, Bool.and_eq_true, U64_eq, U32_eq] at h
  obtain ⟨⟨⟨⟨⟨⟨⟨⟨⟨⟨⟨hver, hfl⟩, hk⟩, _⟩, _⟩, _⟩, _⟩, _⟩, _⟩, _⟩, _⟩, _⟩ := h
  have hver := of_decide_eq_true hver
  have hfl := of_decide_eq_true hfl
  have hcode : p.crc.toCode < 256 := by
    cases hcr : p.crc <;> simp [hcr, CrcVal.known] at hk <;> simp [CrcVal.toCode]
  obtain ⟨k, rfl⟩ : ∃ k, count = k + 4 := ⟨count - 4, by omega⟩
  exact ⟨_, reject_of_visit_err (k + 4) hc _ _ _
    (visitPrimary_dst_err p.version p.flags p.crc.toCode hver hfl hcode k _ _ _ (readEid_uint n hn tail))⟩

/-- **C19 (an integer in place of the CRC byte string, primary block).** -/
theorem reject_primary_crc_uint (p : Primary) (h : p.wf = true) (hf : p.isFragment = false)
    (t : Nat) (ht : t = 1 ∨ t = 2) (n : Nat) (hn : n < 24) (rest : Bytes) :
    ∃ e, decodeBundle (faultyBundle p t 9 [UInt8.ofNat n] rest) = .err e := by
  have hrb : readByteBuf ⟨UInt8.ofNat n :: rest, 126⟩ = (.err .type, ⟨rest, 126⟩) := by
    have := parseWith_encHead kByteBuf 0 n 129 (by omega) (by omega) rest 126
    rw [← uint_small n hn] at this
    unfold readByteBuf tagFuel
    simp only [List.cons_append, List.nil_append] at this
    rw [this]
    simp [headOf, kByteBuf, reject, P.fail]
  refine ⟨.type, reject_of_visit_err 9 (by omega) _ .type ⟨rest, 126⟩ ?_⟩
  rw [visitPrimary_after8 p h t (by omega) 1 _ 126 (by omega)]
  rcases ht with rfl | rfl <;>
    simp [primaryTail, bind_apply, pure_apply, visitCrc, reqElem_succ, hrb]

/-- **C19 (a mandatory item missing, canonical block).** A canonical block announcing four items —
    the block-type-specific data is missing — is rejected. -/
theorem reject_canon_missing_item (p : Primary) (hp : p.wf = true ∧ p.crc.wire = true) (c : Canon) (h : c.wf = true)
    (t : Nat) (ht : t < 256) (rest : Bytes) :
    decodeBundle ([0x9f] ++ (encPrimary p ++ (encArrayHead 4 ++
      (encUint c.btype ++ (encUint c.num ++ (encUint c.flags ++ (encUint t ++ rest))))))) = .err .length := by
  rw [encArrayHead_small 4 (by omega)]
  simp only [List.cons_append, List.nil_append]
  apply reject_of_canon_err p hp _ (by decide) _ .length { inp := rest, depth := 127 }
  simp only [Canon.wf, Bool.and_eq_true, U64_eq] at h
  obtain ⟨⟨⟨⟨⟨hty, hn⟩, hf⟩, _⟩, _⟩, _⟩ := h
  have hty := of_decide_eq_true hty
  have hn := of_decide_eq_true hn
  have hf := of_decide_eq_true hf
  have := readCanon_of_visit_err 4 (by omega)
    (encUint c.btype ++ (encUint c.num ++ (encUint c.flags ++ (encUint t ++ rest)))) .length ⟨rest, 126⟩
    (by
      simp only [visitCanon, bind_apply, pure_apply, reqElem_succ,
        readU64_enc c.btype hty, readU64_enc c.num hn, readU8_enc c.flags hf, readU8_enc t ht]
      simp [reqElem, nextElem])
  simpa using this

/-- **C19 (an integer in place of the CRC byte string, canonical block).** -/
theorem reject_canon_crc_uint (p : Primary) (hp : p.wf = true ∧ p.crc.wire = true) (c : Canon) (h : c.wf = true)
    (t : Nat) (ht : t = 1 ∨ t = 2) (n : Nat) (hn : n < 24) (rest : Bytes) :
    decodeBundle ([0x9f] ++ (encPrimary p ++ (canonWith c t 6 ([UInt8.ofNat n] ++ rest)))) = .err .type := by
  unfold canonWith
  rw [encArrayHead_small 6 (by omega)]
  simp only [List.cons_append, List.nil_append]
  apply reject_of_canon_err p hp _ (by decide) _ .type { inp := rest, depth := 127 }
  have hrb : readByteBuf ⟨UInt8.ofNat n :: rest, 126⟩ = (.err .type, ⟨rest, 126⟩) := by
    have := parseWith_encHead kByteBuf 0 n 129 (by omega) (by omega) rest 126
    rw [← uint_small n hn] at this
    unfold readByteBuf tagFuel
    simp only [List.cons_append, List.nil_append] at this
    rw [this]
    simp [headOf, kByteBuf, reject, P.fail]
  have := readCanon_of_visit_err 6 (by omega)
    (encUint c.btype ++ (encUint c.num ++ (encUint c.flags ++ (encUint t ++ (encBytes (btsd c.data) ++ (UInt8.ofNat n :: rest))))))
    .type ⟨rest, 126⟩
    (by
      rw [visitCanon_after5 c h t (by omega) 1 (UInt8.ofNat n :: rest) 126]
      rcases ht with rfl | rfl <;> simp [bind_apply, visitCrc, reqElem_succ, hrb])
  simpa using this

/-! ### a string where an endpoint ID (an array) is required — whatever the string says -/

/-- a text string in place of the EID array: rejected (type error, or UTF-8 error), its bytes consumed -/
theorem readEid_text (t tail : Bytes) (ht : t.length < 18446744073709551616) (d : Nat) :
    ∃ e, readEid ⟨encText t ++ tail, d⟩ = (.err e, ⟨tail, d⟩) := by
  unfold readEid readSeq tagFuel encText
  rw [List.append_assoc, parseWith_encHead _ 3 t.length 129 (by omega) ht]
  simp only [headOf, kSeq]
  by_cases hu : validUtf8 t = true
  · exact ⟨.type, by simp [reject, takeN_append, hu]⟩
  · exact ⟨.utf8, by simp [reject, takeN_append, hu]⟩

/-- a byte string in place of the EID array -/
theorem readEid_bytes (t tail : Bytes) (ht : t.length < 18446744073709551616) (d : Nat) :
    readEid ⟨encBytes t ++ tail, d⟩ = (.err .type, ⟨tail, d⟩) := by
  unfold readEid readSeq tagFuel encBytes
  rw [List.append_assoc, parseWith_encHead _ 2 t.length 129 (by omega) ht]
  simp [headOf, kSeq, reject, takeN_append]

/-- **C19 (a string in place of the destination endpoint ID).** Text such as "dtn:none",
    "dtn://node/svc" or "ipn:1.2" — any text or byte string at all — where the `[scheme, ssp]`
    array belongs is never answered with a decoded bundle, whatever the rest of the block. -/
theorem reject_primary_dst_string (p : Primary) (h : p.wf = true) (count : Nat) (hc : count < 24) (hc4 : 4 ≤ count)
    (t : Bytes) (ht : t.length < 18446744073709551616) (asText : Bool) (tail : Bytes) :
    ∃ e, decodeBundle ([0x9f] ++ (encArrayHead count ++
        (encUint p.version ++ (encUint p.flags ++ (encUint p.crc.toCode ++
          ((if asText then encText t else encBytes t) ++ tail)))))) = .err e := by
  simp only [Primary.wf, Bool.and_eq_true, U64_eq, U32_eq] at h
  obtain ⟨⟨⟨⟨⟨⟨⟨⟨⟨⟨⟨hver, hfl⟩, hk⟩, _⟩, _⟩, _⟩, _⟩, _⟩, _⟩, _⟩, _⟩, _⟩ := h
  have hver := of_decide_eq_true hver
  have hfl := of_decide_eq_true hfl
  have hcode : p.crc.toCode < 256 := by
    cases hcr : p.crc <;> simp [hcr, CrcVal.known] at hk <;> simp [CrcVal.toCode]
  obtain ⟨k, rfl⟩ : ∃ k, count = k + 4 := ⟨count - 4, by omega⟩
  cases asText
  · exact ⟨_, reject_of_visit_err (k + 4) hc _ _ _
      (visitPrimary_dst_err p.version p.flags p.crc.toCode hver hfl hcode k _ _ _ (readEid_bytes t tail ht 126))⟩
  · obtain ⟨e, he⟩ := readEid_text t tail ht 126
    exact ⟨_, reject_of_visit_err (k + 4) hc _ _ _
      (visitPrimary_dst_err p.version p.flags p.crc.toCode hver hfl hcode k _ _ _ he)⟩

/-- the previous-node block: block-type-specific data that is a text string reading as an endpoint
    URI (not the `[scheme, ssp]` array) does not decode -/
theorem reject_prevnode_text (t : Bytes) (ht : t.length < 18446744073709551616) :
    ∃ e, decodeBtsd PREVIOUS_NODE_BLOCK (encText t) = .err e := by
  obtain ⟨e, he⟩ := readEid_text t [] ht 128
  refine ⟨e, ?_⟩
  have : fromSlice readEid (encText t) = .err e := by
    unfold fromSlice
    simp only [List.append_nil] at he
    rw [he]
  simp [decodeBtsd, PAYLOAD_BLOCK, BUNDLE_AGE_BLOCK, HOP_COUNT_BLOCK, PREVIOUS_NODE_BLOCK, this, Res.map]

example : ∃ e, decodeBtsd PREVIOUS_NODE_BLOCK (encText [100, 116, 110, 58, 110, 111, 110, 101]) = .err e :=
  reject_prevnode_text _ (by decide)

end Bp7.C19
