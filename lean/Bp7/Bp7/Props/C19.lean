/-
  C19 — structurally malformed bundles are rejected by the decoder, never accepted.
  One theorem per fault class (those proved so far are listed in Audit/C19.lean; every class of the
  property is exercised by the correspondence run, where the oracle is "the implementation must
  answer with an error").

  Faults are injected into the encoding of a well-formed bundle whose stored CRC values are wire
  values (`Conformant`): exactly what a conformant peer sends.
-/
import Bp7.Lemmas.Codec
import Bp7.Props.C06
namespace Bp7.C19
open Bp7

/-- a conformant bundle on the wire: well-formed, CRC values as they appear in the encoding -/
def Conformant (b : Bundle) : Prop :=
  (b.primary.wf = true ∧ b.primary.crc.wire = true) ∧ ∀ c ∈ b.canon, c.wf = true ∧ c.crc.wire = true

def wire (b : Bundle) : Bytes := [0x9f] ++ encBlocks b ++ [0xff]

/-- reading the blocks of `9f <blocks> ff <rest>`: the bundle, with `rest` left over -/
theorem readBundle_wire (b : Bundle) (h : Conformant b) (rest : Bytes) :
    readBundle ⟨wire b ++ rest, 128⟩ = (.ok b, ⟨rest, 128⟩) := by
  obtain ⟨hp, hc⟩ := h
  obtain ⟨pb, ptl, hpe, hpne⟩ := encPrimary_cons b.primary
  have hrp := readPrimary_enc b.primary hp.1 hp.2 ((b.canon.map encCanon).flatten ++ (255 :: rest)) 127 (by omega)
  have hcol := collectCanons b.canon hc 127 (by omega) rest
    (((b.canon.map encCanon).flatten ++ (255 :: rest)).length + 1) []
    (by have := encCanons_length b.canon; simp only [List.length_append, List.length_cons]; omega)
  rw [hpe] at hrp
  simp only [List.cons_append] at hrp
  unfold readBundle readSeq tagFuel wire
  simp only [encBlocks, hpe, List.cons_append, List.nil_append, List.append_assoc]
  rw [parseWith]
  have h9f : readHead ⟨(0x9f : UInt8) :: pb :: (ptl ++ ((b.canon.map encCanon).flatten ++ (255 :: rest))), 128⟩
      = (.ok .arrayI, ⟨pb :: (ptl ++ ((b.canon.map encCanon).flatten ++ (255 :: rest))), 128⟩) := by
    simp [readHead]
  simp only [h9f, kSeq, recursionChecked]
  simp only [visitBundle, reqElem, nextElem, hpne, if_false, hrp]
  simp only [List.nil_append] at hcol
  rw [hcol]
  simp [seqEnd]

/-- the conformant encoding itself is accepted (so the rejections below are about the fault) -/
theorem accepted (b : Bundle) (h : Conformant b) : decodeBundle (wire b) = .ok b := by
  have := readBundle_wire b h []
  simp only [List.append_nil] at this
  simp [decodeBundle, fromSlice, this]

/-- **C19 (any byte after the end of the bundle).** -/
theorem reject_trailing_bytes (b : Bundle) (h : Conformant b) (x : UInt8) (xs : Bytes) :
    decodeBundle (wire b ++ x :: xs) = .err .trailing := by
  simp [decodeBundle, fromSlice, readBundle_wire b h (x :: xs)]

/-- after the last block the input is exhausted: `EofWhileParsingArray` -/
theorem collect_eof (cs : List Canon) (hwf : ∀ c ∈ cs, c.wf = true ∧ c.crc.wire = true) :
    ∀ (fuel : Nat) (out : List Canon), cs.length < fuel →
      collectElems readCanon fuel out none ⟨(cs.map encCanon).flatten, 127⟩ = (.err .eof, ⟨[], 127⟩) := by
  induction cs with
  | nil =>
    intro fuel out hf
    obtain ⟨f, rfl⟩ : ∃ f, fuel = f + 1 := ⟨fuel - 1, by simp at hf; omega⟩
    simp [collectElems, nextElem]
  | cons c cs ih =>
    intro fuel out hf
    obtain ⟨f, rfl⟩ : ∃ f, fuel = f + 1 := ⟨fuel - 1, by simp at hf; omega⟩
    have hcw := hwf c (by simp)
    have hrd := readCanon_enc c hcw.1 hcw.2 ((cs.map encCanon).flatten) 127 (by omega)
    obtain ⟨cb, ctl, hcb, hcne⟩ := encCanon_cons c
    have ih' := ih (fun x hx => hwf x (by simp [hx])) f (out ++ [c]) (by simp at hf; omega)
    simp only [List.map_cons, List.flatten_cons]
    rw [collectElems]
    simp only [nextElem]
    rw [hcb] at hrd ⊢
    simp only [List.cons_append] at hrd ⊢
    simp only [hcne, if_false, hrd]
    exact ih'

/-- **C19 (missing break).** The encoding without its final `0xff` is rejected. -/
theorem reject_missing_break (b : Bundle) (h : Conformant b) :
    decodeBundle ([0x9f] ++ encBlocks b) = .err .eof := by
  obtain ⟨hp, hc⟩ := h
  obtain ⟨pb, ptl, hpe, hpne⟩ := encPrimary_cons b.primary
  have hrp := readPrimary_enc b.primary hp.1 hp.2 ((b.canon.map encCanon).flatten) 127 (by omega)
  rw [hpe] at hrp
  simp only [List.cons_append] at hrp
  have hcol' := collect_eof b.canon hc (((b.canon.map encCanon).flatten).length + 1) []
    (by have := encCanons_length b.canon; omega)
  unfold decodeBundle fromSlice readBundle readSeq tagFuel
  simp only [encBlocks, hpe, List.cons_append, List.nil_append]
  rw [parseWith]
  have h9f : readHead ⟨(0x9f : UInt8) :: pb :: (ptl ++ ((b.canon.map encCanon).flatten)), 128⟩
      = (.ok .arrayI, ⟨pb :: (ptl ++ ((b.canon.map encCanon).flatten)), 128⟩) := by
    simp [readHead]
  simp only [h9f, kSeq, recursionChecked]
  simp only [visitBundle, reqElem, nextElem, hpne, if_false, hrp]
  rw [hcol']
  simp

end Bp7.C19

namespace Bp7.C19
open Bp7

/-! ### faults in the primary block -/

/-- the eight mandatory items of a primary block -/
def enc8 (p : Primary) (crcType : Nat) : Bytes :=
  encUint p.version ++ encUint p.flags ++ encUint crcType ++ encEid p.dst ++ encEid p.src ++ encEid p.rpt
  ++ (encArrayHead 2 ++ encUint p.ts ++ encUint p.seq) ++ encUint p.lifetime

/-- what `PrimaryBlockVisitor` does after the eight mandatory items -/
def primaryTail (p : Primary) (crcType : Nat) (acc : Acc) : P (Primary × Acc) :=
  let hasFrag : Bool := match acc with
    | some rest => rest > 1
    | none => flagsContain F_ALL p.flags F_IS_FRAGMENT
  (if hasFrag then do
      let (o, acc) ← reqElem readU64 acc
      let (t, acc) ← reqElem readU64 acc
      pure ((o, t), acc)
   else pure ((0, 0), acc) : P ((Nat × Nat) × Acc)) >>= fun ((fragOff, total), acc) =>
  visitCrc crcType acc >>= fun (crc, acc) =>
  pure ({ version := p.version, flags := p.flags, crc, dst := p.dst, src := p.src, rpt := p.rpt, ts := p.ts,
          seq := p.seq, lifetime := p.lifetime, fragOff, total }, acc)

theorem visitPrimary_after8 (p : Primary) (h : p.wf = true) (crcType : Nat) (hct : crcType < 256)
    (n : Nat) (tail : Bytes) (d : Nat) (hd : 3 ≤ d) :
    visitPrimary (some (n + 8)) ⟨enc8 p crcType ++ tail, d⟩ = primaryTail p crcType (some n) ⟨tail, d⟩ := by
  simp only [Primary.wf, Bool.and_eq_true, U64_eq, U32_eq] at h
  obtain ⟨⟨⟨⟨⟨⟨⟨⟨⟨⟨⟨hver, hfl⟩, _⟩, hdst⟩, hsrc⟩, hrpt⟩, hts⟩, hseq⟩, hlt⟩, _⟩, _⟩, _⟩ := h
  have hver := of_decide_eq_true hver
  have hfl := of_decide_eq_true hfl
  have hts := of_decide_eq_true hts
  have hseq := of_decide_eq_true hseq
  have hlt := of_decide_eq_true hlt
  have hpair := fun r => readPairU64_enc p.ts p.seq (by rw [U64_eq]; exact hts) (by rw [U64_eq]; exact hseq) r d (by omega)
  simp only [List.append_assoc] at hpair
  simp only [visitPrimary, enc8, bind_apply, pure_apply, reqElem_succ, List.append_assoc,
    readU32_enc p.version hver, readU64_enc p.flags hfl, readU8_enc crcType hct,
    readEid_enc p.dst hdst _ d hd, readEid_enc p.src hsrc _ d hd, readEid_enc p.rpt hrpt _ d hd,
    hpair, readU64_enc p.lifetime hlt]
  rfl

/-- a definite array of `count < 24` items followed by `rest`, in first position of a bundle:
    if the primary-block visitor fails on it, decoding fails -/
theorem reject_of_visit_err (count : Nat) (hn : count < 24) (body : Bytes) (e : Err) (s' : St)
    (hv : visitPrimary (some count) ⟨body, 126⟩ = (.err e, s')) :
    decodeBundle ([0x9f] ++ (encArrayHead count ++ body)) = .err e := by
  unfold decodeBundle fromSlice readBundle readSeq tagFuel
  rw [encArrayHead_small _ hn]
  simp only [List.cons_append, List.nil_append]
  rw [parseWith]
  have hne : ¬ (UInt8.ofNat (128 + count)).toNat = 255 := by rw [UInt8.toNat_ofNat']; omega
  have h9f : ∀ l, readHead ⟨(0x9f : UInt8) :: l, 128⟩ = (.ok .arrayI, ⟨l, 128⟩) := by
    intro l; simp [readHead]
  have hrp : readPrimary ⟨UInt8.ofNat (128 + count) :: body, 127⟩ = (.err e, { s' with depth := s'.depth + 1 }) := by
    unfold readPrimary readSeq tagFuel
    have := parseWith_encHead (kSeq visitPrimary) 4 count 129 (by omega) (by omega) body 127
    simp only [encHead, hn, if_true, List.cons_append, List.nil_append] at this
    rw [show 4 * 32 + count = 128 + count by omega] at this
    rw [this]
    simp [headOf, kSeq, recursionChecked, hv]
  simp only [h9f, kSeq, recursionChecked]
  simp only [visitBundle, reqElem, nextElem, hne, if_false, hrp]
  simp

/-- the same when the visitor succeeds but does not consume all items: `TrailingData` -/
theorem reject_of_visit_leftover (count : Nat) (hn : count < 24) (body : Bytes) (p : Primary) (k : Nat) (s' : St)
    (hv : visitPrimary (some count) ⟨body, 126⟩ = (.ok (p, some (k + 1)), s')) :
    decodeBundle ([0x9f] ++ (encArrayHead count ++ body)) = .err .trailing := by
  unfold decodeBundle fromSlice readBundle readSeq tagFuel
  rw [encArrayHead_small _ hn]
  simp only [List.cons_append, List.nil_append]
  rw [parseWith]
  have hne : ¬ (UInt8.ofNat (128 + count)).toNat = 255 := by rw [UInt8.toNat_ofNat']; omega
  have h9f : ∀ l, readHead ⟨(0x9f : UInt8) :: l, 128⟩ = (.ok .arrayI, ⟨l, 128⟩) := by
    intro l; simp [readHead]
  have hrp : readPrimary ⟨UInt8.ofNat (128 + count) :: body, 127⟩ = (.err .trailing, { s' with depth := s'.depth + 1 }) := by
    unfold readPrimary readSeq tagFuel
    have := parseWith_encHead (kSeq visitPrimary) 4 count 129 (by omega) (by omega) body 127
    simp only [encHead, hn, if_true, List.cons_append, List.nil_append] at this
    rw [show 4 * 32 + count = 128 + count by omega] at this
    rw [this]
    simp [headOf, kSeq, recursionChecked, hv, seqEnd]
  simp only [h9f, kSeq, recursionChecked]
  simp only [visitBundle, reqElem, nextElem, hne, if_false, hrp]
  simp

/-- a primary block given by its CRC type code, item count and the bytes after the eight
    mandatory items; `rest` = the remainder of the bundle -/
def faultyBundle (p : Primary) (crcType count : Nat) (tail rest : Bytes) : Bytes :=
  [0x9f] ++ (encArrayHead count ++ (enc8 p crcType ++ (tail ++ rest)))

/-- **C19 (CRC field absent although the CRC type requires one).** -/
theorem reject_primary_crc_absent (p : Primary) (h : p.wf = true) (hf : p.isFragment = false)
    (t : Nat) (ht : t = 1 ∨ t = 2) (rest : Bytes) :
    decodeBundle (faultyBundle p t 8 [] rest) = .err .length := by
  apply reject_of_visit_err 8 (by omega) _ .length ⟨rest, 126⟩
  rw [visitPrimary_after8 p h t (by omega) 0 _ 126 (by omega)]
  rcases ht with rfl | rfl <;>
    simp [primaryTail, bind_apply, pure_apply, visitCrc, reqElem, nextElem]

/-- **C19 (CRC field whose length does not match the CRC type).** -/
theorem reject_primary_crc_length (p : Primary) (h : p.wf = true) (hf : p.isFragment = false)
    (t : Nat) (ht : t = 1 ∨ t = 2) (bs : Bytes) (hl : bs.length < 18446744073709551616)
    (hbad : (t = 1 → bs.length ≠ 2) ∧ (t = 2 → bs.length ≠ 4)) (rest : Bytes) :
    decodeBundle (faultyBundle p t 9 (encBytes bs) rest) = .err .length := by
  apply reject_of_visit_err 9 (by omega) _ .length ⟨rest, 126⟩
  rw [visitPrimary_after8 p h t (by omega) 1 _ 126 (by omega)]
  have hb := readByteBuf_enc bs hl rest 126
  rcases ht with rfl | rfl
  · simp only [primaryTail, bind_apply, pure_apply, visitCrc, reqElem_succ, hb, show ¬ (1 > 1) by decide,
      decide_false, Bool.false_eq_true, if_false, show ¬ (1 : Nat) = 0 by decide, if_true]
    match bs, hbad.1 rfl with
    | [], _ => rfl
    | [_], _ => rfl
    | [_, _], hne => simp at hne
    | _ :: _ :: _ :: _, _ => rfl
  · simp only [primaryTail, bind_apply, pure_apply, visitCrc, reqElem_succ, hb, show ¬ (1 > 1) by decide,
      decide_false, Bool.false_eq_true, if_false, show ¬ (2 : Nat) = 0 by decide, show ¬ (2 : Nat) = 1 by decide, if_true]
    match bs, hbad.2 rfl with
    | [], _ => rfl
    | [_], _ => rfl
    | [_, _], _ => rfl
    | [_, _, _], _ => rfl
    | [_, _, _, _], hne => simp at hne
    | _ :: _ :: _ :: _ :: _ :: _, _ => rfl

/-- **C19 (an extra trailing item / a CRC field although the CRC type is 0).** A non-fragment
    primary block with CRC type 0 and a ninth item of any kind is rejected. -/
theorem reject_primary_extra_item (p : Primary) (h : p.wf = true) (hf : p.isFragment = false)
    (extra rest : Bytes) :
    decodeBundle (faultyBundle p 0 9 extra rest) = .err .trailing := by
  apply reject_of_visit_leftover 9 (by omega) _ { p with crc := .no, fragOff := 0, total := 0 } 0 ⟨extra ++ rest, 126⟩
  rw [visitPrimary_after8 p h 0 (by omega) 1 _ 126 (by omega)]
  simp [primaryTail, bind_apply, pure_apply, visitCrc]

/-! ### wrong kind of item for a mandatory unsigned integer; faults inside endpoint IDs -/

/-- items that are not unsigned integers, as first byte(s): negative integer, float16, null,
    text, byte string, empty array, empty map, boolean -/
def notUint : List Bytes :=
  [[0x20], [0x38, 0x01], [0xf9, 0x3c, 0x00], [0xf6], [0x61, 0x31], [0x41, 0x01], [0x80], [0xa0], [0xf4],
   [0xfb, 0x3f, 0xf0, 0, 0, 0, 0, 0, 0], [0x3b, 0xff, 0xff, 0xff, 0xff, 0xff, 0xff, 0xff, 0xff]]

theorem readU32_notUint (it : Bytes) (hit : it ∈ notUint) (tail : Bytes) :
    ∃ e s', readU32 ⟨it ++ tail, 126⟩ = (.err e, s') := by
  simp only [notUint, List.mem_cons, List.mem_nil_iff, or_false] at hit
  rcases hit with rfl | rfl | rfl | rfl | rfl | rfl | rfl | rfl | rfl | rfl | rfl <;>
    simp [readU32, tagFuel, parseWith, readHead, readArg, takeN, kUint, reject, recursionChecked, P.fail, validUtf8]

/-- **C19 (wrong kind of item in place of the version).** -/
theorem reject_primary_version_kind (it : Bytes) (hit : it ∈ notUint) (count : Nat) (hc : count < 24) (hc1 : 1 ≤ count)
    (tail : Bytes) :
    ∃ e, decodeBundle ([0x9f] ++ (encArrayHead count ++ (it ++ tail))) = .err e := by
  obtain ⟨e, s', hr⟩ := readU32_notUint it hit tail
  refine ⟨e, reject_of_visit_err count hc _ e s' ?_⟩
  obtain ⟨n, rfl⟩ : ∃ n, count = n + 1 := ⟨count - 1, by omega⟩
  simp [visitPrimary, bind_apply, reqElem_succ, hr]

/-- a visitor failure in the destination endpoint ID (4th item) fails the primary block -/
theorem visitPrimary_dst_err (v f t : Nat) (hv : v < 4294967296) (hf : f < 18446744073709551616) (ht : t < 256)
    (n : Nat) (x : Bytes) (e : Err) (s' : St) (hx : readEid ⟨x, 126⟩ = (.err e, s')) :
    visitPrimary (some (n + 4)) ⟨encUint v ++ (encUint f ++ (encUint t ++ x)), 126⟩ = (.err e, s') := by
  simp [visitPrimary, bind_apply, reqElem_succ, readU32_enc v hv, readU64_enc f hf, readU8_enc t ht, hx]

/-- faulty endpoint-ID encodings: unknown scheme code; ipn node number 0; an extra item; the
    scheme code missing -/
theorem readEid_scheme_unknown (code : Nat) (hc : code < 24) (hne : code ≠ 1 ∧ code ≠ 2) (x tail : Bytes) :
    readEid ⟨[0x82, UInt8.ofNat code] ++ x ++ tail, 126⟩ = (.err .value, ⟨x ++ tail, 126⟩) := by
  have hr : readU8 ⟨UInt8.ofNat code :: (x ++ tail), 125⟩ = (.ok code, ⟨x ++ tail, 125⟩) := by
    have := readU8_enc code (by omega) (x ++ tail) 125
    simpa [encUint, encHead, hc] using this
  have hh : readHead ⟨(0x82 : UInt8) :: UInt8.ofNat code :: (x ++ tail), 126⟩ = (.ok (.array 2), ⟨UInt8.ofNat code :: (x ++ tail), 126⟩) := by
    simp [readHead, readArg]
  simp only [readEid, readSeq, tagFuel, List.cons_append, List.nil_append, List.append_assoc]
  rw [parseWith]
  simp only [hh, kSeq, recursionChecked]
  simp [visitEid, reqElem_succ, hr, hne.1, hne.2]

theorem readEid_ipn_node0 (svc : Nat) (hs : svc < 24) (tail : Bytes) :
    readEid ⟨[0x82, 0x02, 0x82, 0x00, UInt8.ofNat svc] ++ tail, 126⟩ = (.err .value, ⟨tail, 126⟩) := by
  have h := readPairU64_enc 0 svc (by decide) (by rw [U64_eq]; omega) tail 125 (by omega)
  have h' : readPairU64 ⟨(0x82 : UInt8) :: 0x00 :: UInt8.ofNat svc :: tail, 125⟩ = (.ok (0, svc), ⟨tail, 125⟩) := by
    simpa [encArrayHead, encUint, encHead, hs] using h
  have hr : readU8 ⟨(0x02 : UInt8) :: 0x82 :: 0x00 :: UInt8.ofNat svc :: tail, 125⟩
      = (.ok 2, ⟨0x82 :: 0x00 :: UInt8.ofNat svc :: tail, 125⟩) := by
    have := readU8_enc 2 (by omega) (0x82 :: 0x00 :: UInt8.ofNat svc :: tail) 125
    simpa [encUint, encHead] using this
  have hh : ∀ l, readHead ⟨(0x82 : UInt8) :: l, 126⟩ = (.ok (.array 2), ⟨l, 126⟩) := by
    intro l; simp [readHead, readArg]
  simp only [readEid, readSeq, tagFuel, List.cons_append, List.nil_append]
  rw [parseWith]
  simp only [hh, kSeq, recursionChecked]
  simp [visitEid, reqElem_succ, hr, h', withIpn]

theorem readEid_extra_item (tail : Bytes) :
    ∃ s', readEid ⟨[0x83, 0x01, 0x00, 0x00] ++ tail, 126⟩ = (.err .trailing, s') := by
  refine ⟨⟨0x00 :: tail, 126⟩, ?_⟩
  simp [readEid, readSeq, tagFuel, parseWith, readHead, readArg, kSeq, recursionChecked, visitEid, reqElem, nextElem,
    readU8, kUint, P.pure, readString, kString, reject, seqEnd]

theorem readEid_no_scheme (tail : Bytes) :
    readEid ⟨[0x80] ++ tail, 126⟩ = (.err .length, ⟨tail, 126⟩) := by
  simp [readEid, readSeq, tagFuel, parseWith, readHead, readArg, kSeq, recursionChecked, visitEid, reqElem, nextElem]

/-- **C19 (endpoint ID faults, destination).** Unknown URI scheme code, ipn node number 0, an
    extra item, or no scheme code in the destination EID of an otherwise conformant primary
    block: rejected. -/
theorem reject_primary_dst_eid (p : Primary) (h : p.wf = true) (count : Nat) (hc : count < 24) (hc4 : 4 ≤ count)
    (bad tail : Bytes)
    (hbad : (∃ code x, code < 24 ∧ code ≠ 1 ∧ code ≠ 2 ∧ bad = [0x82, UInt8.ofNat code] ++ x)
          ∨ (∃ svc, svc < 24 ∧ bad = [0x82, 0x02, 0x82, 0x00, UInt8.ofNat svc])
          ∨ bad = [0x83, 0x01, 0x00, 0x00] ∨ bad = [0x80]) :
    ∃ e, decodeBundle ([0x9f] ++ (encArrayHead count ++
        (encUint p.version ++ (encUint p.flags ++ (encUint p.crc.toCode ++ (bad ++ tail)))))) = .err e := by
  simp only [Primary.wf, Bool.and_eq_true, U64_eq, U32_eq] at h
  obtain ⟨⟨⟨⟨⟨⟨⟨⟨⟨⟨⟨hver, hfl⟩, hk⟩, _⟩, _⟩, _⟩, _⟩, _⟩, _⟩, _⟩, _⟩, _⟩ := h
  have hver := of_decide_eq_true hver
  have hfl := of_decide_eq_true hfl
  have hcode : p.crc.toCode < 256 := by
    cases hcr : p.crc <;> simp [hcr, CrcVal.known] at hk <;> simp [CrcVal.toCode]
  obtain ⟨n, rfl⟩ : ∃ n, count = n + 4 := ⟨count - 4, by omega⟩
  have key : ∀ e s', readEid ⟨bad ++ tail, 126⟩ = (.err e, s') →
      ∃ e, decodeBundle ([0x9f] ++ (encArrayHead (n + 4) ++
        (encUint p.version ++ (encUint p.flags ++ (encUint p.crc.toCode ++ (bad ++ tail)))))) = .err e :=
    fun e s' hx => ⟨e, reject_of_visit_err (n + 4) hc _ e s'
      (visitPrimary_dst_err p.version p.flags p.crc.toCode hver hfl hcode n (bad ++ tail) e s' hx)⟩
  rcases hbad with ⟨code, x, hc24, h1, h2, rfl⟩ | ⟨svc, hs, rfl⟩ | rfl | rfl
  · exact key _ _ (readEid_scheme_unknown code hc24 ⟨h1, h2⟩ x tail)
  · exact key _ _ (readEid_ipn_node0 svc hs tail)
  · obtain ⟨s', hs'⟩ := readEid_extra_item tail; exact key _ _ hs'
  · exact key _ _ (readEid_no_scheme tail)

/-! ### faults in a canonical block (first block after a conformant primary block) -/

/-- if the reader of the first canonical block fails, decoding fails -/
theorem reject_of_canon_err (p : Primary) (hp : p.wf = true ∧ p.crc.wire = true)
    (fb : UInt8) (hfb : fb.toNat ≠ 255) (body : Bytes) (e : Err) (s' : St)
    (hc : readCanon ⟨fb :: body, 127⟩ = (.err e, s')) :
    decodeBundle ([0x9f] ++ (encPrimary p ++ (fb :: body))) = .err e := by
  obtain ⟨pb, ptl, hpe, hpne⟩ := encPrimary_cons p
  have hrp := readPrimary_enc p hp.1 hp.2 (fb :: body) 127 (by omega)
  rw [hpe] at hrp
  simp only [List.cons_append] at hrp
  unfold decodeBundle fromSlice readBundle readSeq tagFuel
  simp only [hpe, List.cons_append, List.nil_append]
  rw [parseWith]
  have h9f : ∀ l, readHead ⟨(0x9f : UInt8) :: l, 128⟩ = (.ok .arrayI, ⟨l, 128⟩) := by
    intro l; simp [readHead]
  simp only [h9f, kSeq, recursionChecked]
  simp only [visitBundle, reqElem, nextElem, hpne, if_false, hrp]
  simp only [List.length_cons, collectElems, nextElem, hfb, if_false, hc]
  simp

/-- a canonical block given by its item count, CRC type code and the bytes after the five
    mandatory items -/
def canonWith (c : Canon) (crcType count : Nat) (tail : Bytes) : Bytes :=
  encArrayHead count ++ (encUint c.btype ++ (encUint c.num ++ (encUint c.flags ++ (encUint crcType ++ (encBytes (btsd c.data) ++ tail)))))

theorem visitCanon_after5 (c : Canon) (h : c.wf = true) (crcType : Nat) (hct : crcType < 256) (n : Nat)
    (tail : Bytes) (d : Nat) :
    visitCanon (some (n + 5)) ⟨encUint c.btype ++ (encUint c.num ++ (encUint c.flags ++ (encUint crcType ++ (encBytes (btsd c.data) ++ tail)))), d⟩
      = (visitCrc crcType (some n) >>= fun (crc, acc) =>
          (pure ({ btype := c.btype, num := c.num, flags := c.flags, crc, data := c.data }, acc) : P (Canon × Acc))) ⟨tail, d⟩ := by
  have hb := decodeBtsd_enc c h
  have hbl := btsd_length c h
  simp only [Canon.wf, Bool.and_eq_true, U64_eq] at h
  obtain ⟨⟨⟨⟨⟨ht, hn⟩, hf⟩, _⟩, _⟩, _⟩ := h
  have ht := of_decide_eq_true ht
  have hn := of_decide_eq_true hn
  have hf := of_decide_eq_true hf
  simp only [visitCanon, bind_apply, pure_apply, reqElem_succ,
    readU64_enc c.btype ht, readU64_enc c.num hn, readU8_enc c.flags hf, readU8_enc crcType hct,
    readByteBuf_enc (btsd c.data) hbl, hb, liftRes_ok]

theorem readCanon_of_visit_err (count : Nat) (hn : count < 24) (body : Bytes) (e : Err) (s' : St)
    (hv : visitCanon (some count) ⟨body, 126⟩ = (.err e, s')) :
    readCanon ⟨UInt8.ofNat (128 + count) :: body, 127⟩ = (.err e, { s' with depth := s'.depth + 1 }) := by
  unfold readCanon readSeq tagFuel
  have := parseWith_encHead (kSeq visitCanon) 4 count 129 (by omega) (by omega) body 127
  simp only [encHead, hn, if_true, List.cons_append, List.nil_append] at this
  rw [show 4 * 32 + count = 128 + count by omega] at this
  rw [this]
  simp [headOf, kSeq, recursionChecked, hv]

/-- **C19 (canonical block: CRC field absent although the CRC type requires one).** -/
theorem reject_canon_crc_absent (p : Primary) (hp : p.wf = true ∧ p.crc.wire = true) (c : Canon) (h : c.wf = true)
    (t : Nat) (ht : t = 1 ∨ t = 2) (rest : Bytes) :
    decodeBundle ([0x9f] ++ (encPrimary p ++ (canonWith c t 5 rest))) = .err .length := by
  unfold canonWith
  rw [encArrayHead_small 5 (by omega)]
  simp only [List.cons_append, List.nil_append]
  apply reject_of_canon_err p hp _ (by decide) _ .length { inp := rest, depth := 127 }
  have := readCanon_of_visit_err 5 (by omega) _ .length ⟨rest, 126⟩
    (by
      rw [visitCanon_after5 c h t (by omega) 0 rest 126]
      rcases ht with rfl | rfl <;> simp [bind_apply, visitCrc, reqElem, nextElem])
  simpa using this

/-- **C19 (canonical block: CRC field of the wrong length).** -/
theorem reject_canon_crc_length (p : Primary) (hp : p.wf = true ∧ p.crc.wire = true) (c : Canon) (h : c.wf = true)
    (bs : Bytes) (hl : bs.length < 18446744073709551616) (hbad : bs.length ≠ 2) (rest : Bytes) :
    decodeBundle ([0x9f] ++ (encPrimary p ++ (canonWith c 1 6 (encBytes bs ++ rest)))) = .err .length := by
  unfold canonWith
  rw [encArrayHead_small 6 (by omega)]
  simp only [List.cons_append, List.nil_append]
  apply reject_of_canon_err p hp _ (by decide) _ .length { inp := rest, depth := 127 }
  have hb := readByteBuf_enc bs hl rest 126
  have := readCanon_of_visit_err 6 (by omega)
    (encUint c.btype ++ (encUint c.num ++ (encUint c.flags ++ (encUint 1 ++ (encBytes (btsd c.data) ++ (encBytes bs ++ rest))))))
    .length ⟨rest, 126⟩
    (by
      rw [visitCanon_after5 c h 1 (by omega) 1 (encBytes bs ++ rest) 126]
      simp only [bind_apply, visitCrc, reqElem_succ, hb, show ¬ (1 : Nat) = 0 by decide, if_false, if_true]
      match bs, hbad with
      | [], _ => rfl
      | [_], _ => rfl
      | [_, _], hne => simp at hne
      | _ :: _ :: _ :: _, _ => rfl)
  simpa using this

/-- **C19 (block-type-specific data of a known extension block that is not the required item).**
    Examples of each kind for bundle age (must be one unsigned integer), hop count (must be an array
    of two small unsigned integers) and previous node (must be an endpoint ID). -/
theorem reject_bad_btsd :
    (∀ raw ∈ ([[0x20], [0x61, 0x61], [0x80], [], [0x01, 0x02], [0xf6]] : List Bytes), (decodeBtsd 7 raw).isErr = true) ∧
    (∀ raw ∈ ([[0x05], [0x81, 0x01], [0x83, 1, 2, 3], [0x82, 0x19, 0x01, 0x00, 0x01], [0x82, 0x20, 0x01], []] : List Bytes),
        (decodeBtsd 10 raw).isErr = true) ∧
    (∀ raw ∈ ([[0x05], [0x80], [0x82, 0x03, 0x00], [0x82, 0x02, 0x82, 0x00, 0x01], [0x82, 0x02, 0x81, 0x01], [0x83, 0x01, 0x00, 0x00], []] : List Bytes),
        (decodeBtsd 6 raw).isErr = true) := by
  decide +kernel

end Bp7.C19
