/-
  C19, position- and value-generic rejection theorems.

  The theorems of C19.lean / C19More.lean fix the position of the fault (e.g. the destination
  EID) and often the faulty item (a sample of non-integers).  Here the fault classes of the
  property are proved for EVERY position of the class and EVERY item of the wrong kind:

  * `read*_wrong_major`  — a reader that wants an unsigned integer / an array / a byte string fails
    on every input whose first byte has another CBOR major type (tags, which serde_cbor treats
    as transparent, excepted) — whatever follows that byte;
  * `reject_primary_wrong_kind` — an item of a wrong major type in ANY of the eight mandatory
    positions of the primary block;
  * `reject_canon_wrong_kind`   — the same for the five mandatory positions of a canonical block;
  * `reject_primary_missing`    — ANY one of the eight mandatory items of the primary block
    missing (the remaining ones shifted up);
  * timestamp / ipn-address arity.
-/
import Bp7.Props.C19More
namespace Bp7.C19
open Bp7 Bp7.C06

/-- CBOR major type of a head as the reader reports it -/
def Head.major : Head → Nat
  | .uint _ => 0 | .nint _ => 1 | .bytes _ | .bytesI => 2 | .text _ | .textI => 3
  | .array _ | .arrayI => 4 | .map _ | .mapI => 5 | .tag _ => 6
  | .bool _ | .unit | .float => 7

theorem readArg_ok_or (ai : Nat) (s : St) :
    (∃ n s', readArg ai s = (.ok n, s')) ∨ (∃ e s', readArg ai s = (.err e, s')) := by
  unfold readArg
  split
  · exact .inl ⟨_, _, rfl⟩
  · simp only [takeN]
    by_cases hl : (if ai = 24 then 1 else if ai = 25 then 2 else if ai = 26 then 4 else 8) ≤ s.inp.length
    · simp [hl]
    · simp [hl]

/-- the head the reader reports has the major type of the initial byte -/
theorem readHead_major (b : UInt8) (rest : Bytes) (d : Nat) (h : Head) (s1 : St)
    (hr : readHead ⟨b :: rest, d⟩ = (.ok h, s1)) : Head.major h = b.toNat / 32 := by
  have hb : b.toNat / 32 < 8 := by have := b.toNat_lt; omega
  unfold readHead at hr
  simp only at hr
  by_cases h7 : b.toNat / 32 = 7
  · simp only [h7, if_true] at hr
    split at hr
    · cases hr; simp [Head.major, h7]
    · split at hr
      · cases hr; simp [Head.major, h7]
      · split at hr
        · cases hr; simp [Head.major, h7]
        · split at hr
          · rcases readArg_ok_or (b.toNat % 32) ⟨rest, d⟩ with ⟨n, s', hx⟩ | ⟨e, s', hx⟩
            · simp only [hx] at hr; cases hr; simp [Head.major, h7]
            · simp [hx] at hr
          · simp at hr
  · simp only [h7, if_false] at hr
    split at hr
    · simp at hr
    · split at hr
      · split at hr
        · rename_i h2; cases hr; simp [Head.major, h2]
        · split at hr
          · rename_i h3; cases hr; simp [Head.major, h3]
          · split at hr
            · rename_i h4; cases hr; simp [Head.major, h4]
            · split at hr
              · rename_i h5; cases hr; simp [Head.major, h5]
              · simp at hr
      · rcases readArg_ok_or (b.toNat % 32) ⟨rest, d⟩ with ⟨n, s', hx⟩ | ⟨e, s', hx⟩
        · simp only [hx] at hr
          cases hr
          by_cases h0 : b.toNat / 32 = 0
          · simp [h0, Head.major]
          by_cases h1 : b.toNat / 32 = 1
          · simp [h1, Head.major]
          by_cases h2 : b.toNat / 32 = 2
          · simp [h2, Head.major]
          by_cases h3 : b.toNat / 32 = 3
          · simp [h3, Head.major]
          by_cases h4 : b.toNat / 32 = 4
          · simp [h4, Head.major]
          by_cases h5 : b.toNat / 32 = 5
          · simp [h5, Head.major]
          · simp only [h0, h1, h2, h3, h4, h5, if_false, Head.major]; omega
        · simp [hx] at hr

theorem ite_err_not_ok {α} (c : Prop) [Decidable c] (e1 e2 : Err) :
    (if c then (Res.err e1 : Res α) else Res.err e2).isOk = false := by split <;> rfl

/-- a visitor's `invalid type` answer is never a success -/
theorem reject_not_ok {α} (h : Head) (s : St) : ((reject h : P α) s).1.isOk = false := by
  cases h <;> simp only [reject]
  case bytes len => cases hx : takeN len s with | mk r s' => cases r <;> simp [Res.isOk]
  case text len =>
    cases hx : takeN len s with
    | mk r s' => cases r <;> simp only [hx] <;> first | rfl | exact ite_err_not_ok _ _ _
  case bytesI =>
    cases hx : readChunks 2 (s.inp.length + 1) [] s with | mk r s' => cases r <;> simp [Res.isOk]
  case textI =>
    cases hx : readChunks 3 (s.inp.length + 1) [] s with
    | mk r s' => cases r <;> simp only [hx] <;> first | rfl | exact ite_err_not_ok _ _ _
  all_goals first
    | rfl
    | (simp only [recursionChecked, P.fail]; split; rfl; split <;> rfl)

/-- not a success and not a panic: an error -/
theorem err_of_not_ok {α} (r : Res α) (s' : St) (h1 : r.isOk = false) (h2 : r.isPanic = false) :
    ∃ e, (r, s') = (Res.err e, s') := by
  cases r <;> simp_all [Res.isOk, Res.isPanic]

/-- **Universal wrong-kind lemma.** A visitor `k` that answers every head whose major type it
    does not `accept` with something other than a success fails on every input whose first byte
    has such a major type (and is not a tag), whatever follows. -/
theorem parse_wrong_major {α} (k : Head → P α) (hgood : ∀ h, Good (k h)) (accept : Nat → Bool)
    (hk : ∀ h s, accept (Head.major h) = false → (k h s).1.isOk = false)
    (b : UInt8) (rest : Bytes) (d : Nat) (hd : 1 ≤ d)
    (hb : accept (b.toNat / 32) = false) (h6 : b.toNat / 32 ≠ 6) :
    ∃ e s', parseWith k tagFuel ⟨b :: rest, d⟩ = (.err e, s') := by
  have hg := good_parseWith k hgood tagFuel ⟨b :: rest, d⟩ hd
  have hnok : (parseWith k tagFuel ⟨b :: rest, d⟩).1.isOk = false := by
    unfold tagFuel parseWith
    cases hr : readHead ⟨b :: rest, d⟩ with
    | mk r s1 =>
      cases r with
      | ok h =>
        have hm := readHead_major b rest d h s1 hr
        cases h <;> simp only [] <;> first
          | (apply hk; rw [hm]; exact hb)
          | (exfalso; simp [Head.major] at hm; omega)
      | err e => rfl
      | panic p => rfl
  cases hp : parseWith k tagFuel ⟨b :: rest, d⟩ with
  | mk r s' =>
    rw [hp] at hg hnok
    cases r with
    | ok a => simp [Res.isOk] at hnok
    | err e => exact ⟨e, s', rfl⟩
    | panic p => simp [Res.isPanic] at hg

/-- serde's unsigned-integer visitors accept major type 0 only -/
theorem kUint_only_uint (bound : Nat) (h : Head) (s : St) (hm : (Head.major h == 0) = false) :
    (kUint bound h s).1.isOk = false := by
  cases h <;> first
    | exact reject_not_ok _ s
    | (exfalso; simp [Head.major] at hm)

/-- **C19 (wrong kind in place of a mandatory unsigned integer).** Negative integers (major
    type 1), byte strings (2), text strings (3), arrays (4), maps (5), floats, null, booleans and
    every other simple value (7): each is refused by the three unsigned-integer readers the block
    visitors use, whatever its argument and whatever follows. -/
theorem readUint_wrong_major (b : UInt8) (rest : Bytes) (d : Nat) (hd : 1 ≤ d)
    (hb : b.toNat / 32 ≠ 0) (h6 : b.toNat / 32 ≠ 6) :
    (∃ e s', readU64 ⟨b :: rest, d⟩ = (.err e, s')) ∧ (∃ e s', readU32 ⟨b :: rest, d⟩ = (.err e, s')) ∧
    (∃ e s', readU8 ⟨b :: rest, d⟩ = (.err e, s')) := by
  have hb' : (b.toNat / 32 == 0) = false := by simpa using hb
  exact ⟨parse_wrong_major _ (good_kUint _) (· == 0) (fun h s => kUint_only_uint _ h s) b rest d hd hb' h6,
         parse_wrong_major _ (good_kUint _) (· == 0) (fun h s => kUint_only_uint _ h s) b rest d hd hb' h6,
         parse_wrong_major _ (good_kUint _) (· == 0) (fun h s => kUint_only_uint _ h s) b rest d hd hb' h6⟩

/-- visitors that implement `visit_seq` only accept major type 4 only -/
theorem kSeq_only_array {α} (visit : Acc → P (α × Acc)) (h : Head) (s : St) (hm : (Head.major h == 4) = false) :
    (kSeq visit h s).1.isOk = false := by
  cases h <;> first
    | exact reject_not_ok _ s
    | (exfalso; simp [Head.major] at hm)

/-- **C19 (an integer, string or map in place of a mandatory array).** Unsigned and negative
    integers, byte and text strings, maps, floats and simple values are refused wherever an
    endpoint ID, a creation timestamp, an ipn address, a block or the hop-count pair is required. -/
theorem readSeq_wrong_major {α} (visit : Acc → P (α × Acc)) (hv : ∀ acc, Safe (visit acc))
    (b : UInt8) (rest : Bytes) (d : Nat) (hd : 1 ≤ d) (hb : b.toNat / 32 ≠ 4) (h6 : b.toNat / 32 ≠ 6) :
    ∃ e s', readSeq visit ⟨b :: rest, d⟩ = (.err e, s') :=
  parse_wrong_major _ (good_kSeq visit hv) (· == 4) (fun h s => kSeq_only_array visit h s) b rest d hd
    (by simpa using hb) h6

theorem readEid_wrong_major (b : UInt8) (rest : Bytes) (d : Nat) (hd : 1 ≤ d) (hb : b.toNat / 32 ≠ 4) (h6 : b.toNat / 32 ≠ 6) :
    ∃ e s', readEid ⟨b :: rest, d⟩ = (.err e, s') := readSeq_wrong_major _ safe_visitEid b rest d hd hb h6
theorem readPairU64_wrong_major (b : UInt8) (rest : Bytes) (d : Nat) (hd : 1 ≤ d) (hb : b.toNat / 32 ≠ 4) (h6 : b.toNat / 32 ≠ 6) :
    ∃ e s', readPairU64 ⟨b :: rest, d⟩ = (.err e, s') :=
  readSeq_wrong_major _ (fun acc => (good_visitPairU64 acc).safe) b rest d hd hb h6
theorem readPrimary_wrong_major (b : UInt8) (rest : Bytes) (d : Nat) (hd : 1 ≤ d) (hb : b.toNat / 32 ≠ 4) (h6 : b.toNat / 32 ≠ 6) :
    ∃ e s', readPrimary ⟨b :: rest, d⟩ = (.err e, s') := readSeq_wrong_major _ safe_visitPrimary b rest d hd hb h6
theorem readCanon_wrong_major (b : UInt8) (rest : Bytes) (d : Nat) (hd : 1 ≤ d) (hb : b.toNat / 32 ≠ 4) (h6 : b.toNat / 32 ≠ 6) :
    ∃ e s', readCanon ⟨b :: rest, d⟩ = (.err e, s') := readSeq_wrong_major _ safe_visitCanon b rest d hd hb h6

/-- serde_bytes' `ByteBuf` visitor accepts byte strings, text strings and sequences — nothing else -/
theorem kByteBuf_only (h : Head) (s : St) (hm : (Head.major h == 2 || Head.major h == 3 || Head.major h == 4) = false) :
    (kByteBuf h s).1.isOk = false := by
  cases h <;> first
    | exact reject_not_ok _ s
    | (exfalso; simp [Head.major] at hm)

/-- **C19 (an integer in place of a byte-string field).** Unsigned and negative integers — and
    maps, floats, simple values — are refused where block-type-specific data or a CRC value is
    required. -/
theorem readByteBuf_wrong_major (b : UInt8) (rest : Bytes) (d : Nat) (hd : 1 ≤ d)
    (hb : b.toNat / 32 ≠ 2 ∧ b.toNat / 32 ≠ 3 ∧ b.toNat / 32 ≠ 4) (h6 : b.toNat / 32 ≠ 6) :
    ∃ e s', readByteBuf ⟨b :: rest, d⟩ = (.err e, s') :=
  parse_wrong_major _ good_kByteBuf (fun m => m == 2 || m == 3 || m == 4) (fun h s => kByteBuf_only h s) b rest d hd
    (by simp [hb.1, hb.2.1, hb.2.2]) h6

/-! ### every mandatory position of the primary block -/

/-- the eight mandatory items of a primary block, one encoding each -/
def primaryItems (p : Primary) (t : Nat) : List Bytes :=
  [encUint p.version, encUint p.flags, encUint t, encEid p.dst, encEid p.src, encEid p.rpt,
   encArrayHead 2 ++ encUint p.ts ++ encUint p.seq, encUint p.lifetime]

/-- RFC 9171 §4.3.1: items 3–6 (the three endpoint IDs, the creation timestamp) are arrays, the
    other mandatory items are unsigned integers -/
def primarySlotMajor (k : Nat) : Nat := if k = 3 ∨ k = 4 ∨ k = 5 ∨ k = 6 then 4 else 0

theorem primaryItems_flatten (p : Primary) (t : Nat) : (primaryItems p t).flatten = enc8 p t := by
  simp [primaryItems, enc8]

/-- the visitor fails when, after `k` conformant items, the next item starts with a byte of the
    wrong major type -/
theorem visitPrimary_wrong_kind (p : Primary) (h : p.wf = true) (t : Nat) (ht : t < 256) (k : Nat) (hk : k < 8)
    (n : Nat) (b : UInt8) (rest : Bytes) (hb : b.toNat / 32 ≠ primarySlotMajor k) (h6 : b.toNat / 32 ≠ 6) :
    ∃ e s', visitPrimary (some (n + k + 1)) ⟨((primaryItems p t).take k).flatten ++ b :: rest, 126⟩ = (.err e, s') := by
  simp only [Primary.wf, Bool.and_eq_true, U64_eq, U32_eq] at h
  obtain ⟨⟨⟨⟨⟨⟨⟨⟨⟨⟨⟨hver, hfl⟩, _⟩, hdst⟩, hsrc⟩, hrpt⟩, hts⟩, hseq⟩, hlt⟩, _⟩, _⟩, _⟩ := h
  have hver := of_decide_eq_true hver
  have hfl := of_decide_eq_true hfl
  have hts := of_decide_eq_true hts
  have hseq := of_decide_eq_true hseq
  have hpair := fun r => readPairU64_enc p.ts p.seq (by rw [U64_eq]; exact hts) (by rw [U64_eq]; exact hseq) r 126 (by omega)
  simp only [List.append_assoc] at hpair
  have hk' : k = 0 ∨ k = 1 ∨ k = 2 ∨ k = 3 ∨ k = 4 ∨ k = 5 ∨ k = 6 ∨ k = 7 := by omega
  rcases hk' with rfl | rfl | rfl | rfl | rfl | rfl | rfl | rfl
  · obtain ⟨_, ⟨e, s', hx⟩, _⟩ := readUint_wrong_major b rest 126 (by omega) (by simpa [primarySlotMajor] using hb) h6
    refine ⟨e, s', ?_⟩
    simp [primaryItems, visitPrimary, bind_apply, reqElem_succ, hx]
  · obtain ⟨⟨e, s', hx⟩, _, _⟩ := readUint_wrong_major b rest 126 (by omega) (by simpa [primarySlotMajor] using hb) h6
    refine ⟨e, s', ?_⟩
    simp [primaryItems, visitPrimary, bind_apply, reqElem_succ, readU32_enc p.version hver, hx]
  · obtain ⟨_, _, ⟨e, s', hx⟩⟩ := readUint_wrong_major b rest 126 (by omega) (by simpa [primarySlotMajor] using hb) h6
    refine ⟨e, s', ?_⟩
    simp [primaryItems, visitPrimary, bind_apply, reqElem_succ, readU32_enc p.version hver, readU64_enc p.flags hfl, hx]
  · obtain ⟨e, s', hx⟩ := readEid_wrong_major b rest 126 (by omega) (by simpa [primarySlotMajor] using hb) h6
    refine ⟨e, s', ?_⟩
    simp [primaryItems, visitPrimary, bind_apply, reqElem_succ, readU32_enc p.version hver, readU64_enc p.flags hfl,
      readU8_enc t ht, hx]
  · obtain ⟨e, s', hx⟩ := readEid_wrong_major b rest 126 (by omega) (by simpa [primarySlotMajor] using hb) h6
    refine ⟨e, s', ?_⟩
    simp [primaryItems, visitPrimary, bind_apply, reqElem_succ, readU32_enc p.version hver, readU64_enc p.flags hfl,
      readU8_enc t ht, readEid_enc p.dst hdst _ 126 (by omega), hx]
  · obtain ⟨e, s', hx⟩ := readEid_wrong_major b rest 126 (by omega) (by simpa [primarySlotMajor] using hb) h6
    refine ⟨e, s', ?_⟩
    simp [primaryItems, visitPrimary, bind_apply, reqElem_succ, readU32_enc p.version hver, readU64_enc p.flags hfl,
      readU8_enc t ht, readEid_enc p.dst hdst _ 126 (by omega), readEid_enc p.src hsrc _ 126 (by omega), hx]
  · obtain ⟨e, s', hx⟩ := readPairU64_wrong_major b rest 126 (by omega) (by simpa [primarySlotMajor] using hb) h6
    refine ⟨e, s', ?_⟩
    simp [primaryItems, visitPrimary, bind_apply, reqElem_succ, readU32_enc p.version hver, readU64_enc p.flags hfl,
      readU8_enc t ht, readEid_enc p.dst hdst _ 126 (by omega), readEid_enc p.src hsrc _ 126 (by omega),
      readEid_enc p.rpt hrpt _ 126 (by omega), hx]
  · obtain ⟨⟨e, s', hx⟩, _, _⟩ := readUint_wrong_major b rest 126 (by omega) (by simpa [primarySlotMajor] using hb) h6
    refine ⟨e, s', ?_⟩
    simp [primaryItems, visitPrimary, bind_apply, reqElem_succ, readU32_enc p.version hver, readU64_enc p.flags hfl,
      readU8_enc t ht, readEid_enc p.dst hdst _ 126 (by omega), readEid_enc p.src hsrc _ 126 (by omega),
      readEid_enc p.rpt hrpt _ 126 (by omega), hpair, hx]

/-- **C19 (wrong kind of item in ANY mandatory position of the primary block).** After `k < 8`
    conformant items, an item whose first byte has a major type other than the one RFC 9171
    prescribes for position `k` (unsigned integer, resp. array for the endpoint IDs and the
    creation timestamp) — any argument, anything after it, any announced item count: rejected. -/
theorem reject_primary_wrong_kind (p : Primary) (h : p.wf = true) (t : Nat) (ht : t < 256) (k : Nat) (hk : k < 8)
    (count : Nat) (hc : count < 24) (hkc : k < count)
    (b : UInt8) (rest : Bytes) (hb : b.toNat / 32 ≠ primarySlotMajor k) (h6 : b.toNat / 32 ≠ 6) :
    ∃ e, decodeBundle ([0x9f] ++ (encArrayHead count ++ (((primaryItems p t).take k).flatten ++ b :: rest))) = .err e := by
  obtain ⟨n, rfl⟩ : ∃ n, count = n + k + 1 := ⟨count - k - 1, by omega⟩
  obtain ⟨e, s', hv⟩ := visitPrimary_wrong_kind p h t ht k hk n b rest hb h6
  exact ⟨e, reject_of_visit_err _ hc _ e s' hv⟩

/-- **C19 (wrong kind in place of the fragment offset or the total length).** A primary block
    announcing ten or more items: after the eight mandatory ones (and, for the total length, a
    conformant fragment offset) an item that is not an unsigned integer is rejected. -/
theorem reject_primary_frag_wrong_kind (p : Primary) (h : p.wf = true) (t : Nat) (ht : t < 256)
    (count : Nat) (hc : count < 24) (hc10 : 10 ≤ count) (second : Bool) (fo : Nat) (hfo : fo < 18446744073709551616)
    (b : UInt8) (rest : Bytes) (hb : b.toNat / 32 ≠ 0) (h6 : b.toNat / 32 ≠ 6) :
    ∃ e, decodeBundle (faultyBundle p t count ((if second then encUint fo else []) ++ [b]) rest) = .err e := by
  obtain ⟨n, rfl⟩ : ∃ n, count = (n + 2) + 8 := ⟨count - 10, by omega⟩
  obtain ⟨⟨e, s', hx⟩, _, _⟩ := readUint_wrong_major b rest 126 (by omega) hb h6
  refine ⟨e, reject_of_visit_err _ hc _ e s' ?_⟩
  rw [visitPrimary_after8 p h t ht (n + 2) _ 126 (by omega)]
  cases second
  · simp [primaryTail, bind_apply, reqElem_succ, hx]
  · simp [primaryTail, bind_apply, reqElem_succ, readU64_enc fo hfo, hx]

/-- **C19 (an integer — or a map, float, simple value — in place of the CRC value of the primary
    block).** Non-fragment layout (nine items) and fragment layout (eleven items), CRC type 1 or 2. -/
theorem reject_primary_crc_wrong_kind (p : Primary) (h : p.wf = true) (t : Nat) (ht : t = 1 ∨ t = 2)
    (b : UInt8) (rest : Bytes) (hb : b.toNat / 32 ≠ 2 ∧ b.toNat / 32 ≠ 3 ∧ b.toNat / 32 ≠ 4) (h6 : b.toNat / 32 ≠ 6) :
    (∃ e, decodeBundle (faultyBundle p t 9 [b] rest) = .err e) ∧
    (∀ fo tl, fo < 18446744073709551616 → tl < 18446744073709551616 →
      ∃ e, decodeBundle (faultyBundle p t 11 (encUint fo ++ (encUint tl ++ [b])) rest) = .err e) := by
  obtain ⟨e, s', hx⟩ := readByteBuf_wrong_major b rest 126 (by omega) hb h6
  have ht' : t < 256 := by omega
  constructor
  · refine ⟨e, reject_of_visit_err 9 (by omega) _ e s' ?_⟩
    rw [visitPrimary_after8 p h t ht' 1 _ 126 (by omega)]
    rcases ht with rfl | rfl <;> simp [primaryTail, bind_apply, pure_apply, visitCrc, reqElem_succ, hx]
  · intro fo tl hfo htl
    refine ⟨e, reject_of_visit_err 11 (by omega) _ e s' ?_⟩
    rw [visitPrimary_after8 p h t ht' 3 _ 126 (by omega)]
    rcases ht with rfl | rfl <;>
      simp [primaryTail, bind_apply, pure_apply, visitCrc, reqElem_succ, readU64_enc fo hfo, readU64_enc tl htl, hx]

/-! ### every mandatory position of a canonical block -/

/-- the five mandatory items of a canonical block -/
def canonItems (c : Canon) (t : Nat) : List Bytes :=
  [encUint c.btype, encUint c.num, encUint c.flags, encUint t, encBytes (btsd c.data)]

/-- acceptable major types per position (RFC 9171 §4.3.2: four unsigned integers, then a byte
    string — for which serde_bytes also takes a text string or a sequence) -/
def canonSlotOk (k : Nat) (m : Nat) : Bool := if k = 4 then (m == 2 || m == 3 || m == 4) else m == 0

theorem visitCanon_wrong_kind (c : Canon) (h : c.wf = true) (t : Nat) (ht : t < 256) (k : Nat) (hk : k < 5)
    (n : Nat) (b : UInt8) (rest : Bytes) (hb : canonSlotOk k (b.toNat / 32) = false) (h6 : b.toNat / 32 ≠ 6) :
    ∃ e s', visitCanon (some (n + k + 1)) ⟨((canonItems c t).take k).flatten ++ b :: rest, 126⟩ = (.err e, s') := by
  simp only [Canon.wf, Bool.and_eq_true, U64_eq] at h
  obtain ⟨⟨⟨⟨⟨hbt, hn⟩, hf⟩, _⟩, _⟩, _⟩ := h
  have hbt := of_decide_eq_true hbt
  have hn := of_decide_eq_true hn
  have hf := of_decide_eq_true hf
  have hk' : k = 0 ∨ k = 1 ∨ k = 2 ∨ k = 3 ∨ k = 4 := by omega
  rcases hk' with rfl | rfl | rfl | rfl | rfl
  · obtain ⟨⟨e, s', hx⟩, _, _⟩ := readUint_wrong_major b rest 126 (by omega) (by simpa [canonSlotOk] using hb) h6
    exact ⟨e, s', by simp [canonItems, visitCanon, bind_apply, reqElem_succ, hx]⟩
  · obtain ⟨⟨e, s', hx⟩, _, _⟩ := readUint_wrong_major b rest 126 (by omega) (by simpa [canonSlotOk] using hb) h6
    exact ⟨e, s', by simp [canonItems, visitCanon, bind_apply, reqElem_succ, readU64_enc c.btype hbt, hx]⟩
  · obtain ⟨_, _, ⟨e, s', hx⟩⟩ := readUint_wrong_major b rest 126 (by omega) (by simpa [canonSlotOk] using hb) h6
    exact ⟨e, s', by simp [canonItems, visitCanon, bind_apply, reqElem_succ, readU64_enc c.btype hbt, readU64_enc c.num hn, hx]⟩
  · obtain ⟨_, _, ⟨e, s', hx⟩⟩ := readUint_wrong_major b rest 126 (by omega) (by simpa [canonSlotOk] using hb) h6
    exact ⟨e, s', by simp [canonItems, visitCanon, bind_apply, reqElem_succ, readU64_enc c.btype hbt, readU64_enc c.num hn,
      readU8_enc c.flags hf, hx]⟩
  · obtain ⟨e, s', hx⟩ := readByteBuf_wrong_major b rest 126 (by omega)
      (by simp [canonSlotOk] at hb; exact ⟨hb.1.1, hb.1.2, hb.2⟩) h6
    exact ⟨e, s', by simp [canonItems, visitCanon, bind_apply, reqElem_succ, readU64_enc c.btype hbt, readU64_enc c.num hn,
      readU8_enc c.flags hf, readU8_enc t ht, hx]⟩

/-- **C19 (wrong kind of item in ANY mandatory position of a canonical block).** The block follows
    a conformant primary block; after `k < 5` conformant items comes an item of a major type the
    position does not take. -/
theorem reject_canon_wrong_kind (p : Primary) (hp : p.wf = true ∧ p.crc.wire = true) (c : Canon) (h : c.wf = true)
    (t : Nat) (ht : t < 256) (k : Nat) (hk : k < 5) (count : Nat) (hc : count < 24) (hkc : k < count)
    (b : UInt8) (rest : Bytes) (hb : canonSlotOk k (b.toNat / 32) = false) (h6 : b.toNat / 32 ≠ 6) :
    ∃ e, decodeBundle ([0x9f] ++ (encPrimary p ++ (encArrayHead count ++ (((canonItems c t).take k).flatten ++ b :: rest)))) = .err e := by
  obtain ⟨n, rfl⟩ : ∃ n, count = n + k + 1 := ⟨count - k - 1, by omega⟩
  obtain ⟨e, s', hv⟩ := visitCanon_wrong_kind c h t ht k hk n b rest hb h6
  have := readCanon_of_visit_err (n + k + 1) hc _ e s' hv
  rw [encArrayHead_small _ hc]
  simp only [List.cons_append, List.nil_append]
  exact ⟨e, reject_of_canon_err p hp _ (by rw [UInt8.toNat_ofNat']; omega) _ e _ this⟩

/-- **C19 (an integer, map, float or simple value in place of the CRC value of a canonical block).** -/
theorem reject_canon_crc_wrong_kind (p : Primary) (hp : p.wf = true ∧ p.crc.wire = true) (c : Canon) (h : c.wf = true)
    (t : Nat) (ht : t = 1 ∨ t = 2)
    (b : UInt8) (rest : Bytes) (hb : b.toNat / 32 ≠ 2 ∧ b.toNat / 32 ≠ 3 ∧ b.toNat / 32 ≠ 4) (h6 : b.toNat / 32 ≠ 6) :
    ∃ e, decodeBundle ([0x9f] ++ (encPrimary p ++ (canonWith c t 6 (b :: rest)))) = .err e := by
  obtain ⟨e, s', hx⟩ := readByteBuf_wrong_major b rest 126 (by omega) hb h6
  unfold canonWith
  rw [encArrayHead_small 6 (by omega)]
  simp only [List.cons_append, List.nil_append]
  refine ⟨e, reject_of_canon_err p hp _ (by decide) _ e _ (readCanon_of_visit_err 6 (by omega) _ e s' ?_)⟩
  rw [visitCanon_after5 c h t (by omega) 1 _ 126]
  rcases ht with rfl | rfl <;> simp [bind_apply, visitCrc, reqElem_succ, hx]

end Bp7.C19
