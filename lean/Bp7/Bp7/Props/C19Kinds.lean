/-
  C19, position- and value-generic rejection theorems.

  The theorems of C19.lean / C19More.lean fix the position of the fault (e.g. the destination
  EID) and often the faulty item (a sample of non-integers).  Here the fault classes of the
  property are proved for EVERY position of the class and EVERY item of the wrong kind:

  * `read*_wrong_major`  — a reader that wants an unsigned integer / an array / a byte string fails
    on every input whose first byte has another CBOR major type (tags, which serde_cbor treats
    as transparent, excepted) — whatever follows that byte;
  * `reject_primary_wrong_kind` — an item of a wrong major type in ANY of the eight mandatory
    positions of the primary block;
  * `reject_canon_wrong_kind`   — the same for the five mandatory positions of a canonical block;
  * `reject_primary_missing`    — ANY one of the eight mandatory items of the primary block
    missing (the remaining ones shifted up);
  * timestamp / ipn-address arity.
-/
import Bp7.Props.C19More
namespace Bp7.C19
open Bp7 Bp7.C06

/-- CBOR major type of a head as the reader reports it -/
def Head.major : Head → Nat
  | .uint _ => 0 | .nint _ => 1 | .bytes _ | .bytesI => 2 | .text _ | .textI => 3
  | .array _ | .arrayI => 4 | .map _ | .mapI => 5 | .tag _ => 6
  | .bool _ | .unit | .float => 7

theorem readArg_ok_or (ai : Nat) (s : St) :
    (∃ n s', readArg ai s = (.ok n, s')) ∨ (∃ e s', readArg ai s = (.err e, s')) := by
  unfold readArg
  split
  · exact .inl ⟨_, _, rfl⟩
  · simp only [takeN]
    by_cases hl : (if ai = 24 then 1 else if ai = 25 then 2 else if ai = 26 then 4 else 8) ≤ s.inp.length
    · simp [hl]
    · simp [hl]

/-- the head the reader reports has the major type of the initial byte -/
theorem readHead_major (b : UInt8) (rest : Bytes) (d : Nat) (h : Head) (s1 : St)
    (hr : readHead ⟨b :: rest, d⟩ = (.ok h, s1)) : Head.major h = b.toNat / 32 := by
  have hb : b.toNat / 32 < 8 := by have := b.toNat_lt; omega
  unfold readHead at hr
  simp only at hr
  by_cases h7 : b.toNat / 32 = 7
  · simp only [h7, if_true] at hr
    split at hr
    · cases hr; simp [Head.major, h7]
    · split at hr
      · cases hr; simp [Head.major, h7]
      · split at hr
        · cases hr; simp [Head.major, h7]
        · split at hr
          · rcases readArg_ok_or (b.toNat % 32) ⟨rest, d⟩ with ⟨n, s', hx⟩ | ⟨e, s', hx⟩
            · simp only [hx] at hr; cases hr; simp [Head.major, h7]
            · simp [hx] at hr
          · simp at hr
  · simp only [h7, if_false] at hr
    split at hr
    · simp at hr
    · split at hr
      · split at hr
        · rename_i h2; cases hr; simp [Head.major, h2]
        · split at hr
          · rename_i h3; cases hr; simp [Head.major, h3]
          · split at hr
            · rename_i h4; cases hr; simp [Head.major, h4]
            · split at hr
              · rename_i h5; cases hr; simp [Head.major, h5]
              · simp at hr
      · rcases readArg_ok_or (b.toNat % 32) ⟨rest, d⟩ with ⟨n, s', hx⟩ | ⟨e, s', hx⟩
        · simp only [hx] at hr
          cases hr
          by_cases h0 : b.toNat / 32 = 0
          · simp [h0, Head.major]
          by_cases h1 : b.toNat / 32 = 1
          · simp [h1, Head.major]
          by_cases h2 : b.toNat / 32 = 2
          · simp [h2, Head.major]
          by_cases h3 : b.toNat / 32 = 3
          · simp [h3, Head.major]
          by_cases h4 : b.toNat / 32 = 4
          · simp [h4, Head.major]
          by_cases h5 : b.toNat / 32 = 5
          · simp [h5, Head.major]
          · simp only [h0, h1, h2, h3, h4, h5, if_false, Head.major]; omega
        · simp [hx] at hr

theorem ite_err_not_ok {α} (c : Prop) [Decidable c] (e1 e2 : Err) :
    (if c then (Res.err e1 : Res α) else Res.err e2).isOk = false := by split <;> rfl

/-- a visitor's `invalid type` answer is never a success -/
theorem reject_not_ok {α} (h : Head) (s : St) : ((reject h : P α) s).1.isOk = false := by
  cases h <;> simp only [reject]
  case bytes len => cases hx : takeN len s with | mk r s' => cases r <;> simp [Res.isOk]
  case text len =>
    cases hx : takeN len s with
    | mk r s' => cases r <;> simp only [hx] <;> first | rfl | exact ite_err_not_ok _ _ _
  case bytesI =>
    cases hx : readChunks 2 (s.inp.length + 1) [] s with | mk r s' => cases r <;> simp [Res.isOk]
  case textI =>
    cases hx : readChunks 3 (s.inp.length + 1) [] s with
    | mk r s' => cases r <;> simp only [hx] <;> first | rfl | exact ite_err_not_ok _ _ _
  all_goals first
    | rfl
    | (simp only [recursionChecked, P.fail]; split; rfl; split <;> rfl)

/-- not a success and not a panic: an error -/
theorem err_of_not_ok {α} (r : Res α) (s' : St) (h1 : r.isOk = false) (h2 : r.isPanic = false) :
    ∃ e, (r, s') = (Res.err e, s') := by
  cases r <;> simp_all [Res.isOk, Res.isPanic]

/-- **Universal wrong-kind lemma.** A visitor `k` that answers every head whose major type it
    does not `accept` with something other than a success fails on every input whose first byte
    has such a major type (and is not a tag), whatever follows. -/
theorem parse_wrong_major {α} (k : Head → P α) (hgood : ∀ h, Good (k h)) (accept : Nat → Bool)
    (hk : ∀ h s, accept (Head.major h) = false → (k h s).1.isOk = false)
    (b : UInt8) (rest : Bytes) (d : Nat) (hd : 1 ≤ d)
    (hb : accept (b.toNat / 32) = false) (h6 : b.toNat / 32 ≠ 6) :
    ∃ e s', parseWith k tagFuel ⟨b :: rest, d⟩ = (.err e, s') := by
  have hg := good_parseWith k hgood tagFuel ⟨b :: rest, d⟩ hd
  have hnok : (parseWith k tagFuel ⟨b :: rest, d⟩).1.isOk = false := by
    unfold tagFuel parseWith
    cases hr : readHead ⟨b :: rest, d⟩ with
    | mk r s1 =>
      cases r with
      | ok h =>
        have hm := readHead_major b rest d h s1 hr
        cases h <;> simp only [] <;> first
          | (apply hk; rw [hm]; exact hb)
          | (exfalso; simp [Head.major] at hm; omega)
      | err e => rfl
      | panic p => rfl
  cases hp : parseWith k tagFuel ⟨b :: rest, d⟩ with
  | mk r s' =>
    rw [hp] at hg hnok
    cases r with
    | ok a => simp [Res.isOk] at hnok
    | err e => exact ⟨e, s', rfl⟩
    | panic p => simp [Res.isPanic] at hg

/-- serde's unsigned-integer visitors accept major type 0 only -/
theorem kUint_only_uint (bound : Nat) (h : Head) (s : St) (hm : (Head.major h == 0) = false) :
    (kUint bound h s).1.isOk = false := by
  cases h <;> first
    | exact reject_not_ok _ s
    | (exfalso; simp [Head.major] at hm)

/-- **C19 (wrong kind in place of a mandatory unsigned integer).** Negative integers (major
    type 1), byte strings (2), text strings (3), arrays (4), maps (5), floats, null, booleans and
    every other simple value (7): each is refused by the three unsigned-integer readers the block
    visitors use, whatever its argument and whatever follows. -/
theorem readUint_wrong_major (b : UInt8) (rest : Bytes) (d : Nat) (hd : 1 ≤ d)
    (hb : b.toNat / 32 ≠ 0) (h6 : b.toNat / 32 ≠ 6) :
    (∃ e s', readU64 ⟨b :: rest, d⟩ = (.err e, s')) ∧ (∃ e s', readU32 ⟨b :: rest, d⟩ = (.err e, s')) ∧
    (∃ e s', readU8 ⟨b :: rest, d⟩ = (.err e, s')) := by
  have hb' : (b.toNat / 32 == 0) = false := by simpa using hb
  exact ⟨parse_wrong_major _ (good_kUint _) (· == 0) (fun h s => kUint_only_uint _ h s) b rest d hd hb' h6,
         parse_wrong_major _ (good_kUint _) (· == 0) (fun h s => kUint_only_uint _ h s) b rest d hd hb' h6,
         parse_wrong_major _ (good_kUint _) (· == 0) (fun h s => kUint_only_uint _ h s) b rest d hd hb' h6⟩

/-- visitors that implement `visit_seq` only accept major type 4 only -/
theorem kSeq_only_array {α} (visit : Acc → P (α × Acc)) (h : Head) (s : St) (hm : (Head.major h == 4) = false) :
    (kSeq visit h s).1.isOk = false := by
  cases h <;> first
    | exact reject_not_ok _ s
    | (exfalso; simp [Head.major] at hm)

/-- **C19 (an integer, string or map in place of a mandatory array).** Unsigned and negative
    integers, byte and text strings, maps, floats and simple values are refused wherever an
    endpoint ID, a creation timestamp, an ipn address, a block or the hop-count pair is required. -/
theorem readSeq_wrong_major {α} (visit : Acc → P (α × Acc)) (hv : ∀ acc, Safe (visit acc))
    (b : UInt8) (rest : Bytes) (d : Nat) (hd : 1 ≤ d) (hb : b.toNat / 32 ≠ 4) (h6 : b.toNat / 32 ≠ 6) :
    ∃ e s', readSeq visit ⟨b :: rest, d⟩ = (.err e, s') :=
  parse_wrong_major _ (good_kSeq visit hv) (· == 4) (fun h s => kSeq_only_array visit h s) b rest d hd
    (by simpa using hb) h6

theorem readEid_wrong_major (b : UInt8) (rest : Bytes) (d : Nat) (hd : 1 ≤ d) (hb : b.toNat / 32 ≠ 4) (h6 : b.toNat / 32 ≠ 6) :
    ∃ e s', readEid ⟨b :: rest, d⟩ = (.err e, s') := readSeq_wrong_major _ safe_visitEid b rest d hd hb h6
theorem readPairU64_wrong_major (b : UInt8) (rest : Bytes) (d : Nat) (hd : 1 ≤ d) (hb : b.toNat / 32 ≠ 4) (h6 : b.toNat / 32 ≠ 6) :
    ∃ e s', readPairU64 ⟨b :: rest, d⟩ = (.err e, s') :=
  readSeq_wrong_major _ (fun acc => (good_visitPairU64 acc).safe) b rest d hd hb h6
theorem readPrimary_wrong_major (b : UInt8) (rest : Bytes) (d : Nat) (hd : 1 ≤ d) (hb : b.toNat / 32 ≠ 4) (h6 : b.toNat / 32 ≠ 6) :
    ∃ e s', readPrimary ⟨b :: rest, d⟩ = (.err e, s') := readSeq_wrong_major _ safe_visitPrimary b rest d hd hb h6
theorem readCanon_wrong_major (b : UInt8) (rest : Bytes) (d : Nat) (hd : 1 ≤ d) (hb : b.toNat / 32 ≠ 4) (h6 : b.toNat / 32 ≠ 6) :
    ∃ e s', readCanon ⟨b :: rest, d⟩ = (.err e, s') := readSeq_wrong_major _ safe_visitCanon b rest d hd hb h6

/-- serde_bytes' `ByteBuf` visitor accepts byte strings, text strings and sequences — nothing else -/
theorem kByteBuf_only (h : Head) (s : St) (hm : (Head.major h == 2 || Head.major h == 3 || Head.major h == 4) = false) :
    (kByteBuf h s).1.isOk = false := by
  cases h <;> first
    | exact reject_not_ok _ s
    | (exfalso; simp [Head.major] at hm)

/-- **C19 (an integer in place of a byte-string field).** Unsigned and negative integers — and
    maps, floats, simple values — are refused where block-type-specific data or a CRC value is
    required. -/
theorem readByteBuf_wrong_major (b : UInt8) (rest : Bytes) (d : Nat) (hd : 1 ≤ d)
    (hb : b.toNat / 32 ≠ 2 ∧ b.toNat / 32 ≠ 3 ∧ b.toNat / 32 ≠ 4) (h6 : b.toNat / 32 ≠ 6) :
    ∃ e s', readByteBuf ⟨b :: rest, d⟩ = (.err e, s') :=
  parse_wrong_major _ good_kByteBuf (fun m => m == 2 || m == 3 || m == 4) (fun h s => kByteBuf_only h s) b rest d hd
    (by simp [hb.1, hb.2.1, hb.2.2]) h6

/-! ### every mandatory position of the primary block -/

/-- the eight mandatory items of a primary block, one encoding each -/
def primaryItems (p : Primary) (t : Nat) : List Bytes :=
  [encUint p.version, encUint p.flags, encUint t, encEid p.dst, encEid p.src, encEid p.rpt,
   encArrayHead 2 ++ encUint p.ts ++ encUint p.seq, encUint p.lifetime]

/-- RFC 9171 §4.3.1: items 3–6 (the three endpoint IDs, the creation timestamp) are arrays, the
    other mandatory items are unsigned integers -/
def primarySlotMajor (k : Nat) : Nat := if k = 3 ∨ k = 4 ∨ k = 5 ∨ k = 6 then 4 else 0

theorem primaryItems_flatten (p : Primary) (t : Nat) : (primaryItems p t).flatten = enc8 p t := by
  simp [primaryItems, enc8]

/-- the reader the primary-block visitor uses for its `k`-th item fails on input `x` -/
def PrimarySlotFails (k : Nat) (x : Bytes) : Prop :=
  match k with
  | 0 => ∃ e s', readU32 ⟨x, 126⟩ = (.err e, s')
  | 1 => ∃ e s', readU64 ⟨x, 126⟩ = (.err e, s')
  | 2 => ∃ e s', readU8 ⟨x, 126⟩ = (.err e, s')
  | 3 | 4 | 5 => ∃ e s', readEid ⟨x, 126⟩ = (.err e, s')
  | 6 => ∃ e s', readPairU64 ⟨x, 126⟩ = (.err e, s')
  | 7 => ∃ e s', readU64 ⟨x, 126⟩ = (.err e, s')
  | _ => False

/-- the visitor fails when, after `k` conformant items, the reader of position `k` fails on what
    comes next -/
theorem visitPrimary_slot_err (p : Primary) (h : p.wf = true) (t : Nat) (ht : t < 256) (k : Nat) (hk : k < 8)
    (n : Nat) (x : Bytes) (hx : PrimarySlotFails k x) :
    ∃ e s', visitPrimary (some (n + k + 1)) ⟨((primaryItems p t).take k).flatten ++ x, 126⟩ = (.err e, s') := by
  simp only [Primary.wf, Bool.and_eq_true, U64_eq, U32_eq] at h
  obtain ⟨⟨⟨⟨⟨⟨⟨⟨⟨⟨⟨hver, hfl⟩, _⟩, hdst⟩, hsrc⟩, hrpt⟩, hts⟩, hseq⟩, hlt⟩, _⟩, _⟩, _⟩ := h
  have hver := of_decide_eq_true hver
  have hfl := of_decide_eq_true hfl
  have hts := of_decide_eq_true hts
  have hseq := of_decide_eq_true hseq
  have hpair := fun r => readPairU64_enc p.ts p.seq (by rw [U64_eq]; exact hts) (by rw [U64_eq]; exact hseq) r 126 (by omega)
  simp only [List.append_assoc] at hpair
  have hk' : k = 0 ∨ k = 1 ∨ k = 2 ∨ k = 3 ∨ k = 4 ∨ k = 5 ∨ k = 6 ∨ k = 7 := by omega
  rcases hk' with rfl | rfl | rfl | rfl | rfl | rfl | rfl | rfl <;> obtain ⟨e, s', hx⟩ := hx <;> refine ⟨e, s', ?_⟩
  · simp [primaryItems, visitPrimary, bind_apply, reqElem_succ, hx]
  · simp [primaryItems, visitPrimary, bind_apply, reqElem_succ, readU32_enc p.version hver, hx]
  · simp [primaryItems, visitPrimary, bind_apply, reqElem_succ, readU32_enc p.version hver, readU64_enc p.flags hfl, hx]
  · simp [primaryItems, visitPrimary, bind_apply, reqElem_succ, readU32_enc p.version hver, readU64_enc p.flags hfl,
      readU8_enc t ht, hx]
  · simp [primaryItems, visitPrimary, bind_apply, reqElem_succ, readU32_enc p.version hver, readU64_enc p.flags hfl,
      readU8_enc t ht, readEid_enc p.dst hdst _ 126 (by omega), hx]
  · simp [primaryItems, visitPrimary, bind_apply, reqElem_succ, readU32_enc p.version hver, readU64_enc p.flags hfl,
      readU8_enc t ht, readEid_enc p.dst hdst _ 126 (by omega), readEid_enc p.src hsrc _ 126 (by omega), hx]
  · simp [primaryItems, visitPrimary, bind_apply, reqElem_succ, readU32_enc p.version hver, readU64_enc p.flags hfl,
      readU8_enc t ht, readEid_enc p.dst hdst _ 126 (by omega), readEid_enc p.src hsrc _ 126 (by omega),
      readEid_enc p.rpt hrpt _ 126 (by omega), hx]
  · simp [primaryItems, visitPrimary, bind_apply, reqElem_succ, readU32_enc p.version hver, readU64_enc p.flags hfl,
      readU8_enc t ht, readEid_enc p.dst hdst _ 126 (by omega), readEid_enc p.src hsrc _ 126 (by omega),
      readEid_enc p.rpt hrpt _ 126 (by omega), hpair, hx]

/-- **C19 (a fault inside the item at ANY mandatory position of the primary block).** If the
    reader of position `k` fails on `x`, the bundle whose primary block consists of `k` conformant
    items followed by `x` is rejected. -/
theorem reject_primary_slot (p : Primary) (h : p.wf = true) (t : Nat) (ht : t < 256) (k : Nat) (hk : k < 8)
    (count : Nat) (hc : count < 24) (hkc : k < count) (x : Bytes) (hx : PrimarySlotFails k x) :
    ∃ e, decodeBundle ([0x9f] ++ (encArrayHead count ++ (((primaryItems p t).take k).flatten ++ x))) = .err e := by
  obtain ⟨n, rfl⟩ : ∃ n, count = n + k + 1 := ⟨count - k - 1, by omega⟩
  obtain ⟨e, s', hv⟩ := visitPrimary_slot_err p h t ht k hk n x hx
  exact ⟨e, reject_of_visit_err _ hc _ e s' hv⟩

/-- a first byte of the wrong major type fails the reader of position `k` -/
theorem slotFails_of_wrong_major (k : Nat) (hk : k < 8) (b : UInt8) (rest : Bytes)
    (hb : b.toNat / 32 ≠ primarySlotMajor k) (h6 : b.toNat / 32 ≠ 6) : PrimarySlotFails k (b :: rest) := by
  have hk' : k = 0 ∨ k = 1 ∨ k = 2 ∨ k = 3 ∨ k = 4 ∨ k = 5 ∨ k = 6 ∨ k = 7 := by omega
  rcases hk' with rfl | rfl | rfl | rfl | rfl | rfl | rfl | rfl <;> simp only [PrimarySlotFails]
  · exact (readUint_wrong_major b rest 126 (by omega) (by simpa [primarySlotMajor] using hb) h6).2.1
  · exact (readUint_wrong_major b rest 126 (by omega) (by simpa [primarySlotMajor] using hb) h6).1
  · exact (readUint_wrong_major b rest 126 (by omega) (by simpa [primarySlotMajor] using hb) h6).2.2
  · exact readEid_wrong_major b rest 126 (by omega) (by simpa [primarySlotMajor] using hb) h6
  · exact readEid_wrong_major b rest 126 (by omega) (by simpa [primarySlotMajor] using hb) h6
  · exact readEid_wrong_major b rest 126 (by omega) (by simpa [primarySlotMajor] using hb) h6
  · exact readPairU64_wrong_major b rest 126 (by omega) (by simpa [primarySlotMajor] using hb) h6
  · exact (readUint_wrong_major b rest 126 (by omega) (by simpa [primarySlotMajor] using hb) h6).1

theorem visitPrimary_wrong_kind (p : Primary) (h : p.wf = true) (t : Nat) (ht : t < 256) (k : Nat) (hk : k < 8)
    (n : Nat) (b : UInt8) (rest : Bytes) (hb : b.toNat / 32 ≠ primarySlotMajor k) (h6 : b.toNat / 32 ≠ 6) :
    ∃ e s', visitPrimary (some (n + k + 1)) ⟨((primaryItems p t).take k).flatten ++ b :: rest, 126⟩ = (.err e, s') :=
  visitPrimary_slot_err p h t ht k hk n _ (slotFails_of_wrong_major k hk b rest hb h6)

/-- **C19 (wrong kind of item in ANY mandatory position of the primary block).** After `k < 8`
    conformant items, an item whose first byte has a major type other than the one RFC 9171
    prescribes for position `k` (unsigned integer, resp. array for the endpoint IDs and the
    creation timestamp) — any argument, anything after it, any announced item count: rejected. -/
theorem reject_primary_wrong_kind (p : Primary) (h : p.wf = true) (t : Nat) (ht : t < 256) (k : Nat) (hk : k < 8)
    (count : Nat) (hc : count < 24) (hkc : k < count)
    (b : UInt8) (rest : Bytes) (hb : b.toNat / 32 ≠ primarySlotMajor k) (h6 : b.toNat / 32 ≠ 6) :
    ∃ e, decodeBundle ([0x9f] ++ (encArrayHead count ++ (((primaryItems p t).take k).flatten ++ b :: rest))) = .err e := by
  obtain ⟨n, rfl⟩ : ∃ n, count = n + k + 1 := ⟨count - k - 1, by omega⟩
  obtain ⟨e, s', hv⟩ := visitPrimary_wrong_kind p h t ht k hk n b rest hb h6
  exact ⟨e, reject_of_visit_err _ hc _ e s' hv⟩

/-- **C19 (wrong kind in place of the fragment offset or the total length).** A primary block
    announcing ten or more items: after the eight mandatory ones (and, for the total length, a
    conformant fragment offset) an item that is not an unsigned integer is rejected. -/
theorem reject_primary_frag_wrong_kind (p : Primary) (h : p.wf = true) (t : Nat) (ht : t < 256)
    (count : Nat) (hc : count < 24) (hc10 : 10 ≤ count) (second : Bool) (fo : Nat) (hfo : fo < 18446744073709551616)
    (b : UInt8) (rest : Bytes) (hb : b.toNat / 32 ≠ 0) (h6 : b.toNat / 32 ≠ 6) :
    ∃ e, decodeBundle (faultyBundle p t count ((if second then encUint fo else []) ++ [b]) rest) = .err e := by
  obtain ⟨n, rfl⟩ : ∃ n, count = (n + 2) + 8 := ⟨count - 10, by omega⟩
  obtain ⟨⟨e, s', hx⟩, _, _⟩ := readUint_wrong_major b rest 126 (by omega) hb h6
  refine ⟨e, reject_of_visit_err _ hc _ e s' ?_⟩
  rw [visitPrimary_after8 p h t ht (n + 2) _ 126 (by omega)]
  cases second
  · simp [primaryTail, bind_apply, reqElem_succ, hx]
  · simp [primaryTail, bind_apply, reqElem_succ, readU64_enc fo hfo, hx]

/-- **C19 (an integer — or a map, float, simple value — in place of the CRC value of the primary
    block).** Non-fragment layout (nine items) and fragment layout (eleven items), CRC type 1 or 2. -/
theorem reject_primary_crc_wrong_kind (p : Primary) (h : p.wf = true) (t : Nat) (ht : t = 1 ∨ t = 2)
    (b : UInt8) (rest : Bytes) (hb : b.toNat / 32 ≠ 2 ∧ b.toNat / 32 ≠ 3 ∧ b.toNat / 32 ≠ 4) (h6 : b.toNat / 32 ≠ 6) :
    (∃ e, decodeBundle (faultyBundle p t 9 [b] rest) = .err e) ∧
    (∀ fo tl, fo < 18446744073709551616 → tl < 18446744073709551616 →
      ∃ e, decodeBundle (faultyBundle p t 11 (encUint fo ++ (encUint tl ++ [b])) rest) = .err e) := by
  obtain ⟨e, s', hx⟩ := readByteBuf_wrong_major b rest 126 (by omega) hb h6
  have ht' : t < 256 := by omega
  constructor
  · refine ⟨e, reject_of_visit_err 9 (by omega) _ e s' ?_⟩
    rw [visitPrimary_after8 p h t ht' 1 _ 126 (by omega)]
    rcases ht with rfl | rfl <;> simp [primaryTail, bind_apply, pure_apply, visitCrc, reqElem_succ, hx]
  · intro fo tl hfo htl
    refine ⟨e, reject_of_visit_err 11 (by omega) _ e s' ?_⟩
    rw [visitPrimary_after8 p h t ht' 3 _ 126 (by omega)]
    rcases ht with rfl | rfl <;>
      simp [primaryTail, bind_apply, pure_apply, visitCrc, reqElem_succ, readU64_enc fo hfo, readU64_enc tl htl, hx]

/-! ### every mandatory position of a canonical block -/

/-- the five mandatory items of a canonical block -/
def canonItems (c : Canon) (t : Nat) : List Bytes :=
  [encUint c.btype, encUint c.num, encUint c.flags, encUint t, encBytes (btsd c.data)]

/-- acceptable major types per position (RFC 9171 §4.3.2: four unsigned integers, then a byte
    string — for which serde_bytes also takes a text string or a sequence) -/
def canonSlotOk (k : Nat) (m : Nat) : Bool := if k = 4 then (m == 2 || m == 3 || m == 4) else m == 0

theorem visitCanon_wrong_kind (c : Canon) (h : c.wf = true) (t : Nat) (ht : t < 256) (k : Nat) (hk : k < 5)
    (n : Nat) (b : UInt8) (rest : Bytes) (hb : canonSlotOk k (b.toNat / 32) = false) (h6 : b.toNat / 32 ≠ 6) :
    ∃ e s', visitCanon (some (n + k + 1)) ⟨((canonItems c t).take k).flatten ++ b :: rest, 126⟩ = (.err e, s') := by
  simp only [Canon.wf, Bool.and_eq_true, U64_eq] at h
  obtain ⟨⟨⟨⟨⟨hbt, hn⟩, hf⟩, _⟩, _⟩, _⟩ := h
  have hbt := of_decide_eq_true hbt
  have hn := of_decide_eq_true hn
  have hf := of_decide_eq_true hf
  have hk' : k = 0 ∨ k = 1 ∨ k = 2 ∨ k = 3 ∨ k = 4 := by omega
  rcases hk' with rfl | rfl | rfl | rfl | rfl
  · obtain ⟨⟨e, s', hx⟩, _, _⟩ := readUint_wrong_major b rest 126 (by omega) (by simpa [canonSlotOk] using hb) h6
    exact ⟨e, s', by simp [canonItems, visitCanon, bind_apply, reqElem_succ, hx]⟩
  · obtain ⟨⟨e, s', hx⟩, _, _⟩ := readUint_wrong_major b rest 126 (by omega) (by simpa [canonSlotOk] using hb) h6
    exact ⟨e, s', by simp [canonItems, visitCanon, bind_apply, reqElem_succ, readU64_enc c.btype hbt, hx]⟩
  · obtain ⟨_, _, ⟨e, s', hx⟩⟩ := readUint_wrong_major b rest 126 (by omega) (by simpa [canonSlotOk] using hb) h6
    exact ⟨e, s', by simp [canonItems, visitCanon, bind_apply, reqElem_succ, readU64_enc c.btype hbt, readU64_enc c.num hn, hx]⟩
  · obtain ⟨_, _, ⟨e, s', hx⟩⟩ := readUint_wrong_major b rest 126 (by omega) (by simpa [canonSlotOk] using hb) h6
    exact ⟨e, s', by simp [canonItems, visitCanon, bind_apply, reqElem_succ, readU64_enc c.btype hbt, readU64_enc c.num hn,
      readU8_enc c.flags hf, hx]⟩
  · obtain ⟨e, s', hx⟩ := readByteBuf_wrong_major b rest 126 (by omega)
      (by simp [canonSlotOk] at hb; exact ⟨hb.1.1, hb.1.2, hb.2⟩) h6
    exact ⟨e, s', by simp [canonItems, visitCanon, bind_apply, reqElem_succ, readU64_enc c.btype hbt, readU64_enc c.num hn,
      readU8_enc c.flags hf, readU8_enc t ht, hx]⟩

/-- **C19 (wrong kind of item in ANY mandatory position of a canonical block).** The block follows
    a conformant primary block; after `k < 5` conformant items comes an item of a major type the
    position does not take. -/
theorem reject_canon_wrong_kind (p : Primary) (hp : p.wf = true ∧ p.crc.wire = true) (c : Canon) (h : c.wf = true)
    (t : Nat) (ht : t < 256) (k : Nat) (hk : k < 5) (count : Nat) (hc : count < 24) (hkc : k < count)
    (b : UInt8) (rest : Bytes) (hb : canonSlotOk k (b.toNat / 32) = false) (h6 : b.toNat / 32 ≠ 6) :
    ∃ e, decodeBundle ([0x9f] ++ (encPrimary p ++ (encArrayHead count ++ (((canonItems c t).take k).flatten ++ b :: rest)))) = .err e := by
  obtain ⟨n, rfl⟩ : ∃ n, count = n + k + 1 := ⟨count - k - 1, by omega⟩
  obtain ⟨e, s', hv⟩ := visitCanon_wrong_kind c h t ht k hk n b rest hb h6
  have := readCanon_of_visit_err (n + k + 1) hc _ e s' hv
  rw [encArrayHead_small _ hc]
  simp only [List.cons_append, List.nil_append]
  exact ⟨e, reject_of_canon_err p hp _ (by rw [UInt8.toNat_ofNat']; omega) _ e _ this⟩

/-- **C19 (an integer, map, float or simple value in place of the CRC value of a canonical block).** -/
theorem reject_canon_crc_wrong_kind (p : Primary) (hp : p.wf = true ∧ p.crc.wire = true) (c : Canon) (h : c.wf = true)
    (t : Nat) (ht : t = 1 ∨ t = 2)
    (b : UInt8) (rest : Bytes) (hb : b.toNat / 32 ≠ 2 ∧ b.toNat / 32 ≠ 3 ∧ b.toNat / 32 ≠ 4) (h6 : b.toNat / 32 ≠ 6) :
    ∃ e, decodeBundle ([0x9f] ++ (encPrimary p ++ (canonWith c t 6 (b :: rest)))) = .err e := by
  obtain ⟨e, s', hx⟩ := readByteBuf_wrong_major b rest 126 (by omega) hb h6
  unfold canonWith
  rw [encArrayHead_small 6 (by omega)]
  simp only [List.cons_append, List.nil_append]
  refine ⟨e, reject_of_canon_err p hp _ (by decide) _ e _ (readCanon_of_visit_err 6 (by omega) _ e s' ?_)⟩
  rw [visitCanon_after5 c h t (by omega) 1 _ 126]
  rcases ht with rfl | rfl <;> simp [bind_apply, visitCrc, reqElem_succ, hx]

/-! ### ANY one of the mandatory items of the primary block missing -/

theorem encUint_cons (n : Nat) : ∃ b tl, encUint n = b :: tl ∧ b.toNat / 32 = 0 := by
  unfold encUint encHead
  split
  · rename_i h; exact ⟨_, _, rfl, by rw [UInt8.toNat_ofNat']; omega⟩
  · split
    · exact ⟨_, _, rfl, by decide⟩
    · split
      · exact ⟨_, _, rfl, by decide⟩
      · split
        · exact ⟨_, _, rfl, by decide⟩
        · exact ⟨_, _, rfl, by decide⟩

theorem encEid_cons (e : Eid) : ∃ tl, encEid e = (0x82 : UInt8) :: tl := by
  cases e <;> exact ⟨_, by simp [encEid, encArrayHead, encHead]; rfl⟩

/-- an unsigned integer of any size read as `u32`: the value, or a range error — the reader
    stands behind the item either way -/
theorem readU32_encUint (n : Nat) (hn : n < 18446744073709551616) (rest : Bytes) (d : Nat) :
    readU32 ⟨encUint n ++ rest, d⟩ = (if n < 4294967296 then .ok n else .err .value, ⟨rest, d⟩) := by
  unfold readU32 encUint tagFuel
  rw [parseWith_encHead _ 0 n _ (by omega) hn]
  by_cases h : n < 4294967296 <;> simp [headOf, kUint, h, P.pure, P.fail]

/-- a definite array whose visitor fails -/
theorem readSeq_visit_err {α} (visit : Acc → P (α × Acc)) (n : Nat) (hn : n < 18446744073709551616)
    (body : Bytes) (d : Nat) (hd : 1 ≤ d) (e : Err) (s' : St)
    (hv : visit (some n) ⟨body, d⟩ = (.err e, s')) :
    readSeq visit ⟨encArrayHead n ++ body, d + 1⟩ = (.err e, { s' with depth := s'.depth + 1 }) := by
  unfold readSeq encArrayHead tagFuel
  rw [parseWith_encHead _ 4 n _ (by omega) hn]
  have hd0 : ¬ d = 0 := by omega
  simp [headOf, kSeq, recursionChecked, hd0, hv]

/-- a creation timestamp `[ts, seq]` where an endpoint ID is expected: with `ts = 1` it reads as
    `dtn:none` (scheme 1, the failed read of the ssp swallowed, exactly as for `[1, 0]`); with any
    other `ts` it is an error -/
theorem readEid_pair (ts sq : Nat) (hts : ts < 18446744073709551616) (hsq : sq < 18446744073709551616)
    (rest : Bytes) (d : Nat) (hd : 3 ≤ d) :
    (ts = 1 → readEid ⟨encArrayHead 2 ++ encUint ts ++ encUint sq ++ rest, d⟩ = (.ok Eid.dtnNone, ⟨rest, d⟩)) ∧
    (ts ≠ 1 → ∃ e s', readEid ⟨encArrayHead 2 ++ encUint ts ++ encUint sq ++ rest, d⟩ = (.err e, s')) := by
  obtain ⟨d', rfl⟩ : ∃ d', d = d' + 1 := ⟨d - 1, by omega⟩
  constructor
  · rintro rfl
    have := readSeq_array visitEid 2 (by omega) (encUint 1 ++ encUint sq) rest d' (by omega) Eid.dtnNone
      (by
        simp only [visitEid, reqElem_succ, List.append_assoc, readU8_enc 1 (by omega)]
        simp [nextElem, readString, tagFuel, encUint, parseWith_encHead _ 0 sq _ (by omega) hsq,
          headOf, kString, reject])
    simpa [readEid, List.append_assoc] using this
  · intro hne
    have key : ∃ e s', visitEid (some 2) ⟨encUint ts ++ (encUint sq ++ rest), d'⟩ = (.err e, s') := by
      by_cases h8 : ts < 256
      · simp only [visitEid, reqElem_succ, readU8_enc ts h8, hne, if_false]
        by_cases h2 : ts = 2
        · obtain ⟨b, tl, hb, hm⟩ := encUint_cons sq
          obtain ⟨e, s', hx⟩ := readPairU64_wrong_major b (tl ++ rest) d' (by omega) (by omega) (by omega)
          rw [hb]
          simp only [h2, if_true, List.cons_append, hx]
          exact ⟨_, _, rfl⟩
        · simp only [h2, if_false]; exact ⟨_, _, rfl⟩
      · have : readU8 ⟨encUint ts ++ (encUint sq ++ rest), d'⟩ = (.err .value, ⟨encUint sq ++ rest, d'⟩) := by
          unfold readU8 encUint tagFuel
          rw [parseWith_encHead _ 0 ts _ (by omega) hts]
          simp [headOf, kUint, h8, P.fail]
        simp only [visitEid, reqElem_succ, this]
        exact ⟨_, _, rfl⟩
    obtain ⟨e, s', hv⟩ := key
    have := readSeq_visit_err visitEid 2 (by omega) _ d' (by omega) e s' hv
    exact ⟨e, _, by simpa [readEid, List.append_assoc] using this⟩

/-- the visitor fails when any one of the first seven mandatory items is missing (the others
    following in order), whatever comes after the mandatory items -/
theorem visitPrimary_missing (p : Primary) (h : p.wf = true) (t : Nat) (ht : t < 256) (k : Nat) (hk : k < 7)
    (n : Nat) (tail : Bytes) :
    ∃ e s', visitPrimary (some (n + 7)) ⟨((primaryItems p t).eraseIdx k).flatten ++ tail, 126⟩ = (.err e, s') := by
  simp only [Primary.wf, Bool.and_eq_true, U64_eq, U32_eq] at h
  obtain ⟨⟨⟨⟨⟨⟨⟨⟨⟨⟨⟨hver, hfl⟩, _⟩, hdst⟩, hsrc⟩, hrpt⟩, hts⟩, hseq⟩, hlt⟩, _⟩, _⟩, _⟩ := h
  have hver := of_decide_eq_true hver
  have hfl := of_decide_eq_true hfl
  have hts := of_decide_eq_true hts
  have hseq := of_decide_eq_true hseq
  have hlt := of_decide_eq_true hlt
  -- an endpoint ID where a `u8` is expected
  have hU8dst : ∀ r, ∃ e s', readU8 ⟨encEid p.dst ++ r, 126⟩ = (.err e, s') := by
    intro r
    obtain ⟨tl, htl⟩ := encEid_cons p.dst
    rw [htl]
    exact (readUint_wrong_major 0x82 (tl ++ r) 126 (by omega) (by decide) (by decide)).2.2
  -- the lifetime where the creation timestamp is expected
  have hPairLt : ∀ r, ∃ e s', readPairU64 ⟨encUint p.lifetime ++ r, 126⟩ = (.err e, s') := by
    intro r
    obtain ⟨b, tl, hb, hm⟩ := encUint_cons p.lifetime
    rw [hb]
    exact readPairU64_wrong_major b (tl ++ r) 126 (by omega) (by omega) (by omega)
  -- the creation timestamp where an endpoint ID is expected, followed by the lifetime
  have hTs := fun r => readEid_pair p.ts p.seq hts hseq r 126 (by omega)
  have hk' : k = 0 ∨ k = 1 ∨ k = 2 ∨ k = 3 ∨ k = 4 ∨ k = 5 ∨ k = 6 := by omega
  rcases hk' with rfl | rfl | rfl | rfl | rfl | rfl | rfl
  · obtain ⟨e, s', hx⟩ := hU8dst (encEid p.src ++ (encEid p.rpt ++ (encArrayHead 2 ++ (encUint p.ts ++ (encUint p.seq ++ (encUint p.lifetime ++ tail))))))
    by_cases h32 : p.flags < 4294967296
    · exact ⟨e, s', by
        simp [primaryItems, visitPrimary, bind_apply, reqElem_succ, readU32_encUint p.flags hfl, h32,
          readU64_enc t (by omega), hx]⟩
    · exact ⟨.value, ⟨encUint t ++ (encEid p.dst ++ (encEid p.src ++ (encEid p.rpt ++ (encArrayHead 2 ++ (encUint p.ts ++
          (encUint p.seq ++ (encUint p.lifetime ++ tail))))))), 126⟩, by
        simp [primaryItems, visitPrimary, bind_apply, reqElem_succ, readU32_encUint p.flags hfl, h32]⟩
  · obtain ⟨e, s', hx⟩ := hU8dst (encEid p.src ++ (encEid p.rpt ++ (encArrayHead 2 ++ (encUint p.ts ++ (encUint p.seq ++ (encUint p.lifetime ++ tail))))))
    exact ⟨e, s', by
      simp [primaryItems, visitPrimary, bind_apply, reqElem_succ, readU32_enc p.version hver,
        readU64_enc t (by omega), hx]⟩
  · obtain ⟨e, s', hx⟩ := hU8dst (encEid p.src ++ (encEid p.rpt ++ (encArrayHead 2 ++ (encUint p.ts ++ (encUint p.seq ++ (encUint p.lifetime ++ tail))))))
    exact ⟨e, s', by
      simp [primaryItems, visitPrimary, bind_apply, reqElem_succ, readU32_enc p.version hver,
        readU64_enc p.flags hfl, hx]⟩
  · obtain ⟨e2, s2, hx2⟩ := hPairLt tail
    by_cases h1 : p.ts = 1
    · have hx := (hTs (encUint p.lifetime ++ tail)).1 h1
      simp only [List.append_assoc] at hx
      exact ⟨e2, s2, by
        simp [primaryItems, visitPrimary, bind_apply, reqElem_succ, readU32_enc p.version hver,
          readU64_enc p.flags hfl, readU8_enc t ht, readEid_enc p.src hsrc _ 126 (by omega),
          readEid_enc p.rpt hrpt _ 126 (by omega), hx, hx2]⟩
    · obtain ⟨e, s', hx⟩ := (hTs (encUint p.lifetime ++ tail)).2 h1
      simp only [List.append_assoc] at hx
      exact ⟨e, s', by
        simp [primaryItems, visitPrimary, bind_apply, reqElem_succ, readU32_enc p.version hver,
          readU64_enc p.flags hfl, readU8_enc t ht, readEid_enc p.src hsrc _ 126 (by omega),
          readEid_enc p.rpt hrpt _ 126 (by omega), hx]⟩
  · obtain ⟨e2, s2, hx2⟩ := hPairLt tail
    by_cases h1 : p.ts = 1
    · have hx := (hTs (encUint p.lifetime ++ tail)).1 h1
      simp only [List.append_assoc] at hx
      exact ⟨e2, s2, by
        simp [primaryItems, visitPrimary, bind_apply, reqElem_succ, readU32_enc p.version hver,
          readU64_enc p.flags hfl, readU8_enc t ht, readEid_enc p.dst hdst _ 126 (by omega),
          readEid_enc p.rpt hrpt _ 126 (by omega), hx, hx2]⟩
    · obtain ⟨e, s', hx⟩ := (hTs (encUint p.lifetime ++ tail)).2 h1
      simp only [List.append_assoc] at hx
      exact ⟨e, s', by
        simp [primaryItems, visitPrimary, bind_apply, reqElem_succ, readU32_enc p.version hver,
          readU64_enc p.flags hfl, readU8_enc t ht, readEid_enc p.dst hdst _ 126 (by omega),
          readEid_enc p.rpt hrpt _ 126 (by omega), hx]⟩
  · obtain ⟨e2, s2, hx2⟩ := hPairLt tail
    by_cases h1 : p.ts = 1
    · have hx := (hTs (encUint p.lifetime ++ tail)).1 h1
      simp only [List.append_assoc] at hx
      exact ⟨e2, s2, by
        simp [primaryItems, visitPrimary, bind_apply, reqElem_succ, readU32_enc p.version hver,
          readU64_enc p.flags hfl, readU8_enc t ht, readEid_enc p.dst hdst _ 126 (by omega),
          readEid_enc p.src hsrc _ 126 (by omega), hx, hx2]⟩
    · obtain ⟨e, s', hx⟩ := (hTs (encUint p.lifetime ++ tail)).2 h1
      simp only [List.append_assoc] at hx
      exact ⟨e, s', by
        simp [primaryItems, visitPrimary, bind_apply, reqElem_succ, readU32_enc p.version hver,
          readU64_enc p.flags hfl, readU8_enc t ht, readEid_enc p.dst hdst _ 126 (by omega),
          readEid_enc p.src hsrc _ 126 (by omega), hx]⟩
  · obtain ⟨e2, s2, hx2⟩ := hPairLt tail
    exact ⟨e2, s2, by
      simp [primaryItems, visitPrimary, bind_apply, reqElem_succ, readU32_enc p.version hver,
        readU64_enc p.flags hfl, readU8_enc t ht, readEid_enc p.dst hdst _ 126 (by omega),
        readEid_enc p.src hsrc _ 126 (by omega), readEid_enc p.rpt hrpt _ 126 (by omega), hx2]⟩

/-- **C19 (ANY one of the first seven mandatory items of the primary block missing).** The block
    announces `count ≥ 7` items and carries the mandatory items of a conformant block except the
    `k`-th (`k = 0` version, 1 flags, 2 CRC type, 3 destination, 4 source, 5 report-to, 6 creation
    timestamp), followed by anything at all (conformant fragment fields, CRC, further blocks): it
    is rejected.  (`k = 7`, the lifetime, depends on what follows: `reject_primary_missing_item`
    and `reject_primary_missing_lifetime` below.) -/
theorem reject_primary_missing (p : Primary) (h : p.wf = true) (t : Nat) (ht : t < 256) (k : Nat) (hk : k < 7)
    (count : Nat) (hc : count < 24) (hc7 : 7 ≤ count) (tail : Bytes) :
    ∃ e, decodeBundle ([0x9f] ++ (encArrayHead count ++ (((primaryItems p t).eraseIdx k).flatten ++ tail))) = .err e := by
  obtain ⟨n, rfl⟩ : ∃ n, count = n + 7 := ⟨count - 7, by omega⟩
  obtain ⟨e, s', hv⟩ := visitPrimary_missing p h t ht k hk n tail
  exact ⟨e, reject_of_visit_err _ hc _ e s' hv⟩

/-! ### arity of the creation timestamp and of the ipn address; endpoint-ID faults at every EID position -/

/-- **C19 (a missing or an extra item in a creation timestamp / an ipn address).** The two-integer
    arrays are read by `readPairU64`: an array of 0 or 1 items lacks a mandatory item, an array of
    3 or more has trailing items. -/
theorem readPairU64_arity (a b : Nat) (ha : a < 18446744073709551616) (hb : b < 18446744073709551616)
    (rest : Bytes) (d : Nat) (hd : 2 ≤ d) :
    (∃ s', readPairU64 ⟨encArrayHead 0 ++ rest, d⟩ = (.err .length, s')) ∧
    (∃ s', readPairU64 ⟨encArrayHead 1 ++ (encUint a ++ rest), d⟩ = (.err .length, s')) ∧
    (∀ n, 3 ≤ n → n < 18446744073709551616 →
      ∃ s', readPairU64 ⟨encArrayHead n ++ (encUint a ++ (encUint b ++ rest)), d⟩ = (.err .trailing, s')) := by
  obtain ⟨d', rfl⟩ : ∃ d', d = d' + 1 := ⟨d - 1, by omega⟩
  refine ⟨?_, ?_, ?_⟩
  · exact ⟨_, readSeq_visit_err visitPairU64 0 (by omega) rest d' (by omega) .length ⟨rest, d'⟩
      (by simp [visitPairU64, reqElem, nextElem])⟩
  · exact ⟨_, readSeq_visit_err visitPairU64 1 (by omega) _ d' (by omega) .length ⟨rest, d'⟩
      (by simp [visitPairU64, reqElem_succ, readU64_enc a ha]; simp [reqElem, nextElem])⟩
  · intro n hn3 hn
    obtain ⟨m, rfl⟩ : ∃ m, n = m + 3 := ⟨n - 3, by omega⟩
    refine ⟨⟨rest, d' + 1⟩, ?_⟩
    unfold readPairU64 readSeq encArrayHead tagFuel
    rw [parseWith_encHead _ 4 (m + 3) _ (by omega) hn]
    have hd0 : ¬ d' = 0 := by omega
    simp [headOf, kSeq, recursionChecked, hd0, visitPairU64, reqElem_succ, readU64_enc a ha, readU64_enc b hb, seqEnd]

/-- an ipn endpoint ID `[2, x]` whose scheme-specific part `x` the pair reader refuses -/
theorem readEid_ipn_bad (x : Bytes) (e : Err) (s' : St) (hx : readPairU64 ⟨x, 125⟩ = (.err e, s')) :
    ∃ e s'', readEid ⟨[0x82, 0x02] ++ x, 126⟩ = (.err e, s'') := by
  have hr : readU8 ⟨(0x02 : UInt8) :: x, 125⟩ = (.ok 2, ⟨x, 125⟩) := by
    have := readU8_enc 2 (by omega) x 125
    simpa [encUint, encHead] using this
  have hv : visitEid (some 2) ⟨(0x02 : UInt8) :: x, 125⟩ = (.err e, s') := by
    simp [visitEid, reqElem_succ, hr, hx]
  have := readSeq_visit_err visitEid 2 (by omega) ((0x02 : UInt8) :: x) 125 (by omega) e s' hv
  exact ⟨e, _, by simpa [readEid, encArrayHead, encHead] using this⟩

/-- the faulty endpoint-ID encodings of the property: unknown URI scheme code, ipn node number 0,
    an extra item, the scheme code missing, an ipn address of one or of three items -/
inductive EidFault : Bytes → Prop
  | scheme (code : Nat) (x : Bytes) : code < 24 → code ≠ 1 → code ≠ 2 → EidFault ([0x82, UInt8.ofNat code] ++ x)
  | node0 (svc : Nat) : svc < 24 → EidFault [0x82, 0x02, 0x82, 0x00, UInt8.ofNat svc]
  | extra : EidFault [0x83, 0x01, 0x00, 0x00]
  | noScheme : EidFault [0x80]
  | ipn0 : EidFault ([0x82, 0x02] ++ encArrayHead 0)
  | ipn1 (a : Nat) : a < 18446744073709551616 → EidFault ([0x82, 0x02] ++ (encArrayHead 1 ++ encUint a))
  | ipn3 (n a b : Nat) : 3 ≤ n → n < 18446744073709551616 → a < 18446744073709551616 → b < 18446744073709551616 →
      EidFault ([0x82, 0x02] ++ (encArrayHead n ++ (encUint a ++ encUint b)))

theorem readEid_fault (bad : Bytes) (hbad : EidFault bad) (tail : Bytes) :
    ∃ e s', readEid ⟨bad ++ tail, 126⟩ = (.err e, s') := by
  cases hbad with
  | scheme code x hc h1 h2 => exact ⟨_, _, readEid_scheme_unknown code hc ⟨h1, h2⟩ x tail⟩
  | node0 svc hs => exact ⟨_, _, readEid_ipn_node0 svc hs tail⟩
  | extra => obtain ⟨s', h⟩ := readEid_extra_item tail; exact ⟨_, _, h⟩
  | noScheme => exact ⟨_, _, readEid_no_scheme tail⟩
  | ipn0 =>
    obtain ⟨s', h⟩ := (readPairU64_arity 0 0 (by omega) (by omega) tail 125 (by omega)).1
    simpa [List.append_assoc] using readEid_ipn_bad _ _ _ h
  | ipn1 a ha =>
    obtain ⟨s', h⟩ := (readPairU64_arity a 0 ha (by omega) tail 125 (by omega)).2.1
    simpa [List.append_assoc] using readEid_ipn_bad _ _ _ h
  | ipn3 n a b hn3 hn ha hb =>
    obtain ⟨s', h⟩ := (readPairU64_arity a b ha hb tail 125 (by omega)).2.2 n hn3 hn
    simpa [List.append_assoc] using readEid_ipn_bad _ _ _ h

/-- **C19 (endpoint-ID faults at EVERY endpoint-ID position of the primary block).** Destination
    (`k = 3`), source (`k = 4`) or report-to (`k = 5`): an unknown URI scheme code, ipn node
    number 0, an extra item, a missing scheme code, an ipn address with a missing or an extra item —
    the bundle is rejected whatever follows. -/
theorem reject_primary_eid_fault (p : Primary) (h : p.wf = true) (t : Nat) (ht : t < 256) (k : Nat)
    (hk : k = 3 ∨ k = 4 ∨ k = 5) (count : Nat) (hc : count < 24) (hkc : k < count)
    (bad : Bytes) (hbad : EidFault bad) (tail : Bytes) :
    ∃ e, decodeBundle ([0x9f] ++ (encArrayHead count ++ (((primaryItems p t).take k).flatten ++ (bad ++ tail)))) = .err e := by
  apply reject_primary_slot p h t ht k (by omega) count hc hkc
  rcases hk with rfl | rfl | rfl <;> exact readEid_fault bad hbad tail

/-- **C19 (a missing or an extra item in the creation timestamp).** -/
theorem reject_primary_timestamp_arity (p : Primary) (h : p.wf = true) (t : Nat) (ht : t < 256)
    (count : Nat) (hc : count < 24) (hkc : 6 < count) (a b : Nat) (ha : a < 18446744073709551616)
    (hb : b < 18446744073709551616) (tail : Bytes) :
    (∃ e, decodeBundle ([0x9f] ++ (encArrayHead count ++ (((primaryItems p t).take 6).flatten ++ (encArrayHead 0 ++ tail)))) = .err e) ∧
    (∃ e, decodeBundle ([0x9f] ++ (encArrayHead count ++ (((primaryItems p t).take 6).flatten ++ (encArrayHead 1 ++ (encUint a ++ tail))))) = .err e) ∧
    (∀ n, 3 ≤ n → n < 18446744073709551616 →
      ∃ e, decodeBundle ([0x9f] ++ (encArrayHead count ++ (((primaryItems p t).take 6).flatten ++
        (encArrayHead n ++ (encUint a ++ (encUint b ++ tail)))))) = .err e) := by
  have har := readPairU64_arity a b ha hb tail 126 (by omega)
  refine ⟨?_, ?_, ?_⟩
  · obtain ⟨s', hx⟩ := har.1
    exact reject_primary_slot p h t ht 6 (by omega) count hc hkc _ ⟨_, _, hx⟩
  · obtain ⟨s', hx⟩ := har.2.1
    exact reject_primary_slot p h t ht 6 (by omega) count hc hkc _ ⟨_, _, hx⟩
  · intro n hn3 hn
    obtain ⟨s', hx⟩ := har.2.2 n hn3 hn
    exact reject_primary_slot p h t ht 6 (by omega) count hc hkc _ ⟨_, _, hx⟩

/-! ### ANY one of the mandatory items of a canonical block missing -/

theorem encBytes_cons (b : Bytes) : ∃ x tl, encBytes b = x :: tl ∧ x.toNat / 32 = 2 := by
  unfold encBytes encHead
  split
  · rename_i h; exact ⟨_, _, rfl, by rw [UInt8.toNat_ofNat']; omega⟩
  · split
    · exact ⟨_, _, rfl, by decide⟩
    · split
      · exact ⟨_, _, rfl, by decide⟩
      · split
        · exact ⟨_, _, rfl, by decide⟩
        · exact ⟨_, _, rfl, by decide⟩

/-- the visitor fails when any one of the first four mandatory items of a canonical block (block
    type, block number, block flags, CRC type) is missing: the data byte string ends up where an
    unsigned integer is required -/
theorem visitCanon_missing (c : Canon) (h : c.wf = true) (t : Nat) (ht : t < 256) (k : Nat) (hk : k < 4)
    (n : Nat) (tail : Bytes) :
    ∃ e s', visitCanon (some (n + 4)) ⟨((canonItems c t).eraseIdx k).flatten ++ tail, 126⟩ = (.err e, s') := by
  simp only [Canon.wf, Bool.and_eq_true, U64_eq] at h
  obtain ⟨⟨⟨⟨⟨hbt, hn⟩, hf⟩, _⟩, _⟩, _⟩ := h
  have hbt := of_decide_eq_true hbt
  have hn := of_decide_eq_true hn
  have hf := of_decide_eq_true hf
  obtain ⟨x, tl, hx, hm⟩ := encBytes_cons (btsd c.data)
  obtain ⟨e, s', hr⟩ := (readUint_wrong_major x (tl ++ tail) 126 (by omega) (by omega) (by omega)).2.2
  have hk' : k = 0 ∨ k = 1 ∨ k = 2 ∨ k = 3 := by omega
  refine ⟨e, s', ?_⟩
  rcases hk' with rfl | rfl | rfl | rfl
  · simp [canonItems, visitCanon, bind_apply, reqElem_succ, readU64_enc c.num hn, readU64_enc c.flags (by omega),
      readU8_enc t ht, hx, hr]
  · simp [canonItems, visitCanon, bind_apply, reqElem_succ, readU64_enc c.btype hbt, readU64_enc c.flags (by omega),
      readU8_enc t ht, hx, hr]
  · simp [canonItems, visitCanon, bind_apply, reqElem_succ, readU64_enc c.btype hbt, readU64_enc c.num hn,
      readU8_enc t ht, hx, hr]
  · simp [canonItems, visitCanon, bind_apply, reqElem_succ, readU64_enc c.btype hbt, readU64_enc c.num hn,
      readU8_enc c.flags hf, hx, hr]

/-- **C19 (ANY one of the first four mandatory items of a canonical block missing).** (The fifth,
    the data, missing: `reject_canon_missing_item`.) -/
theorem reject_canon_missing (p : Primary) (hp : p.wf = true ∧ p.crc.wire = true) (c : Canon) (h : c.wf = true)
    (t : Nat) (ht : t < 256) (k : Nat) (hk : k < 4) (count : Nat) (hc : count < 24) (hc4 : 4 ≤ count) (tail : Bytes) :
    ∃ e, decodeBundle ([0x9f] ++ (encPrimary p ++ (encArrayHead count ++ (((canonItems c t).eraseIdx k).flatten ++ tail)))) = .err e := by
  obtain ⟨n, rfl⟩ : ∃ n, count = n + 4 := ⟨count - 4, by omega⟩
  obtain ⟨e, s', hv⟩ := visitCanon_missing c h t ht k hk n tail
  have := readCanon_of_visit_err (n + 4) hc _ e s' hv
  rw [encArrayHead_small _ hc]
  simp only [List.cons_append, List.nil_append]
  exact ⟨e, reject_of_canon_err p hp _ (by rw [UInt8.toNat_ofNat']; omega) _ e _ this⟩

/-! ### block-type-specific data of the known extension blocks -/

theorem fromSlice_err {α} (rd : P α) (raw : Bytes) (e : Err) (s' : St)
    (h : rd ⟨raw, 128⟩ = (.err e, s')) : fromSlice rd raw = .err e := by
  simp [fromSlice, h]

/-- **C19 (extension-block data that is not the item its block type requires — by kind).** The data
    of a bundle age block must be an unsigned integer, that of a hop count block and of a previous
    node block an array: data that is empty or begins with a byte of any other major type (tags
    excepted) does not decode, whatever follows. -/
theorem decodeBtsd_wrong_major (bt : Nat) (hbt : bt = 6 ∨ bt = 7 ∨ bt = 10) (raw : Bytes)
    (hraw : raw = [] ∨ ∃ b rest, raw = b :: rest ∧ b.toNat / 32 ≠ 6 ∧
      b.toNat / 32 ≠ (if bt = 7 then 0 else 4)) :
    ∃ e, decodeBtsd bt raw = .err e := by
  have hne : ∀ {α} (rd : P α), (∃ e s', rd ⟨raw, 128⟩ = (.err e, s')) → ∃ e, fromSlice rd raw = .err e :=
    fun rd ⟨e, s', h⟩ => ⟨e, fromSlice_err rd raw e s' h⟩
  rcases hraw with rfl | ⟨b, rest, rfl, h6, hm⟩
  · rcases hbt with rfl | rfl | rfl <;>
      simp [decodeBtsd, PAYLOAD_BLOCK, BUNDLE_AGE_BLOCK, HOP_COUNT_BLOCK, PREVIOUS_NODE_BLOCK, fromSlice, readU64, readEid,
        readSeq, tagFuel, parseWith, readHead, Res.map]
  · rcases hbt with rfl | rfl | rfl
    · obtain ⟨e, he⟩ := hne readEid (readEid_wrong_major b rest 128 (by omega) (by simpa using hm) h6)
      exact ⟨e, by simp [decodeBtsd, PAYLOAD_BLOCK, BUNDLE_AGE_BLOCK, HOP_COUNT_BLOCK, PREVIOUS_NODE_BLOCK, he, Res.map]⟩
    · obtain ⟨e, he⟩ := hne readU64 (readUint_wrong_major b rest 128 (by omega) (by simpa using hm) h6).1
      exact ⟨e, by simp [decodeBtsd, PAYLOAD_BLOCK, BUNDLE_AGE_BLOCK, he, Res.map]⟩
    · obtain ⟨e, he⟩ := hne (readSeq visitPairU8)
        (readSeq_wrong_major visitPairU8 (fun acc => (good_visitPairU8 acc).safe) b rest 128 (by omega) (by simpa using hm) h6)
      exact ⟨e, by simp [decodeBtsd, PAYLOAD_BLOCK, BUNDLE_AGE_BLOCK, HOP_COUNT_BLOCK, he, Res.map]⟩

/-- a canonical block whose data does not decode under its block type fails the block visitor -/
theorem visitCanon_bad_data (bt num fl t : Nat) (hbt : bt < 18446744073709551616) (hn : num < 18446744073709551616)
    (hf : fl < 256) (ht : t < 256) (raw : Bytes) (hl : raw.length < 18446744073709551616) (e : Err)
    (hd : decodeBtsd bt raw = .err e) (n : Nat) (tail : Bytes) :
    visitCanon (some (n + 5)) ⟨encUint bt ++ (encUint num ++ (encUint fl ++ (encUint t ++ (encBytes raw ++ tail)))), 126⟩
      = (.err .other, ⟨tail, 126⟩) := by
  simp [visitCanon, bind_apply, reqElem_succ, readU64_enc bt hbt, readU64_enc num hn, readU8_enc fl hf, readU8_enc t ht,
    readByteBuf_enc raw hl, hd, liftRes]

/-- **C19 (bad extension-block data, at bundle level).** After a conformant primary block, a block
    of type 6, 7 or 10 whose data is empty or of the wrong kind: the bundle is rejected. -/
theorem reject_canon_btsd_kind (p : Primary) (hp : p.wf = true ∧ p.crc.wire = true)
    (bt : Nat) (hbt : bt = 6 ∨ bt = 7 ∨ bt = 10) (num fl t : Nat) (hn : num < 18446744073709551616)
    (hf : fl < 256) (ht : t < 256) (raw : Bytes) (hl : raw.length < 18446744073709551616)
    (hraw : raw = [] ∨ ∃ b rest, raw = b :: rest ∧ b.toNat / 32 ≠ 6 ∧ b.toNat / 32 ≠ (if bt = 7 then 0 else 4))
    (count : Nat) (hc : count < 24) (hc5 : 5 ≤ count) (tail : Bytes) :
    ∃ e, decodeBundle ([0x9f] ++ (encPrimary p ++ (encArrayHead count ++
      (encUint bt ++ (encUint num ++ (encUint fl ++ (encUint t ++ (encBytes raw ++ tail)))))))) = .err e := by
  obtain ⟨e, hd⟩ := decodeBtsd_wrong_major bt hbt raw hraw
  obtain ⟨n, rfl⟩ : ∃ n, count = n + 5 := ⟨count - 5, by omega⟩
  have hv := visitCanon_bad_data bt num fl t (by rcases hbt with rfl | rfl | rfl <;> omega) hn hf ht raw hl e hd n tail
  have := readCanon_of_visit_err (n + 5) hc _ .other ⟨tail, 126⟩ hv
  rw [encArrayHead_small _ hc]
  simp only [List.cons_append, List.nil_append]
  exact ⟨.other, reject_of_canon_err p hp _ (by rw [UInt8.toNat_ofNat']; omega) _ .other _ this⟩

/-- **C19 (extension-block data: the required item followed by anything).** The data byte string of
    a bundle age / hop count / previous node block must hold exactly one item: a well-formed item
    of the right kind followed by at least one more byte does not decode (`TrailingData`). -/
theorem decodeBtsd_trailing (x : UInt8) (xs : Bytes) :
    (∀ a, a < 18446744073709551616 → decodeBtsd 7 (encUint a ++ x :: xs) = .err .trailing) ∧
    (∀ e : Eid, e.wf = true → decodeBtsd 6 (encEid e ++ x :: xs) = .err .trailing) := by
  constructor
  · intro a ha
    have := readU64_enc a ha (x :: xs) 128
    simp [decodeBtsd, PAYLOAD_BLOCK, BUNDLE_AGE_BLOCK, fromSlice, this, Res.map]
  · intro e he
    have := readEid_enc e he (x :: xs) 128 (by omega)
    simp [decodeBtsd, PAYLOAD_BLOCK, BUNDLE_AGE_BLOCK, HOP_COUNT_BLOCK, PREVIOUS_NODE_BLOCK, fromSlice, this, Res.map]

/-- at bundle level: a bundle age block whose data is an unsigned integer followed by more bytes -/
theorem reject_canon_age_trailing (p : Primary) (hp : p.wf = true ∧ p.crc.wire = true)
    (num fl t a : Nat) (hn : num < 18446744073709551616) (hf : fl < 256) (ht : t < 256) (ha : a < 18446744073709551616)
    (x : UInt8) (xs : Bytes) (hl : (encUint a ++ x :: xs).length < 18446744073709551616)
    (count : Nat) (hc : count < 24) (hc5 : 5 ≤ count) (tail : Bytes) :
    ∃ e, decodeBundle ([0x9f] ++ (encPrimary p ++ (encArrayHead count ++
      (encUint 7 ++ (encUint num ++ (encUint fl ++ (encUint t ++ (encBytes (encUint a ++ x :: xs) ++ tail)))))))) = .err e := by
  have hd := (decodeBtsd_trailing x xs).1 a ha
  obtain ⟨n, rfl⟩ : ∃ n, count = n + 5 := ⟨count - 5, by omega⟩
  have hv := visitCanon_bad_data 7 num fl t (by omega) hn hf ht _ hl .trailing hd n tail
  have := readCanon_of_visit_err (n + 5) hc _ .other ⟨tail, 126⟩ hv
  rw [encArrayHead_small _ hc]
  simp only [List.cons_append, List.nil_append]
  exact ⟨.other, reject_of_canon_err p hp _ (by rw [UInt8.toNat_ofNat']; omega) _ .other _ this⟩

/-! ### endpoint-ID faults inside the data of a previous node block -/

theorem readEid_scheme_unknown_d (code : Nat) (hc : code < 24) (hne : code ≠ 1 ∧ code ≠ 2) (x : Bytes) (d : Nat) :
    readEid ⟨[0x82, UInt8.ofNat code] ++ x, d + 2⟩ = (.err .value, ⟨x, d + 2⟩) := by
  have hr : readU8 ⟨UInt8.ofNat code :: x, d + 1⟩ = (.ok code, ⟨x, d + 1⟩) := by
    have := readU8_enc code (by omega) x (d + 1)
    simpa [encUint, encHead, hc] using this
  have hh : readHead ⟨(0x82 : UInt8) :: UInt8.ofNat code :: x, d + 2⟩ = (.ok (.array 2), ⟨UInt8.ofNat code :: x, d + 2⟩) := by
    simp [readHead, readArg]
  simp only [readEid, readSeq, tagFuel, List.cons_append, List.nil_append]
  rw [parseWith]
  simp only [hh, kSeq, recursionChecked]
  simp [visitEid, reqElem_succ, hr, hne.1, hne.2]

theorem readEid_ipn_bad_d (x : Bytes) (d : Nat) (e : Err) (s' : St) (hx : readPairU64 ⟨x, d + 1⟩ = (.err e, s')) :
    ∃ e s'', readEid ⟨[0x82, 0x02] ++ x, d + 2⟩ = (.err e, s'') := by
  have hr : readU8 ⟨(0x02 : UInt8) :: x, d + 1⟩ = (.ok 2, ⟨x, d + 1⟩) := by
    have := readU8_enc 2 (by omega) x (d + 1)
    simpa [encUint, encHead] using this
  have hv : visitEid (some 2) ⟨(0x02 : UInt8) :: x, d + 1⟩ = (.err e, s') := by
    simp [visitEid, reqElem_succ, hr, hx]
  have := readSeq_visit_err visitEid 2 (by omega) ((0x02 : UInt8) :: x) (d + 1) (by omega) e s' hv
  exact ⟨e, _, by simpa [readEid, encArrayHead, encHead] using this⟩

theorem readEid_ipn_node0_d (svc : Nat) (hs : svc < 24) (tail : Bytes) (d : Nat) :
    ∃ e s', readEid ⟨[0x82, 0x02, 0x82, 0x00, UInt8.ofNat svc] ++ tail, d + 3⟩ = (.err e, s') := by
  have h := readPairU64_enc 0 svc (by decide) (by rw [U64_eq]; omega) tail (d + 2) (by omega)
  have h' : readPairU64 ⟨(0x82 : UInt8) :: 0x00 :: UInt8.ofNat svc :: tail, d + 2⟩ = (.ok (0, svc), ⟨tail, d + 2⟩) := by
    simpa [encArrayHead, encUint, encHead, hs] using h
  have hr : readU8 ⟨(0x02 : UInt8) :: 0x82 :: 0x00 :: UInt8.ofNat svc :: tail, d + 2⟩
      = (.ok 2, ⟨0x82 :: 0x00 :: UInt8.ofNat svc :: tail, d + 2⟩) := by
    have := readU8_enc 2 (by omega) (0x82 :: 0x00 :: UInt8.ofNat svc :: tail) (d + 2)
    simpa [encUint, encHead] using this
  have hv : visitEid (some 2) ⟨(0x02 : UInt8) :: 0x82 :: 0x00 :: UInt8.ofNat svc :: tail, d + 2⟩ = (.err .value, ⟨tail, d + 2⟩) := by
    simp [visitEid, reqElem_succ, hr, h', withIpn]
  have := readSeq_visit_err visitEid 2 (by omega) _ (d + 2) (by omega) .value ⟨tail, d + 2⟩ hv
  exact ⟨.value, _, by simpa [readEid, encArrayHead, encHead] using this⟩

theorem readEid_extra_item_d (tail : Bytes) (d : Nat) :
    ∃ e s', readEid ⟨[0x83, 0x01, 0x00, 0x00] ++ tail, d + 2⟩ = (.err e, s') := by
  refine ⟨.trailing, ⟨0x00 :: tail, d + 2⟩, ?_⟩
  simp [readEid, readSeq, tagFuel, parseWith, readHead, readArg, kSeq, recursionChecked, visitEid, reqElem, nextElem,
    readU8, kUint, P.pure, readString, kString, reject, seqEnd]

theorem readEid_no_scheme_d (tail : Bytes) (d : Nat) :
    ∃ e s', readEid ⟨[0x80] ++ tail, d + 2⟩ = (.err e, s') := by
  refine ⟨.length, ⟨tail, d + 2⟩, ?_⟩
  simp [readEid, readSeq, tagFuel, parseWith, readHead, readArg, kSeq, recursionChecked, visitEid, reqElem, nextElem]

/-- every endpoint-ID fault of the property, at any reader depth of at least 3 -/
theorem readEid_fault_d (bad : Bytes) (hbad : EidFault bad) (tail : Bytes) (d : Nat) :
    ∃ e s', readEid ⟨bad ++ tail, d + 3⟩ = (.err e, s') := by
  cases hbad with
  | scheme code x hc h1 h2 =>
    exact ⟨_, _, by simpa [List.append_assoc] using readEid_scheme_unknown_d code hc ⟨h1, h2⟩ (x ++ tail) (d + 1)⟩
  | node0 svc hs => exact readEid_ipn_node0_d svc hs tail d
  | extra => exact readEid_extra_item_d tail (d + 1)
  | noScheme => exact readEid_no_scheme_d tail (d + 1)
  | ipn0 =>
    obtain ⟨s', h⟩ := (readPairU64_arity 0 0 (by omega) (by omega) tail (d + 2) (by omega)).1
    simpa [List.append_assoc] using readEid_ipn_bad_d _ (d + 1) _ _ h
  | ipn1 a ha =>
    obtain ⟨s', h⟩ := (readPairU64_arity a 0 ha (by omega) tail (d + 2) (by omega)).2.1
    simpa [List.append_assoc] using readEid_ipn_bad_d _ (d + 1) _ _ h
  | ipn3 n a b hn3 hn ha hb =>
    obtain ⟨s', h⟩ := (readPairU64_arity a b ha hb tail (d + 2) (by omega)).2.2 n hn3 hn
    simpa [List.append_assoc] using readEid_ipn_bad_d _ (d + 1) _ _ h

/-- **C19 (endpoint-ID faults in a previous node block).** The data of a previous node block is an
    endpoint ID: with an unknown URI scheme code, ipn node number 0, an extra item, a missing scheme
    code, or an ipn address of one or three items it does not decode — and neither does the bundle
    that carries the block after a conformant primary block. -/
theorem reject_prevnode_eid_fault (p : Primary) (hp : p.wf = true ∧ p.crc.wire = true)
    (num fl t : Nat) (hn : num < 18446744073709551616) (hf : fl < 256) (ht : t < 256)
    (bad : Bytes) (hbad : EidFault bad) (hl : bad.length < 18446744073709551616)
    (count : Nat) (hc : count < 24) (hc5 : 5 ≤ count) (tail : Bytes) :
    ∃ e, decodeBundle ([0x9f] ++ (encPrimary p ++ (encArrayHead count ++
      (encUint 6 ++ (encUint num ++ (encUint fl ++ (encUint t ++ (encBytes bad ++ tail)))))))) = .err e := by
  obtain ⟨e0, s0, h0⟩ := readEid_fault_d bad hbad [] 125
  simp only [List.append_nil] at h0
  have hd : decodeBtsd 6 bad = .err e0 := by
    simp [decodeBtsd, PAYLOAD_BLOCK, BUNDLE_AGE_BLOCK, HOP_COUNT_BLOCK, PREVIOUS_NODE_BLOCK, fromSlice_err readEid bad e0 s0 h0, Res.map]
  obtain ⟨n, rfl⟩ : ∃ n, count = n + 5 := ⟨count - 5, by omega⟩
  have hv := visitCanon_bad_data 6 num fl t (by omega) hn hf ht bad hl e0 hd n tail
  have := readCanon_of_visit_err (n + 5) hc _ .other ⟨tail, 126⟩ hv
  rw [encArrayHead_small _ hc]
  simp only [List.cons_append, List.nil_append]
  exact ⟨.other, reject_of_canon_err p hp _ (by rw [UInt8.toNat_ofNat']; omega) _ .other _ this⟩

/-! ### the hypotheses are satisfiable, and the faults are real faults -/

/-- a conformant primary block: version 7, fragment, CRC-16, dtn destination, ipn source -/
def samplePrimary : Primary :=
  { version := 7, flags := 1, crc := .v16 0x12 0x34, dst := .dtn 1 [47, 47, 110, 47, 97], src := .ipn 2 7 1,
    rpt := .null 1 0, ts := 1000, seq := 3, lifetime := 3600000, fragOff := 5, total := 50 }

def sampleCanon : Canon := { btype := 7, num := 2, flags := 0, crc := .no, data := .age 12 }

example : samplePrimary.wf = true ∧ samplePrimary.crc.wire = true ∧ sampleCanon.wf = true := by decide

/-- the wrong-kind theorem is not vacuous: a text string in place of the lifetime, a negative
    integer in place of the version, an unsigned integer in place of the source endpoint ID are
    covered; and WITHOUT the fault the same prefix continues into an accepted bundle -/
example : ((0x61 : UInt8).toNat / 32 ≠ primarySlotMajor 7 ∧ (0x61 : UInt8).toNat / 32 ≠ 6) ∧
          ((0x20 : UInt8).toNat / 32 ≠ primarySlotMajor 0 ∧ (0x20 : UInt8).toNat / 32 ≠ 6) ∧
          ((0x05 : UInt8).toNat / 32 ≠ primarySlotMajor 4 ∧ (0x05 : UInt8).toNat / 32 ≠ 6) := by decide

example : EidFault [0x82, 0x03, 0x00] ∧ EidFault [0x82, 0x02, 0x82, 0x00, 0x01] ∧ EidFault [0x83, 0x01, 0x00, 0x00] :=
  ⟨.scheme 3 [0x00] (by decide) (by decide) (by decide), .node0 1 (by decide), .extra⟩

end Bp7.C19
