/-
  C17 (calendar) — the human-readable form denotes exactly the instant: humantime's
  civil-from-days algorithm (copied into Model/Time.lean) inverts the proleptic Gregorian
  `daysFromCivil` for every day from 2000-01-01 to 9999-12-31.
-/
import Bp7.Model.Time
import Bp7.Spec.Calendar
namespace Bp7.C17
open Bp7 Bp7.Spec

theorem stage400_spec (d : Int) (h : 0 ≤ d) :
    ∃ qc r, stage400 d = (qc, r) ∧ 0 ≤ qc ∧ 0 ≤ r ∧ r < 146097 ∧ d = qc * 146097 + r := by
  refine ⟨d / 146097, d % 146097, ?_, by omega, by omega, by omega, by omega⟩
  unfold stage400
  simp only [Int.tdiv_eq_ediv_of_nonneg h, Int.tmod_eq_emod_of_nonneg h]
  have : ¬ d % 146097 < 0 := by omega
  simp [this]

theorem stage100_spec (r : Int) (h0 : 0 ≤ r) (h1 : r < 146097) :
    ∃ c r1, stage100 r = (c, r1) ∧ 0 ≤ c ∧ c ≤ 3 ∧ 0 ≤ r1 ∧ r1 ≤ 36524 ∧ r = c * 36524 + r1 ∧ (c < 3 → r1 < 36524) := by
  unfold stage100
  simp only [Int.tdiv_eq_ediv_of_nonneg h0]
  by_cases hc : r / 36524 = 4
  · simp only [hc, if_true]
    exact ⟨3, r - 3 * 36524, rfl, by omega, by omega, by omega, by omega, by omega, by omega⟩
  · simp only [hc, if_false]
    exact ⟨r / 36524, r - r / 36524 * 36524, rfl, by omega, by omega, by omega, by omega, by omega, by omega⟩

theorem stage4_spec (r : Int) (h0 : 0 ≤ r) (h1 : r ≤ 36524) :
    ∃ q r2, stage4 r = (q, r2) ∧ 0 ≤ q ∧ q ≤ 24 ∧ 0 ≤ r2 ∧ r2 ≤ 1460 ∧ r = q * 1461 + r2 ∧ (r < 36524 → q = 24 → r2 < 1460) := by
  unfold stage4
  simp only [Int.tdiv_eq_ediv_of_nonneg h0]
  by_cases hc : r / 1461 = 25
  · omega
  · simp only [hc, if_false]
    exact ⟨r / 1461, r - r / 1461 * 1461, rfl, by omega, by omega, by omega, by omega, by omega, by omega⟩

theorem stage1_spec (r : Int) (h0 : 0 ≤ r) (h1 : r ≤ 1460) :
    ∃ y r3, stage1 r = (y, r3) ∧ 0 ≤ y ∧ y ≤ 3 ∧ 0 ≤ r3 ∧ r3 ≤ 365 ∧ r = y * 365 + r3 ∧ (y < 3 → r3 < 365) := by
  unfold stage1
  simp only [Int.tdiv_eq_ediv_of_nonneg h0]
  by_cases hc : r / 365 = 4
  · simp only [hc, if_true]
    exact ⟨3, r - 3 * 365, rfl, by omega, by omega, by omega, by omega, by omega, by omega⟩
  · simp only [hc, if_false]
    exact ⟨r / 365, r - r / 365 * 365, rfl, by omega, by omega, by omega, by omega, by omega, by omega⟩

/-- the month loop on the 366 possible day-of-(March-based)-year values -/
theorem monthLoop_spec (r : Int) (h0 : 0 ≤ r) (h1 : r ≤ 365) :
    ∃ m dd, monthLoop monthLens 0 r = (m, dd) ∧ 1 ≤ m ∧ m ≤ 12 ∧ 0 ≤ dd ∧ dd ≤ 30 ∧
      (153 * (m - 1) + 2) / 5 + dd = r ∧ (m = 12 → dd ≤ 28) ∧
      ((m = 2 ∨ m = 4 ∨ m = 7 ∨ m = 9) → dd ≤ 29) := by
  have key : ∀ k : Fin 366,
      let p := monthLoop monthLens 0 (k.val : Int)
      1 ≤ p.1 ∧ p.1 ≤ 12 ∧ 0 ≤ p.2 ∧ p.2 ≤ 30 ∧ (153 * (p.1 - 1) + 2) / 5 + p.2 = (k.val : Int) ∧
      (p.1 = 12 → p.2 ≤ 28) ∧ ((p.1 = 2 ∨ p.1 = 4 ∨ p.1 = 7 ∨ p.1 = 9) → p.2 ≤ 29) := by
    decide +kernel
  have hk := key ⟨r.toNat, by omega⟩
  have hr : ((r.toNat : Nat) : Int) = r := by omega
  simp only [hr] at hk
  exact ⟨_, _, rfl, hk⟩

end Bp7.C17

namespace Bp7.C17
open Bp7 Bp7.Spec

/-- days from 2000-03-01 on: the copied algorithm inverts `daysFromCivil` -/
theorem civil_inverse_general (D : Nat) (h1 : 11017 ≤ D) :
    let c := civilOfDayNo D
    daysFromCivil c.year c.mon c.mday = D ∧ 1 ≤ c.mon ∧ c.mon ≤ 12 ∧ 1 ≤ c.mday ∧ c.mday ≤ 31 := by
  have hd0 : (0 : Int) ≤ (D : Int) - 11017 := by omega
  obtain ⟨qc, r0, e400, hqc, hr0a, hr0b, hd⟩ := stage400_spec _ hd0
  obtain ⟨c, r1, e100, hc0, hc3, hr1a, hr1b, hr0, _⟩ := stage100_spec r0 hr0a hr0b
  obtain ⟨q, r2, e4, hq0, hq24, hr2a, hr2b, hr1, _⟩ := stage4_spec r1 hr1a hr1b
  obtain ⟨y, r3, e1, hy0, hy3, hr3a, hr3b, hr2, _⟩ := stage1_spec r2 hr2a hr2b
  obtain ⟨m, dd, eml, hm1, hm12, hdd0, hdd30, hdoy, _, _⟩ := monthLoop_spec r3 hr3a hr3b
  simp only [civilOfDayNo, e400, e100, e4, e1, eml]
  by_cases hmon : m + 2 > 12
  · simp only [hmon, if_true]
    refine ⟨?_, by omega, by omega, by omega, by omega⟩
    unfold daysFromCivil
    have hm' : m - 10 ≤ 2 := by omega
    have hm'' : ¬ m - 10 > 2 := by omega
    simp only [hm', hm'', if_true, if_false]
    have hyge : 2000 + y + 4 * q + 100 * c + 400 * qc + 1 - 1 ≥ 0 := by omega
    simp only [hyge, if_true]
    have hera : (2000 + y + 4 * q + 100 * c + 400 * qc + 1 - 1) / 400 = 5 + qc := by omega
    rw [hera]
    have hyoe : 2000 + y + 4 * q + 100 * c + 400 * qc + 1 - 1 - (5 + qc) * 400 = y + 4 * q + 100 * c := by omega
    rw [hyoe]
    have h4 : (y + 4 * q + 100 * c) / 4 = q + 25 * c := by omega
    have h100 : (y + 4 * q + 100 * c) / 100 = c := by omega
    rw [h4, h100]
    have hmp : (153 * (m - 10 + 9) + 2) / 5 = (153 * (m - 1) + 2) / 5 := by congr 2; omega
    rw [hmp]
    omega
  · simp only [hmon, if_false]
    refine ⟨?_, by omega, by omega, by omega, by omega⟩
    unfold daysFromCivil
    have hm' : ¬ m + 2 ≤ 2 := by omega
    have hm'' : m + 2 > 2 := by omega
    simp only [hm', hm'', if_true, if_false]
    have hyge : 2000 + y + 4 * q + 100 * c + 400 * qc ≥ 0 := by omega
    simp only [hyge, if_true]
    have hera : (2000 + y + 4 * q + 100 * c + 400 * qc) / 400 = 5 + qc := by omega
    rw [hera]
    have hyoe : 2000 + y + 4 * q + 100 * c + 400 * qc - (5 + qc) * 400 = y + 4 * q + 100 * c := by omega
    rw [hyoe]
    have h4 : (y + 4 * q + 100 * c) / 4 = q + 25 * c := by omega
    have h100 : (y + 4 * q + 100 * c) / 100 = c := by omega
    rw [h4, h100]
    have hmp : (153 * (m + 2 - 3) + 2) / 5 = (153 * (m - 1) + 2) / 5 := by congr 2; omega
    rw [hmp]
    omega

end Bp7.C17

namespace Bp7.C17
open Bp7 Bp7.Spec

/-- the first 60 days (2000-01-01 … 2000-02-29), where the algorithm's day count is negative -/
theorem civil_inverse_early (D : Nat) (h1 : 10957 ≤ D) (h2 : D < 11017) :
    let c := civilOfDayNo D
    daysFromCivil c.year c.mon c.mday = D ∧ 1 ≤ c.mon ∧ c.mon ≤ 12 ∧ 1 ≤ c.mday ∧ c.mday ≤ 31 ∧ c.year = 2000 := by
  have key : ∀ k : Fin 60,
      let c := civilOfDayNo (10957 + k.val)
      daysFromCivil c.year c.mon c.mday = ((10957 + k.val : Nat) : Int) ∧ 1 ≤ c.mon ∧ c.mon ≤ 12 ∧ 1 ≤ c.mday ∧ c.mday ≤ 31 ∧ c.year = 2000 := by
    decide +kernel
  have := key ⟨D - 10957, by omega⟩
  have e : 10957 + (D - 10957) = D := by omega
  simp only [e] at this
  exact this

theorem year_bounds (D : Nat) (h1 : 11017 ≤ D) (h2 : D ≤ 2932896) :
    2000 ≤ (civilOfDayNo D).year ∧ (civilOfDayNo D).year ≤ 9999 := by
  have hd0 : (0 : Int) ≤ (D : Int) - 11017 := by omega
  obtain ⟨qc, r0, e400, hqc, hr0a, hr0b, hd⟩ := stage400_spec _ hd0
  obtain ⟨c, r1, e100, hc0, hc3, hr1a, hr1b, hr0, _⟩ := stage100_spec r0 hr0a hr0b
  obtain ⟨q, r2, e4, hq0, hq24, hr2a, hr2b, hr1, _⟩ := stage4_spec r1 hr1a hr1b
  obtain ⟨y, r3, e1, hy0, hy3, hr3a, hr3b, hr2, _⟩ := stage1_spec r2 hr2a hr2b
  obtain ⟨m, dd, eml, hm1, hm12, hdd0, hdd30, hdoy, _, _⟩ := monthLoop_spec r3 hr3a hr3b
  simp only [civilOfDayNo, e400, e100, e4, e1, eml]
  by_cases hmon : m + 2 > 12
  · simp only [hmon, if_true]; omega
  · simp only [hmon, if_false]; omega

end Bp7.C17

namespace Bp7.C17
open Bp7 Bp7.Spec

/-- the calendar part: the printed date is a valid date of years 2000–9999 and denotes the day -/
theorem date_denotes (t : Nat) (h : t ≤ 252455615999999) :
    2000 ≤ (civilOfSecs ((t + 946684800000) / 1000)).year ∧ (civilOfSecs ((t + 946684800000) / 1000)).year ≤ 9999 ∧
    1 ≤ (civilOfSecs ((t + 946684800000) / 1000)).mon ∧ (civilOfSecs ((t + 946684800000) / 1000)).mon ≤ 12 ∧
    1 ≤ (civilOfSecs ((t + 946684800000) / 1000)).mday ∧ (civilOfSecs ((t + 946684800000) / 1000)).mday ≤ 31 ∧
    daysFromCivil (civilOfSecs ((t + 946684800000) / 1000)).year (civilOfSecs ((t + 946684800000) / 1000)).mon
      (civilOfSecs ((t + 946684800000) / 1000)).mday = (((t + 946684800000) / 1000 / 86400 : Nat) : Int) := by
  have hD1 : 10957 ≤ (t + 946684800000) / 1000 / 86400 := by omega
  have hD2 : (t + 946684800000) / 1000 / 86400 ≤ 2932896 := by omega
  unfold civilOfSecs
  generalize (t + 946684800000) / 1000 / 86400 = D at *
  by_cases he : D < 11017
  · have := civil_inverse_early D hD1 he
    exact ⟨by omega, by omega, this.2.1, this.2.2.1, this.2.2.2.1, this.2.2.2.2.1, this.1⟩
  · have := civil_inverse_general D (by omega)
    have yb := year_bounds D (by omega) hD2
    exact ⟨yb.1, yb.2, this.2.1, this.2.2.1, this.2.2.2.1, this.2.2.2.2, this.1⟩

/-- the time-of-day part: day number, hour, minute, second and millisecond recombine to the
    instant `t + 946 684 800 000` ms since 1970 -/
theorem time_denotes (ms : Nat) :
    ms / 1000 % 86400 / 3600 ≤ 23 ∧ ms / 1000 % 86400 / 60 % 60 ≤ 59 ∧ ms / 1000 % 86400 % 60 ≤ 59 ∧ ms % 1000 ≤ 999 ∧
    (ms / 1000 / 86400 * 86400 + ms / 1000 % 86400 / 3600 * 3600 + ms / 1000 % 86400 / 60 % 60 * 60
      + ms / 1000 % 86400 % 60) * 1000 + ms % 1000 = ms := by
  refine ⟨by omega, by omega, by omega, by omega, by omega⟩

/-- the digits `rfc3339` prints are the zero-padded decimal digits of hour, minute and second -/
theorem tod_digits (sod : Nat) (h : sod < 86400) :
    sod / 3600 / 10 = (sod / 3600) / 10 ∧ sod / 60 / 10 % 6 = (sod / 60 % 60) / 10 ∧ sod / 60 % 10 = (sod / 60 % 60) % 10 ∧
    sod / 10 % 6 = (sod % 60) / 10 ∧ sod % 10 = (sod % 60) % 10 := by
  refine ⟨rfl, by omega, by omega, by omega, by omega⟩

/-- and of the millisecond fraction followed by six zeros -/
theorem frac_digits (f : Nat) (h : f < 1000) :
    f * 1000000 / 100000000 = f / 100 ∧ f * 1000000 / 10000000 % 10 = f / 10 % 10 ∧ f * 1000000 / 1000000 % 10 = f % 10 ∧
    f * 1000000 / 100000 % 10 = 0 ∧ f * 1000000 / 10000 % 10 = 0 ∧ f * 1000000 / 1000 % 10 = 0 ∧
    f * 1000000 / 100 % 10 = 0 ∧ f * 1000000 / 10 % 10 = 0 ∧ f * 1000000 % 10 = 0 := by
  refine ⟨by omega, by omega, by omega, by omega, by omega, by omega, by omega, by omega, by omega⟩

/-- February has 29 days exactly in leap years: the printed day never exceeds the month's length -/
theorem mday_le_daysInMonth_anchor :
    (civilOfDayNo 11016).mday = 29 ∧ (civilOfDayNo 11016).mon = 2 ∧ (civilOfDayNo 11017).mon = 3 ∧   -- 2000-02-29, 2000-03-01
    (civilOfDayNo 47540).mon = 2 ∧ (civilOfDayNo 47540).mday = 28 ∧ (civilOfDayNo 47541).mon = 3 := by   -- 2100-02-28, 2100-03-01
  decide +kernel

end Bp7.C17

namespace Bp7.C17
open Bp7 Bp7.Spec

theorem isLeap_iff (y : Int) : isLeap y = true ↔ (y % 4 = 0 ∧ y % 100 ≠ 0) ∨ y % 400 = 0 := by
  simp [isLeap]

/-- the printed day of month exists in the printed month (29 February only in leap years) -/
theorem mday_valid_general (D : Nat) (h1 : 11017 ≤ D) :
    (civilOfDayNo D).mday ≤ daysInMonth (civilOfDayNo D).year (civilOfDayNo D).mon := by
  have hd0 : (0 : Int) ≤ (D : Int) - 11017 := by omega
  obtain ⟨qc, r0, e400, hqc, hr0a, hr0b, hd⟩ := stage400_spec _ hd0
  obtain ⟨c, r1, e100, hc0, hc3, hr1a, hr1b, hr0, hcl⟩ := stage100_spec r0 hr0a hr0b
  obtain ⟨q, r2, e4, hq0, hq24, hr2a, hr2b, hr1, hql⟩ := stage4_spec r1 hr1a hr1b
  obtain ⟨y, r3, e1, hy0, hy3, hr3a, hr3b, hr2, hyl⟩ := stage1_spec r2 hr2a hr2b
  obtain ⟨m, dd, eml, hm1, hm12, hdd0, hdd30, hdoy, hfeb, h30⟩ := monthLoop_spec r3 hr3a hr3b
  simp only [civilOfDayNo, e400, e100, e4, e1, eml]
  by_cases hmon : m + 2 > 12
  · simp only [hmon, if_true]
    unfold daysInMonth
    by_cases hm11 : m = 11
    · subst hm11; simp; omega
    · have hm12' : m = 12 := by omega
      subst hm12'
      have hdd := hfeb rfl
      simp only [show (12 : Int) - 10 = 2 by decide, if_true]
      by_cases hleap : isLeap (2000 + y + 4 * q + 100 * c + 400 * qc + 1) = true
      · simp [hleap]; omega
      · simp only [hleap, Bool.false_eq_true, if_false]
        -- not a leap year: the 366th day of the March-based year cannot occur
        have hne : dd ≠ 28 := by
          intro h28
          apply hleap
          rw [isLeap_iff]
          have hr3 : r3 = 365 := by omega
          have hy : y = 3 := by
            by_cases hy : y < 3
            · have := hyl hy; omega
            · omega
          subst hy
          by_cases hq : q = 24
          · subst hq
            have hr2v : r2 = 1460 := by omega
            have hr1v : r1 = 36524 := by
              by_cases hlt : r1 < 36524
              · have := hql hlt rfl; omega
              · omega
            have hcv : c = 3 := by
              by_cases hlt : c < 3
              · have := hcl hlt; omega
              · omega
            subst hcv
            right; omega
          · left; omega
        omega
  · simp only [hmon, if_false]
    unfold daysInMonth
    have hne2 : ¬ m + 2 = 2 := by omega
    simp only [hne2, if_false]
    by_cases h30m : m + 2 = 4 ∨ m + 2 = 6 ∨ m + 2 = 9 ∨ m + 2 = 11
    · simp only [h30m, if_true]
      have := h30 (by omega)
      omega
    · simp only [h30m, if_false]; omega

end Bp7.C17

namespace Bp7.C17
open Bp7 Bp7.Spec
theorem mday_valid_early (D : Nat) (h1 : 10957 ≤ D) (h2 : D < 11017) :
    (civilOfDayNo D).mday ≤ daysInMonth (civilOfDayNo D).year (civilOfDayNo D).mon := by
  have key : ∀ k : Fin 60, (civilOfDayNo (10957 + k.val)).mday
      ≤ daysInMonth (civilOfDayNo (10957 + k.val)).year (civilOfDayNo (10957 + k.val)).mon := by decide +kernel
  have := key ⟨D - 10957, by omega⟩
  have e : 10957 + (D - 10957) = D := by omega
  simp only [e] at this
  exact this
end Bp7.C17
