/-
  C12 — administrative records round-trip; status reports describe the right bundle.
-/
import Bp7.Model.Admin
import Bp7.Lemmas.Codec
import Bp7.Lemmas.SpecEq
import Bp7.Spec.Admin
namespace Bp7.C12
open Bp7

/-- normal form of a status item: a time is present only on asserted, time-reporting items -/
def itemNormal (i : StatusItem) : Bool :=
  decide (i.time < U64) && (!i.statusRequested || i.asserted) && (i.statusRequested || i.time == 0)

/-- normal form of a record: items normal; fragment offset only with a non-zero fragment length;
    canonical source EID; integer widths; unknown records have a type code other than 1 -/
def normal : AdminRecord → Bool
  | .report r => r.items.all itemNormal && decide (r.items.length < U64) && decide (r.reason < U32) && r.source.wf
      && decide (r.ts < U64) && decide (r.seq < U64) && decide (r.fragOff < U64) && decide (r.fragLen < U64)
      && (r.fragLen != 0 || r.fragOff == 0)
  | .unknown code data => code != 1 && decide (code < U32) && decide (data.length < U64)
  | .mismatched _ _ => false

theorem readItem_enc (i : StatusItem) (h : itemNormal i = true) (rest : Bytes) (d : Nat) (hd : 2 ≤ d) :
    readItem ⟨encItem i ++ rest, d⟩ = (.ok i, ⟨rest, d⟩) := by
  obtain ⟨d', rfl⟩ : ∃ d', d = d' + 1 := ⟨d - 1, by omega⟩
  obtain ⟨a, t, r⟩ := i
  simp only [itemNormal, Bool.and_eq_true, Bool.or_eq_true, Bool.not_eq_true', beq_iff_eq, U64_eq] at h
  obtain ⟨⟨ht, h1⟩, h2⟩ := h
  have ht' : t < 18446744073709551616 := of_decide_eq_true ht
  cases a <;> cases r <;> simp at h1 h2
  · -- not asserted, no time
    subst h2
    have := readSeq_array visitItem 1 (by omega) (encBool false) rest d' (by omega) ⟨false, 0, false⟩
      (by simp [visitItem, bind_apply, pure_apply, reqElem_succ, readBool_enc])
    simpa [readItem, encItem, List.append_assoc] using this
  · subst h2
    have := readSeq_array visitItem 1 (by omega) (encBool true) rest d' (by omega) ⟨true, 0, false⟩
      (by simp [visitItem, bind_apply, pure_apply, reqElem_succ, readBool_enc])
    simpa [readItem, encItem, List.append_assoc] using this
  · have := readSeq_array visitItem 2 (by omega) (encBool true ++ encUint t) rest d' (by omega) ⟨true, t, true⟩
      (by simp [visitItem, bind_apply, pure_apply, reqElem_succ, readBool_enc, readU64_enc t ht', List.append_assoc])
    simpa [readItem, encItem, List.append_assoc] using this

theorem collectItems (is : List StatusItem) (hn : ∀ i ∈ is, itemNormal i = true) (d : Nat) (hd : 2 ≤ d) (rest : Bytes) :
    ∀ (fuel : Nat) (out : List StatusItem), is.length < fuel →
      collectElems readItem fuel out (some is.length) ⟨(is.map encItem).flatten ++ rest, d⟩
        = (.ok (out ++ is, some 0), ⟨rest, d⟩) := by
  induction is with
  | nil =>
    intro fuel out hf
    obtain ⟨f, rfl⟩ : ∃ f, fuel = f + 1 := ⟨fuel - 1, by simp at hf; omega⟩
    simp [collectElems, nextElem]
  | cons i is ih =>
    intro fuel out hf
    obtain ⟨f, rfl⟩ : ∃ f, fuel = f + 1 := ⟨fuel - 1, by simp at hf; omega⟩
    have hrd := readItem_enc i (hn i (by simp)) ((is.map encItem).flatten ++ rest) d hd
    have ih' := ih (fun x hx => hn x (by simp [hx])) f (out ++ [i]) (by simp at hf; omega)
    simp only [List.map_cons, List.flatten_cons, List.append_assoc, List.length_cons]
    rw [collectElems]
    simp only [nextElem, hrd]
    simpa [List.append_assoc] using ih'

theorem readItems_enc (is : List StatusItem) (hn : ∀ i ∈ is, itemNormal i = true) (hl : is.length < 18446744073709551616)
    (rest : Bytes) (d : Nat) (hd : 3 ≤ d) :
    readItems ⟨encArrayHead is.length ++ (is.map encItem).flatten ++ rest, d⟩ = (.ok is, ⟨rest, d⟩) := by
  obtain ⟨d', rfl⟩ : ∃ d', d = d' + 1 := ⟨d - 1, by omega⟩
  have hc := collectItems is hn d' (by omega) rest (((is.map encItem).flatten ++ rest).length + 1) []
    (by
      have : is.length ≤ ((is.map encItem).flatten).length := by
        clear hn hl
        induction is with
        | nil => simp
        | cons i is ih =>
          have : 0 < (encItem i).length := by unfold encItem; split <;> simp [encArrayHead, encHead]
          simp only [List.map_cons, List.flatten_cons, List.length_append, List.length_cons]; omega
      simp only [List.length_append]; omega)
  have := readSeq_array (fun acc s => collectElems readItem (s.inp.length + 1) [] acc s) is.length hl
    ((is.map encItem).flatten) rest d' (by omega) is (by simpa using hc)
  simpa [readItems, List.append_assoc] using this

theorem readReport_enc (r : StatusReport) (h : normal (.report r) = true) (rest : Bytes) (d : Nat) (hd : 5 ≤ d) :
    readReport ⟨encReport r ++ rest, d⟩ = (.ok r, ⟨rest, d⟩) := by
  obtain ⟨d', rfl⟩ : ∃ d', d = d' + 1 := ⟨d - 1, by omega⟩
  simp only [normal, Bool.and_eq_true, List.all_eq_true, Bool.or_eq_true, bne_iff_ne, ne_eq, beq_iff_eq, U64_eq, U32_eq] at h
  obtain ⟨⟨⟨⟨⟨⟨⟨⟨hi, hil⟩, hr⟩, hs⟩, hts⟩, hsq⟩, hfo⟩, hfl⟩, hfrag⟩ := h
  have hil := of_decide_eq_true hil
  have hr := of_decide_eq_true hr
  have hts := of_decide_eq_true hts
  have hsq := of_decide_eq_true hsq
  have hfo := of_decide_eq_true hfo
  have hfl := of_decide_eq_true hfl
  have hitems := fun rest' => readItems_enc r.items hi hil rest' d' (by omega)
  have hpair := fun rest' => readPairU64_enc r.ts r.seq (by rw [U64_eq]; exact hts) (by rw [U64_eq]; exact hsq) rest' d' (by omega)
  simp only [List.append_assoc] at hitems hpair
  by_cases hz : r.fragLen = 0
  · have hoff : r.fragOff = 0 := by rcases hfrag with h | h; exact absurd hz h; exact h
    have := readSeq_array visitReport 4 (by omega)
      (encArrayHead r.items.length ++ ((r.items.map encItem).flatten ++ (encUint r.reason ++ (encEid r.source ++
        (encArrayHead 2 ++ (encUint r.ts ++ encUint r.seq)))))) rest d' (by omega) r
      (by
        simp only [visitReport, bind_apply, pure_apply, reqElem_succ, List.append_assoc, hitems,
          readU32_enc r.reason hr, readEid_enc r.source hs _ d' (by omega), hpair]
        simp only [show ¬ ((some 0 : Acc) = some 2) by decide, if_false, pure_apply]
        cases r; simp_all)
    simpa [readReport, encReport, hz, List.append_assoc] using this
  · have := readSeq_array visitReport 6 (by omega)
      (encArrayHead r.items.length ++ ((r.items.map encItem).flatten ++ (encUint r.reason ++ (encEid r.source ++
        (encArrayHead 2 ++ (encUint r.ts ++ (encUint r.seq ++ (encUint r.fragOff ++ encUint r.fragLen)))))))) rest d' (by omega) r
      (by
        simp only [visitReport, bind_apply, pure_apply, reqElem_succ, List.append_assoc, hitems,
          readU32_enc r.reason hr, readEid_enc r.source hs _ d' (by omega), hpair]
        simp [bind_apply, pure_apply, reqElem_succ, readU64_enc r.fragOff hfo, readU64_enc r.fragLen hfl])
    simpa [readReport, encReport, hz, List.append_assoc] using this

/-- **C12 (round trip).** Every administrative record in normal form decodes from its CBOR
    encoding to an equal record. -/
theorem admin_roundtrip (r : AdminRecord) (h : normal r = true) : decodeAdmin (encAdmin r) = .ok r := by
  cases r with
  | report sr =>
    have hr := readReport_enc sr h [] 127 (by omega)
    have := readSeq_array visitAdmin 2 (by omega) (encUint 1 ++ encReport sr) [] 127 (by omega) (.report sr)
      (by
        simp only [visitAdmin, bind_apply, pure_apply, reqElem_succ, List.append_assoc, readU32_enc 1 (by omega)]
        simp only [List.append_nil] at hr ⊢
        simp [bind_apply, pure_apply, reqElem_succ, hr])
    apply fromSlice_enc
    simpa [readAdmin, encAdmin, List.append_assoc] using this
  | unknown code data =>
    simp only [normal, Bool.and_eq_true, bne_iff_ne, ne_eq, U64_eq, U32_eq] at h
    obtain ⟨⟨hne, hc⟩, hl⟩ := h
    have hc := of_decide_eq_true hc
    have hl := of_decide_eq_true hl
    have hb := readByteBuf_enc data hl [] 127
    simp only [List.append_nil] at hb
    have := readSeq_array visitAdmin 2 (by omega) (encUint code ++ encBytes data) [] 127 (by omega) (.unknown code data)
      (by
        simp only [visitAdmin, bind_apply, pure_apply, reqElem_succ, List.append_assoc, readU32_enc code hc]
        simp [hne, bind_apply, pure_apply, reqElem_succ, hb])
    apply fromSlice_enc
    simpa [readAdmin, encAdmin, List.append_assoc] using this
  | mismatched code data => simp [normal] at h

end Bp7.C12

namespace Bp7.C12
open Bp7

/-- **C12 (layout).** The encoding is the RFC 9171 §6.1 layout: `[record type code, content]`; a
    status report is `[status items, reason, source EID, creation timestamp (, offset, length)]`,
    each status item `[asserted (, time)]`. Stated against the independent item-tree encoder. -/
theorem encBool_eq (b : Bool) : encBool b = Spec.encItem (.simple (if b then 21 else 20)) := by
  cases b <;> rfl

theorem encItem_eq (i : StatusItem) (h : itemNormal i = true) : encItem i = Spec.encItem (Spec.itemItem i) := by
  simp only [itemNormal, Bool.and_eq_true, U64_eq] at h
  have ht := of_decide_eq_true h.1.1
  unfold encItem Spec.itemItem
  split
  · simp [Spec.encItem, Spec.encItems, encArrayHead_eq, encBool_eq, encUint_eq i.time ht]
  · simp [Spec.encItem, Spec.encItems, encArrayHead_eq, encBool_eq]

theorem encItems_eq (is : List StatusItem) (h : ∀ i ∈ is, itemNormal i = true) :
    (is.map encItem).flatten = Spec.encItems (is.map Spec.itemItem) := by
  induction is with
  | nil => rfl
  | cons i is ih =>
    simp [Spec.encItems, encItem_eq i (h i (by simp)), ih (fun x hx => h x (by simp [hx]))]

theorem report_eq_spec (r : StatusReport) (h : normal (.report r) = true) :
    encReport r = Spec.encItem (Spec.reportItem r) := by
  simp only [normal, Bool.and_eq_true, List.all_eq_true, U64_eq, U32_eq] at h
  obtain ⟨⟨⟨⟨⟨⟨⟨⟨hi, hil⟩, hr⟩, hs⟩, hts⟩, hsq⟩, hfo⟩, hfl⟩, _⟩ := h
  have hil := of_decide_eq_true hil
  have hr := of_decide_eq_true hr
  have hts := of_decide_eq_true hts
  have hsq := of_decide_eq_true hsq
  have hfo := of_decide_eq_true hfo
  have hfl := of_decide_eq_true hfl
  unfold encReport Spec.reportItem
  by_cases hz : r.fragLen = 0
  · simp [hz, Spec.encItem, Spec.encItems, encArrayHead_eq _ hil, encArrayHead_eq, encItems_eq r.items hi,
      encUint_eq r.reason (by omega), encEid_eq r.source (Eid.bounded_of_wf _ hs), encUint_eq r.ts hts, encUint_eq r.seq hsq,
      List.append_assoc]
  · simp [hz, Spec.encItem, Spec.encItems, encArrayHead_eq _ hil, encArrayHead_eq, encItems_eq r.items hi,
      encUint_eq r.reason (by omega), encEid_eq r.source (Eid.bounded_of_wf _ hs), encUint_eq r.ts hts, encUint_eq r.seq hsq,
      encUint_eq r.fragOff hfo, encUint_eq r.fragLen hfl, List.append_assoc]

theorem admin_eq_spec (sr : StatusReport) (h : normal (.report sr) = true) :
    encAdmin (.report sr) = Spec.encItem (.arr [.uint 1, Spec.reportItem sr]) := by
  simp [encAdmin, Spec.encItem, Spec.encItems, encArrayHead_eq, encUint_eq 1 (by omega), report_eq_spec sr h]

/-- **C12 (layout, records of unknown type).** `[record type code, content as a byte string]`. -/
theorem admin_unknown_eq_spec (c : Nat) (d : Bytes) (hc : c < U32) (hd : d.length < U64) :
    encAdmin (.unknown c d) = Spec.encItem (Spec.adminItem (.unknown c d)) := by
  rw [U32_eq] at hc
  rw [U64_eq] at hd
  simp [encAdmin, Spec.adminItem, Spec.encItem, Spec.encItems, encArrayHead_eq, encUint_eq c (by omega), encBytes_eq d hd]

/-- **C12 (status-report bundles).** For a non-fragment bundle `B` with a non-null report-to
    endpoint, the generated report bundle is an administrative-record bundle addressed to `B`'s
    report-to endpoint, sourced from the reporting node, carrying `B`'s lifetime and the requested
    CRC type; its payload decodes to a status report that references `B`'s source and creation
    timestamp, asserts exactly status item `pos`, carries the status time iff `B` requested status
    times, and the requested reason code. -/
theorem status_bundle_spec (B : Bundle) (src : Eid) (crcT pos reason now tsNow seqNow : Nat)
    (hfrag : B.primary.isFragment = false) (hrpt : B.primary.rpt ≠ Eid.dtnNone) (hpos : pos < 4)
    (hsrc : B.primary.src.wf = true) (hts : B.primary.ts < U64) (hsq : B.primary.seq < U64)
    (hreason : reason < U32) (hnow : now < U64) :
    ∃ R sr, newStatusReportBundle B src crcT pos reason now tsNow seqNow = .ok R ∧
      R.isAdminRecord = true ∧ R.primary.dst = B.primary.rpt ∧ R.primary.src = src ∧ R.primary.rpt = src ∧
      R.primary.lifetime = B.primary.lifetime ∧ R.primary.ts = tsNow ∧ R.primary.seq = seqNow ∧
      R.primary.crc = CrcVal.ofType crcT ∧
      R.payload = some (encAdmin (.report sr)) ∧ decodeAdmin (encAdmin (.report sr)) = .ok (.report sr) ∧
      sr.source = B.primary.src ∧ sr.ts = B.primary.ts ∧ sr.seq = B.primary.seq ∧ sr.reason = reason ∧
      sr.items.length = 4 ∧
      (∀ i, i < 4 → (sr.items[i]?).map (·.asserted) = some (decide (i = pos))) ∧
      ((sr.items[pos]?).map (·.statusRequested) = some (has B.primary.flags F_STATUS_TIME)) ∧
      (has B.primary.flags F_STATUS_TIME = true → (sr.items[pos]?).map (·.time) = some now) ∧
      sr.refbundle = B.id := by
  have hsr : ∃ sr, newStatusReport B pos reason now = .ok sr ∧ normal (.report sr) = true ∧
      sr.source = B.primary.src ∧ sr.ts = B.primary.ts ∧ sr.seq = B.primary.seq ∧ sr.reason = reason ∧ sr.items.length = 4 ∧
      (∀ i, i < 4 → (sr.items[i]?).map (·.asserted) = some (decide (i = pos))) ∧
      ((sr.items[pos]?).map (·.statusRequested) = some (has B.primary.flags F_STATUS_TIME)) ∧
      (has B.primary.flags F_STATUS_TIME = true → (sr.items[pos]?).map (·.time) = some now) ∧
      sr.refbundle = B.id := by
    refine ⟨_, by simp [newStatusReport, hfrag]; rfl, ?_⟩
    have hp : pos = 0 ∨ pos = 1 ∨ pos = 2 ∨ pos = 3 := by omega
    have hU64 : U64 = 18446744073709551616 := rfl
    have hU32 : U32 = 4294967296 := rfl
    cases hst : has B.primary.flags F_STATUS_TIME <;>
      rcases hp with rfl | rfl | rfl | rfl <;>
      (refine ⟨?_, rfl, rfl, rfl, rfl, rfl, ?_, ?_, ?_, ?_⟩) <;>
      first
        | (simp [normal, itemNormal, hst, hsrc, hts, hsq, hreason, hnow]; simp [U64]; done)
        | (simp [normal, itemNormal, hst, hsrc, hts, hsq, hreason, hnow]; done)
        | (intro i hi; have : i = 0 ∨ i = 1 ∨ i = 2 ∨ i = 3 := by omega
           rcases this with rfl | rfl | rfl | rfl <;> simp [hst])
        | (simp [hst]; done)
        | (simp [StatusReport.refbundle, Bundle.id, hfrag]; done)
  obtain ⟨sr, hnew, hnorm, h1, h2, h3, h4, h5, h6, h7, h8, h9⟩ := hsr
  have hd : B.primary.rpt = Eid.dtnNone ↔ False := ⟨hrpt, False.elim⟩
  refine ⟨_, sr, by simp [newStatusReportBundle, hnew, hd, buildBundle, sortDesc, insertDesc, newPayloadBlock, Res.map]; rfl, ?_⟩
  refine ⟨by simp [Bundle.isAdminRecord, Bundle.setCrc, has, flagsContain]; decide, rfl, rfl, rfl, rfl, rfl, rfl, rfl, ?_,
    admin_roundtrip _ hnorm, h1, h2, h3, h4, h5, h6, h7, h8, h9⟩
  simp [Bundle.payload, Bundle.blockByType, Bundle.setCrc, newPayloadBlock, PAYLOAD_BLOCK, Canon.extOk]

end Bp7.C12
