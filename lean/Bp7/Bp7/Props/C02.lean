/-
  C02 — the encoder emits exactly the RFC 9171 wire format: byte-exact agreement with an
  independently written reference (Spec/Cbor.lean: RFC 8949 item tree and deterministic encoder;
  Spec/Rfc9171.lean: field order of §4.3.1 / §4.3.2, EIDs as [scheme, ssp], btsd in a byte string,
  CRC last, indefinite outer array; Spec/Crc.lean: catalogue-parameter CRC).

  The CRC *values* inside the bytes are equal because the two CRC definitions agree (`crcAgree`:
  the reflected bit-serial model of the `crc` crate computes the same function as the MSB-first
  catalogue-parameter reference, Lemmas/CrcAgree.lean: the registers are bit reversals of each
  other after every step). `encode_eq_spec_partial` is kept as the statement relative to that
  agreement; `encode_eq_spec` is the unconditional theorem.
-/
import Bp7.Lemmas.SpecEq
import Bp7.Lemmas.CrcAgree
namespace Bp7.C02
open Bp7

/-- the full statement -/
def EncodeEqSpec : Prop := ∀ b : Bundle, b.wf = true → (b.toCbor).2 = Spec.encode b

/-- C02 relative to the agreement of the two CRC definitions -/
theorem encode_eq_spec_partial (hag : CrcAgree) : EncodeEqSpec :=
  fun b h => toCbor_eq_spec hag b h

/-- the model CRC (reflected, as the `crc` crate computes it) is the catalogue-parameter CRC -/
theorem crcAgree : CrcAgree := ⟨CrcAgreeProof.crc16_agree, CrcAgreeProof.crc32c_agree⟩

/-- **C02.** For every well-formed bundle — any flags, EIDs, block lists, data sizes and CRC types,
    any prior CRC values — the emitted bytes are exactly the RFC 9171 encoding produced by the
    independent reference, CRC values included. -/
theorem encode_eq_spec : EncodeEqSpec := encode_eq_spec_partial crcAgree

/-! ### fragment fields are on the wire iff the "is a fragment" flag is set

  `wf` (the round-trip domain) demands zero fragment fields on non-fragments, because such fields do
  not survive encoding. For the wire format alone that restriction is not needed: a non-fragment
  whose `fragmentation_offset` / `total_data_length` still hold values (a reassembled bundle whose
  flag was cleared, a builder call without the flag) is written with 8 (9) items, the fields unseen. -/

/-- the primary block with fragment fields forgotten unless the flag says fragment -/
def normFrag (p : Primary) : Primary := if p.isFragment then p else { p with fragOff := 0, total := 0 }

def normFragB (b : Bundle) : Bundle := { b with primary := normFrag b.primary }

theorem encPrimary_normFrag (p : Primary) : encPrimary (normFrag p) = encPrimary p := by
  unfold normFrag
  cases h : p.isFragment
  · have h' : ({ p with fragOff := 0, total := 0 } : Primary).isFragment = false := h
    simp [encPrimary, h, h']
  · simp

theorem normFrag_setCrc (p : Primary) (c : CrcVal) :
    ({ normFrag p with crc := c } : Primary) = normFrag { p with crc := c } := by
  unfold normFrag
  have : ({ p with crc := c } : Primary).isFragment = p.isFragment := rfl
  rw [this]
  cases p.isFragment <;> rfl

theorem calcCrc_normFrag (p : Primary) : (normFrag p).calcCrc = p.calcCrc := by
  have hc : (normFrag p).crc = p.crc := by unfold normFrag; cases p.isFragment <;> rfl
  unfold Primary.calcCrc calcCrc
  simp only [hc, normFrag_setCrc, encPrimary_normFrag]

theorem updateCrc_normFrag (p : Primary) : encPrimary (normFrag p).updateCrc = encPrimary p.updateCrc := by
  unfold Primary.updateCrc
  rw [calcCrc_normFrag, normFrag_setCrc, encPrimary_normFrag]

theorem spec_primaryFields_normFrag (p : Primary) : Spec.primaryFields (normFrag p) = Spec.primaryFields p := by
  unfold normFrag
  cases h : p.isFragment
  · have hs : Spec.isFragment p = false := by rw [spec_isFragment]; exact h
    have hs' : Spec.isFragment ({ p with fragOff := 0, total := 0 } : Primary) = false := by
      rw [spec_isFragment]; exact h
    simp [Spec.primaryFields, hs, hs']
  · simp

theorem spec_primaryItem_normFrag (p : Primary) : Spec.primaryItem (normFrag p) = Spec.primaryItem p := by
  have hc : (normFrag p).crc = p.crc := by unfold normFrag; cases p.isFragment <;> rfl
  unfold Spec.primaryItem
  rw [spec_primaryFields_normFrag, hc]

/-- **C02 (stale fragment fields).** Whatever a non-fragment's fragment fields hold, the bytes are
    the RFC encoding — the one of the bundle without them. -/
theorem encode_eq_spec_stalefrag (b : Bundle) (h : (normFragB b).wf = true) :
    (b.toCbor).2 = Spec.encode b := by
  have h1 : (b.toCbor).2 = ((normFragB b).toCbor).2 := by
    simp only [Bundle.toCbor, encBlocks, Bundle.calculateCrc, normFragB, updateCrc_normFrag]
  have h2 : Spec.encode b = Spec.encode (normFragB b) := by
    simp only [Spec.encode, Spec.bundleItem, normFragB, spec_primaryItem_normFrag]
  rw [h1, h2]
  exact encode_eq_spec (normFragB b) h

/-- **C02 (blocks, unconditional).** Every primary block is written as the definite array of its
    §4.3.1 fields in order, followed by the stored CRC value as a byte string iff it has one. -/
theorem primary_layout (p : Primary) (h : p.wf = true) :
    encPrimary p = Spec.encItem (.arr (Spec.primaryFields p ++ crcItems p.crc)) := encPrimary_eq p h

theorem canonical_layout (c : Canon) (h : c.wf = true) :
    encCanon c = Spec.encItem (.arr (Spec.canonFields c ++ crcItems c.crc)) := encCanon_eq c h

/-- `CrcAgree` is only used for blocks with CRC type 1 or 2 -/
theorem crcItems_calc_no {β} (enc : β → Bytes) (getc : β → CrcVal) (setc : β → CrcVal → β) (b : β)
    (fs : List Spec.Item) (hc : getc b = .no) :
    crcItems (calcCrc enc getc setc b) = Spec.crcItem fs (Spec.crcType (getc b)) := by
  simp [calcCrc, hc, CrcVal.toCode, Spec.crcType, Spec.crcItem, crcItems, CrcVal.bytes]

/-- **C02 (bundles without CRCs, unconditional).** -/
theorem encode_eq_spec_nocrc (b : Bundle) (h : b.wf = true)
    (hp : b.primary.crc = .no) (hc : ∀ c ∈ b.canon, c.crc = .no) :
    (b.toCbor).2 = Spec.encode b := by
  simp only [Bundle.wf, Bool.and_eq_true, List.all_eq_true] at h
  have hprim : encPrimary b.primary.updateCrc = Spec.encItem (Spec.primaryItem b.primary) := by
    have hu : b.primary.updateCrc = b.primary := by
      have : b.primary.calcCrc = .no := by simp [Primary.calcCrc, calcCrc, hp, CrcVal.toCode]
      simp only [Primary.updateCrc, this]
      rw [← hp]
    rw [hu, encPrimary_eq _ h.1]
    simp [Spec.primaryItem, hp, crcItems, CrcVal.bytes, Spec.crcType, Spec.crcItem]
  have hcan : ∀ c ∈ b.canon, (encCanon ∘ Canon.updateCrc) c = Spec.encItem (Spec.canonItem c) := by
    intro c hcm
    have hcn := hc c hcm
    have hu : c.updateCrc = c := by
      have : c.calcCrc = .no := by simp [Canon.calcCrc, calcCrc, hcn, CrcVal.toCode]
      simp only [Canon.updateCrc, this]
      rw [← hcn]
    simp only [Function.comp, hu, encCanon_eq _ (h.2 c hcm)]
    simp [Spec.canonItem, hcn, crcItems, CrcVal.bytes, Spec.crcType, Spec.crcItem]
  unfold Bundle.toCbor Spec.encode Spec.bundleItem
  simp only [Spec.encItem, Spec.encItems, encBlocks, Bundle.calculateCrc, List.map_map, hprim]
  rw [encItems_map b.canon (encCanon ∘ Canon.updateCrc) Spec.canonItem hcan]

/-! ### the reference is pinned to published vectors (kernel evaluation) -/

def hexb (s : String) : Bytes :=
  let rec go : List Char → Bytes
    | a :: b :: r => UInt8.ofNat ((nib a) * 16 + nib b) :: go r
    | _ => []
  go s.toList
where nib (c : Char) : Nat := if c.toNat ≥ 97 then c.toNat - 87 else c.toNat - 48

/-- RFC 9173 Appendix A.1.1: primary block [7,0,0,ipn:1.2,ipn:2.1,ipn:2.1,[0,40],1000000] -/
def a1primary : Primary :=
  { version := 7, flags := 0, crc := .no, dst := .ipn 2 1 2, src := .ipn 2 2 1, rpt := .ipn 2 2 1,
    ts := 0, seq := 40, lifetime := 1000000, fragOff := 0, total := 0 }
theorem rfc9173_a1_primary :
    Spec.encItem (Spec.primaryItem a1primary)
      = [0x88, 0x07, 0x00, 0x00, 0x82, 0x02, 0x82, 0x01, 0x02, 0x82, 0x02, 0x82, 0x02, 0x01, 0x82, 0x02, 0x82, 0x02,
         0x01, 0x82, 0x00, 0x18, 0x28, 0x1a, 0x00, 0x0f, 0x42, 0x40] := by decide +kernel

/-- RFC 9173 Appendix A.1.1: payload block, "Ready to generate a 32-byte payload" -/
def a1payload : Canon :=
  { btype := 1, num := 1, flags := 0, crc := .no,
    data := .data [0x52, 0x65, 0x61, 0x64, 0x79, 0x20, 0x74, 0x6f, 0x20, 0x67, 0x65, 0x6e, 0x65, 0x72, 0x61, 0x74, 0x65,
                   0x20, 0x61, 0x20, 0x33, 0x32, 0x2d, 0x62, 0x79, 0x74, 0x65, 0x20, 0x70, 0x61, 0x79, 0x6c, 0x6f, 0x61, 0x64] }
theorem rfc9173_a1_payload :
    Spec.encItem (Spec.canonItem a1payload)
      = [0x85, 0x01, 0x01, 0x00, 0x00, 0x58, 0x23,
         0x52, 0x65, 0x61, 0x64, 0x79, 0x20, 0x74, 0x6f, 0x20, 0x67, 0x65, 0x6e, 0x65, 0x72, 0x61, 0x74, 0x65,
         0x20, 0x61, 0x20, 0x33, 0x32, 0x2d, 0x62, 0x79, 0x74, 0x65, 0x20, 0x70, 0x61, 0x79, 0x6c, 0x6f, 0x61, 0x64] := by
  decide +kernel

/-- the crate's documented golden bundle (lib.rs doc test): CRC-16 on both blocks, `0f56` at the end -/
def golden : Bundle :=
  { primary := { version := 7, flags := 0x20004, crc := .empty16,
                 dst := .dtn 1 [47, 47, 110, 111, 100, 101, 50, 47, 105, 110, 98, 111, 120],
                 src := .dtn 1 [47, 47, 110, 111, 100, 101, 49, 47, 49, 50, 51, 52, 53, 54],
                 rpt := .dtn 1 [47, 47, 110, 111, 100, 101, 49, 47, 49, 50, 51, 52, 53, 54],
                 ts := 0, seq := 0, lifetime := 3600000, fragOff := 0, total := 0 },
    canon := [ { btype := 1, num := 1, flags := 0, crc := .empty16, data := .data [65, 66, 67] } ] }
theorem golden_reference :
    Spec.encode golden =
      [159, 137, 7, 26, 0, 2, 0, 4, 1, 130, 1, 109, 47, 47, 110, 111, 100, 101, 50,
       47, 105, 110, 98, 111, 120, 130, 1, 110, 47, 47, 110, 111, 100, 101, 49, 47, 49, 50, 51, 52,
       53, 54, 130, 1, 110, 47, 47, 110, 111, 100, 101, 49, 47, 49, 50, 51, 52, 53, 54, 130, 0, 0,
       26, 0, 54, 238, 128, 66, 188, 152, 134, 1, 1, 0, 1, 67, 65, 66, 67, 66, 15, 86, 255] := by decide +kernel
/-- and the model encoder produces the same golden bytes -/
theorem golden_model : (golden.toCbor).2 = Spec.encode golden := by decide +kernel

/-- a reassembled bundle: flag cleared, offset / total length still set -/
def staleFrag : Bundle :=
  { golden with primary := { golden.primary with fragOff := 1024, total := 4096 } }
example : staleFrag.wf = false ∧ (normFragB staleFrag).wf = true := by decide
example : (staleFrag.toCbor).2 = Spec.encode staleFrag := encode_eq_spec_stalefrag staleFrag (by decide)

end Bp7.C02
