/-
  C14 — C FFI: null on invalid input; every returned object frees cleanly (PARTIAL: the ledger
  model cannot exhibit out-of-bounds access or use-after-free inside the library; that part of
  the property is covered only by running the real code under the counting allocator /
  sanitizer-style checks in the harness).
-/
import Bp7.Model.Ffi
namespace Bp7.C14
open Bp7 Bp7.Ffi

/-- **C14 (null on invalid input).** Decoding a buffer that is not a valid bundle returns a null
    pointer and leaves the ledger untouched (no abort, no allocation kept). -/
theorem null_on_invalid (pinned : Bool) (s : Ledger) (bytes : Bytes)
    (h : ¬ ∃ b, decodeBundle bytes = .ok b ∧ b.isValid = true) :
    ∃ s', step pinned s (.fromCbor bytes) = (s', .null) ∧ s'.live = s.live ∧ s'.objs.length = s.objs.length := by
  cases hd : decodeBundle bytes with
  | ok b =>
    by_cases hv : b.isValid = true
    · exact absurd ⟨b, hd, hv⟩ h
    · simp [step, hd, hv]
  | err e => simp [step, hd]
  | panic p => simp [step, hd]

/-- **C14 (agreement with the Rust API).** For a valid bundle the handle's queries return what
    the library functions return on the decoded bundle. -/
theorem from_cbor_valid (pinned : Bool) (s : Ledger) (bytes : Bytes) (b : Bundle)
    (hd : decodeBundle bytes = .ok b) (hv : b.isValid = true) :
    (step pinned s (.fromCbor bytes)).2 = .handle s.nextHandle ∧
    lookup s.nextHandle (step pinned s (.fromCbor bytes)).1.objs = lookup s.nextHandle (s.objs ++ [(s.nextHandle, Obj.bundle b (fresh s 1))]) := by
  simp [step, hd, hv, addObj]

/-- **C14 (metadata, fix F13).** The metadata query on a live bundle handle answers with the
    printed source and destination, the creation timestamp and the lifetime of that bundle —
    exactly when both strings can be C strings (no NUL byte); otherwise it answers null, allocates
    nothing and aborts nothing.  (On the pinned tree `CString::new(..).unwrap()` aborted the
    process for a valid decoded bundle whose source is e.g. `dtn://a\0b/x`.) -/
theorem metadata_spec (pinned : Bool) (s : Ledger) (h : Nat) (b : Bundle) (a : List Nat)
    (hl : lookup h s.objs = some (.bundle b a)) :
    (cStringOk (printEid b.primary.src) = true ∧ cStringOk (printEid b.primary.dst) = true →
      (step pinned s (.getMetadata h)).2 =
        .mdata s.nextHandle (printEid b.primary.src) (printEid b.primary.dst) b.primary.ts b.primary.seq b.primary.lifetime) ∧
    (¬ (cStringOk (printEid b.primary.src) = true ∧ cStringOk (printEid b.primary.dst) = true) →
      step pinned s (.getMetadata h) = (s, .null)) := by
  constructor
  · rintro ⟨h1, h2⟩; simp [step, hl, h1, h2, addObj]
  · intro hn
    simp only [step, hl]
    by_cases h1 : cStringOk (printEid b.primary.src) = true <;> by_cases h2 : cStringOk (printEid b.primary.dst) = true <;>
      simp_all

/-- a source with a NUL byte: the query answers null (non-vacuity of the second clause) -/
example : (match (step false (addObj init (Obj.bundle
    { primary := { version := 7, flags := 0, crc := .no, dst := .dtn 1 [47, 47, 97, 47], src := .dtn 1 [47, 47, 97, 0, 98, 47],
                   rpt := .null 1 0, ts := 5, seq := 0, lifetime := 0, fragOff := 0, total := 0 },
      canon := [] }) 1).1 (.getMetadata 0)).2 with | .null => true | _ => false) = true := by decide +kernel

/-! ### the ledger invariant -/

structure Inv (s : Ledger) : Prop where
  idsBounded : ∀ p ∈ s.objs, p.1 < s.nextHandle ∧ ∀ i ∈ p.2.allocs, i < s.nextId
  distinct : s.objs.Pairwise (fun a b => a.1 ≠ b.1 ∧ ∀ i ∈ a.2.allocs, i ∉ b.2.allocs)
  ledger : ∀ i, i ∈ s.live ↔ ∃ p ∈ s.objs, i ∈ p.2.allocs

theorem inv_init : Inv init := ⟨by simp [init], by simp [init], by simp [init]⟩

theorem mem_fresh (s : Ledger) (n i : Nat) : i ∈ fresh s n ↔ s.nextId ≤ i ∧ i < s.nextId + n := by
  simp only [fresh, List.mem_map, List.mem_range]
  constructor
  · rintro ⟨a, ha, rfl⟩; omega
  · intro h; exact ⟨i - s.nextId, by omega, by omega⟩

theorem inv_addObj (s : Ledger) (mk : List Nat → Obj) (n : Nat) (hmk : ∀ ids, (mk ids).allocs = ids)
    (h : Inv s) : Inv (addObj s mk n).1 := by
  obtain ⟨hb, hd, hl⟩ := h
  refine ⟨?_, ?_, ?_⟩
  · intro p hp
    simp only [addObj, List.mem_append, List.mem_singleton] at hp ⊢
    rcases hp with hp | rfl
    · have := hb p hp
      exact ⟨by omega, fun i hi => by have := this.2 i hi; omega⟩
    · refine ⟨by omega, fun i hi => ?_⟩
      rw [hmk] at hi
      exact ((mem_fresh s n i).mp hi).2
  · simp only [addObj]
    rw [List.pairwise_append]
    refine ⟨hd, by simp, ?_⟩
    intro a ha b hb'
    simp only [List.mem_singleton] at hb'
    subst hb'
    have := hb a ha
    refine ⟨by simp; omega, fun i hi => ?_⟩
    simp only [hmk]
    intro hf
    have h1 := this.2 i hi
    have h2 := ((mem_fresh s n i).mp hf).1
    omega
  · intro i
    simp only [addObj, List.mem_append, List.mem_singleton]
    constructor
    · rintro (hi | hi)
      · obtain ⟨p, hp, hpi⟩ := (hl i).mp hi
        exact ⟨p, Or.inl hp, hpi⟩
      · exact ⟨_, Or.inr rfl, by simpa [hmk] using hi⟩
    · rintro ⟨p, hp | rfl, hpi⟩
      · exact Or.inl ((hl i).mpr ⟨p, hp, hpi⟩)
      · exact Or.inr (by simpa [hmk] using hpi)

theorem lookup_mem (h : Nat) (l : List (Nat × Obj)) (o : Obj) (hl : lookup h l = some o) : (h, o) ∈ l := by
  induction l with
  | nil => simp [lookup] at hl
  | cons p r ih =>
    obtain ⟨k, v⟩ := p
    simp only [lookup] at hl
    by_cases hk : k = h
    · simp [hk] at hl; subst hk; subst hl; simp
    · simp [hk] at hl; exact List.mem_cons_of_mem _ (ih hl)

theorem mem_remove (h : Nat) (l : List (Nat × Obj))
    (hd : l.Pairwise (fun a b => a.1 ≠ b.1 ∧ ∀ i ∈ a.2.allocs, i ∉ b.2.allocs)) (p : Nat × Obj) :
    p ∈ remove h l ↔ p ∈ l ∧ p.1 ≠ h := by
  induction l with
  | nil => simp [remove]
  | cons q r ih =>
    obtain ⟨k, v⟩ := q
    rw [List.pairwise_cons] at hd
    simp only [remove]
    by_cases hk : k = h
    · subst hk
      simp only [if_true, List.mem_cons]
      constructor
      · intro hp
        exact ⟨Or.inr hp, fun he => (hd.1 p hp).1 he.symm⟩
      · rintro ⟨rfl | hp, hne⟩
        · exact absurd rfl hne
        · exact hp
    · simp only [hk, if_false, List.mem_cons, ih hd.2]
      constructor
      · rintro (rfl | ⟨hp, hne⟩)
        · exact ⟨Or.inl rfl, hk⟩
        · exact ⟨Or.inr hp, hne⟩
      · rintro ⟨rfl | hp, hne⟩
        · exact Or.inl rfl
        · exact Or.inr ⟨hp, hne⟩

theorem eq_of_handle (l : List (Nat × Obj))
    (hd : l.Pairwise (fun a b => a.1 ≠ b.1 ∧ ∀ i ∈ a.2.allocs, i ∉ b.2.allocs))
    (p q : Nat × Obj) (hp : p ∈ l) (hq : q ∈ l) (he : p.1 = q.1) : p = q := by
  induction l with
  | nil => simp at hp
  | cons x r ih =>
    rw [List.pairwise_cons] at hd
    rcases List.mem_cons.mp hp with rfl | hp' <;> rcases List.mem_cons.mp hq with rfl | hq'
    · rfl
    · exact absurd he (hd.1 q hq').1
    · exact absurd he.symm (hd.1 p hp').1
    · exact ih hd.2 hp' hq'

theorem disjoint_of_ne (l : List (Nat × Obj))
    (hd : l.Pairwise (fun a b => a.1 ≠ b.1 ∧ ∀ i ∈ a.2.allocs, i ∉ b.2.allocs))
    (p q : Nat × Obj) (hp : p ∈ l) (hq : q ∈ l) (hne : p ≠ q) (i : Nat)
    (hi : i ∈ p.2.allocs) : i ∉ q.2.allocs := by
  induction l with
  | nil => simp at hp
  | cons x r ih =>
    rw [List.pairwise_cons] at hd
    rcases List.mem_cons.mp hp with rfl | hp' <;> rcases List.mem_cons.mp hq with rfl | hq'
    · exact absurd rfl hne
    · exact (hd.1 q hq').2 i hi
    · intro hq2; exact (hd.1 p hp').2 i hq2 hi
    · exact ih hd.2 hp' hq'

theorem remove_sublist (h : Nat) (l : List (Nat × Obj)) : (remove h l).Sublist l := by
  induction l with
  | nil => simp [remove]
  | cons q r ih =>
    obtain ⟨k, v⟩ := q
    simp only [remove]
    by_cases hk : k = h
    · simp [hk]
    · simp only [hk, if_false]; exact ih.cons_cons _

theorem inv_release (s : Ledger) (h : Nat) (o : Obj) (hl : lookup h s.objs = some o) (hi : Inv s) :
    Inv (release s h o.allocs) := by
  obtain ⟨hb, hd, hled⟩ := hi
  have hmem := lookup_mem h s.objs o hl
  refine ⟨?_, ?_, ?_⟩
  · intro p hp
    exact hb p (((mem_remove h s.objs hd p).mp hp).1)
  · exact hd.sublist (remove_sublist h s.objs)
  · intro i
    simp only [release, List.mem_filter, Bool.not_eq_true', List.contains_eq_mem, decide_eq_false_iff_not]
    constructor
    · rintro ⟨hi1, hi2⟩
      obtain ⟨p, hp, hpi⟩ := (hled i).mp hi1
      refine ⟨p, (mem_remove h s.objs hd p).mpr ⟨hp, ?_⟩, hpi⟩
      intro he
      have : p = (h, o) := eq_of_handle s.objs hd p (h, o) hp hmem he
      subst this
      exact hi2 hpi
    · rintro ⟨p, hp, hpi⟩
      obtain ⟨hp1, hne⟩ := (mem_remove h s.objs hd p).mp hp
      refine ⟨(hled i).mpr ⟨p, hp1, hpi⟩, ?_⟩
      have hne' : p ≠ (h, o) := fun he => hne (by rw [he])
      exact disjoint_of_ne s.objs hd p (h, o) hp1 hmem hne' i hpi

/-- updating the bundle value behind a handle keeps the ledger -/
theorem inv_setBundle (s : Ledger) (h : Nat) (b' : Bundle) (a : List Nat) (b : Bundle)
    (hl : lookup h s.objs = some (.bundle b a)) (hi : Inv s) :
    Inv { s with objs := s.objs.map (fun (k, o) => if k = h then (k, Obj.bundle b' a) else (k, o)) } := by
  obtain ⟨hb, hd, hled⟩ := hi
  have hmem := lookup_mem h s.objs _ hl
  -- the map changes at most the entry (h, bundle b a), and keeps its handle and allocations
  have key : ∀ p ∈ s.objs, ((fun (x : Nat × Obj) => if x.1 = h then (x.1, Obj.bundle b' a) else (x.1, x.2)) p).1 = p.1 ∧
      ((fun (x : Nat × Obj) => if x.1 = h then (x.1, Obj.bundle b' a) else (x.1, x.2)) p).2.allocs = p.2.allocs := by
    intro p hp
    by_cases hk : p.1 = h
    · have : p = (h, Obj.bundle b a) := eq_of_handle s.objs hd p _ hp hmem hk
      subst this
      simp [Obj.allocs]
    · simp [hk]
  refine ⟨?_, ?_, ?_⟩
  · intro p hp
    simp only [List.mem_map] at hp
    obtain ⟨q, hq, rfl⟩ := hp
    have := key q hq
    simp only at this ⊢
    rw [this.1, this.2]
    exact hb q hq
  · simp only
    rw [List.pairwise_map]
    refine hd.imp_of_mem ?_
    intro x y hx hy hxy
    have kx := key x hx
    have ky := key y hy
    simp only at kx ky ⊢
    rw [kx.1, kx.2, ky.1, ky.2]
    exact hxy
  · intro i
    simp only [List.mem_map]
    rw [hled i]
    constructor
    · rintro ⟨p, hp, hpi⟩
      refine ⟨_, ⟨p, hp, rfl⟩, ?_⟩
      have := key p hp
      simp only at this ⊢
      rw [this.2]; exact hpi
    · rintro ⟨_, ⟨p, hp, rfl⟩, hpi⟩
      have := key p hp
      simp only at this hpi
      rw [this.2] at hpi
      exact ⟨p, hp, hpi⟩

theorem inv_step (s : Ledger) (c : Call) (hi : Inv s) : Inv (step false s c).1 := by
  cases c with
  | bufferTest => exact inv_addObj s _ _ (fun _ => rfl) hi
  | rndBundle bytes => exact inv_addObj s _ _ (fun _ => rfl) hi
  | working => exact hi
  | fromCbor bytes =>
    simp only [step]
    cases hd : decodeBundle bytes with
    | ok b =>
      by_cases hv : b.isValid = true
      · simp only [hv, if_true]; exact inv_addObj s _ _ (fun _ => rfl) hi
      · simp only [hv, Bool.false_eq_true, if_false]; exact hi
    | err e => exact hi
    | panic p => exact hi
  | newBundle b => exact inv_addObj s _ _ (fun _ => rfl) hi
  | toCbor h =>
    simp only [step]
    cases hl : lookup h s.objs with
    | none => exact hi
    | some o =>
      cases o with
      | bundle b a =>
        simp only [newBuffer]
        exact inv_addObj _ _ _ (fun _ => rfl) (inv_setBundle s h _ a b hl hi)
      | buffer c a => exact hi
      | mdata a => exact hi
  | getMetadata h =>
    simp only [step]
    cases hl : lookup h s.objs with
    | none => exact hi
    | some o =>
      cases o with
      | bundle b a =>
        simp only
        split
        · exact inv_addObj s _ _ (fun _ => rfl) hi
        · exact hi
      | buffer c a => exact hi
      | mdata a => exact hi
  | payload h =>
    simp only [step]
    cases hl : lookup h s.objs with
    | none => exact hi
    | some o =>
      cases o with
      | bundle b a =>
        simp only
        cases b.payload with
        | none => exact inv_addObj s _ _ (fun _ => rfl) hi
        | some p => exact inv_addObj s _ _ (fun _ => rfl) hi
      | buffer c a => exact hi
      | mdata a => exact hi
  | isValid h =>
    simp only [step]
    cases hl : lookup h s.objs with
    | none => exact hi
    | some o => cases o <;> exact hi
  | bufferFree h =>
    simp only [step]
    cases hl : lookup h s.objs with
    | none => exact hi
    | some o =>
      cases o with
      | buffer c a => exact inv_release s h _ hl hi
      | bundle b a => exact hi
      | mdata a => exact hi
  | bundleFree h =>
    simp only [step]
    cases hl : lookup h s.objs with
    | none => exact hi
    | some o =>
      cases o with
      | bundle b a => exact inv_release s h _ hl hi
      | buffer c a => exact hi
      | mdata a => exact hi
  | metadataFree h =>
    simp only [step]
    cases hl : lookup h s.objs with
    | none => exact hi
    | some o =>
      cases o with
      | mdata a => exact inv_release s h _ hl hi
      | bundle b a => exact hi
      | buffer c a => exact hi
  | payloadNull => exact inv_addObj s _ _ (fun _ => rfl) hi
  | bufferFreeNull => exact hi
  | bundleFreeNull => exact hi

theorem inv_run (cs : List Call) (s : Ledger) (hi : Inv s) : Inv (run false cs s).1 := by
  induction cs generalizing s with
  | nil => exact hi
  | cons c cs ih => simp only [run]; exact ih _ (inv_step s c hi)

/-- **C14 (ledger).** After ANY sequence of FFI calls starting from a fresh process state, once
    every handle that was handed out has been released with its documented free function (no
    object left in the table), no allocation made by the library remains live. -/
theorem ffi_ledger_balanced (cs : List Call) (h : (run false cs init).1.objs = []) :
    (run false cs init).1.live = [] := by
  have hi := inv_run cs init inv_init
  apply List.eq_nil_iff_forall_not_mem.mpr
  intro i hmem
  obtain ⟨p, hp, _⟩ := (hi.ledger i).mp hmem
  rw [h] at hp
  simp at hp

/-! ### the pinned frees leak (F9 witness), and a full protocol on the fixed code does not -/

def sampleBundle : Bundle :=
  { primary := { version := 7, flags := 0, crc := .no, dst := .dtn 1 [47, 47, 97, 47], src := .null 1 0,
                 rpt := .null 1 0, ts := 5, seq := 0, lifetime := 0, fragOff := 0, total := 0 },
    canon := [ { btype := 1, num := 1, flags := 0, crc := .no, data := .data [0x41] } ] }

def protocol : List Call :=
  [.bufferTest, .newBundle sampleBundle, .toCbor 1, .getMetadata 1, .payload 1, .isValid 1,
   .bufferFree 0, .bufferFree 2, .metadataFree 3, .bufferFree 4, .bundleFree 1]

example : (run false protocol init).1.objs.length = 0 ∧ (run false protocol init).1.live = [] := by
  decide +kernel
/-- the null-pointer corner of the protocol: `bundle_payload(NULL)` hands out a Buffer with null data
    that `buffer_free` releases completely; freeing NULL is a no-op -/
theorem null_payload_balanced :
    (run false [.payloadNull, .bufferFreeNull, .bundleFreeNull, .bufferFree 0] init).1.live = [] := by decide

/-- on the pinned tree the same protocol leaves 4 allocations live (3 buffer data, 1 metadata struct) -/
theorem pinned_leaks : (run true protocol init).1.objs.length = 0 ∧ (run true protocol init).1.live.length = 4 := by
  decide +kernel

end Bp7.C14
