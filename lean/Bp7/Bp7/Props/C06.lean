/-
  C06 — no input from the network can panic the receive path (PARTIAL: stack and heap
  exhaustion are runtime facts; the model bounds the recursion depth by serde_cbor's counter and
  has no unbounded allocation site, but cannot exhibit an overflow).

  `decode_no_panic`: for EVERY byte string the model of `Bundle::try_from(&[u8])` returns a
  bundle or an error. The only panic site inside the decoder model is serde_cbor's
  `remaining_depth -= 1` on a `u8` that could be 0 (the counter is not restored on the
  "recursion limit exceeded" early return, and `EndpointID`'s visitor swallows that error and
  carries on). The proof shows that every reader is entered with a counter ≥ 1.
-/
import Bp7.Model.Codec
import Bp7.Model.Admin
namespace Bp7.C06
open Bp7

/-- no panic when entered with a positive depth counter -/
def Safe {α} (f : P α) : Prop := ∀ s : St, 1 ≤ s.depth → (f s).1.isPanic = false

/-- `Safe`, and on success the counter is positive again (the next reader may run) -/
def Good {α} (f : P α) : Prop :=
  ∀ s : St, 1 ≤ s.depth → (f s).1.isPanic = false ∧ ((f s).1.isOk = true → 1 ≤ (f s).2.depth)

theorem Good.safe {α} {f : P α} (h : Good f) : Safe f := fun s hs => (h s hs).1

theorem good_pure {α} (a : α) : Good (P.pure a : P α) := fun s hs => ⟨rfl, fun _ => hs⟩
theorem good_fail {α} (e : Err) : Good (P.fail e : P α) := fun s _ => ⟨rfl, fun h => by simp [P.fail, Res.isOk] at h⟩

/-- a reader that does not touch the depth counter and never panics -/
theorem good_of_depth_eq {α} (f : P α) (h1 : ∀ s, (f s).1.isPanic = false) (h2 : ∀ s, (f s).2.depth = s.depth) : Good f :=
  fun s hs => ⟨h1 s, fun _ => by rw [h2]; exact hs⟩

theorem takeN_depth (n : Nat) (s : St) : (takeN n s).1.isPanic = false ∧ (takeN n s).2.depth = s.depth := by
  unfold takeN; split <;> simp [Res.isPanic]

theorem readArg_depth (ai : Nat) (s : St) : (readArg ai s).1.isPanic = false ∧ (readArg ai s).2.depth = s.depth := by
  unfold readArg
  split
  · simp [Res.isPanic]
  · have := takeN_depth (if ai = 24 then 1 else if ai = 25 then 2 else if ai = 26 then 4 else 8) s
    rcases h : takeN (if ai = 24 then 1 else if ai = 25 then 2 else if ai = 26 then 4 else 8) s with ⟨r, s'⟩
    rw [h] at this
    cases r <;> simp_all [Res.isPanic]

theorem readHead_depth (s : St) : (readHead s).1.isPanic = false ∧ (readHead s).2.depth = s.depth := by
  unfold readHead
  cases hi : s.inp with
  | nil => simp [Res.isPanic]
  | cons b rest =>
    simp only
    have key := readArg_depth (b.toNat % 32) { s with inp := rest }
    rcases h : readArg (b.toNat % 32) { s with inp := rest } with ⟨r, s'⟩
    rw [h] at key
    cases r <;> (repeat' split) <;> simp_all [Res.isPanic]

/-! ### generic composition lemmas -/

theorem good_bind {α β} (m : P α) (f : α → P β) (hm : Good m) (hf : ∀ a, Good (f a)) :
    Good (fun s => match m s with
      | (.ok a, s') => f a s'
      | (.err e, s') => (.err e, s')
      | (.panic p, s') => (.panic p, s')) := by
  intro s hs
  have h := hm s hs
  rcases hms : m s with ⟨r, s'⟩
  rw [hms] at h
  dsimp only
  rw [hms]
  cases r with
  | ok a => exact hf a s' (h.2 rfl)
  | err e => simp [Res.isPanic, Res.isOk]
  | panic p => simp [Res.isPanic] at h

theorem safe_bind {α β} (m : P α) (f : α → P β) (hm : Good m) (hf : ∀ a, Safe (f a)) :
    Safe (fun s => match m s with
      | (.ok a, s') => f a s'
      | (.err e, s') => (.err e, s')
      | (.panic p, s') => (.panic p, s')) := by
  intro s hs
  have h := hm s hs
  rcases hms : m s with ⟨r, s'⟩
  rw [hms] at h
  dsimp only
  rw [hms]
  cases r with
  | ok a => exact hf a s' (h.2 rfl)
  | err e => simp [Res.isPanic]
  | panic p => simp [Res.isPanic] at h

theorem good_bind' {α β} (m : P α) (f : α → P β) (hm : Good m) (hf : ∀ a, Good (f a)) : Good (m >>= f) :=
  good_bind m f hm hf
theorem safe_bind' {α β} (m : P α) (f : α → P β) (hm : Good m) (hf : ∀ a, Safe (f a)) : Safe (m >>= f) :=
  safe_bind m f hm hf

/-- post-processing the value of a successful read -/
theorem good_map {α β} (m : P α) (g : α → Res β) (hg : ∀ a, (g a).isPanic = false) (hm : Good m) :
    Good (fun s => match m s with
      | (.ok a, s') => (g a, s')
      | (.err e, s') => (.err e, s')
      | (.panic p, s') => (.panic p, s')) :=
  good_bind m (fun a s' => (g a, s')) hm (fun a s hs => ⟨hg a, fun _ => hs⟩)

/-- `recursion_checked`: safe whenever the body is safe; the counter is positive afterwards -/
theorem good_recursionChecked {α} (f : P α) (hf : Safe f) : Good (recursionChecked f) := by
  intro s hs
  unfold recursionChecked
  have h0 : ¬ s.depth = 0 := by omega
  simp only [h0, if_false]
  by_cases h1 : s.depth - 1 = 0
  · simp [h1, Res.isPanic, Res.isOk]
  · simp only [h1, if_false]
    have := hf { s with depth := s.depth - 1 } (by simp; omega)
    exact ⟨this, fun _ => by simp⟩

/-! ### the primitive readers -/

theorem good_takeN (n : Nat) : Good (takeN n) :=
  good_of_depth_eq _ (fun s => (takeN_depth n s).1) (fun s => (takeN_depth n s).2)

theorem readChunks_depth (major : Nat) : ∀ (fuel : Nat) (acc : Bytes) (s : St),
    (readChunks major fuel acc s).1.isPanic = false ∧ (readChunks major fuel acc s).2.depth = s.depth
  | 0, _, s => by simp [readChunks, P.fail, Res.isPanic]
  | fuel+1, acc, s => by
    unfold readChunks
    cases hi : s.inp with
    | nil => simp [Res.isPanic]
    | cons b rest =>
      dsimp only
      by_cases h255 : b.toNat = 255
      · simp [h255, Res.isPanic]
      · simp only [h255, if_false]
        by_cases hm : b.toNat / 32 = major ∧ b.toNat % 32 < 28
        · simp only [hm, and_self, if_true]
          have ha := readArg_depth (b.toNat % 32) { s with inp := rest }
          rcases h1 : readArg (b.toNat % 32) { s with inp := rest } with ⟨r, s2⟩
          rw [h1] at ha
          cases r with
          | ok len =>
            dsimp only
            have ht := takeN_depth len s2
            rcases h2 : takeN len s2 with ⟨r2, s3⟩
            rw [h2] at ht
            cases r2 with
            | ok chunk =>
              dsimp only
              have := readChunks_depth major fuel (acc ++ chunk) s3
              simp_all
            | err e => simp_all [Res.isPanic]
            | panic p => simp_all [Res.isPanic]
          | err e => simp_all [Res.isPanic]
          | panic p => simp_all [Res.isPanic]
        · simp [hm, Res.isPanic]

theorem good_readChunks (major fuel : Nat) (acc : Bytes) : Good (readChunks major fuel acc) :=
  good_of_depth_eq _ (fun s => (readChunks_depth major fuel acc s).1) (fun s => (readChunks_depth major fuel acc s).2)

theorem good_reject {α} (h : Head) : Good (reject h : P α) := by
  cases h with
  | bytes len =>
    apply good_of_depth_eq
    · intro s; unfold reject; have := takeN_depth len s
      rcases h1 : takeN len s with ⟨r, s'⟩; rw [h1] at this; cases r <;> simp_all [Res.isPanic]
    · intro s; unfold reject; have := takeN_depth len s
      rcases h1 : takeN len s with ⟨r, s'⟩; rw [h1] at this; cases r <;> simp_all [Res.isPanic]
  | text len =>
    apply good_of_depth_eq
    · intro s; unfold reject; have := takeN_depth len s
      rcases h1 : takeN len s with ⟨r, s'⟩; rw [h1] at this
      cases r <;> simp_all [Res.isPanic] <;> split <;> first | rfl | (rename_i heq; split at heq <;> cases heq)
    · intro s; unfold reject; have := takeN_depth len s
      rcases h1 : takeN len s with ⟨r, s'⟩; rw [h1] at this; cases r <;> simp_all [Res.isPanic]
  | bytesI =>
    apply good_of_depth_eq
    · intro s; unfold reject; have := readChunks_depth 2 (s.inp.length + 1) [] s
      rcases h1 : readChunks 2 (s.inp.length + 1) [] s with ⟨r, s'⟩; rw [h1] at this; cases r <;> simp_all [Res.isPanic]
    · intro s; unfold reject; have := readChunks_depth 2 (s.inp.length + 1) [] s
      rcases h1 : readChunks 2 (s.inp.length + 1) [] s with ⟨r, s'⟩; rw [h1] at this; cases r <;> simp_all [Res.isPanic]
  | textI =>
    apply good_of_depth_eq
    · intro s; unfold reject; have := readChunks_depth 3 (s.inp.length + 1) [] s
      rcases h1 : readChunks 3 (s.inp.length + 1) [] s with ⟨r, s'⟩; rw [h1] at this
      cases r <;> simp_all [Res.isPanic] <;> split <;> first | rfl | (rename_i heq; split at heq <;> cases heq)
    · intro s; unfold reject; have := readChunks_depth 3 (s.inp.length + 1) [] s
      rcases h1 : readChunks 3 (s.inp.length + 1) [] s with ⟨r, s'⟩; rw [h1] at this; cases r <;> simp_all [Res.isPanic]
  | array n => exact good_recursionChecked _ (good_fail .type).safe
  | arrayI => exact good_recursionChecked _ (good_fail .type).safe
  | map n => exact good_recursionChecked _ (good_fail .type).safe
  | mapI => exact good_recursionChecked _ (good_fail .type).safe
  | uint n => exact fun s hs => ⟨rfl, fun h => by simp [reject, Res.isOk] at h⟩
  | nint n => exact fun s hs => ⟨rfl, fun h => by simp [reject, Res.isOk] at h⟩
  | tag n => exact fun s hs => ⟨rfl, fun h => by simp [reject, Res.isOk] at h⟩
  | bool b => exact fun s hs => ⟨rfl, fun h => by simp [reject, Res.isOk] at h⟩
  | unit => exact fun s hs => ⟨rfl, fun h => by simp [reject, Res.isOk] at h⟩
  | float => exact fun s hs => ⟨rfl, fun h => by simp [reject, Res.isOk] at h⟩

theorem good_parseWith {α} (k : Head → P α) (hk : ∀ h, Good (k h)) : ∀ fuel, Good (parseWith k fuel)
  | 0 => good_fail .other
  | fuel+1 => by
    intro s hs
    unfold parseWith
    have hh := readHead_depth s
    rcases h1 : readHead s with ⟨r, s1⟩
    rw [h1] at hh
    have hd : 1 ≤ s1.depth := by simp at hh; omega
    cases r with
    | ok h =>
      cases h with
      | tag n => exact good_recursionChecked _ (good_parseWith k hk fuel).safe s1 hd
      | uint n => exact hk _ s1 hd
      | nint n => exact hk _ s1 hd
      | bytes n => exact hk _ s1 hd
      | bytesI => exact hk _ s1 hd
      | text n => exact hk _ s1 hd
      | textI => exact hk _ s1 hd
      | array n => exact hk _ s1 hd
      | arrayI => exact hk _ s1 hd
      | map n => exact hk _ s1 hd
      | mapI => exact hk _ s1 hd
      | bool b => exact hk _ s1 hd
      | unit => exact hk _ s1 hd
      | float => exact hk _ s1 hd
    | err e => simp [Res.isPanic, Res.isOk]
    | panic p => simp [Res.isPanic] at hh

/-! ### typed readers -/

theorem good_kUint (bound : Nat) (h : Head) : Good (kUint bound h) := by
  cases h with
  | uint n =>
    by_cases hb : n < bound
    · simp only [kUint, hb, if_true]; exact good_pure _
    · simp only [kUint, hb, if_false]; exact good_fail _
  | nint n => exact good_reject _
  | bytes n => exact good_reject _
  | bytesI => exact good_reject _
  | text n => exact good_reject _
  | textI => exact good_reject _
  | array n => exact good_reject _
  | arrayI => exact good_reject _
  | map n => exact good_reject _
  | mapI => exact good_reject _
  | tag n => exact good_reject _
  | bool b => exact good_reject _
  | unit => exact good_reject _
  | float => exact good_reject _

theorem good_readU64 : Good readU64 := good_parseWith _ (good_kUint _) _
theorem good_readU32 : Good readU32 := good_parseWith _ (good_kUint _) _
theorem good_readU8 : Good readU8 := good_parseWith _ (good_kUint _) _

theorem good_kBool (h : Head) : Good (kBool h) := by
  cases h <;> first | exact good_pure _ | exact good_reject _
theorem good_readBool : Good readBool := good_parseWith _ good_kBool _

/-- post-processing of a successful `takeN` / `readChunks` by a panic-free function -/
theorem good_post {α β} (m : P α) (hm : Good m) (g : α → Res β) (hg : ∀ a, (g a).isPanic = false) :
    Good (fun s => match m s with
      | (.ok b, s') => (g b, s')
      | (.err e, s') => (.err e, s')
      | (.panic p, s') => (.panic p, s')) := good_map m g hg hm

theorem utf8_res_nopanic (b : Bytes) (e : Err) : (if validUtf8 b = true then Res.ok b else Res.err e).isPanic = false := by
  split <;> rfl

theorem good_kString (h : Head) : Good (kString h) := by
  cases h with
  | text len =>
    intro s hs
    simp only [kString]
    have h := good_takeN len s hs
    rcases h1 : takeN len s with ⟨r, s'⟩
    rw [h1] at h
    cases r with
    | ok b => dsimp only; split <;> simp_all [Res.isPanic, Res.isOk]
    | err e => simp [Res.isPanic, Res.isOk]
    | panic p => simp [Res.isPanic] at h
  | bytes len =>
    intro s hs
    simp only [kString]
    have h := good_takeN len s hs
    rcases h1 : takeN len s with ⟨r, s'⟩
    rw [h1] at h
    cases r with
    | ok b => dsimp only; split <;> simp_all [Res.isPanic, Res.isOk]
    | err e => simp [Res.isPanic, Res.isOk]
    | panic p => simp [Res.isPanic] at h
  | textI =>
    intro s hs
    simp only [kString]
    have h := good_readChunks 3 (s.inp.length + 1) [] s hs
    rcases h1 : readChunks 3 (s.inp.length + 1) [] s with ⟨r, s'⟩
    rw [h1] at h
    cases r with
    | ok b => dsimp only; split <;> simp_all [Res.isPanic, Res.isOk]
    | err e => simp [Res.isPanic, Res.isOk]
    | panic p => simp [Res.isPanic] at h
  | bytesI =>
    intro s hs
    simp only [kString]
    have h := good_readChunks 2 (s.inp.length + 1) [] s hs
    rcases h1 : readChunks 2 (s.inp.length + 1) [] s with ⟨r, s'⟩
    rw [h1] at h
    cases r with
    | ok b => dsimp only; split <;> simp_all [Res.isPanic, Res.isOk]
    | err e => simp [Res.isPanic, Res.isOk]
    | panic p => simp [Res.isPanic] at h
  | uint n => exact good_reject _
  | nint n => exact good_reject _
  | array n => exact good_reject _
  | arrayI => exact good_reject _
  | map n => exact good_reject _
  | mapI => exact good_reject _
  | tag n => exact good_reject _
  | bool b => exact good_reject _
  | unit => exact good_reject _
  | float => exact good_reject _
theorem good_readString : Good readString := good_parseWith _ good_kString _

/-! ### sequences -/

theorem good_nextElem {α} (rd : P α) (hrd : Good rd) (acc : Acc) : Good (nextElem rd acc) := by
  intro s hs
  unfold nextElem
  cases acc with
  | none =>
    dsimp only
    cases hi : s.inp with
    | nil => simp [Res.isPanic, Res.isOk]
    | cons b rest =>
      dsimp only
      by_cases h255 : b.toNat = 255
      · simp only [h255, if_true]; exact ⟨rfl, fun _ => hs⟩
      · simp only [h255, if_false]
        have h := hrd s hs
        rcases h1 : rd s with ⟨r, s'⟩
        rw [h1] at h
        cases r <;> simp_all [Res.isPanic, Res.isOk]
  | some n =>
    cases n with
    | zero => exact ⟨rfl, fun _ => hs⟩
    | succ n =>
      dsimp only
      have h := hrd s hs
      rcases h1 : rd s with ⟨r, s'⟩
      rw [h1] at h
      cases r <;> simp_all [Res.isPanic, Res.isOk]

theorem good_reqElem {α} (rd : P α) (hrd : Good rd) (acc : Acc) : Good (reqElem rd acc) := by
  intro s hs
  unfold reqElem
  have h := good_nextElem rd hrd acc s hs
  rcases h1 : nextElem rd acc s with ⟨r, s'⟩
  rw [h1] at h
  cases r with
  | ok v =>
    obtain ⟨o, acc'⟩ := v
    cases o <;> simp_all [Res.isPanic, Res.isOk]
  | err e => simp [Res.isPanic, Res.isOk]
  | panic p => simp [Res.isPanic] at h

theorem seqEnd_nopanic (acc : Acc) (s : St) : (seqEnd acc s).1.isPanic = false := by
  unfold seqEnd
  cases acc with
  | none =>
    cases hi : s.inp with
    | nil => rfl
    | cons b rest => dsimp only; split <;> rfl
  | some n => cases n <;> rfl

/-- a visitor-only reader: safe visitor ⇒ good reader -/
theorem good_kSeq {α} (visit : Acc → P (α × Acc)) (hv : ∀ acc, Safe (visit acc)) (h : Head) : Good (kSeq visit h) := by
  have body : ∀ acc0, Safe (fun s =>
      match visit acc0 s with
      | (.ok (a, acc), s') =>
        (match seqEnd acc s' with
         | (.ok _, s'') => (.ok a, s'')
         | (.err e, s'') => (.err e, s'')
         | (.panic p, s'') => (.panic p, s''))
      | (.err e, s') => (.err e, s')
      | (.panic p, s') => (.panic p, s')) := by
    intro acc0 s hs
    have h := hv acc0 s hs
    dsimp only
    rcases h1 : visit acc0 s with ⟨r, s'⟩
    rw [h1] at h
    cases r with
    | ok v =>
      obtain ⟨a, acc⟩ := v
      dsimp only
      have := seqEnd_nopanic acc s'
      rcases h2 : seqEnd acc s' with ⟨r2, s''⟩
      rw [h2] at this
      cases r2 <;> simp_all [Res.isPanic]
    | err e => rfl
    | panic p => simp [Res.isPanic] at h
  cases h with
  | array len => exact good_recursionChecked _ (body (some len))
  | arrayI => exact good_recursionChecked _ (body none)
  | uint n => exact good_reject _
  | nint n => exact good_reject _
  | bytes n => exact good_reject _
  | bytesI => exact good_reject _
  | text n => exact good_reject _
  | textI => exact good_reject _
  | map n => exact good_reject _
  | mapI => exact good_reject _
  | tag n => exact good_reject _
  | bool b => exact good_reject _
  | unit => exact good_reject _
  | float => exact good_reject _

theorem good_readSeq {α} (visit : Acc → P (α × Acc)) (hv : ∀ acc, Safe (visit acc)) : Good (readSeq visit) :=
  good_parseWith _ (good_kSeq visit hv) _

theorem good_collectElems {α} (rd : P α) (hrd : Good rd) : ∀ fuel (out : List α) (acc : Acc), Good (collectElems rd fuel out acc)
  | 0, _, _ => good_fail .other
  | fuel+1, out, acc => by
    intro s hs
    unfold collectElems
    have h := good_nextElem rd hrd acc s hs
    rcases h1 : nextElem rd acc s with ⟨r, s'⟩
    rw [h1] at h
    cases r with
    | ok v =>
      obtain ⟨o, acc'⟩ := v
      cases o with
      | some a => exact good_collectElems rd hrd fuel (out ++ [a]) acc' s' (h.2 rfl)
      | none => exact ⟨rfl, fun _ => h.2 rfl⟩
    | err e => simp [Res.isPanic, Res.isOk]
    | panic p => simp [Res.isPanic] at h

/-! ### byte buffers, nested decoding -/

theorem safe_u8seq (acc : Acc) : Safe (fun s =>
      match collectElems readU8 (s.inp.length + 1) [] acc s with
      | (.ok (ns, acc'), s') => (.ok (ns.map UInt8.ofNat, acc'), s')
      | (.err e, s') => (.err e, s')
      | (.panic p, s') => (.panic p, s') : P (Bytes × Acc)) := by
  intro s hs
  have h := good_collectElems readU8 good_readU8 (s.inp.length + 1) [] acc s hs
  dsimp only
  rcases h1 : collectElems readU8 (s.inp.length + 1) [] acc s with ⟨r, s'⟩
  rw [h1] at h
  cases r with
  | ok v => rfl
  | err e => rfl
  | panic p => simp [Res.isPanic] at h

theorem good_kByteBuf (h : Head) : Good (kByteBuf h) := by
  cases h with
  | bytes len => exact good_takeN len
  | bytesI => intro s hs; exact good_readChunks 2 _ [] s hs
  | text len =>
    intro s hs
    simp only [kByteBuf]
    have h := good_takeN len s hs
    rcases h1 : takeN len s with ⟨r, s'⟩
    rw [h1] at h
    cases r with
    | ok b => dsimp only; split <;> simp_all [Res.isPanic, Res.isOk]
    | err e => simp [Res.isPanic, Res.isOk]
    | panic p => simp [Res.isPanic] at h
  | textI =>
    intro s hs
    simp only [kByteBuf]
    have h := good_readChunks 3 (s.inp.length + 1) [] s hs
    rcases h1 : readChunks 3 (s.inp.length + 1) [] s with ⟨r, s'⟩
    rw [h1] at h
    cases r with
    | ok b => dsimp only; split <;> simp_all [Res.isPanic, Res.isOk]
    | err e => simp [Res.isPanic, Res.isOk]
    | panic p => simp [Res.isPanic] at h
  | array len => exact good_kSeq _ safe_u8seq (.array len)
  | arrayI => exact good_kSeq _ safe_u8seq .arrayI
  | uint n => exact good_reject _
  | nint n => exact good_reject _
  | map n => exact good_reject _
  | mapI => exact good_reject _
  | tag n => exact good_reject _
  | bool b => exact good_reject _
  | unit => exact good_reject _
  | float => exact good_reject _

theorem good_readByteBuf : Good readByteBuf := good_parseWith _ good_kByteBuf _

theorem fromSlice_nopanic {α} (rd : P α) (hrd : Good rd) (b : Bytes) : (fromSlice rd b).isPanic = false := by
  unfold fromSlice
  have h := hrd { inp := b, depth := 128 } (by show 1 ≤ 128; decide)
  rcases h1 : rd { inp := b, depth := 128 } with ⟨r, s⟩
  rw [h1] at h
  cases r with
  | ok a => dsimp only; split <;> rfl
  | err e => rfl
  | panic p => simp [Res.isPanic] at h

/-! ### the crate's visitors -/

theorem good_pair (rd : P Nat) (hrd : Good rd) (acc : Acc) : Good (fun s =>
      match reqElem rd acc s with
      | (.ok (a, acc1), s1) =>
        (match reqElem rd acc1 s1 with
         | (.ok (b, acc2), s2) => (.ok ((a, b), acc2), s2)
         | (.err e, s2) => (.err e, s2)
         | (.panic p, s2) => (.panic p, s2))
      | (.err e, s1) => (.err e, s1)
      | (.panic p, s1) => (.panic p, s1) : P ((Nat × Nat) × Acc)) := by
  intro s hs
  have h := good_reqElem rd hrd acc s hs
  dsimp only
  rcases h1 : reqElem rd acc s with ⟨r, s1⟩
  rw [h1] at h
  cases r with
  | ok v =>
    obtain ⟨a, acc1⟩ := v
    dsimp only
    have h2 := good_reqElem rd hrd acc1 s1 (h.2 rfl)
    rcases h3 : reqElem rd acc1 s1 with ⟨r2, s2⟩
    rw [h3] at h2
    cases r2 with
    | ok w => obtain ⟨b, acc2⟩ := w; exact ⟨rfl, fun _ => h2.2 rfl⟩
    | err e => simp [Res.isPanic, Res.isOk]
    | panic p => simp [Res.isPanic] at h2
  | err e => simp [Res.isPanic, Res.isOk]
  | panic p => simp [Res.isPanic] at h

theorem good_visitPairU64 (acc : Acc) : Good (visitPairU64 acc) := good_pair readU64 good_readU64 acc
theorem good_readPairU64 : Good readPairU64 := good_readSeq _ (fun acc => (good_visitPairU64 acc).safe)

theorem good_visitPairU8 (acc : Acc) : Good (visitPairU8 acc) := by
  unfold visitPairU8
  apply good_bind' _ _ (good_reqElem readU8 good_readU8 acc)
  rintro ⟨a, acc1⟩
  apply good_bind' _ _ (good_reqElem readU8 good_readU8 acc1)
  rintro ⟨b, acc2⟩
  exact good_pure _

/-- `EndpointIDVisitor::visit_seq`: after the swallowed error no further read happens -/
theorem safe_visitEid (acc : Acc) : Safe (visitEid acc) := by
  intro s hs
  unfold visitEid
  have h := good_reqElem readU8 good_readU8 acc s hs
  rcases h1 : reqElem readU8 acc s with ⟨r, s1⟩
  rw [h1] at h
  cases r with
  | ok v =>
    obtain ⟨code, acc1⟩ := v
    dsimp only
    have hd := h.2 rfl
    by_cases hc1 : code = 1
    · simp only [hc1, if_true]
      have h2 := good_nextElem readString good_readString acc1 s1 hd
      rcases h3 : nextElem readString acc1 s1 with ⟨r2, s2⟩
      rw [h3] at h2
      cases r2 with
      | ok w =>
        obtain ⟨o, acc2⟩ := w
        cases o <;> rfl
      | err e => rfl
      | panic p => simp [Res.isPanic] at h2
    · simp only [hc1, if_false]
      by_cases hc2 : code = 2
      · simp only [hc2, if_true]
        have h2 := good_reqElem readPairU64 good_readPairU64 acc1 s1 hd
        rcases h3 : reqElem readPairU64 acc1 s1 with ⟨r2, s2⟩
        rw [h3] at h2
        cases r2 with
        | ok w =>
          obtain ⟨⟨node, svc⟩, acc2⟩ := w
          dsimp only
          by_cases hn : node ≥ 1 <;> simp [withIpn, hn, Res.isPanic]
        | err e => rfl
        | panic p => simp [Res.isPanic] at h2
      · simp [hc2, Res.isPanic]
  | err e => rfl
  | panic p => simp [Res.isPanic] at h

theorem good_readEid : Good readEid := good_readSeq _ safe_visitEid

theorem good_visitCrc (code : Nat) (acc : Acc) : Good (visitCrc code acc) := by
  intro s hs
  unfold visitCrc
  by_cases h0 : code = 0
  · simp only [h0, if_true]; exact ⟨rfl, fun _ => hs⟩
  · simp only [h0, if_false]
    by_cases h1 : code = 1
    · simp only [h1, if_true]
      have h := good_reqElem readByteBuf good_readByteBuf acc s hs
      rcases h3 : reqElem readByteBuf acc s with ⟨r, s'⟩
      rw [h3] at h
      cases r with
      | ok w =>
        obtain ⟨b, acc'⟩ := w
        dsimp only
        split <;> simp_all [Res.isPanic, Res.isOk]
      | err e => simp [Res.isPanic, Res.isOk]
      | panic p => simp [Res.isPanic] at h
    · simp only [h1, if_false]
      by_cases h2 : code = 2
      · simp only [h2, if_true]
        have h := good_reqElem readByteBuf good_readByteBuf acc s hs
        rcases h3 : reqElem readByteBuf acc s with ⟨r, s'⟩
        rw [h3] at h
        cases r with
        | ok w =>
          obtain ⟨b, acc'⟩ := w
          dsimp only
          split <;> simp_all [Res.isPanic, Res.isOk]
        | err e => simp [Res.isPanic, Res.isOk]
        | panic p => simp [Res.isPanic] at h
      · simp only [h2, if_false]; exact ⟨rfl, fun _ => hs⟩

theorem good_ite {α} (c : Prop) [Decidable c] (a b : P α) (ha : Good a) (hb : Good b) : Good (if c then a else b) := by
  split <;> assumption

theorem safe_ite {α} (c : Prop) [Decidable c] (a b : P α) (ha : Safe a) (hb : Safe b) : Safe (if c then a else b) := by
  split <;> assumption

theorem safe_visitPrimary (acc : Acc) : Safe (visitPrimary acc) := by
  unfold visitPrimary
  apply safe_bind' _ _ (good_reqElem readU32 good_readU32 acc); rintro ⟨version, acc⟩
  apply safe_bind' _ _ (good_reqElem readU64 good_readU64 acc); rintro ⟨flags, acc⟩
  apply safe_bind' _ _ (good_reqElem readU8 good_readU8 acc); rintro ⟨crcType, acc⟩
  apply safe_bind' _ _ (good_reqElem readEid good_readEid acc); rintro ⟨dst, acc⟩
  apply safe_bind' _ _ (good_reqElem readEid good_readEid acc); rintro ⟨src, acc⟩
  apply safe_bind' _ _ (good_reqElem readEid good_readEid acc); rintro ⟨rpt, acc⟩
  apply safe_bind' _ _ (good_reqElem readPairU64 good_readPairU64 acc); rintro ⟨⟨ts, seq⟩, acc⟩
  apply safe_bind' _ _ (good_reqElem readU64 good_readU64 acc); rintro ⟨lifetime, acc⟩
  dsimp only
  apply safe_bind'
  · apply good_ite
    · apply good_bind' _ _ (good_reqElem readU64 good_readU64 acc); rintro ⟨o, acc1⟩
      apply good_bind' _ _ (good_reqElem readU64 good_readU64 acc1); rintro ⟨t, acc2⟩
      exact good_pure _
    · exact good_pure _
  · rintro ⟨⟨fragOff, total⟩, acc⟩
    apply safe_bind' _ _ (good_visitCrc crcType acc); rintro ⟨crc, acc⟩
    exact (good_pure _).safe

theorem good_readPrimary : Good readPrimary := good_readSeq _ safe_visitPrimary

theorem map_nopanic {α β} (r : Res α) (f : α → β) (h : r.isPanic = false) : (r.map f).isPanic = false := by
  cases r <;> simp_all [Res.map, Res.bind, Res.isPanic]

theorem decodeBtsd_nopanic (btype : Nat) (raw : Bytes) : (decodeBtsd btype raw).isPanic = false := by
  unfold decodeBtsd
  by_cases h1 : btype = PAYLOAD_BLOCK
  · simp [h1, Res.isPanic]
  · by_cases h7 : btype = BUNDLE_AGE_BLOCK
    · simp only [h1, h7, if_true, if_false]
      exact map_nopanic _ _ (fromSlice_nopanic readU64 good_readU64 raw)
    · by_cases h10 : btype = HOP_COUNT_BLOCK
      · simp only [h1, h7, h10, if_true, if_false]
        exact map_nopanic _ _ (fromSlice_nopanic (readSeq visitPairU8) (good_readSeq _ (fun acc => (good_visitPairU8 acc).safe)) raw)
      · by_cases h6 : btype = PREVIOUS_NODE_BLOCK
        · simp only [h1, h7, h10, h6, if_true, if_false]
          exact map_nopanic _ _ (fromSlice_nopanic readEid good_readEid raw)
        · simp [h1, h7, h10, h6, Res.isPanic]

theorem good_liftRes {α} (r : Res α) (h : r.isPanic = false) : Good (liftRes r) := by
  intro s hs
  cases r with
  | ok a => exact ⟨rfl, fun _ => hs⟩
  | err e => simp [liftRes, Res.isPanic, Res.isOk]
  | panic p => simp [Res.isPanic] at h

theorem safe_visitCanon (acc : Acc) : Safe (visitCanon acc) := by
  unfold visitCanon
  apply safe_bind' _ _ (good_reqElem readU64 good_readU64 acc); rintro ⟨btype, acc⟩
  apply safe_bind' _ _ (good_reqElem readU64 good_readU64 acc); rintro ⟨num, acc⟩
  apply safe_bind' _ _ (good_reqElem readU8 good_readU8 acc); rintro ⟨flags, acc⟩
  apply safe_bind' _ _ (good_reqElem readU8 good_readU8 acc); rintro ⟨crcType, acc⟩
  apply safe_bind' _ _ (good_reqElem readByteBuf good_readByteBuf acc); rintro ⟨raw, acc⟩
  apply safe_bind' _ _ (good_liftRes _ (decodeBtsd_nopanic btype raw)); intro data
  apply safe_bind' _ _ (good_visitCrc crcType acc); rintro ⟨crc, acc⟩
  exact (good_pure _).safe

theorem good_readCanon : Good readCanon := good_readSeq _ safe_visitCanon

theorem safe_visitBundle (acc : Acc) : Safe (visitBundle acc) := by
  intro s hs
  unfold visitBundle
  have h := good_reqElem readPrimary good_readPrimary acc s hs
  rcases h1 : reqElem readPrimary acc s with ⟨r, s1⟩
  rw [h1] at h
  cases r with
  | ok v =>
    obtain ⟨primary, acc1⟩ := v
    dsimp only
    have h2 := good_collectElems readCanon good_readCanon (s1.inp.length + 1) [] acc1 s1 (h.2 rfl)
    rcases h3 : collectElems readCanon (s1.inp.length + 1) [] acc1 s1 with ⟨r2, s2⟩
    rw [h3] at h2
    cases r2 with
    | ok w => rfl
    | err e => rfl
    | panic p => simp [Res.isPanic] at h2
  | err e => rfl
  | panic p => simp [Res.isPanic] at h

theorem good_readBundle : Good readBundle := good_readSeq _ safe_visitBundle

/-- **C06 (decoder).** For every byte string, decoding returns a bundle or an error, never a
    panic: in particular serde_cbor's depth counter is never decremented below zero, although
    it is not restored on the "recursion limit exceeded" path and that error can be swallowed. -/
theorem decode_no_panic (bs : Bytes) : (decodeBundle bs).isPanic = false :=
  fromSlice_nopanic readBundle good_readBundle bs

/-- every result is a bundle or an error -/
theorem decode_total (bs : Bytes) : (∃ b, decodeBundle bs = .ok b) ∨ (∃ e, decodeBundle bs = .err e) := by
  have := decode_no_panic bs
  cases h : decodeBundle bs with
  | ok b => exact Or.inl ⟨b, rfl⟩
  | err e => exact Or.inr ⟨e, rfl⟩
  | panic p => simp [h, Res.isPanic] at this

/-- the payload decoded as an administrative record: no panic either -/
theorem decode_admin_no_panic (bs : Bytes) : (decodeAdmin bs).isPanic = false := by
  have hitem : ∀ acc, Safe (visitItem acc) := by
    intro acc
    unfold visitItem
    apply safe_bind' _ _ (good_reqElem readBool good_readBool acc); rintro ⟨asserted, acc⟩
    apply safe_ite
    · apply safe_bind' _ _ (good_reqElem readU64 good_readU64 acc); rintro ⟨time, acc⟩
      exact (good_pure _).safe
    · exact (good_pure _).safe
  have gitem : Good readItem := good_readSeq _ hitem
  have gitems : Good readItems :=
    good_readSeq _ (fun acc s hs => (good_collectElems readItem gitem (s.inp.length + 1) [] acc s hs).1)
  have hrep : ∀ acc, Safe (visitReport acc) := by
    intro acc
    unfold visitReport
    apply safe_bind' _ _ (good_reqElem readItems gitems acc); rintro ⟨items, acc⟩
    apply safe_bind' _ _ (good_reqElem readU32 good_readU32 acc); rintro ⟨reason, acc⟩
    apply safe_bind' _ _ (good_reqElem readEid good_readEid acc); rintro ⟨source, acc⟩
    apply safe_bind' _ _ (good_reqElem readPairU64 good_readPairU64 acc); rintro ⟨⟨ts, seq⟩, acc⟩
    dsimp only
    apply safe_ite
    · apply safe_bind' _ _ (good_reqElem readU64 good_readU64 acc); rintro ⟨fo, acc⟩
      apply safe_bind' _ _ (good_reqElem readU64 good_readU64 acc); rintro ⟨fl, acc⟩
      exact (good_pure _).safe
    · exact (good_pure _).safe
  have grep : Good readReport := good_readSeq _ hrep
  have hadm : ∀ acc, Safe (visitAdmin acc) := by
    intro acc
    unfold visitAdmin
    apply safe_bind' _ _ (good_reqElem readU32 good_readU32 acc); rintro ⟨code, acc⟩
    apply safe_ite
    · apply safe_bind' _ _ (good_reqElem readReport grep acc); rintro ⟨sr, acc⟩
      exact (good_pure _).safe
    · apply safe_bind' _ _ (good_reqElem readByteBuf good_readByteBuf acc); rintro ⟨data, acc⟩
      exact (good_pure _).safe
  exact fromSlice_nopanic readAdmin (good_readSeq _ hadm) bs

/-! ### what the pinned tree did on decoded input (witnesses; all fixed, see known_findings.txt) -/

/-- F12: a dtn ssp without slashes made `node()` panic -/
theorem pinned_node_name_panics : dtnNodeNamePinned (asc "abc") = .panic .nodeName := by decide
/-- now: the empty node name, and validation rejects the endpoint ID -/
example : dtnNodeName (asc "abc") = [] ∧ eidOk (.dtn 1 (asc "abc")) = false := by decide

/-- the depth counter really is left one too low after a swallowed "recursion limit" error, and
    the next sibling is then rejected (not a panic): 124 tags, then bundle, primary, a dtn EID
    whose ssp is itself tagged -/
example :
    (decodeBundle (List.replicate 124 0xc1 ++ [0x9f, 0x88, 7, 0, 0, 0x82, 1, 0xc1, 0x00, 0x82, 1, 0, 0x82, 1, 0, 0x82, 0, 0, 0, 0xff])).isErr
      = true := by decide +kernel

end Bp7.C06
