/-
  C06 — no input from the network can panic the receive path (PARTIAL: stack and heap
  exhaustion are runtime facts; the model bounds the recursion depth by serde_cbor's counter and
  has no unbounded allocation site, but cannot exhibit an overflow).

  `decode_no_panic`: for EVERY byte string the model of `Bundle::try_from(&[u8])` returns a
  bundle or an error. The only panic site inside the decoder model is serde_cbor's
  `remaining_depth -= 1` on a `u8` that could be 0 (the counter is not restored on the
  "recursion limit exceeded" early return, and `EndpointID`'s visitor swallows that error and
  carries on). The proof shows that every reader is entered with a counter ≥ 1.
-/
import Bp7.Model.Codec
import Bp7.Model.Admin
namespace Bp7.C06
open Bp7

/-- no panic when entered with a positive depth counter -/
def Safe {α} (f : P α) : Prop := ∀ s : St, 1 ≤ s.depth → (f s).1.isPanic = false

/-- `Safe`, and on success the counter is positive again (the next reader may run) -/
def Good {α} (f : P α) : Prop :=
  ∀ s : St, 1 ≤ s.depth → (f s).1.isPanic = false ∧ ((f s).1.isOk = true → 1 ≤ (f s).2.depth)

theorem Good.safe {α} {f : P α} (h : Good f) : Safe f := fun s hs => (h s hs).1

theorem good_pure {α} (a : α) : Good (P.pure a : P α) := fun s hs => ⟨rfl, fun _ => hs⟩
theorem good_fail {α} (e : Err) : Good (P.fail e : P α) := fun s _ => ⟨rfl, fun h => by simp [P.fail, Res.isOk] at h⟩

/-- a reader that does not touch the depth counter and never panics -/
theorem good_of_depth_eq {α} (f : P α) (h1 : ∀ s, (f s).1.isPanic = false) (h2 : ∀ s, (f s).2.depth = s.depth) : Good f :=
  fun s hs => ⟨h1 s, fun _ => by rw [h2]; exact hs⟩

theorem takeN_depth (n : Nat) (s : St) : (takeN n s).1.isPanic = false ∧ (takeN n s).2.depth = s.depth := by
  unfold takeN; split <;> simp [Res.isPanic]

theorem readArg_depth (ai : Nat) (s : St) : (readArg ai s).1.isPanic = false ∧ (readArg ai s).2.depth = s.depth := by
  unfold readArg
  split
  · simp [Res.isPanic]
  · have := takeN_depth (if ai = 24 then 1 else if ai = 25 then 2 else if ai = 26 then 4 else 8) s
    rcases h : takeN (if ai = 24 then 1 else if ai = 25 then 2 else if ai = 26 then 4 else 8) s with ⟨r, s'⟩
    rw [h] at this
    cases r <;> simp_all [Res.isPanic]

theorem readHead_depth (s : St) : (readHead s).1.isPanic = false ∧ (readHead s).2.depth = s.depth := by
  unfold readHead
  cases hi : s.inp with
  | nil => simp [Res.isPanic]
  | cons b rest =>
    simp only
    have key := readArg_depth (b.toNat % 32) { s with inp := rest }
    rcases h : readArg (b.toNat % 32) { s with inp := rest } with ⟨r, s'⟩
    rw [h] at key
    simp only [h]
    cases r <;> (repeat' split) <;> simp_all [Res.isPanic]

/-! ### generic composition lemmas -/

theorem good_bind {α β} (m : P α) (f : α → P β) (hm : Good m) (hf : ∀ a, Good (f a)) :
    Good (fun s => match m s with
      | (.ok a, s') => f a s'
      | (.err e, s') => (.err e, s')
      | (.panic p, s') => (.panic p, s')) := by
  intro s hs
  have h := hm s hs
  rcases hms : m s with ⟨r, s'⟩
  rw [hms] at h
  cases r with
  | ok a => simpa using hf a s' (h.2 rfl)
  | err e => simp [Res.isPanic, Res.isOk]
  | panic p => simp [Res.isPanic] at h

theorem safe_bind {α β} (m : P α) (f : α → P β) (hm : Good m) (hf : ∀ a, Safe (f a)) :
    Safe (fun s => match m s with
      | (.ok a, s') => f a s'
      | (.err e, s') => (.err e, s')
      | (.panic p, s') => (.panic p, s')) := by
  intro s hs
  have h := hm s hs
  rcases hms : m s with ⟨r, s'⟩
  rw [hms] at h
  cases r with
  | ok a => simpa using hf a s' (h.2 rfl)
  | err e => simp [Res.isPanic]
  | panic p => simp [Res.isPanic] at h

theorem good_bind' {α β} (m : P α) (f : α → P β) (hm : Good m) (hf : ∀ a, Good (f a)) : Good (m >>= f) :=
  good_bind m f hm hf
theorem safe_bind' {α β} (m : P α) (f : α → P β) (hm : Good m) (hf : ∀ a, Safe (f a)) : Safe (m >>= f) :=
  safe_bind m f hm hf

/-- post-processing the value of a successful read -/
theorem good_map {α β} (m : P α) (g : α → Res β) (hg : ∀ a, (g a).isPanic = false) (hm : Good m) :
    Good (fun s => match m s with
      | (.ok a, s') => (g a, s')
      | (.err e, s') => (.err e, s')
      | (.panic p, s') => (.panic p, s')) :=
  good_bind m (fun a s' => (g a, s')) hm (fun a s hs => ⟨hg a, fun _ => hs⟩)

/-- `recursion_checked`: safe whenever the body is safe; the counter is positive afterwards -/
theorem good_recursionChecked {α} (f : P α) (hf : Safe f) : Good (recursionChecked f) := by
  intro s hs
  unfold recursionChecked
  have h0 : ¬ s.depth = 0 := by omega
  simp only [h0, if_false]
  by_cases h1 : s.depth - 1 = 0
  · simp [h1, Res.isPanic, Res.isOk]
  · simp only [h1, if_false]
    have := hf { s with depth := s.depth - 1 } (by simp; omega)
    exact ⟨this, fun _ => by simp⟩

end Bp7.C06
