/-
  C11 — block-list invariants survive any sequence of bundle mutations.

  `Inv` is the structural invariant; `inv_step` shows every public mutator preserves it for every
  argument of the kind the property quantifies over (`OpOk`), `run_inv` lifts it to operation
  sequences of any length (the property's bound of 8 is not needed), `inv_facts` derives the
  clauses of the property from `Inv` — including "validates" and "round-trips through CBOR" —
  and `run_payload` is the payload read-back clause.
-/
import Bp7.Lemmas.Blocks
import Bp7.Props.C01
import Bp7.Props.C07
namespace Bp7.C11
open Bp7

inductive Op where
  | add (c : Canon)
  | setPayload (d : Bytes)
  | setPayloadBlock (num flags : Nat) (d : Bytes)   -- a payload block carrying any requested number
  | setCrc (t : Nat)
  | upd (node : Eid) (rt now : Nat)
  | tocbor                                         -- `to_cbor(&mut self)`: the object itself is encoded (CRC values recomputed)
  deriving Repr

/-- a payload block as a caller may hand it in: any block number (e.g. 0 from `CanonicalBlock::new`) -/
def payloadBlockReq (n f : Nat) (d : Bytes) : Canon := { newPayloadBlock f d with num := n }

def step (b : Bundle) : Op → Bundle
  | .add c => b.addBlock c
  | .setPayload d => b.setPayload d
  | .setPayloadBlock n f d => b.setPayloadBlock (payloadBlockReq n f d)
  | .setCrc t => b.setCrc t
  | .upd node rt now => (b.updateExtensions node rt now).bundle
  | .tocbor => (b.toCbor).1

def run (b : Bundle) (ops : List Op) : Bundle := ops.foldl step b

/-- a block that is well formed (in the C01 sense) and individually valid in a bundle with primary `p` -/
def blockOk (p : Primary) (c : Canon) : Prop := c.wf = true ∧ C07.localOk p c

/-- arguments the property quantifies over: well-typed blocks of any type and requested number,
    any payload, CRC types 0..2, a valid previous-node EID -/
def OpOk (p : Primary) : Op → Prop
  | .add c => c.wf = true ∧ (c.btype = PAYLOAD_BLOCK ∨ C07.localOk p c)
  | .setPayload d => d.length < U64
  | .setPayloadBlock _ f d => f < 256 ∧ d.length < U64 ∧ C07.localOk p (newPayloadBlock f d)
  | .setCrc t => t ≤ 2
  | .upd node _ _ => node.wf = true ∧ eidOk node = true ∧ (encEid node).length < U64
  | .tocbor => True

/-- invariant on the (type, number) list -/
def SInv (s : List (Nat × Nat)) : Prop :=
  (s.map (·.2)).Pairwise (· > ·) ∧
  (∃ init, s = init ++ [(1, 1)] ∧ ∀ x ∈ init, x.1 ≠ 1 ∧ 2 ≤ x.2) ∧
  (∀ t, isSingletonType t = true → (s.map (·.1)).count t ≤ 1)

structure Inv (b : Bundle) : Prop where
  pwf : b.primary.wf = true
  pval : b.primary.validate = []
  s : SInv (sig b.canon)
  blocks : ∀ c ∈ b.canon, blockOk b.primary c
  age : b.primary.ts = 0 → BUNDLE_AGE_BLOCK ∈ (sig b.canon).map (·.1)

/-! ### reading the invariant -/

theorem decomp (l : List Canon) (h : SInv (sig l)) :
    ∃ init p, l = init ++ [p] ∧ p.btype = 1 ∧ p.num = 1 ∧ ∀ c ∈ init, c.btype ≠ 1 ∧ 2 ≤ c.num := by
  obtain ⟨_, ⟨sinit, hs, hinit⟩, _⟩ := h
  unfold sig at hs
  obtain ⟨l₁, l₂, rfl, h1, h2⟩ := List.map_eq_append_iff.mp hs
  obtain ⟨p, rfl, h3⟩ := List.map_eq_singleton_iff.mp h2
  have h2a : p.btype = 1 := by have := congrArg Prod.fst h3; exact this
  have h2b : p.num = 1 := by have := congrArg Prod.snd h3; exact this
  refine ⟨l₁, p, rfl, h2a, h2b, ?_⟩
  intro c hc
  exact hinit (c.btype, c.num) (by rw [← h1]; exact List.mem_map.mpr ⟨c, hc, rfl⟩)

theorem extOk_of_blockOk {p : Primary} {c : Canon} (h : blockOk p c) : c.extOk = true := by
  have := h.2.1
  simp only [Canon.validate, List.append_eq_nil_iff] at this
  by_cases he : c.extOk = true
  · exact he
  · simp [he] at this

theorem find?_congr' {α} (p q : α → Bool) (l : List α) (h : ∀ c ∈ l, p c = q c) : l.find? p = l.find? q := by
  induction l with
  | nil => rfl
  | cons x xs ih =>
    simp only [List.find?_cons, h x (by simp), ih (fun c hc => h c (by simp [hc]))]

theorem blockByType_eq (b : Bundle) (h : ∀ c ∈ b.canon, blockOk b.primary c) (t : Nat) :
    b.blockByType t = b.canon.find? (fun c => c.btype == t) := by
  unfold Bundle.blockByType
  apply find?_congr'
  intro c hc
  simp [extOk_of_blockOk (h c hc)]

theorem payload_data {p : Primary} {c : Canon} (h : blockOk p c) (ht : c.btype = 1) :
    ∃ d, c.data = .data d ∧ c.num = 1 := by
  have hw := h.1
  have he := extOk_of_blockOk h
  unfold Canon.wf at hw
  unfold Canon.extOk at he
  cases hd : c.data <;> simp [hd, ht, PAYLOAD_BLOCK, BUNDLE_AGE_BLOCK, HOP_COUNT_BLOCK, PREVIOUS_NODE_BLOCK] at hw he
  exact ⟨_, rfl, he⟩

theorem find_payload (init : List Canon) (p : Canon) (q : Canon → Bool)
    (hi : ∀ c ∈ init, q c = false) (hp : q p = true) : (init ++ [p]).find? q = some p := by
  induction init with
  | nil => simp [hp]
  | cons x xs ih =>
    simp only [List.cons_append, List.find?_cons, hi x (by simp)]
    exact ih (fun c hc => hi c (by simp [hc]))

theorem payload_of_inv (b : Bundle) (h : Inv b) :
    ∃ init p d, b.canon = init ++ [p] ∧ p.btype = 1 ∧ p.num = 1 ∧ p.data = .data d ∧
      (∀ c ∈ init, c.btype ≠ 1 ∧ 2 ≤ c.num) ∧ b.payload = some d := by
  obtain ⟨init, p, hl, hpt, hpn, hinit⟩ := decomp b.canon h.s
  obtain ⟨d, hd, _⟩ := payload_data (h.blocks p (by rw [hl]; simp)) hpt
  refine ⟨init, p, d, hl, hpt, hpn, hd, hinit, ?_⟩
  unfold Bundle.payload
  rw [blockByType_eq b h.blocks, hl, find_payload init p _ (fun c hc => by simpa [PAYLOAD_BLOCK] using (hinit c hc).1)
    (by simp [hpt, PAYLOAD_BLOCK])]
  simp [hd]

theorem pairwise_types (ts : List Nat) (h : ∀ t, isSingletonType t = true → ts.count t ≤ 1) :
    ts.Pairwise (fun a b => ¬ (a = b ∧ (b = 6 ∨ b = 7 ∨ b = 10))) := by
  induction ts with
  | nil => exact List.Pairwise.nil
  | cons a rest ih =>
    refine List.Pairwise.cons ?_ (ih (fun t ht => ?_))
    · rintro b hb ⟨rfl, hs⟩
      have := h a ((C07.singleton_iff a).mpr hs)
      rw [List.count_cons_self] at this
      have hpos : 0 < rest.count a := List.count_pos_iff.mpr hb
      omega
    · have := h t ht
      rw [List.count_cons] at this
      omega

theorem compat_of_sinv (l : List Canon) (h : SInv (sig l)) : l.Pairwise C07.Spec.compatible := by
  obtain ⟨hd, _, hs⟩ := h
  have h1 : l.Pairwise (fun x y => x.num > y.num) := by
    have : (sig l).map (·.2) = l.map (·.num) := by simp [sig]
    rw [this] at hd
    exact List.pairwise_map.mp hd
  have h2 : l.Pairwise (fun x y => ¬ (x.btype = y.btype ∧ (y.btype = 6 ∨ y.btype = 7 ∨ y.btype = 10))) := by
    have : (sig l).map (·.1) = l.map (·.btype) := by simp [sig]
    rw [this] at hs
    exact List.pairwise_map.mp (pairwise_types _ hs)
  have := List.Pairwise.and h1 h2
  refine this.imp ?_
  rintro x y ⟨hgt, hty⟩
  exact ⟨by omega, hty⟩

/-- **C11 (the clauses of the property follow from the invariant).** -/
theorem inv_facts (b : Bundle) (h : Inv b) :
    (b.canon.map (·.num)).Pairwise (· > ·)
    ∧ (b.canon.map (·.num)).Nodup ∧ (∀ c ∈ b.canon, c.num ≠ 0)
    ∧ (∃ init p, b.canon = init ++ [p] ∧ p.btype = 1 ∧ p.num = 1 ∧ ∀ c ∈ init, c.btype ≠ 1)
    ∧ (∀ t, t = 6 ∨ t = 7 ∨ t = 10 → (b.canon.map (·.btype)).count t ≤ 1)
    ∧ b.validate = []
    ∧ decodeBundle (b.toCbor).2 = .ok (b.toCbor).1 := by
  obtain ⟨init, p, d, hl, hpt, hpn, hpd, hinit, hpay⟩ := payload_of_inv b h
  have hnum : (sig b.canon).map (·.2) = b.canon.map (·.num) := by simp [sig]
  have hty : (sig b.canon).map (·.1) = b.canon.map (·.btype) := by simp [sig]
  have hdesc : (b.canon.map (·.num)).Pairwise (· > ·) := by rw [← hnum]; exact h.s.1
  refine ⟨hdesc, ?_, ?_, ⟨init, p, hl, hpt, hpn, fun c hc => (hinit c hc).1⟩, ?_, ?_, ?_⟩
  · exact hdesc.imp (fun hgt => by omega)
  · intro c hc
    rw [hl] at hc
    rcases List.mem_append.mp hc with hc | hc
    · have := (hinit c hc).2; omega
    · simp at hc; subst hc; omega
  · intro t ht
    rw [← hty]; exact h.s.2.2 t ((C07.singleton_iff t).mpr ht)
  · unfold Bundle.validate
    have hb : validateBlocks b.primary b.canon [] [] = [] := by
      rw [C07.validateBlocks_nil_iff]
      refine ⟨fun c hc => ⟨(h.blocks c hc).2, by simp, by simp⟩, compat_of_sinv b.canon h.s⟩
    have hage : (b.primary.ts == 0 && !(b.canon.any (fun c => c.btype == BUNDLE_AGE_BLOCK))) = false := by
      by_cases hz : b.primary.ts = 0
      · have := h.age hz
        rw [hty] at this
        obtain ⟨c, hc, hct⟩ := List.mem_map.mp this
        have : b.canon.any (fun c => c.btype == BUNDLE_AGE_BLOCK) = true :=
          List.any_eq_true.mpr ⟨c, hc, by simp [hct]⟩
        simp [this]
      · simp [hz]
    simp [h.pval, hb, hage, hpay]
  · apply C01.decode_encode
    simp only [Bundle.wf, Bool.and_eq_true, List.all_eq_true]
    exact ⟨h.pwf, fun c hc => (h.blocks c hc).1⟩

/-! ### single blocks under modification -/

theorem encHead_length_le (m n : Nat) : (encHead m n).length ≤ 9 := by
  unfold encHead
  repeat' split
  all_goals simp [beBytes_length]

theorem blockOk_of_same (p : Primary) (c c' : Canon) (h : blockOk p c) (hf : c'.flags = c.flags)
    (hw : c'.wf = true) (he : c'.extOk = true) : blockOk p c' := by
  refine ⟨hw, ?_, ?_⟩
  · have := h.2.1
    simp only [Canon.validate, List.append_eq_nil_iff] at this ⊢
    rw [hf]; exact ⟨this.1, by simp [he]⟩
  · rw [hf]; exact h.2.2

theorem blockOk_bumpHop (p : Primary) (c : Canon) (h : blockOk p c) : blockOk p (bumpHop c) := by
  unfold bumpHop
  cases hd : c.data with
  | hop l n =>
    have hw := h.1
    have he := extOk_of_blockOk h
    unfold Canon.wf at hw
    unfold Canon.extOk at he
    simp only [hd, Bool.and_eq_true, decide_eq_true_eq] at hw he
    show blockOk p { c with data := CData.hop l (min (n + 1) 255) }
    refine blockOk_of_same p c _ h rfl ?_ ?_
    · unfold Canon.wf
      have h1 := encHead_length_le 4 2
      have h2 := encHead_length_le 0 l
      have h3 := encHead_length_le 0 (min (n + 1) 255)
      simp only [Bool.and_eq_true, decide_eq_true_eq, btsd, encCData, encArrayHead, encUint, List.length_append]
      refine ⟨⟨⟨⟨⟨hw.1.1.1.1.1, hw.1.1.1.1.2⟩, hw.1.1.1.2⟩, hw.1.1.2⟩, by rw [U64_eq]; omega⟩, ⟨hw.2.1.1, hw.2.1.2⟩, by omega⟩
    · unfold Canon.extOk; simpa using he
  | _ => simpa [hd] using h

theorem blockOk_setPrev (p : Primary) (node : Eid) (hn : node.wf = true) (hv : eidOk node = true)
    (hl : (encEid node).length < U64) (c : Canon) (h : blockOk p c) : blockOk p (setPrev node c) := by
  unfold setPrev
  cases hd : c.data with
  | prev e =>
    have hw := h.1
    have he := extOk_of_blockOk h
    unfold Canon.wf at hw
    unfold Canon.extOk at he
    simp only [hd, Bool.and_eq_true, decide_eq_true_eq] at hw he
    show blockOk p { c with data := CData.prev node }
    refine blockOk_of_same p c _ h rfl ?_ ?_
    · unfold Canon.wf
      simp only [Bool.and_eq_true, decide_eq_true_eq, btsd, encCData]
      exact ⟨⟨⟨⟨⟨hw.1.1.1.1.1, hw.1.1.1.1.2⟩, hw.1.1.1.2⟩, hw.1.1.2⟩, decide_eq_true hl⟩, hw.2.1, hn⟩
    · unfold Canon.extOk; simp [he.1, hv]
  | _ => simpa [hd] using h

theorem blockOk_addAge (p : Primary) (rt : Nat) (c : Canon) (h : blockOk p c) : blockOk p (addAge rt c) := by
  unfold addAge
  cases hd : c.data with
  | age a =>
    have hw := h.1
    have he := extOk_of_blockOk h
    unfold Canon.wf at hw
    unfold Canon.extOk at he
    simp only [hd, Bool.and_eq_true, decide_eq_true_eq] at hw he
    show blockOk p { c with data := CData.age (min (a + rt) (U64 - 1)) }
    obtain ⟨m, hm⟩ : ∃ m, m = min (a + rt) (U64 - 1) := ⟨_, rfl⟩
    have hmlt : m < U64 := by simp only [U64_eq] at hm ⊢; omega
    rw [← hm]
    clear hm
    refine blockOk_of_same p c _ h rfl ?_ ?_
    · unfold Canon.wf
      have h1 : (encHead 0 m).length < U64 := Nat.lt_of_le_of_lt (encHead_length_le 0 m) (by decide)
      simp only [Bool.and_eq_true, decide_eq_true_eq, btsd, encCData, encUint]
      exact ⟨⟨⟨⟨⟨hw.1.1.1.1.1, hw.1.1.1.1.2⟩, hw.1.1.1.2⟩, hw.1.1.2⟩, decide_eq_true h1⟩, hw.2.1, by simpa using hmlt⟩
    · unfold Canon.extOk; simpa using he
  | _ => simpa [hd] using h

theorem blockOk_setData (p : Primary) (d : Bytes) (hd : d.length < U64) (c : Canon) (h : blockOk p c)
    (hq : (c.btype == PAYLOAD_BLOCK && c.extOk) = true) : blockOk p { c with data := .data d } := by
  simp only [Bool.and_eq_true, beq_iff_eq] at hq
  obtain ⟨d0, hd0, hnum⟩ := payload_data h hq.1
  have hw := h.1
  unfold Canon.wf at hw
  simp only [hd0, Bool.and_eq_true, decide_eq_true_eq] at hw
  refine blockOk_of_same p c _ h rfl ?_ ?_
  · unfold Canon.wf
    simp only [Bool.and_eq_true, decide_eq_true_eq, btsd]
    exact ⟨⟨⟨⟨⟨hw.1.1.1.1.1, hw.1.1.1.1.2⟩, hw.1.1.1.2⟩, hw.1.1.2⟩, decide_eq_true hd⟩, hw.2⟩
  · unfold Canon.extOk; simp [hq.1, hnum]

/-! ### the mutators preserve the invariant -/

theorem inv_updFirst (b : Bundle) (h : Inv b) (q : Canon → Bool) (f : Canon → Canon)
    (hs : ∀ c, (f c).btype = c.btype ∧ (f c).num = c.num)
    (hb : ∀ c, q c = true → blockOk b.primary c → blockOk b.primary (f c)) :
    Inv { b with canon := updFirst q f b.canon } :=
  { pwf := h.pwf, pval := h.pval,
    s := by show SInv (sig (updFirst q f b.canon)); rw [updFirst_sig q f hs]; exact h.s,
    blocks := updFirst_all (blockOk b.primary) q f hb b.canon h.blocks,
    age := by
      show b.primary.ts = 0 → BUNDLE_AGE_BLOCK ∈ (sig (updFirst q f b.canon)).map (·.1)
      rw [updFirst_sig q f hs]; exact h.age }

theorem bumpHop_sig (c : Canon) : (bumpHop c).btype = c.btype ∧ (bumpHop c).num = c.num := by
  unfold bumpHop; cases c.data <;> exact ⟨rfl, rfl⟩
theorem setPrev_sig (e : Eid) (c : Canon) : (setPrev e c).btype = c.btype ∧ (setPrev e c).num = c.num := by
  unfold setPrev; cases c.data <;> exact ⟨rfl, rfl⟩
theorem addAge_sig (rt : Nat) (c : Canon) : (addAge rt c).btype = c.btype ∧ (addAge rt c).num = c.num := by
  unfold addAge; cases c.data <;> exact ⟨rfl, rfl⟩

theorem ite_prop {α} (P : α → Prop) (c : Prop) [Decidable c] (x y : α) (hx : P x) (hy : P y) :
    P (if c then x else y) := by split <;> assumption

theorem inv_upd (b : Bundle) (h : Inv b) (node : Eid) (rt now : Nat) (hn : node.wf = true)
    (hv : eidOk node = true) (hl : (encEid node).length < U64) :
    Inv (b.updateExtensions node rt now).bundle := by
  have h1 := inv_updFirst b h isHop bumpHop bumpHop_sig (fun c _ hc => blockOk_bumpHop _ c hc)
  have h2 := inv_updFirst _ h1 isPrev (setPrev node) (setPrev_sig node)
    (fun c _ hc => blockOk_setPrev _ node hn hv hl c hc)
  have h3 := inv_updFirst _ h2 isAge (addAge rt) (addAge_sig rt) (fun c _ hc => blockOk_addAge _ rt c hc)
  simp only [Bundle.updateExtensions, hopStep, prevStep, ageStep]
  exact ite_prop (fun u : UpdOut => Inv u.bundle) _ _ _ h1 (ite_prop (fun u : UpdOut => Inv u.bundle) _ _ _ h3 h3)

theorem inv_setCrc (b : Bundle) (h : Inv b) (t : Nat) (ht : t ≤ 2) : Inv (b.setCrc t) := by
  have hk : (CrcVal.ofType t).known = true := by
    have : t = 0 ∨ t = 1 ∨ t = 2 := by omega
    rcases this with rfl | rfl | rfl <;> rfl
  have hsig : sig (b.setCrc t).canon = sig b.canon := by
    simp [Bundle.setCrc, sig, List.map_map, Function.comp_def]
  refine { pwf := ?_, pval := h.pval, s := by rw [hsig]; exact h.s, blocks := ?_, age := by rw [hsig]; exact h.age }
  · have := h.pwf
    simp only [Primary.wf, Bool.and_eq_true] at this ⊢
    obtain ⟨⟨⟨⟨⟨⟨⟨⟨⟨⟨⟨a1, a2⟩, _⟩, a4⟩, a5⟩, a6⟩, a7⟩, a8⟩, a9⟩, a10⟩, a11⟩, a12⟩ := this
    exact ⟨⟨⟨⟨⟨⟨⟨⟨⟨⟨⟨a1, a2⟩, hk⟩, a4⟩, a5⟩, a6⟩, a7⟩, a8⟩, a9⟩, a10⟩, a11⟩, a12⟩
  · intro c hc
    simp only [Bundle.setCrc, List.mem_map] at hc
    obtain ⟨c0, hc0, rfl⟩ := hc
    have h0 := h.blocks c0 hc0
    refine blockOk_of_same _ c0 _ ⟨h0.1, h0.2⟩ rfl ?_ (by have := extOk_of_blockOk h0; simpa [Canon.extOk] using this)
    have := h0.1
    simp only [Canon.wf, Bool.and_eq_true] at this ⊢
    exact ⟨⟨⟨this.1.1.1, hk⟩, this.1.2⟩, this.2⟩

/-- encoding the object itself only rewrites stored CRC values: the invariant survives -/
theorem inv_tocbor (b : Bundle) (h : Inv b) : Inv (b.toCbor).1 := by
  have hsig : sig (b.toCbor).1.canon = sig b.canon := by
    simp [Bundle.toCbor, Bundle.calculateCrc, sig, List.map_map, Function.comp_def, Canon.updateCrc]
  refine { pwf := (Primary.updateCrc_wf b.primary h.pwf).1, pval := h.pval, s := by rw [hsig]; exact h.s, blocks := ?_,
           age := by rw [hsig]; exact h.age }
  intro c hc
  simp only [Bundle.toCbor, Bundle.calculateCrc, List.mem_map] at hc
  obtain ⟨c0, hc0, rfl⟩ := hc
  have h0 := h.blocks c0 hc0
  exact blockOk_of_same _ c0 _ ⟨h0.1, h0.2⟩ rfl (Canon.updateCrc_wf c0 h0.1).1
    (by have := extOk_of_blockOk h0; simpa [Canon.extOk, Canon.updateCrc] using this)

theorem desc_of_inv (b : Bundle) (h : Inv b) : (b.canon.map (·.num)).Pairwise (· > ·) := by
  have : (sig b.canon).map (·.2) = b.canon.map (·.num) := by simp [sig]
  rw [← this]; exact h.s.1

theorem blockByType_none (b : Bundle) (hb : ∀ c ∈ b.canon, blockOk b.primary c) (t : Nat)
    (h : (b.blockByType t).isSome = false) : ∀ c ∈ b.canon, c.btype ≠ t := by
  rw [blockByType_eq b hb] at h
  intro c hc he
  have : (b.canon.find? (fun c => c.btype == t)).isSome = true := by
    rw [List.find?_isSome]; exact ⟨c, hc, by simp [he]⟩
  rw [h] at this; exact Bool.noConfusion this

theorem blockByType_some (b : Bundle) (hb : ∀ c ∈ b.canon, blockOk b.primary c) (t : Nat)
    (c : Canon) (hc : c ∈ b.canon) (ht : c.btype = t) : (b.blockByType t).isSome = true := by
  rw [blockByType_eq b hb, List.find?_isSome]; exact ⟨c, hc, by simp [ht]⟩

/-- inserting a new, non-payload block with a fresh number ≥ 2 -/
theorem inv_insert (b : Bundle) (h : Inv b) (c : Canon) (hc : blockOk b.primary c) (ht : c.btype ≠ 1)
    (hn : 2 ≤ c.num) (hfresh : ∀ x ∈ b.canon, x.num ≠ c.num)
    (hsingle : isSingletonType c.btype = true → ∀ x ∈ b.canon, x.btype ≠ c.btype) :
    Inv { b with canon := insertDesc c b.canon } := by
  obtain ⟨hd, ⟨init, hinit, hall⟩, hs⟩ := h.s
  have hsig : sig (insertDesc c b.canon) = insSig (c.btype, c.num) (sig b.canon) := sig_insertDesc c b.canon
  refine { pwf := h.pwf, pval := h.pval, s := ?_, blocks := ?_, age := ?_ }
  · show SInv (sig (insertDesc c b.canon))
    rw [hsig]
    refine ⟨?_, ?_, ?_⟩
    · apply insSig_desc _ _ hd
      intro y hy
      obtain ⟨x, hx, rfl⟩ := List.mem_map.mp hy
      exact hfresh x hx
    · refine ⟨insSig (c.btype, c.num) init, ?_, ?_⟩
      · rw [hinit]; exact insSig_before_last _ init (1, 1) (by show 1 < c.num; omega)
      · intro x hx
        rcases (mem_insSig _ x init).mp hx with rfl | hx
        · exact ⟨ht, hn⟩
        · exact hall x hx
    · intro t hts
      have hp := (insSig_perm (c.btype, c.num) (sig b.canon)).map (·.1)
      rw [hp.count_eq, List.map_cons, List.count_cons]
      have := hs t hts
      by_cases he : c.btype = t
      · subst he
        have hz : ((sig b.canon).map (·.1)).count c.btype = 0 := by
          apply List.count_eq_zero.mpr
          intro hm
          obtain ⟨y, hy, hy1⟩ := List.mem_map.mp hm
          obtain ⟨x, hx, rfl⟩ := List.mem_map.mp hy
          exact hsingle hts x hx hy1
        simp [hz]
      · have : ((c.btype, c.num).1 == t) = false := by simpa using he
        simp only [this, Bool.false_eq_true, if_false]; omega
  · intro x hx
    rcases (mem_insertDesc c x b.canon).mp hx with rfl | hx
    · exact hc
    · exact h.blocks x hx
  · intro hz
    show BUNDLE_AGE_BLOCK ∈ (sig (insertDesc c b.canon)).map (·.1)
    rw [hsig]
    have := h.age hz
    obtain ⟨y, hy, hy1⟩ := List.mem_map.mp this
    exact List.mem_map.mpr ⟨y, (mem_insSig _ y _).mpr (Or.inr hy), hy1⟩

theorem wf_setNum (c : Canon) (n : Nat) (hn : n < U64) (h : c.wf = true) : ({ c with num := n } : Canon).wf = true := by
  simp only [Canon.wf, Bool.and_eq_true] at h ⊢
  exact ⟨⟨⟨⟨⟨h.1.1.1.1.1, decide_eq_true hn⟩, h.1.1.1.2⟩, h.1.1.2⟩, h.1.2⟩, h.2⟩

theorem localOk_setNum (p : Primary) (c : Canon) (n : Nat) (ht : c.btype ≠ 1) (h : C07.localOk p c) :
    C07.localOk p { c with num := n } := by
  refine ⟨?_, h.2⟩
  have := h.1
  simp only [Canon.validate, List.append_eq_nil_iff] at this ⊢
  refine ⟨this.1, ?_⟩
  have he : c.extOk = true := by
    by_cases he : c.extOk = true
    · exact he
    · simp [he] at this
  have : ({ c with num := n } : Canon).extOk = true := by
    unfold Canon.extOk at he ⊢
    cases hd : c.data <;> simp [hd, PAYLOAD_BLOCK] at he ⊢ <;> first | exact he | (exact absurd he.1 ht)
  simp [this]

theorem length_insertDesc (c : Canon) (l : List Canon) : (insertDesc c l).length = l.length + 1 := by
  rw [(insertDesc_perm c l).length_eq]; rfl

/-- **C11 (add_canonical_block).** -/
theorem inv_add (b : Bundle) (h : Inv b) (c : Canon) (hok : OpOk b.primary (.add c))
    (hlen : b.canon.length + 2 < U64) : Inv (b.addBlock c) := by
  unfold Bundle.addBlock
  split
  · exact h
  · rename_i hcond
    obtain ⟨init, p, d, hl, hpt, hpn, hpd, hinit, hpay⟩ := payload_of_inv b h
    have hne : c.btype ≠ 1 := by
      intro he
      apply hcond
      have := blockByType_some b h.blocks 1 p (by rw [hl]; simp) hpt
      simp [he, isManagedType, PAYLOAD_BLOCK, this]
    have hpb : (c.btype == PAYLOAD_BLOCK) = false := by simpa [PAYLOAD_BLOCK] using hne
    simp only [hpb, Bool.false_eq_true, if_false]
    rw [sortDesc_snoc b.canon _ (desc_of_inv b h)]
    obtain ⟨h2, hlt, hfresh⟩ := nextBlockNumber_spec b.canon hlen
    have hloc : C07.localOk b.primary c := by
      rcases hok.2 with hp | hp
      · exact absurd hp hne
      · exact hp
    apply inv_insert b h
    · exact ⟨wf_setNum c _ hlt hok.1, localOk_setNum _ c _ hne hloc⟩
    · exact hne
    · exact h2
    · exact hfresh
    · intro hs
      have hm : isManagedType c.btype = true := by
        simp only [isSingletonType, isManagedType, Bool.or_eq_true] at hs ⊢
        rcases hs with (hs | hs) | hs
        · exact Or.inl (Or.inr hs)
        · exact Or.inl (Or.inl (Or.inr hs))
        · exact Or.inr hs
      have : (b.blockByType c.btype).isSome = false := by
        by_cases hx : (b.blockByType c.btype).isSome = true
        · exact absurd (by simp [hm, hx]) hcond
        · simpa using hx
      exact blockByType_none b h.blocks c.btype this

/-- the number a caller put on the payload block is irrelevant: it is forced to 1 -/
theorem setPayloadBlock_num (b : Bundle) (n f : Nat) (d : Bytes) :
    b.setPayloadBlock (payloadBlockReq n f d) = b.setPayloadBlock (newPayloadBlock f d) := by
  simp [Bundle.setPayloadBlock, Bundle.addBlock, payloadBlockReq, newPayloadBlock]

/-- **C11 (set_payload_block).** The (type, number) list is unchanged. -/
theorem inv_setPayloadBlock (b : Bundle) (h : Inv b) (f : Nat) (d : Bytes)
    (hok : OpOk b.primary (.setPayloadBlock 1 f d)) :
    Inv (b.setPayloadBlock (newPayloadBlock f d)) ∧
    (b.setPayloadBlock (newPayloadBlock f d)).payload = some d ∧
    (b.setPayloadBlock (newPayloadBlock f d)).canon.length = b.canon.length := by
  obtain ⟨init, p, d0, hl, hpt, hpn, hpd, hinit, hpay⟩ := payload_of_inv b h
  obtain ⟨hf, hdl, hloc⟩ := hok
  have hfil : b.canon.filter (fun x => x.btype != PAYLOAD_BLOCK) = init := by
    rw [hl, List.filter_append]
    have h1 : init.filter (fun x => x.btype != PAYLOAD_BLOCK) = init :=
      List.filter_eq_self.mpr (fun c hc => by simpa [PAYLOAD_BLOCK] using (hinit c hc).1)
    rw [h1]; simp [hpt, PAYLOAD_BLOCK]
  have hnone : (({ b with canon := init } : Bundle).blockByType PAYLOAD_BLOCK).isSome = false := by
    unfold Bundle.blockByType
    rw [Bool.eq_false_iff]
    intro hs
    rw [List.find?_isSome] at hs
    obtain ⟨c, hc, hq⟩ := hs
    simp only [Bool.and_eq_true, beq_iff_eq] at hq
    exact (hinit c hc).1 hq.1
  have hdesc : (init.map (·.num)).Pairwise (· > ·) := by
    have := desc_of_inv b h
    rw [hl, List.map_append, List.pairwise_append] at this
    exact this.1
  have hcanon : (b.setPayloadBlock (newPayloadBlock f d)).canon = init ++ [newPayloadBlock f d] := by
    unfold Bundle.setPayloadBlock Bundle.addBlock
    rw [hfil]
    have : (isManagedType (newPayloadBlock f d).btype && (({ b with canon := init } : Bundle).blockByType (newPayloadBlock f d).btype).isSome) = false := by
      have := hnone
      simp only [newPayloadBlock] at this ⊢
      simp [this]
    simp only [this, Bool.false_eq_true, if_false]
    have hpb : ((newPayloadBlock f d).btype == PAYLOAD_BLOCK) = true := by simp [newPayloadBlock]
    simp only [hpb, if_true]
    rw [sortDesc_snoc init _ hdesc]
    apply insertDesc_at_end
    intro y hy
    have := (hinit y hy).2
    show ¬ y.num < 1
    omega
  have hprim : (b.setPayloadBlock (newPayloadBlock f d)).primary = b.primary := by
    unfold Bundle.setPayloadBlock Bundle.addBlock
    split <;> rfl
  have hsig : sig (b.setPayloadBlock (newPayloadBlock f d)).canon = sig b.canon := by
    rw [hcanon, hl]; simp [sig, newPayloadBlock, hpt, hpn, PAYLOAD_BLOCK]
  have hblocks : ∀ c ∈ (b.setPayloadBlock (newPayloadBlock f d)).canon, blockOk b.primary c := by
    intro c hc
    rw [hcanon] at hc
    rcases List.mem_append.mp hc with hc | hc
    · exact h.blocks c (by rw [hl]; simp [hc])
    · simp only [List.mem_singleton] at hc
      subst hc
      refine ⟨?_, hloc⟩
      simp only [Canon.wf, newPayloadBlock, Bool.and_eq_true, btsd]
      exact ⟨⟨⟨⟨⟨by simp [PAYLOAD_BLOCK, U64_eq], by simp [U64_eq]⟩, decide_eq_true hf⟩, rfl⟩, decide_eq_true hdl⟩, by simp⟩
  refine ⟨{ pwf := by rw [hprim]; exact h.pwf, pval := by rw [hprim]; exact h.pval,
            s := by rw [hsig]; exact h.s, blocks := by rw [hprim]; exact hblocks,
            age := by rw [hprim, hsig]; exact h.age }, ?_, ?_⟩
  · unfold Bundle.payload Bundle.blockByType
    rw [hcanon, find_payload init (newPayloadBlock f d)]
    · rfl
    · intro c hc
      have := (hinit c hc).1
      simp [PAYLOAD_BLOCK, this]
    · have := extOk_of_blockOk (hblocks (newPayloadBlock f d) (by rw [hcanon]; simp))
      show ((newPayloadBlock f d).btype == PAYLOAD_BLOCK && (newPayloadBlock f d).extOk) = true
      rw [this]; rfl
  · rw [hcanon, hl]; simp

theorem localOk_payload0 (p : Primary) (d : Bytes) : C07.localOk p (newPayloadBlock 0 d) := by
  refine ⟨by simp [Canon.validate, newPayloadBlock, Canon.extOk, bhas, flagsContain, BF_RESERVED, BF_ALL, PAYLOAD_BLOCK], ?_⟩
  simp [newPayloadBlock, bhas, flagsContain, BF_STATUS_REPORT, BF_ALL]

theorem length_updFirst (q : Canon → Bool) (f : Canon → Canon) (l : List Canon) :
    (updFirst q f l).length = l.length := by
  induction l with
  | nil => rfl
  | cons x xs ih => simp only [updFirst]; split <;> simp [ih]

theorem find?_updFirst_mem (q : Canon → Bool) (f : Canon → Canon) (l : List Canon)
    (hf : ∀ c ∈ l, q c = true → q (f c) = true) : (updFirst q f l).find? q = (l.find? q).map f := by
  induction l with
  | nil => rfl
  | cons x xs ih =>
    simp only [updFirst]
    by_cases hq : q x = true
    · simp [hq, hf x (by simp) hq]
    · simp [hq, ih (fun c hc => hf c (by simp [hc]))]

/-- **C11 (set_payload).** -/
theorem inv_setPayload (b : Bundle) (h : Inv b) (d : Bytes) (hd : d.length < U64) :
    Inv (b.setPayload d) ∧ (b.setPayload d).payload = some d ∧ (b.setPayload d).canon.length = b.canon.length := by
  unfold Bundle.setPayload
  split
  · refine ⟨inv_updFirst b h _ _ (fun c => ⟨rfl, rfl⟩) (fun c hq hc => blockOk_setData _ d hd c hc hq), ?_, length_updFirst _ _ _⟩
    obtain ⟨init, p, d0, hl, hpt, hpn, hpd, hinit, hpay⟩ := payload_of_inv b h
    unfold Bundle.payload Bundle.blockByType
    simp only
    rw [find?_updFirst_mem]
    · have hq : (p.btype == PAYLOAD_BLOCK && p.extOk) = true := by
        simp [hpt, PAYLOAD_BLOCK, extOk_of_blockOk (h.blocks p (by rw [hl]; simp))]
      rw [hl, find_payload init p _ (fun c hc => by simp [PAYLOAD_BLOCK, (hinit c hc).1]) hq]
      rfl
    · intro c hc hq
      simp only [Bool.and_eq_true, beq_iff_eq] at hq ⊢
      refine ⟨hq.1, ?_⟩
      obtain ⟨_, _, hnum⟩ := payload_data (h.blocks c hc) hq.1
      unfold Canon.extOk
      simp [hq.1, hnum]
  · exact inv_setPayloadBlock b h 0 d ⟨by decide, hd, localOk_payload0 _ d⟩

/-! ### payload read-back and list length under the remaining mutators -/

theorem add_cases (b : Bundle) (h : Inv b) (c : Canon) :
    b.addBlock c = b ∨ (c.btype ≠ 1 ∧
      b.addBlock c = { b with canon := insertDesc { c with num := nextBlockNumber b.canon } b.canon }) := by
  unfold Bundle.addBlock
  split
  · exact Or.inl rfl
  · rename_i hcond
    obtain ⟨init, p, d, hl, hpt, hpn, hpd, hinit, hpay⟩ := payload_of_inv b h
    have hne : c.btype ≠ 1 := by
      intro he
      apply hcond
      have := blockByType_some b h.blocks 1 p (by rw [hl]; simp) hpt
      simp [he, isManagedType, PAYLOAD_BLOCK, this]
    have hpb : (c.btype == PAYLOAD_BLOCK) = false := by simpa [PAYLOAD_BLOCK] using hne
    simp only [hpb, Bool.false_eq_true, if_false]
    rw [sortDesc_snoc b.canon _ (desc_of_inv b h)]
    exact Or.inr ⟨hne, rfl⟩

theorem payload_add (b : Bundle) (h : Inv b) (c : Canon) :
    (b.addBlock c).payload = b.payload ∧ (b.addBlock c).canon.length ≤ b.canon.length + 1 := by
  rcases add_cases b h c with he | ⟨hne, he⟩
  · rw [he]; exact ⟨rfl, by omega⟩
  · rw [he]
    refine ⟨?_, by simp [length_insertDesc]⟩
    unfold Bundle.payload Bundle.blockByType
    simp only
    rw [find?_insertDesc_other]
    simp [PAYLOAD_BLOCK, hne]

theorem payload_setCrc (b : Bundle) (t : Nat) :
    (b.setCrc t).payload = b.payload ∧ (b.setCrc t).canon.length = b.canon.length := by
  refine ⟨?_, by simp [Bundle.setCrc]⟩
  unfold Bundle.payload Bundle.blockByType Bundle.setCrc
  simp only [List.find?_map]
  have : ((fun c : Canon => c.btype == PAYLOAD_BLOCK && c.extOk) ∘ fun c : Canon => { c with crc := CrcVal.ofType t })
      = (fun c : Canon => c.btype == PAYLOAD_BLOCK && c.extOk) := by
    funext c; rfl
  rw [this]
  cases List.find? (fun c : Canon => c.btype == PAYLOAD_BLOCK && c.extOk) b.canon <;> rfl

theorem payload_tocbor (b : Bundle) :
    (b.toCbor).1.payload = b.payload ∧ (b.toCbor).1.canon.length = b.canon.length := by
  refine ⟨?_, by simp [Bundle.toCbor, Bundle.calculateCrc]⟩
  unfold Bundle.payload Bundle.blockByType Bundle.toCbor Bundle.calculateCrc
  simp only [List.find?_map]
  have : ((fun c : Canon => c.btype == PAYLOAD_BLOCK && c.extOk) ∘ Canon.updateCrc)
      = (fun c : Canon => c.btype == PAYLOAD_BLOCK && c.extOk) := by
    funext c; rfl
  rw [this]
  cases List.find? (fun c : Canon => c.btype == PAYLOAD_BLOCK && c.extOk) b.canon <;> rfl

theorem payloadQ_other (q : Canon → Bool) (f : Canon → Canon) (t : Nat) (ht : t ≠ 1)
    (hq : ∀ c, q c = true → c.btype = t) (hf : ∀ c, (f c).btype = c.btype) (l : List Canon) :
    (updFirst q f l).find? (fun c => c.btype == PAYLOAD_BLOCK && c.extOk)
      = l.find? (fun c => c.btype == PAYLOAD_BLOCK && c.extOk) := by
  apply find?_updFirst_other
  intro c hc
  have := hq c hc
  simp [hf c, this, PAYLOAD_BLOCK, ht]

theorem payload_upd (b : Bundle) (node : Eid) (rt now : Nat) :
    (b.updateExtensions node rt now).bundle.payload = b.payload ∧
    (b.updateExtensions node rt now).bundle.canon.length = b.canon.length := by
  have e1 := payloadQ_other isHop bumpHop HOP_COUNT_BLOCK (by decide)
    (fun c hc => by simp only [isHop, Bool.and_eq_true, beq_iff_eq] at hc; exact hc.1) (fun c => (bumpHop_sig c).1)
  have e2 := payloadQ_other isPrev (setPrev node) PREVIOUS_NODE_BLOCK (by decide)
    (fun c hc => by simp only [isPrev, Bool.and_eq_true, beq_iff_eq] at hc; exact hc.1) (fun c => (setPrev_sig node c).1)
  have e3 := payloadQ_other isAge (addAge rt) BUNDLE_AGE_BLOCK (by decide)
    (fun c hc => by simp only [isAge, Bool.and_eq_true, beq_iff_eq] at hc; exact hc.1) (fun c => (addAge_sig rt c).1)
  simp only [Bundle.updateExtensions, hopStep, prevStep, ageStep]
  have k1 : ({ b with canon := updFirst isHop bumpHop b.canon } : Bundle).payload = b.payload ∧
      (updFirst isHop bumpHop b.canon).length = b.canon.length := by
    refine ⟨?_, length_updFirst _ _ _⟩
    unfold Bundle.payload Bundle.blockByType; simp only [e1]
  have k3 : ({ b with canon := updFirst isAge (addAge rt) (updFirst isPrev (setPrev node) (updFirst isHop bumpHop b.canon)) } : Bundle).payload = b.payload ∧
      (updFirst isAge (addAge rt) (updFirst isPrev (setPrev node) (updFirst isHop bumpHop b.canon))).length = b.canon.length := by
    refine ⟨?_, by simp [length_updFirst]⟩
    unfold Bundle.payload Bundle.blockByType; simp only [e3, e2, e1]
  exact ite_prop (fun u : UpdOut => u.bundle.payload = b.payload ∧ u.bundle.canon.length = b.canon.length) _ _ _ k1
    (ite_prop (fun u : UpdOut => u.bundle.payload = b.payload ∧ u.bundle.canon.length = b.canon.length) _ _ _ k3 k3)

/-! ### one step, then any sequence -/

/-- the payload a step leaves behind -/
def payloadAfter (cur : Option Bytes) : Op → Option Bytes
  | .setPayload d => some d
  | .setPayloadBlock _ _ d => some d
  | _ => cur

theorem step_primary (b : Bundle) (op : Op) : ∃ x, (step b op).primary = { b.primary with crc := x } := by
  cases op with
  | add c => refine ⟨b.primary.crc, ?_⟩; simp only [step, Bundle.addBlock]; split <;> rfl
  | setPayload d =>
    refine ⟨b.primary.crc, ?_⟩
    simp only [step, Bundle.setPayload, Bundle.setPayloadBlock, Bundle.addBlock]
    split
    · rfl
    · split <;> rfl
  | setPayloadBlock n f d =>
    refine ⟨b.primary.crc, ?_⟩
    simp only [step, Bundle.setPayloadBlock, Bundle.addBlock]; split <;> rfl
  | setCrc t => exact ⟨CrcVal.ofType t, rfl⟩
  | upd node rt now =>
    refine ⟨b.primary.crc, ?_⟩
    simp only [step, Bundle.updateExtensions]
    exact ite_prop (fun u : UpdOut => u.bundle.primary = _) _ _ _ rfl (ite_prop (fun u : UpdOut => u.bundle.primary = _) _ _ _ rfl rfl)
  | tocbor => exact ⟨b.primary.calcCrc, rfl⟩

theorem opOk_crc (p : Primary) (x : CrcVal) (op : Op) : OpOk { p with crc := x } op ↔ OpOk p op := by
  cases op <;> exact Iff.rfl

/-- **C11 (one step).** Every mutator, with any argument of the property's domain, preserves the
    invariant; the payload afterwards is the one just set, or the previous one. -/
theorem inv_step (b : Bundle) (h : Inv b) (op : Op) (hok : OpOk b.primary op)
    (hlen : b.canon.length + 2 < U64) :
    Inv (step b op) ∧ (step b op).payload = payloadAfter b.payload op ∧
    (step b op).canon.length ≤ b.canon.length + 1 := by
  cases op with
  | add c => exact ⟨inv_add b h c hok hlen, (payload_add b h c).1, (payload_add b h c).2⟩
  | setPayload d =>
    obtain ⟨h1, h2, h3⟩ := inv_setPayload b h d hok
    exact ⟨h1, h2, by show (b.setPayload d).canon.length ≤ _; omega⟩
  | setPayloadBlock n f d =>
    obtain ⟨h1, h2, h3⟩ := inv_setPayloadBlock b h f d hok
    show Inv (b.setPayloadBlock (payloadBlockReq n f d)) ∧ (b.setPayloadBlock (payloadBlockReq n f d)).payload = _ ∧
      (b.setPayloadBlock (payloadBlockReq n f d)).canon.length ≤ _
    rw [setPayloadBlock_num]
    exact ⟨h1, h2, by omega⟩
  | setCrc t =>
    exact ⟨inv_setCrc b h t hok, (payload_setCrc b t).1, by show (b.setCrc t).canon.length ≤ _; rw [(payload_setCrc b t).2]; omega⟩
  | upd node rt now =>
    obtain ⟨k1, k2⟩ := payload_upd b node rt now
    exact ⟨inv_upd b h node rt now hok.1 hok.2.1 hok.2.2, k1, by show (b.updateExtensions node rt now).bundle.canon.length ≤ _; omega⟩
  | tocbor =>
    exact ⟨inv_tocbor b h, (payload_tocbor b).1, by show (b.toCbor).1.canon.length ≤ _; rw [(payload_tocbor b).2]; omega⟩

def lastSet (cur : Option Bytes) (ops : List Op) : Option Bytes := ops.foldl payloadAfter cur

/-- **C11 (any history).** From any bundle satisfying the invariant, after any sequence of
    mutations — of any length — the invariant holds and the payload read back is the one most
    recently set. (`hlen`: the block list stays shorter than 2^64 − 2 blocks.) -/
theorem run_inv (ops : List Op) : ∀ (b : Bundle), Inv b → (∀ op ∈ ops, OpOk b.primary op) →
    b.canon.length + ops.length + 2 < U64 →
    Inv (run b ops) ∧ (run b ops).payload = lastSet b.payload ops := by
  induction ops with
  | nil => intro b h _ _; exact ⟨h, rfl⟩
  | cons op ops ih =>
    intro b h hok hlen
    obtain ⟨h1, h2, h3⟩ := inv_step b h op (hok op (by simp)) (by simp only [List.length_cons] at hlen; omega)
    obtain ⟨x, hx⟩ := step_primary b op
    have := ih (step b op) h1
      (fun o ho => by rw [hx]; exact (opOk_crc b.primary x o).mpr (hok o (by simp [ho])))
      (by simp only [List.length_cons] at hlen; omega)
    simp only [run, lastSet, List.foldl_cons] at this ⊢
    rw [h2] at this
    exact this

/-- **C11.** The property as stated: after any sequence of mutations all clauses hold. -/
theorem mutations_preserve (b : Bundle) (ops : List Op) (h : Inv b) (hok : ∀ op ∈ ops, OpOk b.primary op)
    (hlen : b.canon.length + ops.length + 2 < U64) :
    let r := run b ops
    (r.canon.map (·.num)).Pairwise (· > ·)
    ∧ (r.canon.map (·.num)).Nodup ∧ (∀ c ∈ r.canon, c.num ≠ 0)
    ∧ (∃ init p, r.canon = init ++ [p] ∧ p.btype = 1 ∧ p.num = 1 ∧ ∀ c ∈ init, c.btype ≠ 1)
    ∧ (∀ t, t = 6 ∨ t = 7 ∨ t = 10 → (r.canon.map (·.btype)).count t ≤ 1)
    ∧ r.payload = lastSet b.payload ops
    ∧ r.validate = []
    ∧ decodeBundle (r.toCbor).2 = .ok (r.toCbor).1 := by
  obtain ⟨hi, hp⟩ := run_inv ops b h hok hlen
  obtain ⟨f1, f2, f3, f4, f5, f6, f7⟩ := inv_facts (run b ops) hi
  exact ⟨f1, f2, f3, f4, f5, hp, f6, f7⟩

/-! ### the builders establish the invariant -/

theorem insertDesc_sorted (c : Canon) (l : List Canon) (h : l.Pairwise (fun x y => x.num ≥ y.num)) :
    (insertDesc c l).Pairwise (fun x y => x.num ≥ y.num) := by
  induction l with
  | nil => simp [insertDesc]
  | cons y ys ih =>
    obtain ⟨hy, hys⟩ := List.pairwise_cons.mp h
    simp only [insertDesc]
    split
    · rename_i hlt
      refine List.pairwise_cons.mpr ⟨?_, h⟩
      intro z hz
      rcases List.mem_cons.mp hz with rfl | hz
      · omega
      · have := hy z hz; omega
    · rename_i hge
      refine List.pairwise_cons.mpr ⟨?_, ih hys⟩
      intro z hz
      rcases (mem_insertDesc c z ys).mp hz with rfl | hz
      · omega
      · exact hy z hz

theorem sortDesc_sorted (l : List Canon) : (sortDesc l).Pairwise (fun x y => x.num ≥ y.num) := by
  unfold sortDesc
  suffices ∀ acc : List Canon, acc.Pairwise (fun x y => x.num ≥ y.num) →
      (l.foldl (fun acc x => insertDesc x acc) acc).Pairwise (fun x y => x.num ≥ y.num) from this [] List.Pairwise.nil
  induction l with
  | nil => intro acc h; exact h
  | cons x xs ih => intro acc h; exact ih _ (insertDesc_sorted x acc h)

theorem count_of_pairwise (ts : List Nat)
    (h : ts.Pairwise (fun a b => ¬ (a = b ∧ (b = 6 ∨ b = 7 ∨ b = 10)))) :
    ∀ t, isSingletonType t = true → ts.count t ≤ 1 := by
  induction ts with
  | nil => intro t _; simp
  | cons a rest ih =>
    obtain ⟨ha, hr⟩ := List.pairwise_cons.mp h
    intro t ht
    have hs := (C07.singleton_iff t).mp ht
    rw [List.count_cons]
    by_cases he : a = t
    · subst he
      have : rest.count a = 0 := List.count_eq_zero.mpr (fun hm => ha a hm ⟨rfl, hs⟩)
      simp [this]
    · have : (a == t) = false := by simpa using he
      have := ih hr t ht
      simp_all

/-- **C11 (starting point).** A well-formed bundle that the builder returned and that validates
    satisfies the invariant. -/
theorem inv_of_built (p : Primary) (cs : List Canon) (b : Bundle) (hb : buildBundle p cs = .ok b)
    (hwf : b.wf = true) (hv : b.validate = []) : Inv b := by
  simp only [Bundle.wf, Bool.and_eq_true, List.all_eq_true] at hwf
  unfold Bundle.validate at hv
  simp only [List.append_eq_nil_iff] at hv
  obtain ⟨⟨⟨hpv, hvb⟩, hage⟩, _⟩ := hv
  rw [C07.validateBlocks_nil_iff] at hvb
  obtain ⟨hloc, hcompat⟩ := hvb
  have hblocks : ∀ c ∈ b.canon, blockOk b.primary c := fun c hc => ⟨hwf.2 c hc, (hloc c hc).1⟩
  -- what the builder did
  unfold buildBundle at hb
  simp only at hb
  cases hlast : (sortDesc cs).getLast? with
  | none => simp [hlast] at hb
  | some pl =>
    simp only [hlast] at hb
    cases hpd : pl.data with
    | data d =>
      simp only [hpd, Res.ok.injEq] at hb
      have hcanon : b.canon = sortDesc cs := by rw [← hb]
      have hsorted : b.canon.Pairwise (fun x y => x.num ≥ y.num) := by rw [hcanon]; exact sortDesc_sorted cs
      have hstrict : b.canon.Pairwise (fun x y => x.num > y.num) :=
        (List.Pairwise.and hsorted hcompat).imp (fun ⟨h1, h2⟩ => by have := h2.1; omega)
      obtain ⟨init, hsplit⟩ : ∃ init, b.canon = init ++ [pl] := by
        rw [hcanon]
        rw [List.getLast?_eq_some_iff] at hlast
        exact hlast
      have hplm : pl ∈ b.canon := by rw [hsplit]; simp
      have hple := extOk_of_blockOk (hblocks pl hplm)
      have hplt : pl.btype = 1 ∧ pl.num = 1 := by
        unfold Canon.extOk at hple
        simpa [hpd, PAYLOAD_BLOCK] using hple
      have hinit : ∀ c ∈ init, c.btype ≠ 1 ∧ 2 ≤ c.num := by
        intro c hc
        have hgt : c.num > pl.num := by
          rw [hsplit, List.pairwise_append] at hstrict
          exact hstrict.2.2 c hc pl (by simp)
        refine ⟨?_, by omega⟩
        intro ht
        obtain ⟨_, _, hn⟩ := payload_data (hblocks c (by rw [hsplit]; simp [hc])) ht
        omega
      refine { pwf := hwf.1, pval := hpv, s := ⟨?_, ⟨sig init, ?_, ?_⟩, ?_⟩, blocks := hblocks, age := ?_ }
      · have : (sig b.canon).map (·.2) = b.canon.map (·.num) := by simp [sig]
        rw [this]; exact List.pairwise_map.mpr hstrict
      · rw [hsplit]; simp [sig, hplt.1, hplt.2]
      · intro x hx
        obtain ⟨c, hc, rfl⟩ := List.mem_map.mp hx
        exact hinit c hc
      · have : (sig b.canon).map (·.1) = b.canon.map (·.btype) := by simp [sig]
        rw [this]
        apply count_of_pairwise
        apply List.pairwise_map.mpr
        exact hcompat.imp (fun h => h.2)
      · intro hz
        have : (sig b.canon).map (·.1) = b.canon.map (·.btype) := by simp [sig]
        rw [this]
        by_cases ha : b.canon.any (fun c => c.btype == BUNDLE_AGE_BLOCK) = true
        · obtain ⟨c, hc, hct⟩ := List.any_eq_true.mp ha
          exact List.mem_map.mpr ⟨c, hc, by simpa using hct⟩
        · simp [hz, ha] at hage
    | _ => simp [hpd] at hb

/-! ### non-vacuity: a concrete bundle satisfies `Inv`, a concrete history satisfies `OpOk` -/

def b0 : Bundle :=
  { primary := { version := 7, flags := 0, crc := .no,
                 dst := .dtn 1 [47, 47, 110, 50, 47, 105, 110], src := .ipn 2 23 42, rpt := .null 1 0,
                 ts := 0, seq := 0, lifetime := 3600000, fragOff := 0, total := 0 },
    canon := [ { btype := 7, num := 2, flags := 0, crc := .no, data := .age 0 },
               { btype := 1, num := 1, flags := 0, crc := .no, data := .data [104, 105] } ] }

def ops0 : List Op :=
  [ .add { btype := 10, num := 99, flags := 0, crc := .no, data := .hop 32 0 },
    .add { btype := 10, num := 7, flags := 0, crc := .no, data := .hop 1 1 },
    .add { btype := 192, num := 2, flags := 1, crc := .empty16, data := .unknown [1, 2, 3] },
    .setPayload [1, 2, 3],
    .setCrc 2,
    .setPayloadBlock 0 0 [9],
    .upd (.ipn 2 5 0) 10 1000 ]

theorem inv_b0 : Inv b0 :=
  { pwf := by decide, pval := by decide,
    s := ⟨by decide, ⟨[(7, 2)], by decide, by decide⟩, by
      intro t ht
      rcases (C07.singleton_iff t).mp ht with rfl | rfl | rfl <;> decide⟩,
    blocks := by
      intro c hc
      simp only [b0, List.mem_cons, List.mem_nil_iff, or_false] at hc
      rcases hc with rfl | rfl <;> exact ⟨by decide, by decide, by decide⟩,
    age := fun _ => by decide }

theorem ops0_ok : ∀ op ∈ ops0, OpOk b0.primary op := by
  intro op hop
  simp only [ops0, List.mem_cons, List.mem_nil_iff, or_false] at hop
  rcases hop with rfl | rfl | rfl | rfl | rfl | rfl | rfl
  · exact ⟨by decide, Or.inr ⟨by decide, by decide⟩⟩
  · exact ⟨by decide, Or.inr ⟨by decide, by decide⟩⟩
  · exact ⟨by decide, Or.inr ⟨by decide, by decide⟩⟩
  · show (3 : Nat) < U64; decide
  · show (2 : Nat) ≤ 2; decide
  · exact ⟨by decide, by decide, by decide, by decide⟩
  · exact ⟨by decide, by decide, by decide⟩

example : ((run b0 ops0).canon.map (fun c => (c.btype, c.num))) = [(192, 4), (10, 3), (7, 2), (1, 1)] := by decide
example : (run b0 ops0).payload = some [9] := (run_inv ops0 b0 inv_b0 ops0_ok (by decide)).2

end Bp7.C11
