/-
  C08 — forwarding update enforces hop limit, bundle age and lifetime exactly.
  The clock is the parameter `now` (DTN milliseconds); `rt` is the residence time in ms.
  "Block present" = the first block of that type whose data passes the block's own
  extension validation (what `extension_block_by_type_mut` finds).
-/
import Bp7.Model.Mutate
namespace Bp7.C08
open Bp7

/-- the block the forwarding update looks at for block type `t` -/
def presentBlock (b : Bundle) (t : Nat) : Option Canon :=
  b.canon.find? (fun c => c.btype == t && c.extOk)

def hopOf (b : Bundle) : Option (Nat × Nat) :=
  match presentBlock b HOP_COUNT_BLOCK with
  | some c => (match c.data with | .hop l n => some (l, n) | _ => none)
  | none => none

def ageOf (b : Bundle) : Option Nat :=
  match presentBlock b BUNDLE_AGE_BLOCK with
  | some c => (match c.data with | .age a => some a | _ => none)
  | none => none

/-- after counting this hop the hop count exceeds the limit -/
def hopExceeded (b : Bundle) : Prop := ∃ l n, hopOf b = some (l, n) ∧ n + 1 > l
/-- after adding the residence time the age exceeds the lifetime (both ms) -/
def ageExceeded (b : Bundle) (rt : Nat) : Prop := ∃ a, ageOf b = some a ∧ a + rt > b.primary.lifetime
/-- creation time non-zero and creation time + lifetime not after the current time -/
def expired (b : Bundle) (now : Nat) : Prop := b.primary.ts ≠ 0 ∧ b.primary.ts + b.primary.lifetime ≤ now

theorem hopStep_fst (b : Bundle) : (hopStep b.canon).1 = true ↔ hopExceeded b := by
  unfold hopStep hopExceeded hopOf presentBlock isHop
  cases hh : b.canon.find? (fun c => c.btype == HOP_COUNT_BLOCK && c.extOk) with
  | none => simp
  | some c =>
    cases hd : c.data <;> simp [hd]
    constructor
    · intro h; exact ⟨_, _, ⟨rfl, rfl⟩, h⟩
    · rintro ⟨l, n, ⟨rfl, rfl⟩, h⟩; exact h

/-- an update of the first block satisfying `p` (which never has type `t`) that keeps block
    types does not change what a search for type `t` finds -/
theorem find_after_updFirst (t : Nat) (l : List Canon) (p : Canon → Bool) (f : Canon → Canon)
    (hp : ∀ c, p c = true → c.btype ≠ t) (hf : ∀ c, (f c).btype = c.btype) :
    (updFirst p f l).find? (fun c => c.btype == t && c.extOk)
      = l.find? (fun c => c.btype == t && c.extOk) := by
  induction l with
  | nil => rfl
  | cons c cs ih =>
    simp only [updFirst]
    by_cases hpc : p c = true
    · have h1 := hp c hpc
      have h2 : (f c).btype ≠ t := by rw [hf]; exact h1
      simp [hpc, List.find?_cons, h1, h2]
    · simp only [hpc, Bool.false_eq_true, if_false, List.find?_cons]
      rw [ih]

theorem bumpHop_btype (c : Canon) : (bumpHop c).btype = c.btype := by
  unfold bumpHop; cases c.data <;> rfl
theorem setPrev_btype (n : Eid) (c : Canon) : (setPrev n c).btype = c.btype := by
  unfold setPrev; cases c.data <;> rfl
theorem addAge_btype (rt : Nat) (c : Canon) : (addAge rt c).btype = c.btype := by
  unfold addAge; cases c.data <;> rfl

theorem ageStep_fst (b : Bundle) (node : Eid) (rt : Nat) :
    (ageStep rt b.primary.lifetime (prevStep node (hopStep b.canon).2)).1 = true ↔ ageExceeded b rt := by
  have hfind : (prevStep node (hopStep b.canon).2).find? isAge = b.canon.find? isAge := by
    unfold prevStep hopStep isAge
    simp only
    rw [find_after_updFirst BUNDLE_AGE_BLOCK, find_after_updFirst BUNDLE_AGE_BLOCK]
    · intro c hc; simp only [isHop, Bool.and_eq_true, beq_iff_eq] at hc; rw [hc.1]; decide
    · exact bumpHop_btype
    · intro c hc; simp only [isPrev, Bool.and_eq_true, beq_iff_eq] at hc; rw [hc.1]; decide
    · exact setPrev_btype node
  unfold ageStep ageExceeded ageOf presentBlock
  simp only [hfind]
  unfold isAge
  cases hh : b.canon.find? (fun c => c.btype == BUNDLE_AGE_BLOCK && c.extOk) with
  | none => simp
  | some c => cases hd : c.data <;> simp [hd]

theorem lifetimeExceeded_iff (b : Bundle) (now : Nat) :
    b.primary.lifetimeExceeded now = true ↔ expired b now := by
  unfold Primary.lifetimeExceeded expired
  by_cases h : b.primary.ts = 0 <;> simp [h]

/-- **C08 (return value).** The update returns false exactly when the hop count (counting this
    hop) exceeds the limit, or the age (adding the residence time) exceeds the lifetime, or
    the bundle has expired by the clock — for all values, no width assumptions. -/
theorem update_false_iff (b : Bundle) (node : Eid) (rt now : Nat) :
    (b.updateExtensions node rt now).ret = false ↔
      hopExceeded b ∨ ageExceeded b rt ∨ expired b now := by
  rw [← hopStep_fst, ← ageStep_fst b node rt, ← lifetimeExceeded_iff]
  unfold Bundle.updateExtensions
  simp only
  by_cases h1 : (hopStep b.canon).1 = true
  · simp [h1]
  · by_cases h2 : (ageStep rt b.primary.lifetime (prevStep node (hopStep b.canon).2)).1 = true
    · simp [h1, h2]
    · simp [h1, h2]

/-! ### frame condition -/

/-- what the update may change: data of the present hop-count, bundle-age, previous-node block -/
def expectedCanon (b : Bundle) (node : Eid) (rt : Nat) : List Canon :=
  updFirst isAge (fun c => match c.data with | .age a => { c with data := .age (a + rt) } | _ => c)
    (updFirst isPrev (setPrev node)
      (updFirst isHop (fun c => match c.data with | .hop l n => { c with data := .hop l (n + 1) } | _ => c) b.canon))

theorem updFirst_congr (p : Canon → Bool) (f g : Canon → Canon) (l : List Canon)
    (h : ∀ c ∈ l, p c = true → f c = g c) : updFirst p f l = updFirst p g l := by
  induction l with
  | nil => rfl
  | cons c cs ih =>
    simp only [updFirst]
    by_cases hp : p c = true
    · simp [hp, h c (by simp) hp]
    · simp only [hp, Bool.false_eq_true, if_false]
      rw [ih (fun x hx => h x (List.mem_cons_of_mem _ hx))]

theorem updFirst_of_find (p : Canon → Bool) (f g : Canon → Canon) (l : List Canon)
    (h : ∀ c, l.find? p = some c → f c = g c) : updFirst p f l = updFirst p g l := by
  induction l with
  | nil => rfl
  | cons c cs ih =>
    simp only [updFirst]
    by_cases hp : p c = true
    · have := h c (by simp [List.find?_cons, hp])
      simp [hp, this]
    · simp only [hp, Bool.false_eq_true, if_false]
      rw [ih (fun x hx => h x (by simp [List.find?_cons, hp, hx]))]

/-- **C08 (frame, no wrap).** When the update returns true, the primary block is untouched and
    the block list differs from before only in the present hop-count block (count + 1 exactly, no
    saturation or wrap), the present bundle-age block (age + residence time exactly) and the
    present previous-node block (now naming `node`). Needs the hop limit to be a `u8`. -/
theorem update_true_frame (b : Bundle) (node : Eid) (rt now : Nat)
    (hu8 : ∀ l n, hopOf b = some (l, n) → l < 256)
    (hlife : b.primary.lifetime < U64)
    (h : (b.updateExtensions node rt now).ret = true) :
    (b.updateExtensions node rt now).bundle = { b with canon := expectedCanon b node rt } := by
  have hf : ¬ (b.updateExtensions node rt now).ret = false := by simp [h]
  rw [update_false_iff] at hf
  have hnh : ¬ hopExceeded b := fun x => hf (Or.inl x)
  have hna : ¬ ageExceeded b rt := fun x => hf (Or.inr (Or.inl x))
  have h1 : ¬ (hopStep b.canon).1 = true := by rwa [hopStep_fst]
  have h2 : ¬ (ageStep rt b.primary.lifetime (prevStep node (hopStep b.canon).2)).1 = true := by
    rwa [ageStep_fst]
  unfold Bundle.updateExtensions
  simp only [h1, h2, Bool.false_eq_true, if_false]
  congr 1
  unfold expectedCanon ageStep prevStep hopStep
  simp only
  -- hop: no saturation because count + 1 ≤ limit ≤ 255
  have e1 : updFirst isHop bumpHop b.canon
      = updFirst isHop (fun c => match c.data with | .hop l n => { c with data := .hop l (n + 1) } | _ => c) b.canon := by
    apply updFirst_of_find
    intro c hc
    unfold bumpHop
    cases hd : c.data with
    | hop l n =>
      have ho : hopOf b = some (l, n) := by
        unfold hopOf presentBlock
        unfold isHop at hc
        simp [hc, hd]
      have hl := hu8 l n ho
      have : ¬ n + 1 > l := fun hx => hnh ⟨l, n, ho, hx⟩
      have : min (n + 1) 255 = n + 1 := by omega
      simp [this]
    | _ => rfl
  rw [e1]
  -- age: no saturation because age + rt ≤ lifetime < 2^64
  apply updFirst_of_find
  intro c hc
  unfold addAge
  cases hd : c.data with
  | age a =>
    have hfind : (updFirst isPrev (setPrev node)
        (updFirst isHop (fun c => match c.data with | .hop l n => { c with data := .hop l (n + 1) } | _ => c) b.canon)).find? isAge
        = b.canon.find? isAge := by
      unfold isAge
      rw [find_after_updFirst BUNDLE_AGE_BLOCK, find_after_updFirst BUNDLE_AGE_BLOCK]
      · intro c hc; simp only [isHop, Bool.and_eq_true, beq_iff_eq] at hc; rw [hc.1]; decide
      · intro c; cases c.data <;> rfl
      · intro c hc; simp only [isPrev, Bool.and_eq_true, beq_iff_eq] at hc; rw [hc.1]; decide
      · exact setPrev_btype node
    rw [hfind] at hc
    have ho : ageOf b = some a := by
      unfold ageOf presentBlock
      unfold isAge at hc
      simp [hc, hd]
    have : ¬ a + rt > b.primary.lifetime := fun hx => hna ⟨a, ho, hx⟩
    have : min (a + rt) (U64 - 1) = a + rt := by
      have : U64 = 18446744073709551616 := rfl
      omega
    simp [this]
  | _ => rfl

/-- the same with the age field stored as the code stores it: the sum, or the largest 64-bit value
    when the sum does not fit -/
def expectedCanonSat (b : Bundle) (node : Eid) (rt : Nat) : List Canon :=
  updFirst isAge (fun c => match c.data with | .age a => { c with data := .age (min (a + rt) (U64 - 1)) } | _ => c)
    (updFirst isPrev (setPrev node)
      (updFirst isHop (fun c => match c.data with | .hop l n => { c with data := .hop l (n + 1) } | _ => c) b.canon))

/-- **C08 (frame, any lifetime).** Without the assumption that the lifetime fits 64 bits of
    milliseconds (a `Duration` built through the API may hold more): when the update returns true
    the bundle changes as in `update_true_frame`, except that an age that no longer fits its 64-bit
    field is stored as `2^64 - 1` — it never wraps to a smaller value. -/
theorem update_true_frame_sat (b : Bundle) (node : Eid) (rt now : Nat)
    (hu8 : ∀ l n, hopOf b = some (l, n) → l < 256)
    (h : (b.updateExtensions node rt now).ret = true) :
    (b.updateExtensions node rt now).bundle = { b with canon := expectedCanonSat b node rt } := by
  have hf : ¬ (b.updateExtensions node rt now).ret = false := by simp [h]
  rw [update_false_iff] at hf
  have hnh : ¬ hopExceeded b := fun x => hf (Or.inl x)
  have hna : ¬ ageExceeded b rt := fun x => hf (Or.inr (Or.inl x))
  have h1 : ¬ (hopStep b.canon).1 = true := by rwa [hopStep_fst]
  have h2 : ¬ (ageStep rt b.primary.lifetime (prevStep node (hopStep b.canon).2)).1 = true := by
    rwa [ageStep_fst]
  unfold Bundle.updateExtensions
  simp only [h1, h2, Bool.false_eq_true, if_false]
  congr 1
  unfold expectedCanonSat ageStep prevStep hopStep
  simp only
  have e1 : updFirst isHop bumpHop b.canon
      = updFirst isHop (fun c => match c.data with | .hop l n => { c with data := .hop l (n + 1) } | _ => c) b.canon := by
    apply updFirst_of_find
    intro c hc
    unfold bumpHop
    cases hd : c.data with
    | hop l n =>
      have ho : hopOf b = some (l, n) := by
        unfold hopOf presentBlock
        unfold isHop at hc
        simp [hc, hd]
      have hl := hu8 l n ho
      have : ¬ n + 1 > l := fun hx => hnh ⟨l, n, ho, hx⟩
      have : min (n + 1) 255 = n + 1 := by omega
      simp [this]
    | _ => rfl
  rw [e1]
  apply updFirst_of_find
  intro c _
  unfold addAge
  cases c.data <;> rfl

/-! ### non-vacuity and boundary instances -/
def sample : Bundle :=
  { primary := { version := 7, flags := 0, crc := .no, dst := .dtn 1 [47, 47, 100, 47], src := .ipn 2 1 1,
                 rpt := .null 1 0, ts := 1000, seq := 0, lifetime := 3600000, fragOff := 0, total := 0 },
    canon := [ { btype := 10, num := 4, flags := 0, crc := .no, data := .hop 32 31 },
               { btype := 7, num := 3, flags := 0, crc := .no, data := .age 3599998 },
               { btype := 6, num := 2, flags := 0, crc := .no, data := .prev (.ipn 2 9 0) },
               { btype := 1, num := 1, flags := 0, crc := .no, data := .data [1] } ] }
/-- exactly at the limits: hop 31 -> 32 of 32, age 3599998 + 2 = lifetime, one ms before expiry -/
example : (sample.updateExtensions (.ipn 2 5 0) 2 3600999).ret = true := by decide
example : (sample.updateExtensions (.ipn 2 5 0) 3 3600999).ret = false := by decide   -- age by 1 ms (the F3a case)
example : (sample.updateExtensions (.ipn 2 5 0) 2 3601000).ret = false := by decide   -- expired exactly now
/-- hop count 255 of limit 255: exceeded, no wrap (the F3b case) -/
example : (({ sample with canon := [{ btype := 10, num := 2, flags := 0, crc := .no, data := .hop 255 255 }] } : Bundle).updateExtensions
    (.ipn 2 5 0) 0 0).ret = false := by decide

/-- a lifetime of 2^64 ms + 384 ms, age 5, residence time 2^64: forwarded, age stored as 2^64 - 1 -/
example : (({ sample with primary := { sample.primary with lifetime := 18446744073709551616 + 384 },
                          canon := [{ btype := 7, num := 3, flags := 0, crc := .no, data := .age 5 }] } : Bundle).updateExtensions
    (.ipn 2 5 0) 18446744073709551616 2000).ret = true := by decide


end Bp7.C08
