/-
  C03 — the decoder accepts every conformant RFC 9171 bundle (as produced by the independent
  reference encoder, CRC values computed by the peer) and recovers its content; the decoded
  bundle passes the CRC check and re-encodes to the received bytes.

  Corollaries of C01 (round trip), C02 (encoder = reference) and C04 (fresh CRCs verify), stated
  from the peer's side. `decode_spec_partial` is relative to `CrcAgree` (agreement of the two CRC
  definitions); `decode_spec` discharges it with the theorem C02.crcAgree.
-/
import Bp7.Props.C02
import Bp7.Props.C04
namespace Bp7.C03
open Bp7

/-- full statements -/
def DecodeSpec : Prop := ∀ b : Bundle, b.wf = true →
  ∃ d, decodeBundle (Spec.encode b) = .ok d ∧ C01.eraseCrc d = C01.eraseCrc b ∧ d.crcValid = true
      ∧ (d.toCbor).2 = Spec.encode b

theorem decode_spec_of_eq (b : Bundle) (h : b.wf = true) (heq : (b.toCbor).2 = Spec.encode b) :
    ∃ d, decodeBundle (Spec.encode b) = .ok d ∧ C01.eraseCrc d = C01.eraseCrc b ∧ d.crcValid = true
      ∧ (d.toCbor).2 = Spec.encode b := by
  refine ⟨(b.toCbor).1, ?_, C01.encode_only_crc b, ?_, ?_⟩
  · rw [← heq]; exact C01.decode_encode b h
  · obtain ⟨d, hd, hv⟩ := C04.crcValid_decode_encode b h
    rw [C01.decode_encode b h] at hd
    cases hd; exact hv
  · rw [C01.encode_idem b h]; exact heq

/-- **C03 (partial).** Every conformant bundle is accepted; the decoded bundle has exactly the
    fields, EIDs, block list and block data that were encoded (everything but the CRC values is
    literally `b`; the CRC values are the ones on the wire), verifies, and re-encodes to the
    received bytes. Missing: a proof of `CrcAgree`. -/
theorem decode_spec_partial (hag : CrcAgree) : DecodeSpec :=
  fun b h => decode_spec_of_eq b h (toCbor_eq_spec hag b h)

/-- **C03.** Unconditional: `CrcAgree` is a theorem (C02.crcAgree). -/
theorem decode_spec : DecodeSpec := decode_spec_partial C02.crcAgree

/-- **C03 for bundles without CRCs (unconditional).** -/
theorem decode_spec_nocrc (b : Bundle) (h : b.wf = true)
    (hp : b.primary.crc = .no) (hc : ∀ c ∈ b.canon, c.crc = .no) :
    ∃ d, decodeBundle (Spec.encode b) = .ok d ∧ C01.eraseCrc d = C01.eraseCrc b ∧ d.crcValid = true
      ∧ (d.toCbor).2 = Spec.encode b :=
  decode_spec_of_eq b h (C02.encode_eq_spec_nocrc b h hp hc)

/-- the golden bundle from the crate's documentation, taken as *received bytes*: accepted, with
    both CRC-16 values recovered (kernel evaluation of the decoder model) -/
theorem golden_decodes :
    ∃ d, decodeBundle (Spec.encode C02.golden) = .ok d ∧ d.crcValid = true
      ∧ d.canon.map (·.crc) = [.v16 0x0f 0x56] := by
  refine ⟨(C02.golden.toCbor).1, ?_, ?_, ?_⟩
  · rw [← C02.golden_model]; exact C01.decode_encode _ (by decide)
  · obtain ⟨d, hd, hv⟩ := C04.crcValid_decode_encode C02.golden (by decide)
    rw [C01.decode_encode _ (by decide)] at hd
    cases hd; exact hv
  · decide +kernel

end Bp7.C03
