/-
  C04 — emitted CRCs are CRC-16/X.25 resp. CRC-32C (big-endian) of the block's own encoding
  with the CRC value bytes set to zero; type 0 carries no CRC field; the prior CRC value is
  irrelevant; a freshly encoded bundle passes the CRC check after decoding.

  `crc16` / `crc32c` (Model/Crc.lean) are the reflected bit-serial algorithms; their agreement
  with the catalogue-parameter reference (Spec/Crc.lean: CRC-16/IBM-SDLC, CRC-32/ISCSI, pinned to
  the check values 0x906E / 0xE3069283) and with the `crc` crate is part of the correspondence
  (`crc16` / `crc32` ops print model and reference value; the harness adds the crate's value and
  an independent bitwise implementation).
-/
import Bp7.Props.C01
import Bp7.Spec.Crc
import Bp7.Lemmas.CrcTable
namespace Bp7.C04
open Bp7

/-- the block with its CRC value bytes zeroed -/
def Primary.zeroed (p : Primary) : Primary := { p with crc := p.crc.reset }
def Canon.zeroed (c : Canon) : Canon := { c with crc := c.crc.reset }

/-- **C04 (primary, type 1/2).** The stored CRC after encoding is the CRC of the block's
    encoding with zeroed CRC bytes, big-endian; whatever value was stored before. -/
theorem primary_crc_is_crc_of_zeroed (p : Primary) :
    (p.crc.toCode = 1 → p.updateCrc.crc = be16 (crc16 (encPrimary (Primary.zeroed p)))) ∧
    (p.crc.toCode = 2 → p.updateCrc.crc = be32 (crc32c (encPrimary (Primary.zeroed p)))) ∧
    (p.crc.toCode = 0 → p.updateCrc.crc = .no) := by
  refine ⟨?_, ?_, ?_⟩ <;> intro h <;>
    simp [Primary.updateCrc, Primary.calcCrc, calcCrc, h, Primary.zeroed]

theorem canon_crc_is_crc_of_zeroed (c : Canon) :
    (c.crc.toCode = 1 → c.updateCrc.crc = be16 (crc16 (encCanon (Canon.zeroed c)))) ∧
    (c.crc.toCode = 2 → c.updateCrc.crc = be32 (crc32c (encCanon (Canon.zeroed c)))) ∧
    (c.crc.toCode = 0 → c.updateCrc.crc = .no) := by
  refine ⟨?_, ?_, ?_⟩ <;> intro h <;>
    simp [Canon.updateCrc, Canon.calcCrc, calcCrc, h, Canon.zeroed]

/-- The zeroed block as encoded differs from the block on the wire only in the CRC value
    bytes: same fields, CRC item of the same width holding zeros. -/
theorem zeroed_of_updated (p : Primary) (hk : p.crc.known = true) :
    Primary.zeroed p.updateCrc = Primary.zeroed p := by
  cases hc : p.crc <;> simp [hc, CrcVal.known] at hk <;>
    simp [Primary.zeroed, Primary.updateCrc, Primary.calcCrc, calcCrc, hc, CrcVal.toCode, CrcVal.reset, be16, be32]

/-- **C04 (what is on the wire).** In the bytes of an encoded bundle, the primary block's last
    item is the byte string of the big-endian CRC exactly when the CRC type is 1 or 2, and the
    block has no CRC item when the type is 0. -/
theorem wire_primary (p : Primary) :
    encPrimary p.updateCrc =
      encArrayHead (8 + (if p.isFragment then 2 else 0) + crcFieldCount p.updateCrc.crc)
      ++ encUint p.version ++ encUint p.flags ++ encUint p.crc.toCode
      ++ encEid p.dst ++ encEid p.src ++ encEid p.rpt
      ++ (encArrayHead 2 ++ encUint p.ts ++ encUint p.seq) ++ encUint p.lifetime
      ++ (if p.isFragment then encUint p.fragOff ++ encUint p.total else [])
      ++ encCrcField p.updateCrc.crc := by
  have h0 : p.calcCrc.toCode = p.crc.toCode := calcCrc_toCode _ _ _ p
  have h1 : p.updateCrc.crc = p.calcCrc := rfl
  have h2 : p.updateCrc.isFragment = p.isFragment := rfl
  simp only [encPrimary, h2, h1, h0]
  rfl

theorem no_crc_field_when_type0 (p : Primary) (h : p.crc.toCode = 0) :
    encCrcField p.updateCrc.crc = [] ∧ crcFieldCount p.updateCrc.crc = 0 := by
  have := (primary_crc_is_crc_of_zeroed p).2.2 h
  simp [this, encCrcField, crcFieldCount, CrcVal.bytes]

theorem no_crc_field_when_type0_canon (c : Canon) (h : c.crc.toCode = 0) :
    encCrcField c.updateCrc.crc = [] ∧ crcFieldCount c.updateCrc.crc = 0 := by
  have := (canon_crc_is_crc_of_zeroed c).2.2 h
  simp [this, encCrcField, crcFieldCount, CrcVal.bytes]

/-- **C04 (history independence).** Two bundles that differ only in stored CRC *values* (same
    CRC types) encode to the same bytes. -/
theorem prior_crc_irrelevant (b b' : Bundle) (h : C01.eraseCrc b = C01.eraseCrc b')
    (hk : b.wf = true) (hk' : b'.wf = true) : (b.toCbor).2 = (b'.toCbor).2 := by
  have key : ∀ x : Bundle, x.wf = true → x.calculateCrc = (C01.eraseCrc x).calculateCrc := by
    intro x hx
    simp only [Bundle.wf, Bool.and_eq_true, List.all_eq_true] at hx
    have hpk : x.primary.crc.known = true := by
      have := hx.1; simp only [Primary.wf, Bool.and_eq_true] at this; exact this.1.1.1.1.1.1.1.1.1.2
    have hck : ∀ c ∈ x.canon, c.crc.known = true := by
      intro c hc; have := hx.2 c hc; simp only [Canon.wf, Bool.and_eq_true] at this; exact this.1.1.2
    simp only [Bundle.calculateCrc, C01.eraseCrc, List.map_map]
    congr 1
    · cases hc : x.primary.crc <;> simp [hc, CrcVal.known] at hpk <;>
        simp [Primary.updateCrc, Primary.calcCrc, calcCrc, hc, CrcVal.toCode, CrcVal.reset, CrcVal.ofType]
    · apply List.map_congr_left
      intro c hc
      have := hck c hc
      cases hcc : c.crc <;> simp [hcc, CrcVal.known] at this <;>
        simp [Canon.updateCrc, Canon.calcCrc, calcCrc, hcc, CrcVal.toCode, CrcVal.reset, CrcVal.ofType]
  simp only [Bundle.toCbor, key b hk, key b' hk', h]

theorem checkCrc_updated_primary (p : Primary) (hk : p.crc.known = true) : p.updateCrc.checkCrc = true := by
  have hi := C01.Primary.updateCrc_idem p hk
  have hcalc : p.updateCrc.calcCrc = p.updateCrc.crc := congrArg Primary.crc hi
  simp only [Primary.checkCrc, hcalc]
  have hw0 : p.calcCrc.wire = true := calcCrc_wire _ _ _ p hk
  have hw : p.updateCrc.crc.wire = true := hw0
  cases hc : p.updateCrc.crc <;> simp [hc, CrcVal.wire] at hw <;> simp [checkCrcVal]

theorem checkCrc_updated_canon (c : Canon) (hk : c.crc.known = true) : c.updateCrc.checkCrc = true := by
  have hi := C01.Canon.updateCrc_idem c hk
  have hcalc : c.updateCrc.calcCrc = c.updateCrc.crc := congrArg Canon.crc hi
  simp only [Canon.checkCrc, hcalc]
  have hw0 : c.calcCrc.wire = true := calcCrc_wire _ _ _ c hk
  have hw : c.updateCrc.crc.wire = true := hw0
  cases hc : c.updateCrc.crc <;> simp [hc, CrcVal.wire] at hw <;> simp [checkCrcVal]

/-- **C04 (fresh bundles verify).** Whatever a well-formed bundle's prior CRC state, what the
    decoder returns for its encoding passes the library's CRC check. -/
theorem crcValid_decode_encode (b : Bundle) (h : b.wf = true) :
    ∃ d, decodeBundle (b.toCbor).2 = .ok d ∧ d.crcValid = true := by
  refine ⟨(b.toCbor).1, C01.decode_encode b h, ?_⟩
  simp only [Bundle.wf, Bool.and_eq_true, List.all_eq_true] at h
  have hpk : b.primary.crc.known = true := by
    have := h.1; simp only [Primary.wf, Bool.and_eq_true] at this; exact this.1.1.1.1.1.1.1.1.1.2
  have hck : ∀ c ∈ b.canon, c.crc.known = true := by
    intro c hc; have := h.2 c hc; simp only [Canon.wf, Bool.and_eq_true] at this; exact this.1.1.2
  simp only [Bundle.toCbor, Bundle.crcValid, Bundle.calculateCrc, Bool.and_eq_true, List.all_eq_true,
    List.mem_map]
  refine ⟨checkCrc_updated_primary _ hpk, ?_⟩
  rintro c ⟨c0, hc0, rfl⟩
  exact checkCrc_updated_canon c0 (hck c0 hc0)

/-- **C04 (the `crc` crate's algorithm).** What `crc::Crc::<u16>::new(&CRC_16_IBM_SDLC).checksum`
    / `Crc::<u32>::new(&CRC_32_ISCSI).checksum` compute — modelled as the crate computes it: a
    256-entry table generated from the reversed catalogue polynomial (table.rs / util.rs) and one
    lookup per byte (`update_table`, L = 1, reflect branch) — is the bit-serial `crc16` / `crc32c`
    the theorems above are stated with, for every input. -/
theorem crate_x25_is_crc16 (d : Bytes) : CrcCrate.x25 d = crc16 d := CrcCrate.x25_eq d
theorem crate_castagnoli_is_crc32c (d : Bytes) : CrcCrate.castagnoli d = crc32c d := CrcCrate.castagnoli_eq d

/-- hence the CRC stored by encoding, stated with the crate's own algorithm -/
theorem primary_crc_is_crate_crc (p : Primary) :
    (p.crc.toCode = 1 → p.updateCrc.crc = be16 (CrcCrate.x25 (encPrimary (Primary.zeroed p)))) ∧
    (p.crc.toCode = 2 → p.updateCrc.crc = be32 (CrcCrate.castagnoli (encPrimary (Primary.zeroed p)))) := by
  rw [crate_x25_is_crc16, crate_castagnoli_is_crc32c]
  exact ⟨(primary_crc_is_crc_of_zeroed p).1, (primary_crc_is_crc_of_zeroed p).2.1⟩

theorem canon_crc_is_crate_crc (c : Canon) :
    (c.crc.toCode = 1 → c.updateCrc.crc = be16 (CrcCrate.x25 (encCanon (Canon.zeroed c)))) ∧
    (c.crc.toCode = 2 → c.updateCrc.crc = be32 (CrcCrate.castagnoli (encCanon (Canon.zeroed c)))) := by
  rw [crate_x25_is_crc16, crate_castagnoli_is_crc32c]
  exact ⟨(canon_crc_is_crc_of_zeroed c).1, (canon_crc_is_crc_of_zeroed c).2.1⟩

/-- the table index never leaves the table (the `getD` default of the model is dead code) -/
theorem crate_table_index_in_range16 (crc : BitVec 16) (b : UInt8) :
    CrcCrate.tableIndex crc b < (CrcCrate.table 0x1021#16).size := by
  simpa [CrcCrate.table] using CrcCrate.tableIndex_lt (by decide) crc b
theorem crate_table_index_in_range32 (crc : BitVec 32) (b : UInt8) :
    CrcCrate.tableIndex crc b < (CrcCrate.table 0x1EDC6F41#32).size := by
  simpa [CrcCrate.table] using CrcCrate.tableIndex_lt (by decide) crc b

/-! catalogue pinning of the reference and of the model (same check values) -/
theorem model_crc16_check : (crc16 Spec.check123456789).toNat = 0x906E := by decide +kernel
theorem model_crc32c_check : (crc32c Spec.check123456789).toNat = 0xE3069283 := by decide +kernel

example : (C01.sample.toCbor).1.crcValid = true := by
  obtain ⟨d, hd, hv⟩ := crcValid_decode_encode C01.sample (by decide)
  rw [C01.decode_encode C01.sample (by decide)] at hd
  cases hd; exact hv

end Bp7.C04
