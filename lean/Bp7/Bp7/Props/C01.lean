/-
  C01 — CBOR round trip: decoding an encoded bundle returns the same bundle; encoding is
  deterministic (a function), idempotent, and changes nothing but the stored CRC values.

  `Bundle.wf` is the C01 domain (Lemmas/Codec.lean): every integer within its Rust width,
  canonical endpoint IDs (dtn:none = (1,0), dtn ssp non-empty UTF-8, ipn node ≥ 1), CRC of a
  known type in any prior state (none / empty / stale value), block data matching the block
  type, fragment fields zero unless the fragment flag is set. No bound on the number of
  blocks, on payload sizes or on name lengths (beyond 2^64 - 1, the CBOR length limit).
-/
import Bp7.Lemmas.Codec
namespace Bp7.C01
open Bp7

theorem calculateCrc_wf (b : Bundle) (h : b.wf = true) :
    (b.calculateCrc.primary.wf = true ∧ b.calculateCrc.primary.crc.wire = true) ∧
    (∀ c ∈ b.calculateCrc.canon, c.wf = true ∧ c.crc.wire = true) := by
  simp only [Bundle.wf, Bool.and_eq_true, List.all_eq_true] at h
  refine ⟨b.primary.updateCrc_wf h.1, ?_⟩
  intro c hc
  simp only [Bundle.calculateCrc, List.mem_map] at hc
  obtain ⟨c0, hc0, rfl⟩ := hc
  exact c0.updateCrc_wf (h.2 c0 hc0)

/-- **C01 (round trip).** Decoding the encoding of any well-formed bundle yields exactly the
    bundle as it is after encoding (same blocks in order, same data, CRC types and values). -/
theorem decode_encode (b : Bundle) (h : b.wf = true) :
    decodeBundle (b.toCbor).2 = .ok (b.toCbor).1 := by
  obtain ⟨hp, hc⟩ := calculateCrc_wf b h
  exact decodeBundle_enc b.calculateCrc hp hc

/-- **C01 (round trip, extended domain).** The same for bundles whose blocks carry CRC type codes
    the library does not know (3..255; `CrcValue::Unknown`): such a block is written without a CRC
    field and read back with the same code — on fragments (10 items) and non-fragments (8) alike. -/
theorem decode_encode_x (b : Bundle) (h : b.wfX = true) :
    decodeBundle (b.toCbor).2 = .ok (b.toCbor).1 := by
  simp only [Bundle.wfX, Bool.and_eq_true, List.all_eq_true] at h
  refine decodeBundle_encX b.calculateCrc (b.primary.updateCrc_wfX h.1) ?_
  intro c hc
  simp only [Bundle.calculateCrc, List.mem_map] at hc
  obtain ⟨c0, hc0, rfl⟩ := hc
  exact c0.updateCrc_wfX (h.2 c0 hc0)

/-- erase stored CRC values, keeping the CRC type -/
def eraseCrc (b : Bundle) : Bundle :=
  { primary := { b.primary with crc := CrcVal.ofType b.primary.crc.toCode },
    canon := b.canon.map (fun c => { c with crc := CrcVal.ofType c.crc.toCode }) }

/-- **C01 (only CRC values change).** For every bundle (well-formed or not), encoding leaves
    every field but the stored CRC values untouched, and keeps every CRC type. -/
theorem encode_only_crc (b : Bundle) : eraseCrc (b.toCbor).1 = eraseCrc b := by
  simp only [Bundle.toCbor, eraseCrc, Bundle.calculateCrc, Primary.updateCrc, Primary.calcCrc,
    calcCrc_toCode, List.map_map]
  congr 1
  apply List.map_congr_left
  intro c _
  simp [Canon.updateCrc, Canon.calcCrc, calcCrc_toCode]

theorem Primary.updateCrc_idem (p : Primary) (hk : p.crc.known = true) :
    p.updateCrc.updateCrc = p.updateCrc := by
  cases hc : p.crc <;> simp [hc, CrcVal.known] at hk <;>
    simp [Primary.updateCrc, Primary.calcCrc, calcCrc, hc, CrcVal.toCode, CrcVal.reset, be16, be32]

theorem Canon.updateCrc_idem (c : Canon) (hk : c.crc.known = true) :
    c.updateCrc.updateCrc = c.updateCrc := by
  cases hc : c.crc <;> simp [hc, CrcVal.known] at hk <;>
    simp [Canon.updateCrc, Canon.calcCrc, calcCrc, hc, CrcVal.toCode, CrcVal.reset, be16, be32]

/-- **C01 (idempotence).** Encoding the already encoded bundle again gives the same bundle and
    the same bytes. -/
theorem encode_idem (b : Bundle) (h : b.wf = true) :
    (b.toCbor).1.toCbor = ((b.toCbor).1, (b.toCbor).2) := by
  simp only [Bundle.wf, Bool.and_eq_true, List.all_eq_true] at h
  have hpk : b.primary.crc.known = true := by
    have := h.1; simp only [Primary.wf, Bool.and_eq_true] at this; exact this.1.1.1.1.1.1.1.1.1.2
  have hck : ∀ c ∈ b.canon, c.crc.known = true := by
    intro c hc; have := h.2 c hc; simp only [Canon.wf, Bool.and_eq_true] at this; exact this.1.1.2
  have e : b.calculateCrc.calculateCrc = b.calculateCrc := by
    simp only [Bundle.calculateCrc, Primary.updateCrc_idem _ hpk, List.map_map]
    congr 1
    apply List.map_congr_left
    intro c hc
    exact Canon.updateCrc_idem c (hck c hc)
  simp only [Bundle.toCbor, e]

theorem Primary.updateCrc_idem_x (p : Primary) (hk : p.crc.knownX = true) :
    p.updateCrc.updateCrc = p.updateCrc := by
  cases hc : p.crc <;> simp [hc, CrcVal.knownX] at hk
  case unknown k =>
    have h0 : k ≠ 0 := by omega
    have h1 : k ≠ 1 := by omega
    have h2 : k ≠ 2 := by omega
    simp [Primary.updateCrc, Primary.calcCrc, calcCrc, hc, CrcVal.toCode, h0, h1, h2]
  all_goals simp [Primary.updateCrc, Primary.calcCrc, calcCrc, hc, CrcVal.toCode, CrcVal.reset, be16, be32]

theorem Canon.updateCrc_idem_x (c : Canon) (hk : c.crc.knownX = true) :
    c.updateCrc.updateCrc = c.updateCrc := by
  cases hc : c.crc <;> simp [hc, CrcVal.knownX] at hk
  case unknown k =>
    have h0 : k ≠ 0 := by omega
    have h1 : k ≠ 1 := by omega
    have h2 : k ≠ 2 := by omega
    simp [Canon.updateCrc, Canon.calcCrc, calcCrc, hc, CrcVal.toCode, h0, h1, h2]
  all_goals simp [Canon.updateCrc, Canon.calcCrc, calcCrc, hc, CrcVal.toCode, CrcVal.reset, be16, be32]

/-- **C01 (idempotence, extended domain).** -/
theorem encode_idem_x (b : Bundle) (h : b.wfX = true) :
    (b.toCbor).1.toCbor = ((b.toCbor).1, (b.toCbor).2) := by
  simp only [Bundle.wfX, Bool.and_eq_true, List.all_eq_true] at h
  have hpk : b.primary.crc.knownX = true := by
    have := h.1; simp only [Primary.wfX, Bool.and_eq_true] at this; exact this.2
  have hck : ∀ c ∈ b.canon, c.crc.knownX = true := by
    intro c hc; have := h.2 c hc; simp only [Canon.wfX, Bool.and_eq_true] at this; exact this.2
  have e : b.calculateCrc.calculateCrc = b.calculateCrc := by
    simp only [Bundle.calculateCrc, Primary.updateCrc_idem_x _ hpk, List.map_map]
    congr 1
    apply List.map_congr_left
    intro c hc
    exact Canon.updateCrc_idem_x c (hck c hc)
  simp only [Bundle.toCbor, e]

/-- **C01 (determinism)** is definitional in the model: `toCbor` is a function of the bundle
    value. For the implementation it is part of the correspondence oracle (two encodings of two
    clones are compared). -/
theorem encode_deterministic (b₁ b₂ : Bundle) (h : b₁ = b₂) : b₁.toCbor = b₂.toCbor := by rw [h]

/-! ### non-vacuity: concrete well-formed bundles, incl. a fragment with CRC-32 and an ipn
    source, a stale CRC-16 value, and all five block kinds -/
def sample : Bundle :=
  { primary := { version := 7, flags := 0x20001, crc := .empty32,
                 dst := .dtn 1 [47, 47, 110, 50, 47, 105, 110], src := .ipn 2 23 42, rpt := .null 1 0,
                 ts := 18446744073709551615, seq := 4294967296, lifetime := 3600000,
                 fragOff := 65536, total := 1000000 },
    canon := [ { btype := 10, num := 5, flags := 1, crc := .v16 0xde 0xad, data := .hop 32 3 },
               { btype := 7, num := 4, flags := 0, crc := .no, data := .age 300 },
               { btype := 6, num := 3, flags := 0, crc := .empty16, data := .prev (.dtn 1 [47, 47, 110, 49, 47]) },
               { btype := 192, num := 2, flags := 0, crc := .no, data := .unknown [1, 2, 3] },
               { btype := 1, num := 1, flags := 0, crc := .v32 1 2 3 4, data := .data [0x41, 0x42, 0x43] } ] }

example : sample.wf = true := by decide
example : decodeBundle (sample.toCbor).2 = .ok (sample.toCbor).1 := decode_encode sample (by decide)

/-- a fragment whose primary block has CRC type code 3 and whose payload block has code 255 -/
def sampleX : Bundle :=
  { sample with primary := { sample.primary with crc := .unknown 3 },
                canon := sample.canon.map fun c => if c.btype = 1 then { c with crc := .unknown 255 } else c }
example : sampleX.wfX = true ∧ sampleX.wf = false := by decide
example : decodeBundle (sampleX.toCbor).2 = .ok (sampleX.toCbor).1 := decode_encode_x sampleX (by decide)

end Bp7.C01
