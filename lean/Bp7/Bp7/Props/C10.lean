/-
  C10 — endpoint IDs: parse and print are mutually inverse and accessors agree.
  Strings are UTF-8 byte strings; the delimiters the parser looks at (':' '/' '.') are ASCII, so
  byte-level splitting is what Rust's `str` methods do on valid UTF-8.
-/
import Bp7.Model.Eid
import Bp7.Model.Validate
import Bp7.Lemmas.Codec
import Bp7.Props.C13
namespace Bp7.C10
open Bp7

theorem asc_dtn : asc "dtn" = [100, 116, 110] := by decide
theorem asc_ipn : asc "ipn" = [105, 112, 110] := by decide
theorem asc_none : asc "none" = [110, 111, 110, 101] := by decide
theorem asc_dtn_colon : asc "dtn:" = [100, 116, 110, 58] := by decide
theorem asc_ipn_colon : asc "ipn:" = [105, 112, 110, 58] := by decide
theorem asc_dtn_none : asc "dtn:none" = [100, 116, 110, 58, 110, 111, 110, 101] := by decide
theorem asc_slashnone : asc "//none" = [47, 47, 110, 111, 110, 101] := by decide

/-- the endpoint IDs the parser and the public constructors produce -/
def EidRange : Eid → Prop
  | .null c v => c = 1 ∧ v = 0
  | .dtn c ssp => c = 1 ∧ dtnSspOk ssp = true
  | .ipn c n s => c = 2 ∧ 1 ≤ n ∧ n < U64 ∧ s < U64

/-! ### decimal numbers -/

theorem decStr_ne_nil (n : Nat) : decStr n ≠ [] := by
  unfold decStr
  cases h : n + 1 with
  | zero => omega
  | succ f =>
    simp only [decDigits]
    split
    · simp
    · intro hnil
      -- decDigits with a non-empty accumulator is non-empty
      have : ∀ fuel m (acc : List UInt8), acc ≠ [] → decDigits fuel m acc ≠ [] := by
        intro fuel
        induction fuel with
        | zero => intro m acc h; simpa [decDigits] using h
        | succ k ih =>
          intro m acc h
          simp only [decDigits]
          split
          · simp
          · exact ih _ _ (by simp)
      exact this f _ _ (by simp) hnil

theorem parseU64_decStr (n : Nat) (h : n < U64) : parseU64 (decStr n) = some n := by
  have hd := C13.decStr_digits n
  have hne := decStr_ne_nil n
  unfold parseU64
  cases hs : decStr n with
  | nil => exact absurd hs hne
  | cons c rest =>
    have hc : isDigit c = true := hd c (by simp [hs])
    have h43 : ¬ c.toNat = 43 := by
      simp only [isDigit, Bool.and_eq_true, decide_eq_true_eq] at hc; omega
    simp only [h43, if_false]
    have hall : (c :: rest).all isDigit = true := by
      rw [← hs, List.all_eq_true]; exact hd
    have hv : digitsVal (c :: rest) 0 = n := by rw [← hs]; exact C13.digitsVal_decStr n
    simp [hall, hv, h]

theorem splitOnByte_no (d : UInt8) (s : Bytes) (h : d ∉ s) : splitOnByte d s = [s] := by
  induction s with
  | nil => rfl
  | cons c cs ih =>
    have hc : c ≠ d := fun e => h (by simp [e])
    have := ih (fun hm => h (by simp [hm]))
    simp [splitOnByte, hc, this]

theorem splitOnByte_one (d : UInt8) (a b : Bytes) (ha : d ∉ a) (hb : d ∉ b) :
    splitOnByte d (a ++ d :: b) = [a, b] := by
  induction a with
  | nil => simp [splitOnByte, splitOnByte_no d b hb]
  | cons c cs ih =>
    have hc : c ≠ d := fun e => ha (by simp [e])
    have := ih (fun hm => ha (by simp [hm]))
    simp [splitOnByte, hc, this]

theorem dot_not_in_decStr (n : Nat) : (46 : UInt8) ∉ decStr n := by
  intro h
  have := C13.decStr_digits n 46 h
  simp [isDigit] at this

theorem splitFirst_prefix (d : UInt8) (a b : Bytes) (ha : d ∉ a) : splitFirst d (a ++ d :: b) = some (a, b) := by
  induction a with
  | nil => simp [splitFirst]
  | cons c cs ih =>
    have hc : c ≠ d := fun e => ha (by simp [e])
    have := ih (fun hm => ha (by simp [hm]))
    simp [splitFirst, hc, this]

/-! ### parse ∘ print -/

/-- **C10 (print then parse).** Every endpoint ID obtained from the parser or the public
    constructors prints to a string that parses back to an equal endpoint ID. -/
theorem parse_print (e : Eid) (h : EidRange e) : parseEid (printEid e) = .ok e := by
  cases e with
  | null c v =>
    obtain ⟨rfl, rfl⟩ := h
    simp only [printEid, asc_dtn_none]
    decide
  | dtn c ssp =>
    obtain ⟨rfl, hok⟩ := h
    simp only [dtnSspOk, Bool.and_eq_true] at hok
    have hsf : splitFirst 58 (asc "dtn:" ++ ssp) = some (asc "dtn", ssp) := by
      have := splitFirst_prefix 58 [100, 116, 110] ssp (by decide)
      simpa [asc_dtn_colon, asc_dtn] using this
    simp only [printEid, parseEid, hsf]
    -- the ssp starts with "//" and has a third '/', so it is neither "none" nor "//none"
    have hnn : ¬ ssp = asc "none" := by
      intro he; rw [he, asc_none] at hok; simp [startsWith, SLASH] at hok
    have hsn : ¬ ssp = asc "//none" := by
      intro he; rw [he, asc_slashnone] at hok; simp [SLASH] at hok
    have hmem : SLASH ∈ List.drop 2 ssp := by simpa using hok.2
    simp [hnn, hsn, hok.1, withDtn, hmem]
  | ipn c n s =>
    obtain ⟨rfl, h1, hn, hs⟩ := h
    have hsf : splitFirst 58 (asc "ipn:" ++ decStr n ++ [46] ++ decStr s) = some (asc "ipn", decStr n ++ [46] ++ decStr s) := by
      have := splitFirst_prefix 58 [105, 112, 110] (decStr n ++ [46] ++ decStr s) (by decide)
      simpa [asc_ipn_colon, asc_ipn, List.append_assoc] using this
    have hsp : splitOnByte 46 (decStr n ++ [46] ++ decStr s) = [decStr n, decStr s] := by
      have := splitOnByte_one 46 (decStr n) (decStr s) (dot_not_in_decStr n) (dot_not_in_decStr s)
      simpa [List.append_assoc] using this
    have hne : ¬ asc "ipn" = asc "dtn" := by rw [asc_ipn, asc_dtn]; decide
    simp only [printEid, parseEid, hsf, hne, if_false, if_true, hsp, parseU64_decStr n hn, parseU64_decStr s hs]
    simp [withIpn, h1]

/-- **C10 (CBOR form).** Its CBOR encoding decodes back to an equal endpoint ID (for valid UTF-8
    names of encodable length). -/
theorem cbor_eid_roundtrip (e : Eid) (h : e.wf = true) : fromSlice readEid (encEid e) = .ok e :=
  fromSlice_enc readEid (encEid e) e (readEid_enc e h [] 128 (by omega))

theorem parseU64_lt (s : Bytes) (v : Nat) (h : parseU64 s = some v) : v < U64 := by
  unfold parseU64 at h
  simp at h
  obtain ⟨_, _, hlt, hv⟩ := h
  omega

/-- the range is preserved: what the parser accepts is in the range -/
theorem withDtn_range (h : Bytes) : ∃ ssp, withDtn h = .ok (.dtn 1 ssp) ∧ dtnSspOk ssp = true := by
  unfold withDtn
  by_cases hs : startsWith [SLASH, SLASH] h = true
  · simp only [hs, if_true]
    by_cases hc : SLASH ∈ h.drop 2
    · exact ⟨h, by simp [hc], by simp [dtnSspOk, hs, hc]⟩
    · refine ⟨h ++ [SLASH], by simp [hc], ?_⟩
      have hl : 2 ≤ h.length := by
        simp only [startsWith, beq_iff_eq] at hs
        have := congrArg List.length hs
        simp at this; omega
      simp only [dtnSspOk, Bool.and_eq_true]
      constructor
      · simp only [startsWith, beq_iff_eq] at hs ⊢
        simp only [List.length_cons, List.length_nil] at hs ⊢
        rw [List.take_append_of_le_length (by simpa using hl)]; exact hs
      · rw [List.drop_append_of_le_length (by simpa using hl)]; simp
  · by_cases hc : SLASH ∈ h
    · refine ⟨SLASH :: SLASH :: h, by simp [hs, hc], by simp [dtnSspOk, startsWith, hc]⟩
    · refine ⟨SLASH :: SLASH :: (h ++ [SLASH]), by simp [hs, hc], by simp [dtnSspOk, startsWith]⟩

theorem parse_in_range (s : Bytes) (e : Eid) (h : parseEid s = .ok e) : EidRange e := by
  unfold parseEid at h
  cases hsf : splitFirst 58 s with
  | none => simp [hsf] at h
  | some p =>
    obtain ⟨scheme, rest⟩ := p
    simp only [hsf] at h
    by_cases hd : scheme = asc "dtn"
    · simp only [hd, if_true] at h
      by_cases hn : rest = asc "none"
      · simp only [hn, if_true] at h; cases h; exact ⟨rfl, rfl⟩
      · simp only [hn, if_false] at h
        by_cases hss : startsWith [SLASH, SLASH] rest = true
        · simp only [hss, Bool.not_true, Bool.false_eq_true, if_false] at h
          by_cases hsn : rest = asc "//none"
          · simp [hsn] at h
          · simp only [hsn, if_false] at h
            obtain ⟨ssp, hw, hok⟩ := withDtn_range rest
            rw [hw] at h; cases h; exact ⟨rfl, hok⟩
        · simp [hss] at h
    · simp only [hd, if_false] at h
      by_cases hi : scheme = asc "ipn"
      · simp only [hi, if_true] at h
        split at h
        · rename_i a b _
          cases ha : parseU64 a with
          | none => simp [ha] at h
          | some p1 =>
            cases hb : parseU64 b with
            | none => simp [ha, hb] at h
            | some p2 =>
              simp only [ha, hb, withIpn] at h
              have hp1 : p1 < U64 := parseU64_lt a p1 ha
              have hp2 : p2 < U64 := parseU64_lt b p2 hb
              by_cases hge : p1 ≥ 1
              · simp only [hge, if_true] at h; cases h; exact ⟨rfl, hge, hp1, hp2⟩
              · simp [hge] at h
        · simp at h
      · simp [hi] at h

end Bp7.C10

namespace Bp7.C10
open Bp7

/-! ### accepted and rejected strings -/

theorem accept_none : parseEid (asc "dtn:none") = .ok Eid.dtnNone := by
  rw [asc_dtn_none]; decide

theorem splitOnByte_cons_delim (d : UInt8) (s : Bytes) : splitOnByte d (d :: s) = [] :: splitOnByte d s := by
  simp [splitOnByte]

theorem splitOnByte_prefix (d : UInt8) (a s : Bytes) (ha : d ∉ a) :
    splitOnByte d (a ++ d :: s) = a :: splitOnByte d s := by
  induction a with
  | nil => simp [splitOnByte]
  | cons c cs ih =>
    have hc : c ≠ d := fun e => ha (by simp [e])
    have := ih (fun hm => ha (by simp [hm]))
    simp [splitOnByte, hc, this]

theorem afterNth_prefix (d : UInt8) (k : Nat) (a s : Bytes) (ha : d ∉ a) :
    afterNth d (k + 1) (a ++ d :: s) = afterNth d k s := by
  induction a with
  | nil => simp [afterNth]
  | cons c cs ih =>
    have hc : c ≠ d := fun e => ha (by simp [e])
    have := ih (fun hm => ha (by simp [hm]))
    simp [afterNth, hc, this]

/-- the canonical dtn form "//" node "/" service -/
def dtnSsp (node svc : Bytes) : Bytes := [SLASH, SLASH] ++ node ++ [SLASH] ++ svc

theorem dtnSsp_ok (node svc : Bytes) : dtnSspOk (dtnSsp node svc) = true := by
  simp [dtnSspOk, dtnSsp, startsWith]

theorem dtnNodeName_ssp (node svc : Bytes) (hn : SLASH ∉ node) : dtnNodeName (dtnSsp node svc) = node := by
  unfold dtnNodeName dtnSsp
  have : splitOnByte SLASH ([SLASH, SLASH] ++ node ++ [SLASH] ++ svc) = [] :: [] :: node :: splitOnByte SLASH svc := by
    simp only [List.cons_append, List.nil_append, List.append_assoc, splitOnByte_cons_delim]
    rw [splitOnByte_prefix SLASH node svc hn]
  rw [this]

theorem dtnServiceName_ssp (node svc : Bytes) (hn : SLASH ∉ node) :
    dtnServiceName (dtnSsp node svc) = (if svc.isEmpty then none else some svc) := by
  unfold dtnServiceName dtnSsp
  have : afterNth SLASH 3 ([SLASH, SLASH] ++ node ++ [SLASH] ++ svc) = some svc := by
    simp only [List.cons_append, List.nil_append, List.append_assoc]
    have h1 : afterNth SLASH 3 (SLASH :: SLASH :: (node ++ SLASH :: svc)) = afterNth SLASH 1 (node ++ SLASH :: svc) := by
      simp [afterNth]
    rw [h1, afterNth_prefix SLASH 0 node svc hn]
    simp [afterNth]
  rw [this]

/-- **C10 (canonical dtn strings).** `dtn://node/service` is accepted for every node name
    without '/' and every service string, and node and service are reported unchanged. -/
theorem accept_dtn (node svc : Bytes) (hn : SLASH ∉ node) :
    parseEid (asc "dtn:" ++ dtnSsp node svc) = .ok (.dtn 1 (dtnSsp node svc)) ∧
    (Eid.dtn 1 (dtnSsp node svc)).node = some node ∧
    (Eid.dtn 1 (dtnSsp node svc)).serviceName = (if svc.isEmpty then none else some svc) := by
  refine ⟨?_, ?_, ?_⟩
  · have := parse_print (.dtn 1 (dtnSsp node svc)) ⟨rfl, dtnSsp_ok node svc⟩
    simpa [printEid] using this
  · simp [Eid.node, dtnNodeName_ssp node svc hn]
  · simp [Eid.serviceName, dtnServiceName_ssp node svc hn]

/-- **C10 (canonical ipn strings).** -/
theorem accept_ipn (n s : Nat) (h1 : 1 ≤ n) (hn : n < U64) (hs : s < U64) :
    parseEid (asc "ipn:" ++ decStr n ++ [46] ++ decStr s) = .ok (.ipn 2 n s) ∧
    (Eid.ipn 2 n s).node = some (decStr n) ∧
    (Eid.ipn 2 n s).serviceName = (if s = 0 then none else some (decStr s)) := by
  refine ⟨?_, rfl, rfl⟩
  have := parse_print (.ipn 2 n s) ⟨rfl, h1, hn, hs⟩
  simpa [printEid] using this

theorem splitFirst_none (d : UInt8) (s : Bytes) (h : d ∉ s) : splitFirst d s = none := by
  induction s with
  | nil => rfl
  | cons c cs ih =>
    have hc : c ≠ d := fun e => h (by simp [e])
    simp [splitFirst, hc, ih (fun hm => h (by simp [hm]))]

/-- **C10 (rejections).** -/
theorem reject_no_colon (s : Bytes) (h : (58 : UInt8) ∉ s) : parseEid s = .err .parse := by
  simp [parseEid, splitFirst_none 58 s h]

theorem reject_unknown_scheme (scheme rest : Bytes) (hc : (58 : UInt8) ∉ scheme)
    (h1 : scheme ≠ asc "dtn") (h2 : scheme ≠ asc "ipn") : parseEid (scheme ++ 58 :: rest) = .err .parse := by
  simp [parseEid, splitFirst_prefix 58 scheme rest hc, h1, h2]

theorem reject_dtn_without_slashes (rest : Bytes) (h1 : rest ≠ asc "none")
    (h2 : startsWith [SLASH, SLASH] rest = false) : parseEid (asc "dtn:" ++ rest) = .err .parse := by
  have := splitFirst_prefix 58 [100, 116, 110] rest (by decide)
  have hsf : splitFirst 58 (asc "dtn:" ++ rest) = some (asc "dtn", rest) := by simpa [asc_dtn_colon, asc_dtn] using this
  simp [parseEid, hsf, h1, h2]

theorem reject_dtn_none_host : parseEid (asc "dtn://none") = .err .parse := by
  have : asc "dtn://none" = [100, 116, 110, 58, 47, 47, 110, 111, 110, 101] := by decide
  rw [this]; decide

theorem reject_ipn_node0 (x : Bytes) : (parseEid (asc "ipn:" ++ [48, 46] ++ x)).isErr = true := by
  have hsf : splitFirst 58 (asc "ipn:" ++ [48, 46] ++ x) = some (asc "ipn", [48, 46] ++ x) := by
    have := splitFirst_prefix 58 [105, 112, 110] ([48, 46] ++ x) (by decide)
    simpa [asc_ipn_colon, asc_ipn] using this
  have hne : ¬ asc "ipn" = asc "dtn" := by rw [asc_ipn, asc_dtn]; decide
  have hsp : splitOnByte 46 ([48, 46] ++ x) = [48] :: splitOnByte 46 x := by
    have := splitOnByte_prefix 46 [48] x (by decide)
    simpa using this
  simp only [parseEid, hsf, hne, if_false, if_true, hsp]
  have h0 : parseU64 [48] = some 0 := by decide
  cases hx : splitOnByte 46 x with
  | nil => rfl
  | cons b tl =>
    cases tl with
    | nil =>
      simp only [h0]
      cases parseU64 b <;> simp [withIpn, Res.isErr]
    | cons _ _ => rfl

theorem reject_ipn_one_field (rest : Bytes) (h : (46 : UInt8) ∉ rest) :
    parseEid (asc "ipn:" ++ rest) = .err .parse := by
  have hsf : splitFirst 58 (asc "ipn:" ++ rest) = some (asc "ipn", rest) := by
    have := splitFirst_prefix 58 [105, 112, 110] rest (by decide)
    simpa [asc_ipn_colon, asc_ipn] using this
  have hne : ¬ asc "ipn" = asc "dtn" := by rw [asc_ipn, asc_dtn]; decide
  simp [parseEid, hsf, hne, splitOnByte_no 46 rest h]

theorem reject_ipn_nonnumeric (a b : Bytes) (ha : (46 : UInt8) ∉ a) (hb : (46 : UInt8) ∉ b)
    (h : parseU64 a = none ∨ parseU64 b = none) : parseEid (asc "ipn:" ++ a ++ [46] ++ b) = .err .parse := by
  have hsf : splitFirst 58 (asc "ipn:" ++ a ++ [46] ++ b) = some (asc "ipn", a ++ [46] ++ b) := by
    have := splitFirst_prefix 58 [105, 112, 110] (a ++ [46] ++ b) (by decide)
    simpa [asc_ipn_colon, asc_ipn, List.append_assoc] using this
  have hne : ¬ asc "ipn" = asc "dtn" := by rw [asc_ipn, asc_dtn]; decide
  have hsp : splitOnByte 46 (a ++ [46] ++ b) = [a, b] := by
    have := splitOnByte_one 46 a b ha hb
    simpa [List.append_assoc] using this
  simp only [parseEid, hsf, hne, if_false, if_true, hsp]
  rcases h with h | h
  · simp [h]
  · cases parseU64 a <;> simp [h]

/-! ### derived node IDs and sibling endpoints -/

theorem piece_no_delim (d : UInt8) : ∀ (s : Bytes) (p : Bytes), p ∈ splitOnByte d s → d ∉ p := by
  intro s
  induction s with
  | nil => intro p hp; simp [splitOnByte] at hp; subst hp; simp
  | cons c cs ih =>
    intro p hp
    simp only [splitOnByte] at hp
    by_cases hc : c = d
    · simp only [hc, if_true, List.mem_cons] at hp
      rcases hp with rfl | hp
      · simp
      · exact ih p hp
    · simp only [hc, if_false] at hp
      cases hsp : splitOnByte d cs with
      | nil => simp [hsp] at hp; subst hp; simp; exact fun h => hc h.symm
      | cons x xs =>
        simp only [hsp, List.mem_cons] at hp
        rcases hp with rfl | hp
        · have := ih x (by simp [hsp])
          simp only [List.mem_cons, not_or]
          exact ⟨fun h => hc h.symm, this⟩
        · exact ih p (by simp [hsp, hp])

theorem dtnNodeName_no_slash (ssp : Bytes) : SLASH ∉ dtnNodeName ssp := by
  unfold dtnNodeName
  cases h : splitOnByte SLASH ssp with
  | nil => simp
  | cons a t1 =>
    cases t1 with
    | nil => simp
    | cons b t2 =>
      cases t2 with
      | nil => simp
      | cons n _ => exact piece_no_delim SLASH ssp n (by simp [h])

/-- **C10 (node ID).** The node ID derived from an endpoint ID is itself a parseable node ID
    with the same node part. -/
theorem node_id_parses (e : Eid) (h : EidRange e) (hne : e ≠ Eid.dtnNone) :
    ∃ nid e', e.nodeId = some nid ∧ parseEid nid = .ok e' ∧ e'.node = e.node ∧ e'.isNodeId = true := by
  cases e with
  | null c v => obtain ⟨rfl, rfl⟩ := h; exact absurd rfl hne
  | dtn c ssp =>
    have hns := dtnNodeName_no_slash ssp
    refine ⟨_, .dtn 1 (dtnSsp (dtnNodeName ssp) []), rfl, ?_, ?_, ?_⟩
    · have := (accept_dtn (dtnNodeName ssp) [] hns).1
      have e1 : asc "dtn://" ++ dtnNodeName ssp ++ [SLASH] = asc "dtn:" ++ dtnSsp (dtnNodeName ssp) [] := by
        have : asc "dtn://" = asc "dtn:" ++ [SLASH, SLASH] := by decide
        simp [this, dtnSsp, List.append_assoc]
      rw [e1]; exact this
    · simp [Eid.node, dtnNodeName_ssp _ [] hns]
    · simp [Eid.isNodeId, dtnServiceName_ssp _ [] hns]
  | ipn c n s =>
    obtain ⟨rfl, h1, hn, hs⟩ := h
    refine ⟨_, .ipn 2 n 0, rfl, ?_, rfl, by simp [Eid.isNodeId]⟩
    have := (accept_ipn n 0 h1 hn (by decide)).1
    have e1 : asc "ipn:" ++ decStr n ++ asc ".0" = asc "ipn:" ++ decStr n ++ [46] ++ decStr 0 := by
      have : asc ".0" = [46] ++ decStr 0 := by decide
      simp [this, List.append_assoc]
    rw [e1]; exact this

/-- **C10 (sibling endpoint, dtn).** Deriving a sibling with a new service keeps the node part and
    reports the new service. -/
theorem new_endpoint_dtn (c : Nat) (ssp svc : Bytes) :
    ∃ e', (Eid.dtn c ssp).newEndpoint svc = .ok e' ∧ e'.node = some (dtnNodeName ssp) ∧
      e'.serviceName = (if svc.isEmpty then none else some svc) := by
  have hns := dtnNodeName_no_slash ssp
  refine ⟨.dtn 1 (dtnSsp (dtnNodeName ssp) svc), ?_, ?_, ?_⟩
  · have := (accept_dtn (dtnNodeName ssp) svc hns).1
    have e1 : asc "dtn://" ++ dtnNodeName ssp ++ [SLASH] ++ svc = asc "dtn:" ++ dtnSsp (dtnNodeName ssp) svc := by
      have : asc "dtn://" = asc "dtn:" ++ [SLASH, SLASH] := by decide
      simp [this, dtnSsp, List.append_assoc]
    simp only [Eid.newEndpoint]
    rw [e1]; exact this
  · simp [Eid.node, dtnNodeName_ssp _ svc hns]
  · simp [Eid.serviceName, dtnServiceName_ssp _ svc hns]

/-- `str::trim` leaves a non-empty string of digits alone -/
theorem trim_digits (s : Bytes) (hne : s ≠ []) (hd : ∀ c ∈ s, isDigit c = true) : trim s = s := by
  have notws : ∀ c : UInt8, isDigit c = true →
      ¬ ((9 ≤ c.toNat ∧ c.toNat ≤ 13) ∨ c.toNat = 32) ∧ c.toNat ≠ 0xC2 ∧ c.toNat ≠ 0xE1 ∧ c.toNat ≠ 0xE2 ∧ c.toNat ≠ 0xE3
        ∧ c.toNat ≠ 0x85 ∧ c.toNat ≠ 0xA0 ∧ c.toNat ≠ 0x80 ∧ c.toNat ≠ 0x9F ∧ ¬ (0x80 ≤ c.toNat ∧ c.toNat ≤ 0x8A)
        ∧ c.toNat ≠ 0xA8 ∧ c.toNat ≠ 0xA9 ∧ c.toNat ≠ 0xAF := by
    intro c hc
    simp only [isDigit, Bool.and_eq_true, decide_eq_true_eq] at hc
    omega
  have hstart : trimStart (s.length + 1) s = s := by
    cases hs : s with
    | nil => exact absurd hs hne
    | cons a rest =>
      have ha := notws a (hd a (by simp [hs]))
      have : wsPrefixLen (a :: rest) = 0 := by
        obtain ⟨h1, h2, h3, h4, h5, _⟩ := ha
        unfold wsPrefixLen
        simp only [h1, h2, h3, h4, h5, if_false, false_and]
        cases rest with
        | nil => rfl
        | cons b r2 => cases r2 <;> rfl
      simp [trimStart, this]
  have hrevne : s.reverse ≠ [] := by simpa using hne
  have hend : trimEndRev (s.length + 1) s.reverse = s.reverse := by
    cases hs : s.reverse with
    | nil => exact absurd hs hrevne
    | cons a rest =>
      have ham : a ∈ s := by
        have : a ∈ s.reverse := by rw [hs]; simp
        simpa using this
      have ha := notws a (hd a ham)
      have : wsSuffixLenRev (a :: rest) = 0 := by
        obtain ⟨h1, _, _, _, _, h85, hA0, h80, h9F, hr, hA8, hA9, hAF⟩ := ha
        unfold wsSuffixLenRev
        simp only [h1, h85, hA0, h80, h9F, hr, hA8, hA9, hAF, if_false, and_false, or_false, false_or]
        cases rest with
        | nil => rfl
        | cons b r2 => cases r2 <;> rfl
      simp [trimEndRev, this]
  unfold trim
  rw [hstart, hend, List.reverse_reverse]

/-- **C10 (sibling endpoint, ipn).** For an ipn endpoint ID, deriving a sibling with service number
    `svc` (given in decimal) keeps the node number and reports the new service. -/
theorem new_endpoint_ipn (c node s0 svc : Nat) (hn : 1 ≤ node) (hs : svc < U64) :
    ∃ e', (Eid.ipn c node s0).newEndpoint (decStr svc) = .ok e' ∧ e'.node = some (decStr node) ∧
      e'.serviceName = (if svc = 0 then none else some (decStr svc)) := by
  refine ⟨.ipn 2 node svc, ?_, rfl, rfl⟩
  have ht : trim (decStr svc) = decStr svc := trim_digits _ (decStr_ne_nil svc) (C13.decStr_digits svc)
  simp only [Eid.newEndpoint, ht, parseU64_decStr svc hs, withIpn]
  rw [if_pos hn]

/-- non-vacuity -/
example : EidRange (.dtn 1 (dtnSsp (asc "node1") (asc "in/box"))) := ⟨rfl, dtnSsp_ok _ _⟩
example : parseEid (asc "dtn://node1/in/box") = .ok (.dtn 1 (asc "//node1/in/box")) := by decide
example : (parseEid (asc "ipn:0.5")).isErr = true ∧ (parseEid (asc "ipn:1.2.3")).isErr = true
    ∧ (parseEid (asc "dtn:node")).isErr = true ∧ (parseEid (asc "http://x")).isErr = true := by decide

end Bp7.C10
