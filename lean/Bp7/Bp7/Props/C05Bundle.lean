/-
  C05 at the level of whole bundles on the wire.

  Sender: a bundle `b` whose blocks verify; its bytes are `wire b = 9f ‖ block encodings ‖ ff`.
  Channel: inside the encoding of ONE block (number `k` in wire order, primary = 0) a window of
  at most 2 (CRC-16) / 4 (CRC-32C) consecutive bytes is replaced by different bytes.
  Receiver: ends up with a bundle `b'` whose blocks re-encode to the very bytes received
  (`wire b' = received`, the alarm condition of the property) with the same block ranges.
  Then `b'` does NOT pass `crc_valid` — for windows in the block content (everything before the
  CRC value bytes) as well as for any change of the CRC value bytes themselves.

  What the theorems assume beyond the property text, and why:
  * same block ranges (`hranges`): when corruption of a length head makes the receiver cut the
    byte string into blocks differently, the check runs over other byte ranges than the sender's
    and detection is not an algebraic fact any more;
  * the CRC type code of the hit block is read back unchanged (`hcode'`): the CRC type is itself
    block content, and a block re-read with another CRC type is checked by another algorithm
    (or none). Both cases are exercised by the corruption runs of the correspondence check
    (every bit, every window position), not by these theorems — hence `_partial` is NOT needed
    in the names: the statements are complete for the case they describe, and the file header
    says which cases they do not describe.
-/
import Bp7.Props.C05
namespace Bp7.C05
open Bp7

/-! ### list plumbing -/

theorem flatten_eq_of_lengths : ∀ (L L' : List Bytes), L'.map List.length = L.map List.length →
    L'.flatten = L.flatten → L' = L
  | [], [], _, _ => rfl
  | [], _ :: _, h, _ => by simp at h
  | _ :: _, [], h, _ => by simp at h
  | a :: L, a' :: L', h, hf => by
    simp only [List.map_cons, List.cons.injEq] at h
    simp only [List.flatten_cons] at hf
    have := List.append_inj hf h.1
    rw [this.1, flatten_eq_of_lengths L L' h.2 this.2]

/-- if `L'` has the block lengths of `L` and flattens to `L` with entry `k` replaced by `x`
    (of the same length), then `L'` is `L` with entry `k` replaced by `x` -/
theorem flatten_window_align : ∀ (L L' : List Bytes) (k : Nat) (x : Bytes) (hk : k < L.length),
    L'.map List.length = L.map List.length → x.length = L[k].length →
    L'.flatten = (L.take k).flatten ++ x ++ (L.drop (k + 1)).flatten →
    L'[k]? = some x
  | [], _, _, _, hk, _, _, _ => by simp at hk
  | _ :: _, [], _, _, _, h, _, _ => by simp at h
  | a :: L, a' :: L', 0, x, _, h, hx, hf => by
    simp only [List.map_cons, List.cons.injEq] at h
    simp only [List.flatten_cons, List.take_zero, List.flatten_nil, List.nil_append, Nat.zero_add,
      List.drop_succ_cons, List.drop_zero] at hf
    have := List.append_inj hf (by simpa using h.1.trans hx.symm)
    simp [this.1]
  | a :: L, a' :: L', k + 1, x, hk, h, hx, hf => by
    simp only [List.map_cons, List.cons.injEq] at h
    simp only [List.flatten_cons, List.take_succ_cons, List.drop_succ_cons, List.append_assoc] at hf
    have := List.append_inj hf h.1
    simp only [List.getElem?_cons_succ]
    exact flatten_window_align L L' k x (by simpa using hk) h.2 (by simpa using hx)
      (by simpa [List.append_assoc] using this.2)

/-- two byte strings with a common untouched tail of at least `n` bytes: split off the last `n` -/
theorem window_tail (B B' p0 w₁ w₂ s0 t t' : Bytes) (n : Nat) (ht : t.length = n) (ht' : t'.length = n)
    (hs : n ≤ s0.length) (h : B ++ t = p0 ++ w₁ ++ s0) (h' : B' ++ t' = p0 ++ w₂ ++ s0) :
    t' = t ∧ ∃ s1, B = p0 ++ w₁ ++ s1 ∧ B' = p0 ++ w₂ ++ s1 := by
  have hsplit : s0 = s0.take (s0.length - n) ++ s0.drop (s0.length - n) := (List.take_append_drop _ _).symm
  have hdl : (s0.drop (s0.length - n)).length = n := by simp; omega
  rw [hsplit, ← List.append_assoc] at h h'
  have e := List.append_inj' h (by rw [ht, hdl])
  have e' := List.append_inj' h' (by rw [ht', hdl])
  exact ⟨e'.2.trans e.2.symm, s0.take (s0.length - n), e.1, e'.1⟩

/-! ### one block -/

/-- what the CRC check needs to know about a block, whichever kind it is -/
structure BlockView where
  enc : Bytes     -- its encoding with the stored CRC value
  code : Nat      -- its CRC type code
  check : Bool    -- `check_crc`
  /-- encoding with zeroed CRC value bytes, what the checksum runs over -/
  zenc : Bytes
  stored : Option Bytes
  computed : CrcVal
  deriving DecidableEq

def viewP (p : Primary) : BlockView :=
  ⟨encPrimary p, p.crc.toCode, p.checkCrc, encPrimary (C04.Primary.zeroed p), p.crc.bytes, p.calcCrc⟩
def viewC (c : Canon) : BlockView :=
  ⟨encCanon c, c.crc.toCode, c.checkCrc, encCanon (C04.Canon.zeroed c), c.crc.bytes, c.calcCrc⟩

/-- the facts about a block with CRC-16 that the argument uses -/
def Shape16 (v : BlockView) : Prop :=
  ∃ B x y, v.stored = some [x, y] ∧ v.enc = B ++ [x, y] ∧ v.zenc = B ++ [0, 0] ∧
    v.computed = be16 (crc16 v.zenc) ∧ v.check = (v.computed.bytes == some [x, y])
def Shape32 (v : BlockView) : Prop :=
  ∃ B x y z u, v.stored = some [x, y, z, u] ∧ v.enc = B ++ [x, y, z, u] ∧ v.zenc = B ++ [0, 0, 0, 0] ∧
    v.computed = be32 (crc32c v.zenc) ∧ v.check = (v.computed.bytes == some [x, y, z, u])

/-- the encoding up to (not including) the CRC item -/
def preCrcP (p : Primary) : Bytes :=
  encArrayHead (8 + (if p.isFragment then 2 else 0) + crcFieldCount p.crc)
  ++ encUint p.version ++ encUint p.flags ++ encUint p.crc.toCode
  ++ encEid p.dst ++ encEid p.src ++ encEid p.rpt
  ++ (encArrayHead 2 ++ encUint p.ts ++ encUint p.seq)
  ++ encUint p.lifetime
  ++ (if p.isFragment then encUint p.fragOff ++ encUint p.total else [])
def preCrcC (c : Canon) : Bytes :=
  encArrayHead (5 + crcFieldCount c.crc)
  ++ encUint c.btype ++ encUint c.num ++ encUint c.flags ++ encUint c.crc.toCode
  ++ encBytes (btsd c.data)

theorem encPrimary_split (p : Primary) : encPrimary p = preCrcP p ++ encCrcField p.crc := rfl
theorem encCanon_split (c : Canon) : encCanon c = preCrcC c ++ encCrcField c.crc := rfl

theorem encCrcField_two (x y : UInt8) (c : CrcVal) (h : c.bytes = some [x, y]) : encCrcField c = [0x42] ++ [x, y] := by
  simp [encCrcField, h, encBytes, encHead]
theorem encCrcField_four (x y z u : UInt8) (c : CrcVal) (h : c.bytes = some [x, y, z, u]) :
    encCrcField c = [0x44] ++ [x, y, z, u] := by
  simp [encCrcField, h, encBytes, encHead]

theorem shape16_P (p : Primary) (h : p.crc.toCode = 1) : (viewP p).check = false ∨ Shape16 (viewP p) := by
  have hcalc := (C04.primary_crc_is_crc_of_zeroed p).1 h
  simp only [Primary.updateCrc] at hcalc
  have key : ∀ x y, p.crc.bytes = some [x, y] → p.crc.reset.bytes = some [0, 0] →
      preCrcP (C04.Primary.zeroed p) = preCrcP p → p.checkCrc = (p.calcCrc.bytes == some [x, y]) →
      Shape16 (viewP p) := by
    intro x y hb hz hpre hchk
    refine ⟨preCrcP p ++ [0x42], x, y, hb, ?_, ?_, hcalc, hchk⟩
    · show encPrimary p = _
      rw [encPrimary_split, encCrcField_two x y _ hb, List.append_assoc]
    · show encPrimary (C04.Primary.zeroed p) = _
      rw [encPrimary_split, hpre, show (C04.Primary.zeroed p).crc = p.crc.reset from rfl,
        encCrcField_two 0 0 _ hz, List.append_assoc]
  cases hc : p.crc <;> simp [hc, CrcVal.toCode] at h
  · exact .inr (key 0 0 (by simp [hc, CrcVal.bytes]) (by simp [hc, CrcVal.reset, CrcVal.bytes])
      (by simp only [preCrcP, C04.Primary.zeroed, hc, CrcVal.reset, Primary.isFragment, crcFieldCount, CrcVal.bytes, CrcVal.toCode]; rfl)
      (by simp [Primary.checkCrc, checkCrcVal, hc, CrcVal.bytes]))
  · rename_i a b
    exact .inr (key a b (by simp [hc, CrcVal.bytes]) (by simp [hc, CrcVal.reset, CrcVal.bytes])
      (by simp only [preCrcP, C04.Primary.zeroed, hc, CrcVal.reset, Primary.isFragment, crcFieldCount, CrcVal.bytes, CrcVal.toCode]; rfl)
      (by simp [Primary.checkCrc, checkCrcVal, hc, CrcVal.bytes]))
  · exact .inl (by simp [viewP, Primary.checkCrc, checkCrcVal, hc])

theorem shape32_P (p : Primary) (h : p.crc.toCode = 2) : (viewP p).check = false ∨ Shape32 (viewP p) := by
  have hcalc := (C04.primary_crc_is_crc_of_zeroed p).2.1 h
  simp only [Primary.updateCrc] at hcalc
  have key : ∀ x y z u, p.crc.bytes = some [x, y, z, u] → p.crc.reset.bytes = some [0, 0, 0, 0] →
      preCrcP (C04.Primary.zeroed p) = preCrcP p → p.checkCrc = (p.calcCrc.bytes == some [x, y, z, u]) →
      Shape32 (viewP p) := by
    intro x y z u hb hz hpre hchk
    refine ⟨preCrcP p ++ [0x44], x, y, z, u, hb, ?_, ?_, hcalc, hchk⟩
    · show encPrimary p = _
      rw [encPrimary_split, encCrcField_four x y z u _ hb, List.append_assoc]
    · show encPrimary (C04.Primary.zeroed p) = _
      rw [encPrimary_split, hpre, show (C04.Primary.zeroed p).crc = p.crc.reset from rfl,
        encCrcField_four 0 0 0 0 _ hz, List.append_assoc]
  cases hc : p.crc <;> simp [hc, CrcVal.toCode] at h
  · exact .inr (key 0 0 0 0 (by simp [hc, CrcVal.bytes]) (by simp [hc, CrcVal.reset, CrcVal.bytes])
      (by simp only [preCrcP, C04.Primary.zeroed, hc, CrcVal.reset, Primary.isFragment, crcFieldCount, CrcVal.bytes, CrcVal.toCode]; rfl)
      (by simp [Primary.checkCrc, checkCrcVal, hc, CrcVal.bytes]))
  · rename_i a b c d
    exact .inr (key a b c d (by simp [hc, CrcVal.bytes]) (by simp [hc, CrcVal.reset, CrcVal.bytes])
      (by simp only [preCrcP, C04.Primary.zeroed, hc, CrcVal.reset, Primary.isFragment, crcFieldCount, CrcVal.bytes, CrcVal.toCode]; rfl)
      (by simp [Primary.checkCrc, checkCrcVal, hc, CrcVal.bytes]))
  · exact .inl (by simp [viewP, Primary.checkCrc, checkCrcVal, hc])

theorem shape16_C (p : Canon) (h : p.crc.toCode = 1) : (viewC p).check = false ∨ Shape16 (viewC p) := by
  have hcalc := (C04.canon_crc_is_crc_of_zeroed p).1 h
  simp only [Canon.updateCrc] at hcalc
  have key : ∀ x y, p.crc.bytes = some [x, y] → p.crc.reset.bytes = some [0, 0] →
      preCrcC (C04.Canon.zeroed p) = preCrcC p → p.checkCrc = (p.calcCrc.bytes == some [x, y]) →
      Shape16 (viewC p) := by
    intro x y hb hz hpre hchk
    refine ⟨preCrcC p ++ [0x42], x, y, hb, ?_, ?_, hcalc, hchk⟩
    · show encCanon p = _
      rw [encCanon_split, encCrcField_two x y _ hb, List.append_assoc]
    · show encCanon (C04.Canon.zeroed p) = _
      rw [encCanon_split, hpre, show (C04.Canon.zeroed p).crc = p.crc.reset from rfl,
        encCrcField_two 0 0 _ hz, List.append_assoc]
  cases hc : p.crc <;> simp [hc, CrcVal.toCode] at h
  · exact .inr (key 0 0 (by simp [hc, CrcVal.bytes]) (by simp [hc, CrcVal.reset, CrcVal.bytes])
      (by simp only [preCrcC, C04.Canon.zeroed, hc, CrcVal.reset, crcFieldCount, CrcVal.bytes, CrcVal.toCode] <;> rfl)
      (by simp [Canon.checkCrc, checkCrcVal, hc, CrcVal.bytes]))
  · rename_i a b
    exact .inr (key a b (by simp [hc, CrcVal.bytes]) (by simp [hc, CrcVal.reset, CrcVal.bytes])
      (by simp only [preCrcC, C04.Canon.zeroed, hc, CrcVal.reset, crcFieldCount, CrcVal.bytes, CrcVal.toCode] <;> rfl)
      (by simp [Canon.checkCrc, checkCrcVal, hc, CrcVal.bytes]))
  · exact .inl (by simp [viewC, Canon.checkCrc, checkCrcVal, hc])

theorem shape32_C (p : Canon) (h : p.crc.toCode = 2) : (viewC p).check = false ∨ Shape32 (viewC p) := by
  have hcalc := (C04.canon_crc_is_crc_of_zeroed p).2.1 h
  simp only [Canon.updateCrc] at hcalc
  have key : ∀ x y z u, p.crc.bytes = some [x, y, z, u] → p.crc.reset.bytes = some [0, 0, 0, 0] →
      preCrcC (C04.Canon.zeroed p) = preCrcC p → p.checkCrc = (p.calcCrc.bytes == some [x, y, z, u]) →
      Shape32 (viewC p) := by
    intro x y z u hb hz hpre hchk
    refine ⟨preCrcC p ++ [0x44], x, y, z, u, hb, ?_, ?_, hcalc, hchk⟩
    · show encCanon p = _
      rw [encCanon_split, encCrcField_four x y z u _ hb, List.append_assoc]
    · show encCanon (C04.Canon.zeroed p) = _
      rw [encCanon_split, hpre, show (C04.Canon.zeroed p).crc = p.crc.reset from rfl,
        encCrcField_four 0 0 0 0 _ hz, List.append_assoc]
  cases hc : p.crc <;> simp [hc, CrcVal.toCode] at h
  · exact .inr (key 0 0 0 0 (by simp [hc, CrcVal.bytes]) (by simp [hc, CrcVal.reset, CrcVal.bytes])
      (by simp only [preCrcC, C04.Canon.zeroed, hc, CrcVal.reset, crcFieldCount, CrcVal.bytes, CrcVal.toCode] <;> rfl)
      (by simp [Canon.checkCrc, checkCrcVal, hc, CrcVal.bytes]))
  · rename_i a b c d
    exact .inr (key a b c d (by simp [hc, CrcVal.bytes]) (by simp [hc, CrcVal.reset, CrcVal.bytes])
      (by simp only [preCrcC, C04.Canon.zeroed, hc, CrcVal.reset, crcFieldCount, CrcVal.bytes, CrcVal.toCode] <;> rfl)
      (by simp [Canon.checkCrc, checkCrcVal, hc, CrcVal.bytes]))
  · exact .inl (by simp [viewC, Canon.checkCrc, checkCrcVal, hc])

/-! ### detection for one block, whichever kind -/

theorem be16_bytes_inj (x y : BitVec 16) (h : (be16 x).bytes = (be16 y).bytes) : x = y := by
  apply be16_inj
  simp only [be16, CrcVal.bytes, Option.some.injEq, List.cons.injEq, and_true] at h
  simp only [be16, CrcVal.v16.injEq]; exact h
theorem be32_bytes_inj (x y : BitVec 32) (h : (be32 x).bytes = (be32 y).bytes) : x = y := by
  apply be32_inj
  simp only [be32, CrcVal.bytes, Option.some.injEq, List.cons.injEq, and_true] at h
  simp only [be32, CrcVal.v32.injEq]; exact h

/-- **content window, CRC-16**: the two blocks' own encodings (stored CRC values included) agree
    except inside a window of ≤ 2 bytes that ends at least 2 bytes before the end (i.e. outside
    the CRC value bytes); the first verifies — then the second does not. -/
theorem view_window_16 (v v' : BlockView) (hv : v.check = false ∨ Shape16 v) (hv' : v'.check = false ∨ Shape16 v')
    (hok : v.check = true) (p0 w₁ w₂ s0 : Bytes) (hl : w₁.length = w₂.length) (hn : w₁.length ≤ 2)
    (hne : w₁ ≠ w₂) (hs : 2 ≤ s0.length)
    (he : v.enc = p0 ++ w₁ ++ s0) (he' : v'.enc = p0 ++ w₂ ++ s0) : v'.check = false := by
  rcases hv' with h | ⟨B', x', y', _, henc', hz', hcomp', hchk'⟩
  · exact h
  rcases hv with h | ⟨B, x, y, _, henc, hz, hcomp, hchk⟩
  · rw [h] at hok; exact Bool.noConfusion hok
  rw [henc] at he; rw [henc'] at he'
  obtain ⟨ht, s1, hB, hB'⟩ := window_tail B B' p0 w₁ w₂ s0 [x, y] [x', y'] 2 rfl rfl hs he he'
  simp only [List.cons.injEq, and_true] at ht
  rw [hchk, hcomp, hz, hB, List.append_assoc] at hok
  rw [hchk', hcomp', hz', hB', List.append_assoc, ht.1, ht.2]
  cases hb : (be16 (crc16 (p0 ++ w₂ ++ (s1 ++ [0, 0])))).bytes == some [x, y]
  · rfl
  · exfalso
    have h1 := beq_iff_eq.mp hok
    have h2 := beq_iff_eq.mp hb
    exact crc16_window p0 w₁ w₂ (s1 ++ [0, 0]) hl hn hne (be16_bytes_inj _ _ (h1.trans h2.symm))

theorem view_window_32 (v v' : BlockView) (hv : v.check = false ∨ Shape32 v) (hv' : v'.check = false ∨ Shape32 v')
    (hok : v.check = true) (p0 w₁ w₂ s0 : Bytes) (hl : w₁.length = w₂.length) (hn : w₁.length ≤ 4)
    (hne : w₁ ≠ w₂) (hs : 4 ≤ s0.length)
    (he : v.enc = p0 ++ w₁ ++ s0) (he' : v'.enc = p0 ++ w₂ ++ s0) : v'.check = false := by
  rcases hv' with h | ⟨B', x', y', z', u', _, henc', hz', hcomp', hchk'⟩
  · exact h
  rcases hv with h | ⟨B, x, y, z, u, _, henc, hz, hcomp, hchk⟩
  · rw [h] at hok; exact Bool.noConfusion hok
  rw [henc] at he; rw [henc'] at he'
  obtain ⟨ht, s1, hB, hB'⟩ := window_tail B B' p0 w₁ w₂ s0 [x, y, z, u] [x', y', z', u'] 4 rfl rfl hs he he'
  simp only [List.cons.injEq, and_true] at ht
  rw [hchk, hcomp, hz, hB, List.append_assoc] at hok
  rw [hchk', hcomp', hz', hB', List.append_assoc, ht.1, ht.2.1, ht.2.2.1, ht.2.2.2]
  cases hb : (be32 (crc32c (p0 ++ w₂ ++ (s1 ++ [0, 0, 0, 0])))).bytes == some [x, y, z, u]
  · rfl
  · exfalso
    have h1 := beq_iff_eq.mp hok
    have h2 := beq_iff_eq.mp hb
    exact crc32c_window p0 w₁ w₂ (s1 ++ [0, 0, 0, 0]) hl hn hne (be32_bytes_inj _ _ (h1.trans h2.symm))

/-- **CRC value change, CRC-16**: the encodings agree except in the last two bytes (the CRC value) -/
theorem view_crcvalue_16 (v v' : BlockView) (hv : v.check = false ∨ Shape16 v) (hv' : v'.check = false ∨ Shape16 v')
    (hok : v.check = true) (B t t' : Bytes) (ht : t.length = 2) (ht' : t'.length = 2) (hne : t ≠ t')
    (he : v.enc = B ++ t) (he' : v'.enc = B ++ t') : v'.check = false := by
  rcases hv' with h | ⟨B', x', y', _, henc', hz', hcomp', hchk'⟩
  · exact h
  rcases hv with h | ⟨B0, x, y, _, henc, hz, hcomp, hchk⟩
  · rw [h] at hok; exact Bool.noConfusion hok
  rw [henc] at he; rw [henc'] at he'
  have e := List.append_inj' he (by simp [ht])
  have e' := List.append_inj' he' (by simp [ht'])
  rw [hchk, hcomp, hz, e.1] at hok
  rw [hchk', hcomp', hz', e'.1]
  cases hb : (be16 (crc16 (B ++ [0, 0]))).bytes == some [x', y']
  · rfl
  · exfalso
    have h1 := beq_iff_eq.mp hok
    have h2 := beq_iff_eq.mp hb
    have : [x, y] = [x', y'] := Option.some.inj (h1.symm.trans h2)
    exact hne (e.2.symm.trans (this.trans e'.2))

theorem view_crcvalue_32 (v v' : BlockView) (hv : v.check = false ∨ Shape32 v) (hv' : v'.check = false ∨ Shape32 v')
    (hok : v.check = true) (B t t' : Bytes) (ht : t.length = 4) (ht' : t'.length = 4) (hne : t ≠ t')
    (he : v.enc = B ++ t) (he' : v'.enc = B ++ t') : v'.check = false := by
  rcases hv' with h | ⟨B', x', y', z', u', _, henc', hz', hcomp', hchk'⟩
  · exact h
  rcases hv with h | ⟨B0, x, y, z, u, _, henc, hz, hcomp, hchk⟩
  · rw [h] at hok; exact Bool.noConfusion hok
  rw [henc] at he; rw [henc'] at he'
  have e := List.append_inj' he (by simp [ht])
  have e' := List.append_inj' he' (by simp [ht'])
  rw [hchk, hcomp, hz, e.1] at hok
  rw [hchk', hcomp', hz', e'.1]
  cases hb : (be32 (crc32c (B ++ [0, 0, 0, 0]))).bytes == some [x', y', z', u']
  · rfl
  · exfalso
    have h1 := beq_iff_eq.mp hok
    have h2 := beq_iff_eq.mp hb
    have : [x, y, z, u] = [x', y', z', u'] := Option.some.inj (h1.symm.trans h2)
    exact hne (e.2.symm.trans (this.trans e'.2))

/-! ### whole bundles -/

def views (b : Bundle) : List BlockView := viewP b.primary :: b.canon.map viewC

/-- the bytes `to_cbor` writes for the CRC values the bundle holds -/
def wire (b : Bundle) : Bytes := [0x9f] ++ encBlocks b ++ [0xff]

theorem toCbor_wire (b : Bundle) : (b.toCbor).2 = wire b.calculateCrc := rfl

theorem wire_eq (b : Bundle) : wire b = [0x9f] ++ ((views b).map (·.enc)).flatten ++ [0xff] := by
  simp [wire, encBlocks, views, viewP, viewC, List.map_map, Function.comp_def]

theorem crcValid_eq (b : Bundle) : b.crcValid = (views b).all (·.check) := by
  simp [Bundle.crcValid, views, viewP, viewC, List.all_map, Function.comp_def]

theorem crcValid_false_of_view (b : Bundle) (k : Nat) (v : BlockView) (hv : (views b)[k]? = some v)
    (hf : v.check = false) : b.crcValid = false := by
  rw [crcValid_eq]
  apply Bool.eq_false_iff.mpr
  intro hall
  have := List.all_eq_true.mp hall v (List.mem_of_getElem? hv)
  rw [hf] at this; exact Bool.noConfusion this

theorem check_of_crcValid (b : Bundle) (k : Nat) (v : BlockView) (hv : (views b)[k]? = some v)
    (h : b.crcValid = true) : v.check = true := by
  rw [crcValid_eq] at h
  exact List.all_eq_true.mp h v (List.mem_of_getElem? hv)

theorem view_shape16 (b : Bundle) (k : Nat) (v : BlockView) (hv : (views b)[k]? = some v) (hc : v.code = 1) :
    v.check = false ∨ Shape16 v := by
  have hm := List.mem_of_getElem? hv
  simp only [views, List.mem_cons, List.mem_map] at hm
  rcases hm with rfl | ⟨c, _, rfl⟩
  · exact shape16_P _ hc
  · exact shape16_C _ hc

theorem view_shape32 (b : Bundle) (k : Nat) (v : BlockView) (hv : (views b)[k]? = some v) (hc : v.code = 2) :
    v.check = false ∨ Shape32 v := by
  have hm := List.mem_of_getElem? hv
  simp only [views, List.mem_cons, List.mem_map] at hm
  rcases hm with rfl | ⟨c, _, rfl⟩
  · exact shape32_P _ hc
  · exact shape32_C _ hc

/-- the sender's bytes, cut at block `k` -/
theorem wire_split (b : Bundle) (k : Nat) (v : BlockView) (hv : (views b)[k]? = some v) :
    wire b = [0x9f] ++ (((views b).take k).map (·.enc)).flatten ++ v.enc
      ++ (((views b).drop (k + 1)).map (·.enc)).flatten ++ [0xff] := by
  rw [wire_eq]
  have hk : k < (views b).length := by
    rcases Nat.lt_or_ge k (views b).length with h | h
    · exact h
    · rw [List.getElem?_eq_none h] at hv; cases hv
  have hvk : (views b)[k] = v := by
    rw [List.getElem?_eq_getElem hk] at hv; exact Option.some.inj hv
  conv => lhs; rw [← List.take_append_drop k (views b), List.drop_eq_getElem_cons hk, hvk]
  simp [List.append_assoc]

/-- the received bytes re-encode from `b'` with the sender's block ranges and are the sender's
    bytes with block `k` replaced by `x`: then block `k` of `b'` encodes to `x` -/
theorem block_of_received (b b' : Bundle) (k : Nat) (v v' : BlockView) (x : Bytes)
    (hv : (views b)[k]? = some v) (hv' : (views b')[k]? = some v')
    (hranges : (views b').map (·.enc.length) = (views b).map (·.enc.length))
    (hx : x.length = v.enc.length)
    (hrecv : wire b' = [0x9f] ++ (((views b).take k).map (·.enc)).flatten ++ x
      ++ (((views b).drop (k + 1)).map (·.enc)).flatten ++ [0xff]) : v'.enc = x := by
  have hk : k < (views b).length := by
    rcases Nat.lt_or_ge k (views b).length with h | h
    · exact h
    · rw [List.getElem?_eq_none h] at hv; cases hv
  have hvk : (views b)[k] = v := by
    rw [List.getElem?_eq_getElem hk] at hv; exact Option.some.inj hv
  rw [wire_eq] at hrecv
  simp only [List.append_assoc, List.cons_append, List.nil_append, List.cons.injEq, true_and] at hrecv
  have hflat : ((views b').map (·.enc)).flatten = (((views b).map (·.enc)).take k).flatten ++ x
      ++ (((views b).map (·.enc)).drop (k + 1)).flatten := by
    have := List.append_cancel_right (by simpa [List.append_assoc] using hrecv :
      ((views b').map (·.enc)).flatten ++ [0xff] = ((((views b).take k).map (·.enc)).flatten ++ x
        ++ (((views b).drop (k + 1)).map (·.enc)).flatten) ++ [0xff])
    simpa [List.map_take, List.map_drop] using this
  have := flatten_window_align ((views b).map (·.enc)) ((views b').map (·.enc)) k x (by simpa using hk)
    (by simpa [List.map_map, Function.comp_def] using hranges) (by simp [hvk, hx]) hflat
  rw [List.getElem?_map, hv'] at this
  exact Option.some.inj this

/-- **C05, bundle level, content window.** The receiver's bundle `b'` re-encodes to the received
    bytes, which are the sender's verified bundle `b` with ≤ 2 (CRC-16) / ≤ 4 (CRC-32C)
    consecutive bytes of the content of block `k` replaced (`s0`, the untouched rest of the block,
    contains at least the CRC value bytes): `b'` fails `crc_valid`. -/
theorem bundle_window_detected (b b' : Bundle) (k : Nat) (v v' : BlockView)
    (hv : (views b)[k]? = some v) (hv' : (views b')[k]? = some v')
    (hvalid : b.crcValid = true)
    (hranges : (views b').map (·.enc.length) = (views b).map (·.enc.length))
    (p0 w₁ w₂ s0 : Bytes) (hblock : v.enc = p0 ++ w₁ ++ s0)
    (hrecv : wire b' = [0x9f] ++ (((views b).take k).map (·.enc)).flatten ++ (p0 ++ w₂ ++ s0)
      ++ (((views b).drop (k + 1)).map (·.enc)).flatten ++ [0xff])
    (hl : w₁.length = w₂.length) (hne : w₁ ≠ w₂)
    (hkind : (v.code = 1 ∧ v'.code = 1 ∧ w₁.length ≤ 2 ∧ 2 ≤ s0.length) ∨
             (v.code = 2 ∧ v'.code = 2 ∧ w₁.length ≤ 4 ∧ 4 ≤ s0.length)) :
    b'.crcValid = false := by
  have henc' := block_of_received b b' k v v' (p0 ++ w₂ ++ s0) hv hv' hranges
    (by rw [hblock]; simp [hl]) hrecv
  have hok := check_of_crcValid b k v hv hvalid
  apply crcValid_false_of_view b' k v' hv'
  rcases hkind with ⟨c, c', hn, hs⟩ | ⟨c, c', hn, hs⟩
  · exact view_window_16 v v' (view_shape16 b k v hv c) (view_shape16 b' k v' hv' c') hok p0 w₁ w₂ s0 hl hn hne hs hblock henc'
  · exact view_window_32 v v' (view_shape32 b k v hv c) (view_shape32 b' k v' hv' c') hok p0 w₁ w₂ s0 hl hn hne hs hblock henc'

/-- **C05, bundle level, CRC value change.** Only the CRC value bytes of block `k` (its last 2 / 4
    bytes) differ between what was sent and what was received: `b'` fails `crc_valid`. -/
theorem bundle_crcvalue_detected (b b' : Bundle) (k : Nat) (v v' : BlockView)
    (hv : (views b)[k]? = some v) (hv' : (views b')[k]? = some v')
    (hvalid : b.crcValid = true)
    (hranges : (views b').map (·.enc.length) = (views b).map (·.enc.length))
    (B t t' : Bytes) (hblock : v.enc = B ++ t)
    (hrecv : wire b' = [0x9f] ++ (((views b).take k).map (·.enc)).flatten ++ (B ++ t')
      ++ (((views b).drop (k + 1)).map (·.enc)).flatten ++ [0xff])
    (hne : t ≠ t')
    (hkind : (v.code = 1 ∧ v'.code = 1 ∧ t.length = 2 ∧ t'.length = 2) ∨
             (v.code = 2 ∧ v'.code = 2 ∧ t.length = 4 ∧ t'.length = 4)) :
    b'.crcValid = false := by
  have hlen : (B ++ t').length = v.enc.length := by
    rw [hblock]; rcases hkind with ⟨_, _, h1, h2⟩ | ⟨_, _, h1, h2⟩ <;> simp [h1, h2]
  have henc' := block_of_received b b' k v v' (B ++ t') hv hv' hranges hlen hrecv
  have hok := check_of_crcValid b k v hv hvalid
  apply crcValid_false_of_view b' k v' hv'
  rcases hkind with ⟨c, c', ht, ht'⟩ | ⟨c, c', ht, ht'⟩
  · exact view_crcvalue_16 v v' (view_shape16 b k v hv c) (view_shape16 b' k v' hv' c') hok B t t' ht ht' hne hblock henc'
  · exact view_crcvalue_32 v v' (view_shape32 b k v hv c) (view_shape32 b' k v' hv' c') hok B t t' ht ht' hne hblock henc'

/-! non-vacuity: the sample bundle of C01 as sent (`sent`), and what a receiver holds after the
    last payload byte 0x43 was replaced by 0x63 on the way (`got`: same stored CRC values). All
    hypotheses of `bundle_window_detected` are met by this pair (block 5 = payload block, CRC-32C,
    window = one byte, five untouched bytes `44 c0 c1 c2 c3` after it). -/
def sent : Bundle := (C01.sample.toCbor).1
def got : Bundle :=
  { sent with canon := sent.canon.map fun c => if c.btype = 1 then { c with data := .data [0x41, 0x42, 0x63] } else c }

example : got.crcValid = false := by
  have hv : (views sent)[5]? = some (viewC (sent.canon[4]'(by decide +kernel))) := by decide +kernel
  have hv' : (views got)[5]? = some (viewC (got.canon[4]'(by decide +kernel))) := by decide +kernel
  refine bundle_window_detected sent got 5 _ _ hv hv' ?_ ?_
    ((viewC (sent.canon[4]'(by decide +kernel))).enc.take 8) [0x43] [0x63]
    ((viewC (sent.canon[4]'(by decide +kernel))).enc.drop 9) ?_ ?_ rfl (by decide) (.inr ⟨?_, ?_, by decide, ?_⟩)
  all_goals decide +kernel

end Bp7.C05
