/-
  C05 — the CRC check rejects single-bit and short-burst corruption of a protected block.

  Algebra (Lemmas/CrcLinear.lean): the reflected CRC step is GF(2)-linear and, because the top bit
  of the polynomial is set, a non-zero difference between two runs can neither vanish within the
  next w/8 message bytes nor afterwards. Hence two messages that differ only inside a window of
  ≤ 2 (CRC-16) / ≤ 4 (CRC-32C) bytes never have the same checksum — for every message length,
  every window position and every replacement pattern.

  Block level: the check recomputes the CRC over the re-encoding of the decoded block with a zeroed
  CRC field; if that re-encoding differs from the original's inside such a window (the alarm
  condition of the property) while the CRC field is unchanged, or if only the CRC field changed,
  the check reports invalid.
-/
import Bp7.Lemmas.CrcLinear
import Bp7.Props.C04
namespace Bp7.C05
open Bp7

theorem poly16_top : POLY16.toNat ≥ 2 ^ (16 - 1) := by decide
theorem poly32_top : POLY32.toNat ≥ 2 ^ (32 - 1) := by decide

theorem first_byte_16 (e : UInt8) (he : e ≠ 0) : (crcBits POLY16 8 (zext 16 e)).toNat ≥ 2 ^ (16 - 8) := by
  have key : ∀ n : Fin 256, n.val ≠ 0 → (crcBits POLY16 8 (zext 16 (UInt8.ofNat n.val))).toNat ≥ 2 ^ (16 - 8) := by
    decide +kernel
  have := key ⟨e.toNat, e.toNat_lt⟩ (by
    intro h; apply he; exact UInt8.toNat_inj.mp (by simpa using h))
  simpa using this

theorem first_byte_32 (e : UInt8) (he : e ≠ 0) : (crcBits POLY32 8 (zext 32 e)).toNat ≥ 2 ^ (32 - 8) := by
  have key : ∀ n : Fin 256, n.val ≠ 0 → (crcBits POLY32 8 (zext 32 (UInt8.ofNat n.val))).toNat ≥ 2 ^ (32 - 8) := by
    decide +kernel
  have := key ⟨e.toNat, e.toNat_lt⟩ (by
    intro h; apply he; exact UInt8.toNat_inj.mp (by simpa using h))
  simpa using this

/-- **C05 (CRC-16/X.25).** Any change confined to a window of at most two consecutive bytes —
    in particular any single flipped bit — changes the checksum, whatever surrounds it. -/
theorem crc16_window (pre w₁ w₂ suf : Bytes) (hl : w₁.length = w₂.length) (hn : w₁.length ≤ 2)
    (hne : w₁ ≠ w₂) : crc16 (pre ++ w₁ ++ suf) ≠ crc16 (pre ++ w₂ ++ suf) := by
  unfold crc16
  intro h
  have := feed_window_ne POLY16 (by decide) poly16_top first_byte_16 0xFFFF#16 pre w₁ w₂ suf hl (by omega) hne
  apply this
  have h2 := congrArg (· ^^^ 0xFFFF#16) h
  simpa [BitVec.xor_assoc] using h2

/-- **C05 (CRC-32C).** The same for windows of at most four consecutive bytes. -/
theorem crc32c_window (pre w₁ w₂ suf : Bytes) (hl : w₁.length = w₂.length) (hn : w₁.length ≤ 4)
    (hne : w₁ ≠ w₂) : crc32c (pre ++ w₁ ++ suf) ≠ crc32c (pre ++ w₂ ++ suf) := by
  unfold crc32c
  intro h
  have := feed_window_ne POLY32 (by decide) poly32_top first_byte_32 0xFFFFFFFF#32 pre w₁ w₂ suf hl (by omega) hne
  apply this
  have h2 := congrArg (· ^^^ 0xFFFFFFFF#32) h
  simpa [BitVec.xor_assoc] using h2

/-- a single flipped bit is a one-byte window -/
theorem crc16_bitflip (pre suf : Bytes) (b : UInt8) (mask : UInt8) (hm : mask ≠ 0) :
    crc16 (pre ++ [b ^^^ mask] ++ suf) ≠ crc16 (pre ++ [b] ++ suf) := by
  apply crc16_window pre [b ^^^ mask] [b] suf rfl (by simp)
  intro h
  simp only [List.cons.injEq, and_true] at h
  apply hm
  have := congrArg (b ^^^ ·) h
  simpa [← UInt8.xor_assoc] using this

theorem crc32c_bitflip (pre suf : Bytes) (b : UInt8) (mask : UInt8) (hm : mask ≠ 0) :
    crc32c (pre ++ [b ^^^ mask] ++ suf) ≠ crc32c (pre ++ [b] ++ suf) := by
  apply crc32c_window pre [b ^^^ mask] [b] suf rfl (by simp)
  intro h
  simp only [List.cons.injEq, and_true] at h
  apply hm
  have := congrArg (b ^^^ ·) h
  simpa [← UInt8.xor_assoc] using this

/-! ### from checksums to the stored CRC field -/

theorem be16_inj (x y : BitVec 16) (h : be16 x = be16 y) : x = y := by
  simp only [be16, CrcVal.v16.injEq] at h
  apply BitVec.eq_of_toNat_eq
  have hx := x.isLt
  have hy := y.isLt
  have h1 := congrArg UInt8.toNat h.1
  have h2 := congrArg UInt8.toNat h.2
  simp only [UInt8.toNat_ofNat'] at h1 h2
  omega

theorem be32_inj (x y : BitVec 32) (h : be32 x = be32 y) : x = y := by
  simp only [be32, CrcVal.v32.injEq] at h
  apply BitVec.eq_of_toNat_eq
  have hx := x.isLt
  have hy := y.isLt
  have h1 := congrArg UInt8.toNat h.1
  have h2 := congrArg UInt8.toNat h.2.1
  have h3 := congrArg UInt8.toNat h.2.2.1
  have h4 := congrArg UInt8.toNat h.2.2.2
  simp only [UInt8.toNat_ofNat'] at h1 h2 h3 h4
  omega

/-- **C05 (block content, CRC-16).** A primary block whose (zeroed-CRC) encoding differs from
    that of a verifying block only inside a window of ≤ 2 bytes, with the same stored CRC value,
    fails the check. -/
theorem primary_corruption_detected_16 (p p' : Primary) (a b : UInt8)
    (hc : p.crc = .v16 a b) (hc' : p'.crc = .v16 a b) (hok : p.checkCrc = true)
    (pre w₁ w₂ suf : Bytes) (hl : w₁.length = w₂.length) (hn : w₁.length ≤ 2) (hne : w₁ ≠ w₂)
    (he : encPrimary (C04.Primary.zeroed p) = pre ++ w₁ ++ suf)
    (he' : encPrimary (C04.Primary.zeroed p') = pre ++ w₂ ++ suf) :
    p'.checkCrc = false := by
  have h1 := (C04.primary_crc_is_crc_of_zeroed p).1 (by simp [hc, CrcVal.toCode])
  have h1' := (C04.primary_crc_is_crc_of_zeroed p').1 (by simp [hc', CrcVal.toCode])
  simp only [Primary.updateCrc] at h1 h1'
  simp only [Primary.checkCrc, checkCrcVal, hc, hc'] at hok ⊢
  rw [h1, he] at hok
  rw [h1', he']
  have hw := crc16_window pre w₁ w₂ suf hl hn hne
  -- the stored bytes equal the first checksum, hence differ from the second
  simp only [be16, CrcVal.bytes, beq_iff_eq, Option.some.injEq] at hok
  cases hb : (be16 (crc16 (pre ++ w₂ ++ suf))).bytes == (CrcVal.v16 a b).bytes
  · rfl
  · exfalso
    simp only [be16, CrcVal.bytes, beq_iff_eq, Option.some.injEq] at hb
    apply hw
    apply be16_inj
    simp only [be16, CrcVal.v16.injEq]
    simp only [List.cons.injEq, and_true] at hok hb
    exact ⟨hok.1.trans hb.1.symm, hok.2.trans hb.2.symm⟩


/-- **C05 (block content, CRC-32C, primary).** Window of ≤ 4 bytes. -/
theorem primary_corruption_detected_32 (p p' : Primary) (a b c d : UInt8)
    (hc : p.crc = .v32 a b c d) (hc' : p'.crc = .v32 a b c d) (hok : p.checkCrc = true)
    (pre w₁ w₂ suf : Bytes) (hl : w₁.length = w₂.length) (hn : w₁.length ≤ 4) (hne : w₁ ≠ w₂)
    (he : encPrimary (C04.Primary.zeroed p) = pre ++ w₁ ++ suf)
    (he' : encPrimary (C04.Primary.zeroed p') = pre ++ w₂ ++ suf) :
    p'.checkCrc = false := by
  have h1 := (C04.primary_crc_is_crc_of_zeroed p).2.1 (by simp [hc, CrcVal.toCode])
  have h1' := (C04.primary_crc_is_crc_of_zeroed p').2.1 (by simp [hc', CrcVal.toCode])
  simp only [Primary.updateCrc] at h1 h1'
  simp only [Primary.checkCrc, checkCrcVal, hc, hc'] at hok ⊢
  rw [h1, he] at hok
  rw [h1', he']
  have hw := crc32c_window pre w₁ w₂ suf hl hn hne
  simp only [be32, CrcVal.bytes, beq_iff_eq, Option.some.injEq] at hok
  cases hb : (be32 (crc32c (pre ++ w₂ ++ suf))).bytes == (CrcVal.v32 a b c d).bytes
  · rfl
  · exfalso
    simp only [be32, CrcVal.bytes, beq_iff_eq, Option.some.injEq] at hb
    apply hw
    apply be32_inj
    simp only [be32, CrcVal.v32.injEq]
    simp only [List.cons.injEq, and_true] at hok hb
    exact ⟨hok.1.trans hb.1.symm, hok.2.1.trans hb.2.1.symm, hok.2.2.1.trans hb.2.2.1.symm, hok.2.2.2.trans hb.2.2.2.symm⟩

/-- **C05 (block content, CRC-16, canonical block).** -/
theorem canon_corruption_detected_16 (p p' : Canon) (a b : UInt8)
    (hc : p.crc = .v16 a b) (hc' : p'.crc = .v16 a b) (hok : p.checkCrc = true)
    (pre w₁ w₂ suf : Bytes) (hl : w₁.length = w₂.length) (hn : w₁.length ≤ 2) (hne : w₁ ≠ w₂)
    (he : encCanon (C04.Canon.zeroed p) = pre ++ w₁ ++ suf)
    (he' : encCanon (C04.Canon.zeroed p') = pre ++ w₂ ++ suf) :
    p'.checkCrc = false := by
  have h1 := (C04.canon_crc_is_crc_of_zeroed p).1 (by simp [hc, CrcVal.toCode])
  have h1' := (C04.canon_crc_is_crc_of_zeroed p').1 (by simp [hc', CrcVal.toCode])
  simp only [Canon.updateCrc] at h1 h1'
  simp only [Canon.checkCrc, checkCrcVal, hc, hc'] at hok ⊢
  rw [h1, he] at hok
  rw [h1', he']
  have hw := crc16_window pre w₁ w₂ suf hl hn hne
  simp only [be16, CrcVal.bytes, beq_iff_eq, Option.some.injEq] at hok
  cases hb : (be16 (crc16 (pre ++ w₂ ++ suf))).bytes == (CrcVal.v16 a b).bytes
  · rfl
  · exfalso
    simp only [be16, CrcVal.bytes, beq_iff_eq, Option.some.injEq] at hb
    apply hw
    apply be16_inj
    simp only [be16, CrcVal.v16.injEq]
    simp only [List.cons.injEq, and_true] at hok hb
    exact ⟨hok.1.trans hb.1.symm, hok.2.trans hb.2.symm⟩

/-- **C05 (block content, CRC-32C, canonical block).** -/
theorem canon_corruption_detected_32 (p p' : Canon) (a b c d : UInt8)
    (hc : p.crc = .v32 a b c d) (hc' : p'.crc = .v32 a b c d) (hok : p.checkCrc = true)
    (pre w₁ w₂ suf : Bytes) (hl : w₁.length = w₂.length) (hn : w₁.length ≤ 4) (hne : w₁ ≠ w₂)
    (he : encCanon (C04.Canon.zeroed p) = pre ++ w₁ ++ suf)
    (he' : encCanon (C04.Canon.zeroed p') = pre ++ w₂ ++ suf) :
    p'.checkCrc = false := by
  have h1 := (C04.canon_crc_is_crc_of_zeroed p).2.1 (by simp [hc, CrcVal.toCode])
  have h1' := (C04.canon_crc_is_crc_of_zeroed p').2.1 (by simp [hc', CrcVal.toCode])
  simp only [Canon.updateCrc] at h1 h1'
  simp only [Canon.checkCrc, checkCrcVal, hc, hc'] at hok ⊢
  rw [h1, he] at hok
  rw [h1', he']
  have hw := crc32c_window pre w₁ w₂ suf hl hn hne
  simp only [be32, CrcVal.bytes, beq_iff_eq, Option.some.injEq] at hok
  cases hb : (be32 (crc32c (pre ++ w₂ ++ suf))).bytes == (CrcVal.v32 a b c d).bytes
  · rfl
  · exfalso
    simp only [be32, CrcVal.bytes, beq_iff_eq, Option.some.injEq] at hb
    apply hw
    apply be32_inj
    simp only [be32, CrcVal.v32.injEq]
    simp only [List.cons.injEq, and_true] at hok hb
    exact ⟨hok.1.trans hb.1.symm, hok.2.1.trans hb.2.1.symm, hok.2.2.1.trans hb.2.2.1.symm, hok.2.2.2.trans hb.2.2.2.symm⟩

/-- **C05 (bundle level).** `crc_valid` demands every block: one failing block — primary or any
    canonical block, wherever it stands — makes the whole bundle fail. -/
theorem bundle_fails_if_block_fails (b : Bundle)
    (h : b.primary.checkCrc = false ∨ ∃ c ∈ b.canon, c.checkCrc = false) : b.crcValid = false := by
  unfold Bundle.crcValid
  rcases h with h | ⟨c, hc, hf⟩
  · simp [h]
  · have : b.canon.all Canon.checkCrc = false := by
      apply Bool.eq_false_iff.mpr
      intro hall
      have := List.all_eq_true.mp hall c hc
      rw [hf] at this; exact Bool.noConfusion this
    simp [this]

/-- **C05 (CRC value change).** A block that verifies stops verifying when only its stored CRC
    value is changed (same encoding otherwise). -/
theorem crc_value_change_detected (stored stored' computed : CrcVal)
    (hok : checkCrcVal stored computed = true) (hk : stored.wire = true) (hk' : stored'.wire = true)
    (hne : stored'.bytes ≠ stored.bytes) (hno : stored ≠ .no) (hno' : stored' ≠ .no) :
    checkCrcVal stored' computed = false := by
  cases stored <;> simp [CrcVal.wire] at hk <;> cases stored' <;> simp [CrcVal.wire] at hk' <;>
    simp_all [checkCrcVal] <;> (intro h; exact hne h.symm)

/-- **C05 (no false alarms).** An uncorrupted freshly encoded bundle passes; blocks without CRC
    pass trivially. -/
theorem uncorrupted_passes (b : Bundle) (h : b.wf = true) :
    ∃ d, decodeBundle (b.toCbor).2 = .ok d ∧ d.crcValid = true := C04.crcValid_decode_encode b h

theorem no_crc_passes (computed : CrcVal) : checkCrcVal .no computed = true := rfl

/-! non-vacuity: a concrete 2-byte burst -/
example : crc16 ([1, 2] ++ [0xAA, 0xBB] ++ [9]) ≠ crc16 ([1, 2] ++ [0x55, 0x44] ++ [9]) :=
  crc16_window [1, 2] [0xAA, 0xBB] [0x55, 0x44] [9] rfl (by decide) (by decide)

end Bp7.C05
