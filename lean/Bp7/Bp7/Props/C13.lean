/-
  C13 — bundle IDs: the ID depends only on the identity fields; equal IDs iff equal identity.
  The "only if" direction is FALSE of the code (known finding K1: '-' separates the fields and
  may occur in the source EID); it is stated in full, refuted by a concrete witness, and proved
  for bundles with the same source (`…_partial`).
-/
import Bp7.Model.Admin
namespace Bp7.C13
open Bp7

/-- the fields a bundle ID may depend on -/
def Identity (b : Bundle) : Bytes × Nat × Nat × Bool × Nat :=
  (printEid b.primary.src, b.primary.ts, b.primary.seq, b.primary.isFragment,
   if b.primary.isFragment then b.primary.fragOff else 0)

/-- **C13 (functional dependence).** Bundles agreeing on source, creation timestamp, sequence
    number, fragment-ness and (for fragments) offset have the same ID — whatever their
    destination, report-to, lifetime, other flags, blocks or CRCs. -/
theorem id_depends_only (b₁ b₂ : Bundle) (h : Identity b₁ = Identity b₂) : b₁.id = b₂.id := by
  simp only [Identity, Prod.mk.injEq] at h
  obtain ⟨h1, h2, h3, h4, h5⟩ := h
  unfold Bundle.id
  rw [h1, h2, h3, h4]
  by_cases hf : b₂.primary.isFragment = true
  · simp only [h4, hf, if_true] at h5 ⊢; rw [h5]
  · simp [hf]

/-- the full converse: equal IDs force equal identity -/
def IdInjective : Prop := ∀ b₁ b₂ : Bundle, b₁.id = b₂.id → Identity b₁ = Identity b₂

def k1a : Bundle :=
  { primary := { version := 7, flags := 0, crc := .no, dst := .null 1 0,
                 src := .dtn 1 [47, 47, 110, 47, 97, 45, 49],   -- "//n/a-1"
                 rpt := .null 1 0, ts := 2, seq := 3, lifetime := 0, fragOff := 0, total := 0 },
    canon := [] }
def k1b : Bundle :=
  { primary := { version := 7, flags := 1, crc := .no, dst := .null 1 0,
                 src := .dtn 1 [47, 47, 110, 47, 97],           -- "//n/a"
                 rpt := .null 1 0, ts := 1, seq := 2, lifetime := 0, fragOff := 3, total := 9 },
    canon := [] }

/-- **Known finding K1**: `dtn://n/a-1`, 2, 3 (not a fragment) and `dtn://n/a`, 1, 2, fragment
    offset 3 both have the ID `dtn://n/a-1-2-3`. -/
theorem id_not_injective : ¬ IdInjective := by
  intro h
  have := h k1a k1b (by decide)
  revert this
  decide

/-! ### decimal strings contain no '-' and determine the number -/

theorem decDigits_spec : ∀ fuel n acc, (∀ c ∈ acc, isDigit c = true) →
    ∀ c ∈ decDigits fuel n acc, isDigit c = true := by
  intro fuel
  induction fuel with
  | zero => intro n acc h; simpa [decDigits] using h
  | succ f ih =>
    intro n acc h
    have hd : isDigit (UInt8.ofNat (48 + n % 10)) = true := by
      have : n % 10 < 10 := Nat.mod_lt _ (by decide)
      simp [isDigit, UInt8.toNat_ofNat']
      omega
    simp only [decDigits]
    split
    · intro c hc
      rcases List.mem_cons.mp hc with rfl | hc
      · exact hd
      · exact h c hc
    · apply ih
      intro c hc
      rcases List.mem_cons.mp hc with rfl | hc
      · exact hd
      · exact h c hc

theorem decStr_digits (n : Nat) : ∀ c ∈ decStr n, isDigit c = true :=
  decDigits_spec _ _ [] (by simp)

theorem decStr_no_dash (n : Nat) : DASH ∉ decStr n := by
  intro h
  have := decStr_digits n DASH h
  simp [isDigit, DASH] at this

/-- `digitsVal` inverts `decDigits` -/
theorem digitsVal_append (a b : Bytes) (acc : Nat) : digitsVal (a ++ b) acc = digitsVal b (digitsVal a acc) := by
  induction a generalizing acc with
  | nil => rfl
  | cons x xs ih => simp [digitsVal, ih]

theorem decDigits_val : ∀ fuel n acc, n < 10 ^ fuel →
    digitsVal (decDigits fuel n acc) 0 = digitsVal acc n := by
  intro fuel
  induction fuel with
  | zero => intro n acc h; simp at h; subst h; simp [decDigits]
  | succ f ih =>
    intro n acc h
    have hm : n % 10 < 10 := Nat.mod_lt _ (by decide)
    have hd : (UInt8.ofNat (48 + n % 10)).toNat - 48 = n % 10 := by
      rw [UInt8.toNat_ofNat']; omega
    simp only [decDigits]
    split
    · rename_i h0
      have : n < 10 := by omega
      have e : (48 + n) % 256 - 48 = n := by omega
      simp [digitsVal, Nat.mod_eq_of_lt this, e]
    · rename_i h0
      have hlt : n / 10 < 10 ^ f := by
        rw [Nat.pow_succ] at h; omega
      rw [ih _ _ hlt]
      simp only [digitsVal, hd]
      congr 1
      omega

theorem lt_ten_pow (n : Nat) : n < 10 ^ (n + 1) := by
  induction n with
  | zero => decide
  | succ k ih => rw [Nat.pow_succ]; omega

theorem digitsVal_decStr (n : Nat) : digitsVal (decStr n) 0 = n := by
  unfold decStr
  rw [decDigits_val _ _ _ (lt_ten_pow n)]
  rfl

theorem decStr_injective (a b : Nat) (h : decStr a = decStr b) : a = b := by
  have := congrArg (fun s => digitsVal s 0) h
  simpa [digitsVal_decStr] using this

/-- splitting at the first '-' of `x ++ '-' :: rest` when `x` has no '-' -/
theorem append_dash_cancel : ∀ (x y r s : Bytes), DASH ∉ x → DASH ∉ y →
    x ++ DASH :: r = y ++ DASH :: s → x = y ∧ r = s
  | [], [], r, s, _, _, h => by simpa using h
  | [], c :: y, r, s, _, hy, h => by
    simp only [List.nil_append, List.cons_append, List.cons.injEq] at h
    exact absurd (h.1 ▸ List.mem_cons_self) hy
  | c :: x, [], r, s, hx, _, h => by
    simp only [List.nil_append, List.cons_append, List.cons.injEq] at h
    exact absurd (h.1 ▸ List.mem_cons_self) hx
  | c :: x, d :: y, r, s, hx, hy, h => by
    simp only [List.cons_append, List.cons.injEq] at h
    have := append_dash_cancel x y r s (fun hm => hx (List.mem_cons_of_mem _ hm))
      (fun hm => hy (List.mem_cons_of_mem _ hm)) h.2
    exact ⟨by rw [h.1, this.1], this.2⟩

theorem append_nil_dash : ∀ (x y s : Bytes), DASH ∉ x → DASH ∉ y → x = y ++ DASH :: s → False
  | x, [], s, hx, _, h => by rw [h] at hx; exact hx (by simp)
  | [], c :: y, s, _, _, h => by simp at h
  | c :: x, d :: y, s, hx, hy, h => by
    simp only [List.cons_append, List.cons.injEq] at h
    exact append_nil_dash x y s (fun hm => hx (List.mem_cons_of_mem _ hm))
      (fun hm => hy (List.mem_cons_of_mem _ hm)) h.2

/-- **C13 (injectivity, partial).** Among bundles with the *same source endpoint ID*, equal IDs
    force equal identity fields. Missing for the full statement: an unambiguous separator
    between the source string and the numeric fields (K1). -/
theorem id_injective_same_source_partial (b₁ b₂ : Bundle) (hs : b₁.primary.src = b₂.primary.src)
    (h : b₁.id = b₂.id) : Identity b₁ = Identity b₂ := by
  unfold Bundle.id at h
  rw [hs] at h
  simp only [List.append_assoc, List.append_cancel_left_eq, List.cons_append, List.nil_append,
    List.cons.injEq, true_and] at h
  -- h : ts₁ ++ '-' :: (seq₁ ++ tail₁) = ts₂ ++ '-' :: (seq₂ ++ tail₂)
  have h1 := append_dash_cancel _ _ _ _ (decStr_no_dash b₁.primary.ts) (decStr_no_dash b₂.primary.ts) h
  have hts := decStr_injective _ _ h1.1
  have h2 := h1.2
  unfold Identity
  cases f1 : b₁.primary.isFragment <;> cases f2 : b₂.primary.isFragment
  · simp only [f1, f2, Bool.false_eq_true, if_false, List.append_nil] at h2 ⊢
    simp [hs, hts, decStr_injective _ _ h2]
  · simp only [f1, f2, Bool.false_eq_true, if_true, if_false, List.append_nil] at h2
    exact absurd h2 (fun e => append_nil_dash _ _ _ (decStr_no_dash _) (decStr_no_dash _) e)
  · simp only [f1, f2, Bool.false_eq_true, if_true, if_false, List.append_nil] at h2
    exact absurd h2.symm (fun e => append_nil_dash _ _ _ (decStr_no_dash _) (decStr_no_dash _) e)
  · simp only [f1, f2, if_true] at h2 ⊢
    have h3 := append_dash_cancel _ _ _ _ (decStr_no_dash _) (decStr_no_dash _) h2
    simp [hs, hts, decStr_injective _ _ h3.1, decStr_injective _ _ h3.2]

/-- **C13 (injectivity wherever the separator is unambiguous).** The exact extent of K1: among
    bundles whose source endpoint IDs, as printed, contain no `-`, equal IDs force equal identity
    fields (source, creation time, sequence number, being a fragment, fragment offset) — whatever
    the two sources are.  Every collision of the ID scheme therefore involves a `-` inside a source
    string. -/
theorem id_injective_dashless_sources (b₁ b₂ : Bundle)
    (hd₁ : DASH ∉ printEid b₁.primary.src) (hd₂ : DASH ∉ printEid b₂.primary.src)
    (h : b₁.id = b₂.id) : Identity b₁ = Identity b₂ := by
  unfold Bundle.id at h
  simp only [List.append_assoc, List.cons_append, List.nil_append] at h
  have h0 := append_dash_cancel _ _ _ _ hd₁ hd₂ h
  have hsrc := h0.1
  have h1 := append_dash_cancel _ _ _ _ (decStr_no_dash b₁.primary.ts) (decStr_no_dash b₂.primary.ts) h0.2
  have hts := decStr_injective _ _ h1.1
  have h2 := h1.2
  unfold Identity
  cases f1 : b₁.primary.isFragment <;> cases f2 : b₂.primary.isFragment
  · simp only [f1, f2, Bool.false_eq_true, if_false, List.append_nil] at h2 ⊢
    simp [hsrc, hts, decStr_injective _ _ h2]
  · simp only [f1, f2, Bool.false_eq_true, if_true, if_false, List.append_nil] at h2
    exact absurd h2 (fun e => append_nil_dash _ _ _ (decStr_no_dash _) (decStr_no_dash _) e)
  · simp only [f1, f2, Bool.false_eq_true, if_true, if_false, List.append_nil] at h2
    exact absurd h2.symm (fun e => append_nil_dash _ _ _ (decStr_no_dash _) (decStr_no_dash _) e)
  · simp only [f1, f2, if_true] at h2 ⊢
    have h3 := append_dash_cancel _ _ _ _ (decStr_no_dash _) (decStr_no_dash _) h2
    simp [hsrc, hts, decStr_injective _ _ h3.1, decStr_injective _ _ h3.2]

/-- ipn endpoint IDs and `dtn:none` print without a `-` -/
theorem printEid_ipn_no_dash (c n sv : Nat) : DASH ∉ printEid (.ipn c n sv) := by
  intro h
  simp only [printEid, List.mem_append, List.mem_singleton] at h
  rcases h with ((h | h) | h) | h
  · revert h; decide
  · exact decStr_no_dash _ h
  · simp [DASH] at h
  · exact decStr_no_dash _ h

theorem printEid_null_no_dash (c v : Nat) : DASH ∉ printEid (.null c v) := by
  simp only [printEid]; decide

/-- **C13 (ipn and anonymous sources).** Bundle IDs are injective over all bundles whose sources
    are ipn endpoint IDs or `dtn:none`: K1 cannot occur there. -/
theorem id_injective_ipn_sources (b₁ b₂ : Bundle)
    (hs₁ : (∃ c n s, b₁.primary.src = .ipn c n s) ∨ ∃ c v, b₁.primary.src = .null c v)
    (hs₂ : (∃ c n s, b₂.primary.src = .ipn c n s) ∨ ∃ c v, b₂.primary.src = .null c v)
    (h : b₁.id = b₂.id) : Identity b₁ = Identity b₂ := by
  apply id_injective_dashless_sources b₁ b₂ _ _ h
  · rcases hs₁ with ⟨c, n, s, e⟩ | ⟨c, v, e⟩ <;> rw [e]
    · exact printEid_ipn_no_dash c n s
    · exact printEid_null_no_dash c v
  · rcases hs₂ with ⟨c, n, s, e⟩ | ⟨c, v, e⟩ <;> rw [e]
    · exact printEid_ipn_no_dash c n s
    · exact printEid_null_no_dash c v

/-- **C13 (status reports).** The bundle reference printed by a status report about a
    non-fragment bundle equals that bundle's ID. -/
theorem refbundle_eq_id (b : Bundle) (pos reason now : Nat) (hf : b.primary.isFragment = false) :
    ∃ sr, newStatusReport b pos reason now = .ok sr ∧ sr.refbundle = b.id := by
  refine ⟨_, by simp [newStatusReport, hf]; rfl, ?_⟩
  simp [StatusReport.refbundle, Bundle.id, hf]

example : Identity k1a ≠ Identity k1b ∧ k1a.id = k1b.id := by decide


/-- **C13 (reference of a report about any bundle or fragment).** A status report whose source,
    creation time, sequence number and fragment fields are those of a bundle — fragment length
    present exactly for fragments — refers to it by exactly the bundle's ID (first fragments,
    offset 0, included). -/
theorem refbundle_eq_id_general (b : Bundle) (r : StatusReport)
    (hs : r.source = b.primary.src) (ht : r.ts = b.primary.ts) (hq : r.seq = b.primary.seq)
    (hf : (decide (r.fragLen > 0)) = b.primary.isFragment) (ho : r.fragOff = b.primary.fragOff) :
    r.refbundle = b.id := by
  unfold StatusReport.refbundle Bundle.id
  rw [hs, ht, hq, ho]
  cases hfr : b.primary.isFragment <;> simp_all

end Bp7.C13
