/-
  Model of src/security.rs (feature `bpsec`): integrity-protected plaintext, HMAC results,
  abstract security block encoding. `pinned = true` selects the behaviour of the pinned tree
  (F6a: result id = target block number; F6b: opaque target data wrapped twice).
-/
import Bp7.Model.Codec
import Bp7.Model.Sha2
namespace Bp7.Bpsec
open Bp7

/-- `SecurityBlockHeader = (block type, block number, block control flags)` -/
structure SecHeader where
  btype : Nat
  num : Nat
  flags : Nat
  deriving Repr, DecidableEq

/-- `IntegrityScopeFlags` (u16, three declared bits): `contains` of a single bit -/
def scopeHas (flags bit : Nat) : Bool := flags.testBit bit

/-- `security_target_contents`: the target's block-type-specific data as a CBOR byte string -/
def targetContents (pinned : Bool) : CData → Bytes
  | .data b => encBytes b
  | .unknown b => if pinned then encBytes (encBytes b) else encBytes b
  | d => encBytes (encCData d)

/-- `IntegrityProtectedPlaintext::create` -/
def ippt (pinned : Bool) (flags : Nat) (primary : Option Primary) (sec : Option SecHeader) (t : Canon) : Bytes :=
  encUint flags
  ++ (if scopeHas flags 0 then (match primary with | some p => encPrimary p | none => []) else [])
  ++ (if scopeHas flags 1 then encUint t.btype ++ encUint t.num ++ encUint t.flags else [])
  ++ (if scopeHas flags 2 then (match sec with | some h => encUint h.btype ++ encUint h.num ++ encUint h.flags | none => []) else [])
  ++ targetContents pinned t.data

/-- `BibSecurityContextParameter` -/
structure Params where
  shaVariant : Option (Nat × Nat)
  wrappedKey : Option (Nat × Bytes)
  scopeFlags : Option (Nat × Nat)
  deriving Repr, DecidableEq

/-- `IntegrityBlock` (the security context id is the constant 1 = BIB-HMAC-SHA2) -/
structure Bib where
  targets : List Nat
  ctxFlags : Nat
  source : Eid
  params : Option Params
  results : List (List (Nat × Bytes))
  deriving Repr, DecidableEq

/-- `IntegrityBlock::compute_hmac(key, ippt_list)` -/
def computeHmac (pinned : Bool) (b : Bib) (key : Bytes) (ippts : List (Nat × Bytes)) : Res Bib :=
  match b.params with
  | none => .panic .expect
  | some p =>
    match p.shaVariant with
    | none => .panic .expect
    | some (_, variant) =>
      let relevant := ippts.filter (fun x => b.targets.contains x.1)
      if relevant.isEmpty then .ok { b with results := [] }
      else match Sha2.hmacVariant variant key [] with
        | none => .panic .expect            -- "Undefined Sha Variant."
        | some _ =>
          .ok { b with results := relevant.map (fun x =>
            [((if pinned then x.1 else 1), (Sha2.hmacVariant variant key x.2).getD [])]) }

def encParams (p : Params) : Bytes :=
  let items : List Bytes :=
    (match p.shaVariant with | some (i, v) => [encArrayHead 2 ++ encUint i ++ encUint v] | none => [])
    ++ (match p.wrappedKey with | some (i, k) => [encArrayHead 2 ++ encUint i ++ encBytes k] | none => [])
    ++ (match p.scopeFlags with | some (i, f) => [encArrayHead 2 ++ encUint i ++ encUint f] | none => [])
  encArrayHead items.length ++ items.flatten

/-- results as `to_cbor` writes them: one array per target holding one (id, value) pair -/
def encResults : Nat → List (List (Nat × Bytes)) → Res Bytes
  | 0, _ => .ok []
  | n+1, r :: rest =>
    (match r with
     | (i, v) :: _ => (encResults n rest).bind fun tl => .ok (encArrayHead 1 ++ (encArrayHead 2 ++ encUint i ++ encBytes v) ++ tl)
     | [] => .panic .expect)
  | _+1, [] => .panic .expect            -- `self.security_results[i]` out of range

/-- `IntegrityBlock::to_cbor`: the RFC 9172 §3.6 field sequence, concatenated -/
def asbToCbor (b : Bib) : Res Bytes :=
  (encResults b.targets.length b.results).bind fun res =>
    .ok ((encArrayHead b.targets.length ++ (b.targets.map encUint).flatten)
         ++ encUint 1 ++ encUint b.ctxFlags ++ encEid b.source
         ++ (match b.params with | some p => encParams p | none => [0xf6])
         ++ (encArrayHead b.targets.length ++ res))

end Bp7.Bpsec
