/-
  Model of the parts of serde_cbor 0.11.2 (+ serde / serde_bytes visitors) that bp7 uses.

  Writer: `Serializer::write_u64` shortest heads, definite arrays, byte/text strings.
  Reader: `Deserializer::parse_value` driven by the visitor of the requested type, on a
  `SliceRead` (all-or-nothing reads), with the `remaining_depth` counter (starts at 128,
  not restored on the "limit exceeded" early return), transparent tags, indefinite strings
  and arrays, `TrailingData` checks — see DESIGN.md §3.2.

  A reader is `P α := St → Res α × St`: the state is returned in the error case as well,
  because `EndpointID`'s visitor swallows an error and carries on from where it happened.
-/
import Bp7.Model.Basic
namespace Bp7

/-! ## Writer -/

/-- big-endian, `k` bytes -/
def beBytes : Nat → Nat → Bytes
  | 0, _ => []
  | k+1, n => UInt8.ofNat (n / 256 ^ k) :: beBytes k (n % 256 ^ k)

/-- `write_u64(major, value)`: shortest form. Defined for `n < 2^64` (Rust's `u64`). -/
def encHead (major : Nat) (n : Nat) : Bytes :=
  if n < 24 then [UInt8.ofNat (major * 32 + n)]
  else if n < 256 then [UInt8.ofNat (major * 32 + 24), UInt8.ofNat n]
  else if n < 65536 then UInt8.ofNat (major * 32 + 25) :: beBytes 2 n
  else if n < 4294967296 then UInt8.ofNat (major * 32 + 26) :: beBytes 4 n
  else UInt8.ofNat (major * 32 + 27) :: beBytes 8 n

def encUint (n : Nat) : Bytes := encHead 0 n
def encBytes (b : Bytes) : Bytes := encHead 2 b.length ++ b
def encText (b : Bytes) : Bytes := encHead 3 b.length ++ b
def encArrayHead (n : Nat) : Bytes := encHead 4 n
def encBool (b : Bool) : Bytes := [if b then 0xf5 else 0xf4]

/-! ## Reader state and monad -/

structure St where
  inp : Bytes
  depth : Nat
  deriving Repr, DecidableEq

abbrev P (α : Type) := St → Res α × St

namespace P
@[inline] def pure {α} (a : α) : P α := fun s => (.ok a, s)
@[inline] def fail {α} (e : Err) : P α := fun s => (.err e, s)
@[inline] def bind {α β} (m : P α) (f : α → P β) : P β := fun s =>
  match m s with
  | (.ok a, s') => f a s'
  | (.err e, s') => (.err e, s')
  | (.panic p, s') => (.panic p, s')
end P

instance : Monad P where
  pure := P.pure
  bind := P.bind

/-- from big-endian bytes -/
def beVal : Bytes → Nat
  | [] => 0
  | b :: bs => b.toNat * 256 ^ bs.length + beVal bs

/-- `read_into` / `read(n)`: all or nothing. -/
def takeN (n : Nat) : P Bytes := fun s =>
  if n ≤ s.inp.length then (.ok (s.inp.take n), { s with inp := s.inp.drop n })
  else (.err .eof, s)

inductive Head where
  | uint (n : Nat) | nint (n : Nat)
  | bytes (len : Nat) | bytesI | text (len : Nat) | textI
  | array (len : Nat) | arrayI | map (len : Nat) | mapI
  | tag (n : Nat) | bool (b : Bool) | unit | float
  deriving Repr, DecidableEq

/-- argument of a head with additional information `ai` (24..27 read 1/2/4/8 bytes) -/
def readArg (ai : Nat) : P Nat := fun s =>
  if ai < 24 then (.ok ai, s)
  else
    let k := if ai = 24 then 1 else if ai = 25 then 2 else if ai = 26 then 4 else 8
    match takeN k s with
    | (.ok bs, s') => (.ok (beVal bs), s')
    | (.err e, s') => (.err e, s')
    | (.panic p, s') => (.panic p, s')

/-- initial byte + argument, as `parse_value` does before calling the visitor -/
def readHead : P Head := fun s =>
  match s.inp with
  | [] => (.err .eof, s)
  | b :: rest =>
    let s1 : St := { s with inp := rest }
    let mt := b.toNat / 32
    let ai := b.toNat % 32
    if mt = 7 then
      if ai = 20 then (.ok (.bool false), s1)
      else if ai = 21 then (.ok (.bool true), s1)
      else if ai = 22 ∨ ai = 23 then (.ok .unit, s1)
      else if ai = 25 ∨ ai = 26 ∨ ai = 27 then
        match readArg ai s1 with
        | (.ok _, s2) => (.ok .float, s2)
        | (.err e, s2) => (.err e, s2)
        | (.panic p, s2) => (.panic p, s2)
      else (.err .code, s1)
    else if ai = 28 ∨ ai = 29 ∨ ai = 30 then (.err .code, s1)
    else if ai = 31 then
      if mt = 2 then (.ok .bytesI, s1)
      else if mt = 3 then (.ok .textI, s1)
      else if mt = 4 then (.ok .arrayI, s1)
      else if mt = 5 then (.ok .mapI, s1)
      else (.err .code, s1)
    else
      match readArg ai s1 with
      | (.ok n, s2) =>
        (.ok (if mt = 0 then .uint n else if mt = 1 then .nint n else if mt = 2 then .bytes n
              else if mt = 3 then .text n else if mt = 4 then .array n else if mt = 5 then .map n
              else .tag n), s2)
      | (.err e, s2) => (.err e, s2)
      | (.panic p, s2) => (.panic p, s2)

/-- `recursion_checked`: `remaining_depth -= 1` (u8: underflow is a panic with overflow
    checks), error *without restoring* when it reaches 0, otherwise run and restore. -/
def recursionChecked {α} (f : P α) : P α := fun s =>
  if s.depth = 0 then (.panic .depthUnderflow, s)
  else
    let s1 : St := { s with depth := s.depth - 1 }
    if s1.depth = 0 then (.err .depth, s1)
    else
      match f s1 with
      | (r, s2) => (r, { s2 with depth := s2.depth + 1 })

/-! ## UTF-8 validation (`core::str::from_utf8`) -/

def isCont (b : UInt8) : Bool := 128 ≤ b.toNat && b.toNat ≤ 191

def validUtf8 : Bytes → Bool
  | [] => true
  | b0 :: rest =>
    let n := b0.toNat
    if n < 128 then validUtf8 rest
    else if 194 ≤ n ∧ n ≤ 223 then
      match rest with
      | b1 :: r => isCont b1 && validUtf8 r
      | _ => false
    else if 224 ≤ n ∧ n ≤ 239 then
      match rest with
      | b1 :: b2 :: r =>
        (if n = 224 then 160 ≤ b1.toNat && b1.toNat ≤ 191
         else if n = 237 then 128 ≤ b1.toNat && b1.toNat ≤ 159
         else isCont b1) && isCont b2 && validUtf8 r
      | _ => false
    else if 240 ≤ n ∧ n ≤ 244 then
      match rest with
      | b1 :: b2 :: b3 :: r =>
        (if n = 240 then 144 ≤ b1.toNat && b1.toNat ≤ 191
         else if n = 244 then 128 ≤ b1.toNat && b1.toNat ≤ 143
         else isCont b1) && isCont b2 && isCont b3 && validUtf8 r
      | _ => false
    else false

/-! ## Chunks of indefinite-length strings -/

/-- the loop of `parse_indefinite_bytes` (`major = 2`) / `parse_indefinite_str` (`major = 3`):
    definite chunks of the same major type until the break byte -/
def readChunks (major : Nat) : Nat → Bytes → P Bytes
  | 0, _ => P.fail .other
  | fuel+1, acc => fun s =>
    match s.inp with
    | [] => (.err .eof, s)
    | b :: rest =>
      let s1 : St := { s with inp := rest }
      if b.toNat = 255 then (.ok acc, s1)
      else if b.toNat / 32 = major ∧ b.toNat % 32 < 28 then
        match readArg (b.toNat % 32) s1 with
        | (.ok len, s2) =>
          (match takeN len s2 with
           | (.ok chunk, s3) => readChunks major fuel (acc ++ chunk) s3
           | (.err e, s3) => (.err e, s3)
           | (.panic p, s3) => (.panic p, s3))
        | (.err e, s2) => (.err e, s2)
        | (.panic p, s2) => (.panic p, s2)
      else (.err .code, s1)

/-- What serde_cbor consumes before a visitor that does not accept head `h` reports
    `invalid type`: always an error, but the reader state matters to callers that swallow it. -/
def reject {α} (h : Head) : P α := fun s =>
  match h with
  | .bytes len =>
    (match takeN len s with
     | (.ok _, s') => (.err .type, s')
     | (.err e, s') => (.err e, s')
     | (.panic p, s') => (.panic p, s'))
  | .text len =>
    (match takeN len s with
     | (.ok b, s') => (if validUtf8 b then .err .type else .err .utf8, s')
     | (.err e, s') => (.err e, s')
     | (.panic p, s') => (.panic p, s'))
  | .bytesI =>
    (match readChunks 2 (s.inp.length + 1) [] s with
     | (.ok _, s') => (.err .type, s')
     | (.err e, s') => (.err e, s')
     | (.panic p, s') => (.panic p, s'))
  | .textI =>
    (match readChunks 3 (s.inp.length + 1) [] s with
     | (.ok b, s') => (if validUtf8 b then .err .type else .err .utf8, s')
     | (.err e, s') => (.err e, s')
     | (.panic p, s') => (.panic p, s'))
  | .array _ | .arrayI | .map _ | .mapI => recursionChecked (P.fail .type) s
  | _ => (.err .type, s)

/-- `parse_value(visitor)`: read a head; tags are transparent but cost one recursion level;
    `k` is the visitor's reaction to every non-tag head. Fuel bounds the tag chain
    (`remaining_depth ≤ 128`, so 130 is never exhausted). -/
def parseWith {α} (k : Head → P α) : Nat → P α
  | 0 => P.fail .other
  | fuel+1 => fun s =>
    match readHead s with
    | (.ok (.tag _), s1) => recursionChecked (parseWith k fuel) s1
    | (.ok h, s1) => k h s1
    | (.err e, s1) => (.err e, s1)
    | (.panic p, s1) => (.panic p, s1)

def tagFuel : Nat := 130

/-! ## Primitive visitors -/

/-- serde's unsigned visitors: any unsigned width, range-checked; everything else rejected -/
def kUint (bound : Nat) : Head → P Nat
  | .uint n => if n < bound then P.pure n else P.fail .value
  | h => reject h

def readU64 : P Nat := parseWith (kUint 18446744073709551616) tagFuel
def readU32 : P Nat := parseWith (kUint 4294967296) tagFuel
def readU8 : P Nat := parseWith (kUint 256) tagFuel

def kBool : Head → P Bool
  | .bool b => P.pure b
  | h => reject h
def readBool : P Bool := parseWith kBool tagFuel

/-- serde's `String` visitor: text, or bytes that are valid UTF-8 -/
def kString : Head → P Bytes
  | .text len => fun s =>
    (match takeN len s with
     | (.ok b, s') => (if validUtf8 b then .ok b else .err .utf8, s')
     | (.err e, s') => (.err e, s')
     | (.panic p, s') => (.panic p, s'))
  | .bytes len => fun s =>
    (match takeN len s with
     | (.ok b, s') => (if validUtf8 b then .ok b else .err .value, s')
     | (.err e, s') => (.err e, s')
     | (.panic p, s') => (.panic p, s'))
  | .textI => fun s =>
    (match readChunks 3 (s.inp.length + 1) [] s with
     | (.ok b, s') => (if validUtf8 b then .ok b else .err .utf8, s')
     | (.err e, s') => (.err e, s')
     | (.panic p, s') => (.panic p, s'))
  | .bytesI => fun s =>
    (match readChunks 2 (s.inp.length + 1) [] s with
     | (.ok b, s') => (if validUtf8 b then .ok b else .err .value, s')
     | (.err e, s') => (.err e, s')
     | (.panic p, s') => (.panic p, s'))
  | h => reject h
def readString : P Bytes := parseWith kString tagFuel

/-! ## Sequences -/

/-- `SeqAccess` (definite: `some remaining`) / `IndefiniteSeqAccess` (`none`) -/
abbrev Acc := Option Nat

/-- `next_element::<T>()` -/
def nextElem {α} (rd : P α) (acc : Acc) : P (Option α × Acc) := fun s =>
  match acc with
  | some 0 => (.ok (none, some 0), s)
  | some (n+1) =>
    (match rd s with
     | (.ok a, s') => (.ok (some a, some n), s')
     | (.err e, s') => (.err e, s')
     | (.panic p, s') => (.panic p, s'))
  | none =>
    (match s.inp with
     | [] => (.err .eof, s)
     | b :: _ =>
       if b.toNat = 255 then (.ok (none, none), s)
       else
         match rd s with
         | (.ok a, s') => (.ok (some a, none), s')
         | (.err e, s') => (.err e, s')
         | (.panic p, s') => (.panic p, s'))

/-- a mandatory element: `next_element()?.ok_or_else(invalid_length)` -/
def reqElem {α} (rd : P α) (acc : Acc) : P (α × Acc) := fun s =>
  match nextElem rd acc s with
  | (.ok (some a, acc'), s') => (.ok (a, acc'), s')
  | (.ok (none, _), s') => (.err .length, s')
  | (.err e, s') => (.err e, s')
  | (.panic p, s') => (.panic p, s')

/-- what `parse_array` / `parse_indefinite_array` do after the visitor has returned -/
def seqEnd (acc : Acc) : P Unit := fun s =>
  match acc with
  | some 0 => (.ok (), s)
  | some _ => (.err .trailing, s)
  | none =>
    match s.inp with
    | [] => (.err .eof, s)
    | b :: rest => if b.toNat = 255 then (.ok (), { s with inp := rest }) else (.err .trailing, { s with inp := rest })

/-- visitor that only implements `visit_seq` -/
def kSeq {α} (visit : Acc → P (α × Acc)) : Head → P α
  | .array len => recursionChecked (fun s =>
      match visit (some len) s with
      | (.ok (a, acc), s') =>
        (match seqEnd acc s' with
         | (.ok _, s'') => (.ok a, s'')
         | (.err e, s'') => (.err e, s'')
         | (.panic p, s'') => (.panic p, s''))
      | (.err e, s') => (.err e, s')
      | (.panic p, s') => (.panic p, s'))
  | .arrayI => recursionChecked (fun s =>
      match visit none s with
      | (.ok (a, acc), s') =>
        (match seqEnd acc s' with
         | (.ok _, s'') => (.ok a, s'')
         | (.err e, s'') => (.err e, s'')
         | (.panic p, s'') => (.panic p, s''))
      | (.err e, s') => (.err e, s')
      | (.panic p, s') => (.panic p, s'))
  | h => reject h

def readSeq {α} (visit : Acc → P (α × Acc)) : P α := parseWith (kSeq visit) tagFuel

/-- collect elements until the sequence ends (`while let Some(x) = seq.next_element()?`) -/
def collectElems {α} (rd : P α) : Nat → List α → Acc → P (List α × Acc)
  | 0, _, _ => P.fail .other
  | fuel+1, out, acc => fun s =>
    match nextElem rd acc s with
    | (.ok (some a, acc'), s') => collectElems rd fuel (out ++ [a]) acc' s'
    | (.ok (none, acc'), s') => (.ok (out, acc'), s')
    | (.err e, s') => (.err e, s')
    | (.panic p, s') => (.panic p, s')

/-- serde_bytes `ByteBuf`: bytes, text (UTF-8 checked by serde_cbor first), or a sequence of u8 -/
def kByteBuf : Head → P Bytes
  | .bytes len => takeN len
  | .bytesI => fun s => readChunks 2 (s.inp.length + 1) [] s
  | .text len => fun s =>
    (match takeN len s with
     | (.ok b, s') => (if validUtf8 b then .ok b else .err .utf8, s')
     | (.err e, s') => (.err e, s')
     | (.panic p, s') => (.panic p, s'))
  | .textI => fun s =>
    (match readChunks 3 (s.inp.length + 1) [] s with
     | (.ok b, s') => (if validUtf8 b then .ok b else .err .utf8, s')
     | (.err e, s') => (.err e, s')
     | (.panic p, s') => (.panic p, s'))
  | .array len => kSeq (fun acc s =>
      match collectElems readU8 (s.inp.length + 1) [] acc s with
      | (.ok (ns, acc'), s') => (.ok (ns.map UInt8.ofNat, acc'), s')
      | (.err e, s') => (.err e, s')
      | (.panic p, s') => (.panic p, s')) (.array len)
  | .arrayI => kSeq (fun acc s =>
      match collectElems readU8 (s.inp.length + 1) [] acc s with
      | (.ok (ns, acc'), s') => (.ok (ns.map UInt8.ofNat, acc'), s')
      | (.err e, s') => (.err e, s')
      | (.panic p, s') => (.panic p, s')) .arrayI
  | h => reject h
def readByteBuf : P Bytes := parseWith kByteBuf tagFuel

/-- `serde_cbor::from_slice`: fresh deserializer (depth 128), one value, then end of input -/
def fromSlice {α} (rd : P α) (b : Bytes) : Res α :=
  match rd { inp := b, depth := 128 } with
  | (.ok a, s) => if s.inp.isEmpty then .ok a else .err .trailing
  | (.err e, _) => .err e
  | (.panic p, _) => .panic p

end Bp7
