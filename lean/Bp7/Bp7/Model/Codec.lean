/-
  CBOR codec of bundles: the hand-written `Serialize` / `Deserialize` impls of
  src/primary.rs, src/canonical.rs, src/bundle.rs, src/dtntime.rs, plus `calculate_crc`
  (src/crc.rs) and `Bundle::to_cbor` / `TryFrom<&[u8]>`.
-/
import Bp7.Model.Types
import Bp7.Model.Cbor
import Bp7.Model.Eid
import Bp7.Model.Crc
namespace Bp7

/-! ## Writer -/

/-- the trailing CRC byte string, present iff the CRC value has bytes -/
def encCrcField (c : CrcVal) : Bytes :=
  match c.bytes with
  | some b => encBytes b
  | none => []

def crcFieldCount (c : CrcVal) : Nat := if c.bytes.isSome then 1 else 0

/-- `Serialize for PrimaryBlock` -/
def encPrimary (p : Primary) : Bytes :=
  encArrayHead (8 + (if p.isFragment then 2 else 0) + crcFieldCount p.crc)
  ++ encUint p.version ++ encUint p.flags ++ encUint p.crc.toCode
  ++ encEid p.dst ++ encEid p.src ++ encEid p.rpt
  ++ (encArrayHead 2 ++ encUint p.ts ++ encUint p.seq)
  ++ encUint p.lifetime
  ++ (if p.isFragment then encUint p.fragOff ++ encUint p.total else [])
  ++ encCrcField p.crc

/-- `serde_cbor::to_vec(&CanonicalData)` for the untagged enum -/
def encCData : CData → Bytes
  | .hop l c => encArrayHead 2 ++ encUint l ++ encUint c
  | .data b => encBytes b
  | .age ms => encUint ms
  | .prev e => encEid e
  | .unknown b => encBytes b
  | .decErr => [0xf6]

/-- block-type-specific data as it goes into the byte string of the block -/
def btsd : CData → Bytes
  | .data b => b
  | .unknown b => b
  | d => encCData d

/-- `Serialize for CanonicalBlock` -/
def encCanon (c : Canon) : Bytes :=
  encArrayHead (5 + crcFieldCount c.crc)
  ++ encUint c.btype ++ encUint c.num ++ encUint c.flags ++ encUint c.crc.toCode
  ++ encBytes (btsd c.data)
  ++ encCrcField c.crc

/-! ## CRC computation (src/crc.rs) -/

def be16 (x : BitVec 16) : CrcVal := .v16 (UInt8.ofNat (x.toNat / 256)) (UInt8.ofNat (x.toNat % 256))
def be32 (x : BitVec 32) : CrcVal :=
  .v32 (UInt8.ofNat (x.toNat / 16777216)) (UInt8.ofNat (x.toNat / 65536 % 256))
       (UInt8.ofNat (x.toNat / 256 % 256)) (UInt8.ofNat (x.toNat % 256))

/-- `calculate_crc` on a block whose encoder is `enc` and whose CRC is set by `setc`:
    type 0 -> none; 1/2 -> reset, encode, checksum, big-endian; unknown type -> value kept -/
def calcCrc {β} (enc : β → Bytes) (getc : β → CrcVal) (setc : β → CrcVal → β) (b : β) : CrcVal :=
  let c := getc b
  if c.toCode = 0 then .no
  else if c.toCode = 1 then be16 (crc16 (enc (setc b c.reset)))
  else if c.toCode = 2 then be32 (crc32c (enc (setc b c.reset)))
  else c

def Primary.calcCrc (p : Primary) : CrcVal :=
  Bp7.calcCrc encPrimary (·.crc) (fun p c => { p with crc := c }) p
def Canon.calcCrc (c : Canon) : CrcVal :=
  Bp7.calcCrc encCanon (·.crc) (fun b c => { b with crc := c }) c

def Primary.updateCrc (p : Primary) : Primary := { p with crc := p.calcCrc }
def Canon.updateCrc (c : Canon) : Canon := { c with crc := c.calcCrc }

/-- `check_crc`: no CRC -> true; unknown type -> false; else recompute and compare bytes -/
def checkCrcVal (stored computed : CrcVal) : Bool :=
  match stored with
  | .no => true
  | .unknown _ => false
  | _ => computed.bytes == stored.bytes

def Primary.checkCrc (p : Primary) : Bool := checkCrcVal p.crc p.calcCrc
def Canon.checkCrc (c : Canon) : Bool := checkCrcVal c.crc c.calcCrc

/-- `Bundle::calculate_crc` -/
def Bundle.calculateCrc (b : Bundle) : Bundle :=
  { primary := b.primary.updateCrc, canon := b.canon.map Canon.updateCrc }

/-- `Bundle::crc_valid` -/
def Bundle.crcValid (b : Bundle) : Bool :=
  b.primary.checkCrc && b.canon.all Canon.checkCrc

/-- serialisation of the blocks between `0x9f` and `0xff` -/
def encBlocks (b : Bundle) : Bytes :=
  encPrimary b.primary ++ (b.canon.map encCanon).flatten

/-- `Bundle::to_cbor(&mut self)`: returns the bundle with recomputed CRCs and the bytes -/
def Bundle.toCbor (b : Bundle) : Bundle × Bytes :=
  let b' := b.calculateCrc
  (b', [0x9f] ++ encBlocks b' ++ [0xff])

/-! ## Reader -/

/-- CRC element by CRC type code (shared by both block visitors) -/
def visitCrc (code : Nat) (acc : Acc) : P (CrcVal × Acc) := fun s =>
  if code = 0 then (.ok (.no, acc), s)
  else if code = 1 then
    (match reqElem readByteBuf acc s with
     | (.ok (b, acc'), s') =>
       (match b with
        | [x, y] => (.ok (.v16 x y, acc'), s')
        | _ => (.err .length, s'))
     | (.err e, s') => (.err e, s')
     | (.panic p, s') => (.panic p, s'))
  else if code = 2 then
    (match reqElem readByteBuf acc s with
     | (.ok (b, acc'), s') =>
       (match b with
        | [x, y, z, w] => (.ok (.v32 x y z w, acc'), s')
        | _ => (.err .length, s'))
     | (.err e, s') => (.err e, s')
     | (.panic p, s') => (.panic p, s'))
  else (.ok (.unknown code, acc), s)

/-- `PrimaryBlockVisitor::visit_seq`; `hintFrag` decides the fragment fields when the
    SeqAccess has no size hint (JSON): `none` = pinned behaviour (`unwrap_or(0)`). -/
def visitPrimary (acc : Acc) : P (Primary × Acc) := do
  let (version, acc) ← reqElem readU32 acc
  let (flags, acc) ← reqElem readU64 acc
  let (crcType, acc) ← reqElem readU8 acc
  let (dst, acc) ← reqElem readEid acc
  let (src, acc) ← reqElem readEid acc
  let (rpt, acc) ← reqElem readEid acc
  let ((ts, seq), acc) ← reqElem readPairU64 acc
  let (lifetime, acc) ← reqElem readU64 acc
  let hasFrag : Bool := match acc with
    | some rest => rest > 1
    | none => flagsContain F_ALL flags F_IS_FRAGMENT
  let ((fragOff, total), acc) ←
    (if hasFrag then do
        let (o, acc) ← reqElem readU64 acc
        let (t, acc) ← reqElem readU64 acc
        pure ((o, t), acc)
     else pure ((0, 0), acc) : P ((Nat × Nat) × Acc))
  let (crc, acc) ← visitCrc crcType acc
  pure ({ version, flags, crc, dst, src, rpt, ts, seq, lifetime, fragOff, total }, acc)

def readPrimary : P Primary := readSeq visitPrimary

def visitPairU8 (acc : Acc) : P ((Nat × Nat) × Acc) := do
  let (a, acc) ← reqElem readU8 acc
  let (b, acc) ← reqElem readU8 acc
  pure ((a, b), acc)

/-- nested decoding of block-type-specific data by block type -/
def decodeBtsd (btype : Nat) (raw : Bytes) : Res CData :=
  if btype = PAYLOAD_BLOCK then .ok (.data raw)
  else if btype = BUNDLE_AGE_BLOCK then (fromSlice readU64 raw).map .age
  else if btype = HOP_COUNT_BLOCK then (fromSlice (readSeq visitPairU8) raw).map (fun p => .hop p.1 p.2)
  else if btype = PREVIOUS_NODE_BLOCK then (fromSlice readEid raw).map .prev
  else .ok (.unknown raw)

/-- a nested decoding failure is re-raised as a custom error of the outer deserialiser -/
def liftRes {α} (r : Res α) : P α := fun s =>
  match r with
  | .ok a => (.ok a, s)
  | .err _ => (.err .other, s)
  | .panic p => (.panic p, s)

/-- `CanonicalBlockVisitor::visit_seq` -/
def visitCanon (acc : Acc) : P (Canon × Acc) := do
  let (btype, acc) ← reqElem readU64 acc
  let (num, acc) ← reqElem readU64 acc
  let (flags, acc) ← reqElem readU8 acc
  let (crcType, acc) ← reqElem readU8 acc
  let (raw, acc) ← reqElem readByteBuf acc
  let data ← liftRes (decodeBtsd btype raw)
  let (crc, acc) ← visitCrc crcType acc
  pure ({ btype, num, flags, crc, data }, acc)

def readCanon : P Canon := readSeq visitCanon

/-- `BundleVisitor::visit_seq` -/
def visitBundle (acc : Acc) : P (Bundle × Acc) := fun s =>
  match reqElem readPrimary acc s with
  | (.ok (primary, acc1), s1) =>
    (match collectElems readCanon (s1.inp.length + 1) [] acc1 s1 with
     | (.ok (canon, acc2), s2) => (.ok ({ primary, canon }, acc2), s2)
     | (.err e, s2) => (.err e, s2)
     | (.panic p, s2) => (.panic p, s2))
  | (.err e, s1) => (.err e, s1)
  | (.panic p, s1) => (.panic p, s1)

def readBundle : P Bundle := readSeq visitBundle

/-- `Bundle::try_from(&[u8])` -/
def decodeBundle (b : Bytes) : Res Bundle := fromSlice readBundle b

end Bp7
