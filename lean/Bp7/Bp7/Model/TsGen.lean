/-
  Model of `CreationTimestamp::now()` (src/dtntime.rs) as a small-step interleaving semantics.

  Fixed code (F4): each call = [read the clock] ; [critical section under one mutex:
  if now > last.0 { last = (now, 0) }; result = last; last.1 += 1].
  A schedule is a list of (thread, clock reading): the entry's thread performs its next step;
  the clock reading is used if that step is the clock read.

  Pinned code: four shared-memory steps per call on two independent atomics
  (clock read; swap LAST; conditional store SEQ := 0; fetch_add SEQ).
-/
import Bp7.Model.Basic
namespace Bp7.TsGen

/-! ## fixed code -/

structure St where
  last : Nat                 -- last.0
  next : Nat                 -- last.1
  pcs : List (Nat × Nat)     -- threads between clock read and critical section: (thread, now)
  out : List (Nat × Nat)     -- returned (time, seq), most recent first
  deriving Repr, DecidableEq

def init : St := { last := 0, next := 0, pcs := [], out := [] }

def lookup (t : Nat) : List (Nat × Nat) → Option Nat
  | [] => none
  | (k, v) :: r => if k = t then some v else lookup t r

def erase (t : Nat) : List (Nat × Nat) → List (Nat × Nat)
  | [] => []
  | (k, v) :: r => if k = t then r else (k, v) :: erase t r

/-- the critical section -/
def critical (s : St) (now : Nat) : St :=
  let (l, n) := if now > s.last then (now, 0) else (s.last, s.next)
  { s with last := l, next := n + 1, out := (l, n) :: s.out }

/-- one scheduler step of thread `t`; `clock` is what the clock returns if it is read now -/
def step (s : St) (t clock : Nat) : St :=
  match lookup t s.pcs with
  | none => { s with pcs := (t, clock) :: s.pcs }                       -- read the clock
  | some now => critical { s with pcs := erase t s.pcs } now            -- lock; update; unlock

def run (sched : List (Nat × Nat)) : St := sched.foldl (fun s e => step s e.1 e.2) init

/-! ## pinned code (two atomics) -/

inductive Pc where
  | read (now : Nat)           -- clock read, before swap
  | swapped (now old : Nat)    -- after swap, before the conditional store
  | stored (now : Nat)         -- before fetch_add
  deriving Repr, DecidableEq

structure StP where
  lastTs : Nat
  seq : Nat
  pcs : List (Nat × Pc)
  out : List (Nat × Nat)
  deriving Repr, DecidableEq

def initP : StP := { lastTs := 0, seq := 0, pcs := [], out := [] }

def lookupP (t : Nat) : List (Nat × Pc) → Option Pc
  | [] => none
  | (k, v) :: r => if k = t then some v else lookupP t r
def eraseP (t : Nat) : List (Nat × Pc) → List (Nat × Pc)
  | [] => []
  | (k, v) :: r => if k = t then r else (k, v) :: eraseP t r

def stepP (s : StP) (t clock : Nat) : StP :=
  match lookupP t s.pcs with
  | none => { s with pcs := (t, .read clock) :: s.pcs }
  | some (.read now) => { s with lastTs := now, pcs := (t, .swapped now s.lastTs) :: eraseP t s.pcs }
  | some (.swapped now old) =>
    { s with seq := if now ≠ old then 0 else s.seq, pcs := (t, .stored now) :: eraseP t s.pcs }
  | some (.stored now) => { s with seq := s.seq + 1, pcs := eraseP t s.pcs, out := (now, s.seq) :: s.out }

def runP (sched : List (Nat × Nat)) : StP := sched.foldl (fun s e => stepP s e.1 e.2) initP

end Bp7.TsGen
