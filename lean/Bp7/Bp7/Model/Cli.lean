/-
  Model of src/main.rs (the `bp7` command-line tool): manifest parsing, encode, decode (payload
  mode), dtntime, d2u, argument-count dispatch; and of humantime 2.4.0's `parse_duration` for
  integer time spans over ASCII (a '.' fraction, 'µ' or a non-ASCII byte is `unmodelled`).
  The file system, stdin and the clock are parameters: the manifest and payload are given as byte
  strings, the creation timestamp as (time, sequence number).
  A Rust panic is exit status 101 with empty stdout (for the commands modelled here nothing is
  written to stdout before a possible panic).
-/
import Bp7.Model.Mutate
import Bp7.Model.Codec
import Bp7.Model.Hex
import Bp7.Model.Time
namespace Bp7.Cli
open Bp7

/-! ### humantime::parse_duration (integer spans) -/

inductive HErr where
  | error        -- parse_duration returns Err
  | unmodelled   -- outside this model (fractions, non-ASCII)
  | overflowPanic -- Duration::new carry overflow
  deriving Repr, DecidableEq

def isWs (c : UInt8) : Bool := (9 ≤ c.toNat && c.toNat ≤ 13) || c.toNat == 32
def isDigit (c : UInt8) : Bool := 48 ≤ c.toNat && c.toNat ≤ 57
def isLetter (c : UInt8) : Bool := (65 ≤ c.toNat && c.toNat ≤ 90) || (97 ≤ c.toNat && c.toNat ≤ 122)

/-- (seconds, nanoseconds) contributed by `n` of the unit, with checked multiplication -/
def unitOf (u : Bytes) (n : Nat) : Option (Nat × Nat) :=
  let chk (sec nsec : Nat) : Option (Nat × Nat) := if sec < U64 ∧ nsec < U64 then some (sec, nsec) else none
  if u = asc "nanos" ∨ u = asc "nsec" ∨ u = asc "ns" then chk 0 n
  else if u = asc "usec" ∨ u = asc "us" then chk 0 (n * 1000)
  else if u = asc "millis" ∨ u = asc "msec" ∨ u = asc "ms" then chk 0 (n * 1000000)
  else if u = asc "seconds" ∨ u = asc "second" ∨ u = asc "secs" ∨ u = asc "sec" ∨ u = asc "s" then chk n 0
  else if u = asc "minutes" ∨ u = asc "minute" ∨ u = asc "min" ∨ u = asc "mins" ∨ u = asc "m" then chk (n * 60) 0
  else if u = asc "hours" ∨ u = asc "hour" ∨ u = asc "hr" ∨ u = asc "hrs" ∨ u = asc "h" then chk (n * 3600) 0
  else if u = asc "days" ∨ u = asc "day" ∨ u = asc "d" then chk (n * 86400) 0
  else if u = asc "weeks" ∨ u = asc "week" ∨ u = asc "wk" ∨ u = asc "wks" ∨ u = asc "w" then chk (n * 604800) 0
  else if u = asc "months" ∨ u = asc "month" ∨ u = asc "M" then chk (n * 2630016) 0
  else if u = asc "years" ∨ u = asc "year" ∨ u = asc "yr" ∨ u = asc "yrs" ∨ u = asc "y" then chk (n * 31557600) 0
  else none

def knownUnit (u : Bytes) : Bool := (unitOf u 0).isSome

/-- `parse_unit` + `add_current` -/
def addSpan (out : Nat × Nat) (u : Bytes) (n : Nat) : Except HErr (Nat × Nat) :=
  if !knownUnit u then .error .error else
  match unitOf u n with
  | none => .error .error
  | some (sec, nsec) =>
    let ns := out.2 + nsec
    if ns ≥ U64 then .error .error else
    let sec2 := if ns > 1000000000 then sec + ns / 1000000000 else sec
    let ns2 := if ns > 1000000000 then ns % 1000000000 else ns
    if sec2 ≥ U64 then .error .error else
    let s3 := out.1 + sec2
    if s3 ≥ U64 then .error .error else
    -- Duration::new(s3, ns2 as u32) carries when ns2 = 10^9
    if ns2 = 1000000000 then (if s3 + 1 ≥ U64 then .error .overflowPanic else .ok (s3 + 1, 0))
    else .ok (s3, ns2)

/-- skip whitespace, expect a digit -/
def firstChar : Bytes → Except HErr (Option (Nat × Bytes))
  | [] => .ok none
  | c :: cs =>
    if c.toNat ≥ 128 then .error .unmodelled
    else if isDigit c then .ok (some (c.toNat - 48, cs))
    else if isWs c then firstChar cs
    else .error .error

/-- second inner loop: letters of the unit. Returns (unit, what follows, digit that ended it) -/
def unitLoop : Bytes → Bytes → Except HErr (Bytes × Bytes × Option Nat)
  | acc, [] => .ok (acc, [], none)
  | acc, c :: cs =>
    if c.toNat ≥ 128 then .error .unmodelled
    else if isDigit c then .ok (acc, cs, some (c.toNat - 48))
    else if isWs c then .ok (acc, cs, none)
    else if isLetter c then unitLoop (acc ++ [c]) cs
    else .error .error

/-- first inner loop: digits and whitespace up to the first letter of the unit -/
def numLoop : Nat → Bytes → Except HErr (Nat × Bytes × Bytes)
  | n, [] => .ok (n, [], [])
  | n, c :: cs =>
    if c.toNat ≥ 128 then .error .unmodelled
    else if isDigit c then (if n * 10 + (c.toNat - 48) ≥ U64 then .error .error else numLoop (n * 10 + (c.toNat - 48)) cs)
    else if isWs c then numLoop n cs
    else if isLetter c then .ok (n, [c], cs)
    else if c.toNat = 46 then .error .unmodelled
    else .error .error

def spans : Nat → Nat → Bytes → (Nat × Nat) → Except HErr (Nat × Nat)
  | 0, _, _, _ => .error .unmodelled
  | fuel+1, n, s, out =>
    match numLoop n s with
    | .error e => .error e
    | .ok (n', u0, rest) =>
      match unitLoop u0 rest with
      | .error e => .error e
      | .ok (u, rest2, some d) =>
        (match addSpan out u n' with
         | .error e => .error e
         | .ok out' => spans fuel d rest2 out')
      | .ok (u, rest2, none) =>
        (match addSpan out u n' with
         | .error e => .error e
         | .ok out' =>
           match firstChar rest2 with
           | .error e => .error e
           | .ok none => .ok out'
           | .ok (some (d, rest3)) => spans fuel d rest3 out')

/-- `s.parse::<humantime::Duration>()` as (seconds, nanoseconds) -/
def parseDuration (s : Bytes) : Except HErr (Nat × Nat) :=
  if s = asc "0" then .ok (0, 0) else
  match firstChar s with
  | .error e => .error e
  | .ok none => .error .error
  | .ok (some (d, rest)) => spans (s.length + 1) d rest (0, 0)

/-- `lifetime.as_millis() as u64` -/
def millisOf (d : Nat × Nat) : Nat := (d.1 * 1000 + d.2 / 1000000) % U64

/-! ### manifest -/

structure Builder where
  flags : Nat := 0
  dst : Eid := Eid.dtnNone
  src : Eid := Eid.dtnNone
  rpt : Eid := Eid.dtnNone
  lifetime : Nat × Nat := (86400, 0)
  deriving Repr, DecidableEq

inductive Out (α : Type) where
  | ok (a : α)
  | panic
  | unmodelled
  deriving Repr, DecidableEq

def eidOrPanic (v : Bytes) : Out Eid :=
  match parseEid v with
  | .ok e => .ok e
  | _ => .panic

/-- one `key = value` entry -/
def applyEntry (b : Builder) (k v : Bytes) : Out Builder :=
  if k = asc "destination" then (match eidOrPanic v with | .ok e => .ok { b with dst := e } | .panic => .panic | .unmodelled => .unmodelled)
  else if k = asc "source" then (match eidOrPanic v with | .ok e => .ok { b with src := e } | .panic => .panic | .unmodelled => .unmodelled)
  else if k = asc "report_to" then (match eidOrPanic v with | .ok e => .ok { b with rpt := e } | .panic => .panic | .unmodelled => .unmodelled)
  else if k = asc "lifetime" then
    (match parseDuration v with
     | .ok d => .ok { b with lifetime := d }
     | .error .unmodelled => .unmodelled
     | .error _ => .panic)
  else if k = asc "flags" then (match parseU64 v with | some f => .ok { b with flags := f } | none => .panic)
  else .ok b          -- "unknown key" goes to stderr

def applyEntries : List (Bytes × Bytes) → Builder → Out Builder
  | [], b => .ok b
  | (k, v) :: rest, b =>
    match applyEntry b k v with
    | .ok b' => applyEntries rest b'
    | .panic => .panic
    | .unmodelled => .unmodelled

/-- lines → trimmed non-empty lines containing '=' → (trimmed key, trimmed value) -/
def entriesOf (manifest : Bytes) : List (Bytes × Bytes) :=
  ((splitOnByte 10 manifest).map trim).filterMap fun l =>
    if l.isEmpty then none else
    match splitFirst 61 l with
    | some (k, v) => some (trim k, trim v)
    | none => none

/-- `manifest_to_primary` with the creation timestamp `(ts, seq)` -/
def manifestToPrimary (manifest : Bytes) (ts seq : Nat) : Out Primary :=
  if !validUtf8 manifest then .unmodelled else
  match applyEntries (entriesOf manifest) {} with
  | .ok b =>
    if b.dst = Eid.dtnNone then .panic       -- PrimaryBuilderError::NoDestination
    else .ok { version := 7, flags := b.flags, crc := .no, dst := b.dst, src := b.src, rpt := b.rpt,
               ts := ts, seq := seq, lifetime := millisOf b.lifetime, fragOff := 0, total := 0 }
  | .panic => .panic
  | .unmodelled => .unmodelled

/-- `generate_bundle`: stdout bytes -/
def generate (p : Primary) (payload : Bytes) (hex : Bool) : Out Bytes :=
  let b : Bundle := ({ primary := p, canon := [newPayloadBlock 0 payload] } : Bundle).setCrc 0
  if b.validate ≠ [] then .panic          -- "created in invalid bundle"
  else
    let bytes := (b.toCbor).2
    .ok (if hex then hexify bytes ++ [10] else bytes)

/-- `bp7 encode <manifest> <payload | -> [-x]` -/
def encode (manifest payload : Bytes) (hex : Bool) (ts seq : Nat) : Out Bytes :=
  match manifestToPrimary manifest ts seq with
  | .ok p => generate p payload hex
  | .panic => .panic
  | .unmodelled => .unmodelled

/-- `buf_to_bundle(buf, payload_only = true)` -/
def decodePayload (buf : Bytes) : Out Bytes :=
  match decodeBundle buf with
  | .ok b => .ok (match b.payload with | some d => d | none => [])
  | _ => .panic

/-- `bp7 decode <hexstring> -p` -/
def decodeArg (hex : Bytes) : Out Bytes :=
  match unhexify hex with
  | .ok buf => decodePayload buf
  | _ => .panic

/-- `bp7 dtntime <ts>` / `bp7 d2u <ts>` -/
def dtntimeCmd (arg : Bytes) : Out Bytes :=
  match parseU64 arg with
  | some t => .ok (dtnString t ++ [10])
  | none => .panic
def d2uCmd (arg : Bytes) : Out Bytes :=
  match parseU64 arg with
  | some t => .ok (decStr (dtnUnix t) ++ [10])
  | none => .panic

/-- which flag a command line selects: `encode` has hex output iff there are exactly 5 arguments and
    the last is "-x"; `decode` is payload-only iff exactly 4 and the last is "-p". `none` = usage, exit 1 -/
def encodeMode (nargs : Nat) (last : Bytes) : Option Bool :=
  if nargs = 4 then some false else if nargs = 5 then some (last = asc "-x") else none
def decodeMode (nargs : Nat) (last : Bytes) : Option Bool :=
  if nargs = 3 then some false else if nargs = 4 then some (last = asc "-p") else none

end Bp7.Cli
