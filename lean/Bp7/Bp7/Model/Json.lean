/-
  Model of the JSON codec (`Bundle::to_json`, `TryFrom<String>`): the same Serialize /
  Deserialize impls driven by serde_json. The model works on the JSON value tree; serde_json's
  text syntax (compact printer, parser) is a dependency modelled only by `printJ` for the
  correspondence check. serde_json's `SeqAccess` has no size hint.
-/
import Bp7.Model.Codec
namespace Bp7

inductive J where
  | num (n : Nat)
  | str (s : Bytes)
  | arr (xs : List J)
  | other                      -- null / bool / object / negative / float: never produced by the writer
  deriving Repr, Inhabited

/-! ## writer -/

def jBytes (b : Bytes) : J := .arr (b.map (fun x => .num x.toNat))

def jEid : Eid → J
  | .dtn c ssp => .arr [.num c, .str ssp]
  | .null c v => .arr [.num c, .num v]
  | .ipn c n s => .arr [.num c, .arr [.num n, .num s]]

def jCrcField (c : CrcVal) : List J :=
  match c.bytes with
  | some b => [jBytes b]
  | none => []

def jPrimary (p : Primary) : J :=
  .arr ([.num p.version, .num p.flags, .num p.crc.toCode, jEid p.dst, jEid p.src, jEid p.rpt,
         .arr [.num p.ts, .num p.seq], .num p.lifetime]
        ++ (if p.isFragment then [.num p.fragOff, .num p.total] else [])
        ++ jCrcField p.crc)

def jCanon (c : Canon) : J :=
  .arr ([.num c.btype, .num c.num, .num c.flags, .num c.crc.toCode, jBytes (btsd c.data)] ++ jCrcField c.crc)

def jBundle (b : Bundle) : J := .arr (jPrimary b.primary :: b.canon.map jCanon)

/-- `Bundle::to_json(&mut self)`: recompute CRCs (over the CBOR form), then serialise -/
def Bundle.toJson (b : Bundle) : Bundle × J :=
  let b' := b.calculateCrc
  (b', jBundle b')

/-! ## reader -/

def jNum (bound : Nat) : J → Res Nat
  | .num n => if n < bound then .ok n else .err .value
  | _ => .err .type

def jReadU8s : List J → Res Bytes
  | [] => .ok []
  | x :: xs => (jNum 256 x).bind fun n => (jReadU8s xs).bind fun bs => .ok (UInt8.ofNat n :: bs)

/-- serde_bytes `ByteBuf` from a JSON array of integers (or a string) -/
def jReadBytes : J → Res Bytes
  | .arr xs => jReadU8s xs
  | .str s => .ok s
  | _ => .err .type

def jReadPair (bound : Nat) : J → Res (Nat × Nat)
  | .arr [a, b] => (jNum bound a).bind fun x => (jNum bound b).bind fun y => .ok (x, y)
  | .arr _ => .err .length
  | _ => .err .type

/-- the elements after the scheme code -/
def jEidRest (code : Nat) (rest : List J) : Res Eid :=
  if code = 1 then
    match rest with
    | [] => .ok Eid.dtnNone
    | [x] => (match x with
              | .str s => .ok (if s.isEmpty then Eid.dtnNone else .dtn 1 s)
              | .num _ => .ok Eid.dtnNone
              | _ => .err .trailing)
    | _ => .err .trailing
  else if code = 2 then
    match rest with
    | [] => .err .length
    | [x] => (jReadPair U64 x).bind fun (n, s) => withIpn n s
    | _ => .err .trailing
  else .err .value

/-- `EndpointIDVisitor` on serde_json: a failed `String` read of a number is swallowed and the
    number is consumed; any other non-string leaves the reader in front of it, and the closing
    bracket check of the sequence then fails -/
def jReadEid (j : J) : Res Eid :=
  match j with
  | .arr xs =>
    (match xs with
     | [] => .err .length
     | c :: rest => (jNum 256 c).bind fun code => jEidRest code rest)
  | _ => .err .type

/-- CRC element by type code from the remaining elements -/
def jReadCrc (code : Nat) (rest : List J) : Res CrcVal :=
  if code = 0 then (if rest.isEmpty then .ok .no else .err .trailing)
  else if code = 1 then
    match rest with
    | [x] => (jReadBytes x).bind fun b => match b with | [p, q] => .ok (.v16 p q) | _ => .err .length
    | [] => .err .length
    | _ => .err .trailing
  else if code = 2 then
    match rest with
    | [x] => (jReadBytes x).bind fun b => match b with | [p, q, r, s] => .ok (.v32 p q r s) | _ => .err .length
    | [] => .err .length
    | _ => .err .trailing
  else (if rest.isEmpty then .ok (.unknown code) else .err .trailing)

/-- `PrimaryBlockVisitor` without a size hint (fix F5: the fragment flag decides) -/
def jReadPrimary : J → Res Primary
  | .arr (v :: f :: c :: d :: s :: r :: t :: l :: rest) =>
    (jNum U32 v).bind fun version => (jNum U64 f).bind fun flags => (jNum 256 c).bind fun crcType =>
    (jReadEid d).bind fun dst => (jReadEid s).bind fun src => (jReadEid r).bind fun rpt =>
    (jReadPair U64 t).bind fun (ts, seq) => (jNum U64 l).bind fun lifetime =>
    if flagsContain F_ALL flags F_IS_FRAGMENT then
      match rest with
      | o :: tl :: rest' =>
        (jNum U64 o).bind fun fragOff => (jNum U64 tl).bind fun total =>
        (jReadCrc crcType rest').bind fun crc =>
        .ok { version, flags, crc, dst, src, rpt, ts, seq, lifetime, fragOff, total }
      | _ => .err .length
    else
      (jReadCrc crcType rest).bind fun crc =>
      .ok { version, flags, crc, dst, src, rpt, ts, seq, lifetime, fragOff := 0, total := 0 }
  | .arr _ => .err .length
  | _ => .err .type

def jReadCanon : J → Res Canon
  | .arr (t :: n :: f :: c :: d :: rest) =>
    (jNum U64 t).bind fun btype => (jNum U64 n).bind fun num => (jNum 256 f).bind fun flags =>
    (jNum 256 c).bind fun crcType => (jReadBytes d).bind fun raw =>
    (match decodeBtsd btype raw with | .ok x => Res.ok x | .err _ => .err .other | .panic p => .panic p).bind fun data =>
    (jReadCrc crcType rest).bind fun crc =>
    .ok { btype, num, flags, crc, data }
  | .arr _ => .err .length
  | _ => .err .type

def jReadCanons : List J → Res (List Canon)
  | [] => .ok []
  | x :: xs => (jReadCanon x).bind fun c => (jReadCanons xs).bind fun cs => .ok (c :: cs)

/-- `Bundle::try_from(String)` at tree level -/
def Bundle.fromJson : J → Res Bundle
  | .arr (p :: cs) => (jReadPrimary p).bind fun primary => (jReadCanons cs).bind fun canon => .ok { primary, canon }
  | .arr [] => .err .length
  | _ => .err .type

/-! ## serde_json compact text (driver only) -/

def jHex (n : Nat) : UInt8 := if n < 10 then UInt8.ofNat (48 + n) else UInt8.ofNat (87 + n)

/-- serde_json string escaping: `"` `\\` and control characters -/
def jEscape : Bytes → Bytes
  | [] => []
  | c :: cs =>
    (if c.toNat = 34 then [92, 34] else if c.toNat = 92 then [92, 92]
     else if c.toNat = 8 then [92, 98] else if c.toNat = 12 then [92, 102]
     else if c.toNat = 10 then [92, 110] else if c.toNat = 13 then [92, 114] else if c.toNat = 9 then [92, 116]
     else if c.toNat < 32 then [92, 117, 48, 48, jHex (c.toNat / 16), jHex (c.toNat % 16)]
     else [c]) ++ jEscape cs

mutual
def printJ : J → Bytes
  | .num n => decStr n
  | .str s => [34] ++ jEscape s ++ [34]
  | .arr xs => [91] ++ printJs xs ++ [93]
  | .other => [110, 117, 108, 108]
def printJs : List J → Bytes
  | [] => []
  | [x] => printJ x
  | x :: y :: rest => printJ x ++ [44] ++ printJs (y :: rest)
end

end Bp7
