/-
  Basic vocabulary of the model: byte strings, three-valued outcomes.
  Import-free (core only) so that the driver links as a `lean_exe`.
-/
namespace Bp7

abbrev Bytes := List UInt8

/-- Error classes (compared only as "err" by the correspondence check). -/
inductive Err where
  | eof | type | length | trailing | value | depth | utf8 | code | parse | other
  deriving DecidableEq, Repr, Inhabited

/-- Panic sites of the Rust code that the model represents explicitly. -/
inductive Site where
  | sliceRange      -- `&s[i..i+2]` beyond the end
  | charBoundary    -- `&s[i..j]` not on a char boundary
  | crcUnknown      -- `calculate_crc` on an unknown CRC type / `bytes().unwrap()`
  | nodeName        -- `DtnAddress::node_name` expect
  | hopAdd          -- `hc_count += 1`
  | ageConv         -- `age.try_into().unwrap()`
  | ageAdd          -- `ba_orig + residence_time` (u128)
  | timeAdd         -- `self + MS1970_TO2K`
  | fmtTime         -- humantime `fmt::Error` -> `to_string` panics
  | lifeAdd         -- `dtntime + lifetime`
  | blockNumAdd     -- `highest_block_number + 1`
  | depthUnderflow  -- serde_cbor `remaining_depth -= 1` at 0
  | unimplementedFrag -- `new_status_report` on a fragment
  | expect          -- other `expect`/`unwrap`
  deriving DecidableEq, Repr, Inhabited

/-- Outcome of an operation that may return an error or panic in Rust. -/
inductive Res (α : Type) where
  | ok (a : α)
  | err (e : Err)
  | panic (s : Site)
  deriving Repr, DecidableEq

namespace Res
def isOk {α} : Res α → Bool | ok _ => true | _ => false
def isErr {α} : Res α → Bool | err _ => true | _ => false
def isPanic {α} : Res α → Bool | panic _ => true | _ => false
def bind {α β} (r : Res α) (f : α → Res β) : Res β :=
  match r with
  | ok a => f a
  | err e => err e
  | panic s => panic s
def map {α β} (f : α → β) (r : Res α) : Res β := r.bind (fun a => ok (f a))
instance : Monad Res where
  pure := ok
  bind := bind
@[simp] theorem bind_ok {α β} (a : α) (f : α → Res β) : (ok a).bind f = f a := rfl
@[simp] theorem bind_err {α β} (e : Err) (f : α → Res β) : (err e : Res α).bind f = err e := rfl
@[simp] theorem bind_panic {α β} (s : Site) (f : α → Res β) : (panic s : Res α).bind f = panic s := rfl
@[simp] theorem pure_eq {α} (a : α) : (pure a : Res α) = ok a := rfl
@[simp] theorem bind_eq {α β} (r : Res α) (f : α → Res β) : (r >>= f) = r.bind f := rfl
end Res

end Bp7
