/-
  Model of the bundle mutators and the forwarding update (src/bundle.rs, src/canonical.rs,
  src/primary.rs), and of bundle identity (id / Display).
-/
import Bp7.Model.Validate
namespace Bp7

/-- stable descending insertion: `x` goes before the first element with a smaller number -/
def insertDesc (x : Canon) : List Canon → List Canon
  | [] => [x]
  | y :: ys => if y.num < x.num then x :: y :: ys else y :: insertDesc x ys

/-- `sort_by(|a, b| b.block_number.cmp(&a.block_number))` (stable) -/
def sortDesc (l : List Canon) : List Canon := l.foldl (fun acc x => insertDesc x acc) []

def maxNum : List Canon → Nat
  | [] => 1
  | c :: cs => max c.num (maxNum cs)

/-- least `n ≥ k` that is not a block number of `l` (searching at most `fuel` candidates) -/
def firstUnused (l : List Canon) : Nat → Nat → Nat
  | 0, k => k
  | fuel+1, k => if l.any (fun c => c.num == k) then firstUnused l fuel (k+1) else k

/-- `next_canonical_block_number` (fix F10: no overflow at 2^64-1) -/
def nextBlockNumber (l : List Canon) : Nat :=
  let h := maxNum l
  if h + 1 < U64 then h + 1 else firstUnused l (l.length + 1) 2

def isManagedType (t : Nat) : Bool :=
  t == PAYLOAD_BLOCK || t == HOP_COUNT_BLOCK || t == BUNDLE_AGE_BLOCK || t == PREVIOUS_NODE_BLOCK

/-- `Bundle::add_canonical_block` -/
def Bundle.addBlock (b : Bundle) (c : Canon) : Bundle :=
  if isManagedType c.btype && (b.blockByType c.btype).isSome then b
  else
    let n := if c.btype == PAYLOAD_BLOCK then 1 else nextBlockNumber b.canon
    { b with canon := sortDesc (b.canon ++ [{ c with num := n }]) }

/-- `Bundle::set_payload_block` -/
def Bundle.setPayloadBlock (b : Bundle) (c : Canon) : Bundle :=
  ({ b with canon := b.canon.filter (fun x => x.btype != PAYLOAD_BLOCK) }).addBlock c

def newPayloadBlock (flags : Nat) (d : Bytes) : Canon :=
  { btype := PAYLOAD_BLOCK, num := 1, flags := flags, crc := .no, data := .data d }

/-- replace the data of the first block satisfying `p` -/
def updFirst (p : Canon → Bool) (f : Canon → Canon) : List Canon → List Canon
  | [] => []
  | c :: cs => if p c then f c :: cs else c :: updFirst p f cs

/-- `Bundle::set_payload` -/
def Bundle.setPayload (b : Bundle) (d : Bytes) : Bundle :=
  if (b.blockByType PAYLOAD_BLOCK).isSome then
    let cs := updFirst (fun c => c.btype == PAYLOAD_BLOCK && c.extOk) (fun c => { c with data := .data d }) b.canon
    { b with canon := cs }
  else b.setPayloadBlock (newPayloadBlock 0 d)

/-- `Bundle::set_crc` -/
def Bundle.setCrc (b : Bundle) (t : Nat) : Bundle :=
  { primary := { b.primary with crc := CrcVal.ofType t },
    canon := b.canon.map (fun c => { c with crc := CrcVal.ofType t }) }

/-- `BundleBuilder::build` -/
def buildBundle (p : Primary) (cs : List Canon) : Res Bundle :=
  let s := sortDesc cs
  match s.getLast? with
  | some c => (match c.data with
               | .data _ => .ok { primary := p, canon := s }
               | _ => .err .value)
  | none => .err .value

/-! ### forwarding -/

structure UpdOut where
  ret : Bool
  bundle : Bundle
  deriving Repr, DecidableEq

/-- `PrimaryBlock::is_lifetime_exceeded` with the clock reading `now` (DTN ms) -/
def Primary.lifetimeExceeded (p : Primary) (now : Nat) : Bool :=
  if p.ts == 0 then false else decide (p.ts + p.lifetime ≤ now)

def isHop (c : Canon) : Bool := c.btype == HOP_COUNT_BLOCK && c.extOk
def isPrev (c : Canon) : Bool := c.btype == PREVIOUS_NODE_BLOCK && c.extOk
def isAge (c : Canon) : Bool := c.btype == BUNDLE_AGE_BLOCK && c.extOk

def bumpHop (c : Canon) : Canon :=
  match c.data with | .hop l n => { c with data := .hop l (min (n + 1) 255) } | _ => c
def setPrev (node : Eid) (c : Canon) : Canon :=
  match c.data with | .prev _ => { c with data := .prev node } | _ => c
def addAge (rt : Nat) (c : Canon) : Canon :=
  match c.data with | .age a => { c with data := .age (min (a + rt) (U64 - 1)) } | _ => c

/-- hop count: counted with saturation, "exceeded" decided on the unsaturated value -/
def hopStep (cs : List Canon) : Bool × List Canon :=
  ((match cs.find? isHop with
    | some c => (match c.data with | .hop l n => decide (n + 1 > l) | _ => false)
    | none => false),
   updFirst isHop bumpHop cs)

def prevStep (node : Eid) (cs : List Canon) : List Canon := updFirst isPrev (setPrev node) cs

/-- bundle age: `saturating_add`, stored saturated, compared with the lifetime in ms -/
def ageStep (rt life : Nat) (cs : List Canon) : Bool × List Canon :=
  ((match cs.find? isAge with
    | some c => (match c.data with | .age a => decide (a + rt > life) | _ => false)
    | none => false),
   updFirst isAge (addAge rt) cs)

/-- `Bundle::update_extensions(local_node, residence_time)` (fix F3), `now` = `dtn_time_now()` -/
def Bundle.updateExtensions (b : Bundle) (node : Eid) (rt : Nat) (now : Nat) : UpdOut :=
  let h := hopStep b.canon
  if h.1 then { ret := false, bundle := { b with canon := h.2 } } else
  let c2 := prevStep node h.2
  let a := ageStep rt b.primary.lifetime c2
  if a.1 then { ret := false, bundle := { b with canon := a.2 } } else
  { ret := !(b.primary.lifetimeExceeded now), bundle := { b with canon := a.2 } }

/-- `Bundle::previous_node` -/
def Bundle.previousNode (b : Bundle) : Option Eid :=
  match b.blockByType PREVIOUS_NODE_BLOCK with
  | some c => (match c.data with | .prev e => some e | _ => none)
  | none => none

/-! ### identity -/

def DASH : UInt8 := 45

/-- `Bundle::id` -/
def Bundle.id (b : Bundle) : Bytes :=
  printEid b.primary.src ++ [DASH] ++ decStr b.primary.ts ++ [DASH] ++ decStr b.primary.seq
  ++ (if b.primary.isFragment then [DASH] ++ decStr b.primary.fragOff else [])

/-- `Display for Bundle` -/
def Bundle.display (b : Bundle) : Bytes := b.id ++ [95] ++ printEid b.primary.dst

end Bp7
