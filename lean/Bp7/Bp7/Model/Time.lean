/-
  Model of src/dtntime.rs (conversions, Display) with humantime 2.4 `format_rfc3339`
  (precision "smart") copied line by line.
-/
import Bp7.Model.Types
import Bp7.Model.Eid
namespace Bp7

def SECONDS1970_TO2K : Nat := 946684800
def MS1970_TO2K : Nat := 946684800000
/-- first millisecond humantime refuses (year 10000) -/
def MAX_RFC3339_MS : Nat := 253402300800000

/-- `DtnTimeHelpers::unix` (fix F7a): seconds since 1970 -/
def dtnUnix (t : Nat) : Nat := t / 1000 + SECONDS1970_TO2K

structure Civil where
  year : Int
  mon : Int
  mday : Int
  deriving Repr, DecidableEq

def monthLens : List Int := [31, 30, 31, 30, 31, 31, 30, 31, 30, 31, 31, 29]

/-- the `for mon_len in months` loop: returns (mon, remdays) -/
def monthLoop : List Int → Int → Int → Int × Int
  | [], mon, rem => (mon, rem)
  | l :: ls, mon, rem => if rem < l then (mon + 1, rem) else monthLoop ls (mon + 1) (rem - l)

/-- 400-year cycles: `qc_cycles`, `remdays` (with the negative-remainder correction) -/
def stage400 (days : Int) : Int × Int :=
  let qc0 := Int.tdiv days 146097
  let rem0 := Int.tmod days 146097
  if rem0 < 0 then (qc0 - 1, rem0 + 146097) else (qc0, rem0)

/-- centuries within the cycle: `c_cycles` (capped at 3), remaining days -/
def stage100 (rem : Int) : Int × Int :=
  let c0 := Int.tdiv rem 36524
  let c := if c0 = 4 then c0 - 1 else c0
  (c, rem - c * 36524)

/-- 4-year cycles within the century: `q_cycles` (capped at 24), remaining days -/
def stage4 (rem : Int) : Int × Int :=
  let q0 := Int.tdiv rem 1461
  let q := if q0 = 25 then q0 - 1 else q0
  (q, rem - q * 1461)

/-- years within the 4-year cycle: `remyears` (capped at 3), remaining days -/
def stage1 (rem : Int) : Int × Int :=
  let y0 := Int.tdiv rem 365
  let y := if y0 = 4 then y0 - 1 else y0
  (y, rem - y * 365)

/-- humantime's civil-from-days (musl `__secs_to_tm` style) for day number `dayNo` since 1970-01-01 -/
def civilOfDayNo (dayNo : Nat) : Civil :=
  let days : Int := (dayNo : Int) - 11017        -- LEAPOCH: 2000-03-01
  let (qc, r0) := stage400 days
  let (c, r1) := stage100 r0
  let (q, r2) := stage4 r1
  let (y, r3) := stage1 r2
  let year := 2000 + y + 4 * q + 100 * c + 400 * qc
  let (mon, remdays) := monthLoop monthLens 0 r3
  let mday := remdays + 1
  if mon + 2 > 12 then { year := year + 1, mon := mon - 10, mday := mday }
  else { year := year, mon := mon + 2, mday := mday }

/-- `secs` since 1970 -/
def civilOfSecs (secs : Nat) : Civil := civilOfDayNo (secs / 86400)

def dig (n : Int) : UInt8 := UInt8.ofNat (48 + n.toNat)
def digN (n : Nat) : UInt8 := UInt8.ofNat (48 + n)

/-- `format_rfc3339(UNIX_EPOCH + Duration::from_millis(ms)).to_string()` for `ms < MAX_RFC3339_MS` -/
def rfc3339 (ms : Nat) : Bytes :=
  let secs := ms / 1000
  let nanos := (ms % 1000) * 1000000
  let c := civilOfSecs secs
  let sod := secs % 86400
  [dig (c.year / 1000), dig (c.year / 100 % 10), dig (c.year / 10 % 10), dig (c.year % 10), 45,
   dig (c.mon / 10), dig (c.mon % 10), 45, dig (c.mday / 10), dig (c.mday % 10), 84,
   digN (sod / 3600 / 10), digN (sod / 3600 % 10), 58,
   digN (sod / 60 / 10 % 6), digN (sod / 60 % 10), 58,
   digN (sod / 10 % 6), digN (sod % 10)]
  ++ (if nanos = 0 then [90]
      else [46, digN (nanos / 100000000), digN (nanos / 10000000 % 10), digN (nanos / 1000000 % 10),
            digN (nanos / 100000 % 10), digN (nanos / 10000 % 10), digN (nanos / 1000 % 10),
            digN (nanos / 100 % 10), digN (nanos / 10 % 10), digN (nanos % 10), 90])

/-- `DtnTimeHelpers::string` (fix F7b): RFC 3339 up to the end of year 9999, otherwise the raw
    millisecond count followed by "ms" -/
def dtnString (t : Nat) : Bytes :=
  if t + MS1970_TO2K < MAX_RFC3339_MS then rfc3339 (t + MS1970_TO2K)
  else decStr t ++ asc "ms"

/-- `Display for CreationTimestamp` -/
def tsString (t seq : Nat) : Bytes := dtnString t ++ [32] ++ decStr seq

/-- `dtn_time_now` given the clock reading `ts_ms()` (wrapping u64 subtraction is a panic
    with overflow checks: clock before 2000 is outside the environment assumption) -/
def dtnTimeNow (clockMs : Nat) : Nat := clockMs - MS1970_TO2K

end Bp7
