/-
  Model of validation: src/flags.rs, src/primary.rs (validate), src/canonical.rs
  (validate / extension_validation), src/eid.rs (validate), src/bundle.rs (validate).
  Returns the list of error kinds in the order the Rust code pushes them.
-/
import Bp7.Model.Types
import Bp7.Model.Eid
namespace Bp7

inductive VErr where
  | version | flagsReserved | flagsFragment | flagsAdmin | eid
  | blockReserved | blockData | blockStatusReport | dupNumber | dupType | ageMissing | noPayload
  deriving Repr, DecidableEq, Inhabited

/-- a dtn ssp is well formed iff it starts with "//" and has a third '/' (fix F12) -/
def dtnSspOk (ssp : Bytes) : Bool :=
  startsWith [SLASH, SLASH] ssp && (ssp.drop 2).contains SLASH

/-- `EndpointID::validate` -/
def eidOk : Eid → Bool
  | .dtn _ ssp => dtnSspOk ssp
  | .ipn code node _ => code == 2 && decide (node ≥ 1)
  | .null code v => code == 1 && v == 0

def has (bits f : Nat) : Bool := flagsContain F_ALL bits f
def bhas (bits f : Nat) : Bool := flagsContain BF_ALL bits f

/-- `BundleValidation::validate` for the flag word -/
def validateBundleFlags (w : Nat) : List VErr :=
  (if has w F_RESERVED then [.flagsReserved] else [])
  ++ (if has w F_IS_FRAGMENT && has w F_MUST_NOT_FRAGMENT then [.flagsFragment] else [])
  ++ (if has w F_ADMIN && (has w F_REQ_RECEPTION || has w F_REQ_FORWARD || has w F_REQ_DELIVERY || has w F_REQ_DELETION)
      then [.flagsAdmin] else [])

/-- `PrimaryBlock::validate` -/
def Primary.validate (p : Primary) : List VErr :=
  (if p.version ≠ DTN_VERSION then [.version] else [])
  ++ validateBundleFlags p.flags
  ++ (if eidOk p.dst then [] else [.eid])
  ++ (if eidOk p.src then [] else [.eid])
  ++ (if eidOk p.rpt then [] else [.eid])

/-- `CanonicalBlock::extension_validation` -/
def Canon.extOk (c : Canon) : Bool :=
  match c.data with
  | .data _ => c.btype == PAYLOAD_BLOCK && c.num == 1
  | .age _ => c.btype == BUNDLE_AGE_BLOCK
  | .hop _ _ => c.btype == HOP_COUNT_BLOCK
  | .prev e => c.btype == PREVIOUS_NODE_BLOCK && eidOk e
  | .unknown _ => true
  | .decErr => false

/-- `CanonicalBlock::validate` -/
def Canon.validate (c : Canon) : List VErr :=
  (if bhas c.flags BF_RESERVED then [.blockReserved] else [])
  ++ (if c.extOk then [] else [.blockData])

/-- `Bundle::extension_block_by_type` -/
def Bundle.blockByType (b : Bundle) (t : Nat) : Option Canon :=
  b.canon.find? (fun c => c.btype == t && c.extOk)

/-- `Bundle::payload` -/
def Bundle.payload (b : Bundle) : Option Bytes :=
  match b.blockByType PAYLOAD_BLOCK with
  | some c => (match c.data with | .data d => some d | _ => none)
  | none => none

def isSingletonType (t : Nat) : Bool :=
  t == BUNDLE_AGE_BLOCK || t == HOP_COUNT_BLOCK || t == PREVIOUS_NODE_BLOCK

/-- the per-block loop of `Bundle::validate` with the two hash sets as lists of seen values -/
def validateBlocks (p : Primary) : List Canon → List Nat → List Nat → List VErr
  | [], _, _ => []
  | c :: cs, nums, types =>
    c.validate
    ++ (if (has p.flags F_ADMIN || p.src == Eid.dtnNone) && bhas c.flags BF_STATUS_REPORT then [.blockStatusReport] else [])
    ++ (if nums.contains c.num then [.dupNumber] else [])
    ++ (if types.contains c.btype && isSingletonType c.btype then [.dupType] else [])
    ++ validateBlocks p cs (c.num :: nums) (c.btype :: types)

/-- `Bundle::validate`: the error list (empty = Ok) -/
def Bundle.validate (b : Bundle) : List VErr :=
  b.primary.validate
  ++ validateBlocks b.primary b.canon [] []
  ++ (if b.primary.ts == 0 && !(b.canon.any (fun c => c.btype == BUNDLE_AGE_BLOCK)) then [.ageMissing] else [])
  ++ (if b.payload.isNone then [.noPayload] else [])

def Bundle.isValid (b : Bundle) : Bool := b.validate.isEmpty

def Bundle.isAdminRecord (b : Bundle) : Bool := has b.primary.flags F_ADMIN

end Bp7
