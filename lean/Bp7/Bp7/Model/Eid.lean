/-
  Model of src/eid.rs: CBOR form, URI parser, printer, constructors, accessors, validation.
-/
import Bp7.Model.Types
import Bp7.Model.Cbor
namespace Bp7

def asc (s : String) : Bytes := s.toList.map (fun c => UInt8.ofNat c.toNat)

/-! ### decimal printing / `u64::from_str` -/

def decDigits : Nat → Nat → List UInt8 → List UInt8
  | 0, _, acc => acc
  | fuel+1, n, acc =>
    let acc' := UInt8.ofNat (48 + n % 10) :: acc
    if n / 10 = 0 then acc' else decDigits fuel (n / 10) acc'

/-- `n.to_string()` -/
def decStr (n : Nat) : Bytes := decDigits (n + 1) n []

def isDigit (c : UInt8) : Bool := 48 ≤ c.toNat && c.toNat ≤ 57

def digitsVal : Bytes → Nat → Nat
  | [], acc => acc
  | c :: cs, acc => digitsVal cs (acc * 10 + (c.toNat - 48))

/-- `str::parse::<u64>()`: optional '+', at least one digit, only digits, no overflow -/
def parseU64 (s : Bytes) : Option Nat :=
  let d := match s with
    | c :: rest => if c.toNat = 43 then rest else s
    | [] => s
  if d.isEmpty then none
  else if d.all isDigit then
    let v := digitsVal d 0
    if v < U64 then some v else none
  else none

/-! ### byte-string helpers mirroring `str` methods on ASCII delimiters -/

def splitOnByte (d : UInt8) : Bytes → List Bytes
  | [] => [[]]
  | c :: cs =>
    if c = d then [] :: splitOnByte d cs
    else match splitOnByte d cs with
      | [] => [[c]]
      | x :: xs => (c :: x) :: xs

/-- `s.splitn(2, d)` -/
def splitFirst (d : UInt8) : Bytes → Option (Bytes × Bytes)
  | [] => none
  | c :: cs =>
    if c = d then some ([], cs)
    else match splitFirst d cs with
      | some (a, b) => some (c :: a, b)
      | none => none

def startsWith (p s : Bytes) : Bool := s.take p.length == p

/-- part of `s` after the `k`-th occurrence of `d`, if there are that many -/
def afterNth (d : UInt8) : Nat → Bytes → Option Bytes
  | 0, s => some s
  | _+1, [] => none
  | k+1, c :: cs => if c = d then afterNth d k cs else afterNth d (k+1) cs

def SLASH : UInt8 := 47

/-! ### CBOR form -/

def encEid : Eid → Bytes
  | .dtn code ssp => encArrayHead 2 ++ encUint code ++ encText ssp
  | .null code v => encArrayHead 2 ++ encUint code ++ encUint v
  | .ipn code node svc => encArrayHead 2 ++ encUint code ++ (encArrayHead 2 ++ encUint node ++ encUint svc)

/-- `EndpointID::validate` -/
def Eid.validate : Eid → Bool
  | .dtn _ _ => true
  | .ipn code node _ => code = 2 && node ≥ 1
  | .null code v => code = 1 && v = 0

def Eid.dtnNone : Eid := .null 1 0

def withIpn (node svc : Nat) : Res Eid :=
  if node ≥ 1 then .ok (.ipn 2 node svc) else .err .value

/-- derived `Deserialize` of the tuple struct `IpnAddress(u64, u64)` -/
def visitPairU64 (acc : Acc) : P ((Nat × Nat) × Acc) := fun s =>
  match reqElem readU64 acc s with
  | (.ok (a, acc1), s1) =>
    (match reqElem readU64 acc1 s1 with
     | (.ok (b, acc2), s2) => (.ok ((a, b), acc2), s2)
     | (.err e, s2) => (.err e, s2)
     | (.panic p, s2) => (.panic p, s2))
  | (.err e, s1) => (.err e, s1)
  | (.panic p, s1) => (.panic p, s1)

def readPairU64 : P (Nat × Nat) := readSeq visitPairU64

/-- `EndpointIDVisitor::visit_seq`. For scheme 1 the read of the ssp is
    `next_element::<String>().unwrap_or_default().unwrap_or_default()`: an error is swallowed,
    the reader stays where the failed read left it, and the EID becomes `dtn:none`. -/
def visitEid (acc : Acc) : P (Eid × Acc) := fun s =>
  match reqElem readU8 acc s with
  | (.ok (code, acc1), s1) =>
    if code = 1 then
      (match nextElem readString acc1 s1 with
       | (.ok (some name, acc2), s2) =>
         (.ok (if name.isEmpty then Eid.dtnNone else .dtn 1 name, acc2), s2)
       | (.ok (none, acc2), s2) => (.ok (Eid.dtnNone, acc2), s2)
       | (.err _, s2) =>
         -- the definite SeqAccess had already counted the element
         (.ok (Eid.dtnNone, match acc1 with | some (n+1) => some n | a => a), s2)
       | (.panic p, s2) => (.panic p, s2))
    else if code = 2 then
      (match reqElem readPairU64 acc1 s1 with
       | (.ok ((node, svc), acc2), s2) =>
         (match withIpn node svc with
          | .ok e => (.ok (e, acc2), s2)
          | .err e => (.err e, s2)
          | .panic p => (.panic p, s2))
       | (.err e, s2) => (.err e, s2)
       | (.panic p, s2) => (.panic p, s2))
    else (.err .value, s1)
  | (.err e, s1) => (.err e, s1)
  | (.panic p, s1) => (.panic p, s1)

def readEid : P Eid := readSeq visitEid

/-! ### URI form -/

/-- `EndpointID::with_dtn` -/
def withDtn (h : Bytes) : Res Eid :=
  let hs := if startsWith [SLASH, SLASH] h then h else SLASH :: SLASH :: h
  let hs := if (hs.drop 2).contains SLASH then hs else hs ++ [SLASH]
  .ok (.dtn 1 hs)

/-- `impl TryFrom<&str> for EndpointID` -/
def parseEid (s : Bytes) : Res Eid :=
  match splitFirst 58 s with
  | none => .err .parse
  | some (scheme, rest) =>
    if scheme = asc "dtn" then
      if rest = asc "none" then .ok Eid.dtnNone
      else if !startsWith [SLASH, SLASH] rest then .err .parse
      else if rest = asc "//none" then .err .parse
      else withDtn rest
    else if scheme = asc "ipn" then
      match splitOnByte 46 rest with
      | [a, b] =>
        (match parseU64 a with
         | none => .err .parse
         | some p1 =>
           match parseU64 b with
           | none => .err .parse
           | some p2 => withIpn p1 p2)
      | _ => .err .parse
    else .err .parse

/-- `Display for EndpointID` -/
def printEid : Eid → Bytes
  | .dtn _ ssp => asc "dtn:" ++ ssp
  | .null _ _ => asc "dtn:none"
  | .ipn _ n s => asc "ipn:" ++ decStr n ++ [46] ++ decStr s

/-- `DtnAddress::node_name` (fix F12): `split('/').nth(2).unwrap_or_default()` -/
def dtnNodeName (ssp : Bytes) : Bytes :=
  match splitOnByte SLASH ssp with
  | _ :: _ :: n :: _ => n
  | _ => []

/-- `DtnAddress::node_name` as on the pinned tree: `.expect("invalid internal dtn address format")` -/
def dtnNodeNamePinned (ssp : Bytes) : Res Bytes :=
  match splitOnByte SLASH ssp with
  | _ :: _ :: n :: _ => .ok n
  | _ => .panic .nodeName

/-- `DtnAddress::service_name`: `splitn(4, '/').nth(3).filter(non-empty)` -/
def dtnServiceName (ssp : Bytes) : Option Bytes :=
  match afterNth SLASH 3 ssp with
  | some r => if r.isEmpty then none else some r
  | none => none

/-- `EndpointID::node` -/
def Eid.node : Eid → Option Bytes
  | .null _ _ => none
  | .dtn _ ssp => some (dtnNodeName ssp)
  | .ipn _ n _ => some (decStr n)

/-- `EndpointID::node_id` -/
def Eid.nodeId : Eid → Option Bytes
  | .null _ _ => none
  | .dtn _ ssp => some (asc "dtn://" ++ dtnNodeName ssp ++ [SLASH])
  | .ipn _ n _ => some (asc "ipn:" ++ decStr n ++ asc ".0")

def Eid.isNodeId : Eid → Bool
  | .null _ _ => false
  | .dtn _ ssp => (dtnServiceName ssp).isNone
  | .ipn _ _ s => s = 0

def Eid.serviceName : Eid → Option Bytes
  | .null _ _ => none
  | .dtn _ ssp => dtnServiceName ssp
  | .ipn _ _ s => if s = 0 then none else some (decStr s)

/-! `str::trim` (Unicode `White_Space`) on UTF-8 bytes -/
def wsPrefixLen (s : Bytes) : Nat :=
  match s with
  | a :: rest =>
    if (9 ≤ a.toNat ∧ a.toNat ≤ 13) ∨ a.toNat = 32 then 1
    else match rest with
      | b :: rest2 =>
        if a.toNat = 0xC2 ∧ (b.toNat = 0x85 ∨ b.toNat = 0xA0) then 2
        else match rest2 with
          | c :: _ =>
            if a.toNat = 0xE1 ∧ b.toNat = 0x9A ∧ c.toNat = 0x80 then 3
            else if a.toNat = 0xE2 ∧ b.toNat = 0x80 ∧ ((0x80 ≤ c.toNat ∧ c.toNat ≤ 0x8A) ∨ c.toNat = 0xA8 ∨ c.toNat = 0xA9 ∨ c.toNat = 0xAF) then 3
            else if a.toNat = 0xE2 ∧ b.toNat = 0x81 ∧ c.toNat = 0x9F then 3
            else if a.toNat = 0xE3 ∧ b.toNat = 0x80 ∧ c.toNat = 0x80 then 3
            else 0
          | [] => 0
      | [] => 0
  | [] => 0

def trimStart : Nat → Bytes → Bytes
  | 0, s => s
  | fuel+1, s => let k := wsPrefixLen s; if k = 0 then s else trimStart fuel (s.drop k)

/-- whitespace character ending `s` (given reversed): length of it -/
def wsSuffixLenRev (r : Bytes) : Nat :=
  match r with
  | a :: rest =>
    if (9 ≤ a.toNat ∧ a.toNat ≤ 13) ∨ a.toNat = 32 then 1
    else match rest with
      | b :: rest2 =>
        if b.toNat = 0xC2 ∧ (a.toNat = 0x85 ∨ a.toNat = 0xA0) then 2
        else match rest2 with
          | c :: _ =>
            if c.toNat = 0xE1 ∧ b.toNat = 0x9A ∧ a.toNat = 0x80 then 3
            else if c.toNat = 0xE2 ∧ b.toNat = 0x80 ∧ ((0x80 ≤ a.toNat ∧ a.toNat ≤ 0x8A) ∨ a.toNat = 0xA8 ∨ a.toNat = 0xA9 ∨ a.toNat = 0xAF) then 3
            else if c.toNat = 0xE2 ∧ b.toNat = 0x81 ∧ a.toNat = 0x9F then 3
            else if c.toNat = 0xE3 ∧ b.toNat = 0x80 ∧ a.toNat = 0x80 then 3
            else 0
          | [] => 0
      | [] => 0
  | [] => 0

def trimEndRev : Nat → Bytes → Bytes
  | 0, r => r
  | fuel+1, r => let k := wsSuffixLenRev r; if k = 0 then r else trimEndRev fuel (r.drop k)

def trim (s : Bytes) : Bytes :=
  (trimEndRev (s.length + 1) (trimStart (s.length + 1) s).reverse).reverse

/-- `EndpointID::new_endpoint` -/
def Eid.newEndpoint (e : Eid) (ep : Bytes) : Res Eid :=
  match e with
  | .null _ _ => .err .value
  | .dtn _ ssp =>
    parseEid (asc "dtn://" ++ dtnNodeName ssp ++ [SLASH] ++ ep)
  | .ipn _ node _ =>
    match parseU64 (trim ep) with
    | some k => withIpn node k
    | none => .err .value

end Bp7
