/-
  Model of `helpers::hexify` / `helpers::unhexify` (src/helpers.rs) on UTF-8 byte strings.
  `&s[i..i+2]` (range / char-boundary panics) and `u8::from_str_radix(_, 16)` (optional
  leading '+') are modelled explicitly so that "never panics" is a statement.
-/
import Bp7.Model.Basic
namespace Bp7

def hexDigit (n : Nat) : UInt8 :=
  if n < 10 then UInt8.ofNat (48 + n) else UInt8.ofNat (87 + n)

/-- `write!(s, "{:02x}", b)` for every byte. -/
def hexify : Bytes → Bytes
  | [] => []
  | b :: bs => hexDigit (b.toNat / 16) :: hexDigit (b.toNat % 16) :: hexify bs

/-- `char::to_digit(16)` on an ASCII byte. -/
def hexVal (c : UInt8) : Option Nat :=
  let n := c.toNat
  if 48 ≤ n ∧ n ≤ 57 then some (n - 48)
  else if 97 ≤ n ∧ n ≤ 102 then some (n - 87)
  else if 65 ≤ n ∧ n ≤ 70 then some (n - 55)
  else none

def isHexDigit (c : UInt8) : Bool := (hexVal c).isSome

/-- A byte that is not a UTF-8 continuation byte starts a character. -/
def isCharStart (c : UInt8) : Bool := c.toNat < 128 || c.toNat ≥ 192

/-- `u8::from_str_radix(s, 16)` for a 2-byte `s` (the only length `unhexify` produces). -/
def fromStrRadix16 (a b : UInt8) : Res UInt8 :=
  if a.toNat = 43 then            -- leading '+' is accepted by Rust's integer parser
    match hexVal b with
    | some v => .ok (UInt8.ofNat v)
    | none => .err .parse
  else
    match hexVal a, hexVal b with
    | some x, some y => .ok (UInt8.ofNat (x * 16 + y))
    | _, _ => .err .parse

/-- The loop `(0..len).step_by(2).map(|i| from_str_radix(&s[i..i+2]))` with slicing panics.
    `collect::<Result<Vec<_>,_>>()` stops at the first error; a panic while producing
    a later element is never reached then (the iterator is lazy). -/
def unhexLoop : Bytes → Res Bytes
  | [] => .ok []
  | [_] => .panic .sliceRange
  | a :: b :: rest =>
    -- `&s[i..i+2]`: i is a boundary (invariant); i+2 is one iff it is the end of the
    -- string or the byte there starts a character
    match rest with
    | c :: _ =>
      if isCharStart c then
        (match fromStrRadix16 a b with
         | .ok v => (unhexLoop rest).bind (fun vs => .ok (v :: vs))
         | .err e => .err e
         | .panic s => .panic s)
      else .panic .charBoundary
    | [] =>
      (match fromStrRadix16 a b with
       | .ok v => .ok [v]
       | .err e => .err e
       | .panic s => .panic s)

/-- `helpers::unhexify` after fix F8: inputs that are not an even-length string of
    ASCII hex digits are rejected before any slicing happens. -/
def unhexify (s : Bytes) : Res Bytes :=
  if s.length % 2 != 0 || !(s.all isHexDigit) then .err .parse
  else unhexLoop s

/-- `helpers::unhexify` as on the pinned tree (no guard) — kept to state the F8 witness. -/
def unhexifyPinned (s : Bytes) : Res Bytes := unhexLoop s

end Bp7
