/-
  The `crc` crate (3.4.0) as this crate uses it: `Crc::<u16>::new(&CRC_16_IBM_SDLC)` and
  `Crc::<u32>::new(&CRC_32_ISCSI)` with the default implementation `Table<1>` (lib.rs:56), i.e.
    table.rs  crc16_table / crc32_table   (reflected polynomial, lane 0 = util::crcN of every byte value)
    util.rs   crc16 / crc32               (eight shift-and-conditional-xor steps, reflect branch)
    crc16.rs / crc32.rs  init, update_table (L = 1, reflect branch), finalize, checksum
  Both catalogue entries have refin = refout = true and width = register width, so only the
  reflect branches are modelled; the other branches answer nothing here (the catalogue
  parameters themselves are re-extracted from crc-catalog on every run).
-/
import Bp7.Model.Crc
namespace Bp7.CrcCrate

variable {w : Nat}

/-- util.rs: `value = (value >> 1) ^ ((value & 1) * poly)` -/
def utilStep (poly v : BitVec w) : BitVec w := (v >>> 1) ^^^ ((v &&& 1#w) * poly)

/-- util.rs `crcN(poly, reflect = true, value)`: the step eight times -/
def utilCrc (poly v : BitVec w) : BitVec w :=
  utilStep poly (utilStep poly (utilStep poly (utilStep poly
    (utilStep poly (utilStep poly (utilStep poly (utilStep poly v)))))))

/-- table.rs: `poly.reverse_bits() >> (W - width)` with width = W -/
def reflectPoly (poly : BitVec w) : BitVec w := poly.reverse >>> (w - w)

/-- table.rs `crcN_table::<1>`: `table[0][i] = crcN(poly, reflect, i)` for i in 0..256 -/
def table (poly : BitVec w) : Array (BitVec w) :=
  Array.ofFn (n := 256) fun i => utilCrc (reflectPoly poly) (BitVec.ofNat w i.val)

/-- crcN.rs `init` with refin: `initial.reverse_bits() >> (W - width)` -/
def init (initial : BitVec w) : BitVec w := initial.reverse >>> (w - w)

/-- crcN.rs `update_table`, L = 1, reflect:
    `table_index = ((crc ^ bytes[i] as uN) & 0xFF) as usize; crc = table[0][table_index] ^ (crc >> 8)`.
    (`getD`: the index is below 256 by construction — `tableIndex_lt` — so the default is never used) -/
def tableIndex (crc : BitVec w) (b : UInt8) : Nat := ((crc ^^^ b.toBitVec.setWidth w) &&& 0xFF#w).toNat

def updateByte (tbl : Array (BitVec w)) (crc : BitVec w) (b : UInt8) : BitVec w :=
  tbl.getD (tableIndex crc b) 0#w ^^^ (crc >>> 8)

def updateTable (tbl : Array (BitVec w)) (crc : BitVec w) (bytes : Bytes) : BitVec w :=
  bytes.foldl (updateByte tbl) crc

/-- crcN.rs `finalize` with refin = refout: `crc ^ xorout` -/
def finalize (xorout crc : BitVec w) : BitVec w := crc ^^^ xorout

/-- `Crc::checksum` -/
def checksum (poly initial xorout : BitVec w) (bytes : Bytes) : BitVec w :=
  finalize xorout (updateTable (table poly) (init initial) bytes)

/-- crc-catalog 2.5: CRC_16_IBM_SDLC = (width 16, poly 0x1021, init 0xffff, refin, refout, xorout 0xffff) -/
def x25 (bytes : Bytes) : BitVec 16 := checksum 0x1021#16 0xFFFF#16 0xFFFF#16 bytes
/-- crc-catalog 2.5: CRC_32_ISCSI = (width 32, poly 0x1edc6f41, init 0xffffffff, refin, refout, xorout 0xffffffff) -/
def castagnoli (bytes : Bytes) : BitVec 32 := checksum 0x1EDC6F41#32 0xFFFFFFFF#32 0xFFFFFFFF#32 bytes

end Bp7.CrcCrate
