/-
  CRC-16/IBM-SDLC (X.25) and CRC-32/ISCSI (Castagnoli) as the `crc` crate computes them for
  these catalogue entries (refin = refout = true): bit-serial, reflected polynomial.
  The crate's table lookup is not modelled; the tie is the `crc` correspondence op.
-/
import Bp7.Model.Basic
namespace Bp7

/-- one bit of the reflected algorithm -/
def crcBit {w : Nat} (poly : BitVec w) (x : BitVec w) : BitVec w :=
  if x.getLsbD 0 then (x >>> 1) ^^^ poly else x >>> 1

def crcBits {w : Nat} (poly : BitVec w) : Nat → BitVec w → BitVec w
  | 0, x => x
  | n+1, x => crcBits poly n (crcBit poly x)

/-- feed one byte -/
def crcByte {w : Nat} (poly : BitVec w) (s : BitVec w) (b : UInt8) : BitVec w :=
  crcBits poly 8 (s ^^^ (b.toBitVec.setWidth w))

def crcFeed {w : Nat} (poly : BitVec w) (s : BitVec w) (data : Bytes) : BitVec w :=
  data.foldl (crcByte poly) s

def POLY16 : BitVec 16 := 0x8408#16      -- reflect(0x1021)
def POLY32 : BitVec 32 := 0x82F63B78#32  -- reflect(0x1EDC6F41)

/-- `X25.checksum(data)`: init 0xffff, xorout 0xffff -/
def crc16 (data : Bytes) : BitVec 16 := crcFeed POLY16 0xFFFF#16 data ^^^ 0xFFFF#16
/-- `CASTAGNOLI.checksum(data)`: init 0xffffffff, xorout 0xffffffff -/
def crc32c (data : Bytes) : BitVec 32 := crcFeed POLY32 0xFFFFFFFF#32 data ^^^ 0xFFFFFFFF#32

end Bp7
