/-
  Model of src/ffi.rs as an ownership ledger: every `Box::into_raw` / `mem::forget(boxed slice)`
  / `CString::into_raw` is an allocation event, every `Box::from_raw` / `CString::from_raw` a
  release. Spatial memory safety of the raw-pointer reads is not expressible here.
-/
import Bp7.Model.Mutate
import Bp7.Model.Codec
namespace Bp7.Ffi
open Bp7

/-- objects handed to the C caller, with the ids of the allocations they own -/
inductive Obj where
  | buffer (content : Option Bytes) (allocs : List Nat)   -- `Buffer`: struct (+ data if len > 0); `none` = null data
  | bundle (b : Bundle) (allocs : List Nat)               -- `*mut Bundle`: one box (inner Vecs die with it)
  | mdata (allocs : List Nat)                             -- `BundleMetaData`: struct, src CString, dst CString
  deriving Repr

def Obj.allocs : Obj → List Nat
  | .buffer _ a | .bundle _ a | .mdata a => a

structure Ledger where
  nextId : Nat
  live : List Nat                 -- the ledger: live allocation ids
  objs : List (Nat × Obj)         -- handle ↦ object, for objects not yet freed
  nextHandle : Nat
  deriving Repr

def init : Ledger := { nextId := 0, live := [], objs := [], nextHandle := 0 }

inductive Call where
  | bufferTest
  | rndBundle (bytes : Bytes)      -- `helper_rnd_bundle`: a buffer holding the encoding of a random bundle
  | working                        -- `bp7_working`: no allocation
  | fromCbor (bytes : Bytes)
  | newBundle (b : Bundle)          -- `bundle_new_default` (the bundle it builds is computed by the caller of the model)
  | toCbor (h : Nat)
  | getMetadata (h : Nat)
  | payload (h : Nat)
  | isValid (h : Nat)
  | bufferFree (h : Nat)
  | bundleFree (h : Nat)
  | metadataFree (h : Nat)
  | payloadNull                    -- `bundle_payload(NULL)`: a Buffer struct with null data
  | bufferFreeNull                 -- `buffer_free(NULL)`: nothing happens
  | bundleFreeNull                 -- `bundle_free(NULL)`: nothing happens
  deriving Repr

inductive Out where
  | handle (h : Nat)
  | null
  | buffer (h : Nat) (content : Option Bytes)
  | mdata (h : Nat) (src dst : Bytes) (ts seq life : Nat)
  | bool (b : Bool)
  | unit
  | misuse                           -- call outside the protocol (dangling / wrong-kind handle)
  deriving Repr

def lookup (h : Nat) : List (Nat × Obj) → Option Obj
  | [] => none
  | (k, o) :: r => if k = h then some o else lookup h r

def remove (h : Nat) : List (Nat × Obj) → List (Nat × Obj)
  | [] => []
  | (k, o) :: r => if k = h then r else (k, o) :: remove h r

/-- allocate `n` fresh ids -/
def fresh (s : Ledger) (n : Nat) : List Nat := (List.range n).map (· + s.nextId)

def addObj (s : Ledger) (mk : List Nat → Obj) (n : Nat) : Ledger × Nat :=
  let ids := fresh s n
  ({ nextId := s.nextId + n, live := s.live ++ ids, objs := s.objs ++ [(s.nextHandle, mk ids)],
     nextHandle := s.nextHandle + 1 }, s.nextHandle)

/-- a `Buffer` for `content`: struct + data (no data allocation for an empty slice) -/
def newBuffer (s : Ledger) (content : Bytes) : Ledger × Out :=
  let (s', h) := addObj s (Obj.buffer (some content)) (if content.isEmpty then 1 else 2)
  (s', .buffer h (some content))

/-- release `ids` and forget the object -/
def release (s : Ledger) (h : Nat) (ids : List Nat) : Ledger :=
  { s with live := s.live.filter (fun i => !ids.contains i), objs := remove h s.objs }

/-- `CString::new` succeeds iff the bytes contain no NUL -/
def cStringOk (b : Bytes) : Bool := !b.contains 0

/-- `pinned = true`: the frees as on the pinned tree (buffer data and metadata struct leak) -/
def step (pinned : Bool) (s : Ledger) : Call → Ledger × Out
  | .bufferTest => newBuffer s [0x42, 0x43, 0x44, 0x45]
  | .rndBundle bytes => newBuffer s bytes
  | .working => (s, .bool true)
  | .fromCbor bytes =>
    (match decodeBundle bytes with
     | .ok b => if b.isValid then let (s', h) := addObj s (Obj.bundle b) 1; (s', .handle h) else (s, .null)
     | _ => (s, .null))
  | .newBundle b => let (s', h) := addObj s (Obj.bundle b) 1; (s', .handle h)
  | .toCbor h =>
    (match lookup h s.objs with
     | some (.bundle b a) =>
       -- `to_cbor(&mut self)` updates the stored CRCs of the bundle behind the pointer
       let (b', bytes) := b.toCbor
       let s1 := { s with objs := s.objs.map (fun (k, o) => if k = h then (k, Obj.bundle b' a) else (k, o)) }
       newBuffer s1 bytes
     | _ => (s, .misuse))
  | .getMetadata h =>
    (match lookup h s.objs with
     | some (.bundle b _) =>
       -- a C string cannot hold a NUL byte: `CString::new` fails and the function answers null,
       -- nothing allocated (fix F13; the pinned tree `.unwrap()`ed and aborted the process)
       if cStringOk (printEid b.primary.src) && cStringOk (printEid b.primary.dst) then
         let (s', m) := addObj s Obj.mdata 3
         (s', .mdata m (printEid b.primary.src) (printEid b.primary.dst) b.primary.ts b.primary.seq b.primary.lifetime)
       else (s, .null)
     | _ => (s, .misuse))
  | .payload h =>
    (match lookup h s.objs with
     | some (.bundle b _) =>
       (match b.payload with
        | some p => newBuffer s p
        | none => let (s', k) := addObj s (Obj.buffer none) 1; (s', .buffer k none))
     | _ => (s, .misuse))
  | .isValid h =>
    (match lookup h s.objs with
     | some (.bundle b _) => (s, .bool b.isValid)
     | _ => (s, .misuse))
  | .bufferFree h =>
    (match lookup h s.objs with
     | some (.buffer _ a) => (release s h (if pinned then a.take 1 else a), .unit)
     | _ => (s, .misuse))
  | .bundleFree h =>
    (match lookup h s.objs with
     | some (.bundle _ a) => (release s h a, .unit)
     | _ => (s, .misuse))
  | .metadataFree h =>
    (match lookup h s.objs with
     | some (.mdata a) => (release s h (if pinned then a.drop 1 else a), .unit)
     | _ => (s, .misuse))
  | .payloadNull => let (s', k) := addObj s (Obj.buffer none) 1; (s', .buffer k none)
  | .bufferFreeNull => (s, .unit)
  | .bundleFreeNull => (s, .unit)

def run (pinned : Bool) : List Call → Ledger → Ledger × List Out
  | [], s => (s, [])
  | c :: cs, s =>
    let (s1, o) := step pinned s c
    let (s2, os) := run pinned cs s1
    (s2, o :: os)

end Bp7.Ffi
