/-
  Model of src/administrative_record.rs.
-/
import Bp7.Model.Codec
import Bp7.Model.Mutate
namespace Bp7

structure StatusItem where
  asserted : Bool
  time : Nat
  statusRequested : Bool
  deriving Repr, DecidableEq, Inhabited

structure StatusReport where
  items : List StatusItem
  reason : Nat
  source : Eid
  ts : Nat
  seq : Nat
  fragOff : Nat
  fragLen : Nat
  deriving Repr, DecidableEq, Inhabited

inductive AdminRecord where
  | report (sr : StatusReport)
  | unknown (code : Nat) (data : Bytes)
  | mismatched (code : Nat) (data : Bytes)
  deriving Repr, DecidableEq, Inhabited

def encItem (i : StatusItem) : Bytes :=
  if i.asserted && i.statusRequested then encArrayHead 2 ++ encBool i.asserted ++ encUint i.time
  else encArrayHead 1 ++ encBool i.asserted

def encReport (r : StatusReport) : Bytes :=
  encArrayHead (if r.fragLen ≠ 0 then 6 else 4)
  ++ (encArrayHead r.items.length ++ (r.items.map encItem).flatten)
  ++ encUint r.reason ++ encEid r.source
  ++ (encArrayHead 2 ++ encUint r.ts ++ encUint r.seq)
  ++ (if r.fragLen ≠ 0 then encUint r.fragOff ++ encUint r.fragLen else [])

def encAdmin : AdminRecord → Bytes
  | .report sr => encArrayHead 2 ++ encUint 1 ++ encReport sr
  | .unknown code data => encArrayHead 2 ++ encUint code ++ encBytes data
  | .mismatched code data => encArrayHead 2 ++ encUint code ++ encBytes data

def visitItem (acc : Acc) : P (StatusItem × Acc) := do
  let (asserted, acc) ← reqElem readBool acc
  if acc = some 1 then do
    let (time, acc) ← reqElem readU64 acc
    pure ({ asserted, time, statusRequested := true }, acc)
  else pure ({ asserted, time := 0, statusRequested := false }, acc)

def readItem : P StatusItem := readSeq visitItem

/-- serde's `Vec<T>` visitor -/
def readItems : P (List StatusItem) :=
  readSeq (fun acc s => collectElems readItem (s.inp.length + 1) [] acc s)

def visitReport (acc : Acc) : P (StatusReport × Acc) := do
  let (items, acc) ← reqElem readItems acc
  let (reason, acc) ← reqElem readU32 acc
  let (source, acc) ← reqElem readEid acc
  let ((ts, seq), acc) ← reqElem readPairU64 acc
  if acc = some 2 then do
    let (fragOff, acc) ← reqElem readU64 acc
    let (fragLen, acc) ← reqElem readU64 acc
    pure ({ items, reason, source, ts, seq, fragOff, fragLen }, acc)
  else pure ({ items, reason, source, ts, seq, fragOff := 0, fragLen := 0 }, acc)

def readReport : P StatusReport := readSeq visitReport

def visitAdmin (acc : Acc) : P (AdminRecord × Acc) := do
  let (code, acc) ← reqElem readU32 acc
  if code = 1 then do
    let (sr, acc) ← reqElem readReport acc
    pure (.report sr, acc)
  else do
    let (data, acc) ← reqElem readByteBuf acc
    pure (.unknown code data, acc)

def readAdmin : P AdminRecord := readSeq visitAdmin

/-- `serde_cbor::from_slice::<AdministrativeRecord>` -/
def decodeAdmin (b : Bytes) : Res AdminRecord := fromSlice readAdmin b

/-- `StatusReport::refbundle` -/
def StatusReport.refbundle (r : StatusReport) : Bytes :=
  printEid r.source ++ [DASH] ++ decStr r.ts ++ [DASH] ++ decStr r.seq
  ++ (if r.fragLen > 0 then [DASH] ++ decStr r.fragOff else [])

/-- `new_status_report`; `now` = `dtn_time_now()` -/
def newStatusReport (b : Bundle) (pos reason now : Nat) : Res StatusReport :=
  if b.primary.isFragment then .panic .unimplementedFrag
  else
    let item := fun (i : Nat) =>
      if i = pos ∧ has b.primary.flags F_STATUS_TIME then ({ asserted := true, time := now, statusRequested := true } : StatusItem)
      else if i = pos then { asserted := true, time := 0, statusRequested := false }
      else { asserted := false, time := 0, statusRequested := false }
    .ok { items := [item 0, item 1, item 2, item 3], reason := reason, source := b.primary.src,
          ts := b.primary.ts, seq := b.primary.seq, fragOff := 0, fragLen := 0 }

/-- `new_status_report_bundle`; `(tsNow, seqNow)` = `CreationTimestamp::now()`, `now` = clock
    of the status item -/
def newStatusReportBundle (orig : Bundle) (src : Eid) (crcType pos reason now tsNow seqNow : Nat) : Res Bundle :=
  (newStatusReport orig pos reason now).bind fun sr =>
    if orig.primary.rpt = Eid.dtnNone then .panic .expect   -- PrimaryBlockBuilder::build: NoDestination
    else
      let p : Primary := { version := DTN_VERSION, flags := F_ADMIN, crc := .no, dst := orig.primary.rpt,
                           src := src, rpt := src, ts := tsNow, seq := seqNow,
                           lifetime := orig.primary.lifetime, fragOff := 0, total := 0 }
      (buildBundle p [newPayloadBlock 0 (encAdmin (.report sr))]).map (fun b => b.setCrc crcType)

end Bp7
