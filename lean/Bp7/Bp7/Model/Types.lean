/-
  Data model of bp7: bundles, blocks, endpoint IDs, CRC values.
  Rust integer fields are `Nat`; `WF` (Props) bounds them by their Rust width.
  Text is UTF-8 bytes.
-/
import Bp7.Model.Basic
namespace Bp7

/-- `crc::CrcValue` -/
inductive CrcVal where
  | no | empty16 | empty32
  | v16 (b0 b1 : UInt8)
  | v32 (b0 b1 b2 b3 : UInt8)
  | unknown (code : Nat)
  deriving Repr, DecidableEq, Inhabited

/-- `eid::EndpointID`: `Dtn(u8, DtnAddress)`, `DtnNone(u8, u8)`, `Ipn(u8, IpnAddress)` -/
inductive Eid where
  | dtn (code : Nat) (ssp : Bytes)
  | null (code : Nat) (v : Nat)
  | ipn (code : Nat) (node svc : Nat)
  deriving Repr, DecidableEq, Inhabited

/-- `primary::PrimaryBlock`; `lifetime` is the `Duration` in whole milliseconds -/
structure Primary where
  version : Nat
  flags : Nat
  crc : CrcVal
  dst : Eid
  src : Eid
  rpt : Eid
  ts : Nat
  seq : Nat
  lifetime : Nat
  fragOff : Nat
  total : Nat
  deriving Repr, DecidableEq, Inhabited

/-- `canonical::CanonicalData` -/
inductive CData where
  | hop (limit count : Nat)
  | data (b : Bytes)
  | age (ms : Nat)
  | prev (e : Eid)
  | unknown (b : Bytes)
  | decErr
  deriving Repr, DecidableEq, Inhabited

/-- `canonical::CanonicalBlock` -/
structure Canon where
  btype : Nat
  num : Nat
  flags : Nat
  crc : CrcVal
  data : CData
  deriving Repr, DecidableEq, Inhabited

/-- `bundle::Bundle` -/
structure Bundle where
  primary : Primary
  canon : List Canon
  deriving Repr, DecidableEq, Inhabited

def PAYLOAD_BLOCK : Nat := 1
def PREVIOUS_NODE_BLOCK : Nat := 6
def BUNDLE_AGE_BLOCK : Nat := 7
def HOP_COUNT_BLOCK : Nat := 10
def DTN_VERSION : Nat := 7

def U64 : Nat := 18446744073709551616
def U32 : Nat := 4294967296

namespace CrcVal
/-- `has_crc`: everything but `CrcNo` (including `Unknown`) -/
def hasCrc : CrcVal → Bool
  | .no => false
  | _ => true
def toCode : CrcVal → Nat
  | .no => 0
  | .empty16 | .v16 _ _ => 1
  | .empty32 | .v32 _ _ _ _ => 2
  | .unknown c => c
/-- `bytes()` -/
def bytes : CrcVal → Option Bytes
  | .no => none
  | .unknown _ => none
  | .empty16 => some [0, 0]
  | .empty32 => some [0, 0, 0, 0]
  | .v16 a b => some [a, b]
  | .v32 a b c d => some [a, b, c, d]
/-- `reset_crc` -/
def reset : CrcVal → CrcVal
  | .v16 _ _ => .empty16
  | .v32 _ _ _ _ => .empty32
  | c => c
/-- `set_crc_type` -/
def ofType (t : Nat) : CrcVal :=
  if t = 0 then .no else if t = 1 then .empty16 else if t = 2 then .empty32 else .unknown t
end CrcVal

/-- bundle control flag bits (src/flags.rs) -/
def F_IS_FRAGMENT : Nat := 0x000001
def F_ADMIN : Nat := 0x000002
def F_MUST_NOT_FRAGMENT : Nat := 0x000004
def F_USER_ACK : Nat := 0x000020
def F_STATUS_TIME : Nat := 0x000040
def F_REQ_RECEPTION : Nat := 0x004000
def F_REQ_FORWARD : Nat := 0x010000
def F_REQ_DELIVERY : Nat := 0x020000
def F_REQ_DELETION : Nat := 0x040000
def F_RESERVED : Nat := 0xE218
/-- union of all declared bundle flags: `from_bits_truncate` keeps exactly these bits -/
def F_ALL : Nat := 0x074067 ||| 0xE218

def BF_REPLICATE : Nat := 0x01
def BF_STATUS_REPORT : Nat := 0x02
def BF_DELETE : Nat := 0x04
def BF_REMOVE : Nat := 0x10
def BF_RESERVED : Nat := 0xF0
def BF_ALL : Nat := 0xF7

/-- bitflags 2.x: `from_bits_truncate(bits).contains(f)` -/
def flagsContain (all bits f : Nat) : Bool := ((bits &&& all) &&& f) == f

def Primary.isFragment (p : Primary) : Bool := flagsContain F_ALL p.flags F_IS_FRAGMENT

end Bp7
