import Bp7.Extracted
namespace Bp7.ExtractedOk.C10
open Bp7.Extracted
example : eid_scheme_dtn = some 1 := by decide
example : eid_scheme_ipn = some 2 := by decide
example : ser_eid = some "eid_type|name|eid_type|name|eid_type|ipnaddr" := rfl
example : eid_parse_body = some "{ let items: Vec<&str> = item.splitn(2, ':').collect(); if items.len() != 2 { return Err(EndpointIdError::InvalidUrlFormat); } match items[0] { \"dtn\" => { let ssp = items[1]; if ssp == \"none\" { return Ok(EndpointID::none()); } if !ssp.starts_with(\"//\") { return Err(EndpointIdError::InvalidUrlFormat); } if ssp == \"//none\" { return Err(EndpointIdError::NoneNotValidHost); } EndpointID::with_dtn(ssp) } \"ipn\" => { let fields: Vec<&str> = items[1].split('.').collect(); if fields.len() != 2 { return Err(EndpointIdError::WrongNumberOfFieldsInIpn(fields.len())); } let p1: u64 = fields[0].parse()?; let p2: u64 = fields[1].parse()?; EndpointID::with_ipn(p1, p2) } _ => Err(EndpointIdError::UnknownScheme(items[0].to_owned())), } }" := rfl
example : eid_node_id_formats = some "{}:{}.0|{}://{}/" := rfl
example : eid_new_endpoint_formats = some "dtn://{}/{}" := rfl
example : eid_display_format = some "{}:{}" := rfl
example : eid_validate_dtn_rule = some "addr.0.starts_with(\"//\")&&addr.0[2..].contains('/')" := rfl
end Bp7.ExtractedOk.C10
