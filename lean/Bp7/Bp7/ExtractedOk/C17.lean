import Bp7.Extracted
namespace Bp7.ExtractedOk.C17
open Bp7.Extracted
example : seconds1970_to2k = some 946684800 ∧ ms1970_to2k = some 946684800000 := by decide
example : time_unix_expr = some "self/1000+SECONDS1970_TO2K" := rfl
example : time_rfc3339_end_ms = some 253402300800000 := by decide
example : time_string_guard = some "ms<RFC3339_END_MS" := rfl
example : time_now_expr = some "crate::helpers::ts_ms()-MS1970_TO2K" := rfl
end Bp7.ExtractedOk.C17
