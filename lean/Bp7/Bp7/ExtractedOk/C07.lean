import Bp7.Extracted
/-! Facts the validation model assumes about src/flags.rs, src/bundle.rs, src/canonical.rs. -/
namespace Bp7.ExtractedOk.C07
open Bp7.Extracted
example : flag_bundle_is_fragment = some 0x1 ∧ flag_bundle_administrative_record_payload = some 0x2
  ∧ flag_bundle_must_not_fragmented = some 0x4 ∧ flag_bundle_request_user_application_ack = some 0x20
  ∧ flag_bundle_request_status_time = some 0x40 ∧ flag_bundle_status_request_reception = some 0x4000
  ∧ flag_bundle_status_request_forward = some 0x10000 ∧ flag_bundle_status_request_delivery = some 0x20000
  ∧ flag_bundle_status_request_deletion = some 0x40000 ∧ flag_bundle_cfreserved_fields = some 0xE218 := by decide
example : flag_block_replicate = some 1 ∧ flag_block_status_report = some 2 ∧ flag_block_delete_bundle = some 4
  ∧ flag_block_remove = some 0x10 ∧ flag_block_cfreserved_fields = some 0xF0 := by decide
example : dtn_version = some 7 := by decide
example : payload_block = some 1 ∧ previous_node_block = some 6 ∧ bundle_age_block = some 7 ∧ hop_count_block = some 10 := by decide
example : validate_age_rule = some "self.primary.creation_timestamp.dtntime()==0&&!b_types.contains(&BUNDLE_AGE_BLOCK)" := rfl
example : payload_block_number_rule = some 1 := by decide
end Bp7.ExtractedOk.C07
