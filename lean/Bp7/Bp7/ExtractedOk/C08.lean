import Bp7.Extracted
/-! The three decisions of `update_extensions` as the source states them (operators and operands). -/
namespace Bp7.ExtractedOk.C08
open Bp7.Extracted
example : upd_hop_rule = some "u16::from(hc_count)+1>u16::from(hc_limit)" := rfl
example : upd_hop_increment = some "saturating_add(1)" := rfl
example : upd_age_sum = some "ba_orig.saturating_add(residence_time)" := rfl
example : upd_age_rule = some "ba_new>self.primary.lifetime.as_millis()" := rfl
example : upd_expiry_rule = some "u128::from(self.creation_timestamp.dtntime())+self.lifetime.as_millis()<=u128::from(now)" := rfl
example : previous_node_block = some 6 ∧ bundle_age_block = some 7 ∧ hop_count_block = some 10 := by decide
example : ms1970_to2k = some 946684800000 := by decide
end Bp7.ExtractedOk.C08
