import Bp7.Extracted
/-! `CreationTimestamp::now` is eight lines; the model (Model/TsGen.lean, `critical`) mirrors it
    statement by statement, so the whole body (comments, whitespace and the cfg(bp7_verif)
    scheduling point removed) is pinned. -/
namespace Bp7.ExtractedOk.C09
open Bp7.Extracted
example : tsgen_now_body = some "{staticLAST_CREATION:Mutex<(DtnTime,u64)>=Mutex::new((0,0));letnow=dtn_time_now();letmutlast=LAST_CREATION.lock().unwrap_or_else(|e|e.into_inner());ifnow>last.0{*last=(now,0);}letts=CreationTimestamp::with_time_and_seq(last.0,last.1);last.1=last.1.wrapping_add(1);ts}" := rfl
example : ms1970_to2k = some 946684800000 := by decide
end Bp7.ExtractedOk.C09
