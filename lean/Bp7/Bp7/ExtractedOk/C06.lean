import Bp7.Extracted
/-! Explicit panic sites (`unwrap()`, `expect(`, `panic!`, `unimplemented!`, …) per receive-path
    module, tests and comments stripped. The model accounts for each of them:
    bundle.rs 3 (builder `last().unwrap()` behind an emptiness test, `to_json` serialisation,
    `new_std_payload_bundle` builder), primary.rs 3 (`to_cbor` serialisation, two in the
    string-based constructor `new_primary_block`), canonical.rs 7 (serialisation ×3, block
    constructors ×4 with data always set), eid.rs 1 (`new_endpoint`: `node()` is `Some` for dtn),
    administrative_record.rs 4 (serialisation, `unimplemented!` for fragments in
    `new_status_report` — modelled as a panic outcome, not on the receive path — and two builder
    unwraps in `new_status_report_bundle` — modelled for a null report-to). A new site changes a count. -/
namespace Bp7.ExtractedOk.C06
open Bp7.Extracted
example : panic_sites_bundle = some 3 := by decide
example : panic_sites_primary = some 3 := by decide
example : panic_sites_canonical = some 7 := by decide
example : panic_sites_eid = some 1 := by decide
example : panic_sites_crc = some 0 := by decide
example : panic_sites_dtntime = some 0 := by decide
example : panic_sites_administrative_record = some 4 := by decide
example : panic_sites_flags = some 0 := by decide
example : upd_hop_increment = some "saturating_add(1)" := rfl
example : upd_age_sum = some "ba_orig.saturating_add(residence_time)" := rfl
example : time_unix_expr = some "self/1000+SECONDS1970_TO2K" := rfl
example : time_string_guard = some "ms<RFC3339_END_MS" := rfl
end Bp7.ExtractedOk.C06
