import Bp7.Extracted
/-! Facts the CRC model assumes about src/crc.rs, re-extracted on every run. -/
namespace Bp7.ExtractedOk.C04
open Bp7.Extracted
example : crc16_catalogue = some "CRC_16_IBM_SDLC" := rfl
example : crc32_catalogue = some "CRC_32_ISCSI" := rfl
example : crc_no = some 0 ∧ crc_16 = some 1 ∧ crc_32 = some 2 := by decide
example : ser_primary = some "self.version|self.bundle_control_flags|self.crc.to_code()|self.destination|self.source|self.report_to|self.creation_timestamp|(self.lifetime.as_millis()asu64)|self.fragmentation_offset|self.total_data_length|serde_bytes::Bytes::new(crc_bytes)" := rfl
example : ser_canonical = some "self.block_type|self.block_number|self.block_control_flags|crc_code|serde_bytes::Bytes::new(payload)|serde_bytes::Bytes::new(payload)|serde_bytes::Bytes::new(&serde_cbor::to_vec(&self.data).unwrap(),)|serde_bytes::Bytes::new(crc_bytes)" := rfl
end Bp7.ExtractedOk.C04
