import Bp7.Extracted
/-! Facts the CRC model assumes about src/crc.rs, re-extracted on every run. -/
namespace Bp7.ExtractedOk.C04
open Bp7.Extracted
example : crc16_catalogue = some "CRC_16_IBM_SDLC" := rfl
example : crc32_catalogue = some "CRC_32_ISCSI" := rfl
example : crc_no = some 0 ∧ crc_16 = some 1 ∧ crc_32 = some 2 := by decide
example : ser_primary = some "self.version|self.bundle_control_flags|self.crc.to_code()|self.destination|self.source|self.report_to|self.creation_timestamp|(self.lifetime.as_millis()asu64)|self.fragmentation_offset|self.total_data_length|serde_bytes::Bytes::new(crc_bytes)" := rfl
example : ser_canonical = some "self.block_type|self.block_number|self.block_control_flags|crc_code|serde_bytes::Bytes::new(payload)|serde_bytes::Bytes::new(payload)|serde_bytes::Bytes::new(&serde_cbor::to_vec(&self.data).unwrap(),)|serde_bytes::Bytes::new(crc_bytes)" := rfl
/-! the vendored `crc` / `crc-catalog` sources named by Cargo.lock say what Model/CrcTable.lean models -/
example : crc_crate_default_impl = some "Table<1>" := rfl
example : crc16_crate_update_reflect = some "lettable_index=((crc^bytes[i]asu16)&0xFF)asusize;crc=table[0][table_index]^(crc>>8);" := rfl
example : crc32_crate_update_reflect = some "lettable_index=((crc^bytes[i]asu32)&0xFF)asusize;crc=table[0][table_index]^(crc>>8);" := rfl
example : crc16_crate_util_reflect = some "letmuti=0;whilei<8{value=(value>>1)^((value&1)*poly);i+=1;}" := rfl
example : crc32_crate_util_reflect = some "letmuti=0;whilei<8{value=(value>>1)^((value&1)*poly);i+=1;}" := rfl
example : crc16_crate_table_lane0 = some "crc16(poly,reflect,iasu16)" ∧ crc32_crate_table_lane0 = some "crc32(poly,reflect,iasu32)" := ⟨rfl, rfl⟩
example : crc_16_ibm_sdlc_params = some "width:16,poly:0x1021,init:0xffff,refin:true,refout:true,xorout:0xffff,check:0x906e,residue:0xf0b8" := rfl
example : crc_32_iscsi_params = some "width:32,poly:0x1edc6f41,init:0xffffffff,refin:true,refout:true,xorout:0xffffffff,check:0xe3069283,residue:0xb798b438" := rfl
end Bp7.ExtractedOk.C04
