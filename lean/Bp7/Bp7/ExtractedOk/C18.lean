import Bp7.Extracted
/-! Facts the C18 model assumes about src/helpers.rs, re-extracted on every run. -/
namespace Bp7.ExtractedOk.C18
open Bp7.Extracted
example : hexify_format = some "{:02x}" := rfl
example : unhexify_step = some 2 := by decide
example : unhexify_radix = some 16 := by decide
example : unhexify_slice_width = some 2 := by decide
end Bp7.ExtractedOk.C18
