import Bp7.Extracted
namespace Bp7.ExtractedOk.C12
open Bp7.Extracted
example : ser_admin = some "BUNDLE_STATUS_REPORT_TYPE_CODE|sr|code|serde_bytes::Bytes::new(data)|code|serde_bytes::Bytes::new(data)" := rfl
example : ser_status_report = some "self.status_information|self.report_reason|self.source_node|self.timestamp|self.frag_offset|self.frag_len" := rfl
example : ser_status_item = some "self.asserted|self.time" := rfl
example : adm_report_type_code = some 1 ∧ adm_max_status_pos = some 4 := by decide
example : adm_report_bundle_builder = some ".destination(orig_bundle.primary.report_to.clone()).source(src.clone()).report_to(src).bundle_control_flags(BundleControlFlags::BUNDLE_ADMINISTRATIVE_RECORD_PAYLOAD.bits()).creation_timestamp(CreationTimestamp::now()).lifetime(orig_bundle.primary.lifetime)" := rfl
example : flag_bundle_request_status_time = some 0x40 ∧ flag_bundle_administrative_record_payload = some 2 := by decide
example : adm_refbundle_body = some "{ let mut id = format!( \"{}-{}-{}\", self.source_node, self.timestamp.dtntime(), self.timestamp.seqno(), ); if self.frag_len > 0 { id = format!(\"{}-{}\", id, self.frag_offset); } id }" := rfl
end Bp7.ExtractedOk.C12
