import Bp7.Extracted
namespace Bp7.ExtractedOk.C15
open Bp7.Extracted
example : primary_frag_rule = some "Some(remaining)=>remaining>1,None=>bundle_control_flags.contains(BundleControlFlags::BUNDLE_IS_FRAGMENT)," := rfl
example : ser_primary = some "self.version|self.bundle_control_flags|self.crc.to_code()|self.destination|self.source|self.report_to|self.creation_timestamp|(self.lifetime.as_millis()asu64)|self.fragmentation_offset|self.total_data_length|serde_bytes::Bytes::new(crc_bytes)" := rfl
example : de_primary = some "version|bundle_control_flags|crc_type|destination|source|report_to|creation_timestamp|lifetime_u64|rest|crc|crcbuf|crcbuf" := rfl
end Bp7.ExtractedOk.C15
