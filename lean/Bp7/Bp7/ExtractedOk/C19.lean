import Bp7.Extracted
/-! Facts the codec model (Model/Codec.lean, Model/Eid.lean) assumes about the hand-written
    Serialize/Deserialize impls, re-extracted from /repo/src on every run. -/
namespace Bp7.ExtractedOk.C19
open Bp7.Extracted
example : ser_primary = some "self.version|self.bundle_control_flags|self.crc.to_code()|self.destination|self.source|self.report_to|self.creation_timestamp|(self.lifetime.as_millis()asu64)|self.fragmentation_offset|self.total_data_length|serde_bytes::Bytes::new(crc_bytes)" := rfl
example : ser_canonical = some "self.block_type|self.block_number|self.block_control_flags|crc_code|serde_bytes::Bytes::new(payload)|serde_bytes::Bytes::new(payload)|serde_bytes::Bytes::new(&serde_cbor::to_vec(&self.data).unwrap(),)|serde_bytes::Bytes::new(crc_bytes)" := rfl
example : ser_eid = some "eid_type|name|eid_type|name|eid_type|ipnaddr" := rfl
example : de_primary = some "version|bundle_control_flags|crc_type|destination|source|report_to|creation_timestamp|lifetime_u64|rest|crc|crcbuf|crcbuf" := rfl
example : de_canonical = some "block_type|block_number|block_control_flags|crc_type|raw_payload|data|crc|crcbuf|crcbuf" := rfl
example : tocbor_start = some 0x9f := by decide
example : tocbor_break = some 0xff := by decide
example : payload_block = some 1 ∧ previous_node_block = some 6 ∧ bundle_age_block = some 7 ∧ hop_count_block = some 10 := by decide
example : crc_no = some 0 ∧ crc_16 = some 1 ∧ crc_32 = some 2 := by decide
example : eid_scheme_dtn = some 1 ∧ eid_scheme_ipn = some 2 := by decide
example : flag_bundle_is_fragment = some 1 := by decide
end Bp7.ExtractedOk.C19
