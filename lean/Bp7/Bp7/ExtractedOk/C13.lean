import Bp7.Extracted
namespace Bp7.ExtractedOk.C13
open Bp7.Extracted
example : id_formats = some "{}-{}-{}|{}-{}" := rfl
example : refbundle_formats = some "{}-{}-{}|{}-{}" := rfl
example : flag_bundle_is_fragment = some 1 := by decide
end Bp7.ExtractedOk.C13
