import Bp7.Extracted
namespace Bp7.ExtractedOk.C13
open Bp7.Extracted
example : id_formats = some "{}-{}-{}|{}-{}" := rfl
example : refbundle_formats = some "{}-{}-{}|{}-{}" := rfl
example : flag_bundle_is_fragment = some 1 := by decide
example : adm_refbundle_body = some "{ let mut id = format!( \"{}-{}-{}\", self.source_node, self.timestamp.dtntime(), self.timestamp.seqno(), ); if self.frag_len > 0 { id = format!(\"{}-{}\", id, self.frag_offset); } id }" := rfl
example : bundle_id_body = some "{ let src = self.primary.source.to_string(); let mut id = format!( \"{}-{}-{}\", src, self.primary.creation_timestamp.dtntime(), self.primary.creation_timestamp.seqno(), ); if self.primary.has_fragmentation() { id = format!(\"{}-{}\", id, self.primary.fragmentation_offset); } id }" := rfl
end Bp7.ExtractedOk.C13
