import Bp7.Extracted
namespace Bp7.ExtractedOk.C05
open Bp7.Extracted
example : check_crc_compare = some "calculate_crc(blck).bytes()==blck.crc()" := rfl
example : crc_valid_body = some "{if!self.primary.check_crc(){returnfalse;}forbin&mutself.canonicals{if!b.check_crc(){returnfalse;}}true}" := rfl
example : crc16_catalogue = some "CRC_16_IBM_SDLC" := rfl
example : crc32_catalogue = some "CRC_32_ISCSI" := rfl
end Bp7.ExtractedOk.C05
