import Bp7.Extracted
namespace Bp7.ExtractedOk.C11
open Bp7.Extracted
example : mut_sort_canonicals = some "{ self.canonicals .sort_by(|a, b| b.block_number.cmp(&a.block_number)); }" := rfl
example : mut_next_canonical_block_number = some "{ let mut highest_block_number = 1; for c in self.canonicals.iter() { highest_block_number = cmp::max(highest_block_number, c.block_number); } match highest_block_number.checked_add(1) { Some(next) => next, None => (2..) .find(|n| !self.canonicals.iter().any(|c| c.block_number == *n)) .unwrap_or(u64::MAX), } }" := rfl
example : mut_add_canonical_block = some "{ if (cblock.block_type == PAYLOAD_BLOCK || cblock.block_type == HOP_COUNT_BLOCK || cblock.block_type == BUNDLE_AGE_BLOCK || cblock.block_type == PREVIOUS_NODE_BLOCK) && self.extension_block_by_type(cblock.block_type).is_some() { return; } let block_num = if cblock.block_type == PAYLOAD_BLOCK { crate::canonical::PAYLOAD_BLOCK_NUMBER } else { self.next_canonical_block_number() }; cblock.block_number = block_num; self.canonicals.push(cblock); self.sort_canonicals(); }" := rfl
example : mut_set_payload_block = some "{ self.canonicals .retain(|c| c.block_type != crate::canonical::PAYLOAD_BLOCK); self.add_canonical_block(payload); }" := rfl
example : mut_set_payload = some "{ if let Some(pb) = self.extension_block_by_type_mut(crate::canonical::PAYLOAD_BLOCK) { pb.set_data(crate::canonical::CanonicalData::Data(payload)); } else { let new_payload = crate::canonical::new_payload_block(BlockControlFlags::empty(), payload); self.set_payload_block(new_payload); } }" := rfl
example : mut_set_crc = some "{ self.primary.set_crc_type(crc_type); for b in &mut self.canonicals { b.set_crc_type(crc_type); } }" := rfl
example : payload_block_number_rule = some 1 := rfl
end Bp7.ExtractedOk.C11
