import Bp7.Props.C09
#print axioms Bp7.C09.now_unique
#print axioms Bp7.C09.now_sequential
#print axioms Bp7.C09.inv_step
#print axioms Bp7.C09.inv_run
#print axioms Bp7.C09.pinned_not_unique_clock_back
#print axioms Bp7.C09.pinned_not_unique_race
