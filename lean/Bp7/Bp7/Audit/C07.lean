import Bp7.Props.C07
#print axioms Bp7.C07.validate_iff_spec
#print axioms Bp7.C07.validate_err_nonempty
#print axioms Bp7.C07.validateBlocks_nil_iff
#print axioms Bp7.C07.payload_isSome_iff
#print axioms Bp7.C07.has_frag
#print axioms Bp7.C07.has_admin
#print axioms Bp7.C07.bhas_sr
