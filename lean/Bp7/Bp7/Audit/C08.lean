import Bp7.Props.C08
#print axioms Bp7.C08.update_false_iff
#print axioms Bp7.C08.update_true_frame
#print axioms Bp7.C08.hopStep_fst
#print axioms Bp7.C08.ageStep_fst
#print axioms Bp7.C08.lifetimeExceeded_iff
#print axioms Bp7.C08.update_true_frame_sat
