import Bp7.Props.C18
#print axioms Bp7.C18.unhex_hex
#print axioms Bp7.C18.hex_unhex_lower
#print axioms Bp7.C18.unhex_rejects
#print axioms Bp7.C18.unhex_no_panic
#print axioms Bp7.C18.unhex_ok_faithful
#print axioms Bp7.C18.pinned_odd_panics
#print axioms Bp7.C18.pinned_nonascii_panics
#print axioms Bp7.C18.pinned_sign_accepted
