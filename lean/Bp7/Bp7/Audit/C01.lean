import Bp7.Props.C01
#print axioms Bp7.C01.decode_encode
#print axioms Bp7.C01.encode_only_crc
#print axioms Bp7.C01.encode_idem
#print axioms Bp7.C01.encode_deterministic
#print axioms Bp7.C01.decode_encode_x
#print axioms Bp7.C01.encode_idem_x
