import Bp7.Props.C03Tags
import Bp7.Props.C03
#print axioms Bp7.C03.decode_spec_partial
#print axioms Bp7.C03.decode_spec_nocrc
#print axioms Bp7.C03.decode_spec_of_eq
#print axioms Bp7.C03.golden_decodes
#print axioms Bp7.C03.decode_spec
#print axioms Bp7.C03.accepted_tagged
