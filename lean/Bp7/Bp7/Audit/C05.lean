import Bp7.Props.C05
import Bp7.Props.C05Bundle
#print axioms Bp7.C05.crc16_window
#print axioms Bp7.C05.crc32c_window
#print axioms Bp7.C05.crc16_bitflip
#print axioms Bp7.C05.crc32c_bitflip
#print axioms Bp7.C05.primary_corruption_detected_16
#print axioms Bp7.C05.crc_value_change_detected
#print axioms Bp7.C05.uncorrupted_passes
#print axioms Bp7.C05.be16_inj
#print axioms Bp7.C05.be32_inj
#print axioms Bp7.feed_window_ne
#print axioms Bp7.crcBit_xor
#print axioms Bp7.C05.primary_corruption_detected_32
#print axioms Bp7.C05.canon_corruption_detected_16
#print axioms Bp7.C05.canon_corruption_detected_32
#print axioms Bp7.C05.bundle_fails_if_block_fails
#print axioms Bp7.C05.view_window_16
#print axioms Bp7.C05.view_window_32
#print axioms Bp7.C05.view_crcvalue_16
#print axioms Bp7.C05.view_crcvalue_32
#print axioms Bp7.C05.block_of_received
#print axioms Bp7.C05.bundle_window_detected
#print axioms Bp7.C05.bundle_crcvalue_detected
#print axioms Bp7.C05.wire_split
