import Bp7.Props.C17
import Bp7.Props.C17Calendar
#print axioms Bp7.C17.unix_eq
#print axioms Bp7.C17.unix_fits
#print axioms Bp7.C17.unix_pinned_overflows
#print axioms Bp7.C17.string_branch
#print axioms Bp7.C17.rfc3339_shape
#print axioms Bp7.C17.now_eq_clock_minus_epoch
#print axioms Bp7.C17.civil_inverse_general
#print axioms Bp7.C17.civil_inverse_early
#print axioms Bp7.C17.year_bounds
#print axioms Bp7.C17.date_denotes
#print axioms Bp7.C17.time_denotes
#print axioms Bp7.C17.tod_digits
#print axioms Bp7.C17.frac_digits
#print axioms Bp7.C17.mday_valid_general
#print axioms Bp7.C17.mday_valid_early
