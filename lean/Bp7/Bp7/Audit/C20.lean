import Bp7.Props.C20
#print axioms Bp7.C20.generate_spec
#print axioms Bp7.C20.manifest_fields
#print axioms Bp7.C20.entry_destination
#print axioms Bp7.C20.entry_flags
#print axioms Bp7.C20.entry_lifetime
#print axioms Bp7.C20.encode_spec
#print axioms Bp7.C20.decode_payload_spec
#print axioms Bp7.C20.time_cmds
#print axioms Bp7.C20.encode_mode
#print axioms Bp7.C20.decode_mode
