import Bp7.Props.C12
#print axioms Bp7.C12.admin_roundtrip
#print axioms Bp7.C12.admin_eq_spec
#print axioms Bp7.C12.report_eq_spec
#print axioms Bp7.C12.status_bundle_spec
#print axioms Bp7.C12.readReport_enc
#print axioms Bp7.C12.readItems_enc
#print axioms Bp7.C12.admin_unknown_eq_spec
