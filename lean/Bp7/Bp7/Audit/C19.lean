import Bp7.Props.C19
import Bp7.Props.C19More
#print axioms Bp7.C19.accepted
#print axioms Bp7.C19.reject_trailing_bytes
#print axioms Bp7.C19.reject_missing_break
#print axioms Bp7.C19.reject_primary_crc_absent
#print axioms Bp7.C19.reject_primary_crc_length
#print axioms Bp7.C19.reject_primary_extra_item
#print axioms Bp7.C19.reject_primary_version_kind
#print axioms Bp7.C19.reject_primary_dst_eid
#print axioms Bp7.C19.reject_canon_crc_absent
#print axioms Bp7.C19.reject_canon_crc_length
#print axioms Bp7.C19.reject_bad_btsd
#print axioms Bp7.C19.reject_of_visit_err
#print axioms Bp7.C19.reject_of_canon_err
#print axioms Bp7.C19.reject_primary_missing_item
#print axioms Bp7.C19.reject_primary_dst_uint
#print axioms Bp7.C19.reject_primary_crc_uint
#print axioms Bp7.C19.reject_canon_missing_item
#print axioms Bp7.C19.reject_canon_crc_uint
#print axioms Bp7.C19.readEid_uint
#print axioms Bp7.C19.reject_primary_dst_string
#print axioms Bp7.C19.reject_prevnode_text
