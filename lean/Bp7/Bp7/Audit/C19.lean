import Bp7.Props.C19
import Bp7.Props.C19More
import Bp7.Props.C19Kinds
#print axioms Bp7.C19.accepted
#print axioms Bp7.C19.reject_trailing_bytes
#print axioms Bp7.C19.reject_missing_break
#print axioms Bp7.C19.reject_primary_crc_absent
#print axioms Bp7.C19.reject_primary_crc_length
#print axioms Bp7.C19.reject_primary_extra_item
#print axioms Bp7.C19.reject_primary_version_kind
#print axioms Bp7.C19.reject_primary_dst_eid
#print axioms Bp7.C19.reject_canon_crc_absent
#print axioms Bp7.C19.reject_canon_crc_length
#print axioms Bp7.C19.reject_bad_btsd
#print axioms Bp7.C19.reject_of_visit_err
#print axioms Bp7.C19.reject_of_canon_err
#print axioms Bp7.C19.reject_primary_missing_item
#print axioms Bp7.C19.reject_primary_dst_uint
#print axioms Bp7.C19.reject_primary_crc_uint
#print axioms Bp7.C19.reject_canon_missing_item
#print axioms Bp7.C19.reject_canon_crc_uint
#print axioms Bp7.C19.readEid_uint
#print axioms Bp7.C19.reject_primary_dst_string
#print axioms Bp7.C19.reject_prevnode_text
#print axioms Bp7.C19.parse_wrong_major
#print axioms Bp7.C19.readUint_wrong_major
#print axioms Bp7.C19.readSeq_wrong_major
#print axioms Bp7.C19.readByteBuf_wrong_major
#print axioms Bp7.C19.reject_primary_wrong_kind
#print axioms Bp7.C19.reject_primary_frag_wrong_kind
#print axioms Bp7.C19.reject_primary_crc_wrong_kind
#print axioms Bp7.C19.reject_canon_wrong_kind
#print axioms Bp7.C19.reject_canon_crc_wrong_kind
