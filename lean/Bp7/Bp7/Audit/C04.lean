import Bp7.Props.C04
import Bp7.Props.C02
#print axioms Bp7.C04.primary_crc_is_crc_of_zeroed
#print axioms Bp7.C04.canon_crc_is_crc_of_zeroed
#print axioms Bp7.C04.zeroed_of_updated
#print axioms Bp7.C04.wire_primary
#print axioms Bp7.C04.no_crc_field_when_type0
#print axioms Bp7.C04.no_crc_field_when_type0_canon
#print axioms Bp7.C04.prior_crc_irrelevant
#print axioms Bp7.C04.crcValid_decode_encode
#print axioms Bp7.C04.model_crc16_check
#print axioms Bp7.C04.model_crc32c_check
#print axioms Bp7.Spec.crc16_check
#print axioms Bp7.Spec.crc32c_check
#print axioms Bp7.C02.crcAgree
#print axioms Bp7.C04.crate_x25_is_crc16
#print axioms Bp7.C04.crate_castagnoli_is_crc32c
#print axioms Bp7.C04.primary_crc_is_crate_crc
#print axioms Bp7.C04.canon_crc_is_crate_crc
#print axioms Bp7.C04.crate_table_index_in_range16
#print axioms Bp7.C04.crate_table_index_in_range32
