import Bp7.Props.C16
#print axioms Bp7.C16.ippt_eq_spec
#print axioms Bp7.C16.results_spec
#print axioms Bp7.C16.results_single
#print axioms Bp7.C16.asb_eq_spec
#print axioms Bp7.C16.ippt_injective
#print axioms Bp7.C16.pinned_result_id
#print axioms Bp7.C16.pinned_ippt_differs
#print axioms Bp7.C16.encParams_eq
#print axioms Bp7.C16.encResults_ok
