import Bp7.Props.C13
#print axioms Bp7.C13.id_depends_only
#print axioms Bp7.C13.id_not_injective
#print axioms Bp7.C13.id_injective_same_source_partial
#print axioms Bp7.C13.refbundle_eq_id
#print axioms Bp7.C13.decStr_injective
#print axioms Bp7.C13.decStr_no_dash
#print axioms Bp7.C13.refbundle_eq_id_general
#print axioms Bp7.C13.id_injective_dashless_sources
#print axioms Bp7.C13.id_injective_ipn_sources
