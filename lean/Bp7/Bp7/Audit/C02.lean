import Bp7.Props.C02
#print axioms Bp7.C02.encode_eq_spec_partial
#print axioms Bp7.C02.primary_layout
#print axioms Bp7.C02.canonical_layout
#print axioms Bp7.C02.encode_eq_spec_nocrc
#print axioms Bp7.C02.rfc9173_a1_primary
#print axioms Bp7.C02.rfc9173_a1_payload
#print axioms Bp7.C02.golden_reference
#print axioms Bp7.C02.golden_model
#print axioms Bp7.encHead_eq_spec
#print axioms Bp7.C02.encode_eq_spec
#print axioms Bp7.C02.crcAgree
#print axioms Bp7.CrcAgreeProof.crc16_agree
#print axioms Bp7.CrcAgreeProof.crc32c_agree
#print axioms Bp7.C02.encode_eq_spec_stalefrag
