import Bp7.Props.C11
#print axioms Bp7.C11.inv_facts
#print axioms Bp7.C11.inv_step
#print axioms Bp7.C11.inv_add
#print axioms Bp7.C11.inv_setPayload
#print axioms Bp7.C11.inv_setPayloadBlock
#print axioms Bp7.C11.inv_setCrc
#print axioms Bp7.C11.inv_upd
#print axioms Bp7.C11.run_inv
#print axioms Bp7.C11.mutations_preserve
#print axioms Bp7.C11.inv_of_built
#print axioms Bp7.C11.inv_b0
#print axioms Bp7.C11.ops0_ok
#print axioms Bp7.nextBlockNumber_spec
#print axioms Bp7.sortDesc_snoc
