import Bp7.Props.C15
#print axioms Bp7.C15.json_roundtrip
#print axioms Bp7.C15.jReadPrimary_enc
#print axioms Bp7.C15.jReadCanon_enc
#print axioms Bp7.C15.jReadEid_jEid
#print axioms Bp7.C15.jReadBytes_jBytes
