import Bp7.Props.C14
#print axioms Bp7.C14.null_on_invalid
#print axioms Bp7.C14.from_cbor_valid
#print axioms Bp7.C14.inv_step
#print axioms Bp7.C14.inv_run
#print axioms Bp7.C14.ffi_ledger_balanced
#print axioms Bp7.C14.pinned_leaks
#print axioms Bp7.C14.null_payload_balanced
#print axioms Bp7.C14.metadata_spec
