import Bp7.Props.C10
#print axioms Bp7.C10.parse_print
#print axioms Bp7.C10.cbor_eid_roundtrip
#print axioms Bp7.C10.parse_in_range
#print axioms Bp7.C10.withDtn_range
#print axioms Bp7.C10.accept_none
#print axioms Bp7.C10.accept_dtn
#print axioms Bp7.C10.accept_ipn
#print axioms Bp7.C10.reject_no_colon
#print axioms Bp7.C10.reject_unknown_scheme
#print axioms Bp7.C10.reject_dtn_without_slashes
#print axioms Bp7.C10.reject_dtn_none_host
#print axioms Bp7.C10.reject_ipn_node0
#print axioms Bp7.C10.reject_ipn_one_field
#print axioms Bp7.C10.reject_ipn_nonnumeric
#print axioms Bp7.C10.node_id_parses
#print axioms Bp7.C10.new_endpoint_dtn
#print axioms Bp7.C10.new_endpoint_ipn
