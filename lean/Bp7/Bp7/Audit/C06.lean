import Bp7.Props.C06
#print axioms Bp7.C06.decode_no_panic
#print axioms Bp7.C06.decode_total
#print axioms Bp7.C06.decode_admin_no_panic
#print axioms Bp7.C06.good_recursionChecked
#print axioms Bp7.C06.safe_visitEid
#print axioms Bp7.C06.good_readBundle
#print axioms Bp7.C06.pinned_node_name_panics
