/-
  Line protocol for the BPSec model (C16).
    sec.ippt[.pinned] <scope flags> <sec header t.n.f | -> <p | -> B …(one block = the target)
    sec.hmac[.pinned] <variant> <key hex> <targets csv | -> <num:hex,num:hex,… | ->
    sec.asb <targets csv | -> <ctx flags> <source eid> <sv i.v | -> <wk i.hex | -> <isf i.f | -> <results | ->
        results: per target `id:hex,id:hex` joined by `|`; an empty result set is `e`
    sec.block <number> <flags> <asb hex>
-/
import Bp7.Driver.Text
import Bp7.Driver.Notation
import Bp7.Model.Bpsec
namespace Bp7.Driver.Sec
open Bp7 Bp7.Driver Bp7.Bpsec

def parseCsv (s : String) : Option (List Nat) :=
  if s == "-" then some [] else (s.splitOn ",").mapM (·.toNat?)

def parsePairs (s : String) : Option (List (Nat × Bytes)) :=
  if s == "-" || s == "e" then some [] else
  (s.splitOn ",").mapM (fun p => match p.splitOn ":" with
    | [n, h] => do some (← n.toNat?, ← bytesOfHex h)
    | _ => none)

def parseHdr (s : String) : Option (Option SecHeader) :=
  if s == "-" then some none else
  match s.splitOn "." with
  | [t, n, f] => do some (some { btype := ← t.toNat?, num := ← n.toNat?, flags := ← f.toNat? })
  | _ => none

def parseNatPair (s : String) : Option (Option (Nat × Nat)) :=
  if s == "-" then some none else
  match s.splitOn "." with
  | [a, b] => do some (some (← a.toNat?, ← b.toNat?))
  | _ => none

def parseNatBytes (s : String) : Option (Option (Nat × Bytes)) :=
  if s == "-" then some none else
  match s.splitOn "." with
  | [a, b] => do some (some (← a.toNat?, ← bytesOfHex b))
  | _ => none

def showResults (rs : List (List (Nat × Bytes))) : String :=
  if rs.isEmpty then "-" else
  String.intercalate "|" (rs.map fun r =>
    if r.isEmpty then "e" else String.intercalate "," (r.map fun (i, v) => toString i ++ ":" ++ hexOfBytes v))

def parseResults (s : String) : Option (List (List (Nat × Bytes))) :=
  if s == "-" then some [] else (s.splitOn "|").mapM parsePairs

def ipptOp (pinned : Bool) : List String → String
  | fl :: hdr :: pp :: rest =>
    match fl.toNat?, parseHdr hdr, parseBundle rest with
    | some f, some h, some (b, []) =>
      (match b.canon with
       | [t] => "ok " ++ hexOfBytes (ippt pinned f (if pp == "p" then some b.primary else none) h t)
       | _ => "bad-op")
    | _, _, _ => "bad-op"
  | _ => "bad-op"

/-- `sec.pair <flags> <hdr> <p|-> B …(two blocks = two targets, same context)` -/
def pairOp : List String → String
  | fl :: hdr :: pp :: rest =>
    match fl.toNat?, parseHdr hdr, parseBundle rest with
    | some f, some h, some (b, []) =>
      (match b.canon with
       | [t1, t2] =>
         let pr := if pp == "p" then some b.primary else none
         "ok " ++ showBool (ippt false f pr h t1 == ippt false f pr h t2)
       | _ => "bad-op")
    | _, _, _ => "bad-op"
  | _ => "bad-op"

def hmacOp (pinned : Bool) : List String → String
  | [v, k, ts, l] =>
    match v.toNat?, bytesOfHex k, parseCsv ts, parsePairs l with
    | some v, some k, some ts, some l =>
      let bib : Bib := { targets := ts, ctxFlags := 1, source := .null 1 0,
                         params := some { shaVariant := some (1, v), wrappedKey := none, scopeFlags := some (3, 0) },
                         results := [] }
      resStr (fun b => showResults b.results) (computeHmac pinned bib k l)
    | _, _, _, _ => "bad-op"
  | _ => "bad-op"

def asbOp : List String → String
  | [ts, cf, src, sv, wk, isf, rs] =>
    match parseCsv ts, cf.toNat?, parseEidTok src, parseNatPair sv, parseNatBytes wk, parseNatPair isf, parseResults rs with
    | some ts, some cf, some src, some sv, some wk, some isf, some rs =>
      let bib : Bib := { targets := ts, ctxFlags := cf, source := src,
                         params := some { shaVariant := sv, wrappedKey := wk, scopeFlags := isf }, results := rs }
      resStr hexOfBytes (asbToCbor bib)
    | _, _, _, _, _, _, _ => "bad-op"
  | _ => "bad-op"

def blockOp : List String → String
  | [n, f, h] =>
    match n.toNat?, f.toNat?, bytesOfHex h with
    | some n, some f, some bs => "ok " ++ showCanon { btype := 11, num := n, flags := f, crc := .no, data := .unknown bs }
    | _, _, _ => "bad-op"
  | _ => "bad-op"

def answer (op : String) (rest : List String) : String :=
  if op == "sec.ippt" then ipptOp false rest
  else if op == "sec.ippt.pinned" then ipptOp true rest
  else if op == "sec.pair" then pairOp rest
  else if op == "sec.hmac" then hmacOp false rest
  else if op == "sec.hmac.pinned" then hmacOp true rest
  else if op == "sec.asb" then asbOp rest
  else if op == "sec.block" then blockOp rest
  else "bad-op"

end Bp7.Driver.Sec
