/-
  Line protocol for the command-line tool model (C20).
    cli.encode <r|x> <ts> <seq> <manifest hex> <payload hex>
    cli.decode <arg|stdin> <input hex>            (payload mode)
    cli.time <dtntime|d2u> <argument hex>
    cli.mode <encode|decode> <number of arguments> <last argument hex>
    cli.rnd <bundle hex> <id hex>
    cli.dur <string hex>
-/
import Bp7.Driver.Text
import Bp7.Driver.Notation
import Bp7.Model.Cli
namespace Bp7.Driver.CliD
open Bp7 Bp7.Driver Bp7.Cli

def showOut : Out Bytes → String
  | .ok b => "ok " ++ hexOfBytes b
  | .panic => "panic"
  | .unmodelled => "unmodelled"

def answer (op : String) (rest : List String) : String :=
  match op, rest with
  | "cli.encode", [m, ts, sq, man, pay] =>
    (match ts.toNat?, sq.toNat?, bytesOfHex man, bytesOfHex pay with
     | some ts, some sq, some man, some pay => showOut (encode man pay (m == "x") ts sq)
     | _, _, _, _ => "bad-op")
  | "cli.decode", [src, inp] =>
    (match bytesOfHex inp with
     | some b => showOut (if src == "arg" then decodeArg b else decodePayload b)
     | none => "bad-op")
  | "cli.decodable", [src, inp] =>
    (match bytesOfHex inp with
     | some b => (match (if src == "arg" then decodeArg b else decodePayload b) with | .ok _ => "ok" | _ => "panic")
     | none => "bad-op")
  | "cli.time", [cmd, a] =>
    (match bytesOfHex a with
     | some b => showOut (if cmd == "dtntime" then dtntimeCmd b else d2uCmd b)
     | none => "bad-op")
  | "cli.mode", [cmd, n, last] =>
    (match n.toNat?, bytesOfHex last with
     | some n, some l =>
       (match (if cmd == "encode" then encodeMode n l else decodeMode n l) with
        | some true => "ok flag"
        | some false => "ok plain"
        | none => "ok usage")
     | _, _ => "bad-op")
  | "cli.rnd", [bh, idh] =>
    (match bytesOfHex bh, bytesOfHex idh with
     | some bs, some idb =>
       (match decodeBundle bs with
        | .ok b => "ok valid=" ++ showBool b.validate.isEmpty ++ " id=" ++ showBool (b.id == idb)
        | _ => "undecodable")
     | _, _ => "bad-op")
  | "cli.nop", _ => "ok"
  | "cli.dur", [h] =>
    (match bytesOfHex h with
     | some s =>
       (match parseDuration s with
        | .ok (sec, ns) => "ok " ++ toString sec ++ " " ++ toString ns
        | .error .error => "err"
        | .error .unmodelled => "unmodelled"
        | .error .overflowPanic => "panic")
     | none => "bad-op")
  | _, _ => "bad-op"

end Bp7.Driver.CliD
