/-
  Text helpers of the line-protocol driver (not part of the model the theorems talk about).
-/
import Bp7.Model.Basic
namespace Bp7.Driver
open Bp7

def hexNib (n : Nat) : Char :=
  if n < 10 then Char.ofNat (48 + n) else Char.ofNat (87 + n)

def hexOfBytes (bs : Bytes) : String :=
  if bs.isEmpty then "-" else
  String.ofList (bs.foldr (fun b acc => hexNib (b.toNat / 16) :: hexNib (b.toNat % 16) :: acc) [])

def nibVal (c : Char) : Option Nat :=
  let n := c.toNat
  if 48 ≤ n ∧ n ≤ 57 then some (n - 48)
  else if 97 ≤ n ∧ n ≤ 102 then some (n - 87)
  else none

def bytesOfHexChars : List Char → Option Bytes
  | [] => some []
  | [_] => none
  | a :: b :: rest => do
    let x ← nibVal a
    let y ← nibVal b
    let r ← bytesOfHexChars rest
    pure (UInt8.ofNat (x * 16 + y) :: r)

def bytesOfHex (s : String) : Option Bytes :=
  if s == "-" then some [] else bytesOfHexChars s.toList

def resStr {α} (f : α → String) : Res α → String
  | .ok a => "ok " ++ f a
  | .err _ => "err"
  | .panic _ => "panic"

end Bp7.Driver
