/-
  Text notation of model values for the line protocol (driver only).
-/
import Bp7.Driver.Text
import Bp7.Model.Admin
namespace Bp7.Driver
open Bp7

def showCrc : CrcVal → String
  | .no => "n"
  | .empty16 => "e16"
  | .empty32 => "e32"
  | .v16 a b => "c16:" ++ hexOfBytes [a, b]
  | .v32 a b c d => "c32:" ++ hexOfBytes [a, b, c, d]
  | .unknown c => "u:" ++ toString c

def showEid : Eid → String
  | .null c v => "N:" ++ toString c ++ ":" ++ toString v
  | .dtn c ssp => "D:" ++ toString c ++ ":" ++ hexOfBytes ssp
  | .ipn c n s => "I:" ++ toString c ++ ":" ++ toString n ++ "." ++ toString s

def showData : CData → String
  | .data b => "d:" ++ hexOfBytes b
  | .unknown b => "u:" ++ hexOfBytes b
  | .age n => "a:" ++ toString n
  | .hop l c => "h:" ++ toString l ++ "." ++ toString c
  | .prev e => "p:" ++ showEid e
  | .decErr => "x"

def showCanon (c : Canon) : String :=
  toString c.btype ++ " " ++ toString c.num ++ " " ++ toString c.flags ++ " " ++ showCrc c.crc ++ " " ++ showData c.data

def showBundle (b : Bundle) : String :=
  let p := b.primary
  "B " ++ toString p.version ++ " " ++ toString p.flags ++ " " ++ showCrc p.crc ++ " "
  ++ showEid p.dst ++ " " ++ showEid p.src ++ " " ++ showEid p.rpt ++ " "
  ++ toString p.ts ++ " " ++ toString p.seq ++ " " ++ toString p.lifetime ++ " "
  ++ toString p.fragOff ++ " " ++ toString p.total ++ " " ++ toString b.canon.length
  ++ String.join (b.canon.map (fun c => " " ++ showCanon c))

def parseCrc (s : String) : Option CrcVal :=
  if s == "n" then some .no
  else if s == "e16" then some .empty16
  else if s == "e32" then some .empty32
  else match s.splitOn ":" with
    | ["c16", h] => (match bytesOfHex h with | some [a, b] => some (.v16 a b) | _ => none)
    | ["c32", h] => (match bytesOfHex h with | some [a, b, c, d] => some (.v32 a b c d) | _ => none)
    | ["u", c] => c.toNat?.map .unknown
    | _ => none

def parseEidParts : List String → Option Eid
  | ["N", c, v] => do some (.null (← c.toNat?) (← v.toNat?))
  | ["D", c, h] => do some (.dtn (← c.toNat?) (← bytesOfHex h))
  | ["I", c, ns] =>
    (match ns.splitOn "." with
     | [n, s] => do some (.ipn (← c.toNat?) (← n.toNat?) (← s.toNat?))
     | _ => none)
  | _ => none

def parseEidTok (s : String) : Option Eid := parseEidParts (s.splitOn ":")

def parseData (s : String) : Option CData :=
  if s == "x" then some .decErr else
  match s.splitOn ":" with
  | ["d", h] => (bytesOfHex h).map .data
  | ["u", h] => (bytesOfHex h).map .unknown
  | ["a", n] => n.toNat?.map .age
  | ["h", lc] => (match lc.splitOn "." with
                  | [l, c] => do some (.hop (← l.toNat?) (← c.toNat?))
                  | _ => none)
  | "p" :: rest => (parseEidParts rest).map .prev
  | _ => none

def parseCanons : Nat → List String → Option (List Canon × List String)
  | 0, ts => some ([], ts)
  | n+1, t :: nm :: fl :: crc :: d :: ts => do
    let c : Canon := { btype := ← t.toNat?, num := ← nm.toNat?, flags := ← fl.toNat?, crc := ← parseCrc crc, data := ← parseData d }
    let (cs, rest) ← parseCanons n ts
    some (c :: cs, rest)
  | _, _ => none

def parseBundle : List String → Option (Bundle × List String)
  | "B" :: v :: fl :: crc :: dst :: src :: rpt :: ts :: sq :: life :: fo :: tot :: n :: rest => do
    let p : Primary := { version := ← v.toNat?, flags := ← fl.toNat?, crc := ← parseCrc crc,
                         dst := ← parseEidTok dst, src := ← parseEidTok src, rpt := ← parseEidTok rpt,
                         ts := ← ts.toNat?, seq := ← sq.toNat?, lifetime := ← (life.splitOn "+").head!.toNat?,
                         fragOff := ← fo.toNat?, total := ← tot.toNat? }
    let (cs, rest') ← parseCanons (← n.toNat?) rest
    some ({ primary := p, canon := cs }, rest')
  | _ => none

def showVErr : VErr → String
  | .version => "version" | .flagsReserved => "flagsReserved" | .flagsFragment => "flagsFragment"
  | .flagsAdmin => "flagsAdmin" | .eid => "eid" | .blockReserved => "blockReserved"
  | .blockData => "blockData" | .blockStatusReport => "blockStatusReport" | .dupNumber => "dupNumber"
  | .dupType => "dupType" | .ageMissing => "ageMissing" | .noPayload => "noPayload"

def showOptBytes : Option Bytes → String
  | none => "none"
  | some b => "some:" ++ hexOfBytes b

def showBool (b : Bool) : String := if b then "true" else "false"

/-! admin records: `R <n> (<asserted> <time> <requested>)*n <reason> <source> <ts> <seq> <fragOff> <fragLen>`
    | `U <code> <hex>` | `M <code> <hex>` -/
def showItem (i : StatusItem) : String :=
  showBool i.asserted ++ " " ++ toString i.time ++ " " ++ showBool i.statusRequested

def showAdmin : AdminRecord → String
  | .report r => "R " ++ toString r.items.length ++ String.join (r.items.map (fun i => " " ++ showItem i))
      ++ " " ++ toString r.reason ++ " " ++ showEid r.source ++ " " ++ toString r.ts ++ " " ++ toString r.seq
      ++ " " ++ toString r.fragOff ++ " " ++ toString r.fragLen
  | .unknown c d => "U " ++ toString c ++ " " ++ hexOfBytes d
  | .mismatched c d => "M " ++ toString c ++ " " ++ hexOfBytes d

def parseBoolTok (s : String) : Option Bool :=
  if s == "true" then some true else if s == "false" then some false else none

def parseItems : Nat → List String → Option (List StatusItem × List String)
  | 0, ts => some ([], ts)
  | n+1, a :: t :: r :: ts => do
    let i : StatusItem := { asserted := ← parseBoolTok a, time := ← t.toNat?, statusRequested := ← parseBoolTok r }
    let (is, rest) ← parseItems n ts
    some (i :: is, rest)
  | _, _ => none

def parseAdmin : List String → Option AdminRecord
  | "R" :: n :: rest => do
    let (items, rest) ← parseItems (← n.toNat?) rest
    match rest with
    | [reason, src, ts, sq, fo, fl] =>
      some (.report { items, reason := ← reason.toNat?, source := ← parseEidTok src, ts := ← ts.toNat?,
                      seq := ← sq.toNat?, fragOff := ← fo.toNat?, fragLen := ← fl.toNat? })
    | _ => none
  | ["U", c, h] => do some (.unknown (← c.toNat?) (← bytesOfHex h))
  | ["M", c, h] => do some (.mismatched (← c.toNat?) (← bytesOfHex h))
  | _ => none

end Bp7.Driver
