/-
  Line protocol: one request per line, one answer per line.
-/
import Bp7.Driver.Text
import Bp7.Model.Hex
namespace Bp7.Driver
open Bp7

def answer (line : String) : String :=
  match line.splitOn " " with
  | ["hex.enc", h] =>
    match bytesOfHex h with
    | some bs => "ok " ++ hexOfBytes (hexify bs)
    | none => "bad-op"
  | ["hex.dec", h] =>
    match bytesOfHex h with
    | some s => resStr hexOfBytes (unhexify s)
    | none => "bad-op"
  | ["hex.dec.pinned", h] =>
    match bytesOfHex h with
    | some s => resStr hexOfBytes (unhexifyPinned s)
    | none => "bad-op"
  | _ => "bad-op"

end Bp7.Driver
