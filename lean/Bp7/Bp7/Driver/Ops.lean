/-
  Line protocol: one request per line, one answer per line.
-/
import Bp7.Driver.Text
import Bp7.Driver.Notation
import Bp7.Model.Hex
import Bp7.Model.Admin
import Bp7.Model.Time
import Bp7.Model.Json
import Bp7.Model.TsGen
import Bp7.Model.Ffi
import Bp7.Model.CrcTable
import Bp7.Spec.Rfc9171
import Bp7.Spec.Admin
import Bp7.Driver.SecOps
import Bp7.Driver.CliOps
namespace Bp7.Driver
open Bp7

def showUpd (o : UpdOut) : String := showBool o.ret ++ " " ++ showBundle o.bundle

def showResOptBytes (r : Res (Option Bytes)) : String :=
  match r with
  | .ok o => showOptBytes o
  | .err _ => "err"
  | .panic _ => "panic"

/-- all accessors of an endpoint ID on one line -/
def eidAcc (e : Eid) : String :=
  "node=" ++ showOptBytes e.node ++ " nodeid=" ++ showOptBytes e.nodeId
  ++ " svc=" ++ showOptBytes e.serviceName ++ " isnode=" ++ showBool e.isNodeId
  ++ " valid=" ++ showBool (eidOk e) ++ " str=" ++ hexOfBytes (printEid e)
  ++ " nonsingle=" ++ showBool (match e with | .dtn _ ssp => (match dtnServiceName ssp with | some sv => startsWith [126] sv | none => false) | _ => false)
  ++ " scheme=" ++ (match e with | .ipn _ _ _ => "ipn" | _ => "dtn")

/-- C11 operation sequences: `seq <bundle> ; op ; op ...` -/
def applyOp (b : Bundle) : List String → Option Bundle
  | ["add", t, nm, fl, crc, d] => do
    let c : Canon := { btype := ← t.toNat?, num := ← nm.toNat?, flags := ← fl.toNat?, crc := ← parseCrc crc, data := ← parseData d }
    some (b.addBlock c)
  | ["setpayload", h] => do some (b.setPayload (← bytesOfHex h))
  | ["setpayloadblock", nm, fl, h] => do some (b.setPayloadBlock { newPayloadBlock (← fl.toNat?) (← bytesOfHex h) with num := (← nm.toNat?) })
  | ["setcrc", t] => do some (b.setCrc (← t.toNat?))
  | ["tocbor"] => some (b.toCbor).1
  | ["upd", node, rt, now] => do
    some (b.updateExtensions (← parseEidTok node) (← rt.toNat?) (← now.toNat?)).bundle
  | _ => none

def splitOps (ts : List String) : List (List String) :=
  let rec go (ts : List String) (cur : List String) (acc : List (List String)) : List (List String) :=
    match ts with
    | [] => (if cur.isEmpty then acc else acc ++ [cur])
    | ";" :: rest => go rest [] (if cur.isEmpty then acc else acc ++ [cur])
    | t :: rest => go rest (cur ++ [t]) acc
  go ts [] []

def stateLine (b : Bundle) : String :=
  let rt := match decodeBundle (b.toCbor).2 with
    | .ok d => showBool (d == (b.toCbor).1)
    | .err _ => "err"
    | .panic _ => "panic"
  showBundle b ++ " | payload=" ++ showOptBytes b.payload
  ++ " valid=" ++ String.intercalate "," (b.validate.map showVErr) ++ " rt=" ++ rt

def parseSched (s : String) : Option (List (Nat × Nat)) :=
  if s == "-" then some [] else
  (s.splitOn ",").mapM (fun e => match e.splitOn ":" with
    | [a, b] => do some (← a.toNat?, ← b.toNat?)
    | _ => none)

def showPairs (l : List (Nat × Nat)) : String :=
  String.intercalate " " (l.map (fun p => toString p.1 ++ "." ++ toString p.2))

/-- `bundle_new_default(src, dst, lifetime, payload)` with the clock reading `clock` (sequence number 0) -/
def ffiNewDefault (src dst : Bytes) (life : Nat) (payload : Bytes) (clock : Nat) : Option Bundle :=
  match parseEid src, parseEid dst with
  | .ok s, .ok d =>
    some { primary := { version := DTN_VERSION, flags := F_MUST_NOT_FRAGMENT, crc := .no, dst := d, src := s, rpt := s,
                        ts := clock, seq := 0, lifetime := life, fragOff := 0, total := 0 },
           canon := [newPayloadBlock 0 payload] }
  | _, _ => none

def parseFfiCall (c : String) : Option Ffi.Call :=
  match c.splitOn ":" with
  | ["T"] => some .bufferTest
  | ["R", h] => (bytesOfHex h).map .rndBundle
  | ["W"] => some .working
  | ["D", h] => (bytesOfHex h).map .fromCbor
  | ["N", s, d, l, p, c] => do
    let b ← ffiNewDefault (← bytesOfHex s) (← bytesOfHex d) (← l.toNat?) (← bytesOfHex p) (← c.toNat?)
    some (.newBundle b)
  | ["E", k] => k.toNat?.map .toCbor
  | ["M", k] => k.toNat?.map .getMetadata
  | ["P", k] => k.toNat?.map .payload
  | ["V", k] => k.toNat?.map .isValid
  | ["FB", k] => k.toNat?.map .bufferFree
  | ["FU", k] => k.toNat?.map .bundleFree
  | ["FM", k] => k.toNat?.map .metadataFree
  | ["PN"] => some .payloadNull
  | ["FBN"] => some .bufferFreeNull
  | ["FUN"] => some .bundleFreeNull
  | _ => none

def showFfiOut : Ffi.Out → String
  | .handle h => "h" ++ toString h
  | .null => "null"
  | .buffer h c => "buf" ++ toString h ++ ":" ++ (match c with | some b => hexOfBytes b | none => "null")
  | .mdata h s d ts sq l => "meta" ++ toString h ++ ":" ++ hexOfBytes s ++ ":" ++ hexOfBytes d ++ ":" ++ toString ts ++ ":" ++ toString sq ++ ":" ++ toString l
  | .bool b => showBool b
  | .unit => "-"
  | .misuse => "misuse"

def answer (line : String) : String :=
  match line.splitOn " " with
  | ["hex.enc", h] =>
    match bytesOfHex h with
    | some bs => "ok " ++ hexOfBytes (hexify bs)
    | none => "bad-op"
  | ["hex.dec", h] =>
    match bytesOfHex h with
    | some s => resStr hexOfBytes (unhexify s)
    | none => "bad-op"
  | ["hex.encoff", _, h] =>      -- the same bytes handed over as a sub-slice that starts `k` bytes into a buffer
    match bytesOfHex h with
    | some bs => "ok " ++ hexOfBytes (hexify bs)
    | none => "bad-op"
  | ["hex.decoff", _, h] =>
    match bytesOfHex h with
    | some s => resStr hexOfBytes (unhexify s)
    | none => "bad-op"
  | ["hex.dec.pinned", h] =>
    match bytesOfHex h with
    | some s => resStr hexOfBytes (unhexifyPinned s)
    | none => "bad-op"
  | ["crc16", h] =>
    match bytesOfHex h with
    | some s => "ok " ++ toString (crc16 s).toNat ++ " " ++ toString (Spec.crc16 s) ++ " " ++ toString (CrcCrate.x25 s).toNat
    | none => "bad-op"
  | ["crc32", h] =>
    match bytesOfHex h with
    | some s => "ok " ++ toString (crc32c s).toNat ++ " " ++ toString (Spec.crc32c s) ++ " " ++ toString (CrcCrate.castagnoli s).toNat
    | none => "bad-op"
  | ["rx", h] =>
    match bytesOfHex h with
    | some s =>
      (match decodeBundle s with
       | .ok b => "ok " ++ showBundle b ++ " ops=ok"
       | .err _ => "err"
       | .panic _ => "panic")
    | none => "bad-op"
  | ["fault", _, h] =>
    match bytesOfHex h with
    | some s => resStr showBundle (decodeBundle s)
    | none => "bad-op"
  | ["cor", h, _] =>
    match bytesOfHex h with
    | some s =>
      (match decodeBundle s with
       | .ok b => "ok " ++ showBundle b ++ " crcok=" ++ showBool b.crcValid ++ " same="
                  ++ showBool (([0x9f] ++ encBlocks b ++ [0xff]) == s)
       | .err _ => "err"
       | .panic _ => "panic")
    | none => "bad-op"
  | ["dec", h] =>
    match bytesOfHex h with
    | some s => resStr showBundle (decodeBundle s)
    | none => "bad-op"
  | ["eid.parse", h] =>
    match bytesOfHex h with
    | some s => resStr showEid (parseEid s)
    | none => "bad-op"
  | ["eid.bad", h] =>
    match bytesOfHex h with
    | some s => resStr showEid (parseEid s)
    | none => "bad-op"
  | ["eid.canon", kind, a, b] =>
    match bytesOfHex a, bytesOfHex b with
    | some a, some b =>
      let s := if kind == "dtn" then asc "dtn://" ++ a ++ [SLASH] ++ b
               else if kind == "ipn" then asc "ipn:" ++ a ++ [46] ++ b else asc "dtn:none"
      (match parseEid s with
       | .ok e => "ok " ++ showEid e ++ " " ++ eidAcc e
       | .err _ => "err"
       | .panic _ => "panic")
    | _, _ => "bad-op"
  | ["eid.withdtn", h] =>
    match bytesOfHex h with
    | some s => resStr showEid (withDtn s)
    | none => "bad-op"
  | ["eid.withipn", n, s] =>
    match n.toNat?, s.toNat? with
    | some n, some s => resStr showEid (withIpn n s)
    | _, _ => "bad-op"
  | ["eid.acc", e] =>
    match parseEidTok e with
    | some e => "ok " ++ eidAcc e
    | none => "bad-op"
  | ["eid.cbor", e] =>
    match parseEidTok e with
    | some e => "ok " ++ hexOfBytes (encEid e) ++ " " ++ resStr showEid (fromSlice readEid (encEid e))
    | none => "bad-op"
  | ["eid.dec", h] =>
    match bytesOfHex h with
    | some s => resStr showEid (fromSlice readEid s)
    | none => "bad-op"
  | ["eid.newep", e, h] =>
    match parseEidTok e, bytesOfHex h with
    | some e, some s => resStr showEid (e.newEndpoint s)
    | _, _ => "bad-op"
  | ["ts.run", sc] =>
    match parseSched sc with
    | some sched => ("ok " ++ showPairs (TsGen.run sched).out.reverse).trimAsciiEnd.toString
    | none => "bad-op"
  | ["ts.run.pinned", sc] =>
    match parseSched sc with
    | some sched => ("ok " ++ showPairs (TsGen.runP sched).out.reverse).trimAsciiEnd.toString
    | none => "bad-op"
  | ["ffi", cs] =>
    match (cs.splitOn ";").mapM parseFfiCall with
    | some calls =>
      let (s, outs) := Ffi.run false calls Ffi.init
      "ok " ++ String.intercalate " " (outs.map showFfiOut) ++ " leak="
        ++ (if s.objs.isEmpty then toString s.live.length else "?")
    | none => "bad-op"
  | ["time.unix", t] =>
    match t.toNat? with
    | some t => "ok " ++ toString (dtnUnix t)
    | none => "bad-op"
  | ["time.string", t] =>
    match t.toNat? with
    | some t => "ok " ++ hexOfBytes (dtnString t)
    | none => "bad-op"
  | ["ts.sinks", t, s] =>       -- the same text, whatever kind of writer receives it
    match t.toNat?, s.toNat? with
    | some t, some s => "ok " ++ hexOfBytes (tsString t s)
    | _, _ => "bad-op"
  | ["ts.string", t, s] =>
    match t.toNat?, s.toNat? with
    | some t, some s => "ok " ++ hexOfBytes (tsString t s)
    | _, _ => "bad-op"
  | "time.mt" :: ts =>
    -- concurrent formatting: every thread must see what a single call returns
    match ts.mapM (·.toNat?) with
    | some ts => "ok" ++ String.join (ts.map (fun t => " " ++ hexOfBytes (dtnString t)))
    | none => "bad-op"
  | ["time.real", _] => "ok"     -- the real clock is outside the model: decided by the harness-side bracket
  | ["time.now", c] =>
    match c.toNat? with
    | some c => "ok " ++ toString (dtnTimeNow c)
    | none => "bad-op"
  | ["adm.dec", h] =>
    match bytesOfHex h with
    | some s => resStr showAdmin (decodeAdmin s)
    | none => "bad-op"
  | "spec.adm" :: rest =>
    match parseAdmin rest with
    | some r => "ok " ++ hexOfBytes (Spec.encItem (C12.Spec.adminItem r))
    | none => "bad-op"
  | "adm.enc" :: rest =>
    match parseAdmin rest with
    | some r => "ok " ++ hexOfBytes (encAdmin r) ++ " " ++ resStr showAdmin (decodeAdmin (encAdmin r))
                ++ " ref=" ++ (match r with | .report sr => hexOfBytes sr.refbundle | _ => "-")
    | none => "bad-op"
  | "enc" :: rest =>
    match parseBundle rest with
    | some (b, []) => let (b', bytes) := b.toCbor; "ok " ++ hexOfBytes bytes ++ " " ++ showBundle b'
    | _ => "bad-op"
  | "json.enc" :: rest =>
    match parseBundle rest with
    | some (b, []) =>
      let (b', j) := b.toJson
      "ok " ++ hexOfBytes (printJ j) ++ " " ++ showBundle b' ++ " rt=" ++ resStr showBundle (Bundle.fromJson j)
    | _ => "bad-op"
  | "spec.enc" :: rest =>
    match parseBundle rest with
    | some (b, []) => "ok " ++ hexOfBytes (Spec.encode b) ++ " " ++ showBundle (Spec.withCrc b)
    | _ => "bad-op"
  | "spec.dec" :: rest =>
    match parseBundle rest with
    | some (b, []) =>
      let bytes := Spec.encode b
      (match decodeBundle bytes with
       | .ok d => "ok " ++ showBundle d ++ " crcok=" ++ showBool d.crcValid ++ " reenc="
                  ++ (if (d.toCbor).2 == bytes then "same" else "diff")
       | .err _ => "err"
       | .panic _ => "panic")
    | _ => "bad-op"
  | "crcok" :: rest =>
    match parseBundle rest with
    | some (b, []) => "ok " ++ showBool b.crcValid
    | _ => "bad-op"
  | "validate" :: rest =>
    match parseBundle rest with
    | some (b, []) => "ok " ++ String.intercalate "," (b.validate.map showVErr)
    | _ => "bad-op"
  | "id" :: rest =>
    match parseBundle rest with
    | some (b, []) => "ok " ++ hexOfBytes b.id ++ " " ++ hexOfBytes b.display
    | _ => "bad-op"
  | "idpair" :: rest =>
    match parseBundle rest with
    | some (b1, "|" :: rest2) =>
      (match parseBundle rest2 with
       | some (b2, []) => "ok " ++ hexOfBytes b1.id ++ " " ++ hexOfBytes b2.id ++ " " ++ showBool (b1.id == b2.id)
       | _ => "bad-op")
    | _ => "bad-op"
  | "info" :: rest =>
    match parseBundle rest with
    | some (b, []) => "ok payload=" ++ showOptBytes b.payload ++ " prev=" ++ (match b.previousNode with | some e => showEid e | none => "none")
                      ++ " admin=" ++ showBool b.isAdminRecord
    | _ => "bad-op"
  | "upd" :: node :: rt :: now :: rest =>
    match parseBundle rest, parseEidTok node, rt.toNat?, now.toNat? with
    | some (b, []), some n, some rt, some now => "ok " ++ showUpd (b.updateExtensions n rt now)
    | _, _, _, _ => "bad-op"
  | "adm.report" :: src :: crc :: pos :: reason :: now :: ts :: sq :: rest =>
    match parseBundle rest, parseEidTok src, crc.toNat?, pos.toNat?, reason.toNat?, now.toNat?, ts.toNat?, sq.toNat? with
    | some (b, []), some src, some crc, some pos, some reason, some now, some ts, some sq =>
      resStr showBundle (newStatusReportBundle b src crc pos reason now ts sq)
    | _, _, _, _, _, _, _, _ => "bad-op"
  | "build" :: pl :: mode :: rest =>
    -- PrimaryBlockBuilder / CanonicalBlockBuilder (mode b) or the new_*_block helpers (mode h) /
    -- BundleBuilder (with `.payload(x)` when `pl` is not "n")
    match parseBundle rest, (if pl == "n" then some none else (bytesOfHex pl).map some) with
    | some (b, []), some pay =>
      if b.primary.dst == Eid.dtnNone then "err primary"
      else
        let p := { b.primary with version := 7 }
        let helper (c : Canon) : Canon :=
          match c.data with
          | .data d => { btype := 1, num := 1, flags := c.flags, crc := .no, data := .data d }
          | .age a => { btype := 7, num := c.num, flags := c.flags, crc := .no, data := .age a }
          | .hop l _ => { btype := 10, num := c.num, flags := c.flags, crc := .no, data := .hop l 0 }
          | .prev e => { btype := 6, num := c.num, flags := c.flags, crc := .no, data := .prev e }
          | _ => c
        let cs0 := if mode == "h" then b.canon.map helper else b.canon
        let cs := cs0 ++ (match pay with | some d => [newPayloadBlock 0 d] | none => [])
        (match buildBundle p cs with
         | .ok r => "ok " ++ showBundle r
         | _ => "err payload")
    | _, _ => "bad-op"
  | "seq" :: rest =>
    match parseBundle rest with
    | some (b, ops) =>
      let rec run (b : Bundle) (ops : List (List String)) (out : String) : String :=
        match ops with
        | [] => out
        | o :: os =>
          match applyOp b o with
          | some b' => run b' os (out ++ " || " ++ stateLine b')
          | none => out ++ " || bad-op"
      "ok " ++ run b (splitOps ops) (stateLine b)
    | none => "bad-op"
  | op :: rest => if op.startsWith "sec." then Sec.answer op rest else if op.startsWith "cli." then CliD.answer op rest else "bad-op"
  | _ => "bad-op"

end Bp7.Driver
