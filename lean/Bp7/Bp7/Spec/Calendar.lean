/-
  Independent reference: proleptic Gregorian calendar. `daysFromCivil` is the closed formula for
  the number of days from 1970-01-01 to a civil date (year, month 1..12, day 1..), the meaning of
  an RFC 3339 date.
-/
namespace Bp7.Spec

def isLeap (y : Int) : Bool := (y % 4 == 0 && y % 100 != 0) || y % 400 == 0

def daysInMonth (y m : Int) : Int :=
  if m = 2 then (if isLeap y then 29 else 28)
  else if m = 4 ∨ m = 6 ∨ m = 9 ∨ m = 11 then 30 else 31

/-- days since 1970-01-01 of the civil date y-m-d (m in 1..12) -/
def daysFromCivil (y m d : Int) : Int :=
  let y' := if m ≤ 2 then y - 1 else y
  let era := (if y' ≥ 0 then y' else y' - 399) / 400
  let yoe := y' - era * 400
  let mp := if m > 2 then m - 3 else m + 9
  let doy := (153 * mp + 2) / 5 + d - 1
  let doe := yoe * 365 + yoe / 4 - yoe / 100 + doy
  era * 146097 + doe - 719468

end Bp7.Spec
