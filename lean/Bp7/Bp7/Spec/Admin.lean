/-
  Independent reference for administrative records (RFC 9171 §6.1): `[record type code, content]`;
  a status report is `[status items, reason, source EID, creation timestamp (, offset, length)]`,
  each status item `[asserted (, time)]`; the content of a record of unknown type is opaque (a byte
  string).
-/
import Bp7.Model.Admin
import Bp7.Spec.Rfc9171
namespace Bp7.C12
open Bp7

def Spec.itemItem (i : StatusItem) : Spec.Item :=
  if i.asserted && i.statusRequested then .arr [.simple (if i.asserted then 21 else 20), .uint i.time]
  else .arr [.simple (if i.asserted then 21 else 20)]

def Spec.reportItem (r : StatusReport) : Spec.Item :=
  .arr ([.arr (r.items.map Spec.itemItem), .uint r.reason, Spec.eidItem r.source, .arr [.uint r.ts, .uint r.seq]]
        ++ (if r.fragLen ≠ 0 then [.uint r.fragOff, .uint r.fragLen] else []))

/-- the whole administrative record -/
def Spec.adminItem : AdminRecord → Spec.Item
  | .report sr => .arr [.uint 1, Spec.reportItem sr]
  | .unknown c d => .arr [.uint c, .bstr d]
  | .mismatched c d => .arr [.uint c, .bstr d]

end Bp7.C12
