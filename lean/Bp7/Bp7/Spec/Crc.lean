/-
  Independent reference CRC: the Rocksoft parametrised model evaluated MSB-first with the
  catalogue parameters (width, poly, init, refin, refout, xorout) of
  CRC-16/IBM-SDLC (= X.25) and CRC-32/ISCSI (= CRC-32C, Castagnoli), pinned to the
  catalogue check values.
-/
import Bp7.Model.Basic
namespace Bp7.Spec
open Bp7

structure CrcParams where
  width : Nat
  poly : Nat
  init : Nat
  refin : Bool
  refout : Bool
  xorout : Nat

def reflectBits : Nat → Nat → Nat
  | 0, _ => 0
  | k+1, x => ((x % 2) <<< k) ||| reflectBits k (x / 2)

def msbStep (p : CrcParams) (reg : Nat) : Nat :=
  let top := (reg >>> (p.width - 1)) % 2
  let sh := (reg <<< 1) % (2 ^ p.width)
  if top = 1 then sh ^^^ p.poly else sh

def msbSteps (p : CrcParams) : Nat → Nat → Nat
  | 0, r => r
  | k+1, r => msbSteps p k (msbStep p r)

def feedByte (p : CrcParams) (reg : Nat) (b : UInt8) : Nat :=
  let v := if p.refin then reflectBits 8 b.toNat else b.toNat
  msbSteps p 8 (reg ^^^ (v <<< (p.width - 8)))

def crc (p : CrcParams) (data : Bytes) : Nat :=
  let reg := data.foldl (feedByte p) p.init
  let out := if p.refout then reflectBits p.width reg else reg
  out ^^^ p.xorout

def CRC_16_IBM_SDLC : CrcParams := ⟨16, 0x1021, 0xffff, true, true, 0xffff⟩
def CRC_32_ISCSI : CrcParams := ⟨32, 0x1edc6f41, 0xffffffff, true, true, 0xffffffff⟩

def crc16 (d : Bytes) : Nat := crc CRC_16_IBM_SDLC d
def crc32c (d : Bytes) : Nat := crc CRC_32_ISCSI d

def check123456789 : Bytes := [0x31, 0x32, 0x33, 0x34, 0x35, 0x36, 0x37, 0x38, 0x39]
/-- catalogue check values -/
theorem crc16_check : crc16 check123456789 = 0x906E := by decide +kernel
theorem crc32c_check : crc32c check123456789 = 0xE3069283 := by decide +kernel

end Bp7.Spec
