/-
  Independent reference: the RFC 9171 §4 representation of a bundle as a CBOR item tree,
  with CRC values computed as §4.2.1 prescribes (over the block with a zeroed CRC field).
  Field order is taken from §4.3.1 (primary) and §4.3.2 (canonical) of the RFC text.
-/
import Bp7.Model.Types
import Bp7.Spec.Cbor
import Bp7.Spec.Crc
namespace Bp7.Spec
open Bp7

/-- §4.2.5.1: [scheme code, SSP]; dtn:none is [1, 0]; ipn SSP is [node, service] -/
def eidItem : Eid → Item
  | .null c v => .arr [.uint c, .uint v]
  | .dtn c ssp => .arr [.uint c, .tstr ssp]
  | .ipn c n s => .arr [.uint c, .arr [.uint n, .uint s]]

/-- §4.2.1 CRC type of a block -/
def crcType : CrcVal → Nat
  | .no => 0
  | .empty16 | .v16 _ _ => 1
  | .empty32 | .v32 _ _ _ _ => 2
  | .unknown c => c

def isFragment (p : Primary) : Bool := p.flags % 2 = 1

/-- §4.3.1 without the CRC item -/
def primaryFields (p : Primary) : List Item :=
  [.uint p.version, .uint p.flags, .uint (crcType p.crc), eidItem p.dst, eidItem p.src, eidItem p.rpt,
   .arr [.uint p.ts, .uint p.seq], .uint p.lifetime]
  ++ (if isFragment p then [.uint p.fragOff, .uint p.total] else [])

/-- §4.3.3 / §4.4: block-type-specific data of the block types the library knows -/
def btsdBytes : CData → Bytes
  | .data b => b
  | .unknown b => b
  | .age ms => encItem (.uint ms)
  | .hop l c => encItem (.arr [.uint l, .uint c])
  | .prev e => encItem (eidItem e)
  | .decErr => encItem (.simple 22)

/-- §4.3.2 without the CRC item -/
def canonFields (c : Canon) : List Item :=
  [.uint c.btype, .uint c.num, .uint c.flags, .uint (crcType c.crc), .bstr (btsdBytes c.data)]

def zeros : Nat → Bytes
  | 0 => []
  | n+1 => 0 :: zeros n

/-- §4.2.1: the CRC item of a block with fields `fs` and CRC type `t` -/
def crcItem (fs : List Item) (t : Nat) : List Item :=
  if t = 1 then
    [.bstr (bigEndian 2 (crc16 (encItem (.arr (fs ++ [.bstr (zeros 2)])))))]
  else if t = 2 then
    [.bstr (bigEndian 4 (crc32c (encItem (.arr (fs ++ [.bstr (zeros 4)])))))]
  else []

def primaryItem (p : Primary) : Item :=
  .arr (primaryFields p ++ crcItem (primaryFields p) (crcType p.crc))

def canonItem (c : Canon) : Item :=
  .arr (canonFields c ++ crcItem (canonFields c) (crcType c.crc))

/-- §4.1: indefinite-length array of blocks, primary first -/
def bundleItem (b : Bundle) : Item :=
  .arrI (primaryItem b.primary :: b.canon.map canonItem)

def encode (b : Bundle) : Bytes := encItem (bundleItem b)

/-- the CRC values a conformant peer puts on the wire -/
def crcOf (fs : List Item) (c : CrcVal) : CrcVal :=
  match crcItem fs (crcType c) with
  | [.bstr [x, y]] => .v16 x y
  | [.bstr [x, y, z, w]] => .v32 x y z w
  | _ => c

def withCrc (b : Bundle) : Bundle :=
  { primary := { b.primary with crc := crcOf (primaryFields b.primary) b.primary.crc },
    canon := b.canon.map (fun c => { c with crc := crcOf (canonFields c) c.crc }) }

end Bp7.Spec
