/-
  Independent reference for C16, as CBOR item sequences:
  RFC 9173 §3.7 (integrity-protected plaintext of BIB-HMAC-SHA2), RFC 9173 §3.4 (result id 1),
  RFC 9172 §3.6 (abstract security block).
-/
import Bp7.Spec.Rfc9171
import Bp7.Model.Bpsec
namespace Bp7.Spec
open Bp7 Bp7.Bpsec

/-- RFC 9173 §3.7: scope flags; primary block, target header, security header as the flags
    (bits 0, 1, 2) select; the target's block-type-specific data as a byte string -/
def ipptItems (flags : Nat) (primary : Option Primary) (sec : Option SecHeader) (t : Canon) : List Item :=
  [.uint flags]
  ++ (if flags.testBit 0 then (match primary with | some p => [primaryItem p] | none => []) else [])
  ++ (if flags.testBit 1 then [.uint t.btype, .uint t.num, .uint t.flags] else [])
  ++ (if flags.testBit 2 then (match sec with | some h => [.uint h.btype, .uint h.num, .uint h.flags] | none => []) else [])
  ++ [.bstr (btsdBytes t.data)]

def ippt (flags : Nat) (primary : Option Primary) (sec : Option SecHeader) (t : Canon) : Bytes :=
  encItems (ipptItems flags primary sec t)

/-- RFC 9173 §3.3: each parameter is an (id, value) pair; ids 1 = SHA variant, 2 = wrapped key,
    3 = integrity scope flags (the ids are whatever the block carries) -/
def paramItems (p : Params) : List Item :=
  (match p.shaVariant with | some (i, v) => [.arr [.uint i, .uint v]] | none => [])
  ++ (match p.wrappedKey with | some (i, k) => [.arr [.uint i, .bstr k]] | none => [])
  ++ (match p.scopeFlags with | some (i, f) => [.arr [.uint i, .uint f]] | none => [])

/-- RFC 9172 §3.6: security targets, context id, context flags, security source,
    context parameters (present: flags bit 0), security results (one result set per target) -/
def asbItems (b : Bib) (p : Params) : List Item :=
  [.arr (b.targets.map .uint), .uint 1, .uint b.ctxFlags, eidItem b.source, .arr (paramItems p),
   .arr (b.results.map (fun r => .arr (r.map (fun x => .arr [.uint x.1, .bstr x.2]))))]

end Bp7.Spec
