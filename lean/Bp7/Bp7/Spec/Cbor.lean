/-
  Independent reference: RFC 8949 data items and their deterministic encoding
  (shortest heads; definite lengths except where the tree says indefinite).
  Shares nothing with Bp7/Model/Cbor.lean but the type `Bytes`.
-/
import Bp7.Model.Basic
namespace Bp7.Spec
open Bp7

inductive Item where
  | uint (n : Nat)
  | nint (n : Nat)              -- the value -1 - n
  | bstr (b : Bytes)
  | tstr (b : Bytes)
  | arr (xs : List Item)
  | arrI (xs : List Item)       -- indefinite-length array
  | map (xs : List Item)        -- key, value, key, value, ...
  | tag (t : Nat) (x : Item)
  | simple (v : Nat)            -- 20 false, 21 true, 22 null, 23 undefined
  | f16 (bits : Nat) | f32 (bits : Nat) | f64 (bits : Nat)
  | bstrI (chunks : List Bytes) | tstrI (chunks : List Bytes)
  | raw (b : Bytes)             -- verbatim bytes (fault injection only)
  deriving Repr, Inhabited

/-- the `k` low-order bytes of `n`, most significant first -/
def bigEndian : Nat → Nat → Bytes
  | 0, _ => []
  | k+1, n => UInt8.ofNat ((n >>> (8 * k)) % 256) :: bigEndian k n

/-- initial byte and argument, RFC 8949 §3 / §4.2.1 (preferred serialisation) -/
def head (major : Nat) (arg : Nat) : Bytes :=
  let ib := fun (ai : Nat) => UInt8.ofNat (major <<< 5 ||| ai)
  if arg ≤ 23 then [ib arg]
  else if arg ≤ 0xff then ib 24 :: bigEndian 1 arg
  else if arg ≤ 0xffff then ib 25 :: bigEndian 2 arg
  else if arg ≤ 0xffffffff then ib 26 :: bigEndian 4 arg
  else ib 27 :: bigEndian 8 arg

mutual
def encItem : Item → Bytes
  | .uint n => head 0 n
  | .nint n => head 1 n
  | .bstr b => head 2 b.length ++ b
  | .tstr b => head 3 b.length ++ b
  | .arr xs => head 4 xs.length ++ encItems xs
  | .arrI xs => [0x9f] ++ encItems xs ++ [0xff]
  | .map xs => head 5 (xs.length / 2) ++ encItems xs
  | .tag t x => head 6 t ++ encItem x
  | .simple v => [UInt8.ofNat (0xe0 + v)]
  | .f16 bits => 0xf9 :: bigEndian 2 bits
  | .f32 bits => 0xfa :: bigEndian 4 bits
  | .f64 bits => 0xfb :: bigEndian 8 bits
  | .bstrI cs => [0x5f] ++ (cs.map (fun c => head 2 c.length ++ c)).flatten ++ [0xff]
  | .tstrI cs => [0x7f] ++ (cs.map (fun c => head 3 c.length ++ c)).flatten ++ [0xff]
  | .raw b => b
def encItems : List Item → Bytes
  | [] => []
  | x :: xs => encItem x ++ encItems xs
end

end Bp7.Spec
