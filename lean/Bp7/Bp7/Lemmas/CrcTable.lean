/-
  The `crc` crate's table-driven algorithm (Model/CrcTable.lean) computes the same function as
  the bit-serial reflected model (Model/Crc.lean) that all CRC theorems (C02, C04, C05) are about.
-/
import Bp7.Model.CrcTable
import Bp7.Lemmas.CrcLinear
namespace Bp7.CrcCrate

variable {w : Nat}

theorem utilStep_eq (poly v : BitVec w) : utilStep poly v = crcBit poly v := by
  unfold utilStep crcBit
  by_cases h : v.getLsbD 0
  · have h1 : v &&& 1#w = 1#w := by
      ext i hi
      by_cases hi0 : i = 0
      · subst hi0; simp [h]
      · simp [hi0]
    rw [h1, BitVec.one_mul, if_pos h]
  · have h0 : v &&& 1#w = 0#w := by
      ext i hi
      by_cases hi0 : i = 0
      · subst hi0
        have hf : v.getLsbD 0 = false := by simpa using h
        simp [← BitVec.getLsbD_eq_getElem, hf]
      · simp [hi0]
    rw [h0, BitVec.zero_mul, BitVec.xor_zero, if_neg h]

theorem utilCrc_eq (poly v : BitVec w) : utilCrc poly v = crcBits poly 8 v := by
  simp [utilCrc, utilStep_eq, crcBits]

/-- a value whose low k bits are clear is just shifted by k steps -/
theorem crcBits_shift (poly : BitVec w) : ∀ (k : Nat) (h : BitVec w), (∀ i, i < k → h.getLsbD i = false) →
    crcBits poly k h = h >>> k
  | 0, h, _ => by simp [crcBits]
  | k+1, h, hz => by
    have h0 : h.getLsbD 0 = false := hz 0 (by omega)
    have hs : crcBit poly h = h >>> 1 := by simp [crcBit, h0]
    rw [crcBits, hs, crcBits_shift poly k (h >>> 1) (by
      intro i hi; rw [BitVec.getLsbD_ushiftRight]; exact hz (1 + i) (by omega))]
    rw [show k + 1 = 1 + k by omega, BitVec.shiftRight_add]

/-- eight steps on any value = eight steps on its low byte, xor the rest shifted down -/
theorem crcBits8_split (poly x : BitVec w) :
    crcBits poly 8 x = crcBits poly 8 (x &&& 0xFF#w) ^^^ (x >>> 8) := by
  have hx : x = (x &&& 0xFF#w) ^^^ (x &&& ~~~0xFF#w) := by
    ext i hi; simp; cases x[i] <;> simp
  have hz : ∀ i, i < 8 → (x &&& ~~~0xFF#w).getLsbD i = false := by
    intro i hi
    rw [BitVec.getLsbD_and, BitVec.getLsbD_not]
    have : (0xFF#w).getLsbD i = decide (i < w) := by
      simp [BitVec.getLsbD_ofNat]
      have : Nat.testBit 255 i = true := by
        have : i = 0 ∨ i = 1 ∨ i = 2 ∨ i = 3 ∨ i = 4 ∨ i = 5 ∨ i = 6 ∨ i = 7 := by omega
        rcases this with h | h | h | h | h | h | h | h <;> subst h <;> decide
      simp [this]
    rw [this]
    by_cases hw : i < w <;> simp [hw]
  have hsh : (x &&& ~~~0xFF#w) >>> 8 = x >>> 8 := by
    ext i hi
    simp only [BitVec.getElem_ushiftRight, BitVec.getLsbD_and, BitVec.getLsbD_not]
    have : (0xFF#w).getLsbD (8 + i) = false := by
      simp [BitVec.getLsbD_ofNat]
      intro _
      apply Nat.testBit_lt_two_pow
      calc 255 < 2 ^ 8 := by decide
        _ ≤ 2 ^ (8 + i) := Nat.pow_le_pow_right (by decide) (by omega)
    rw [this]; simp
    intro hx8
    exact Nat.lt_of_not_le (fun hge => by rw [BitVec.getLsbD_of_ge _ _ hge] at hx8; exact absurd hx8 (by decide))
  conv => lhs; rw [hx]
  rw [crcBits_xor, crcBits_shift poly 8 _ hz, hsh]

theorem tableIndex_lt (hw : 8 ≤ w) (crc : BitVec w) (b : UInt8) : tableIndex crc b < 256 := by
  unfold tableIndex
  rw [BitVec.toNat_and]
  have : (0xFF#w).toNat = 255 := by
    simp [BitVec.toNat_ofNat]
    apply Nat.mod_eq_of_lt
    calc 255 < 2 ^ 8 := by decide
      _ ≤ 2 ^ w := Nat.pow_le_pow_right (by decide) hw
  rw [this]
  exact Nat.lt_succ_of_le Nat.and_le_right

theorem table_getD (poly : BitVec w) (y : BitVec w) (hy : y.toNat < 256) :
    (table poly).getD y.toNat 0#w = crcBits (reflectPoly poly) 8 y := by
  unfold table
  rw [Array.getD_eq_getD_getElem?, Array.getElem?_ofFn]
  simp [hy, utilCrc_eq]

/-- one table step = eight bit steps on the state xor the byte -/
theorem updateByte_eq (hw : 8 ≤ w) (poly crc : BitVec w) (b : UInt8) :
    updateByte (table poly) crc b = crcByte (reflectPoly poly) crc b := by
  unfold updateByte
  have hlt := tableIndex_lt hw crc b
  unfold tableIndex at hlt ⊢
  rw [table_getD poly _ hlt]
  rw [crcByte_eq, crcBits8_split (reflectPoly poly) (crc ^^^ zext w b)]
  congr 1
  rw [BitVec.ushiftRight_xor_distrib]
  have : zext w b >>> 8 = 0#w := by
    apply BitVec.eq_of_toNat_eq
    rw [BitVec.toNat_ushiftRight, zext_toNat hw, Nat.shiftRight_eq_div_pow]
    have := b.toNat_lt
    simp; omega
  rw [this, BitVec.xor_zero]

theorem updateTable_eq (hw : 8 ≤ w) (poly : BitVec w) (bytes : Bytes) (crc : BitVec w) :
    updateTable (table poly) crc bytes = crcFeed (reflectPoly poly) crc bytes := by
  unfold updateTable crcFeed
  induction bytes generalizing crc with
  | nil => rfl
  | cons b bs ih => simp only [List.foldl_cons]; rw [updateByte_eq hw, ih]

/-- `crc::Crc::<u16>::new(&CRC_16_IBM_SDLC).checksum` is the model's `crc16`, for every input -/
theorem x25_eq (d : Bytes) : x25 d = Bp7.crc16 d := by
  unfold x25 checksum finalize Bp7.crc16
  rw [updateTable_eq (by decide)]
  have hp : reflectPoly 0x1021#16 = POLY16 := by decide +kernel
  have hi : init 0xFFFF#16 = 0xFFFF#16 := by decide +kernel
  rw [hp, hi]

/-- `crc::Crc::<u32>::new(&CRC_32_ISCSI).checksum` is the model's `crc32c`, for every input -/
theorem castagnoli_eq (d : Bytes) : castagnoli d = Bp7.crc32c d := by
  unfold castagnoli checksum finalize Bp7.crc32c
  rw [updateTable_eq (by decide)]
  have hp : reflectPoly 0x1EDC6F41#32 = POLY32 := by decide +kernel
  have hi : init 0xFFFFFFFF#32 = 0xFFFFFFFF#32 := by decide +kernel
  rw [hp, hi]

end Bp7.CrcCrate
