import Bp7.Model.Types
namespace Bp7

/-- bitflags `contains` of a single declared bit is a bit test -/
theorem flagsContain_bit (all w k : Nat) (ha : all.testBit k = true) :
    flagsContain all w (2 ^ k) = w.testBit k := by
  unfold flagsContain
  cases hw : w.testBit k
  · -- bit clear: the masked word cannot equal 2^k
    apply beq_false_of_ne
    intro h
    have := congrArg (fun x => Nat.testBit x k) h
    simp [Nat.testBit_and, hw, Nat.testBit_two_pow_self] at this
  · apply beq_of_eq
    apply Nat.eq_of_testBit_eq
    intro i
    simp only [Nat.testBit_and, Nat.testBit_two_pow]
    by_cases hki : k = i
    · subst hki; simp [hw, ha]
    · simp [hki]

end Bp7
