/-
  Round-trip lemmas for the bundle codec (readers of Codec.lean on writers of Codec.lean).
-/
import Bp7.Model.Codec
import Bp7.Lemmas.Cbor
namespace Bp7

/-! ## well-formedness (the C01 domain) -/

def Eid.wf : Eid → Bool
  | .null c v => c == 1 && v == 0
  | .dtn c ssp => c == 1 && !ssp.isEmpty && validUtf8 ssp && decide (ssp.length < U64)
  | .ipn c n s => c == 2 && decide (1 ≤ n) && decide (n < U64) && decide (s < U64)

/-- CRC values that exist on the wire -/
def CrcVal.wire : CrcVal → Bool
  | .no | .v16 _ _ | .v32 _ _ _ _ => true
  | _ => false

/-- CRC values of the C01 domain (any prior state of a known CRC type) -/
def CrcVal.known : CrcVal → Bool
  | .unknown _ => false
  | _ => true

/-- what a decoder can hand back: wire values, or an unknown type code 3..255 (which has no CRC field) -/
def CrcVal.wireX : CrcVal → Bool
  | .unknown k => decide (3 ≤ k) && decide (k < 256)
  | c => c.wire

/-- CRC values of the extended C01 domain: a known type in any prior state, or an unknown code 3..255 -/
def CrcVal.knownX : CrcVal → Bool
  | .unknown k => decide (3 ≤ k) && decide (k < 256)
  | _ => true

theorem CrcVal.wireX_of_wire (c : CrcVal) (h : c.wire = true) : c.wireX = true := by
  cases c <;> simp_all [CrcVal.wire, CrcVal.wireX]

def Primary.wf (p : Primary) : Bool :=
  decide (p.version < U32) && decide (p.flags < U64) && p.crc.known
  && p.dst.wf && p.src.wf && p.rpt.wf
  && decide (p.ts < U64) && decide (p.seq < U64) && decide (p.lifetime < U64)
  && decide (p.fragOff < U64) && decide (p.total < U64)
  && (p.isFragment || (p.fragOff == 0 && p.total == 0))

def Canon.wf (c : Canon) : Bool :=
  decide (c.btype < U64) && decide (c.num < U64) && decide (c.flags < 256) && c.crc.known
  && decide ((btsd c.data).length < U64)
  && (match c.data with
      | .data _ => c.btype == PAYLOAD_BLOCK
      | .age ms => c.btype == BUNDLE_AGE_BLOCK && decide (ms < U64)
      | .hop l n => c.btype == HOP_COUNT_BLOCK && decide (l < 256) && decide (n < 256)
      | .prev e => c.btype == PREVIOUS_NODE_BLOCK && e.wf
      | .unknown _ => c.btype != PAYLOAD_BLOCK && c.btype != BUNDLE_AGE_BLOCK && c.btype != HOP_COUNT_BLOCK
                      && c.btype != PREVIOUS_NODE_BLOCK
      | .decErr => false)

def Bundle.wf (b : Bundle) : Bool := b.primary.wf && b.canon.all Canon.wf

/-- the field conditions of `wf` alone, whatever the CRC value is -/
def Primary.wfF (p : Primary) : Bool := ({ p with crc := .no } : Primary).wf
def Canon.wfF (c : Canon) : Bool := ({ c with crc := .no } : Canon).wf

theorem Primary.isFragment_setCrc (p : Primary) (c : CrcVal) : ({ p with crc := c } : Primary).isFragment = p.isFragment := rfl
theorem Primary.setCrc_updateCrc (p : Primary) : ({ p.updateCrc with crc := .no } : Primary) = { p with crc := .no } := rfl
theorem Canon.setCrc_updateCrc (c : Canon) : ({ c.updateCrc with crc := .no } : Canon) = { c with crc := .no } := rfl
theorem Primary.wfF_updateCrc (p : Primary) : p.updateCrc.wfF = p.wfF := by
  unfold Primary.wfF; rw [Primary.setCrc_updateCrc]
theorem Canon.wfF_updateCrc (c : Canon) : c.updateCrc.wfF = c.wfF := by
  unfold Canon.wfF; rw [Canon.setCrc_updateCrc]

theorem Primary.wfF_of_wf (p : Primary) (h : p.wf = true) : p.wfF = true := by
  simp only [Primary.wfF, Primary.wf, Primary.isFragment, Bool.and_eq_true] at h ⊢
  simp_all [CrcVal.known]
theorem Canon.wfF_of_wf (c : Canon) (h : c.wf = true) : c.wfF = true := by
  simp only [Canon.wfF, Canon.wf, Bool.and_eq_true] at h ⊢
  simp_all [CrcVal.known]

/-- the extended C01 domain: as `wf`, with CRC type codes the library does not know allowed -/
def Primary.wfX (p : Primary) : Bool := p.wfF && p.crc.knownX
def Canon.wfX (c : Canon) : Bool := c.wfF && c.crc.knownX
def Bundle.wfX (b : Bundle) : Bool := b.primary.wfX && b.canon.all Canon.wfX

/-! ## pairs and endpoint IDs -/

theorem U64_eq : U64 = 18446744073709551616 := rfl
theorem U32_eq : U32 = 4294967296 := rfl

theorem readPairU64_enc (a b : Nat) (ha : a < U64) (hb : b < U64) (rest : Bytes) (d : Nat) (hd : 2 ≤ d) :
    readPairU64 ⟨encArrayHead 2 ++ encUint a ++ encUint b ++ rest, d⟩ = (.ok (a, b), ⟨rest, d⟩) := by
  obtain ⟨d', rfl⟩ : ∃ d', d = d' + 1 := ⟨d - 1, by omega⟩
  rw [U64_eq] at ha hb
  have := readSeq_array visitPairU64 2 (by omega) (encUint a ++ encUint b) rest d' (by omega) (a, b)
    (by simp [visitPairU64, reqElem_succ, readU64_enc, ha, hb, List.append_assoc])
  simpa [readPairU64, List.append_assoc] using this

theorem readEid_enc (e : Eid) (h : e.wf = true) (rest : Bytes) (d : Nat) (hd : 3 ≤ d) :
    readEid ⟨encEid e ++ rest, d⟩ = (.ok e, ⟨rest, d⟩) := by
  obtain ⟨d', rfl⟩ : ∃ d', d = d' + 1 := ⟨d - 1, by omega⟩
  cases e with
  | null c v =>
    simp only [Eid.wf, Bool.and_eq_true, beq_iff_eq] at h
    obtain ⟨rfl, rfl⟩ := h
    have := readSeq_array visitEid 2 (by omega) (encUint 1 ++ encUint 0) rest d' (by omega) (Eid.null 1 0)
      (by
        simp only [visitEid, reqElem_succ, List.append_assoc, readU8_enc 1 (by omega)]
        simp [nextElem, readString, tagFuel, encUint, parseWith_encHead _ 0 0 _ (by omega) (by omega),
          headOf, kString, reject, Eid.dtnNone])
    simpa [readEid, encEid, List.append_assoc] using this
  | dtn c ssp =>
    simp only [Eid.wf, Bool.and_eq_true, beq_iff_eq, Bool.not_eq_true', U64_eq] at h
    obtain ⟨⟨⟨rfl, hne⟩, hu⟩, hl⟩ := h
    have hl := of_decide_eq_true hl
    have hne' : ¬ ssp = [] := by intro h0; simp [h0] at hne
    have := readSeq_array visitEid 2 (by omega) (encUint 1 ++ encText ssp) rest d' (by omega) (Eid.dtn 1 ssp)
      (by
        simp only [visitEid, reqElem_succ, List.append_assoc, readU8_enc 1 (by omega)]
        simp [nextElem, readString_enc ssp hl hu, hne'])
    simpa [readEid, encEid, List.append_assoc] using this
  | ipn c n s =>
    simp only [Eid.wf, Bool.and_eq_true, beq_iff_eq, decide_eq_true_eq] at h
    obtain ⟨⟨⟨rfl, h1⟩, hn⟩, hs⟩ := h
    have hp := readPairU64_enc n s hn hs rest d' (by omega)
    have := readSeq_array visitEid 2 (by omega) (encUint 2 ++ (encArrayHead 2 ++ encUint n ++ encUint s)) rest d' (by omega)
      (Eid.ipn 2 n s)
      (by
        simp only [visitEid, reqElem_succ, List.append_assoc, readU8_enc 2 (by omega)]
        simp only [List.append_assoc] at hp
        simp [hp, withIpn, h1])
    simpa [readEid, encEid, List.append_assoc] using this

end Bp7

namespace Bp7

theorem visitCrc_enc (c : CrcVal) (hw : c.wireX = true) (n : Nat) (rest : Bytes) (d : Nat) :
    visitCrc c.toCode (some (n + crcFieldCount c)) ⟨encCrcField c ++ rest, d⟩
      = (.ok (c, some n), ⟨rest, d⟩) := by
  cases c with
  | no => simp [visitCrc, CrcVal.toCode, crcFieldCount, CrcVal.bytes, encCrcField]
  | v16 x y =>
    have := readByteBuf_enc [x, y] (by simp) rest d
    simp [visitCrc, CrcVal.toCode, crcFieldCount, CrcVal.bytes, encCrcField, reqElem_succ, this]
  | v32 x y z w =>
    have := readByteBuf_enc [x, y, z, w] (by simp) rest d
    simp [visitCrc, CrcVal.toCode, crcFieldCount, CrcVal.bytes, encCrcField, reqElem_succ, this]
  | empty16 => simp [CrcVal.wire, CrcVal.wireX] at hw
  | empty32 => simp [CrcVal.wire, CrcVal.wireX] at hw
  | unknown k =>
    simp only [CrcVal.wireX, Bool.and_eq_true, decide_eq_true_eq] at hw
    have h0 : k ≠ 0 := by omega
    have h1 : k ≠ 1 := by omega
    have h2 : k ≠ 2 := by omega
    simp [visitCrc, CrcVal.toCode, crcFieldCount, CrcVal.bytes, encCrcField, h0, h1, h2]

theorem isFragment_iff (p : Primary) : p.isFragment = flagsContain F_ALL p.flags F_IS_FRAGMENT := rfl

theorem visitPrimary_enc (p : Primary) (h : p.wfF = true) (hw : p.crc.wireX = true)
    (rest : Bytes) (d : Nat) (hd : 3 ≤ d) :
    visitPrimary (some (8 + (if p.isFragment then 2 else 0) + crcFieldCount p.crc))
      ⟨encUint p.version ++ encUint p.flags ++ encUint p.crc.toCode
        ++ encEid p.dst ++ encEid p.src ++ encEid p.rpt
        ++ (encArrayHead 2 ++ encUint p.ts ++ encUint p.seq)
        ++ encUint p.lifetime
        ++ (if p.isFragment then encUint p.fragOff ++ encUint p.total else [])
        ++ encCrcField p.crc ++ rest, d⟩
      = (.ok (p, some 0), ⟨rest, d⟩) := by
  simp only [Primary.wfF, Primary.wf, Primary.isFragment_setCrc, Bool.and_eq_true, decide_eq_true_eq, U64_eq, U32_eq] at h
  obtain ⟨⟨⟨⟨⟨⟨⟨⟨⟨⟨⟨hver, hfl⟩, _⟩, hdst⟩, hsrc⟩, hrpt⟩, hts⟩, hseq⟩, hlt⟩, hfo⟩, htot⟩, hfr⟩ := h
  have hver := of_decide_eq_true hver
  have hfl := of_decide_eq_true hfl
  have hts := of_decide_eq_true hts
  have hseq := of_decide_eq_true hseq
  have hlt := of_decide_eq_true hlt
  have hfo := of_decide_eq_true hfo
  have htot := of_decide_eq_true htot
  have hcode : p.crc.toCode < 256 := by
    cases hc : p.crc <;> simp [hc, CrcVal.wire, CrcVal.wireX] at hw <;> simp [CrcVal.toCode] <;> omega
  have hpair := fun r => readPairU64_enc p.ts p.seq hts hseq r d (by omega)
  simp only [List.append_assoc] at hpair
  by_cases hfrag : p.isFragment = true
  · have hvc := visitCrc_enc p.crc hw 0 rest d
    simp only [Nat.zero_add] at hvc
    simp only [hfrag, if_true]
    have e : 8 + 2 + crcFieldCount p.crc = (crcFieldCount p.crc + 2) + 8 := by omega
    rw [e]
    have hf2 : flagsContain F_ALL p.flags F_IS_FRAGMENT = true := hfrag
    have hgt : decide (crcFieldCount p.crc + 2 > 1) = true := by simp
    simp only [visitPrimary, bind_apply, pure_apply, reqElem_succ, List.append_assoc,
      readU32_enc p.version hver, readU64_enc p.flags hfl, readU8_enc p.crc.toCode hcode,
      readEid_enc p.dst hdst _ d hd, readEid_enc p.src hsrc _ d hd, readEid_enc p.rpt hrpt _ d hd,
      hpair, readU64_enc p.lifetime hlt, hgt, if_true,
      readU64_enc p.fragOff hfo, readU64_enc p.total htot]
    simp [hvc]
  · have hfrag' : p.isFragment = false := by simpa using hfrag
    have hvc := visitCrc_enc p.crc hw 0 rest d
    simp only [Nat.zero_add] at hvc
    simp only [hfrag', Bool.false_or, Bool.and_eq_true, beq_iff_eq] at hfr
    simp only [hfrag', Bool.false_eq_true, if_false, Nat.add_zero]
    have e : 8 + crcFieldCount p.crc = crcFieldCount p.crc + 8 := by omega
    rw [e]
    have hgt : decide (crcFieldCount p.crc > 1) = false := by
      unfold crcFieldCount; split <;> simp
    simp only [visitPrimary, bind_apply, pure_apply, reqElem_succ, List.append_assoc,
      readU32_enc p.version hver, readU64_enc p.flags hfl, readU8_enc p.crc.toCode hcode,
      readEid_enc p.dst hdst _ d hd, readEid_enc p.src hsrc _ d hd, readEid_enc p.rpt hrpt _ d hd,
      hpair, readU64_enc p.lifetime hlt, hgt]
    obtain ⟨h0, h1⟩ := hfr
    simp [pure_apply, hvc]
    cases p
    simp_all

end Bp7

namespace Bp7

theorem crcFieldCount_le (c : CrcVal) : crcFieldCount c ≤ 1 := by
  unfold crcFieldCount; split <;> omega

theorem readPrimary_encX (p : Primary) (h : p.wfF = true) (hw : p.crc.wireX = true)
    (rest : Bytes) (d : Nat) (hd : 4 ≤ d) :
    readPrimary ⟨encPrimary p ++ rest, d⟩ = (.ok p, ⟨rest, d⟩) := by
  obtain ⟨d', rfl⟩ : ∃ d', d = d' + 1 := ⟨d - 1, by omega⟩
  have hv := visitPrimary_enc p h hw rest d' (by omega)
  have hc := crcFieldCount_le p.crc
  have hn : 8 + (if p.isFragment then 2 else 0) + crcFieldCount p.crc < 18446744073709551616 := by
    split <;> omega
  simp only [List.append_assoc] at hv
  have := readSeq_array visitPrimary _ hn
    (encUint p.version ++ (encUint p.flags ++ (encUint p.crc.toCode ++ (encEid p.dst ++ (encEid p.src ++
      (encEid p.rpt ++ (encArrayHead 2 ++ (encUint p.ts ++ (encUint p.seq ++ (encUint p.lifetime ++
      ((if p.isFragment then encUint p.fragOff ++ encUint p.total else []) ++ encCrcField p.crc)))))))))))
    rest d' (by omega) p (by simpa [List.append_assoc] using hv)
  simpa [readPrimary, encPrimary, List.append_assoc] using this

theorem fromSlice_enc {α} (rd : P α) (enc : Bytes) (v : α)
    (h : rd ⟨enc ++ [], 128⟩ = (.ok v, ⟨[], 128⟩)) : fromSlice rd enc = .ok v := by
  simp only [List.append_nil] at h
  simp [fromSlice, h]

theorem decodeBtsd_encX (c : Canon) (h : c.wfF = true) : decodeBtsd c.btype (btsd c.data) = .ok c.data := by
  simp only [Canon.wfF, Canon.wf, Bool.and_eq_true] at h
  obtain ⟨_, hd⟩ := h
  cases hdat : c.data with
  | data b =>
    simp only [hdat, beq_iff_eq] at hd
    simp [decodeBtsd, hd, btsd]
  | age ms =>
    simp only [hdat, Bool.and_eq_true, beq_iff_eq] at hd
    have hms := of_decide_eq_true hd.2
    rw [U64_eq] at hms
    have this : fromSlice readU64 (encCData (.age ms)) = .ok ms :=
      fromSlice_enc readU64 (encUint ms) ms (readU64_enc ms hms [] 128)
    simp [decodeBtsd, hd.1, btsd, PAYLOAD_BLOCK, BUNDLE_AGE_BLOCK, this, Res.map]
  | hop l n =>
    simp only [hdat, Bool.and_eq_true, beq_iff_eq] at hd
    have hl := of_decide_eq_true hd.1.2
    have hn := of_decide_eq_true hd.2
    have hv : visitPairU8 (some 2) ⟨encUint l ++ (encUint n ++ []), 127⟩ = (.ok ((l, n), some 0), ⟨[], 127⟩) := by
      simp only [visitPairU8, bind_apply, pure_apply, reqElem_succ, readU8_enc l hl (encUint n ++ []) 127,
        readU8_enc n hn [] 127]
    have hs := readSeq_array visitPairU8 2 (by omega) (encUint l ++ encUint n) [] 127 (by omega) (l, n)
      (by simpa only [List.append_assoc] using hv)
    have this : fromSlice (readSeq visitPairU8) (encCData (.hop l n)) = .ok (l, n) := by
      apply fromSlice_enc
      simpa only [encCData, List.append_assoc, List.append_nil] using hs
    simp [decodeBtsd, hd.1.1, btsd, PAYLOAD_BLOCK, BUNDLE_AGE_BLOCK, HOP_COUNT_BLOCK, this, Res.map]
  | prev e =>
    simp only [hdat, Bool.and_eq_true, beq_iff_eq] at hd
    have this : fromSlice readEid (encCData (.prev e)) = .ok e :=
      fromSlice_enc readEid (encEid e) e (readEid_enc e hd.2 [] 128 (by omega))
    simp [decodeBtsd, hd.1, btsd, PAYLOAD_BLOCK, BUNDLE_AGE_BLOCK, HOP_COUNT_BLOCK,
      PREVIOUS_NODE_BLOCK, this, Res.map]
  | unknown b =>
    simp only [hdat, Bool.and_eq_true, bne_iff_ne, ne_eq] at hd
    obtain ⟨⟨⟨h1, h7⟩, h10⟩, h6⟩ := hd
    simp [decodeBtsd, btsd, h1, h7, h10, h6]
  | decErr => simp [hdat] at hd

theorem btsd_lengthX (c : Canon) (h : c.wfF = true) : (btsd c.data).length < 18446744073709551616 := by
  simp only [Canon.wfF, Canon.wf, Bool.and_eq_true] at h
  exact of_decide_eq_true h.1.2

end Bp7

namespace Bp7

theorem liftRes_ok {α} (a : α) (s : St) : liftRes (.ok a) s = (.ok a, s) := rfl

theorem readCanon_encX (c : Canon) (h : c.wfF = true) (hw : c.crc.wireX = true)
    (rest : Bytes) (d : Nat) (hd : 3 ≤ d) :
    readCanon ⟨encCanon c ++ rest, d⟩ = (.ok c, ⟨rest, d⟩) := by
  obtain ⟨d', rfl⟩ : ∃ d', d = d' + 1 := ⟨d - 1, by omega⟩
  have hb := decodeBtsd_encX c h
  have hbl := btsd_lengthX c h
  simp only [Canon.wfF, Canon.wf, Bool.and_eq_true, U64_eq] at h
  obtain ⟨⟨⟨⟨⟨ht, hn⟩, hf⟩, _⟩, _⟩, _⟩ := h
  have ht := of_decide_eq_true ht
  have hn := of_decide_eq_true hn
  have hf := of_decide_eq_true hf
  have hcode : c.crc.toCode < 256 := by
    cases hc : c.crc <;> simp [hc, CrcVal.wire, CrcVal.wireX] at hw <;> simp [CrcVal.toCode] <;> omega
  have hvc := visitCrc_enc c.crc hw 0 rest d'
  simp only [Nat.zero_add] at hvc
  have hcnt := crcFieldCount_le c.crc
  have e : 5 + crcFieldCount c.crc = crcFieldCount c.crc + 5 := by omega
  have hv : visitCanon (some (5 + crcFieldCount c.crc))
      ⟨encUint c.btype ++ (encUint c.num ++ (encUint c.flags ++ (encUint c.crc.toCode ++
        (encBytes (btsd c.data) ++ (encCrcField c.crc ++ rest))))), d'⟩ = (.ok (c, some 0), ⟨rest, d'⟩) := by
    rw [e]
    simp only [visitCanon, bind_apply, pure_apply, reqElem_succ,
      readU64_enc c.btype ht, readU64_enc c.num hn, readU8_enc c.flags hf, readU8_enc c.crc.toCode hcode,
      readByteBuf_enc (btsd c.data) hbl, hb, liftRes_ok, hvc]
  have := readSeq_array visitCanon (5 + crcFieldCount c.crc) (by omega)
    (encUint c.btype ++ (encUint c.num ++ (encUint c.flags ++ (encUint c.crc.toCode ++
        (encBytes (btsd c.data) ++ encCrcField c.crc))))) rest d' (by omega) c
    (by simpa only [List.append_assoc] using hv)
  simpa [readCanon, encCanon, List.append_assoc] using this

/-- the first byte of an encoded definite array of fewer than 24 items is not the break byte -/
theorem encArrayHead_small (n : Nat) (h : n < 24) : encArrayHead n = [UInt8.ofNat (128 + n)] := by
  simp [encArrayHead, encHead, h]

theorem encCanon_cons (c : Canon) : ∃ b tl, encCanon c = b :: tl ∧ b.toNat ≠ 255 := by
  have hc := crcFieldCount_le c.crc
  refine ⟨UInt8.ofNat (128 + (5 + crcFieldCount c.crc)), ?_, ?_, ?_⟩
  · exact encUint c.btype ++ encUint c.num ++ encUint c.flags ++ encUint c.crc.toCode
      ++ encBytes (btsd c.data) ++ encCrcField c.crc
  · simp [encCanon, encArrayHead_small _ (by omega : 5 + crcFieldCount c.crc < 24)]
  · rw [UInt8.toNat_ofNat']; omega

theorem encPrimary_cons (p : Primary) : ∃ b tl, encPrimary p = b :: tl ∧ b.toNat ≠ 255 := by
  have hc := crcFieldCount_le p.crc
  have hlt : 8 + (if p.isFragment then 2 else 0) + crcFieldCount p.crc < 24 := by split <;> omega
  have hne : (UInt8.ofNat (128 + (8 + (if p.isFragment then 2 else 0) + crcFieldCount p.crc))).toNat ≠ 255 := by
    rw [UInt8.toNat_ofNat']; split <;> omega
  unfold encPrimary
  rw [encArrayHead_small _ hlt]
  simp only [List.append_assoc, List.cons_append, List.nil_append]
  exact ⟨_, _, rfl, hne⟩

theorem encCanons_length (cs : List Canon) : cs.length ≤ ((cs.map encCanon).flatten).length := by
  induction cs with
  | nil => simp
  | cons c cs ih =>
    obtain ⟨b, tl, hb, _⟩ := encCanon_cons c
    simp only [List.map_cons, List.flatten_cons, List.length_append, List.length_cons, hb]
    omega

theorem collectCanonsX (cs : List Canon) (hwf : ∀ c ∈ cs, c.wfF = true ∧ c.crc.wireX = true)
    (d : Nat) (hd : 3 ≤ d) (rest : Bytes) :
    ∀ (fuel : Nat) (out : List Canon), cs.length < fuel →
      collectElems readCanon fuel out none ⟨(cs.map encCanon).flatten ++ (255 :: rest), d⟩
        = (.ok (out ++ cs, none), ⟨255 :: rest, d⟩) := by
  induction cs with
  | nil =>
    intro fuel out hf
    obtain ⟨f, rfl⟩ : ∃ f, fuel = f + 1 := ⟨fuel - 1, by simp at hf; omega⟩
    simp [collectElems, nextElem]
  | cons c cs ih =>
    intro fuel out hf
    obtain ⟨f, rfl⟩ : ∃ f, fuel = f + 1 := ⟨fuel - 1, by simp at hf; omega⟩
    have hc := hwf c (by simp)
    have hrd := readCanon_encX c hc.1 hc.2 ((cs.map encCanon).flatten ++ (255 :: rest)) d hd
    obtain ⟨b, tl, hb, hne⟩ := encCanon_cons c
    have ih' := ih (fun x hx => hwf x (by simp [hx])) f (out ++ [c]) (by simp at hf; omega)
    simp only [List.map_cons, List.flatten_cons, List.append_assoc]
    rw [collectElems]
    simp only [nextElem]
    rw [hb] at hrd ⊢
    simp only [List.cons_append] at hrd ⊢
    simp only [hne, if_false, hrd]
    simpa [List.append_assoc] using ih'

end Bp7

namespace Bp7

/-! ## CRC computation facts -/

theorem be16_wire (x : BitVec 16) : (be16 x).wire = true := rfl
theorem be32_wire (x : BitVec 32) : (be32 x).wire = true := rfl

theorem calcCrc_wire {β} (enc : β → Bytes) (getc : β → CrcVal) (setc : β → CrcVal → β) (b : β)
    (hk : (getc b).known = true) : (calcCrc enc getc setc b).wire = true := by
  unfold calcCrc
  cases h : getc b <;> simp [h, CrcVal.known] at hk <;> simp [CrcVal.toCode, CrcVal.wire, be16, be32]

theorem calcCrc_toCode {β} (enc : β → Bytes) (getc : β → CrcVal) (setc : β → CrcVal → β) (b : β) :
    (calcCrc enc getc setc b).toCode = (getc b).toCode := by
  unfold calcCrc
  cases h : getc b <;> simp [CrcVal.toCode, be16, be32]
  rename_i code
  by_cases h0 : code = 0 <;> by_cases h1 : code = 1 <;> by_cases h2 : code = 2 <;>
    simp_all [CrcVal.toCode, be16, be32]

theorem Primary.updateCrc_wf (p : Primary) (h : p.wf = true) :
    p.updateCrc.wf = true ∧ p.updateCrc.crc.wire = true := by
  have hk : p.crc.known = true := by
    simp only [Primary.wf, Bool.and_eq_true] at h; exact h.1.1.1.1.1.1.1.1.1.2
  have hw : p.calcCrc.wire = true := calcCrc_wire _ _ _ p hk
  refine ⟨?_, hw⟩
  have hkn : p.calcCrc.known = true := by
    cases hc : p.calcCrc <;> simp [hc, CrcVal.wire] at hw <;> rfl
  simp only [Primary.wf, Primary.updateCrc, Primary.isFragment] at h ⊢
  simp only [Bool.and_eq_true] at h ⊢
  simp_all

theorem Canon.updateCrc_wf (c : Canon) (h : c.wf = true) :
    c.updateCrc.wf = true ∧ c.updateCrc.crc.wire = true := by
  have hk : c.crc.known = true := by
    simp only [Canon.wf, Bool.and_eq_true] at h; exact h.1.1.2
  have hw : c.calcCrc.wire = true := calcCrc_wire _ _ _ c hk
  refine ⟨?_, hw⟩
  have hkn : c.calcCrc.known = true := by
    cases hc : c.calcCrc <;> simp [hc, CrcVal.wire] at hw <;> rfl
  simp only [Canon.wf, Canon.updateCrc] at h ⊢
  simp only [Bool.and_eq_true] at h ⊢
  simp_all

/-- decoding `9f <blocks> ff` for a bundle whose stored CRC values are wire values -/
theorem decodeBundle_encX (b : Bundle) (hp : b.primary.wfF = true ∧ b.primary.crc.wireX = true)
    (hc : ∀ c ∈ b.canon, c.wfF = true ∧ c.crc.wireX = true) :
    decodeBundle ([0x9f] ++ encBlocks b ++ [0xff]) = .ok b := by
  obtain ⟨pb, ptl, hpe, hpne⟩ := encPrimary_cons b.primary
  have hrp := readPrimary_encX b.primary hp.1 hp.2 ((b.canon.map encCanon).flatten ++ [255]) 127 (by omega)
  have hcol := collectCanonsX b.canon hc 127 (by omega) []
    (((b.canon.map encCanon).flatten ++ [255]).length + 1) []
    (by have := encCanons_length b.canon; simp only [List.length_append, List.length_cons, List.length_nil]; omega)
  rw [hpe] at hrp
  simp only [List.cons_append] at hrp
  unfold decodeBundle fromSlice readBundle readSeq tagFuel
  simp only [encBlocks, hpe, List.cons_append, List.nil_append, List.append_assoc]
  rw [parseWith]
  have h9f : readHead ⟨(0x9f : UInt8) :: pb :: (ptl ++ ((b.canon.map encCanon).flatten ++ [255])), 128⟩
      = (.ok .arrayI, ⟨pb :: (ptl ++ ((b.canon.map encCanon).flatten ++ [255])), 128⟩) := by
    simp [readHead]
  simp only [h9f, kSeq, recursionChecked]
  simp only [visitBundle, reqElem, nextElem, hpne, if_false, hrp]
  simp only [List.nil_append] at hcol
  rw [hcol]
  simp [seqEnd]

theorem decodeBundle_enc (b : Bundle) (hp : b.primary.wf = true ∧ b.primary.crc.wire = true)
    (hc : ∀ c ∈ b.canon, c.wf = true ∧ c.crc.wire = true) :
    decodeBundle ([0x9f] ++ encBlocks b ++ [0xff]) = .ok b :=
  decodeBundle_encX b ⟨b.primary.wfF_of_wf hp.1, CrcVal.wireX_of_wire _ hp.2⟩
    (fun c h => ⟨c.wfF_of_wf (hc c h).1, CrcVal.wireX_of_wire _ (hc c h).2⟩)

/-! ## the extended domain: unknown CRC type codes survive `calculate_crc` untouched -/

theorem calcCrc_wireX {β} (enc : β → Bytes) (getc : β → CrcVal) (setc : β → CrcVal → β) (b : β)
    (hk : (getc b).knownX = true) : (calcCrc enc getc setc b).wireX = true := by
  unfold calcCrc
  cases h : getc b <;> simp [h, CrcVal.knownX] at hk <;> simp [CrcVal.toCode, CrcVal.wire, CrcVal.wireX, be16, be32]
  rename_i k
  have h0 : k ≠ 0 := by omega
  have h1 : k ≠ 1 := by omega
  have h2 : k ≠ 2 := by omega
  simp [h0, h1, h2, CrcVal.wireX, hk]

theorem Primary.updateCrc_wfX (p : Primary) (h : p.wfX = true) :
    p.updateCrc.wfF = true ∧ p.updateCrc.crc.wireX = true := by
  simp only [Primary.wfX, Bool.and_eq_true] at h
  have hw : p.calcCrc.wireX = true := calcCrc_wireX _ _ _ p h.2
  exact ⟨by rw [Primary.wfF_updateCrc]; exact h.1, hw⟩

theorem Canon.updateCrc_wfX (c : Canon) (h : c.wfX = true) :
    c.updateCrc.wfF = true ∧ c.updateCrc.crc.wireX = true := by
  simp only [Canon.wfX, Bool.and_eq_true] at h
  have hw : c.calcCrc.wireX = true := calcCrc_wireX _ _ _ c h.2
  exact ⟨by rw [Canon.wfF_updateCrc]; exact h.1, hw⟩

theorem Bundle.wfX_of_wf (b : Bundle) (h : b.wf = true) : b.wfX = true := by
  simp only [Bundle.wf, Bundle.wfX, Bool.and_eq_true, List.all_eq_true] at h ⊢
  refine ⟨?_, fun c hc => ?_⟩
  · have hk : b.primary.crc.known = true := by
      have := h.1; simp only [Primary.wf, Bool.and_eq_true] at this; exact this.1.1.1.1.1.1.1.1.1.2
    simp only [Primary.wfX, Bool.and_eq_true]
    exact ⟨b.primary.wfF_of_wf h.1, by cases hc : b.primary.crc <;> simp_all [CrcVal.known, CrcVal.knownX]⟩
  · have hk : c.crc.known = true := by
      have := h.2 c hc; simp only [Canon.wf, Bool.and_eq_true] at this; exact this.1.1.2
    simp only [Canon.wfX, Bool.and_eq_true]
    exact ⟨c.wfF_of_wf (h.2 c hc), by cases hcc : c.crc <;> simp_all [CrcVal.known, CrcVal.knownX]⟩

/-! the same lemmas on the `wf` / `wire` domain, as used by C19 -/
theorem readPrimary_enc (p : Primary) (h : p.wf = true) (hw : p.crc.wire = true)
    (rest : Bytes) (d : Nat) (hd : 4 ≤ d) :
    readPrimary ⟨encPrimary p ++ rest, d⟩ = (.ok p, ⟨rest, d⟩) :=
  readPrimary_encX p (p.wfF_of_wf h) (CrcVal.wireX_of_wire _ hw) rest d hd
theorem decodeBtsd_enc (c : Canon) (h : c.wf = true) : decodeBtsd c.btype (btsd c.data) = .ok c.data :=
  decodeBtsd_encX c (c.wfF_of_wf h)
theorem btsd_length (c : Canon) (h : c.wf = true) : (btsd c.data).length < 18446744073709551616 :=
  btsd_lengthX c (c.wfF_of_wf h)
theorem readCanon_enc (c : Canon) (h : c.wf = true) (hw : c.crc.wire = true)
    (rest : Bytes) (d : Nat) (hd : 3 ≤ d) :
    readCanon ⟨encCanon c ++ rest, d⟩ = (.ok c, ⟨rest, d⟩) :=
  readCanon_encX c (c.wfF_of_wf h) (CrcVal.wireX_of_wire _ hw) rest d hd
theorem collectCanons (cs : List Canon) (hwf : ∀ c ∈ cs, c.wf = true ∧ c.crc.wire = true)
    (d : Nat) (hd : 3 ≤ d) (rest : Bytes) :
    ∀ (fuel : Nat) (out : List Canon), cs.length < fuel →
      collectElems readCanon fuel out none ⟨(cs.map encCanon).flatten ++ (255 :: rest), d⟩
        = (.ok (out ++ cs, none), ⟨255 :: rest, d⟩) :=
  collectCanonsX cs (fun c h => ⟨c.wfF_of_wf (hwf c h).1, CrcVal.wireX_of_wire _ (hwf c h).2⟩) d hd rest

end Bp7
