/-
  List lemmas for the block-list mutators (C11): stable descending insertion, automatic
  numbering, first-match update.
-/
import Bp7.Model.Mutate
namespace Bp7

/-- (block type, block number) of each block, in order -/
def sig (l : List Canon) : List (Nat × Nat) := l.map (fun c => (c.btype, c.num))

def insSig (x : Nat × Nat) : List (Nat × Nat) → List (Nat × Nat)
  | [] => [x]
  | y :: ys => if y.2 < x.2 then x :: y :: ys else y :: insSig x ys

theorem sig_insertDesc (c : Canon) (l : List Canon) :
    sig (insertDesc c l) = insSig (c.btype, c.num) (sig l) := by
  induction l with
  | nil => rfl
  | cons y ys ih =>
    simp only [insertDesc, sig, List.map_cons, insSig]
    split
    · rfl
    · simp only [List.map_cons]; congr 1

theorem insSig_perm (x : Nat × Nat) (s : List (Nat × Nat)) : (insSig x s).Perm (x :: s) := by
  induction s with
  | nil => exact List.Perm.refl _
  | cons y ys ih =>
    simp only [insSig]
    split
    · exact List.Perm.refl _
    · exact (List.Perm.cons y ih).trans (List.Perm.swap x y ys)

theorem mem_insSig (x z : Nat × Nat) (s : List (Nat × Nat)) : z ∈ insSig x s ↔ z = x ∨ z ∈ s := by
  rw [(insSig_perm x s).mem_iff]; simp

theorem insertDesc_perm (c : Canon) (l : List Canon) : (insertDesc c l).Perm (c :: l) := by
  induction l with
  | nil => exact List.Perm.refl _
  | cons y ys ih =>
    simp only [insertDesc]
    split
    · exact List.Perm.refl _
    · exact (List.Perm.cons y ih).trans (List.Perm.swap c y ys)

theorem mem_insertDesc (c z : Canon) (l : List Canon) : z ∈ insertDesc c l ↔ z = c ∨ z ∈ l := by
  rw [(insertDesc_perm c l).mem_iff]; simp

theorem insSig_desc (x : Nat × Nat) (s : List (Nat × Nat))
    (hd : (s.map (·.2)).Pairwise (· > ·)) (hx : ∀ y ∈ s, y.2 ≠ x.2) :
    ((insSig x s).map (·.2)).Pairwise (· > ·) := by
  induction s with
  | nil => simp [insSig]
  | cons y ys ih =>
    simp only [List.map_cons, List.pairwise_cons] at hd
    obtain ⟨hy, hys⟩ := hd
    simp only [insSig]
    split
    · rename_i hlt
      simp only [List.map_cons, List.pairwise_cons, List.mem_cons, List.mem_map]
      refine ⟨?_, ?_, hys⟩
      · rintro a (rfl | ⟨z, hz, rfl⟩)
        · exact hlt
        · have := hy z.2 (List.mem_map.mpr ⟨z, hz, rfl⟩); omega
      · intro a ha; exact hy a (by simpa using ha)
    · rename_i hge
      have hne := hx y (by simp)
      simp only [List.map_cons, List.pairwise_cons]
      refine ⟨?_, ih hys (fun z hz => hx z (by simp [hz]))⟩
      intro a ha
      obtain ⟨z, hz, rfl⟩ := List.mem_map.mp ha
      rcases (mem_insSig x z ys).mp hz with rfl | hz
      · omega
      · exact hy z.2 (List.mem_map.mpr ⟨z, hz, rfl⟩)

theorem insSig_before_last (x : Nat × Nat) (init : List (Nat × Nat)) (p : Nat × Nat) (h : p.2 < x.2) :
    insSig x (init ++ [p]) = insSig x init ++ [p] := by
  induction init with
  | nil => simp [insSig, h]
  | cons y ys ih =>
    simp only [List.cons_append, insSig]
    split
    · rfl
    · rw [ih]; rfl

theorem insSig_at_end (x : Nat × Nat) (s : List (Nat × Nat)) (h : ∀ y ∈ s, ¬ y.2 < x.2) :
    insSig x s = s ++ [x] := by
  induction s with
  | nil => rfl
  | cons y ys ih =>
    have hy := h y (by simp)
    simp only [insSig, hy, if_false, List.cons_append]
    rw [ih (fun z hz => h z (by simp [hz]))]

theorem insertDesc_at_end (x : Canon) (l : List Canon) (h : ∀ y ∈ l, ¬ y.num < x.num) :
    insertDesc x l = l ++ [x] := by
  induction l with
  | nil => rfl
  | cons y ys ih =>
    have hy := h y (by simp)
    simp only [insertDesc, hy, if_false, List.cons_append]
    rw [ih (fun z hz => h z (by simp [hz]))]

/-- sorting an already strictly descending list changes nothing -/
theorem foldl_insert_desc (l : List Canon) : ∀ (acc : List Canon),
    ((acc ++ l).map (·.num)).Pairwise (· > ·) →
    l.foldl (fun acc x => insertDesc x acc) acc = acc ++ l := by
  induction l with
  | nil => intro acc _; simp
  | cons x xs ih =>
    intro acc h
    simp only [List.foldl_cons]
    have hx : insertDesc x acc = acc ++ [x] := by
      apply insertDesc_at_end
      intro y hy
      simp only [List.map_append, List.map_cons, List.pairwise_append, List.mem_map, List.mem_cons] at h
      have := h.2.2 y.num ⟨y, hy, rfl⟩ x.num (Or.inl rfl)
      omega
    rw [hx, ih (acc ++ [x]) (by simpa [List.append_assoc] using h)]
    simp [List.append_assoc]

theorem sortDesc_of_desc (l : List Canon) (h : (l.map (·.num)).Pairwise (· > ·)) : sortDesc l = l := by
  have := foldl_insert_desc l [] (by simpa using h)
  simpa [sortDesc] using this

theorem sortDesc_snoc (l : List Canon) (c : Canon) (h : (l.map (·.num)).Pairwise (· > ·)) :
    sortDesc (l ++ [c]) = insertDesc c l := by
  unfold sortDesc
  rw [List.foldl_append]
  have := sortDesc_of_desc l h
  unfold sortDesc at this
  rw [this]; rfl

/-! ### automatic numbering -/

theorem maxNum_ge (l : List Canon) : 1 ≤ maxNum l ∧ ∀ c ∈ l, c.num ≤ maxNum l := by
  induction l with
  | nil => simp [maxNum]
  | cons x xs ih =>
    simp only [maxNum, List.mem_cons]
    refine ⟨by omega, ?_⟩
    rintro c (rfl | hc)
    · omega
    · have := ih.2 c hc; omega

theorem maxNum_lt (l : List Canon) (B : Nat) (hB : 1 < B) (h : ∀ c ∈ l, c.num < B) : maxNum l < B := by
  induction l with
  | nil => simpa [maxNum]
  | cons x xs ih =>
    have h1 := h x (by simp)
    have h2 := ih (fun c hc => h c (by simp [hc]))
    simp only [maxNum]; omega

theorem firstUnused_congr (l l' : List Canon) : ∀ (fuel k : Nat),
    (∀ j, k ≤ j → l.any (fun c => c.num == j) = l'.any (fun c => c.num == j)) →
    firstUnused l fuel k = firstUnused l' fuel k := by
  intro fuel
  induction fuel with
  | zero => intros; rfl
  | succ f ih =>
    intro k h
    simp only [firstUnused, h k (Nat.le_refl k)]
    rw [ih (k + 1) (fun j hj => h j (by omega))]

/-- pigeonhole: with more candidates than blocks, the search finds an unused number -/
theorem firstUnused_spec : ∀ (fuel : Nat) (l : List Canon) (k : Nat), l.length < fuel →
    k ≤ firstUnused l fuel k ∧ firstUnused l fuel k ≤ k + l.length ∧
    l.any (fun c => c.num == firstUnused l fuel k) = false := by
  intro fuel
  induction fuel with
  | zero => intro l k h; omega
  | succ f ih =>
    intro l k hlen
    simp only [firstUnused]
    by_cases hk : l.any (fun c => c.num == k) = true
    · simp only [hk, if_true]
      let l' := l.filter (fun c => c.num != k)
      have hlt : l'.length < l.length := by
        apply List.length_filter_lt_length_iff_exists.mpr
        obtain ⟨c, hc, hck⟩ := List.any_eq_true.mp hk
        exact ⟨c, hc, by simpa using hck⟩
      have hcg : firstUnused l f (k + 1) = firstUnused l' f (k + 1) := by
        apply firstUnused_congr
        intro j hj
        apply Bool.eq_iff_iff.mpr
        simp only [l', List.any_eq_true, List.mem_filter, beq_iff_eq, bne_iff_ne]
        constructor
        · rintro ⟨c, hc, rfl⟩; exact ⟨c, ⟨hc, by omega⟩, rfl⟩
        · rintro ⟨c, ⟨hc, _⟩, rfl⟩; exact ⟨c, hc, rfl⟩
      obtain ⟨h1, h2, h3⟩ := ih l' (k + 1) (by omega)
      rw [hcg]
      refine ⟨by omega, by omega, ?_⟩
      apply Bool.eq_false_iff.mpr
      intro hany
      obtain ⟨c, hc, hcr⟩ := List.any_eq_true.mp hany
      have : l'.any (fun c => c.num == firstUnused l' f (k + 1)) = true := by
        apply List.any_eq_true.mpr
        refine ⟨c, List.mem_filter.mpr ⟨hc, ?_⟩, hcr⟩
        have := beq_iff_eq.mp hcr
        simp only [bne_iff_ne]; omega
      rw [h3] at this; exact Bool.noConfusion this
    · have hk' : l.any (fun c => c.num == k) = false := by simpa using hk
      simp only [hk', Bool.false_eq_true, if_false]
      exact ⟨Nat.le_refl _, by omega, trivial⟩

theorem nextBlockNumber_spec (l : List Canon) (hlen : l.length + 2 < U64) :
    2 ≤ nextBlockNumber l ∧ nextBlockNumber l < U64 ∧ ∀ c ∈ l, c.num ≠ nextBlockNumber l := by
  have hm := maxNum_ge l
  unfold nextBlockNumber
  simp only
  split
  · rename_i h
    refine ⟨by omega, h, ?_⟩
    intro c hc; have := hm.2 c hc; omega
  · obtain ⟨h1, h2, h3⟩ := firstUnused_spec (l.length + 1) l 2 (by omega)
    refine ⟨h1, by omega, ?_⟩
    intro c hc he
    have : l.any (fun c => c.num == firstUnused l (l.length + 1) 2) = true :=
      List.any_eq_true.mpr ⟨c, hc, by simpa using he⟩
    rw [h3] at this; exact Bool.noConfusion this

/-! ### first-match update -/

theorem updFirst_sig (q : Canon → Bool) (f : Canon → Canon)
    (hf : ∀ c, (f c).btype = c.btype ∧ (f c).num = c.num) (l : List Canon) :
    sig (updFirst q f l) = sig l := by
  induction l with
  | nil => rfl
  | cons c cs ih =>
    simp only [updFirst]
    split
    · simp [sig, hf c]
    · simp only [sig, List.map_cons] at ih ⊢; rw [ih]

theorem updFirst_all (P : Canon → Prop) (q : Canon → Bool) (f : Canon → Canon)
    (hf : ∀ c, q c = true → P c → P (f c)) (l : List Canon) (h : ∀ c ∈ l, P c) :
    ∀ c ∈ updFirst q f l, P c := by
  induction l with
  | nil => intro c hc; simp [updFirst] at hc
  | cons x xs ih =>
    simp only [updFirst]
    split
    · rename_i hq
      intro c hc
      rcases List.mem_cons.mp hc with rfl | hc
      · exact hf x hq (h x (by simp))
      · exact h c (by simp [hc])
    · intro c hc
      rcases List.mem_cons.mp hc with rfl | hc
      · exact h c (by simp)
      · exact ih (fun c hc => h c (by simp [hc])) c hc

theorem find?_updFirst_same (q : Canon → Bool) (f : Canon → Canon) (hf : ∀ c, q c = true → q (f c) = true)
    (l : List Canon) : (updFirst q f l).find? q = (l.find? q).map f := by
  induction l with
  | nil => rfl
  | cons x xs ih =>
    simp only [updFirst]
    by_cases hq : q x = true
    · simp [hq, hf x hq]
    · simp [hq, ih]

theorem find?_updFirst_other (p q : Canon → Bool) (f : Canon → Canon)
    (hf : ∀ c, q c = true → p c = false ∧ p (f c) = false) (l : List Canon) :
    (updFirst q f l).find? p = l.find? p := by
  induction l with
  | nil => rfl
  | cons x xs ih =>
    simp only [updFirst]
    by_cases hq : q x = true
    · simp [hq, (hf x hq).1, (hf x hq).2]
    · simp only [hq, Bool.false_eq_true, if_false, List.find?_cons, ih]

theorem find?_insertDesc_other (p : Canon → Bool) (c : Canon) (hc : p c = false) (l : List Canon) :
    (insertDesc c l).find? p = l.find? p := by
  induction l with
  | nil => simp [insertDesc, hc]
  | cons x xs ih =>
    simp only [insertDesc]
    split
    · simp [hc]
    · simp only [List.find?_cons, ih]

end Bp7
