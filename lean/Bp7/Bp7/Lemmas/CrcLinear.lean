/-
  GF(2)-linearity of the reflected CRC step and the "first difference sticks" invariant:
  two messages that differ inside a window of at most w/8 bytes have different CRC states.
-/
import Bp7.Model.Crc
namespace Bp7

variable {w : Nat}

theorem crcBit_zero (poly : BitVec w) : crcBit poly 0#w = 0#w := by
  simp [crcBit, BitVec.zero_ushiftRight]

theorem crcBit_xor (poly x y : BitVec w) : crcBit poly (x ^^^ y) = crcBit poly x ^^^ crcBit poly y := by
  unfold crcBit
  rw [BitVec.getLsbD_xor, BitVec.ushiftRight_xor_distrib]
  cases hx : x.getLsbD 0 <;> cases hy : y.getLsbD 0 <;> simp <;> ext i hi <;> simp <;>
    cases poly[i] <;> cases x.getLsbD (1 + i) <;> cases y.getLsbD (1 + i) <;> rfl

theorem crcBits_zero (poly : BitVec w) : ∀ n, crcBits poly n 0#w = 0#w
  | 0 => rfl
  | n+1 => by simp [crcBits, crcBit_zero, crcBits_zero poly n]

theorem crcBits_xor (poly : BitVec w) : ∀ n (x y : BitVec w),
    crcBits poly n (x ^^^ y) = crcBits poly n x ^^^ crcBits poly n y
  | 0, _, _ => rfl
  | n+1, x, y => by simp [crcBits, crcBit_xor, crcBits_xor poly n]

theorem testBit_top (p : Nat) (hw : 0 < w) (hlt : p < 2 ^ w) (hp : p ≥ 2 ^ (w - 1)) : p.testBit (w - 1) = true := by
  obtain ⟨i, hi, hti⟩ := Nat.exists_ge_and_testBit_of_ge_two_pow hp
  have hiw : i < w := by
    apply Nat.lt_of_not_le
    intro hge
    have h1 := Nat.ge_two_pow_of_testBit hti
    have h2 : 2 ^ w ≤ 2 ^ i := Nat.pow_le_pow_right (by decide) hge
    omega
  have : i = w - 1 := by omega
  subst this; exact hti

/-- when bit 0 is set the step XORs the polynomial in, and the result has the polynomial's top bit -/
theorem step_msb (poly x : BitVec w) (hw : 0 < w) (hp : poly.toNat ≥ 2 ^ (w - 1)) :
    ((x >>> 1) ^^^ poly).toNat ≥ 2 ^ (w - 1) := by
  have h1 : (x >>> 1).toNat < 2 ^ (w - 1) := BitVec.toNat_ushiftRight_lt x 1 (by omega)
  have hb : ((x >>> 1) ^^^ poly).toNat.testBit (w - 1) = true := by
    rw [BitVec.toNat_xor, Nat.testBit_xor, Nat.testBit_lt_two_pow h1, testBit_top poly.toNat hw poly.isLt hp]
    rfl
  exact Nat.ge_two_pow_of_testBit hb

/-- one step at most halves the magnitude of the state (polynomial with its top bit set) -/
theorem crcBit_ge (poly x : BitVec w) (k : Nat) (hw : 0 < w) (hp : poly.toNat ≥ 2 ^ (w - 1))
    (hk : k ≤ w - 1) (hx : x.toNat ≥ 2 ^ (k + 1)) : (crcBit poly x).toNat ≥ 2 ^ k := by
  unfold crcBit
  split
  · have := step_msb poly x hw hp
    have : 2 ^ k ≤ 2 ^ (w - 1) := Nat.pow_le_pow_right (by decide) hk
    omega
  · rw [BitVec.toNat_ushiftRight, Nat.shiftRight_eq_div_pow]
    have : 2 ^ (k + 1) = 2 * 2 ^ k := by rw [Nat.pow_succ]; omega
    omega

/-- and never kills a non-zero state -/
theorem crcBit_pos (poly x : BitVec w) (hw : 0 < w) (hp : poly.toNat ≥ 2 ^ (w - 1)) (hx : x.toNat ≥ 1) :
    (crcBit poly x).toNat ≥ 1 := by
  unfold crcBit
  split
  · have := step_msb poly x hw hp
    have : 1 ≤ 2 ^ (w - 1) := Nat.one_le_two_pow
    omega
  · rename_i hb
    rw [BitVec.toNat_ushiftRight, Nat.shiftRight_eq_div_pow]
    have hb0 : x.toNat.testBit 0 = false := by
      have : x.getLsbD 0 = false := by simpa using hb
      simpa [BitVec.getLsbD] using this
    have : x.toNat % 2 = 0 := by
      have := hb0
      simp [Nat.testBit] at this
      omega
    omega

theorem crcBits_pos (poly : BitVec w) (hw : 0 < w) (hp : poly.toNat ≥ 2 ^ (w - 1)) :
    ∀ n (x : BitVec w), x.toNat ≥ 1 → (crcBits poly n x).toNat ≥ 1
  | 0, _, h => h
  | n+1, x, h => crcBits_pos poly hw hp n _ (crcBit_pos poly x hw hp h)

theorem crcBits_ge (poly : BitVec w) (hw : 0 < w) (hp : poly.toNat ≥ 2 ^ (w - 1)) :
    ∀ n (x : BitVec w) (k : Nat), k + n ≤ w → x.toNat ≥ 2 ^ (k + n) → (crcBits poly n x).toNat ≥ 2 ^ k
  | 0, _, _, _, h => h
  | n+1, x, k, hk, h => by
    apply crcBits_ge poly hw hp n (crcBit poly x) k (by omega)
    exact crcBit_ge poly x (k + n) hw hp (by omega) (by simpa [Nat.add_assoc] using h)

end Bp7

namespace Bp7
variable {w : Nat}

/-- zero-extension of a byte into the state width -/
def zext (w : Nat) (b : UInt8) : BitVec w := b.toBitVec.setWidth w

theorem crcByte_eq (poly s : BitVec w) (b : UInt8) : crcByte poly s b = crcBits poly 8 (s ^^^ zext w b) := rfl

theorem zext_xor (a b : UInt8) : zext w (a ^^^ b) = zext w a ^^^ zext w b := by
  simp [zext, BitVec.setWidth_xor]

theorem zext_zero : zext w (0 : UInt8) = 0#w := by
  simp [zext]

theorem zext_toNat (hw : 8 ≤ w) (b : UInt8) : (zext w b).toNat = b.toNat := by
  simp [zext, BitVec.toNat_setWidth_of_le hw]

theorem crcByte_xor (poly s1 s2 : BitVec w) (b1 b2 : UInt8) :
    crcByte poly (s1 ^^^ s2) (b1 ^^^ b2) = crcByte poly s1 b1 ^^^ crcByte poly s2 b2 := by
  rw [crcByte_eq, crcByte_eq, crcByte_eq, ← crcBits_xor, zext_xor]
  congr 1
  ext i hi
  simp
  cases s1[i] <;> cases s2[i] <;> cases (zext w b1)[i] <;> cases (zext w b2)[i] <;> rfl

theorem crcFeed_xor (poly : BitVec w) : ∀ (l1 l2 : Bytes) (s1 s2 : BitVec w), l1.length = l2.length →
    crcFeed poly (s1 ^^^ s2) (List.zipWith (· ^^^ ·) l1 l2) = crcFeed poly s1 l1 ^^^ crcFeed poly s2 l2
  | [], [], _, _, _ => rfl
  | a :: l1, b :: l2, s1, s2, h => by
    simp only [crcFeed, List.zipWith_cons_cons, List.foldl_cons]
    rw [crcByte_xor]
    exact crcFeed_xor poly l1 l2 _ _ (by simpa using h)
  | [], _ :: _, _, _, h => by simp at h
  | _ :: _, [], _, _, h => by simp at h

theorem crcFeed_append (poly s : BitVec w) (a b : Bytes) :
    crcFeed poly s (a ++ b) = crcFeed poly (crcFeed poly s a) b := by
  simp [crcFeed, List.foldl_append]

/-- XORing a byte into a state of magnitude ≥ 2^k, k ≥ 8, keeps the magnitude -/
theorem xor_byte_ge (hw : 8 ≤ w) (d : BitVec w) (e : UInt8) (k : Nat) (hk : 8 ≤ k) (hd : d.toNat ≥ 2 ^ k) :
    (d ^^^ zext w e).toNat ≥ 2 ^ k := by
  obtain ⟨i, hi, hti⟩ := Nat.exists_ge_and_testBit_of_ge_two_pow hd
  have he : (zext w e).toNat < 2 ^ i := by
    rw [zext_toNat hw]
    have : e.toNat < 256 := e.toNat_lt
    have : (256 : Nat) ≤ 2 ^ i := by
      have : (2 : Nat) ^ 8 ≤ 2 ^ i := Nat.pow_le_pow_right (by decide) (by omega)
      simpa using this
    omega
  have hb : (d ^^^ zext w e).toNat.testBit i = true := by
    rw [BitVec.toNat_xor, Nat.testBit_xor, hti, Nat.testBit_lt_two_pow he]; rfl
  have h1 := Nat.ge_two_pow_of_testBit hb
  have h2 : 2 ^ k ≤ 2 ^ i := Nat.pow_le_pow_right (by decide) hi
  omega

/-- the invariant: a difference that appears within the next `es.length ≤ w/8` bytes survives them -/
theorem diff_survives (poly : BitVec w) (hw : 8 ≤ w) (hp : poly.toNat ≥ 2 ^ (w - 1))
    (hC : ∀ e : UInt8, e ≠ 0 → (crcBits poly 8 (zext w e)).toNat ≥ 2 ^ (w - 8)) :
    ∀ (es : Bytes) (d : BitVec w), 8 * es.length ≤ w →
      ((d = 0#w ∧ ∃ e ∈ es, e ≠ 0) ∨ d.toNat ≥ 2 ^ (8 * es.length)) →
      (crcFeed poly d es).toNat ≥ 1
  | [], d, _, h => by
    rcases h with ⟨_, e, he, _⟩ | h
    · simp at he
    · simpa [crcFeed] using h
  | e :: es, d, hl, h => by
    simp only [crcFeed, List.foldl_cons]
    have hl' : 8 * es.length + 8 ≤ w := by simpa [Nat.mul_succ] using hl
    apply diff_survives poly hw hp hC es _ (by omega)
    rcases h with ⟨rfl, x, hx, hxne⟩ | h
    · by_cases he : e = 0
      · left
        subst he
        refine ⟨by simp [crcByte_eq, zext_zero, crcBits_zero], ?_⟩
        rcases List.mem_cons.mp hx with rfl | hx'
        · exact absurd rfl hxne
        · exact ⟨x, hx', hxne⟩
      · right
        have := hC e he
        simp only [crcByte_eq, BitVec.zero_xor]
        have : 2 ^ (8 * es.length) ≤ 2 ^ (w - 8) := Nat.pow_le_pow_right (by decide) (by omega)
        omega
    · right
      rw [crcByte_eq]
      have hk : 8 * es.length + 8 ≥ 8 := by omega
      have h' : d.toNat ≥ 2 ^ (8 * es.length + 8) := by simpa [Nat.mul_succ] using h
      have hx := xor_byte_ge hw d e (8 * es.length + 8) hk h'
      exact crcBits_ge poly (by omega) hp 8 _ (8 * es.length) (by omega) hx

/-- a non-zero difference is never cancelled by equal bytes on both sides -/
theorem diff_persists (poly : BitVec w) (hw : 8 ≤ w) (hp : poly.toNat ≥ 2 ^ (w - 1)) :
    ∀ (n : Nat) (d : BitVec w), d.toNat ≥ 1 → (crcFeed poly d (List.replicate n 0)).toNat ≥ 1
  | 0, _, h => by simpa [crcFeed] using h
  | n+1, d, h => by
    simp only [crcFeed, List.replicate_succ, List.foldl_cons]
    apply diff_persists poly hw hp n
    rw [crcByte_eq, zext_zero, BitVec.xor_zero]
    exact crcBits_pos poly (by omega) hp 8 d h

theorem zipWith_xor_self (l : Bytes) : List.zipWith (· ^^^ ·) l l = List.replicate l.length (0 : UInt8) := by
  induction l with
  | nil => rfl
  | cons a l ih =>
    simp only [List.zipWith_cons_cons, List.length_cons, List.replicate_succ, ih]
    simp

theorem exists_ne_of_ne : ∀ (a b : Bytes), a.length = b.length → a ≠ b →
    ∃ e ∈ List.zipWith (· ^^^ ·) a b, e ≠ (0 : UInt8)
  | [], [], _, h => absurd rfl h
  | x :: a, y :: b, hl, h => by
    by_cases hxy : x = y
    · subst hxy
      have : a ≠ b := fun e => h (by rw [e])
      obtain ⟨e, he, hne⟩ := exists_ne_of_ne a b (by simpa using hl) this
      exact ⟨e, by simp [he], hne⟩
    · refine ⟨x ^^^ y, by simp, ?_⟩
      intro h0
      apply hxy
      have := congrArg (· ^^^ y) h0
      simpa [UInt8.xor_assoc] using this
  | [], _ :: _, hl, _ => by simp at hl
  | _ :: _, [], hl, _ => by simp at hl

/-- **window theorem**: two messages equal except inside a window of `n ≤ w/8` bytes lead to
    different CRC states (hence different checksums) -/
theorem feed_window_ne (poly : BitVec w) (hw : 8 ≤ w) (hp : poly.toNat ≥ 2 ^ (w - 1))
    (hC : ∀ e : UInt8, e ≠ 0 → (crcBits poly 8 (zext w e)).toNat ≥ 2 ^ (w - 8))
    (init : BitVec w) (pre w1 w2 suf : Bytes) (hl : w1.length = w2.length) (hn : 8 * w1.length ≤ w)
    (hne : w1 ≠ w2) :
    crcFeed poly init (pre ++ w1 ++ suf) ≠ crcFeed poly init (pre ++ w2 ++ suf) := by
  intro heq
  simp only [crcFeed_append] at heq
  have hx := crcFeed_xor poly suf suf (crcFeed poly (crcFeed poly init pre) w1) (crcFeed poly (crcFeed poly init pre) w2) rfl
  rw [heq, BitVec.xor_self, zipWith_xor_self] at hx
  have hd := crcFeed_xor poly w1 w2 (crcFeed poly init pre) (crcFeed poly init pre) hl
  rw [BitVec.xor_self] at hd
  have hsurv := diff_survives poly hw hp hC (List.zipWith (· ^^^ ·) w1 w2) 0#w
    (by simp [hl]; omega) (Or.inl ⟨rfl, exists_ne_of_ne w1 w2 hl hne⟩)
  rw [hd] at hsurv
  have := diff_persists poly hw hp suf.length _ hsurv
  rw [hx] at this
  simp at this

end Bp7
