/-
  Round-trip lemmas for the CBOR reader/writer model.
-/
import Bp7.Model.Cbor
namespace Bp7

theorem beBytes_length : ∀ k n, (beBytes k n).length = k
  | 0, _ => rfl
  | k+1, n => by simp [beBytes, beBytes_length k]

theorem beVal_beBytes : ∀ k n, n < 256 ^ k → beVal (beBytes k n) = n
  | 0, n, h => by simp at h; simp [beBytes, beVal, h]
  | k+1, n, h => by
    have hpos : 0 < 256 ^ k := Nat.pow_pos (by decide)
    have h1 : n / 256 ^ k < 256 := by
      rw [Nat.div_lt_iff_lt_mul hpos]
      rw [Nat.pow_succ] at h; omega
    have h2 : n % 256 ^ k < 256 ^ k := Nat.mod_lt _ hpos
    simp only [beBytes, beVal, beBytes_length, UInt8.toNat_ofNat']
    rw [beVal_beBytes k _ h2, Nat.mod_eq_of_lt h1]
    exact Nat.div_add_mod' n (256 ^ k)

theorem takeN_append (b rest : Bytes) (d : Nat) :
    takeN b.length ⟨b ++ rest, d⟩ = (.ok b, ⟨rest, d⟩) := by
  simp [takeN]

/-- the head a writer call denotes -/
def headOf (major n : Nat) : Head :=
  if major = 0 then .uint n else if major = 1 then .nint n else if major = 2 then .bytes n
  else if major = 3 then .text n else if major = 4 then .array n else if major = 5 then .map n
  else .tag n

theorem readHead_encHead (major n : Nat) (hm : major < 7) (hn : n < 18446744073709551616)
    (rest : Bytes) (d : Nat) :
    readHead ⟨encHead major n ++ rest, d⟩ = (.ok (headOf major n), ⟨rest, d⟩) := by
  unfold encHead
  split
  · -- n < 24
    rename_i h
    have e : (major * 32 + n) % 256 = major * 32 + n := by omega
    have h1 : (major * 32 + n) / 32 = major := by omega
    have h2 : (major * 32 + n) % 32 = n := by omega
    have h7 : ¬ major = 7 := by omega
    have : ¬ (n = 28 ∨ n = 29 ∨ n = 30) := by omega
    have h31 : ¬ n = 31 := by omega
    simp [readHead, e, h1, h2, h7, this, h31, readArg, h, headOf]
  · split
    · rename_i h0 h
      have e : (major * 32 + 24) % 256 = major * 32 + 24 := by omega
      have h1 : (major * 32 + 24) / 32 = major := by omega
      have h2 : (major * 32 + 24) % 32 = 24 := by omega
      have h7 : ¬ major = 7 := by omega
      have en : n % 256 = n := by omega
      simp [readHead, e, h1, h2, h7, readArg, takeN, beVal, en, headOf]
    · split
      · rename_i h0 h1' h
        have e : (major * 32 + 25) % 256 = major * 32 + 25 := by omega
        have h1 : (major * 32 + 25) / 32 = major := by omega
        have h2 : (major * 32 + 25) % 32 = 25 := by omega
        have h7 : ¬ major = 7 := by omega
        have hl := beBytes_length 2 n
        have hv := beVal_beBytes 2 n (by simpa using h)
        have ht := takeN_append (beBytes 2 n) rest d
        rw [hl] at ht
        simp [readHead, e, h1, h2, h7, readArg, ht, hv, headOf]
      · split
        · rename_i h0 h1' h2' h
          have e : (major * 32 + 26) % 256 = major * 32 + 26 := by omega
          have h1 : (major * 32 + 26) / 32 = major := by omega
          have h2 : (major * 32 + 26) % 32 = 26 := by omega
          have h7 : ¬ major = 7 := by omega
          have hl := beBytes_length 4 n
          have hv := beVal_beBytes 4 n (by simpa using h)
          have ht := takeN_append (beBytes 4 n) rest d
          rw [hl] at ht
          simp [readHead, e, h1, h2, h7, readArg, ht, hv, headOf]
        · have e : (major * 32 + 27) % 256 = major * 32 + 27 := by omega
          have h1 : (major * 32 + 27) / 32 = major := by omega
          have h2 : (major * 32 + 27) % 32 = 27 := by omega
          have h7 : ¬ major = 7 := by omega
          have hl := beBytes_length 8 n
          have hv := beVal_beBytes 8 n (by simpa using hn)
          have ht := takeN_append (beBytes 8 n) rest d
          rw [hl] at ht
          simp [readHead, e, h1, h2, h7, readArg, ht, hv, headOf]

end Bp7

namespace Bp7

theorem parseWith_encHead {α} (k : Head → P α) (major n fuel : Nat) (hm : major < 6)
    (hn : n < 18446744073709551616) (rest : Bytes) (d : Nat) :
    parseWith k (fuel+1) ⟨encHead major n ++ rest, d⟩ = k (headOf major n) ⟨rest, d⟩ := by
  have hm' : major = 0 ∨ major = 1 ∨ major = 2 ∨ major = 3 ∨ major = 4 ∨ major = 5 := by omega
  have hr := readHead_encHead major n (by omega) hn rest d
  simp only [parseWith, hr]
  rcases hm' with rfl | rfl | rfl | rfl | rfl | rfl <;> simp [headOf]

theorem readU64_enc (n : Nat) (hn : n < 18446744073709551616) (rest : Bytes) (d : Nat) :
    readU64 ⟨encUint n ++ rest, d⟩ = (.ok n, ⟨rest, d⟩) := by
  unfold readU64 encUint tagFuel
  rw [parseWith_encHead _ 0 n _ (by omega) hn]
  simp [headOf, kUint, hn, P.pure]

theorem readU32_enc (n : Nat) (hn : n < 4294967296) (rest : Bytes) (d : Nat) :
    readU32 ⟨encUint n ++ rest, d⟩ = (.ok n, ⟨rest, d⟩) := by
  unfold readU32 encUint tagFuel
  rw [parseWith_encHead _ 0 n _ (by omega) (by omega)]
  simp [headOf, kUint, hn, P.pure]

theorem readU8_enc (n : Nat) (hn : n < 256) (rest : Bytes) (d : Nat) :
    readU8 ⟨encUint n ++ rest, d⟩ = (.ok n, ⟨rest, d⟩) := by
  unfold readU8 encUint tagFuel
  rw [parseWith_encHead _ 0 n _ (by omega) (by omega)]
  simp [headOf, kUint, hn, P.pure]

theorem readString_enc (b : Bytes) (hl : b.length < 18446744073709551616) (hu : validUtf8 b = true)
    (rest : Bytes) (d : Nat) :
    readString ⟨encText b ++ rest, d⟩ = (.ok b, ⟨rest, d⟩) := by
  unfold readString encText tagFuel
  rw [List.append_assoc, parseWith_encHead _ 3 _ _ (by omega) hl]
  simp [headOf, kString, takeN_append, hu]

theorem readByteBuf_enc (b : Bytes) (hl : b.length < 18446744073709551616)
    (rest : Bytes) (d : Nat) :
    readByteBuf ⟨encBytes b ++ rest, d⟩ = (.ok b, ⟨rest, d⟩) := by
  unfold readByteBuf encBytes tagFuel
  rw [List.append_assoc, parseWith_encHead _ 2 _ _ (by omega) hl]
  simp [headOf, kByteBuf, takeN_append]

theorem readBool_enc (b : Bool) (rest : Bytes) (d : Nat) :
    readBool ⟨encBool b ++ rest, d⟩ = (.ok b, ⟨rest, d⟩) := by
  cases b <;> simp [readBool, encBool, tagFuel, parseWith, readHead, kBool, P.pure]

/-! ### sequences -/

theorem reqElem_succ {α} (rd : P α) (n : Nat) (s : St) :
    reqElem rd (some (n+1)) s =
      (match rd s with
       | (.ok a, s') => (.ok (a, some n), s')
       | (.err e, s') => (.err e, s')
       | (.panic p, s') => (.panic p, s')) := by
  simp only [reqElem, nextElem]
  cases h : rd s with
  | mk r s' => cases r <;> simp

theorem bind_apply {α β} (m : P α) (f : α → P β) (s : St) :
    (m >>= f) s =
      (match m s with
       | (.ok a, s') => f a s'
       | (.err e, s') => (.err e, s')
       | (.panic p, s') => (.panic p, s')) := rfl

theorem pure_apply {α} (a : α) (s : St) : (pure a : P α) s = (.ok a, s) := rfl

/-- a definite array whose visitor consumes exactly its `n` elements -/
theorem readSeq_array {α} (visit : Acc → P (α × Acc)) (n : Nat) (hn : n < 18446744073709551616)
    (body rest : Bytes) (d : Nat) (hd : 1 ≤ d) (v : α)
    (hv : visit (some n) ⟨body ++ rest, d⟩ = (.ok (v, some 0), ⟨rest, d⟩)) :
    readSeq visit ⟨encArrayHead n ++ (body ++ rest), d + 1⟩ = (.ok v, ⟨rest, d + 1⟩) := by
  unfold readSeq encArrayHead tagFuel
  rw [parseWith_encHead _ 4 n _ (by omega) hn]
  have hd0 : ¬ d = 0 := by omega
  simp [headOf, kSeq, recursionChecked, hd0, hv, seqEnd]

end Bp7
