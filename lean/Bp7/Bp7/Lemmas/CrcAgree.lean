/-
  The reflected bit-serial CRC of the model (Model/Crc.lean, the algorithm of the `crc` crate for
  refin = refout = true) computes the same function as the Rocksoft-model reference evaluated
  MSB-first with the catalogue parameters (Spec/Crc.lean): the two registers are bit reversals of
  each other after every step.
-/
import Bp7.Model.Crc
import Bp7.Spec.Crc
namespace Bp7.CrcAgreeProof
open Bp7 Bp7.Spec

theorem testBit_reflectBits : ∀ (k x i : Nat),
    (reflectBits k x).testBit i = (decide (i < k) && x.testBit (k - 1 - i)) := by
  intro k
  induction k with
  | zero => intro x i; simp [reflectBits]
  | succ k ih =>
    intro x i
    simp only [reflectBits, Nat.testBit_or, Nat.testBit_shiftLeft, ih]
    have hmod : ∀ j, (x % 2).testBit j = (decide (j = 0) && x.testBit 0) := by
      intro j
      have := Nat.testBit_mod_two_pow x 1 j
      simp only [Nat.pow_one] at this
      rw [this]
      by_cases hj : j = 0
      · subst hj; simp
      · have : ¬ j < 1 := by omega
        simp [hj, this]
    rw [hmod]
    rcases Nat.lt_trichotomy i k with h | h | h
    · have e : k + 1 - 1 - i = (k - 1 - i) + 1 := by omega
      have h1 : ¬ i ≥ k := by omega
      simp only [h1, decide_false, Bool.false_and, Bool.false_or, h, decide_true, Bool.true_and,
        (by omega : i < k + 1), e, Nat.testBit_succ]
    · subst h
      simp
    · have h1 : ¬ i < k := by omega
      have h2 : ¬ i < k + 1 := by omega
      have h3 : ¬ i - k = 0 := by omega
      simp [h1, h2, h3]

/-- the reference register is the bit reversal of the model register -/
def Rel (w : Nat) (reg : Nat) (x : BitVec w) : Prop :=
  reg < 2 ^ w ∧ ∀ i, i < w → reg.testBit i = x.getLsbD (w - 1 - i)

theorem getLsbD_crcBit {w : Nat} (poly x : BitVec w) (j : Nat) :
    (crcBit poly x).getLsbD j = (x.getLsbD (1 + j) ^^ (x.getLsbD 0 && poly.getLsbD j)) := by
  unfold crcBit
  split <;> rename_i h <;> simp [h]

theorem rel_step (w : Nat) (hw : 1 ≤ w) (p : CrcParams) (hpw : p.width = w) (polyM : BitVec w)
    (hps : p.poly < 2 ^ w) (hpoly : ∀ i, i < w → p.poly.testBit i = polyM.getLsbD (w - 1 - i))
    (reg : Nat) (x : BitVec w) (h : Rel w reg x) : Rel w (msbStep p reg) (crcBit polyM x) := by
  obtain ⟨hlt, hbits⟩ := h
  have htop : ((reg >>> (w - 1)) % 2 = 1) ↔ x.getLsbD 0 = true := by
    have h1 : reg.testBit (w - 1) = x.getLsbD 0 := by
      have := hbits (w - 1) (by omega)
      rwa [show w - 1 - (w - 1) = 0 by omega] at this
    rw [← h1, Nat.testBit_eq_decide_div_mod_eq, Nat.shiftRight_eq_div_pow]
    simp
  have hsh : ∀ i, ((reg <<< 1) % 2 ^ w).testBit i = (decide (i < w) && (decide (i ≥ 1) && reg.testBit (i - 1))) := by
    intro i; simp [Nat.testBit_mod_two_pow, Nat.testBit_shiftLeft]
  have hshlt : (reg <<< 1) % 2 ^ w < 2 ^ w := Nat.mod_lt _ (Nat.pow_pos (by omega))
  unfold msbStep
  simp only [hpw]
  refine ⟨?_, ?_⟩
  · split
    · exact Nat.xor_lt_two_pow hshlt hps
    · exact hshlt
  · intro i hi
    rw [getLsbD_crcBit]
    have hx0 : (if (reg >>> (w - 1)) % 2 = 1 then (reg <<< 1) % 2 ^ w ^^^ p.poly else (reg <<< 1) % 2 ^ w).testBit i
        = (((reg <<< 1) % 2 ^ w).testBit i ^^ (x.getLsbD 0 && p.poly.testBit i)) := by
      by_cases ht : (reg >>> (w - 1)) % 2 = 1
      · simp [ht, htop.mp ht]
      · have : x.getLsbD 0 = false := by
          cases hx : x.getLsbD 0
          · rfl
          · exact absurd (htop.mpr hx) ht
        simp [ht, this]
    rw [hx0, hsh, hpoly i hi]
    congr 1
    by_cases h0 : i = 0
    · subst h0
      have : x.getLsbD (1 + (w - 1)) = false := by
        apply BitVec.getLsbD_of_ge; omega
      simp [this]
    · have h1 : i ≥ 1 := by omega
      have := hbits (i - 1) (by omega)
      have e : w - 1 - (i - 1) = 1 + (w - 1 - i) := by omega
      simp [hi, h1, this, e]

theorem rel_steps (w : Nat) (hw : 1 ≤ w) (p : CrcParams) (hpw : p.width = w) (polyM : BitVec w)
    (hps : p.poly < 2 ^ w) (hpoly : ∀ i, i < w → p.poly.testBit i = polyM.getLsbD (w - 1 - i)) :
    ∀ (k : Nat) (reg : Nat) (x : BitVec w), Rel w reg x → Rel w (msbSteps p k reg) (crcBits polyM k x) := by
  intro k
  induction k with
  | zero => intro reg x h; exact h
  | succ k ih => intro reg x h; exact ih _ _ (rel_step w hw p hpw polyM hps hpoly reg x h)

theorem rel_xor_byte (w : Nat) (hw : 8 ≤ w) (reg : Nat) (x : BitVec w) (h : Rel w reg x) (b : UInt8) :
    Rel w (reg ^^^ (reflectBits 8 b.toNat <<< (w - 8))) (x ^^^ b.toBitVec.setWidth w) := by
  obtain ⟨hlt, hbits⟩ := h
  have hb : b.toNat < 2 ^ 8 := b.toNat_lt
  have hv : reflectBits 8 b.toNat < 2 ^ 8 := by
    apply Nat.lt_pow_two_of_testBit
    intro i hi
    rw [testBit_reflectBits]
    have : ¬ i < 8 := by omega
    simp [this]
  refine ⟨?_, ?_⟩
  · apply Nat.xor_lt_two_pow hlt
    have : reflectBits 8 b.toNat <<< (w - 8) < 2 ^ 8 * 2 ^ (w - 8) := by
      rw [Nat.shiftLeft_eq]; exact Nat.mul_lt_mul_of_pos_right hv (Nat.pow_pos (by omega))
    rwa [← Nat.pow_add, show 8 + (w - 8) = w by omega] at this
  · intro i hi
    simp only [Nat.testBit_xor, Nat.testBit_shiftLeft, testBit_reflectBits, BitVec.getLsbD_xor,
      BitVec.getLsbD_setWidth, hbits i hi]
    congr 1
    have hbv : ∀ k, b.toBitVec.getLsbD k = b.toNat.testBit k := fun k => rfl
    rw [hbv]
    have hwi : w - 1 - i < w := by omega
    by_cases hge : i ≥ w - 8
    · have h1 : i - (w - 8) < 8 := by omega
      have e : 8 - 1 - (i - (w - 8)) = w - 1 - i := by omega
      simp [hge, h1, e, hwi]
    · have : b.toNat.testBit (w - 1 - i) = false := by
        apply Nat.testBit_lt_two_pow
        calc b.toNat < 2 ^ 8 := hb
          _ ≤ 2 ^ (w - 1 - i) := Nat.pow_le_pow_right (by omega) (by omega)
      simp [hge, this]

theorem rel_feed (w : Nat) (hw : 8 ≤ w) (p : CrcParams) (hpw : p.width = w) (hrefin : p.refin = true)
    (polyM : BitVec w) (hps : p.poly < 2 ^ w)
    (hpoly : ∀ i, i < w → p.poly.testBit i = polyM.getLsbD (w - 1 - i)) :
    ∀ (data : Bytes) (reg : Nat) (x : BitVec w), Rel w reg x →
      Rel w (data.foldl (feedByte p) reg) (crcFeed polyM x data) := by
  intro data
  induction data with
  | nil => intro reg x h; exact h
  | cons b bs ih =>
    intro reg x h
    simp only [List.foldl_cons, crcFeed]
    apply ih
    unfold feedByte crcByte
    simp only [hrefin, if_true, hpw]
    exact rel_steps w (by omega) p hpw polyM hps hpoly 8 _ _ (rel_xor_byte w hw reg x h b)

theorem reflect_of_rel (w : Nat) (reg : Nat) (x : BitVec w) (h : Rel w reg x) :
    reflectBits w reg = x.toNat := by
  apply Nat.eq_of_testBit_eq
  intro i
  rw [testBit_reflectBits]
  by_cases hi : i < w
  · have := h.2 (w - 1 - i) (by omega)
    rw [show w - 1 - (w - 1 - i) = i by omega] at this
    simp [hi, this]; rfl
  · have : x.toNat.testBit i = false := by
      apply Nat.testBit_lt_two_pow
      calc x.toNat < 2 ^ w := x.isLt
        _ ≤ 2 ^ i := Nat.pow_le_pow_right (by omega) (by omega)
    simp [hi, this]

theorem crc16_agree (d : Bytes) : (Bp7.crc16 d).toNat = Spec.crc16 d := by
  have hrel : Rel 16 (d.foldl (feedByte CRC_16_IBM_SDLC) 0xffff) (crcFeed POLY16 0xFFFF#16 d) := by
    apply rel_feed 16 (by omega) CRC_16_IBM_SDLC rfl rfl POLY16 (by decide)
    · intro i hi
      have : ∀ j : Fin 16, CRC_16_IBM_SDLC.poly.testBit j.val = POLY16.getLsbD (16 - 1 - j.val) := by decide
      exact this ⟨i, hi⟩
    · refine ⟨by decide, ?_⟩
      intro i hi
      have : ∀ j : Fin 16, (0xffff : Nat).testBit j.val = (0xFFFF#16).getLsbD (16 - 1 - j.val) := by decide
      exact this ⟨i, hi⟩
  have := reflect_of_rel 16 _ _ hrel
  unfold Spec.crc16 Spec.crc Bp7.crc16
  simp only [CRC_16_IBM_SDLC] at this ⊢
  simp only [if_true, this, BitVec.toNat_xor]
  rfl

theorem crc32c_agree (d : Bytes) : (Bp7.crc32c d).toNat = Spec.crc32c d := by
  have hrel : Rel 32 (d.foldl (feedByte CRC_32_ISCSI) 0xffffffff) (crcFeed POLY32 0xFFFFFFFF#32 d) := by
    apply rel_feed 32 (by omega) CRC_32_ISCSI rfl rfl POLY32 (by decide)
    · intro i hi
      have : ∀ j : Fin 32, CRC_32_ISCSI.poly.testBit j.val = POLY32.getLsbD (32 - 1 - j.val) := by decide
      exact this ⟨i, hi⟩
    · refine ⟨by decide, ?_⟩
      intro i hi
      have : ∀ j : Fin 32, (0xffffffff : Nat).testBit j.val = (0xFFFFFFFF#32).getLsbD (32 - 1 - j.val) := by decide
      exact this ⟨i, hi⟩
  have := reflect_of_rel 32 _ _ hrel
  unfold Spec.crc32c Spec.crc Bp7.crc32c
  simp only [CRC_32_ISCSI] at this ⊢
  simp only [if_true, this, BitVec.toNat_xor]
  rfl

end Bp7.CrcAgreeProof
