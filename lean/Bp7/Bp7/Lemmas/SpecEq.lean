/-
  The model's writer (Model/Cbor.lean, Model/Codec.lean) and the independent RFC reference
  (Spec/Cbor.lean, Spec/Rfc9171.lean) produce the same bytes.
-/
import Bp7.Model.Codec
import Bp7.Lemmas.Cbor
import Bp7.Lemmas.Codec
import Bp7.Lemmas.Flags
import Bp7.Spec.Rfc9171
namespace Bp7

theorem ib_eq (m a : Nat) (hm : m < 8) (ha : a < 32) : m <<< 5 ||| a = m * 32 + a := by
  have key : ∀ m : Fin 8, ∀ a : Fin 32, m.val <<< 5 ||| a.val = m.val * 32 + a.val := by decide
  exact key ⟨m, hm⟩ ⟨a, ha⟩

theorem pow256 (k : Nat) : 2 ^ (8 * k) = 256 ^ k := by
  rw [Nat.pow_mul]

/-- the low `k` bytes only depend on the value modulo 256^j for j ≥ k -/
theorem bigEndian_mod : ∀ (k j n : Nat), k ≤ j → Spec.bigEndian k (n % 256 ^ j) = Spec.bigEndian k n
  | 0, _, _, _ => rfl
  | k+1, j, n, h => by
    simp only [Spec.bigEndian]
    rw [bigEndian_mod k j n (by omega)]
    congr 2
    simp only [Nat.shiftRight_eq_div_pow, pow256]
    obtain ⟨d, rfl⟩ : ∃ d, j = k + 1 + d := ⟨j - (k + 1), by omega⟩
    have e : 256 ^ (k + 1 + d) = 256 ^ k * (256 * 256 ^ d) := by
      rw [Nat.pow_add, Nat.pow_succ]; simp [Nat.mul_assoc]
    rw [e, Nat.mod_mul_right_div_self]
    exact Nat.mod_mul_right_mod _ _ _

theorem beBytes_eq_bigEndian : ∀ (k n : Nat), n < 256 ^ k → beBytes k n = Spec.bigEndian k n
  | 0, _, _ => rfl
  | k+1, n, h => by
    have hpos : 0 < 256 ^ k := Nat.pow_pos (by decide)
    have h1 : n / 256 ^ k < 256 := by
      rw [Nat.div_lt_iff_lt_mul hpos]; rw [Nat.pow_succ] at h; omega
    simp only [beBytes, Spec.bigEndian]
    rw [beBytes_eq_bigEndian k _ (Nat.mod_lt _ hpos), bigEndian_mod k k n (Nat.le_refl _)]
    congr 2
    simp only [Nat.shiftRight_eq_div_pow, pow256]
    exact (Nat.mod_eq_of_lt h1).symm

theorem encHead_eq_spec (major n : Nat) (hm : major < 8) (hn : n < 18446744073709551616) :
    encHead major n = Spec.head major n := by
  unfold encHead Spec.head
  by_cases h1 : n < 24
  · have : n ≤ 23 := by omega
    simp [h1, this, ib_eq major n hm (by omega)]
  · by_cases h2 : n < 256
    · have a1 : ¬ n ≤ 23 := by omega
      have a2 : n ≤ 0xff := by omega
      simp only [h1, h2, a1, a2, if_true, if_false, ib_eq major 24 hm (by omega)]
      rw [← beBytes_eq_bigEndian 1 n (by simpa using h2)]
      simp [beBytes]
    · by_cases h3 : n < 65536
      · have a1 : ¬ n ≤ 23 := by omega
        have a2 : ¬ n ≤ 0xff := by omega
        have a3 : n ≤ 0xffff := by omega
        simp only [h1, h2, h3, a1, a2, a3, if_true, if_false, ib_eq major 25 hm (by omega)]
        rw [beBytes_eq_bigEndian 2 n (by simpa using h3)]
      · by_cases h4 : n < 4294967296
        · have a1 : ¬ n ≤ 23 := by omega
          have a2 : ¬ n ≤ 0xff := by omega
          have a3 : ¬ n ≤ 0xffff := by omega
          have a4 : n ≤ 0xffffffff := by omega
          simp only [h1, h2, h3, h4, a1, a2, a3, a4, if_true, if_false, ib_eq major 26 hm (by omega)]
          rw [beBytes_eq_bigEndian 4 n (by simpa using h4)]
        · have a1 : ¬ n ≤ 23 := by omega
          have a2 : ¬ n ≤ 0xff := by omega
          have a3 : ¬ n ≤ 0xffff := by omega
          have a4 : ¬ n ≤ 0xffffffff := by omega
          simp only [h1, h2, h3, h4, a1, a2, a3, a4, if_false, ib_eq major 27 hm (by omega)]
          rw [beBytes_eq_bigEndian 8 n (by simpa using hn)]

end Bp7

namespace Bp7
open Spec

theorem encUint_eq (n : Nat) (hn : n < 18446744073709551616) : encUint n = encItem (.uint n) := by
  simp [encUint, encItem, encHead_eq_spec 0 n (by omega) hn]

theorem encBytes_eq (b : Bytes) (hl : b.length < 18446744073709551616) : encBytes b = encItem (.bstr b) := by
  simp [encBytes, encItem, encHead_eq_spec 2 _ (by omega) hl]

theorem encText_eq (b : Bytes) (hl : b.length < 18446744073709551616) : encText b = encItem (.tstr b) := by
  simp [encText, encItem, encHead_eq_spec 3 _ (by omega) hl]

theorem encArrayHead_eq (n : Nat) (hn : n < 18446744073709551616) : encArrayHead n = head 4 n := by
  simp [encArrayHead, encHead_eq_spec 4 n (by omega) hn]

/-- numeric fields within the CBOR argument range -/
def Eid.bounded : Eid → Prop
  | .null c v => c < U64 ∧ v < U64
  | .dtn c ssp => c < U64 ∧ ssp.length < U64
  | .ipn c n s => c < U64 ∧ n < U64 ∧ s < U64

theorem encEid_eq (e : Eid) (h : Eid.bounded e) : encEid e = encItem (eidItem e) := by
  cases e with
  | null c v =>
    obtain ⟨hc, hv⟩ := h
    simp [encEid, eidItem, encItem, encItems, encArrayHead_eq, encUint_eq c hc, encUint_eq v hv]
  | dtn c ssp =>
    obtain ⟨hc, hl⟩ := h
    simp [encEid, eidItem, encItem, encItems, encArrayHead_eq, encUint_eq c hc, encText, encHead_eq_spec 3 _ (by omega) hl]
  | ipn c n s =>
    obtain ⟨hc, hn, hs⟩ := h
    simp [encEid, eidItem, encItem, encItems, encArrayHead_eq, encUint_eq c hc, encUint_eq n hn, encUint_eq s hs]

theorem Eid.bounded_of_wf (e : Eid) (h : e.wf = true) : Eid.bounded e := by
  cases e with
  | null c v => simp only [Eid.wf, Bool.and_eq_true, beq_iff_eq] at h; obtain ⟨rfl, rfl⟩ := h; exact ⟨by decide, by decide⟩
  | dtn c ssp =>
    simp only [Eid.wf, Bool.and_eq_true, beq_iff_eq] at h
    obtain ⟨⟨⟨rfl, _⟩, _⟩, hl⟩ := h
    exact ⟨by decide, of_decide_eq_true hl⟩
  | ipn c n s =>
    simp only [Eid.wf, Bool.and_eq_true, beq_iff_eq, decide_eq_true_eq] at h
    obtain ⟨⟨⟨rfl, _⟩, hn⟩, hs⟩ := h
    exact ⟨by decide, hn, hs⟩

/-- the CRC item(s) the model writes for a stored CRC value -/
def crcItems (c : CrcVal) : List Item :=
  match c.bytes with
  | some b => [.bstr b]
  | none => []

theorem encItems_append (a b : List Item) : encItems (a ++ b) = encItems a ++ encItems b := by
  induction a with
  | nil => rfl
  | cons x xs ih => simp [encItems, ih]

theorem encCrcField_eq (c : CrcVal) : encCrcField c = encItems (crcItems c) := by
  cases c <;> simp [encCrcField, crcItems, CrcVal.bytes, encItems, encBytes_eq]

theorem crcItems_length (c : CrcVal) : (crcItems c).length = crcFieldCount c := by
  cases c <;> simp [crcItems, crcFieldCount, CrcVal.bytes]

theorem isFragment_testBit (p : Primary) : p.isFragment = p.flags.testBit 0 :=
  flagsContain_bit F_ALL p.flags 0 (by decide)

theorem spec_isFragment (p : Primary) : Spec.isFragment p = p.isFragment := by
  rw [isFragment_testBit]
  unfold Spec.isFragment
  simp only [Nat.testBit, Nat.shiftRight_zero, Nat.and_one_is_mod]
  by_cases hp : p.flags % 2 = 1
  · simp [hp]
  · have : p.flags % 2 = 0 := by omega
    simp [this]

theorem crcType_eq (c : CrcVal) : Spec.crcType c = c.toCode := by cases c <;> rfl

/-- the primary block as the model writes it = the RFC item tree with the model's CRC item -/
theorem encPrimary_eq (p : Primary) (h : p.wf = true) :
    encPrimary p = encItem (.arr (primaryFields p ++ crcItems p.crc)) := by
  simp only [Primary.wf, Bool.and_eq_true, U64_eq, U32_eq] at h
  obtain ⟨⟨⟨⟨⟨⟨⟨⟨⟨⟨⟨hver, hfl⟩, hk⟩, hdst⟩, hsrc⟩, hrpt⟩, hts⟩, hseq⟩, hlt⟩, hfo⟩, htot⟩, _⟩ := h
  have hver := of_decide_eq_true hver
  have hfl := of_decide_eq_true hfl
  have hts := of_decide_eq_true hts
  have hseq := of_decide_eq_true hseq
  have hlt := of_decide_eq_true hlt
  have hfo := of_decide_eq_true hfo
  have htot := of_decide_eq_true htot
  have hcode : p.crc.toCode < 18446744073709551616 := by
    cases hc : p.crc <;> simp [hc, CrcVal.known] at hk <;> simp [CrcVal.toCode]
  have hcnt := crcFieldCount_le p.crc
  have e1 := encEid_eq p.dst (Eid.bounded_of_wf _ hdst)
  have e2 := encEid_eq p.src (Eid.bounded_of_wf _ hsrc)
  have e3 := encEid_eq p.rpt (Eid.bounded_of_wf _ hrpt)
  unfold encPrimary primaryFields
  rw [spec_isFragment, crcType_eq]
  cases hf : p.isFragment
  · simp only [Bool.false_eq_true, if_false, List.append_nil, Nat.add_zero, encItem, List.length_append,
      List.length_cons, List.length_nil, crcItems_length, encItems_append, encItems, encCrcField_eq,
      e1, e2, e3, encUint_eq _ (by omega : p.version < 18446744073709551616), encUint_eq _ hfl, encUint_eq _ hcode,
      encUint_eq _ hts, encUint_eq _ hseq, encUint_eq _ hlt, List.append_assoc, List.nil_append]
    rw [encArrayHead_eq _ (by omega), encArrayHead_eq 2 (by omega)]
  · simp only [if_true, encItem, List.length_append,
      List.length_cons, List.length_nil, crcItems_length, encItems_append, encItems, encCrcField_eq,
      e1, e2, e3, encUint_eq _ (by omega : p.version < 18446744073709551616), encUint_eq _ hfl, encUint_eq _ hcode,
      encUint_eq _ hts, encUint_eq _ hseq, encUint_eq _ hlt, encUint_eq _ hfo, encUint_eq _ htot,
      List.append_assoc, List.nil_append, List.cons_append]
    rw [encArrayHead_eq _ (by omega), encArrayHead_eq 2 (by omega)]
    have : 8 + 2 + crcFieldCount p.crc = crcFieldCount p.crc + 1 + 1 + 1 + 1 + 1 + 1 + 1 + 1 + 1 + 1 := by omega
    simp [List.append_assoc, this]

end Bp7

namespace Bp7
open Spec

theorem btsd_eq (c : Canon) (h : c.wf = true) : btsd c.data = btsdBytes c.data := by
  simp only [Canon.wf, Bool.and_eq_true] at h
  obtain ⟨_, hd⟩ := h
  cases hdat : c.data with
  | data b => rfl
  | unknown b => rfl
  | age ms =>
    simp only [hdat, Bool.and_eq_true] at hd
    have := of_decide_eq_true hd.2
    simp [btsd, btsdBytes, encCData, encUint_eq ms this]
  | hop l n =>
    simp only [hdat, Bool.and_eq_true] at hd
    have hl := of_decide_eq_true hd.1.2
    have hn := of_decide_eq_true hd.2
    simp [btsd, btsdBytes, encCData, encItem, encItems, encArrayHead_eq, encUint_eq l (by omega), encUint_eq n (by omega)]
  | prev e =>
    simp only [hdat, Bool.and_eq_true] at hd
    simp [btsd, btsdBytes, encCData, encEid_eq e (Eid.bounded_of_wf _ hd.2)]
  | decErr => simp [hdat] at hd

theorem encCanon_eq (c : Canon) (h : c.wf = true) :
    encCanon c = encItem (.arr (canonFields c ++ crcItems c.crc)) := by
  have hb := btsd_eq c h
  have hbl := btsd_length c h
  simp only [Canon.wf, Bool.and_eq_true, U64_eq] at h
  obtain ⟨⟨⟨⟨⟨ht, hn⟩, hf⟩, hk⟩, _⟩, _⟩ := h
  have ht := of_decide_eq_true ht
  have hn := of_decide_eq_true hn
  have hf := of_decide_eq_true hf
  have hcode : c.crc.toCode < 18446744073709551616 := by
    cases hc : c.crc <;> simp [hc, CrcVal.known] at hk <;> simp [CrcVal.toCode]
  have hcnt := crcFieldCount_le c.crc
  unfold encCanon canonFields
  rw [crcType_eq, ← hb]
  simp only [encItem, List.length_append, List.length_cons, List.length_nil, crcItems_length,
    encItems_append, encItems, encCrcField_eq, encUint_eq _ ht, encUint_eq _ hn,
    encUint_eq _ (by omega : c.flags < 18446744073709551616), encUint_eq _ hcode, encBytes_eq _ hbl,
    List.append_assoc, List.nil_append, List.cons_append]
  rw [encArrayHead_eq _ (by omega)]
  have : 5 + crcFieldCount c.crc = crcFieldCount c.crc + 1 + 1 + 1 + 1 + 1 := by omega
  simp [List.append_assoc, this]

/-- agreement of the reflected bit-serial CRC (model of the `crc` crate) with the
    catalogue-parameter reference: established by correspondence and check values, see C04 -/
def CrcAgree : Prop :=
  (∀ d : Bytes, (crc16 d).toNat = Spec.crc16 d) ∧ (∀ d : Bytes, (crc32c d).toNat = Spec.crc32c d)

theorem be16_bytes (x : BitVec 16) : (be16 x).bytes = some (bigEndian 2 x.toNat) := by
  have hx : x.toNat < 65536 := x.isLt
  simp only [be16, CrcVal.bytes, bigEndian, Nat.shiftRight_eq_div_pow, Option.some.injEq, List.cons.injEq, and_true]
  refine ⟨?_, ?_⟩
  · congr 1; simp; omega
  · simp

theorem be32_bytes (x : BitVec 32) : (be32 x).bytes = some (bigEndian 4 x.toNat) := by
  have hx : x.toNat < 4294967296 := x.isLt
  simp only [be32, CrcVal.bytes, bigEndian, Nat.shiftRight_eq_div_pow, Option.some.injEq, List.cons.injEq, and_true]
  refine ⟨?_, ?_, ?_, ?_⟩
  · congr 1; simp; omega
  · congr 1; simp
  · congr 1; simp
  · simp

theorem zeros2 : zeros 2 = [0, 0] := rfl
theorem zeros4 : zeros 4 = [0, 0, 0, 0] := rfl

end Bp7

namespace Bp7
open Spec

theorem crcItems_be16 (x : BitVec 16) : crcItems (be16 x) = [.bstr (bigEndian 2 x.toNat)] := by
  simp [crcItems, be16_bytes]
theorem crcItems_be32 (x : BitVec 32) : crcItems (be32 x) = [.bstr (bigEndian 4 x.toNat)] := by
  simp [crcItems, be32_bytes]

theorem crcItems_calc {β} (enc : β → Bytes) (getc : β → CrcVal) (setc : β → CrcVal → β) (b : β)
    (fs : List Item) (hag : CrcAgree) (hk : (getc b).known = true)
    (henc : enc (setc b (getc b).reset) = encItem (.arr (fs ++ crcItems (getc b).reset))) :
    crcItems (calcCrc enc getc setc b) = crcItem fs (crcType (getc b)) := by
  unfold calcCrc
  cases hc : getc b <;> simp [hc, CrcVal.known] at hk
  · simp [CrcVal.toCode, crcType, crcItem, crcItems, CrcVal.bytes]
  · have he : enc (setc b CrcVal.empty16) = encItem (.arr (fs ++ [.bstr (zeros 2)])) := by
      simpa [hc, CrcVal.reset, crcItems, CrcVal.bytes, zeros2] using henc
    simp only [CrcVal.toCode, CrcVal.reset, crcType, crcItem, if_true, he]
    simp only [show ¬ (1 : Nat) = 0 by decide, if_false]
    rw [crcItems_be16, hag.1]
  · have he : enc (setc b CrcVal.empty32) = encItem (.arr (fs ++ [.bstr (zeros 4)])) := by
      simpa [hc, CrcVal.reset, crcItems, CrcVal.bytes, zeros4] using henc
    simp only [CrcVal.toCode, CrcVal.reset, crcType, crcItem, he]
    simp only [show ¬ (2 : Nat) = 1 by decide, show ¬ (2 : Nat) = 0 by decide, if_false, if_true]
    rw [crcItems_be32, hag.2]
  · have he : enc (setc b CrcVal.empty16) = encItem (.arr (fs ++ [.bstr (zeros 2)])) := by
      simpa [hc, CrcVal.reset, crcItems, CrcVal.bytes, zeros2] using henc
    simp only [CrcVal.toCode, CrcVal.reset, crcType, crcItem, if_true, he]
    simp only [show ¬ (1 : Nat) = 0 by decide, if_false]
    rw [crcItems_be16, hag.1]
  · have he : enc (setc b CrcVal.empty32) = encItem (.arr (fs ++ [.bstr (zeros 4)])) := by
      simpa [hc, CrcVal.reset, crcItems, CrcVal.bytes, zeros4] using henc
    simp only [CrcVal.toCode, CrcVal.reset, crcType, crcItem, he]
    simp only [show ¬ (2 : Nat) = 1 by decide, show ¬ (2 : Nat) = 0 by decide, if_false, if_true]
    rw [crcItems_be32, hag.2]

theorem primaryFields_crc (p : Primary) (c : CrcVal) (h : c.toCode = p.crc.toCode) :
    primaryFields { p with crc := c } = primaryFields p := by
  simp [primaryFields, Spec.isFragment, crcType_eq, h]

theorem canonFields_crc (x : Canon) (c : CrcVal) (h : c.toCode = x.crc.toCode) :
    canonFields { x with crc := c } = canonFields x := by
  simp [canonFields, crcType_eq, h]

theorem reset_toCode (c : CrcVal) : c.reset.toCode = c.toCode := by cases c <;> rfl
theorem reset_known (c : CrcVal) (h : c.known = true) : c.reset.known = true := by cases c <;> simp_all [CrcVal.reset, CrcVal.known]

theorem primary_wf_crc (p : Primary) (c : CrcVal) (h : p.wf = true) (hc : c.known = true) :
    ({ p with crc := c } : Primary).wf = true := by
  simp only [Primary.wf, Primary.isFragment, Bool.and_eq_true] at h ⊢
  simp_all

theorem canon_wf_crc (x : Canon) (c : CrcVal) (h : x.wf = true) (hc : c.known = true) :
    ({ x with crc := c } : Canon).wf = true := by
  simp only [Canon.wf, Bool.and_eq_true] at h ⊢
  simp_all

theorem encPrimary_updated (hag : CrcAgree) (p : Primary) (h : p.wf = true) :
    encPrimary p.updateCrc = encItem (primaryItem p) := by
  have hk : p.crc.known = true := by
    simp only [Primary.wf, Bool.and_eq_true] at h; exact h.1.1.1.1.1.1.1.1.1.2
  have hwf' := (Primary.updateCrc_wf p h).1
  rw [encPrimary_eq _ hwf']
  have hcode0 : p.calcCrc.toCode = p.crc.toCode := calcCrc_toCode _ _ _ p
  have hf : primaryFields p.updateCrc = primaryFields p := primaryFields_crc p _ hcode0
  rw [hf]
  have hz := encPrimary_eq { p with crc := p.crc.reset } (primary_wf_crc p _ h (reset_known _ hk))
  rw [primaryFields_crc p _ (reset_toCode _)] at hz
  have hci : crcItems p.calcCrc = crcItem (primaryFields p) (crcType p.crc) :=
    crcItems_calc encPrimary (·.crc) (fun p c => { p with crc := c }) p (primaryFields p) hag hk hz
  have hu : p.updateCrc.crc = p.calcCrc := rfl
  rw [hu, hci]
  rfl

theorem encCanon_updated (hag : CrcAgree) (c : Canon) (h : c.wf = true) :
    encCanon c.updateCrc = encItem (canonItem c) := by
  have hk : c.crc.known = true := by
    simp only [Canon.wf, Bool.and_eq_true] at h; exact h.1.1.2
  have hwf' := (Canon.updateCrc_wf c h).1
  rw [encCanon_eq _ hwf']
  have hcode0 : c.calcCrc.toCode = c.crc.toCode := calcCrc_toCode _ _ _ c
  have hf : canonFields c.updateCrc = canonFields c := canonFields_crc c _ hcode0
  rw [hf]
  have hz := encCanon_eq { c with crc := c.crc.reset } (canon_wf_crc c _ h (reset_known _ hk))
  rw [canonFields_crc c _ (reset_toCode _)] at hz
  have hci : crcItems c.calcCrc = crcItem (canonFields c) (crcType c.crc) :=
    crcItems_calc encCanon (·.crc) (fun b c => { b with crc := c }) c (canonFields c) hag hk hz
  have hu : c.updateCrc.crc = c.calcCrc := rfl
  rw [hu, hci]
  rfl

theorem encItems_map (cs : List Canon) (f : Canon → Bytes) (g : Canon → Item)
    (h : ∀ c ∈ cs, f c = encItem (g c)) : (cs.map f).flatten = encItems (cs.map g) := by
  induction cs with
  | nil => rfl
  | cons c cs ih =>
    simp [encItems, h c (by simp), ih (fun x hx => h x (by simp [hx]))]

/-- model encoder = RFC reference encoder, given agreement of the two CRC definitions -/
theorem toCbor_eq_spec (hag : CrcAgree) (b : Bundle) (h : b.wf = true) :
    (b.toCbor).2 = Spec.encode b := by
  simp only [Bundle.wf, Bool.and_eq_true, List.all_eq_true] at h
  unfold Bundle.toCbor Spec.encode bundleItem
  simp only [encItem, encItems, encBlocks, Bundle.calculateCrc, List.map_map,
    encPrimary_updated hag b.primary h.1]
  rw [encItems_map b.canon (encCanon ∘ Canon.updateCrc) canonItem
    (fun c hc => encCanon_updated hag c (h.2 c hc))]

end Bp7
