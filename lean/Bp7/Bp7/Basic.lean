def hello := "world"
