import Bp7.Model.Basic
import Bp7.Model.Hex
