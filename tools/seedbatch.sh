#!/bin/sh
# tools/seedbatch.sh <listfile>: each line "<worktree> <i> <seed-name> <PROP> [<PROP> ...]".
# Meant for `vp run`: builds this (snapshot) copy of /verif, runs tools/seedtest.py per line, and
# copies every confirmed seed directory to /verif/seeded/ (absolute) so that it can be committed.
cd "$(dirname "$0")/.."
./setup.sh > .build-setup.log 2>&1 || { tail -20 .build-setup.log; exit 2; }
while read -r line; do
  [ -z "$line" ] && continue
  set -- $line
  python3 tools/seedtest.py "$@" > .seed.out 2>&1
  python3 - "$3" <<'PY'
import json, sys, re
t = open('.seed.out').read()
m = re.search(r'\{\n "seed".*', t, flags=re.S)
try:
    r = json.loads(m.group(0)); print(r['seed'], 'confirmed=%s' % r['confirmed'], {k: (v['rc'], v['line'][-60:]) for k, v in r['results'].items()})
except Exception as e:
    print(sys.argv[1], 'UNPARSED', t[-600:])
PY
  [ -d "seeded/$3" ] && mkdir -p /verif/seeded && rm -rf "/verif/seeded/$3" && cp -r "seeded/$3" "/verif/seeded/$3"
done < "$1"
git -C /repo status --short
