#!/bin/sh
# Support tool (not a registered check): which lines of /repo/src do the correspondence runs execute?
# Builds the harness with source-based coverage (nightly toolchain, llvm-tools), runs the quick-tier
# generator of every in-process property, and lists the lines of /repo/src that were never executed.
# Used to find generator gaps (DESIGN.md §11.8). Scratch output goes to $1 (default /tmp/bp7cov).
set -e
OUT=${1:-/tmp/bp7cov}
ROOT=$(cd "$(dirname "$0")/.." && pwd)
LT=$(rustc +nightly --print sysroot)/lib/rustlib/x86_64-unknown-linux-gnu/bin
mkdir -p "$OUT/prof"
(cd "$ROOT/harness" && LLVM_PROFILE_FILE="$OUT/prof/build-%p.profraw" RUSTFLAGS="--cfg bp7_verif -C instrument-coverage" CARGO_NET_OFFLINE=true CARGO_TARGET_DIR="$OUT/target" cargo +nightly build --offline 2>&1 | tail -1)
rm -f "$OUT"/prof/*.profraw
for id in C01 C02 C03 C04 C05 C06 C07 C08 C09 C10 C11 C12 C13 C14 C15 C16 C17 C18 C19; do
  LLVM_PROFILE_FILE="$OUT/prof/$id-%p.profraw" "$OUT/target/debug/bp7h" $id --tier quick --seed 1 \
    --model "$ROOT/lean/Bp7/.lake/build/bin/bp7model" --out "$OUT/prof/$id.json" >/dev/null 2>&1 || echo "$id: harness exit $?"
done
"$LT/llvm-profdata" merge -sparse "$OUT"/prof/*.profraw -o "$OUT/all.profdata"
"$LT/llvm-cov" report "$OUT/target/debug/bp7h" -instr-profile="$OUT/all.profdata" --ignore-filename-regex='(registry|harness|rustc|rustup)'
for f in /repo/src/*.rs; do
  echo "=== never executed in $f"
  "$LT/llvm-cov" show "$OUT/target/debug/bp7h" -instr-profile="$OUT/all.profdata" "$f" --show-line-counts-or-regions=false 2>/dev/null \
    | grep -E "^\s+[0-9]+\|\s+0\|" | grep -v "^\s*[0-9]*|\s*0|\s*[})\]; ]*$" || true
done
