#!/bin/sh
# Re-run every claimed check (quick tier) on the current tree so that evidence/ is fresh.
cd "$(dirname "$0")/.."
rm -rf replays
for id in $(python3 -c "import json; print(' '.join(c['property_id'] for c in json.load(open('MANIFEST.json'))['checks']))"); do
  ./check $id --tier quick | tail -1
done
python3-vt - <<'PY'
import json, jsonschema, glob
sch = json.load(open('/root/.vp/EVIDENCE.schema.json'))
for f in sorted(glob.glob('evidence/*.json')):
    e = json.load(open(f)); jsonschema.validate(e, sch)
    c = e['coverage']
    assert c['obligations'] == c['discharged'] and e['violations'] == 0, f
jsonschema.validate(json.load(open('MANIFEST.json')), json.load(open('/root/.vp/MANIFEST.schema.json')))
print('evidence + manifest valid')
PY
