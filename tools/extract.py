#!/usr/bin/env python3
"""
Regenerates lean/Bp7/Bp7/Extracted.lean from /repo/src on every run: numeric constants,
operator/format texts and element orders that the hand-written model assumes.
Each fact is `Option`: `none` when the source no longer has the shape the extractor knows.
Bp7/ExtractedOk/<ID>.lean states, per property, `Extracted.x = some <what the model uses>`.
"""
import re, os, sys

REPO = os.environ.get("BP7_REPO", "/repo")
OUT = os.path.join(os.path.dirname(os.path.abspath(__file__)), "..", "lean", "Bp7", "Bp7", "Extracted.lean")


def src(name):
    try:
        return open(os.path.join(REPO, "src", name)).read()
    except OSError:
        return ""


def strip_comments(s):
    s = re.sub(r"/\*.*?\*/", "", s, flags=re.S)
    s = re.sub(r"(^|(?<=\s))//[^\n]*", "", s, flags=re.M)
    return s


def fn_body(text, name, prefix=""):
    """Text of `fn name(...) ... { body }` (brace matched), comments stripped, whitespace collapsed."""
    m = re.search(prefix + r"\bfn\s+" + re.escape(name) + r"\b(?:\[[^\]]*\]|[^;{])*\{", text)
    if not m:
        return None
    i = m.end() - 1
    depth, j = 0, i
    while j < len(text):
        if text[j] == "{":
            depth += 1
        elif text[j] == "}":
            depth -= 1
            if depth == 0:
                break
        j += 1
    body = strip_comments(text[i:j + 1])
    return re.sub(r"\s+", " ", body).strip()


def num(s):
    s = s.replace("_", "")
    return int(s, 16) if s.lower().startswith("0x") else int(s)


facts = []  # (name, kind, value or None)


def nat(name, text, regex):
    m = re.search(regex, text, flags=re.S)
    facts.append((name, "nat", num(m.group(1)) if m else None))


def txt(name, value):
    facts.append((name, "str", value))


def lean_str(s):
    return '"' + s.replace("\\", "\\\\").replace('"', '\\"') + '"'


def main():
    helpers = src("helpers.rs")
    # ---- C18
    hb = fn_body(helpers, "hexify")
    ub = fn_body(helpers, "unhexify")
    m = re.search(r'write!\(\s*\w+\s*,\s*"([^"]*)"', hb or "")
    txt("hexify_format", m.group(1) if m else None)
    nat("unhexify_step", ub or "", r"step_by\((\d+)\)")
    nat("unhexify_radix", ub or "", r"from_str_radix\(\s*&s\[[^\]]*\]\s*,\s*(\d+)\s*\)")
    nat("unhexify_slice_width", ub or "", r"&s\[i\s*\.\.\s*i\s*\+\s*(\d+)\]")
    # ---- codec: element order of the hand-written Serialize impls, constants
    def ser_elems(text, ty):
        m = re.search(r"impl Serialize for " + ty + r"\b", text)
        if not m:
            return None
        body = fn_body(text[m.end():], "serialize")
        if body is None:
            return None
        return "|".join(re.sub(r"\s+", "", a) for a in re.findall(r"serialize_element\(\s*&(.*?)\)\?", body))
    def de_fields(text, visitor):
        m = re.search(r"impl<'de> Visitor<'de> for " + visitor + r"\b", text)
        if not m:
            return None
        body = fn_body(text[m.end():], "visit_seq")
        if body is None:
            return None
        return "|".join(re.findall(r"let (?:mut )?(\w+)(?:\s*:\s*[\w:<>\(\), ]+)?\s*=\s*(?:if |seq\b)", body))
    primary = src("primary.rs"); canonical = src("canonical.rs"); bundle = src("bundle.rs"); eid = src("eid.rs")
    crc = src("crc.rs"); dtntime = src("dtntime.rs"); flags = src("flags.rs")
    txt("ser_primary", ser_elems(primary, "PrimaryBlock"))
    txt("ser_canonical", ser_elems(canonical, "CanonicalBlock"))
    txt("ser_eid", ser_elems(eid, "EndpointID"))
    txt("de_primary", de_fields(primary, "PrimaryBlockVisitor"))
    txt("de_canonical", de_fields(canonical, "CanonicalBlockVisitor"))
    tc = fn_body(bundle, "to_cbor")
    nat("tocbor_start", tc or "", r"vec!\[(0x[0-9a-fA-F]+)\]")
    nat("tocbor_break", tc or "", r"push\((0x[0-9a-fA-F]+)\)")
    nat("dtn_version", bundle, r"pub const DTN_VERSION: u32 = (\d+);")
    for nm in ["PAYLOAD_BLOCK", "PREVIOUS_NODE_BLOCK", "BUNDLE_AGE_BLOCK", "HOP_COUNT_BLOCK"]:
        nat(nm.lower(), canonical, r"pub const " + nm + r": CanonicalBlockType = (\d+);")
    for nm in ["CRC_NO", "CRC_16", "CRC_32"]:
        nat(nm.lower(), crc, r"pub const " + nm + r": CrcRawType = (\d+);")
    m = re.search(r"X25: Crc<u16> = Crc::<u16>::new\(&(\w+)\)", crc)
    txt("crc16_catalogue", m.group(1) if m else None)
    m = re.search(r"CASTAGNOLI: Crc<u32> = Crc::<u32>::new\(&(\w+)\)", crc)
    txt("crc32_catalogue", m.group(1) if m else None)
    # ---- the crc / crc-catalog crates named by /repo/Cargo.lock (vendored sources in the cargo registry)
    import glob
    lock = ""
    try:
        lock = open(os.path.join(REPO, "Cargo.lock")).read()
    except OSError:
        pass
    def dep_src(crate, rel):
        m = re.search(r'name = "' + re.escape(crate) + r'"\nversion = "([^"]+)"', lock)
        if not m:
            return None, ""
        for d in glob.glob(os.path.expanduser("~/.cargo/registry/src/*/" + crate + "-" + m.group(1))):
            try:
                return m.group(1), open(os.path.join(d, rel)).read()
            except OSError:
                pass
        return m.group(1), ""
    ver, crclib = dep_src("crc", "src/lib.rs")
    m = re.search(r"type DefaultImpl = ([^;]+);", crclib)
    txt("crc_crate_default_impl", m.group(1).strip() if m else None)
    _, crc16rs = dep_src("crc", "src/crc16.rs")
    _, crc32rs = dep_src("crc", "src/crc32.rs")
    _, utilrs = dep_src("crc", "src/util.rs")
    _, tablers = dep_src("crc", "src/table.rs")
    def squash(t):
        return re.sub(r"\s+", "", t)
    for nm, t, ty in [("crc16", crc16rs, "u16"), ("crc32", crc32rs, "u32")]:
        m = re.search(r"if reflect \{\s*while i < len \{(.*?)i \+= 1;", t, flags=re.S)
        txt(nm + "_crate_update_reflect", squash(m.group(1)) if m else None)
        ub = fn_body(utilrs, nm, prefix=r"pub\(crate\) const ")
        m = re.search(r"if reflect \{(.*?)\} else", ub or "", flags=re.S)
        txt(nm + "_crate_util_reflect", squash(m.group(1)) if m else None)
        m = re.search(r"table\[0\]\[i\] = (" + nm + r"\(poly, reflect, i as " + ty + r"\));", tablers)
        txt(nm + "_crate_table_lane0", m.group(1).replace(" ", "") if m else None)
    _, cat = dep_src("crc-catalog", "src/algorithm.rs")
    for nm in ["CRC_16_IBM_SDLC", "CRC_32_ISCSI"]:
        m = re.search(r"pub const " + nm + r": Algorithm<u\d+> = Algorithm \{(.*?)\};", cat, flags=re.S)
        txt(nm.lower() + "_params", squash(m.group(1)) if m else None)
    nat("eid_scheme_dtn", eid, r"const ENDPOINT_URI_SCHEME_DTN: u8 = (\d+);")
    nat("eid_scheme_ipn", eid, r"const ENDPOINT_URI_SCHEME_IPN: u8 = (\d+);")
    for nm in ["BUNDLE_STATUS_REQUEST_DELETION", "BUNDLE_STATUS_REQUEST_DELIVERY", "BUNDLE_STATUS_REQUEST_FORWARD",
               "BUNDLE_STATUS_REQUEST_RECEPTION", "BUNDLE_REQUEST_STATUS_TIME", "BUNDLE_REQUEST_USER_APPLICATION_ACK",
               "BUNDLE_MUST_NOT_FRAGMENTED", "BUNDLE_ADMINISTRATIVE_RECORD_PAYLOAD", "BUNDLE_IS_FRAGMENT",
               "BUNDLE_CFRESERVED_FIELDS", "BLOCK_REPLICATE", "BLOCK_STATUS_REPORT", "BLOCK_DELETE_BUNDLE",
               "BLOCK_REMOVE", "BLOCK_CFRESERVED_FIELDS"]:
        nat("flag_" + nm.lower(), flags, r"const " + nm + r" = (0x[0-9a-fA-F]+);")
    nat("seconds1970_to2k", dtntime, r"pub const SECONDS1970_TO2K: u64 = ([\d_]+);")
    nat("ms1970_to2k", dtntime, r"const MS1970_TO2K: u64 = ([\d_]+);")
    # ---- C07: decisions of Bundle::validate
    vb = fn_body(bundle, "validate") or ""
    m = re.search(r"if (self\.primary\.creation_timestamp\.dtntime\(\) == 0 && [^{]*?)\{", vb)
    txt("validate_age_rule", re.sub(r"\s+", "", m.group(1)) if m else None)
    ev = fn_body(canonical, "extension_validation") or ""
    m = re.search(r"if self\.block_number != (\d+)", ev)
    facts.append(("payload_block_number_rule", "nat", num(m.group(1)) if m else None))
    # ---- C13: id formats
    idb = fn_body(bundle, "id") or ""
    txt("id_formats", "|".join(re.findall(r'format!\(\s*"([^"]*)"', idb)))
    adm = src("administrative_record.rs")
    rb = fn_body(adm, "refbundle") or ""
    txt("refbundle_formats", "|".join(re.findall(r'format!\(\s*"([^"]*)"', rb)))
    # ---- C08: the three decisions of the forwarding update
    ue = fn_body(bundle, "update_extensions") or ""
    m = re.search(r"Some\(\(hc_limit, hc_count\)\) => ([^,]*),", ue)
    txt("upd_hop_rule", re.sub(r"\s+", "", m.group(1)) if m else None)
    m = re.search(r"let ba_new = ([^;]*);", ue)
    txt("upd_age_sum", re.sub(r"\s+", "", m.group(1)) if m else None)
    m = re.search(r"if (ba_new [^{]*)\{", ue)
    txt("upd_age_rule", re.sub(r"\s+", "", m.group(1)) if m else None)
    le = fn_body(primary, "is_lifetime_exceeded") or ""
    m = re.search(r";\s*([^;{}]*<=[^;{}]*)\}\s*$", le)
    txt("upd_expiry_rule", re.sub(r"\s+", "", m.group(1)) if m else None)
    hi = fn_body(canonical, "hop_count_increase") or ""
    txt("upd_hop_increment", "saturating_add(1)" if "hc_count.saturating_add(1)" in re.sub(r"\s+", "", hi) else None)
    # ---- C15: fragment fields without a size hint
    m = re.search(r"let has_fragment_fields = match seq\.size_hint\(\) \{(.*?)\};", primary, flags=re.S)
    txt("primary_frag_rule", re.sub(r"\s+", "", m.group(1)) if m else None)
    # ---- C09: shape of CreationTimestamp::now
    nb = fn_body(dtntime, "now") or ""
    nb1 = re.sub(r"\s+", "", re.sub(r"#\[cfg\(bp7_verif\)\]\s*crate::verif_hooks::sched_point\(\d+\);", "", nb))
    txt("tsgen_now_body", nb1 if nb else None)
    # ---- C17: conversions
    ub = fn_body(dtntime, "unix") or ""
    txt("time_unix_expr", re.sub(r"\s+", "", ub.strip("{} ")) if ub else None)
    sb = fn_body(dtntime, "string") or ""
    nat("time_rfc3339_end_ms", sb, r"RFC3339_END_MS: u64 = ([\d_]+);")
    m = re.search(r"Some\(ms\) if (ms < RFC3339_END_MS)", sb)
    txt("time_string_guard", m.group(1).replace(" ", "") if m else None)
    nb2 = fn_body(dtntime, "dtn_time_now") or ""
    txt("time_now_expr", re.sub(r"\s+", "", nb2.strip("{} ")) if nb2 else None)
    # ---- C05: check_crc
    cb = fn_body(crc, "check_crc", prefix=r"pub ") or ""
    m = re.search(r"(calculate_crc\(blck\)\.bytes\(\) == blck\.crc\(\))", cb)
    txt("check_crc_compare", m.group(1).replace(" ", "") if m else None)
    cv = fn_body(bundle, "crc_valid") or ""
    txt("crc_valid_body", re.sub(r"\s+", "", cv) if cv else None)
    # ---- C06: explicit panic sites in the receive-path modules (tests and comments stripped)
    def panic_sites(name):
        t = src(name)
        i = t.find("#[cfg(test)]")
        if i >= 0:
            t = t[:i]
        t = strip_comments(t)
        return len(re.findall(r"\.unwrap\(\)|\.expect\(|panic!\(|unimplemented!\(|unreachable!\(|todo!\(", t))
    for f in ["bundle.rs", "primary.rs", "canonical.rs", "eid.rs", "crc.rs", "dtntime.rs", "administrative_record.rs", "flags.rs"]:
        facts.append(("panic_sites_" + f.replace(".rs", ""), "nat", panic_sites(f) if src(f) else None))
    # ---- C12: administrative records
    txt("ser_admin", ser_elems(adm, "AdministrativeRecord"))
    txt("ser_status_report", ser_elems(adm, "StatusReport"))
    txt("ser_status_item", ser_elems(adm, "BundleStatusItem"))
    nat("adm_report_type_code", adm, r"BUNDLE_STATUS_REPORT_TYPE_CODE: AdministrativeRecordTypeCode = (\d+);")
    nat("adm_max_status_pos", adm, r"MAX_STATUS_INFORMATION_POS: u32 = (\d+);")
    nb3 = fn_body(adm, "new_status_report_bundle") or ""
    m = re.search(r"PrimaryBlockBuilder::default\(\)(.*?)\.build\(\)", nb3, flags=re.S)
    txt("adm_report_bundle_builder", re.sub(r"\s+", "", m.group(1)) if m else None)
    # ---- C10: endpoint ID strings
    eid = src("eid.rs")
    tf = fn_body(eid, "try_from", r"impl TryFrom<&str> for EndpointID \{[^}]*?") or ""
    txt("eid_parse_body", tf)
    txt("eid_node_id_formats", "|".join(re.findall(r'format!\(\s*"([^"]*)"', fn_body(eid, "node_id") or "")))
    txt("eid_new_endpoint_formats", "|".join(re.findall(r'format!\(\s*"([^"]*)"', fn_body(eid, "new_endpoint") or "")))
    m = re.search(r"impl fmt::Display for EndpointID \{(.*?)\n\}", eid, flags=re.S)
    txt("eid_display_format", "|".join(re.findall(r'write!\(f,\s*"([^"]*)"', m.group(1))) if m else None)
    txt("eid_validate_dtn_rule", (lambda mm: re.sub(r"\s+", "", mm.group(1)) if mm else None)(re.search(r"EndpointID::Dtn\(_, addr\) => \{ if ([^{]*)\{", fn_body(eid, "validate", r"pub ") or "")))
    # ---- C11: block-list mutators (whole bodies: control flow the model mirrors)
    for fn in ["sort_canonicals", "next_canonical_block_number", "add_canonical_block", "set_payload_block", "set_payload", "set_crc"]:
        txt("mut_" + fn, fn_body(bundle, fn))
    # ---- C16: BPSec (feature bpsec)
    sec = src("security.rs")
    txt("sec_create_body", fn_body(sec, "create", r"pub "))
    ch = fn_body(sec, "compute_hmac", r"pub ") or ""
    txt("sec_compute_hmac_body", ch if ch else None)
    txt("sec_to_cbor_body", fn_body(sec, "to_cbor", r"pub "))
    txt("sec_payload_header_body", fn_body(sec, "construct_payload_header"))
    txt("sec_security_header_body", fn_body(sec, "construct_security_header"))
    txt("sec_new_integrity_block_body", fn_body(sec, "new_integrity_block", r"pub "))
    nat("sec_integrity_block_type", sec, r"INTEGRITY_BLOCK: CanonicalBlockType = (\d+);")
    nat("sec_bib_ctx_id", sec, r"BIB_HMAC_SHA2_ID: SecurityContextId = (\d+);")
    nat("sec_sha256", sec, r"HMAC_SHA_256: ShaVariantType = (\d+);")
    nat("sec_sha384", sec, r"HMAC_SHA_384: ShaVariantType = (\d+);")
    nat("sec_sha512", sec, r"HMAC_SHA_512: ShaVariantType = (\d+);")
    nat("sec_scope_primary", sec, r"INTEGRITY_PRIMARY_HEADER = (0x[0-9a-fA-F]+);")
    nat("sec_scope_target", sec, r"INTEGRITY_PAYLOAD_HEADER = (0x[0-9a-fA-F]+);")
    nat("sec_scope_security", sec, r"INTEGRITY_SECURITY_HEADER = (0x[0-9a-fA-F]+);")
    m = re.search(r"impl Serialize for BibSecurityContextParameter \{(.*?)\n\}", sec, flags=re.S)
    txt("sec_params_serialize", re.sub(r"\s+", " ", strip_comments(m.group(1))).strip() if m else None)
    # ---- C20: command-line tool
    mainrs = src("main.rs")
    for fn in ["manifest_to_primary", "generate_bundle", "encode", "encode_from_stdin", "decode", "decode_from_stdin", "buf_to_bundle"]:
        txt("cli_" + fn, fn_body(mainrs, fn))
    mb = fn_body(mainrs, "main", r'feature = "binary-build"\)\)\]\s*') or ""
    for cmd in ["rnd", "encode", "decode", "dtntime", "d2u"]:
        m = re.search(r'"' + cmd + r'" => \{(.*?)\} (?="[a-z0-9]+" => \{|_ =>)', mb, flags=re.S)
        txt("cli_cmd_" + cmd, m.group(1).strip() if m else None)
    # ---- C06/C19: whole visitor bodies of the three decoders (allocation and error behaviour lives here)
    def visitor_body(text, visitor):
        m = re.search(r"impl<'de> Visitor<'de> for " + visitor + r"\b", text)
        return fn_body(text[m.end():], "visit_seq") if m else None
    txt("de_bundle_body", visitor_body(bundle, "BundleVisitor"))
    txt("de_primary_body", visitor_body(primary, "PrimaryBlockVisitor"))
    txt("de_canonical_body", visitor_body(canonical, "CanonicalBlockVisitor"))
    txt("de_eid_body", visitor_body(eid, "EndpointIDVisitor"))
    txt("adm_refbundle_body", fn_body(adm, "refbundle", r"pub "))
    txt("bundle_id_body", fn_body(bundle, "id", r"pub "))
    # ---- emit
    lines = ["/- GENERATED by tools/extract.py from /repo/src — do not edit. -/", "namespace Bp7.Extracted", ""]
    for name, kind, v in facts:
        if kind == "nat":
            lines.append(f"def {name} : Option Nat := " + ("none" if v is None else f"some {v}"))
        else:
            lines.append(f"def {name} : Option String := " + ("none" if v is None else f"some {lean_str(v)}"))
    lines += ["", "end Bp7.Extracted", ""]
    new = "\n".join(lines)
    old = open(OUT).read() if os.path.exists(OUT) else None
    if new != old:
        with open(OUT, "w") as f:
            f.write(new)
        print("Extracted.lean updated")
    else:
        print("Extracted.lean unchanged")


if __name__ == "__main__":
    main()
