#!/usr/bin/env python3
"""Writes MANIFEST.json from the table below (kept in one place so it stays valid)."""
import json, os, subprocess
ROOT = os.path.join(os.path.dirname(os.path.abspath(__file__)), "..")
props = [json.loads(l) for l in open(os.path.join(ROOT, "properties.jsonl")) if l.strip()]

CLAIMS = {
    "C12": dict(
        text="Lean 4 theorems: admin_roundtrip — every administrative record in normal form (status report with any number of items, any reason code, any canonical source EID, timestamp, optional fragment fields; unknown record with opaque content) decodes from its encoding to an equal record, through the visitor-level decoder model with its size-hint tests; report_eq_spec / admin_eq_spec — the encoding is the RFC 9171 §6.1 layout as an independent item tree; status_bundle_spec — for every non-fragment bundle B with non-null report-to, every status position, reason code, CRC type and clock value, the generated report bundle is an administrative-record bundle to B's report-to endpoint, from the reporting node, with B's lifetime, whose payload decodes to a status report referencing B's source and creation timestamp, asserting exactly the requested item, carrying the status time iff B requested status times, the requested reason code, and whose bundle reference equals B's ID. Tie to the code: records incl. non-normal ones, 0..6 items, boundary reason codes through serde_cbor to_vec/from_slice of the real crate vs the model; new_status_report_bundle under the mock clock vs the model, with a harness-side oracle for the listed properties of the report bundle.",
        note="Validity of the report bundle (Bundle::validate succeeds) is checked by the correspondence oracle, not stated as a theorem. The sequence number of the report bundle comes from the process-wide generator (C09) and is normalised in the comparison. Trusted: Lean kernel; axioms propext, Classical.choice, Quot.sound.",
        technique="Lean 4 proof (round-trip lemmas for the record visitors, refinement to an RFC item tree, case analysis of report construction) + differential correspondence check",
        design="§6 C12"),
    "C19": dict(
        text="Lean 4 theorems, one per fault class, about the visitor-level decoder model applied to a conformant bundle's encoding with one injected fault (unbounded in every field, block count and surrounding bytes): any byte after the end (reject_trailing_bytes), missing break (reject_missing_break), primary block: CRC field absent against the CRC type, CRC field of the wrong length, an extra trailing item / CRC field against CRC type 0 (reject_primary_*), a negative integer / float / null / text / byte string / array / map / boolean in place of the version (reject_primary_version_kind, 11 item kinds), destination EID with unknown scheme code / ipn node 0 / extra item / missing scheme (reject_primary_dst_eid); canonical block: CRC field absent, CRC field of the wrong length (reject_canon_*), bad block-type-specific data for bundle age / hop count / previous node (reject_bad_btsd, enumerated items); and `accepted` shows the un-faulted encoding decodes, so the rejections are due to the fault. Tie to the code: for every generated conformant bundle (bytes from the independent reference encoder) every fault of all 16 classes of the property is injected at item level at every applicable position by an independent item scanner; the real decoder must answer with an error and agree with the model.",
        note="Fault classes of the property NOT yet covered by a theorem (correspondence only): missing mandatory item at arbitrary positions, creation-timestamp and ipn-pair arity, wrong-kind items at positions other than the version, array-kind and bstr-kind substitutions, faults in source/report-to EIDs and in EIDs inside previous-node blocks, canonical-block extra item. Trusted: Lean kernel; axioms propext, Classical.choice, Quot.sound.",
        technique="Lean 4 proof (error-propagation lemmas through the visitor model, per fault class) + exhaustive-per-bundle fault-injection correspondence",
        design="§6 C19"),
    "C06": dict(
        text="PARTIAL. Lean 4 theorem Bp7.C06.decode_no_panic: for EVERY byte string the model of Bundle::try_from(&[u8]) — a model of serde_cbor's visitor-driven parser with its u8 depth counter that is not restored on the 'recursion limit exceeded' return, and of EndpointID's visitor that swallows that error and carries on — returns a bundle or an error, never a panic: every reader is entered with a counter >= 1 (compositional Safe/Good invariant over all ~35 readers, incl. nested from_slice for block data); decode_admin_no_panic for payloads read as administrative records. The operations a receiving node performs on a decoded bundle are total functions in the model because the fixed Rust code only uses total operations there (saturating/checked/u128 arithmetic, unwrap_or) — the pinned-tree panics are kept as witnesses (dtnNodeNamePinned, unhexifyPinned, hop count 255, …) and the number of explicit panic sites per module is re-extracted and pinned on every run. Tie to the code: all byte strings of <= 2 bytes (quick) / <= 3 bytes (thorough) and structure-aware mutants (item substitution from a dictionary, truncation, duplication, deletion, type confusion, length tampering, bit flips, splices, depth probes around the 128-level limit) go through the real decoder and the model (ok/err/panic and decoded value compared); on what decodes, validate / id / payload / previous_node / crc_valid / to_cbor / update_extensions / add_canonical_block results are compared as well and ~20 further receive-path calls run under catch_unwind; in two build profiles (overflow checks on and off).",
        note="NOT exhibited by the model: actual stack overflow and allocator failure. They are bounded by construction only: recursion is bounded by serde_cbor's counter (<= 128 nested frames, which the model shares), and the decoder copies byte/text strings already present in the input; the 1 MiB cautious pre-allocation of serde for Vec<BundleStatusItem> and the 4096-byte cap of serde_bytes are not modelled (no allocation meter was built). Trusted: Lean kernel; axioms propext, Classical.choice, Quot.sound; catch_unwind reports panics faithfully; 64-bit usize.",
        technique="Lean 4 proof (compositional no-panic invariant over the decoder model) + differential fuzz-style correspondence in two build profiles",
        design="§6 C06"),
    "C05": dict(
        text="Lean 4 theorems: crc16_window / crc32c_window — for EVERY message, position and replacement pattern, two byte strings that differ only inside a window of at most 2 (CRC-16/X.25) resp. 4 (CRC-32C) consecutive bytes have different checksums; single-bit flips as the one-byte case (crc*_bitflip). Proof: the reflected bit step is GF(2)-linear (crcBit_xor) and, the polynomial having its top bit set, a non-zero difference of two runs cannot vanish within the next w/8 bytes nor afterwards (diff_survives, diff_persists), plus a 255-row table per width checked in the kernel. Block level: a block whose zeroed-CRC re-encoding differs from a verifying block's only inside such a window with the same stored CRC fails check_crc (primary_corruption_detected_16), a changed CRC value alone fails it (crc_value_change_detected), uncorrupted and CRC-less blocks pass. Tie to the code: for generated bundles with CRC-16/32 on all blocks EVERY bit position of every block is flipped, every byte-aligned window gets replacement patterns (exhaustive 2-byte patterns in thorough), CRC values are overwritten; the real decoder + crc_valid outcome class is compared with the model's, and 'valid and different' inside the alarm condition is the failure.",
        note="The bundle-level statement (decode of corrupted bytes, same block ranges, re-encoding equals received bytes) is covered by the correspondence run and by the block-level theorems, not by one bundle-level theorem; canonical-block and CRC-32 variants of the block-level theorem follow the same proof and are not all spelled out. Trusted: Lean kernel; axioms propext, Classical.choice, Quot.sound; model CRC = crc crate (correspondence).",
        technique="Lean 4 proof (GF(2) linearity + magnitude invariant of the CRC state) + exhaustive-position corruption correspondence",
        design="§6 C05"),
    "C17": dict(
        text="Lean 4 theorems: unix_eq / unix_fits (unix(t) = t/1000 + 946684800, no wrap for any u64), string_branch (RFC 3339 branch exactly up to the last ms of year 9999, plain-number branch beyond; no overflowing arithmetic on either), and the calendar: humantime's civil-from-days algorithm (copied line by line, with its truncating i64 divisions) inverts the independent proleptic-Gregorian daysFromCivil for EVERY day from 2000-01-01 on (civil_inverse_general by per-level omega lemmas for 400/100/4/1-year cycles + a 366-row month table checked in the kernel; civil_inverse_early for the 60 days with negative day count), the printed year is 2000..9999, the day exists in the month incl. 29 February only in leap years (mday_valid_*), and day number, hour, minute, second, millisecond recombine to t + 946684800000 (date_denotes, time_denotes, digit identities). Tie to the code: unix()/string()/Display/dtn_time_now of the real crate vs the model on every day boundary of years 2000, 2001, 2004, 2100, 2400, 9999 ± 1 ms, the u64 boundary set, and random times; the oracle is an independent civil-from-days (Hinnant) in the harness.",
        note="Trusted: Lean kernel; axioms propext, Classical.choice, Quot.sound; humantime 2.4's formatter is a dependency copied into the model (correspondence-checked), SystemTime/Duration arithmetic below 2^63 s. dtn_time_now with a clock before 2000 is outside the environment assumption.",
        technique="Lean 4 proof (stagewise omega lemmas for the calendar algorithm, kernel-checked month table) + differential correspondence check",
        design="§6 C17"),
    "C02": dict(
        text="Lean 4 theorems relating the model of the crate's encoder to an independently written RFC reference (own item tree, own head writer with shifts, field order from RFC 9171 §4.3.1/§4.3.2, catalogue-parameter CRC): primary_layout / canonical_layout (every block = definite array of its RFC fields in order + CRC byte string iff present — unconditional), encode_eq_spec_nocrc (whole-bundle byte equality, unconditional when no block carries a CRC), encode_eq_spec_partial (whole-bundle byte equality for every well-formed bundle GIVEN agreement of the two CRC definitions). The reference is pinned by kernel evaluation to the RFC 9173 A.1 primary/payload hex vectors and to the crate's documented golden bundle (CRC-16 0f56). Tie to the code: for every generated bundle the implementation's bytes are compared with the REFERENCE encoder's bytes through the driver (`spec.enc`), a difference being a property failure with the bundle as replay.",
        note="PARTIAL in one respect: CrcAgree (reflected bit-serial CRC = catalogue-parameter MSB-first CRC for all inputs) is a hypothesis of the whole-bundle theorem for CRC-carrying bundles; it is established by check values and by the crc16/crc32 correspondence ops, not by proof. Trusted: Lean kernel; axioms propext, Classical.choice, Quot.sound; my reading of RFC 9171/8949 in Spec/*.",
        technique="Lean 4 proof (refinement of the code-shaped writer to an RFC item-tree encoder) + byte-exact differential check against the reference",
        design="§6 C02"),
    "C03": dict(
        text="Lean 4 theorems stated from the peer's side (input bytes = reference encoder output, CRC values = the peer's): decode_spec_partial — every conformant bundle is accepted, the decoded bundle equals the encoded one in every field/EID/block/data (CRC values being those on the wire), passes crcValid and re-encodes to the received bytes, given CrcAgree; decode_spec_nocrc — the same unconditionally for CRC-less bundles; golden_decodes — the documented golden bundle taken as received bytes. Corollaries of C01 + C02 + C04. Tie to the code: the harness obtains the bytes from the Lean reference encoder through the driver, feeds THOSE bytes to the real Bundle::try_from, compares the decoded value with the reference's abstract bundle, runs crc_valid and re-encodes.",
        note="Inherits C02's hypothesis CrcAgree for CRC-carrying bundles (established by correspondence, not proof). Trusted: Lean kernel; axioms propext, Classical.choice, Quot.sound.",
        technique="Lean 4 proof (corollary of round trip + encoder refinement) + differential check on reference-encoded input",
        design="§6 C03"),
    "C14": dict(
        text="PARTIAL. Lean 4 theorems about an ownership-ledger model of src/ffi.rs (every Box::into_raw / forgotten boxed slice / CString::into_raw is an allocation, every from_raw a release): null_on_invalid (a buffer that does not decode to a valid bundle yields null and leaves the ledger untouched), ffi_ledger_balanced (after ANY call sequence, once every handle handed out has been released by its documented free function no allocation remains live — by an invariant relating the ledger to the object table, preserved by every FFI function), and the pinned frees are shown to leak (pinned_leaks). Tie to the code: the real extern \"C\" functions are called in-process on generated call sequences (valid, mutated, random, empty buffers; queries and frees in random order) under a counting global allocator; returned metadata / payload / validity / re-encoding are compared with the model and with the Rust API, and the net live allocation count after complete protocols with the model's ledger; a process abort inside an FFI call is reported with the op line being executed.",
        note="NOT covered by the model or any theorem: spatial memory safety inside ffi.rs (reads/writes outside allocations, use-after-free) — the ledger cannot express it; the harness exercises the real code but does not run under AddressSanitizer. Buffers longer than u32::MAX are outside the model. Trusted: Lean kernel; axioms propext, Quot.sound; the counting allocator.",
        technique="Lean 4 proof (ledger invariant by induction over call sequences) + in-process differential check under a counting allocator",
        design="§6 C14"),
    "C09": dict(
        text="Lean 4 theorem Bp7.C09.now_unique: in the interleaving semantics of CreationTimestamp::now (one step for the clock read, one for the critical section under the mutex), for EVERY number of threads, EVERY schedule and EVERY sequence of clock readings (same ms, later, stepped back) the returned (time, seq) pairs are pairwise distinct — by the inductive invariant 'every pair handed out is lexicographically below the shared (last, next)'; now_sequential gives consecutive numbers / restart at 0 for non-overlapping calls. The pinned two-atomics code is modelled as well and refuted by two concrete schedules (decide). Tie to the code: real OS threads are driven through the cfg(bp7_verif) scheduling point by a baton scheduler that forces the schedule of each op line (all 70 interleavings of 2 threads x 2 calls x clock patterns, random 3-thread schedules), the returned pairs are compared with the model's; the 8-line body of now() is re-extracted and pinned on every run; a free-running 16-thread stress on the real clock is reported as supporting evidence only.",
        note="Trusted: Lean kernel; axioms propext, Quot.sound; std::sync::Mutex provides mutual exclusion and sequentially consistent visibility (weak-memory behaviours are outside the model); fewer than 2^64 calls per clock value (wrapping_add); the scheduling hook sits between the clock read and the lock.",
        technique="Lean 4 proof (inductive invariant over all schedules and clock functions) + schedule-forced differential correspondence check",
        design="§6 C09"),
    "C15": dict(
        text="Lean 4 theorem Bp7.C15.json_roundtrip: for every well-formed bundle (fragment or not, every CRC type, every prior CRC state, any number of blocks) parsing the JSON value produced by to_json yields the bundle as it is after serialisation. The model runs the same visitors as the CBOR codec, driven by a sequence access without size hint (serde_json), where fix F5 lets the fragment flag decide the two fragment fields. Tie to the code: the real to_json text is compared byte for byte with the model's compact JSON text (incl. escaping of quotes, backslashes, control characters, non-ASCII names), and the real try_from(String) result with the model's.",
        note="Trusted: Lean kernel; axioms propext, Quot.sound; serde_json's text syntax (printer/parser of arrays, integers, strings) is modelled at the value-tree level and validated only by correspondence; JSON input not produced by the writer is outside the model.",
        technique="Lean 4 proof (per-visitor round-trip lemmas, induction on the block list) + differential correspondence check",
        design="§6 C15"),
    "C08": dict(
        text="Lean 4 theorems over unbounded naturals (so every u8/u64/u128 value is covered): update_false_iff — the model of update_extensions returns false iff hop count + 1 > limit, or age + residence time > lifetime (ms), or creation time ≠ 0 and creation time + lifetime ≤ now; update_true_frame — when it returns true the primary block is unchanged and the block list differs only in the present hop-count (exactly +1, no saturation/wrap), bundle-age (exactly + residence time) and previous-node block. Tie to the code: the real update_extensions under the mock clock hook vs the model on all 65 536 (limit,count) pairs and boundary-biased combinations incl. residence times up to 2^128-1; return value and whole resulting bundle compared; the oracle is a third statement of the rule in u128 arithmetic; the three comparison expressions are re-extracted from the source and re-proved equal to what the model assumes on every run.",
        note="Trusted: Lean kernel; axioms propext, Classical.choice, Quot.sound; the mock clock hook (cfg bp7_verif) returns the supplied time; Duration::as_millis floors.",
        technique="Lean 4 proof (case analysis on the three steps; search-invariance lemma for updates of other block types) + differential correspondence check",
        design="§6 C08"),
    "C10": dict(
        text="Lean 4 theorems: for every endpoint ID in the range of the parser/constructors (EidRange; parse_in_range / withDtn_range show the parser and with_dtn/with_ipn only return such values) printing then parsing returns the same value (parse_print) and CBOR encode/decode returns the same value (cbor_eid_roundtrip); dtn:none, dtn://node/service for every '/'-free node and every service, and ipn:n.s for all 1<=n<2^64, s<2^64 are accepted with node and service reported unchanged (accept_none/accept_dtn/accept_ipn); the seven rejection classes of the property are rejected for every string of the class (reject_no_colon, reject_unknown_scheme, reject_dtn_without_slashes, reject_dtn_none_host, reject_ipn_node0, reject_ipn_one_field / field count, reject_ipn_nonnumeric); node_id_parses and new_endpoint_dtn give the node-ID and sibling-endpoint clauses. Strings are byte lists; decimal printing/parsing of u64 proved inverse (parseU64_decStr). Tie to the code: try_from/Display/accessors/CBOR of the real crate vs the model on grammar-generated valid EIDs (UTF-8 names, ':' '/' '-' '%' '~', full-range u64), near-miss invalid strings and mutations; the parser body, format strings and the dtn validity rule are re-extracted and re-proved equal to what the model assumes on every run.",
        note="Trusted: Lean kernel; axioms propext, Classical.choice, Quot.sound; str::splitn/split/parse::<u64>/starts_with/contains of the Rust standard library are modelled (their model is what the correspondence check exercises); new_endpoint for ipn (trim + parse) is covered by correspondence only.",
        technique="Lean 4 proof (list-splitting lemmas, decimal print/parse inverse, case analysis of the parser) + differential correspondence check",
        design="§6 C10"),
    "C13": dict(
        text="Lean 4 theorems: the ID is a function of (printed source, time, sequence number, fragment flag, offset-if-fragment) (id_depends_only); the converse is stated in full (IdInjective), refuted by the concrete K1 witness (id_not_injective, by decide) and proved for bundles with equal source EIDs (id_injective_same_source_partial) using that decimal printing is injective and dash-free; the status-report reference equals the ID (refbundle_eq_id). Tie to the code: id()/Display of the real crate vs model on adversarial pairs; the harness oracle flags every ID collision / split: collisions between different source strings are reported as KNOWN-FINDING id-separator-ambiguity, any other as VIOLATION.",
        note="Known finding K1 (not repaired): IDs are not injective across different source strings. Trusted: Lean kernel; axioms propext, Quot.sound; model of Display/to_string for u64 and EndpointID.",
        technique="Lean 4 proof (string-splitting lemmas on '-' and decimal digits; counterexample by decide) + differential correspondence check",
        design="§6 C13"),
    "C04": dict(
        text="Lean 4 theorems: for every block, the CRC stored/emitted by encoding is be16(CRC-16/X.25) resp. be32(CRC-32C) of the block's own encoding with the CRC value reset to zeros, for CRC type 0 no CRC item exists, the bytes do not depend on prior CRC values (prior_crc_irrelevant), and decode(encode b) passes crcValid (crcValid_decode_encode), for every well-formed bundle and every prior CRC state. Model CRC and catalogue-parameter reference CRC are both pinned to the check values by kernel evaluation. Tie to the code: bundles mutated through the public mutators after a CRC computation are encoded by crate and model; an independent item scanner + bitwise CRC in the harness recomputes every CRC field on the wire; `crc16`/`crc32` ops compare crate, model, catalogue reference and an independent bitwise implementation on random/boundary strings.",
        note="Trusted: Lean kernel; axioms propext, Quot.sound (+Classical.choice in helper lemmas); equality of the reflected bit-serial model CRC and the catalogue-parameter reference CRC is established by correspondence and check values, not by a theorem; the crc crate's table algorithm is not modelled.",
        technique="Lean 4 proof (case analysis of calculate_crc over CRC states, idempotence of recomputation) + differential correspondence check",
        design="§6 C04"),
    "C07": dict(
        text="Lean 4 theorem Bp7.C07.validate_iff_spec: for every bundle of decodable shape on which the stale reserved masks do not hit, the model of Bundle::validate returns no error iff the RFC rules of the property hold, where the rules are written independently (RFC bit positions via testBit, pairwise compatibility of blocks for unique numbers / singleton types, existence of a payload block, age block when creation time is zero). The loop with its two hash sets is related to List.Pairwise by induction for block lists of any length. Tie to the code: validate() of the real crate vs the model on the rule space (sampled in quick, complete in thorough) and on random bundles with one injected violation; error kinds compared in order; the oracle is a third, harness-side statement of the rules.",
        note="Trusted: Lean kernel; axioms propext, Classical.choice, Quot.sound; bitflags from_bits_truncate/contains semantics and HashSet::insert modelled from source; extracted flag constants and the age-rule condition re-proved on every run.",
        technique="Lean 4 proof (induction on the block list, bit-test lemmas) + differential correspondence check",
        design="§6 C07"),
    "C01": dict(
        text="Lean 4 theorems over every well-formed bundle value (all field widths, any number of blocks, all EID kinds, every prior CRC state): decode(encode b) = b-after-encoding (Bp7.C01.decode_encode), idempotence, and 'only CRC values change'. The decoder in the theorem is a model of serde_cbor's visitor-driven parser (depth counter, size hints, swallowed dtn-ssp errors), not a generic CBOR parser. Tie to the code: every generated bundle is encoded and decoded by the real crate and by the compiled model and bytes + decoded value + stored CRCs are compared; the element order of the Serialize/Deserialize impls is re-extracted and re-proved on every run.",
        note="Trusted: Lean kernel; axioms propext, Quot.sound; the hand-written model of serde/serde_cbor/serde_bytes behaviour (modelled from source, exercised by correspondence); generators.",
        technique="Lean 4 proof (reader/writer round-trip lemmas composed by induction on the block list) + differential correspondence check",
        design="§6 C01"),
    "C18": dict(
        text="Lean 4 theorems over all byte strings: unhexify(hexify b) = b; even-length hex -> bytes -> lower-case hex; every other string is rejected with an error, never a panic (the model represents Rust's slice-range and char-boundary panics and from_str_radix's '+' explicitly). Tie to the code: the real helpers run in-process against the compiled model on exhaustive short strings, an alphabet sweep and random strings; extracted format/radix/step facts are re-proved on every run.",
        note="Trusted: Lean kernel; axioms propext, Classical.choice, Quot.sound; the hand-written model of &str slicing and u8::from_str_radix; the correspondence harness.",
        technique="Lean 4 proof (induction on the string) + differential correspondence check",
        design="§6 C18"),
}
NOT_YET = "no machine-checked model/theorem has been built for this property yet in this session; it is not claimed"

hooks_commits = []
try:
    out = subprocess.run(["git", "-C", "/repo", "log", "--format=%h %s"], capture_output=True, text=True).stdout
    hooks_commits = [l.split()[0] for l in out.splitlines() if " hook:" in l or l.split(" ", 1)[1].startswith("hook")]
except Exception:
    pass

checks, na = [], []
for p in props:
    pid = p["id"]
    if pid in CLAIMS:
        c = CLAIMS[pid]
        checks.append({
            "property_id": pid,
            "quick_cmd": f"./check {pid} --tier quick",
            "thorough_cmd": f"./check {pid} --tier thorough",
            "evidence_file": f"evidence/{pid}.json",
            "replay_cmd_template": f"./check {pid} --replay {{path}}",
            "engine": "lean4-proof+correspondence",
            "level_claimed": {"category": "proof", "text": c["text"], "design_ref": c["design"]},
            "level_note": c["note"],
            "technique": c["technique"],
        })
    else:
        na.append({"property_id": pid, "reason": NOT_YET})

m = {
    "version": 1,
    "setup_cmd": "./setup.sh",
    "hooks": {
        "guard": "--cfg bp7_verif",
        "enable": "RUSTFLAGS=\"--cfg bp7_verif\" cargo build --offline (set by ./check and ./setup.sh for the harness crate, which depends on /repo by path)",
        "baseline_off_cmd": "cd /repo && cargo test --workspace --no-fail-fast --offline",
        "source_commits": hooks_commits,
        "add_only": True,
    },
    "engines": [{
        "name": "lean4-proof+correspondence",
        "path": "lean/Bp7 (model, specs, theorems), harness/ (Rust correspondence harness), check (driver)",
        "serves_properties": [c["property_id"] for c in checks],
        "kind_free_text": "Machine-checked Lean 4 theorems about a hand-written executable model; the model is tied to /repo on every run by differential execution (implementation vs compiled model on the same op lines) and by re-extracted source facts.",
    }],
    "checks": checks,
    "not_applicable": na,
    "notes": "See DESIGN.md. known_findings.txt lists repaired defects (fixed:) and recorded findings (finding:).",
}
json.dump(m, open(os.path.join(ROOT, "MANIFEST.json"), "w"), indent=1)
print("claimed", [c["property_id"] for c in checks])
