#!/usr/bin/env python3
"""Writes MANIFEST.json from the table below (kept in one place so it stays valid)."""
import json, os, subprocess
ROOT = os.path.join(os.path.dirname(os.path.abspath(__file__)), "..")
props = [json.loads(l) for l in open(os.path.join(ROOT, "properties.jsonl")) if l.strip()]

CLAIMS = {
    "C01": dict(
        text="Lean 4 theorems over every well-formed bundle value (all field widths, any number of blocks, all EID kinds, every prior CRC state): decode(encode b) = b-after-encoding (Bp7.C01.decode_encode), idempotence, and 'only CRC values change'. The decoder in the theorem is a model of serde_cbor's visitor-driven parser (depth counter, size hints, swallowed dtn-ssp errors), not a generic CBOR parser. Tie to the code: every generated bundle is encoded and decoded by the real crate and by the compiled model and bytes + decoded value + stored CRCs are compared; the element order of the Serialize/Deserialize impls is re-extracted and re-proved on every run.",
        note="Trusted: Lean kernel; axioms propext, Quot.sound; the hand-written model of serde/serde_cbor/serde_bytes behaviour (modelled from source, exercised by correspondence); generators.",
        technique="Lean 4 proof (reader/writer round-trip lemmas composed by induction on the block list) + differential correspondence check",
        design="§6 C01"),
    "C18": dict(
        text="Lean 4 theorems over all byte strings: unhexify(hexify b) = b; even-length hex -> bytes -> lower-case hex; every other string is rejected with an error, never a panic (the model represents Rust's slice-range and char-boundary panics and from_str_radix's '+' explicitly). Tie to the code: the real helpers run in-process against the compiled model on exhaustive short strings, an alphabet sweep and random strings; extracted format/radix/step facts are re-proved on every run.",
        note="Trusted: Lean kernel; axioms propext, Classical.choice, Quot.sound; the hand-written model of &str slicing and u8::from_str_radix; the correspondence harness.",
        technique="Lean 4 proof (induction on the string) + differential correspondence check",
        design="§6 C18"),
}
NOT_YET = "no machine-checked model/theorem has been built for this property yet in this session; it is not claimed"

hooks_commits = []
try:
    out = subprocess.run(["git", "-C", "/repo", "log", "--format=%h %s"], capture_output=True, text=True).stdout
    hooks_commits = [l.split()[0] for l in out.splitlines() if " hook:" in l or l.split(" ", 1)[1].startswith("hook")]
except Exception:
    pass

checks, na = [], []
for p in props:
    pid = p["id"]
    if pid in CLAIMS:
        c = CLAIMS[pid]
        checks.append({
            "property_id": pid,
            "quick_cmd": f"./check {pid} --tier quick",
            "thorough_cmd": f"./check {pid} --tier thorough",
            "evidence_file": f"evidence/{pid}.json",
            "replay_cmd_template": f"./check {pid} --replay {{path}}",
            "engine": "lean4-proof+correspondence",
            "level_claimed": {"category": "proof", "text": c["text"], "design_ref": c["design"]},
            "level_note": c["note"],
            "technique": c["technique"],
        })
    else:
        na.append({"property_id": pid, "reason": NOT_YET})

m = {
    "version": 1,
    "setup_cmd": "./setup.sh",
    "hooks": {
        "guard": "--cfg bp7_verif",
        "enable": "RUSTFLAGS=\"--cfg bp7_verif\" cargo build --offline (set by ./check and ./setup.sh for the harness crate, which depends on /repo by path)",
        "baseline_off_cmd": "cd /repo && cargo test --workspace --no-fail-fast --offline",
        "source_commits": hooks_commits,
        "add_only": True,
    },
    "engines": [{
        "name": "lean4-proof+correspondence",
        "path": "lean/Bp7 (model, specs, theorems), harness/ (Rust correspondence harness), check (driver)",
        "serves_properties": [c["property_id"] for c in checks],
        "kind_free_text": "Machine-checked Lean 4 theorems about a hand-written executable model; the model is tied to /repo on every run by differential execution (implementation vs compiled model on the same op lines) and by re-extracted source facts.",
    }],
    "checks": checks,
    "not_applicable": na,
    "notes": "See DESIGN.md. known_findings.txt lists repaired defects (fixed:) and recorded findings (finding:).",
}
json.dump(m, open(os.path.join(ROOT, "MANIFEST.json"), "w"), indent=1)
print("claimed", [c["property_id"] for c in checks])
