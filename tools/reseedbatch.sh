#!/bin/sh
# tools/reseedbatch.sh <listfile>: each line "<seed-name> [<PROP> ...]". For `vp run`: builds this (snapshot)
# copy of /verif, re-runs the checks against each kept seed, copies the updated meta.json back to /verif/seeded/.
cd "$(dirname "$0")/.."
./setup.sh > .build-setup.log 2>&1 || { tail -20 .build-setup.log; exit 2; }
while read -r line; do
  [ -z "$line" ] && continue
  set -- $line
  python3 tools/reseed.py "$@" 2>&1 | tail -4
  cp "seeded/$1/meta.json" "/verif/seeded/$1/meta.json"
done < "$1"
git -C /repo status --short
