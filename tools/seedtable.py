#!/usr/bin/env python3
"""Prints the markdown table of seeded changes (seeded/*/meta.json) for DESIGN.md §11.5."""
import json, glob, os
ROOT = os.path.join(os.path.dirname(os.path.abspath(__file__)), "..")
print("| seed | property | change (sub-agent's words, shortened) | checks run → verdict | how it was caught |")
print("|------|----------|----------------------------------------|----------------------|-------------------|")
for d in sorted(glob.glob(os.path.join(ROOT, "seeded", "*", "meta.json"))):
    m = json.load(open(d))
    n = os.path.basename(os.path.dirname(d))
    desc = (m.get("title") or m.get("description") or "").replace("|", "/").replace("\n", " ")
    if len(desc) > 150:
        desc = desc[:147] + "…"
    ch = m.get("checks", {})
    verd = "; ".join(f"{p}: {'VIOLATION' if c['rc'] == 1 else ('ok' if c['rc'] == 0 else 'rc=' + str(c['rc']))}" for p, c in ch.items())
    how = []
    for p, c in ch.items():
        if c["rc"] == 1:
            k = c.get("replay_kind") or ("no-failing-input-found" if "no-failing" in c.get("line", "") else "?")
            o = (c.get("oracle") or [""])[0]
            how.append(f"{p}: {k}" + (f" — {str(o)[:90]}" if o else ""))
    print(f"| {n} | {m.get('property', n[:3])} | {desc} | {verd} | {' / '.join(how).replace('|', '/')} |")
