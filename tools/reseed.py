#!/usr/bin/env python3
"""
tools/reseed.py <seed-name> [<PROP> ...]   (no PROP: the properties recorded in the seed's meta.json)

Re-runs checks against a kept seeded change: applies seeded/<name>/patch.diff to /repo, runs
./check <PROP> --tier quick for each property, undoes the patch (git checkout -- .), and updates
the "checks" / "detected_by" entries of seeded/<name>/meta.json.
"""
import sys, os, subprocess, json, shutil, re

ROOT = os.path.normpath(os.path.join(os.path.dirname(os.path.abspath(__file__)), ".."))


def sh(cmd, cwd=None, timeout=3600):
    p = subprocess.run(cmd, cwd=cwd, shell=True, stdout=subprocess.PIPE, stderr=subprocess.STDOUT, timeout=timeout)
    return p.returncode, p.stdout.decode("utf-8", "replace")


def main():
    name = sys.argv[1]
    sd = os.path.join(ROOT, "seeded", name)
    meta = json.load(open(os.path.join(sd, "meta.json")))
    props = sys.argv[2:] or list(meta.get("checks", {}).keys()) or [meta["property"]]
    scratch = os.environ.get("SEED_SCRATCH") == "1" and os.path.realpath(ROOT) != "/verif"
    if scratch:
        # snapshot mode (vp run): /repo is left alone; the patch goes into the scratch worktree $SEED_WT and this
        # copy of /verif is pointed at it
        wt = os.environ["SEED_WT"]
        manifest = os.path.join(ROOT, "harness", "Cargo.toml")
        orig = open(manifest).read()
        sh("git checkout -- .", cwd=wt)
        rc, out = sh(f"git apply {os.path.join(sd, 'patch.diff')}", cwd=wt)
        assert rc == 0, out
        results = dict(meta.get("checks", {}))
        try:
            open(manifest, "w").write(orig.replace('path = "/repo"', f'path = "{wt}"'))
            for p in props:
                e = dict(os.environ); e["BP7_REPO"] = wt
                pr = subprocess.run(f"./check {p} --tier quick", cwd=ROOT, shell=True, stdout=subprocess.PIPE, stderr=subprocess.STDOUT, env=e, timeout=3600)
                rc, out = pr.returncode, pr.stdout.decode("utf-8", "replace")
                line = [l for l in out.splitlines() if l.startswith("VIOLATION") or l.startswith("OK ")]
                results[p] = {"rc": rc, "line": line[-1] if line else out[-200:]}
                if rc == 1:
                    m = re.search(r"replay=(\S+)", out)
                    if m and os.path.exists(m.group(1)):
                        rp = json.load(open(m.group(1)))
                        results[p]["replay_kind"] = rp.get("kind")
                        results[p]["replay_ops"] = [o[:200] for o in rp.get("ops", [])[:2]]
                        results[p]["oracle"] = rp.get("oracle", [])[:1]
                print(name, p, results[p]["rc"], results[p].get("replay_kind"), (results[p].get("oracle") or [results[p]["line"]])[0][:160])
        finally:
            open(manifest, "w").write(orig)
            sh("git checkout -- .", cwd=wt)
        meta["checks"] = results
        meta["detected_by"] = [p for p, r in results.items() if r["rc"] == 1]
        json.dump(meta, open(os.path.join(sd, "meta.json"), "w"), indent=1)
        return
    st = subprocess.run("git -C /repo status --short", shell=True, capture_output=True, text=True).stdout
    assert st.strip() == "", "repo not clean: " + st
    ev, bak = os.path.join(ROOT, "evidence"), os.path.join(ROOT, ".build", "evidence.keep")
    shutil.rmtree(bak, ignore_errors=True)
    shutil.copytree(ev, bak)
    rc, out = sh(f"git -C /repo apply {os.path.join(sd, 'patch.diff')}")
    assert rc == 0, out
    results = dict(meta.get("checks", {}))
    try:
        for p in props:
            rc, out = sh(f"./check {p} --tier quick", cwd=ROOT)
            line = [l for l in out.splitlines() if l.startswith("VIOLATION") or l.startswith("OK ")]
            results[p] = {"rc": rc, "line": line[-1] if line else out[-200:]}
            if rc == 1:
                m = re.search(r"replay=(\S+)", out)
                if m and os.path.exists(m.group(1)):
                    rp = json.load(open(m.group(1)))
                    results[p]["replay_kind"] = rp.get("kind")
                    results[p]["replay_ops"] = [o[:200] for o in rp.get("ops", [])[:2]]
                    results[p]["oracle"] = rp.get("oracle", [])[:1]
            print(name, p, results[p]["rc"], results[p].get("replay_kind"), (results[p].get("oracle") or [results[p]["line"]])[0][:160])
    finally:
        sh("git -C /repo checkout -- .")
        shutil.rmtree(ev, ignore_errors=True)
        shutil.copytree(bak, ev)
    meta["checks"] = results
    meta["detected_by"] = [p for p, r in results.items() if r["rc"] == 1]
    json.dump(meta, open(os.path.join(sd, "meta.json"), "w"), indent=1)


if __name__ == "__main__":
    main()
