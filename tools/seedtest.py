#!/usr/bin/env python3
"""
tools/seedtest.py <scratch-worktree> <i> <seed-name> <PROP> [<PROP> ...]

Confirms a seeded change delivered by a sub-agent (in <scratch-worktree>/SEEDED/<i>/) and runs our
checks against it:
  1. in the scratch worktree: patch applies, the existing suite passes with it, the demonstration
     fails with it and passes without it;
  2. in /repo: apply, run ./check <PROP> --tier quick for each property, undo (git checkout -- .);
  3. keep it as /verif/seeded/<seed-name>/ (patch.diff, demo.rs, meta.json with what was run).
"""
import sys, os, subprocess, json, shutil, re

ROOT = os.path.join(os.path.dirname(os.path.abspath(__file__)), "..")


def sh(cmd, cwd=None, env=None, timeout=3600):
    e = dict(os.environ)
    e["CARGO_NET_OFFLINE"] = "true"
    if env:
        e.update(env)
    p = subprocess.run(cmd, cwd=cwd, shell=True, stdout=subprocess.PIPE, stderr=subprocess.STDOUT, env=e, timeout=timeout)
    return p.returncode, p.stdout.decode("utf-8", "replace")


def main():
    wt, i, name = sys.argv[1], sys.argv[2], sys.argv[3]
    props = sys.argv[4:]
    sd = os.path.join(wt, "SEEDED", i)
    patch = os.path.join(sd, "patch.diff")
    meta = json.load(open(os.path.join(sd, "meta.json")))
    feat = " --features bpsec" if "bpsec" in json.dumps(meta) else ""
    tgt = {"CARGO_TARGET_DIR": os.path.join(wt, "target")}
    ran = []
    ok = True
    sh("git checkout -- . && rm -f tests/seeded_demo.rs", cwd=wt)
    rc, out = sh(f"git apply --check {patch} && git apply {patch}", cwd=wt)
    ran.append({"cmd": "git apply patch.diff (scratch worktree)", "rc": rc})
    if rc != 0:
        print("patch does not apply:", out[-500:])
        ok = False
    if ok:
        rc, out = sh(f"cargo test --workspace --offline{feat} 2>&1 | grep -E '^test result|FAILED|^error' ", cwd=wt, env=tgt)
        failed = "FAILED" in out or "\nerror" in ("\n" + out) or "test result" not in out
        ran.append({"cmd": f"cargo test --workspace --offline{feat} (with patch)", "suite_passes": not failed})
        if failed:
            print("existing suite does not pass with the patch:", out[-800:])
            ok = False
    if ok:
        shutil.copy(os.path.join(sd, "demo.rs"), os.path.join(wt, "tests", "seeded_demo.rs"))
        rc1, out1 = sh(f"cargo test --offline{feat} --test seeded_demo 2>&1 | tail -30", cwd=wt, env=tgt)
        with_fails = "test result: FAILED" in out1 or "panicked" in out1
        sh("git checkout -- src", cwd=wt)
        rc2, out2 = sh(f"cargo test --offline{feat} --test seeded_demo 2>&1 | tail -30", cwd=wt, env=tgt)
        without_passes = "test result: ok" in out2 and "FAILED" not in out2
        ran.append({"cmd": "cargo test --test seeded_demo", "fails_with_patch": with_fails, "passes_without_patch": without_passes})
        if not (with_fails and without_passes):
            print("demonstration not confirmed:", out1[-400:], out2[-400:])
            ok = False
    sh("git checkout -- . && rm -f tests/seeded_demo.rs && rm -rf target", cwd=wt)
    results = {}
    scratch = os.environ.get("SEED_SCRATCH") == "1" and os.path.realpath(ROOT) != "/verif"
    if ok and scratch:
        # snapshot mode (vp run): /repo is left alone. The patch is applied in the scratch worktree and this
        # copy of /verif is pointed at it (harness path dependency + BP7_REPO for extract.py / the CLI build).
        manifest = os.path.join(ROOT, "harness", "Cargo.toml")
        orig = open(manifest).read()
        rc, out = sh(f"git apply {patch}", cwd=wt)
        try:
            open(manifest, "w").write(orig.replace('path = "/repo"', f'path = "{wt}"'))
            for p in props:
                rc, out = sh(f"./check {p} --tier quick", cwd=ROOT, timeout=3600, env={"BP7_REPO": wt})
                line = [l for l in out.splitlines() if l.startswith("VIOLATION") or l.startswith("OK ")]
                results[p] = {"rc": rc, "line": line[-1] if line else out[-200:]}
                if rc == 1:
                    m = re.search(r"replay=(\S+)", out)
                    if m and os.path.exists(m.group(1)):
                        rp = json.load(open(m.group(1)))
                        results[p]["replay_kind"] = rp.get("kind")
                        results[p]["replay_ops"] = [o[:200] for o in rp.get("ops", [])[:2]]
                        results[p]["oracle"] = rp.get("oracle", [])[:1]
        finally:
            open(manifest, "w").write(orig)
            sh("git checkout -- . && rm -rf target", cwd=wt)
    elif ok:
        # evidence/ is rewritten by every ./check run: keep the files of the clean tree
        ev, bak = os.path.join(ROOT, "evidence"), os.path.join(ROOT, ".build", "evidence.keep")
        shutil.rmtree(bak, ignore_errors=True)
        shutil.copytree(ev, bak)
        rc, out = sh(f"git -C /repo apply {patch}")
        if rc != 0:
            print("patch does not apply to /repo HEAD:", out[-300:])
            ok = False
        else:
            try:
                for p in props:
                    rc, out = sh(f"./check {p} --tier quick", cwd=ROOT, timeout=3600)
                    line = [l for l in out.splitlines() if l.startswith("VIOLATION") or l.startswith("OK ")]
                    results[p] = {"rc": rc, "line": line[-1] if line else out[-200:]}
                    if rc == 1:
                        m = re.search(r"replay=(\S+)", out)
                        if m and os.path.exists(m.group(1)):
                            rp = json.load(open(m.group(1)))
                            results[p]["replay_kind"] = rp.get("kind")
                            results[p]["replay_ops"] = [o[:200] for o in rp.get("ops", [])[:2]]
                            results[p]["oracle"] = rp.get("oracle", [])[:1]
            finally:
                sh("git -C /repo checkout -- .")
                shutil.rmtree(ev, ignore_errors=True)
                shutil.copytree(bak, ev)
    if not scratch:
        st = subprocess.run("git -C /repo status --short", shell=True, capture_output=True, text=True).stdout
        assert st.strip() == "", "repo not clean: " + st
    out_dir = os.path.join(ROOT, "seeded", name)
    if ok:
        os.makedirs(out_dir, exist_ok=True)
        shutil.copy(patch, os.path.join(out_dir, "patch.diff"))
        shutil.copy(os.path.join(sd, "demo.rs"), os.path.join(out_dir, "demo.rs"))
        meta["confirmed"] = ran
        meta["checks"] = results
        meta["detected_by"] = [p for p, r in results.items() if r["rc"] == 1]
        json.dump(meta, open(os.path.join(out_dir, "meta.json"), "w"), indent=1)
    print(json.dumps({"seed": name, "confirmed": ok, "results": results}, indent=1))


if __name__ == "__main__":
    main()
