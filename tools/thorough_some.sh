#!/bin/sh
# tools/thorough_some.sh <ID>...: thorough tier of the given properties, one line each (for `vp run`)
cd "$(dirname "$0")/.."
./setup.sh > .build-setup.log 2>&1 || { tail -20 .build-setup.log; exit 2; }
for id in "$@"; do
  /usr/bin/time -f "%es" ./check $id --tier thorough 2>&1 | tail -2 | tr '\n' ' '; echo
done
