//! C18: hexify / unhexify.
use crate::fw::*;
use bp7::helpers::{hexify, unhexify};

fn is_even_hex(s: &str) -> bool {
    s.len() % 2 == 0 && s.bytes().all(|b| b.is_ascii_hexdigit())
}

pub fn exec(line: &str) -> Option<Exec> {
    let t: Vec<&str> = line.split(' ').collect();
    match t.as_slice() {
        ["hex.enc", h] => {
            let b = unhex(h)?;
            let s = hexify(&b);
            let back = no_panic(|| unhexify(&s));
            let ok = matches!(&back, Some(Ok(v)) if *v == b);
            let mut e = Exec::new(format!("ok {}", hex(s.as_bytes())));
            e.oracle_fail = if ok { None } else { Some(format!("unhexify(hexify(b)) = {:?} != Ok(b)", back)) };
            e.nontrivial = !b.is_empty();
            Some(e)
        }
        ["hex.dec", h] => {
            let b = unhex(h)?;
            let s = String::from_utf8(b).ok()?;
            let r = no_panic(|| unhexify(&s));
            let imp = match &r {
                None => "panic".to_string(),
                Some(Ok(v)) => format!("ok {}", hex(v)),
                Some(Err(_)) => "err".to_string(),
            };
            let fail = if is_even_hex(&s) {
                match &r {
                    Some(Ok(v)) if hexify(v) == s.to_lowercase() => None,
                    other => Some(format!("even-length hex string {:?} -> {:?}, expected bytes printing back to its lower case", s, other)),
                }
            } else {
                match &r {
                    Some(Err(_)) => None,
                    None => Some(format!("malformed string {:?} panics instead of returning an error", s)),
                    Some(Ok(v)) => Some(format!("malformed string {:?} accepted as {:?}", s, v)),
                }
            };
            let mut e = Exec::new(imp);
            e.oracle_fail = fail;
            e.nontrivial = s.len() >= 2;
            Some(e)
        }
        ["hex.encoff", k, h] => {
            // the same conversion on a slice that does not start where its allocation starts (alignment, length
            // bookkeeping of chunked implementations)
            let k: usize = k.parse().ok()?;
            let b = unhex(h)?;
            let mut buf = vec![0xa5u8; k];
            buf.extend_from_slice(&b);
            buf.extend_from_slice(&[0x5a; 9]);
            let s = hexify(&buf[k..k + b.len()]);
            let back = no_panic(|| unhexify(&s));
            let ok = matches!(&back, Some(Ok(v)) if *v == b) && s.len() == 2 * b.len();
            let mut e = Exec::new(format!("ok {}", hex(s.as_bytes())));
            e.oracle_fail = if ok { None } else { Some(format!("hexify of a {}-byte slice at offset {} of its buffer gave {:?}, which does not convert back to the bytes", b.len(), k, s)) };
            Some(e)
        }
        ["hex.decoff", k, h] => {
            let k: usize = k.parse().ok()?;
            let b = unhex(h)?;
            let inner = String::from_utf8(b).ok()?;
            let whole = format!("{}{}{}", "f".repeat(k), inner, "0123456");
            let s = &whole[k..k + inner.len()];
            let r = no_panic(|| unhexify(s));
            let imp = match &r { None => "panic".to_string(), Some(Ok(v)) => format!("ok {}", hex(v)), Some(Err(_)) => "err".to_string() };
            let fail = if is_even_hex(s) {
                match &r { Some(Ok(v)) if hexify(v) == s.to_lowercase() => None, other => Some(format!("even-length hex string {:?} (a sub-slice at offset {}) -> {:?}", s, k, other)) }
            } else {
                match &r { Some(Err(_)) => None, None => Some(format!("malformed string {:?} panics", s)), Some(Ok(v)) => Some(format!("malformed string {:?} accepted as {:?}", s, v)) }
            };
            let mut e = Exec::new(imp);
            e.oracle_fail = fail;
            Some(e)
        }
        _ => None,
    }
}

pub fn generate(ctx: &mut Ctx, rep: &mut Report, emit: &mut dyn FnMut(&mut Ctx, &mut Report, String)) {
    // exhaustive: all byte strings of length <= 2 through hexify
    emit(ctx, rep, "hex.enc -".to_string());
    for a in 0..=255u8 {
        emit(ctx, rep, format!("hex.enc {}", hex(&[a])));
    }
    for a in 0..=255u8 {
        for b in 0..=255u8 {
            emit(ctx, rep, format!("hex.enc {}", hex(&[a, b])));
        }
    }
    rep.exhaustive_parts.push("hexify/unhexify round trip over all byte strings of length <= 2".into());
    // exhaustive: all valid UTF-8 strings of <= 2 bytes through unhexify
    emit(ctx, rep, "hex.dec -".to_string());
    for a in 0..=255u8 {
        for b in 0..=255u8 {
            if std::str::from_utf8(&[a, b]).is_ok() {
                emit(ctx, rep, format!("hex.dec {}", hex(&[a, b])));
            }
        }
        if a < 128 {
            emit(ctx, rep, format!("hex.dec {}", hex(&[a])));
        }
    }
    rep.exhaustive_parts.push("unhexify over all valid UTF-8 strings of <= 2 bytes".into());
    // all strings over the alphabet up to 4 (quick) / 5 (thorough) characters
    let alpha: Vec<&str> = if ctx.tier_thorough {
        vec!["0", "1", "9", "a", "c", "f", "A", "F", "g", "G", "+", "-", " ", "é", "€", "\u{10348}", "x", "\t"]
    } else {
        vec!["0", "9", "a", "f", "A", "F", "g", "+", "-", " ", "é", "€"]
    };
    let maxlen = if ctx.tier_thorough { 5 } else { 4 };
    let mut idx = vec![0usize; 0];
    loop {
        // next string in length-lexicographic order
        let mut i = idx.len();
        loop {
            if i == 0 {
                idx = vec![0; idx.len() + 1];
                break;
            }
            i -= 1;
            if idx[i] + 1 < alpha.len() {
                idx[i] += 1;
                for j in i + 1..idx.len() {
                    idx[j] = 0;
                }
                break;
            }
        }
        if idx.len() > maxlen {
            break;
        }
        let s: String = idx.iter().map(|&k| alpha[k]).collect();
        emit(ctx, rep, format!("hex.dec {}", hex(s.as_bytes())));
    }
    rep.exhaustive_parts.push(format!("unhexify over all strings of <= {} characters over a {}-symbol alphabet", maxlen, alpha.len()));
    // one foreign character in otherwise valid hex text: every code point below U+0800, and in every 256-block
    // of the BMP (and a few astral planes) the code points whose LOW BYTE is the ASCII code of a hex digit
    // (U+0130, U+0141, U+0161, U+FF11, ...: what a truncating cast or a byte-wise test would let through)
    let mut cps: Vec<u32> = (0x80..0x800u32).collect();
    for hi in (0x08..=0xffu32).chain([0x100, 0x1f6, 0x200, 0x10ff]) { for lo in (0x30..=0x39u32).chain(0x41..=0x46).chain(0x61..=0x66).chain([0x2b, 0x2d, 0x20]) { cps.push(hi << 8 | lo); } }
    for cp in cps {
        if let Some(c) = char::from_u32(cp) {
            for s in [format!("{}0", c), format!("0{}", c), format!("{}f88071a", c), format!("{}{}", c, c)] { emit(ctx, rep, format!("hex.dec {}", hex(s.as_bytes()))); }
        }
    }
    for c in 0u8..0x80 { for s in [format!("{}f88071a", c as char), format!("1{}", c as char), format!("{}{}", c as char, c as char)] { emit(ctx, rep, format!("hex.dec {}", hex(s.as_bytes()))); } }
    rep.exhaustive_parts.push("unhexify with each of ~8000 single foreign characters (all < U+0800; low byte = hex digit code in every 256-block of the BMP) inside valid hex text".into());
    // the CLI decode path (src/main.rs) hands its argument to unhexify: text that is not an even number of hex
    // digits must not come out as a decoded bundle there either (only when the real binary is available)
    if std::env::var("BP7_CLI").is_ok() {
        let mut r2 = Rng::new(ctx.seed ^ 0xc18);
        for _ in 0..ctx.n(12, 300) {
            let mut b = crate::gen::gen_valid_bundle(&mut r2);
            let h = hex(&b.to_cbor());
            if h.len() > 4000 { continue; }
            let variants = [h.clone(), h.to_uppercase(), format!(" {}", h), format!("{} ", h), format!("{}\n", h), format!("\t{}", h), format!("{}\u{a0}", h), format!("0x{}", h), format!("0X{}", h),
                format!("+{}", &h[1..]), format!("{}0", h), format!("{}g0", &h[..h.len() - 2]), format!("{}\u{130}{}", &h[..2], &h[3..])];
            for v in variants { emit(ctx, rep, format!("cli.decode p arg {}", hex(v.as_bytes()))); }
        }
    }
    // long inputs (block-wise / word-wise implementations): one foreign character at EVERY position of valid hex
    // text of 64..256 characters, and every length 0..=200 at every buffer offset 1..=15
    let mut r3 = Rng::new(ctx.seed ^ 0x1818);
    let foreign = ['+', '-', ' ', 'g', 'G', 'x', '.', ':', '/', '@', '`', '\0', '_'];
    for len in [64usize, 66, 96, 128, 130, 256] {
        let base: Vec<u8> = (0..len).map(|_| b"0123456789abcdefABCDEF"[r3.below(22) as usize]).collect();
        for p in 0..len {
            for (i, c) in foreign.iter().enumerate() {
                if !ctx.tier_thorough && (p + i) % 3 != 0 && p % 16 != 0 && p % 16 != 15 { continue; }
                let mut s = base.clone(); s[p] = *c as u8;
                emit(ctx, rep, format!("hex.dec {}", hex(&s)));
            }
        }
    }
    for len in 0..=200usize {
        let b = r3.bytes(len);
        for k in 1..=15usize {
            if !ctx.tier_thorough && (len + k) % 4 != 0 && len % 8 > 1 { continue; }
            emit(ctx, rep, format!("hex.encoff {} {}", k, hex(&b)));
            emit(ctx, rep, format!("hex.decoff {} {}", k, hex(hex(&b).as_bytes())));
        }
    }
    rep.exhaustive_parts.push("one foreign character at every position of 64..256-character hex text; hexify/unhexify on sub-slices of every length <= 200 at buffer offsets 1..15".into());
    // random
    let mut rng = Rng::new(ctx.seed ^ 0x18);
    let n = ctx.n(20_000, 1_000_000);
    let pool: Vec<&str> = vec!["0","1","2","3","4","5","6","7","8","9","a","b","c","d","e","f","A","B","C","D","E","F","g","+","-"," ","é","€","\u{10348}","\n","z"];
    for i in 0..n {
        if i % 3 == 0 {
            let len = rng.below(66) as usize;
            let b = rng.bytes(len);
            emit(ctx, rep, format!("hex.enc {}", hex(&b)));
        } else {
            let len = rng.below(65) as usize;
            let mostly_hex = rng.chance(3, 4);
            let mut s = String::new();
            for _ in 0..len {
                let k = if mostly_hex && !rng.chance(1, 24) { rng.below(22) } else { rng.below(pool.len() as u64) } as usize;
                s.push_str(pool[k]);
            }
            emit(ctx, rep, format!("hex.dec {}", hex(s.as_bytes())));
        }
    }
}
