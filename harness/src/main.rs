mod cborx;
mod fw;
mod gen;
mod notation;
mod p_codec;
mod p_ffi;
mod p_hex;
mod p_misc;
mod p_rx;
mod p_sec;
mod p_cli;
mod p_ts;
use fw::*;

#[global_allocator]
static ALLOC: p_ffi::Counting = p_ffi::Counting;

fn exec(line: &str, model: &mut Model) -> Option<Exec> {
    let op = line.split(' ').next().unwrap_or("");
    if op.starts_with("hex.") {
        return p_hex::exec(line);
    }
    match op {
        "enc" | "hist" | "histupd" | "dec" | "spec.enc" | "spec.dec" | "crcok" | "crc16" | "crc32" | "json.enc" => p_codec::exec(line, model),
        "spec.adm" => p_misc::exec(line, model),
        _ if op.starts_with("eid.") || op.starts_with("time.") || op.starts_with("adm.") || op == "ts.string" || op == "ts.sinks" => p_misc::exec(line, model),
        "validate" | "id" | "idpair" | "info" | "upd" | "seq" | "build" => p_misc::exec(line, model),
        "rx" | "fault" | "cor" => p_rx::exec(line, model),
        "ts.run" => p_ts::exec(line, model),
        "ffi" => p_ffi::exec(line, model),
        _ if op.starts_with("sec.") => p_sec::exec(line, model),
        _ if op.starts_with("cli.") => p_cli::exec(line, model),
        _ => None,
    }
}

static STOP_FLAG: std::sync::atomic::AtomicBool = std::sync::atomic::AtomicBool::new(false);

fn main() {
    install_panic_hook();
    let args: Vec<String> = std::env::args().collect();
    let mut prop = String::new();
    let mut tier = "quick".to_string();
    let mut seed: u64 = 1;
    let mut model = String::new();
    let mut out = String::new();
    let mut replay: Option<String> = None;
    let mut i = 1;
    while i < args.len() {
        match args[i].as_str() {
            "--tier" => { tier = args[i + 1].clone(); i += 1; }
            "--seed" => { seed = args[i + 1].parse().unwrap_or(1); i += 1; }
            "--model" => { model = args[i + 1].clone(); i += 1; }
            "--out" => { out = args[i + 1].clone(); i += 1; }
            "--replay" => { replay = Some(args[i + 1].clone()); i += 1; }
            p => prop = p.to_string(),
        }
        i += 1;
    }
    let mut ctx = Ctx { tier_thorough: tier == "thorough", seed, model: Model::new(&model), replay: replay.clone() };
    let rule = match prop.as_str() {
        "C18" => "distinct op lines whose input has at least 2 bytes (hex.dec) / is non-empty (hex.enc)",
        _ => "distinct op lines",
    };
    let mut rep = Report::new(&prop, rule);
    let mut batch: Vec<(String, String, bool, Option<String>)> = Vec::new();
    // watchdog: an operation of the implementation that does not return (or a run that as a whole takes many times
    // longer than it should) is a finding, not something to wait for. Per operation: the op line is left in
    // BP7H_LASTLINE and the process aborts (the check script reports that line). Whole run: exit status 97.
    static OP_START: std::sync::Mutex<Option<(std::time::Instant, String)>> = std::sync::Mutex::new(None);
    let _ = &STOP_FLAG;
    {
        let per_op = std::env::var("BP7H_OP_SECS").ok().and_then(|x| x.parse().ok()).unwrap_or(180u64);
        let total = std::env::var("BP7H_MAX_SECS").ok().and_then(|x| x.parse().ok()).unwrap_or(if tier == "thorough" { 5 * 3600 } else { 1200u64 });
        let t0 = std::time::Instant::now();
        std::thread::spawn(move || loop {
            std::thread::sleep(std::time::Duration::from_secs(2));
            if let Ok(g) = OP_START.lock() {
                if let Some((st, line)) = g.as_ref() {
                    if st.elapsed().as_secs() > per_op { note_line(line); eprintln!("watchdog: the operation did not return within {} s", per_op); std::process::abort(); }
                }
            }
            if t0.elapsed().as_secs() > total && !STOP_FLAG.swap(true, std::sync::atomic::Ordering::SeqCst) { eprintln!("watchdog: the run did not finish within {} s; remaining operations are skipped", total); }
        });
    }
    let mut emit = |ctx: &mut Ctx, rep: &mut Report, line: String| {
        if STOP_FLAG.load(std::sync::atomic::Ordering::Relaxed) { return; }
        if let Ok(mut g) = OP_START.lock() { *g = Some((std::time::Instant::now(), if line.len() > 4096 { line[..line.char_indices().map(|(i, _)| i).take_while(|i| *i <= 4096).last().unwrap_or(0)].to_string() } else { line.clone() })); }
        match exec(&line, &mut ctx.model) {
            Some(e) => {
                if let Some(f) = &e.oracle_fail {
                    rep.oracle_fail(&e.known_key, &line, f);
                }
                let cls = e.imp.split(' ').next().unwrap_or("").to_string();
                rep.count(&format!("{}:{}", line.split(' ').next().unwrap_or(""), cls));
                for t in &e.tags { rep.count(t); }
                batch.push((line, e.imp, e.nontrivial, e.model_line));
            }
            None => {
                rep.count("harness-bad-op");
            }
        }
        if batch.len() >= 512 {
            compare_batch(ctx, rep, &mut batch);
        }
    };
    if let Some(path) = replay {
        let txt = std::fs::read_to_string(&path).expect("replay file");
        let v: serde_json::Value = serde_json::from_str(&txt).expect("replay json");
        if let Some(ops) = v.get("ops").and_then(|o| o.as_array()) {
            for o in ops {
                if let Some(l) = o.as_str() {
                    emit(&mut ctx, &mut rep, l.to_string());
                }
            }
        }
    } else {
        // corpus first
        let corpus = format!("{}/corpus/{}.txt", env!("CARGO_MANIFEST_DIR").trim_end_matches("/harness"), prop);
        if let Ok(txt) = std::fs::read_to_string(&corpus) {
            for l in txt.lines() {
                let l = l.trim();
                if !l.is_empty() && !l.starts_with('#') {
                    emit(&mut ctx, &mut rep, l.to_string());
                }
            }
        }
        // a panic raised by a library call while *generating* inputs of the property's domain is a finding of
        // its own (e.g. a public constructor that starts rejecting valid values), not a harness crash
        let gen_result = std::panic::catch_unwind(std::panic::AssertUnwindSafe(|| {
        match prop.as_str() {
            "C18" => p_hex::generate(&mut ctx, &mut rep, &mut emit),
            "C01" | "C02" | "C03" | "C04" | "C15" => p_codec::generate(&prop, &mut ctx, &mut rep, &mut emit),
            "C14" => p_ffi::generate(&mut ctx, &mut rep, &mut emit),
            "C16" => p_sec::generate(&mut ctx, &mut rep, &mut emit),
            "C20" => p_cli::generate(&mut ctx, &mut rep, &mut emit),
            "C09" => p_ts::generate(&mut ctx, &mut rep, &mut emit),
            "C05" | "C06" | "C19" => p_rx::generate(&prop, &mut ctx, &mut rep, &mut emit),
            "C07" | "C08" | "C10" | "C11" | "C12" | "C13" | "C17" => p_misc::generate(&prop, &mut ctx, &mut rep, &mut emit),
            _ => { eprintln!("unknown property {}", prop); std::process::exit(2); }
        }
        }));
        if let Err(p) = gen_result {
            let msg = p.downcast_ref::<String>().cloned().or_else(|| p.downcast_ref::<&str>().map(|s| s.to_string())).unwrap_or_else(|| "panic".into());
            rep.oracle_fail("", "(generator)", &format!("a library call made while generating inputs of the property's domain panicked: {}", msg));
        }
    }
    drop(emit);
    compare_batch(&mut ctx, &mut rep, &mut batch);
    let js = rep.to_json();
    std::fs::write(&out, serde_json::to_string_pretty(&js).unwrap()).expect("write out");
    // a run cut short by the watchdog: the report holds what was found until then; exit status 97 tells the check script
    if STOP_FLAG.load(std::sync::atomic::Ordering::SeqCst) { std::process::exit(97); }
}
