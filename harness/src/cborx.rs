//! Independent minimal CBOR item scanner (harness-side oracle code; shares nothing with bp7).

/// Returns the end offset of the item starting at `i`, or None if malformed / truncated.
pub fn item_end(b: &[u8], i: usize, depth: usize) -> Option<usize> {
    if depth > 200 { return None; }
    let ib = *b.get(i)?;
    let major = ib >> 5;
    let ai = ib & 31;
    let (arg, mut p): (Option<u64>, usize) = match ai {
        0..=23 => (Some(ai as u64), i + 1),
        24 => (Some(*b.get(i + 1)? as u64), i + 2),
        25 => (Some(u16::from_be_bytes(b.get(i + 1..i + 3)?.try_into().ok()?) as u64), i + 3),
        26 => (Some(u32::from_be_bytes(b.get(i + 1..i + 5)?.try_into().ok()?) as u64), i + 5),
        27 => (Some(u64::from_be_bytes(b.get(i + 1..i + 9)?.try_into().ok()?)), i + 9),
        31 => (None, i + 1),
        _ => return None,
    };
    match major {
        0 | 1 => arg.map(|_| p),
        2 | 3 => match arg {
            Some(n) => { let e = p.checked_add(usize::try_from(n).ok()?)?; if e <= b.len() { Some(e) } else { None } }
            None => { loop { if *b.get(p)? == 0xff { return Some(p + 1); } if b[p] >> 5 != major || b[p] & 31 == 31 { return None; } p = item_end(b, p, depth + 1)?; } }
        },
        4 | 5 => match arg {
            Some(n) => { let k = if major == 5 { n.checked_mul(2)? } else { n }; for _ in 0..k { p = item_end(b, p, depth + 1)?; } Some(p) }
            None => { loop { if *b.get(p)? == 0xff { return Some(p + 1); } p = item_end(b, p, depth + 1)?; } }
        },
        6 => { arg?; item_end(b, p, depth + 1) }
        _ => if ai == 31 { None } else { Some(p) },
    }
}

/// Children ranges of a definite array item at `i`.
pub fn array_children(b: &[u8], i: usize) -> Option<Vec<(usize, usize)>> {
    let ib = *b.get(i)?;
    if ib >> 5 != 4 { return None; }
    let ai = ib & 31;
    let (n, mut p) = match ai {
        0..=23 => (ai as u64, i + 1),
        24 => (*b.get(i + 1)? as u64, i + 2),
        25 => (u16::from_be_bytes(b.get(i + 1..i + 3)?.try_into().ok()?) as u64, i + 3),
        26 => (u32::from_be_bytes(b.get(i + 1..i + 5)?.try_into().ok()?) as u64, i + 5),
        27 => (u64::from_be_bytes(b.get(i + 1..i + 9)?.try_into().ok()?), i + 9),
        _ => return None,
    };
    let mut out = Vec::new();
    for _ in 0..n { let e = item_end(b, p, 0)?; out.push((p, e)); p = e; }
    Some(out)
}

/// Block ranges of an encoded bundle `9f <block>* ff`.
pub fn bundle_blocks(b: &[u8]) -> Option<Vec<(usize, usize)>> {
    if b.first() != Some(&0x9f) || b.last() != Some(&0xff) { return None; }
    let mut p = 1;
    let mut out = Vec::new();
    while p < b.len() - 1 { let e = item_end(b, p, 0)?; out.push((p, e)); p = e; }
    if p == b.len() - 1 { Some(out) } else { None }
}

pub fn read_uint(b: &[u8], r: (usize, usize)) -> Option<u64> {
    let ib = *b.get(r.0)?;
    if ib >> 5 != 0 { return None; }
    match ib & 31 {
        x @ 0..=23 => Some(x as u64),
        24 => Some(*b.get(r.0 + 1)? as u64),
        25 => Some(u16::from_be_bytes(b.get(r.0 + 1..r.0 + 3)?.try_into().ok()?) as u64),
        26 => Some(u32::from_be_bytes(b.get(r.0 + 1..r.0 + 5)?.try_into().ok()?) as u64),
        27 => Some(u64::from_be_bytes(b.get(r.0 + 1..r.0 + 9)?.try_into().ok()?)),
        _ => None,
    }
}

/// bitwise CRC-16/X.25 (harness-side, independent of the `crc` crate)
pub fn crc16_x25(d: &[u8]) -> u16 {
    let mut c: u16 = 0xffff;
    for &b in d { c ^= b as u16; for _ in 0..8 { c = if c & 1 != 0 { (c >> 1) ^ 0x8408 } else { c >> 1 }; } }
    !c
}
/// bitwise CRC-32C
pub fn crc32c(d: &[u8]) -> u32 {
    let mut c: u32 = 0xffff_ffff;
    for &b in d { c ^= b as u32; for _ in 0..8 { c = if c & 1 != 0 { (c >> 1) ^ 0x82F6_3B78 } else { c >> 1 }; } }
    !c
}

/// For a block at `r` of an encoded bundle: (crc type, Some(ok?)) where ok compares the CRC field
/// with the CRC of the block bytes with a zeroed CRC value; None if no CRC field expected.
pub fn block_crc_check(b: &[u8], r: (usize, usize), primary: bool) -> Option<(u64, Option<bool>, usize)> {
    let ch = array_children(b, r.0)?;
    let t = read_uint(b, *ch.get(if primary { 2 } else { 3 })?)?;
    let n = ch.len();
    match t {
        0 => Some((0, None, n)),
        1 | 2 => {
            let w = if t == 1 { 2 } else { 4 };
            let last = *ch.last()?;
            // last item must be a byte string of w bytes
            if b[last.0] != 0x40 + w as u8 || last.1 - last.0 != w + 1 { return Some((t, Some(false), n)); }
            let mut blk = b[r.0..r.1].to_vec();
            let off = last.0 + 1 - r.0;
            let stored = blk[off..off + w].to_vec();
            for x in &mut blk[off..off + w] { *x = 0; }
            let ok = if t == 1 { crc16_x25(&blk).to_be_bytes().to_vec() == stored } else { crc32c(&blk).to_be_bytes().to_vec() == stored };
            Some((t, Some(ok), n))
        }
        _ => Some((t, None, n)),
    }
}
