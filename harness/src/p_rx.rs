//! C05 (CRC corruption), C06 (no panic on the receive path), C19 (structural faults).
use crate::cborx;
use crate::fw::*;
use crate::gen::*;
use crate::notation::*;
use crate::p_misc::set_clock_dtn;
use bp7::administrative_record::AdministrativeRecord;
use bp7::bundle::{Block, Bundle};
use bp7::canonical::*;
use bp7::crc::CrcBlock;
use bp7::dtntime::DtnTimeHelpers;
use bp7::eid::EndpointID;
use std::convert::TryFrom;

fn touch_eid(e: &EndpointID) {
    let _ = (e.node(), e.node_id(), e.service_name(), e.is_node_id(), e.to_string(), e.scheme(), e.is_non_singleton(), e.validate().is_ok());
}

/// Every operation a receiving node performs on a decoded bundle; returns the name of the first that panics.
pub fn receive_ops(b: &Bundle) -> Option<&'static str> {
    macro_rules! op { ($name:expr, $body:expr) => { if no_panic(|| { $body; }).is_none() { return Some($name); } }; }
    op!("validate", b.validate().is_ok());
    op!("crc_valid", b.clone().crc_valid());
    op!("id", b.id());
    op!("to_string", b.to_string());
    op!("payload", b.payload().map(|p| p.len()));
    op!("previous_node", b.previous_node().map(|e| e.to_string()));
    op!("is_administrative_record", b.is_administrative_record());
    op!("eid accessors", { touch_eid(&b.primary.destination); touch_eid(&b.primary.source); touch_eid(&b.primary.report_to);
        for c in &b.canonicals { if let CanonicalData::PreviousNode(e) = c.data() { touch_eid(e); } } });
    op!("is_lifetime_exceeded", { set_clock_dtn(1_000_000); b.primary.is_lifetime_exceeded() });
    op!("is_lifetime_exceeded(max clock)", { bp7::verif_hooks::set_clock_ms(Some(u64::MAX)); b.primary.is_lifetime_exceeded() });
    op!("timestamp to_string", (b.primary.creation_timestamp.to_string(), b.primary.creation_timestamp.dtntime().unix(), b.primary.creation_timestamp.dtntime().string()));
    for (node, rt) in [(EndpointID::with_dtn("n1").unwrap(), 0u128), (EndpointID::with_ipn(1, 0).unwrap(), u128::MAX), (EndpointID::none(), 1u128 << 64)] {
        set_clock_dtn(5);
        op!("update_extensions", b.clone().update_extensions(node, rt));
    }
    op!("add_canonical_block", { let mut c = b.clone(); c.add_canonical_block(new_hop_count_block(0, bp7::flags::BlockControlFlags::empty(), 3)); c.add_canonical_block(new_canonical_block(99, 0, 0, CanonicalData::Unknown(vec![1]))); c.canonicals.len() });
    op!("decode payload as administrative record", b.payload().map(|p| serde_cbor::from_slice::<AdministrativeRecord>(p).is_ok()));
    op!("to_cbor", b.clone().to_cbor());
    op!("to_json", b.clone().to_json());
    op!("set_payload", { let mut c = b.clone(); c.set_payload(vec![1, 2, 3]); c.payload().map(|p| p.len()) });
    None
}

/// serialise the blocks as they are (no CRC recomputation)
fn enc_no_recalc(b: &Bundle) -> Option<Vec<u8>> {
    no_panic(|| { let mut v = vec![0x9f]; v.extend(b.primary.to_cbor()); for c in &b.canonicals { v.extend(c.to_cbor()); } v.push(0xff); v })
}

pub fn exec(line: &str, _model: &mut Model) -> Option<Exec> {
    let t: Vec<&str> = line.split(' ').collect();
    match t[0] {
        "rx" => {
            let bytes = unhex(t.get(1)?)?;
            // an allocation failure aborts the process: leave the op line behind for the check script
            note_line(line);
            let (r, peak) = crate::p_ffi::metered(|| no_panic(|| Bundle::try_from(bytes.as_slice())));
            let mut e;
            // generous linear bound: decoded values, serde_cbor scratch space and Vec growth stay far below it
            let bound = 1_048_576 + 256 * bytes.len() as u64;
            match r {
                _ if peak > bound => { e = Exec::new(match &r { None => "panic".into(), Some(Err(_)) => "err".into(), Some(Ok(_)) => "ok".into() }); e.oracle_fail = Some(format!("decoding {} input bytes held {} bytes allocated at one time (bound {})", bytes.len(), peak, bound)); }
                None => { e = Exec::new("panic".into()); e.oracle_fail = Some("decoder panics".into()); }
                Some(Err(_)) => { e = Exec::new("err".into()); if bytes.len() <= 4096 { e.oracle_fail = decode_ways(bytes.as_slice()).1; } }
                Some(Ok(b)) => {
                    let (p, peak_ops) = crate::p_ffi::metered(|| receive_ops(&b));
                    e = Exec::new(format!("ok {} ops={}", show_bundle(&b), match p { None => "ok".to_string(), Some(n) => format!("panic:{}", n.replace(' ', "_")) }));
                    if let Some(n) = p { e.oracle_fail = Some(format!("`{}` panics on a bundle the decoder accepted", n)); }
                    else if let (true, Some(w)) = (bytes.len() <= 4096, decode_ways(bytes.as_slice()).1) { e.oracle_fail = Some(w); }
                    else if let (true, Some(w)) = (bytes.len() <= 4096, crate::p_misc::history_vs_fresh(&b, bytes.iter().map(|x| *x as u64).sum::<u64>() + bytes.len() as u64)) { e.oracle_fail = Some(w); }
                    else if peak_ops > bound { e.oracle_fail = Some(format!("the receive-path operations on a bundle decoded from {} input bytes held {} bytes allocated at one time (bound {})", bytes.len(), peak_ops, bound)); }
                }
            }
            e.nontrivial = bytes.len() > 3;
            Some(e)
        }
        "fault" => {
            // fault <class> <hex>: a conformant bundle with one structural fault of <class>; must be rejected
            let bytes = unhex(t.get(2)?)?;
            let (r, ways) = decode_ways(bytes.as_slice());
            let mut e = Exec::new(match &r { None => "panic".into(), Some(Err(_)) => "err".into(), Some(Ok(b)) => format!("ok {}", show_bundle(b)) });
            match r {
                Some(Err(_)) => { e.oracle_fail = ways.map(|w| format!("structural fault of class {}: {}", t[1], w)); }
                None => e.oracle_fail = Some(format!("decoder panics on a structural fault of class {}", t[1])),
                Some(Ok(_)) => e.oracle_fail = Some(format!("structural fault of class {} answered with a decoded bundle", t[1])),
            }
            e.tags.push(format!("class:{}", t[1]));
            Some(e)
        }
        "cor" => {
            // cor <corrupted> <original>
            let bytes = unhex(t.get(1)?)?;
            let orig = unhex(t.get(2)?)?;
            let r = no_panic(|| Bundle::try_from(bytes.as_slice()));
            let mut e;
            match r {
                None => { e = Exec::new("panic".into()); e.oracle_fail = Some("decoder panics".into()); e.tags.push("outcome:panic".into()); }
                Some(Err(_)) => { e = Exec::new("err".into()); e.tags.push("outcome:decode-error".into()); }
                Some(Ok(mut b)) => {
                    // a receiver may ask more than once: the bundle counts as passing if ANY of three calls says valid,
                    // and as failing the uncorrupted case if any says invalid
                    let before = b.clone();
                    let calls: Vec<Option<bool>> = (0..3).map(|_| no_panic(|| b.crc_valid())).collect();
                    let crcok = if calls.iter().any(|c| c.is_none()) { None } else if bytes == orig { Some(calls.iter().all(|c| *c == Some(true))) } else { Some(calls.iter().any(|c| *c == Some(true))) };
                    let changed_by_check = b != before;
                    let b = before;
                    let same = enc_no_recalc(&b).map(|v| v == bytes).unwrap_or(false);
                    e = Exec::new(format!("ok {} crcok={} same={}", show_bundle(&b), crcok.map(|x| x.to_string()).unwrap_or("panic".into()), same));
                    let o = Bundle::try_from(orig.as_slice()).ok();
                    let differs = o.as_ref() != Some(&b);
                    let in_alarm = same && alarm_condition(&orig, &bytes);
                    e.tags.push(format!("outcome:{}", if crcok != Some(true) { "invalid" } else if !differs { "valid-same" } else if in_alarm { "VALID-DIFFERENT(alarm)" } else { "valid-different(outside alarm condition)" }));
                    if crcok == Some(true) && differs && in_alarm { e.oracle_fail = Some("corrupted bundle decodes to a different bundle that passes the CRC check".into()); }
                    if bytes == orig && crcok != Some(true) { e.oracle_fail = Some("uncorrupted bundle fails the CRC check".into()); }
                    if e.oracle_fail.is_none() && calls.iter().any(|c| *c != calls[0]) { e.oracle_fail = Some(format!("repeated crc_valid() calls on the same decoded bundle disagree: {:?}", calls)); }
                    if e.oracle_fail.is_none() && changed_by_check { e.oracle_fail = Some("crc_valid() changed the bundle it checked".into()); }
                }
            }
            Some(e)
        }
        _ => None,
    }
}

/// corruption confined to one CRC-protected block: a window of <= 2 (CRC-16) / 4 (CRC-32) bytes, or inside
/// the CRC value; same length; block ranges unchanged
fn alarm_condition(orig: &[u8], cor: &[u8]) -> bool {
    if orig.len() != cor.len() || orig == cor { return false; }
    let (Some(bo), Some(bc)) = (cborx::bundle_blocks(orig), cborx::bundle_blocks(cor)) else { return false; };
    if bo != bc { return false; }
    let first = (0..orig.len()).find(|i| orig[*i] != cor[*i]).unwrap();
    let last = (0..orig.len()).rev().find(|i| orig[*i] != cor[*i]).unwrap();
    for (i, r) in bo.iter().enumerate() {
        if first >= r.0 && last < r.1 {
            let (t, _, _) = match cborx::block_crc_check(orig, *r, i == 0) { Some(x) => x, None => return false };
            let w = match t { 1 => 2, 2 => 4, _ => return false };
            let crc_start = r.1 - w;
            return last - first < w || first >= crc_start;
        }
    }
    false
}

// ------------------------------------------------------------------ generators

const DICT: [&[u8]; 40] = [
    &[0x00], &[0x01], &[0x17], &[0x18, 0x18], &[0x18, 0xff], &[0x19, 0x01, 0x00], &[0x1a, 0, 1, 0, 0], &[0x1b, 0, 0, 0, 1, 0, 0, 0, 0], &[0x1b, 0xff, 0xff, 0xff, 0xff, 0xff, 0xff, 0xff, 0xff],
    &[0x20], &[0x38, 0xff], &[0x3b, 0xff, 0xff, 0xff, 0xff, 0xff, 0xff, 0xff, 0xff], &[0xf9, 0x3c, 0x00], &[0xfa, 0, 0, 0, 0], &[0xfb, 0, 0, 0, 0, 0, 0, 0, 0],
    &[0xf4], &[0xf5], &[0xf6], &[0xf7], &[0x40], &[0x41, 0x00], &[0x42, 0xc3, 0x28], &[0x60], &[0x61, 0x61], &[0x62, 0xc3, 0x28], &[0x63, 0x2f, 0x2f, 0x61],
    &[0x80], &[0x81, 0x00], &[0x82, 0x01, 0x00], &[0x82, 0x02, 0x82, 0x01, 0x01], &[0x9f, 0xff], &[0x9f, 0x01, 0xff], &[0xa0], &[0xa1, 0x00, 0x00], &[0xbf, 0xff],
    &[0xc0, 0x00], &[0xd8, 0x18, 0x41, 0x00], &[0x5f, 0x41, 0x00, 0xff], &[0x7f, 0x61, 0x61, 0xff], &[0xff],
];

/// all item ranges (recursively) of a well-formed CBOR byte string
fn all_items(b: &[u8]) -> Vec<(usize, usize)> {
    fn walk(b: &[u8], i: usize, out: &mut Vec<(usize, usize)>, depth: usize) -> Option<usize> {
        if depth > 64 { return None; }
        let e = cborx::item_end(b, i, 0)?;
        out.push((i, e));
        let ib = b[i]; let major = ib >> 5; let ai = ib & 31;
        let hl = match ai { 0..=23 => 1, 24 => 2, 25 => 3, 26 => 5, 27 => 9, _ => 1 };
        match major {
            4 | 5 => { let mut p = i + hl; let end = if ai == 31 { e - 1 } else { e }; while p < end { p = walk(b, p, out, depth + 1)?; } }
            6 => { walk(b, i + hl, out, depth + 1)?; }
            2 if ai != 31 && e - (i + hl) > 0 => { // byte string holding CBOR (btsd): descend if it parses
                let inner = &b[i + hl..e];
                if cborx::item_end(inner, 0, 0) == Some(inner.len()) { let mut o2 = vec![]; if walk(inner, 0, &mut o2, depth + 1).is_some() { for (a, z) in o2 { out.push((i + hl + a, i + hl + z)); } } }
            }
            _ => {}
        }
        Some(e)
    }
    let mut out = vec![];
    let _ = walk(b, 0, &mut out, 0);
    out
}

pub fn mutate(rng: &mut Rng, base: &[u8]) -> Vec<u8> {
    let items = all_items(base);
    let mut v = base.to_vec();
    let rounds = 1 + rng.below(3);
    for _ in 0..rounds {
        if v.is_empty() { break; }
        let it = if items.is_empty() || rng.chance(1, 5) { let a = rng.below(v.len() as u64) as usize; (a, (a + 1 + rng.below(4) as usize).min(v.len())) } else { let x = *rng.pick(&items); if x.1 <= v.len() { x } else { (0, v.len()) } };
        match rng.below(11) {
            0 | 1 => { let d = *rng.pick(&DICT); v.splice(it.0..it.1, d.iter().cloned()); }       // substitute (type confusion)
            2 => { v.drain(it.0..it.1); }                                                       // delete
            3 => { let d: Vec<u8> = v[it.0..it.1].to_vec(); v.splice(it.0..it.0, d); }           // duplicate
            4 => { let k = rng.below(v.len() as u64 + 1) as usize; v.truncate(k); }             // truncate
            5 => { let k = it.0; v[k] = (v[k] & 0xe0) | (rng.below(32) as u8); }                 // length-prefix tampering
            6 => { let k = it.0; v[k] = (v[k] & 0x1f) | ((rng.below(8) as u8) << 5); }           // major type change
            7 => { let k = rng.below(v.len() as u64) as usize; v[k] ^= 1 << rng.below(8); }     // bit flip
            8 => { let d = *rng.pick(&DICT); v.splice(it.0..it.0, d.iter().cloned()); }          // insert
            9 => { let mut w = vec![0xd8, 0x18]; for _ in 0..rng.below(3) { w.extend_from_slice(&[0xc1]); } v.splice(it.0..it.0, w); } // tags
            _ => { let k = rng.below(base.len() as u64) as usize; let l = rng.below(8) as usize; let src = base[k..(k + l).min(base.len())].to_vec(); v.splice(it.0..it.1.min(v.len()), src); } // splice
        }
    }
    v
}

/// the outer indefinite-length array replaced by a definite-length header announcing `count` blocks
/// (true count, small, boundary and absurd values; minimal and non-minimal head forms)
pub fn outer_definite(rng: &mut Rng, base: &[u8]) -> Vec<u8> {
    let blocks = cborx::bundle_blocks(base).map(|b| b.len() as u64).unwrap_or(1);
    let count = match rng.below(12) { 0 | 1 => blocks, 2 => blocks + 1, 3 => blocks.saturating_sub(1), 4 => 0, 5 => 1 << 28, 6 => (1 << 32) - 1, 7 => 1 << 32, 8 => 1 << 60, 9 => u64::MAX, 10 => 65_536, _ => rng.u64b() };
    let mut head = match rng.below(5) {
        0 if count < 24 => vec![0x80 | count as u8],
        1 if count < 256 => vec![0x98, count as u8],
        2 if count < 65_536 => { let mut h = vec![0x99]; h.extend_from_slice(&(count as u16).to_be_bytes()); h }
        3 if count < (1 << 32) => { let mut h = vec![0x9a]; h.extend_from_slice(&(count as u32).to_be_bytes()); h }
        _ => { let mut h = vec![0x9b]; h.extend_from_slice(&count.to_be_bytes()); h }
    };
    let mut body = base.to_vec();
    if body.first() == Some(&0x9f) { body.remove(0); }
    if rng.chance(3, 4) && body.last() == Some(&0xff) { body.pop(); }
    if rng.chance(1, 6) { let k = rng.below(body.len() as u64 + 1) as usize; body.truncate(k); }
    head.extend(body);
    head
}

fn deep_nesting(rng: &mut Rng) -> Vec<u8> {
    // long tag / array chains around the 128-level recursion limit
    let n = *rng.pick(&[120usize, 124, 125, 126, 127, 128, 129, 130, 200, 300]);
    let lead = *rng.pick(&[0xc1u8, 0x81, 0x9f, 0xd8]);
    let mut v = vec![];
    for _ in 0..n { v.push(lead); if lead == 0xd8 { v.push(0x20); } }
    v.extend_from_slice(*rng.pick(&DICT));
    v
}

/// bundle with `k` tags in front of selected positions so that the swallowed-error path meets the depth limit
fn depth_probe(rng: &mut Rng, base: &[u8]) -> Vec<u8> {
    let blocks = match cborx::bundle_blocks(base) { Some(b) if !b.is_empty() => b, _ => return base.to_vec() };
    let ch = cborx::array_children(base, blocks[0].0).unwrap_or_default();
    let mut v = base.to_vec();
    let k = 118 + rng.below(12) as usize;
    let tags: Vec<u8> = std::iter::repeat(0xc1u8).take(k).collect();
    let pos = match rng.below(4) { 0 => 0, 1 => blocks[0].0, 2 if ch.len() > 3 => ch[3].0, _ if ch.len() > 4 => ch[4].0 + 2, _ => 0 };
    v.splice(pos..pos, tags);
    if rng.chance(1, 2) && ch.len() > 4 { let extra: Vec<u8> = std::iter::repeat(0xc1u8).take(1 + rng.below(6) as usize).collect(); let p2 = ch[3].0 + 2 + if pos <= ch[3].0 { k } else { 0 }; if p2 <= v.len() { v.splice(p2..p2, extra); } }
    v
}

type Emit<'a> = &'a mut dyn FnMut(&mut Ctx, &mut Report, String);

pub fn generate(prop: &str, ctx: &mut Ctx, rep: &mut Report, emit: Emit) {
    let mut rng = Rng::new(ctx.seed ^ 0xC06 ^ ((prop.as_bytes()[2] as u64) << 12));
    match prop {
        "C06" => gen_c06(&mut rng, ctx, rep, emit),
        "C19" => gen_c19(&mut rng, ctx, rep, emit),
        "C05" => gen_c05(&mut rng, ctx, rep, emit),
        _ => {}
    }
}

fn gen_c06(rng: &mut Rng, ctx: &mut Ctx, rep: &mut Report, emit: Emit) {
    // exhaustive short strings
    emit(ctx, rep, "rx -".into());
    for a in 0..=255u8 { emit(ctx, rep, format!("rx {}", hex(&[a]))); }
    for a in 0..=255u8 { for b in 0..=255u8 { emit(ctx, rep, format!("rx {}", hex(&[a, b]))); } }
    if ctx.tier_thorough {
        for a in 0..=255u8 { for b in 0..=255u8 { for c in 0..=255u8 { emit(ctx, rep, format!("rx {}", hex(&[a, b, c]))); } } }
        rep.exhaustive_parts.push("all byte strings of length <= 3".into());
    } else {
        rep.exhaustive_parts.push("all byte strings of length <= 2".into());
        // the 3-byte strings with an array/tag lead, which are the ones that get past the first visitor
        for a in [0x80u8, 0x81, 0x82, 0x88, 0x9f, 0xc0, 0xd8, 0x98, 0xbf, 0x5f, 0x7f] { for b in 0..=255u8 { for c in (0..=255u8).step_by(3) { emit(ctx, rep, format!("rx {}", hex(&[a, b, c]))); } } }
    }
    // block-type-specific data of the block types the decoder looks into (previous node 6, bundle age 7, hop
    // count 10): EVERY initial byte (all major types, all additional-information values incl. the reserved 28..30
    // and the indefinite 31) followed by exactly k bytes, k around every argument width
    {
        let mut b0 = Bundle::default();
        b0.primary.destination = EndpointID::with_dtn("d/x").unwrap();
        b0.primary.source = EndpointID::with_dtn("s/y").unwrap();
        b0.primary.creation_timestamp = bp7::CreationTimestamp::with_time_and_seq(1000, 0);
        b0.canonicals.push(new_canonical_block(1, 1, 0, CanonicalData::Data(vec![1])));
        let base = b0.to_cbor();
        if let Some(blocks) = cborx::bundle_blocks(&base) {
            let at = blocks[0].1;
            for bt in [6u8, 7, 10] {
                for hb in 0..=255u8 {
                    for k in [0usize, 1, 2, 3, 4, 5, 8, 9, 16, 17, 32, 33, 64, 128, 129] {
                        if !ctx.tier_thorough && (hb as usize + k) % 2 != 0 && hb & 31 < 24 { continue; }
                        let mut blk = vec![0x85, bt, 0x02, 0x00, 0x00];
                        blk.extend(cbor_head(2, 1 + k as u64)); blk.push(hb); blk.extend((0..k).map(|i| if i % 7 == 3 { 0xff } else { (i as u8).wrapping_mul(29) }));
                        let mut v = base.clone(); v.splice(at..at, blk);
                        emit(ctx, rep, format!("rx {}", hex(&v)));
                    }
                }
            }
            rep.exhaustive_parts.push("extension-block data for block types 6, 7, 10: every initial byte x 15 body lengths".into());
        }
    }
    // dtn endpoint IDs as they can arrive from the wire (any text): no "//", one or two slashes, multi-byte characters
    // around every small byte offset — in every endpoint-ID position; the receive-path calls must all return
    {
        const RAW: [&str; 30] = ["", "/", "//", "///", "a", "ab", "abc", "/a", "//a", "//a/", "a//", "nöde1//svc", "/ö/nod/svc", "€//n1/svc", "😀/n1/svc", "aö", "ö", "/ö", "//ö", "//ö/",
            "ab€", "é/", "a€/", "/€", "日本", "xé", "a€/x/y", "/é/node/in", "\u{7ff}/", "x\u{10000}"];
        for raw in RAW {
            let e = EndpointID::Dtn(1, dtn_address(raw.as_bytes()).unwrap());
            for pos in 0..4 {
                let mut b = Bundle::default();
                b.primary.destination = EndpointID::with_dtn("d/x").unwrap();
                b.primary.source = EndpointID::with_dtn("s/y").unwrap();
                b.primary.creation_timestamp = bp7::CreationTimestamp::with_time_and_seq(1000, 0);
                b.canonicals.push(new_canonical_block(1, 1, 0, CanonicalData::Data(vec![1])));
                match pos { 0 => b.primary.destination = e.clone(), 1 => b.primary.source = e.clone(), 2 => b.primary.report_to = e.clone(),
                    _ => b.canonicals.insert(0, new_canonical_block(6, 2, 0, CanonicalData::PreviousNode(e.clone()))) }
                if let Some(base) = no_panic(|| b.to_cbor()) {
                    emit(ctx, rep, format!("rx {}", hex(&base)));
                    if let Some(Ok(d)) = no_panic(|| Bundle::try_from(base.as_slice())) {
                        let s = show_bundle(&d);
                        emit(ctx, rep, format!("validate {}", s)); emit(ctx, rep, format!("id {}", s)); emit(ctx, rep, format!("info {}", s));
                        emit(ctx, rep, format!("upd {} 5 2000 {}", show_eid(&e), s));
                    }
                }
            }
        }
    }
    let n = ctx.n(20_000, 2_000_000);
    for i in 0..n {
        let wfb = i % 4 != 0;
        let mut b = gen_bundle(rng, &Opts { wf: wfb, max_blocks: 8 });
        if !wfb { // shapes only a decoder produces: keep encodable
            for c in b.canonicals.iter_mut() { if matches!(c.data(), CanonicalData::DecodingError) { c.set_data(CanonicalData::Unknown(vec![])); } }
        }
        // block numbers at the top of the range, with and without the usual block 1: a gap-free run ending at
        // u64::MAX, a single block numbered u64::MAX or u64::MAX - 1
        if i % 23 == 0 && !b.canonicals.is_empty() {
            let n = b.canonicals.len() as u64;
            match rng.below(3) {
                0 => { for (k, c) in b.canonicals.iter_mut().enumerate() { c.block_number = u64::MAX - k as u64; } }
                1 => { b.canonicals.truncate(1); b.canonicals[0].block_number = u64::MAX - rng.below(2); }
                _ => { for (k, c) in b.canonicals.iter_mut().enumerate() { c.block_number = if k as u64 == n - 1 { 1 } else { u64::MAX - k as u64 } } }
            }
        }
        // fragment fields that relate to the payload length at the top of the range: total > offset > 2^64 - 1 - length
        if i % 29 == 3 {
            let len = b.payload().map(|p| p.len() as u64).unwrap_or(0).max(1);
            b.primary.bundle_control_flags |= 1;
            b.primary.total_data_length = *rng.pick(&[u64::MAX, u64::MAX - 1, u64::MAX - len]);
            b.primary.fragmentation_offset = b.primary.total_data_length.saturating_sub(1 + rng.below(len));
        }
        // large but legal shapes: a long endpoint ID together with many blocks that repeat a number / a type
        if i % 397 == 5 {
            let name: String = std::iter::repeat('n').take(*rng.pick(&[4_096usize, 32_768])).collect();
            b.primary.source = EndpointID::Dtn(1, dtn_address(format!("//{}/x", name).as_bytes()).unwrap());
            let k = *rng.pick(&[512u64, 2_048]);
            let t = *rng.pick(&[7u64, 10, 6, 192]);
            b.canonicals = (0..k).map(|j| new_canonical_block(t, if rng.chance(1, 2) { 2 } else { 2 + j % 3 }, 0, match t { 7 => CanonicalData::BundleAge(j), 10 => CanonicalData::HopCount(3, 1), 6 => CanonicalData::PreviousNode(EndpointID::DtnNone(1, 0)), _ => CanonicalData::Unknown(vec![]) })).collect();
            b.canonicals.push(new_canonical_block(1, 1, 0, CanonicalData::Data(vec![1])));
            if let Some(base) = no_panic(|| b.to_cbor()) { emit(ctx, rep, format!("rx {}", hex(&base))); }
            continue;
        }
        let base = match no_panic(|| b.to_cbor()) { Some(x) => x, None => continue };
        let m = match rng.below(20) { 0 => base.clone(), 1 => deep_nesting(rng), 2 | 3 => depth_probe(rng, &base), 4 | 5 => outer_definite(rng, &base), _ => mutate(rng, &base) };
        emit(ctx, rep, format!("rx {}", hex(&m)));
        // on what decodes, the full results of the receive-path operations are compared as well
        if i % 5 == 0 {
            if let Some(Ok(d)) = no_panic(|| Bundle::try_from(m.as_slice())) {
                let s = show_bundle(&d);
                emit(ctx, rep, format!("validate {}", s));
                emit(ctx, rep, format!("id {}", s));
                emit(ctx, rep, format!("info {}", s));
                emit(ctx, rep, format!("crcok {}", s));
                emit(ctx, rep, format!("enc {}", s));
                emit(ctx, rep, format!("upd {} {} {} {}", show_eid(&gen_eid_wf(rng)), match rng.below(3) { 0 => u128::MAX, 1 => 1u128 << 64, _ => rng.u64b() as u128 }, rng.u64b().min(u64::MAX - 946_684_800_000), s));
                emit(ctx, rep, format!("seq {} add 10 0 0 n h:3.0 ; add 99 {} 0 n u:01", s, u64::MAX));
            }
        }
    }
}

/// one structural fault of the named class applied to conformant bytes; None if not applicable at this position
fn inject(class: &str, base: &[u8], rng: &mut Rng) -> Option<Vec<u8>> {
    let blocks = cborx::bundle_blocks(base)?;
    let bi = rng.below(blocks.len() as u64) as usize;
    let primary = bi == 0;
    let r = blocks[bi];
    let ch = cborx::array_children(base, r.0)?;
    let n = ch.len();
    let crc_t = cborx::read_uint(base, ch[if primary { 2 } else { 3 }])?;
    let has_crc = crc_t == 1 || crc_t == 2;
    let set_count = |v: &mut Vec<u8>, at: usize, k: usize| { v[at] = 0x80 | k as u8; };
    let mut v = base.to_vec();
    let mandatory = if primary { 8 } else { 5 };
    match class {
        "missing-item" => { // drop one mandatory item of a block (count adjusted)
            let k = rng.below(mandatory) as usize;
            // dropping from a fragment primary or a CRC block can produce another conformant shape: only when it cannot
            v.drain(ch[k].0..ch[k].1); set_count(&mut v, r.0, n - 1);
        }
        "extra-item" => { // one extra trailing item
            let extra: &[u8] = *rng.pick(&[&[0x00u8][..], &[0x18, 0x2a], &[0x41, 0x00], &[0x80]]);
            // a 9th/10th integer item of a CRC-less non-fragment primary would be read as fragment fields only if two are added
            v.splice(r.1..r.1, extra.iter().cloned()); set_count(&mut v, r.0, n + 1);
            if primary && !has_crc && n == 8 { /* 9 items, crc type 0: trailing data */ }
        }
        "ts-arity" => { if !primary { return None; } let t = ch[6]; let tc = cborx::array_children(base, t.0)?; if rng.chance(1, 2) { v.drain(tc[1].0..tc[1].1); set_count(&mut v, t.0, 1); } else { v.splice(t.1..t.1, [0x00]); set_count(&mut v, t.0, 3); } }
        "ipn-arity" | "eid-extra" | "eid-no-scheme" | "scheme-unknown" | "ipn-node0" => {
            let eids: Vec<(usize, usize)> = if primary { vec![ch[3], ch[4], ch[5]] } else { return None };
            let e = *rng.pick(&eids);
            let ec = cborx::array_children(base, e.0)?;
            let scheme = cborx::read_uint(base, ec[0])?;
            match class {
                "eid-extra" => { v.splice(e.1..e.1, [0x00]); set_count(&mut v, e.0, 3); }
                "eid-no-scheme" => { v.splice(e.0..e.1, [0x80]); }
                "scheme-unknown" => {
                    if ec[0].1 - ec[0].0 != 1 { return None; }
                    // one-byte codes, and wider ones -- among them codes whose low byte (or low 16 / 32 bits) is 1 or 2
                    let code: u64 = match rng.below(4) { 0 => *rng.pick(&[0u64, 3, 4, 23]), 1 => *rng.pick(&[24u64, 255, 256, 65_535, 65_536, u32::MAX as u64, u64::MAX]),
                        _ => (scheme & 0xff) + *rng.pick(&[0x100u64, 0x200, 0xff00, 0x1_0000, 0x1_0000_0000, 1 << 63]) };
                    let h = cbor_head(0, code);
                    v.splice(ec[0].0..ec[0].1, h);
                }
                "ipn-arity" => { if scheme != 2 { return None; } let ic = cborx::array_children(base, ec[1].0)?; if rng.chance(1, 2) { v.drain(ic[1].0..ic[1].1); set_count(&mut v, ec[1].0, 1); } else { v.splice(ec[1].1..ec[1].1, [0x01]); set_count(&mut v, ec[1].0, 3); } }
                _ => { if scheme != 2 { return None; } let ic = cborx::array_children(base, ec[1].0)?; v.splice(ic[0].0..ic[0].1, [0x00]); }
            }
        }
        "crc-length" => { if !has_crc { return None; } let last = ch[n - 1]; let w = if crc_t == 1 { 2 } else { 4 }; // every wrong length near the right one, and the right length plus multiples of 256 / 65536 (a length compared
            // after a narrowing conversion looks right again there)
            let nw = *rng.pick(&[0usize, 1, 2, 3, 4, 5, 6, 8, 16, 254, 255, 256, 257, 258, 259, 260, 261, 512 + w, 768 + w, 1024 + w, 65_536 + w, 65_536, 131_072 + w].iter().filter(|x| **x != w).cloned().collect::<Vec<_>>());
            let mut f = cbor_head(2, nw as u64); f.extend((0..nw).map(|i| (i as u8).wrapping_mul(37) ^ 0xaa)); v.splice(last.0..last.1, f); }
        "crc-presence" => {
            if has_crc { let last = ch[n - 1]; v.drain(last.0..last.1); set_count(&mut v, r.0, n - 1); }
            else if crc_t == 0 { v.splice(r.1..r.1, [0x42, 0, 0]); set_count(&mut v, r.0, n + 1); } else { return None; }
        }
        "uint-kind" => { // a mandatory unsigned integer replaced by another kind of item
            let cands: Vec<usize> = if primary { vec![0, 1, 2, 7] } else { vec![0, 1, 2, 3] };
            let k = *rng.pick(&cands);
            let repl: &[u8] = *rng.pick(&[&[0x20u8][..], &[0x38, 0x01], &[0xf9, 0x3c, 0x00], &[0xfb, 0x3f, 0xf0, 0, 0, 0, 0, 0, 0], &[0xf6], &[0x61, 0x31], &[0x41, 0x01], &[0x80], &[0x81, 0x01], &[0xa0], &[0xf4]]);
            v.splice(ch[k].0..ch[k].1, repl.iter().cloned());
        }
        "array-kind" => { // a mandatory array replaced by an integer, string or map
            let cands: Vec<usize> = if primary { vec![3, 4, 5, 6] } else { return Some({ let repl: &[u8] = *rng.pick(&[&[0x05u8][..], &[0x61, 0x61], &[0xa0]]); v.splice(r.0..r.1, repl.iter().cloned()); v }) };
            let k = *rng.pick(&cands);
            // integers, maps, and strings -- including text that reads as an endpoint URI, a number or a timestamp
            let texts: [&str; 9] = ["a", "dtn:none", "dtn://a/", "dtn://node/svc", "ipn:1.2", "ipn:977000.3", "1.2", "7", "[1,0]"];
            let repl: Vec<u8> = match rng.below(7) { 0 => vec![0x05], 1 => vec![0xa0], 2 => vec![0xa1, 0x01, 0x00],
                3 => { let t = rng.pick(&texts).as_bytes(); let mut f = cbor_head(2, t.len() as u64); f.extend_from_slice(t); f }
                _ => { let t = rng.pick(&texts).as_bytes(); let mut f = cbor_head(3, t.len() as u64); f.extend_from_slice(t); f } };
            v.splice(ch[k].0..ch[k].1, repl.iter().cloned());
        }
        "bstr-kind" => { // an integer in place of a byte-string field
            let k = if primary { if !has_crc { return None; } n - 1 } else if has_crc && rng.chance(1, 2) { n - 1 } else { 4 };
            v.splice(ch[k].0..ch[k].1, [0x18, 0x2a]);
        }
        "btsd" => { // block-type-specific data of a known extension block that is not the required item
            if primary { return None; }
            let bt = cborx::read_uint(base, ch[0])?;
            let bad: Vec<&[u8]> = match bt { 7 => vec![&[0x20], &[0x61, 0x61], &[0x80], &[], &[0x01, 0x02], &[0xf6]], 10 => vec![&[0x05], &[0x81, 0x01], &[0x83, 1, 2, 3], &[0x82, 0x19, 0x01, 0x00, 0x01], &[0x82, 0x20, 0x01], &[]], 6 => vec![&[0x05], &[0x80], &[0x68, b'd', b't', b'n', b':', b'n', b'o', b'n', b'e'], &[0x67, b'i', b'p', b'n', b':', b'1', b'.', b'2'], &[0x48, b'd', b't', b'n', b':', b'/', b'/', b'a', b'/'], &[0x82, 0x03, 0x00], &[0x82, 0x02, 0x82, 0x00, 0x01], &[0x82, 0x02, 0x81, 0x01], &[0x83, 0x01, 0x00, 0x00], &[]], _ => return None };
            let b = *rng.pick(&bad);
            let mut f = cbor_head(2, b.len() as u64); f.extend_from_slice(b);
            v.splice(ch[4].0..ch[4].1, f);
        }
        "btsd-retype" => { // the data of one known extension block type under another known type (6 <-> 7 <-> 10)
            if primary { return None; }
            let bt = cborx::read_uint(base, ch[0])?;
            if ![6u64, 7, 10].contains(&bt) || ch[0].1 - ch[0].0 != 1 { return None; }
            let nt = *rng.pick(&[6u8, 7, 10].iter().filter(|x| **x as u64 != bt).cloned().collect::<Vec<_>>());
            // the one value that is well-formed under two types: [1, 0] is dtn:none as well as hop count (1, 0)
            // (the decoder reads [1, n] with an integer n as the null endpoint written with value n)
            let data = &base[ch[4].0..ch[4].1];
            let inner = &data[data.len().min(1)..];
            if inner.len() >= 3 && inner[0] == 0x82 && inner[1] == 0x01 && inner[2] >> 5 == 0 && (nt == 6 || nt == 10) { return None; }
            v[ch[0].0] = nt;
        }
        "indef-missing" => { // the block written as an indefinite-length array (which the decoder takes) with its last one or two items missing
            let drop = 1 + rng.below(2) as usize;
            if n <= drop { return None; }
            let mut blk = vec![0x9fu8];
            blk.extend_from_slice(&base[ch[0].0..ch[n - drop - 1].1]);
            blk.push(0xff);
            v.splice(r.0..r.1, blk);
        }
        "btsd-reserved" => { // data that starts with an ill-formed head: additional-information values 28..31 of major type 0,
            // followed by exactly the number of bytes a "1 << (ai - 24)" reading would expect (16, 32, 64, 128)
            if primary { return None; }
            let bt = cborx::read_uint(base, ch[0])?;
            let k = rng.below(4) as usize;
            let mut item = vec![0x1cu8 + k as u8]; item.extend(std::iter::repeat(0u8).take((16usize << k) - 1)); item.push(1);
            let b: Vec<u8> = match bt { 7 => item, 10 => { let mut v = vec![0x82]; if rng.chance(1, 2) { v.extend_from_slice(&item); v.push(0x01); } else { v.extend_from_slice(&[0x18, 0x20]); v.extend_from_slice(&item); } v }
                6 => { let mut v = vec![0x82]; v.extend_from_slice(&item); v.push(0x00); v }, _ => return None };
            let mut f = cbor_head(2, b.len() as u64); f.extend_from_slice(&b);
            v.splice(ch[4].0..ch[4].1, f);
        }
        "btsd-trailing" => { // the required item, well formed, followed by further bytes inside the data byte string
            if primary { return None; }
            let bt = cborx::read_uint(base, ch[0])?;
            let good: Vec<u8> = match bt { 10 => vec![0x82, 0x18, 0x20, 0x00], 7 => vec![0x19, 0x03, 0xe8], 6 => vec![0x82, 0x01, 0x63, b'/', b'/', b'a'], _ => return None };
            let extra: &[u8] = *rng.pick(&[&[0x00u8][..], &[0xff], &[0xf6], &[0x00, 0x00], &[0x82, 0x01, 0x00], &[0x40]]);
            let mut b = good; b.extend_from_slice(extra);
            let mut f = cbor_head(2, b.len() as u64); f.extend_from_slice(&b);
            v.splice(ch[4].0..ch[4].1, f);
        }
        "ts-map" => { // the creation timestamp (or an endpoint ID) as a map keyed by position or by field name
            if !primary { return None; }
            let k = *rng.pick(&[6usize, 6, 6, 3, 4, 5]);
            let maps: Vec<Vec<u8>> = vec![vec![0xa2, 0x00, 0x19, 0x03, 0xe8, 0x01, 0x05], vec![0xa2, 0x01, 0x05, 0x00, 0x19, 0x03, 0xe8], vec![0xbf, 0x00, 0x01, 0x01, 0x02, 0xff],
                { let mut m = vec![0xa2, 0x64]; m.extend_from_slice(b"time"); m.extend_from_slice(&[0x19, 0x03, 0xe8, 0x65]); m.extend_from_slice(b"seqno"); m.push(0x05); m },
                vec![0xa2, 0x61, b'0', 0x01, 0x61, b'1', 0x00], vec![0xa1, 0x01, 0x00]];
            let m = rng.pick(&maps).clone();
            v.splice(ch[k].0..ch[k].1, m);
        }
        "btsd-map" => { // a map keyed by field position or field name where the data of a known extension block must be an array / integer
            if primary { return None; }
            let bt = cborx::read_uint(base, ch[0])?;
            let bad: Vec<Vec<u8>> = match bt {
                10 => vec![vec![0xa2, 0x00, 0x18, 0x20, 0x01, 0x00], { let mut m = vec![0xa2, 0x65]; m.extend_from_slice(b"limit"); m.extend_from_slice(&[0x18, 0x20, 0x65]); m.extend_from_slice(b"count"); m.push(0x00); m },
                           vec![0xa2, 0x61, b'0', 0x05, 0x61, b'1', 0x01], vec![0xa1, 0x00, 0x05], vec![0xbf, 0x00, 0x05, 0x01, 0x01, 0xff]],
                7 => vec![vec![0xa1, 0x00, 0x05], vec![0xa1, 0x61, b'0', 0x05], vec![0x81, 0x05]],
                6 => vec![vec![0xa2, 0x00, 0x01, 0x01, 0x00], vec![0xa2, 0x00, 0x02, 0x01, 0x82, 0x01, 0x01], vec![0xa1, 0x01, 0x00]],
                _ => return None };
            let b = rng.pick(&bad).clone();
            let mut f = cbor_head(2, b.len() as u64); f.extend_from_slice(&b);
            v.splice(ch[4].0..ch[4].1, f);
        }
        "no-break" => { v.pop(); }
        "trailing-byte" => { v.push(*rng.pick(&[0x00u8, 0xff, 0x80, 0xf6])); }
        _ => return None,
    }
    Some(v)
}

pub const FAULT_CLASSES: [&str; 23] = ["btsd-reserved", "btsd-trailing", "ts-map", "indef-missing", "btsd-map", "btsd-retype", "missing-item", "extra-item", "ts-arity", "ipn-arity", "eid-extra", "eid-no-scheme", "scheme-unknown", "ipn-node0",
    "crc-length", "crc-presence", "uint-kind", "array-kind", "bstr-kind", "btsd", "no-break", "trailing-byte", "missing-item"];

fn gen_c19(rng: &mut Rng, ctx: &mut Ctx, rep: &mut Report, emit: Emit) {
    for _ in 0..ctx.n(400, 8_000) {
        let b = gen_bundle(rng, &Opts { wf: true, max_blocks: 6 });
        // conformant bytes from the independent reference encoder
        let ans = ctx.model.ask1(&format!("spec.enc {}", show_bundle(&b)));
        let parts: Vec<&str> = ans.split(' ').collect();
        if parts.len() < 2 || parts[0] != "ok" { continue; }
        let base = match unhex(parts[1]) { Some(x) => x, None => continue };
        emit(ctx, rep, format!("dec {}", hex(&base)));
        for class in FAULT_CLASSES.iter() {
            for _ in 0..6 {
                if let Some(f) = inject(class, &base, rng) {
                    // exclusions: a fault that yields another conformant shape is not in the class
                    if *class == "missing-item" || *class == "extra-item" || *class == "crc-presence" { if conformant_shape(&f) { continue; } }
                    emit(ctx, rep, format!("fault {} {}", class, hex(&f)));
                }
            }
        }
    }
}

/// primary with (8|10 items, crc 0) or (9|11, crc 1|2); canonical with (5, crc 0) or (6, crc 1|2): item counts consistent
fn conformant_shape(b: &[u8]) -> bool {
    let Some(blocks) = cborx::bundle_blocks(b) else { return false; };
    for (i, r) in blocks.iter().enumerate() {
        let Some(ch) = cborx::array_children(b, r.0) else { return false; };
        let idx = if i == 0 { 2 } else { 3 };
        if ch.len() <= idx { return false; }
        let Some(t) = cborx::read_uint(b, ch[idx]) else { return false; };
        let c = if t == 0 { 0 } else { 1 };
        let ok = if i == 0 { ch.len() == 8 + c || ch.len() == 10 + c } else { ch.len() == 5 + c };
        if !ok { return false; }
    }
    true
}

fn gen_c05(rng: &mut Rng, ctx: &mut Ctx, rep: &mut Report, emit: Emit) {
    let nb = ctx.n(40, 400);
    for k in 0..nb {
        let mut b = gen_bundle(rng, &Opts { wf: true, max_blocks: 4 });
        // keep bundles small so that exhaustive positions stay affordable
        for c in b.canonicals.iter_mut() { if let CanonicalData::Data(d) = c.data().clone() { if d.len() > 24 { c.set_data(CanonicalData::Data(d[..24].to_vec())); } } if let CanonicalData::Unknown(d) = c.data().clone() { if d.len() > 24 { c.set_data(CanonicalData::Unknown(d[..24].to_vec())); } } }
        let t = if k % 2 == 0 { 1u8 } else { 2 };
        b.set_crc(t);
        if k % 7 == 0 { b.canonicals.truncate(1); }
        let orig = b.to_cbor();
        let oh = hex(&orig);
        emit(ctx, rep, format!("cor {} {}", oh, oh));
        let blocks = cborx::bundle_blocks(&orig).unwrap();
        let w = if t == 1 { 2 } else { 4 };
        // every bit position inside every block
        for r in &blocks { for i in r.0..r.1 { for bit in 0..8 { let mut v = orig.clone(); v[i] ^= 1 << bit; emit(ctx, rep, format!("cor {} {}", hex(&v), oh)); } } }
        // every byte-aligned window start, replacement patterns
        let pats = ctx.n(24, if w == 2 { 65_535 } else { 4_000 });
        for r in &blocks { for i in r.0..=(r.1 - w) {
            for p in 0..pats {
                let mut v = orig.clone();
                let x: u64 = if w == 2 && pats == 65_535 { p + 1 } else { match p % 6 { 0 => 1 << rng.below(8 * w as u64), 1 => (1u64 << (8 * w as u64 - 1)) | 1, 2 => 0xffff_ffff >> (32 - 8 * w), _ => 1 + rng.below((1u64 << (8 * w as u64)) - 1) } };
                for j in 0..w { v[i + j] ^= (x >> (8 * (w - 1 - j))) as u8; }
                if v != orig { emit(ctx, rep, format!("cor {} {}", hex(&v), oh)); }
            }
        } }
        // CRC value overwrites
        for r in &blocks { for _ in 0..ctx.n(8, 200) { let mut v = orig.clone(); for j in 0..w { v[r.1 - w + j] = rng.next() as u8; } if v != orig { emit(ctx, rep, format!("cor {} {}", hex(&v), oh)); } } }
        // structured overwrites of the CRC value: byte order reversed, rotated, complemented, zeroed, all ones,
        // +-1, halves swapped, the CRC value of another block
        for (bi, r) in blocks.iter().enumerate() {
            let cur: Vec<u8> = orig[r.1 - w..r.1].to_vec();
            let n = cur.iter().fold(0u64, |a, b| a << 8 | *b as u64);
            let mask = if w == 2 { 0xffffu64 } else { 0xffff_ffff };
            let mut cands: Vec<Vec<u8>> = vec![cur.iter().rev().cloned().collect(), { let mut c = cur.clone(); c.rotate_left(1); c }, cur.iter().map(|b| !b).collect(), vec![0; w], vec![0xff; w]];
            for m in [n.wrapping_add(1) & mask, n.wrapping_sub(1) & mask, (n << (4 * w) | n >> (4 * w)) & mask] { cands.push((0..w).map(|j| (m >> (8 * (w - 1 - j))) as u8).collect()); }
            if let Some(o) = blocks.get((bi + 1) % blocks.len()) { if o.1 - o.0 > w { cands.push(orig[o.1 - w..o.1].to_vec()); } }
            for c in cands { let mut v = orig.clone(); v[r.1 - w..r.1].copy_from_slice(&c); if v != orig { emit(ctx, rep, format!("cor {} {}", hex(&v), oh)); } }
        }
    }
    // blocks whose correct CRC value is a special pattern (all zero, all one, …): uncorrupted they must pass,
    // with one flipped bit they must fail
    for mut b in crate::p_codec::special_crc_bundles(rng) {
        let orig = b.to_cbor();
        let oh = hex(&orig);
        emit(ctx, rep, format!("cor {} {}", oh, oh));
        if let Some(blocks) = cborx::bundle_blocks(&orig) { for r in &blocks { for i in [r.0 + 1, r.1 - 1] { let mut v = orig.clone(); v[i] ^= 1; emit(ctx, rep, format!("cor {} {}", hex(&v), oh)); } } }
    }
    // the sender's bundle has a history: CRCs computed (encoded once, or decoded from the wire), THEN fields of the
    // primary block / of a canonical block changed, then encoded again — what reaches the receiver uncorrupted must
    // pass the check (a checksum left over from before the change would not)
    for k in 0..ctx.n(400, 40_000) {
        let mut b = gen_bundle(rng, &Opts { wf: true, max_blocks: 4 });
        b.set_crc(if k % 2 == 0 { 1 } else { 2 });
        let first = b.to_cbor();
        if k % 3 == 0 { if let Ok(d) = Bundle::try_from(first.as_slice()) { b = d; } }
        for _ in 0..1 + rng.below(3) {
            match rng.below(9) {
                0 => b.primary.lifetime = std::time::Duration::from_millis(rng.u64b()),
                1 => b.primary.destination = gen_eid_wf(rng),
                2 => b.primary.report_to = gen_eid_wf(rng),
                3 => { b.primary.bundle_control_flags |= 1; b.primary.fragmentation_offset = rng.below(1000); b.primary.total_data_length = 1000 + rng.below(1000); }
                4 => b.primary.creation_timestamp = bp7::CreationTimestamp::with_time_and_seq(rng.u64b(), rng.below(100)),
                5 => b.primary.bundle_control_flags ^= *rng.pick(&[0x4u64, 0x20, 0x40, 0x4000, 0x10000]),
                6 => { if let Some(c) = b.canonicals.first_mut() { c.block_control_flags ^= 1 << rng.below(5); } }
                7 => { let n = b.canonicals.len(); if n > 0 { let j = rng.below(n as u64) as usize; let d = b.canonicals[j].data().clone(); if let CanonicalData::Data(mut x) = d { x.push(rng.next() as u8); b.canonicals[j].set_data(CanonicalData::Data(x)); } else if let CanonicalData::BundleAge(a) = d { b.canonicals[j].set_data(CanonicalData::BundleAge(a.wrapping_add(1))); } } }
                _ => { if let Some(c) = b.canonicals.last_mut() { c.block_number = c.block_number.wrapping_add(rng.below(3)); } }
            }
        }
        if let Some(orig) = no_panic(|| b.to_cbor()) { let oh = hex(&orig); emit(ctx, rep, format!("cor {} {}", oh, oh)); }
    }
    rep.exhaustive_parts.push("every single-bit flip inside every block of every generated bundle".into());
    // bundles whose blocks do NOT all have the same CRC type (appended last: the random stream of everything above is
    // unchanged): primary block without CRC and one protected canonical block among unprotected ones, a protected primary
    // block with unprotected canonical blocks, CRC-16 next to CRC-32 — every bit of every PROTECTED block flipped
    for k in 0..ctx.n(24, 400) {
        let mut b = gen_bundle(rng, &Opts { wf: true, max_blocks: 3 });
        for c in b.canonicals.iter_mut() { if let CanonicalData::Data(d) = c.data().clone() { if d.len() > 16 { c.set_data(CanonicalData::Data(d[..16].to_vec())); } } if let CanonicalData::Unknown(d) = c.data().clone() { if d.len() > 16 { c.set_data(CanonicalData::Unknown(d[..16].to_vec())); } } }
        b.set_crc(0);
        let n = b.canonicals.len();
        match k % 4 {
            0 => { if n == 0 { continue; } let j = rng.below(n as u64) as usize; b.canonicals[j].set_crc_type(1 + (k / 4 % 2) as u8); }
            1 => { b.primary.set_crc_type(1 + (k / 4 % 2) as u8); }
            2 => { if n < 2 { continue; } b.canonicals[0].set_crc_type(1); b.canonicals[n - 1].set_crc_type(2); }
            _ => { b.primary.set_crc_type(2); if n > 0 { b.canonicals[n - 1].set_crc_type(1); } }
        }
        let orig = b.to_cbor();
        let oh = hex(&orig);
        emit(ctx, rep, format!("cor {} {}", oh, oh));
        let Some(blocks) = cborx::bundle_blocks(&orig) else { continue; };
        for (i, r) in blocks.iter().enumerate() {
            let protected = matches!(cborx::block_crc_check(&orig, *r, i == 0), Some((t, _, _)) if t == 1 || t == 2);
            if !protected { continue; }
            for p in r.0..r.1 { for bit in 0..8 { let mut v = orig.clone(); v[p] ^= 1 << bit; emit(ctx, rep, format!("cor {} {}", hex(&v), oh)); } }
        }
    }
}

/// The same item tree with some of its definite-length byte / text strings written as indefinite-length
/// strings of 1..3 chunks (text split at character boundaries): what another conformant encoder may send.
pub fn chunk_strings(rng: &mut Rng, b: &[u8]) -> Vec<u8> {
    fn head(major: u8, n: usize, out: &mut Vec<u8>) {
        let m = major << 5;
        if n < 24 { out.push(m | n as u8) } else if n < 256 { out.push(m | 24); out.push(n as u8) }
        else if n < 65_536 { out.push(m | 25); out.extend_from_slice(&(n as u16).to_be_bytes()) }
        else { out.push(m | 26); out.extend_from_slice(&(n as u32).to_be_bytes()) }
    }
    fn go(rng: &mut Rng, b: &[u8], i: usize, out: &mut Vec<u8>) -> Option<usize> {
        let end = cborx::item_end(b, i, 0)?;
        let ib = b[i];
        let (major, ai) = (ib >> 5, ib & 31);
        let hl = match ai { 0..=23 => 1, 24 => 2, 25 => 3, 26 => 5, 27 => 9, _ => 1 };
        match major {
            2 | 3 if ai != 31 && rng.chance(1, 2) => {
                let body = &b[i + hl..end];
                out.push((major << 5) | 31);
                let mut cuts: Vec<usize> = (0..rng.below(3)).map(|_| rng.below(body.len() as u64 + 1) as usize).collect();
                cuts.push(0); cuts.push(body.len()); cuts.sort(); cuts.dedup();
                if major == 3 { let s = std::str::from_utf8(body).ok()?; cuts.retain(|c| s.is_char_boundary(*c)); }
                for w in cuts.windows(2) { head(major, w[1] - w[0], out); out.extend_from_slice(&body[w[0]..w[1]]); }
                out.push(0xff);
            }
            4 => {
                if ai == 31 { out.push(ib); let mut p = i + 1; while b[p] != 0xff { p = go(rng, b, p, out)?; } out.push(0xff); }
                else { out.extend_from_slice(&b[i..i + hl]); let mut p = i + hl; while p < end { p = go(rng, b, p, out)?; } }
            }
            _ => out.extend_from_slice(&b[i..end]),
        }
        Some(end)
    }
    let mut out = Vec::with_capacity(b.len() + 16);
    match go(rng, b, 0, &mut out) { Some(e) if e == b.len() => out, _ => b.to_vec() }
}
