//! C16: BPSec integrity (feature `bpsec`): IPPT, HMAC results, abstract security block.
use crate::fw::*;
use crate::gen::*;
use crate::notation::*;
use bp7::security::*;
use bp7::*;
use hmac::{Hmac, Mac};
use sha2::{Sha256, Sha384, Sha512};

type Hdr = (u64, u64, u8);

fn parse_hdr(s: &str) -> Option<Option<Hdr>> {
    if s == "-" { return Some(None); }
    let v: Vec<&str> = s.split('.').collect();
    if v.len() != 3 { return None; }
    Some(Some((v[0].parse().ok()?, v[1].parse().ok()?, v[2].parse().ok()?)))
}
fn parse_csv(s: &str) -> Option<Vec<u64>> {
    if s == "-" { return Some(vec![]); }
    s.split(',').map(|x| x.parse().ok()).collect()
}
fn parse_pairs(s: &str) -> Option<Vec<(u64, Vec<u8>)>> {
    if s == "-" || s == "e" { return Some(vec![]); }
    s.split(',').map(|p| { let (a, b) = p.split_once(':')?; Some((a.parse().ok()?, unhex(b)?)) }).collect()
}
fn parse_results(s: &str) -> Option<Vec<Vec<(u64, Vec<u8>)>>> {
    if s == "-" { return Some(vec![]); }
    s.split('|').map(parse_pairs).collect()
}
fn show_results(rs: &[Vec<(u64, Vec<u8>)>]) -> String {
    if rs.is_empty() { return "-".into(); }
    rs.iter().map(|r| if r.is_empty() { "e".to_string() } else { r.iter().map(|(i, v)| format!("{}:{}", i, hex(v))).collect::<Vec<_>>().join(",") }).collect::<Vec<_>>().join("|")
}
fn opt2<T: std::str::FromStr, U>(s: &str, f: impl Fn(&str) -> Option<U>) -> Option<Option<(T, U)>> {
    if s == "-" { return Some(None); }
    let (a, b) = s.split_once('.')?;
    Some(Some((a.parse().ok()?, f(b)?)))
}

fn bstr(b: &[u8]) -> Vec<u8> { let mut v = cbor_head(2, b.len() as u64); v.extend_from_slice(b); v }

/// RFC 9173 section 3.7, written independently of src/security.rs
fn rfc_ippt(flags: u16, prim: Option<&primary::PrimaryBlock>, hdr: Option<Hdr>, t: &CanonicalBlock) -> Vec<u8> {
    let mut v = cbor_head(0, flags as u64);
    if flags & 1 != 0 { if let Some(p) = prim { v.extend(serde_cbor::to_vec(p).unwrap()); } }
    if flags & 2 != 0 { v.extend(cbor_head(0, t.block_type)); v.extend(cbor_head(0, t.block_number)); v.extend(cbor_head(0, t.block_control_flags as u64)); }
    if flags & 4 != 0 { if let Some(h) = hdr { v.extend(cbor_head(0, h.0)); v.extend(cbor_head(0, h.1)); v.extend(cbor_head(0, h.2 as u64)); } }
    let btsd = match t.data() { CanonicalData::Data(b) | CanonicalData::Unknown(b) => b.clone(), d => serde_cbor::to_vec(d).unwrap() };
    v.extend(bstr(&btsd));
    v
}

fn ref_hmac(variant: u64, key: &[u8], msg: &[u8]) -> Option<Vec<u8>> {
    Some(match variant {
        5 => { let mut m = <Hmac<Sha256> as Mac>::new_from_slice(key).ok()?; m.update(msg); m.finalize().into_bytes().to_vec() }
        6 => { let mut m = <Hmac<Sha384> as Mac>::new_from_slice(key).ok()?; m.update(msg); m.finalize().into_bytes().to_vec() }
        7 => { let mut m = <Hmac<Sha512> as Mac>::new_from_slice(key).ok()?; m.update(msg); m.finalize().into_bytes().to_vec() }
        _ => return None,
    })
}

fn make_ippt(flags: u16, prim: Option<&primary::PrimaryBlock>, hdr: Option<Hdr>, t: &CanonicalBlock) -> Option<Vec<u8>> {
    no_panic(|| {
        let mut b = IpptBuilder::default().scope_flags(flags);
        if let Some(p) = prim { b = b.primary_block(p.clone()); }
        if let Some(h) = hdr { b = b.security_header(h); }
        b.build().create(t)
    })
}

fn protected(t: &CanonicalBlock, flags: u16) -> (Option<(u64, u64, u8)>, Vec<u8>) {
    let btsd = match t.data() { CanonicalData::Data(b) | CanonicalData::Unknown(b) => b.clone(), d => serde_cbor::to_vec(d).unwrap() };
    (if flags & 2 != 0 { Some((t.block_type, t.block_number, t.block_control_flags)) } else { None }, btsd)
}

pub fn exec(line: &str, _model: &mut Model) -> Option<Exec> {
    let t: Vec<&str> = line.split(' ').collect();
    match t[0] {
        "sec.ippt" | "sec.pair" => {
            let flags: u16 = t.get(1)?.parse().ok()?;
            let hdr = parse_hdr(t.get(2)?)?;
            let with_p = *t.get(3)? == "p";
            let (b, n) = parse_bundle(&t[4..])?;
            if n + 4 != t.len() { return None; }
            let prim = if with_p { Some(&b.primary) } else { None };
            if t[0] == "sec.ippt" {
                if b.canonicals.len() != 1 { return None; }
                let tg = &b.canonicals[0];
                let r = make_ippt(flags, prim, hdr, tg);
                let mut e = Exec::new(match &r { Some(v) => format!("ok {}", hex(v)), None => "panic".into() });
                let judged = (flags & 1 == 0 || with_p) && (flags & 4 == 0 || hdr.is_some());
                e.tags.push(format!("scope:{}", flags & 7));
                e.tags.push(format!("target:{}", match tg.data() { CanonicalData::Data(_) => "payload", CanonicalData::Unknown(_) => "unknown", CanonicalData::BundleAge(_) => "age", CanonicalData::HopCount(_, _) => "hop", CanonicalData::PreviousNode(_) => "prev", _ => "other" }));
                e.tags.push(format!("judged:{}", judged));
                if judged {
                    let want = rfc_ippt(flags, prim, hdr, tg);
                    match &r {
                        Some(v) if *v == want => {}
                        Some(v) => e.oracle_fail = Some(format!("IPPT {} differs from the RFC 9173 3.7 concatenation {}", clip(&hex(v)), clip(&hex(&want)))),
                        None => e.oracle_fail = Some("IPPT construction panics".into()),
                    }
                    // objects that did not start out empty: target contents preset through the builder, or an object
                    // that went through serde — the plaintext is a function of flags, primary, header and target only
                    let preset: Vec<u8> = (0..1 + (line.len() % 5)).map(|i| (i as u8).wrapping_mul(61) ^ 0x43).collect();
                    let via_builder = no_panic(|| {
                        let mut bd = IpptBuilder::default().scope_flags(flags).security_target_contents(preset.clone());
                        if let Some(p) = prim { bd = bd.primary_block(p.clone()); }
                        if let Some(h) = hdr { bd = bd.security_header(h); }
                        bd.build().create(tg) });
                    if e.oracle_fail.is_none() && via_builder.as_ref() != Some(&want) {
                        e.oracle_fail = Some(format!("an IPPT object built with preset target contents yields {} instead of the RFC 9173 3.7 concatenation {}", via_builder.map(|v| clip(&hex(&v))).unwrap_or("a panic".into()), clip(&hex(&want))));
                    }
                }
                Some(e)
            } else {
                if b.canonicals.len() != 2 { return None; }
                let (t1, t2) = (&b.canonicals[0], &b.canonicals[1]);
                let r1 = make_ippt(flags, prim, hdr, t1);
                let r2 = make_ippt(flags, prim, hdr, t2);
                let mut e = Exec::new(match (&r1, &r2) { (Some(a), Some(b)) => format!("ok {}", a == b), _ => "panic".into() });
                let differ = protected(t1, flags) != protected(t2, flags);
                e.tags.push(format!("protected-differ:{}", differ));
                if let (Some(a), Some(b)) = (&r1, &r2) { if differ && a == b { e.oracle_fail = Some("two targets that differ in a protected field yield the same IPPT".into()); } }
                // one IPPT object used for both targets in turn (and for the first again): same plaintexts as fresh objects
                let reused = no_panic(|| {
                    let mut bd = IpptBuilder::default().scope_flags(flags);
                    if let Some(p) = prim { bd = bd.primary_block(p.clone()); }
                    if let Some(h) = hdr { bd = bd.security_header(h); }
                    let mut obj = bd.build();
                    let first = (obj.create(t1), obj.create(t2), obj.create(t1));
                    // ... and for a re-signed block: the same block number, other flags / another type / other data
                    let mut t3 = t1.clone(); t3.block_control_flags ^= 0x10;
                    let mut t4 = t1.clone(); t4.block_type = if t1.block_type == 192 { 193 } else { 192 };
                    let mut fresh = |t: &CanonicalBlock| { let mut bd = IpptBuilder::default().scope_flags(flags); if let Some(p) = prim { bd = bd.primary_block(p.clone()); } if let Some(h) = hdr { bd = bd.security_header(h); } bd.build().create(t) };
                    let (f3, f4) = (fresh(&t3), fresh(&t4));
                    let (r3, r4) = (obj.create(&t3), obj.create(&t4));
                    if (r3.clone(), r4.clone()) != (f3, f4) { return (first.0, first.1, r3); }
                    first
                });
                match (&reused, &r1, &r2) {
                    (Some((a1, a2, a3)), Some(f1), Some(f2)) => { if (a1, a2, a3) != (f1, f2, f1) && e.oracle_fail.is_none() { e.oracle_fail = Some(format!("an IPPT object used for several targets in turn yields {} for the second target, a fresh object {}", clip(&hex(a2)), clip(&hex(f2)))); } }
                    (None, Some(_), Some(_)) => { if e.oracle_fail.is_none() { e.oracle_fail = Some("IPPT construction on a reused object panics".into()); } }
                    _ => {}
                }
                Some(e)
            }
        }
        "sec.hmac" => {
            let variant: u64 = t.get(1)?.parse().ok()?;
            if variant > u16::MAX as u64 { return None; }
            let key = unhex(t.get(2)?)?;
            let key: [u8; 16] = key.try_into().ok()?;
            let targets = parse_csv(t.get(3)?)?;
            let list = parse_pairs(t.get(4)?)?;
            if t.len() != 5 { return None; }
            let r = no_panic(|| {
                let params = BibSecurityContextParameter::new(Some((1, variant as u16)), None, Some((3, 0)));
                let mut bib = IntegrityBlockBuilder::default().security_targets(targets.clone()).security_context_flags(1)
                    .security_source(EndpointID::none()).security_context_parameters(params).build().unwrap();
                bib.compute_hmac(key, list.iter().map(|(n, v)| (*n, v)).collect());
                bib.security_results
            });
            let mut e = Exec::new(match &r { Some(rs) => format!("ok {}", show_results(rs)), None => "panic".into() });
            e.tags.push(format!("variant:{}", variant));
            if (5..=7).contains(&variant) {
                let want: Vec<Vec<(u64, Vec<u8>)>> = list.iter().filter(|(n, _)| targets.contains(n)).map(|(_, m)| vec![(1u64, ref_hmac(variant, &key, m).unwrap())]).collect();
                match &r {
                    Some(rs) if *rs == want => {}
                    Some(rs) => e.oracle_fail = Some(format!("security results {} are not one (1, HMAC) pair per target: expected {}", clip(&show_results(rs)), clip(&show_results(&want)))),
                    None => e.oracle_fail = Some("compute_hmac panics".into()),
                }
            }
            Some(e)
        }
        "sec.asb" => {
            if t.len() != 8 { return None; }
            let targets = parse_csv(t[1])?;
            let cf: u8 = t[2].parse().ok()?;
            let src = parse_eid(t[3])?;
            let sv: Option<(u8, u16)> = opt2(t[4], |x| x.parse().ok())?;
            let wk: Option<(u8, Vec<u8>)> = opt2(t[5], unhex)?;
            let isf: Option<(u8, u16)> = opt2(t[6], |x| x.parse().ok())?;
            let results = parse_results(t[7])?;
            let bib = IntegrityBlock { security_targets: targets.clone(), security_context_id: BIB_HMAC_SHA2_ID, security_context_flags: cf, security_source: src.clone(),
                security_context_parameters: Some(BibSecurityContextParameter::new(sv, wk.clone(), isf)), security_results: results.clone() };
            let r = no_panic(|| bib.to_cbor());
            let mut e = Exec::new(match &r { Some(v) => format!("ok {}", hex(v)), None => "panic".into() });
            let judged = cf == 1 && results.len() == targets.len() && results.iter().all(|x| x.len() == 1) && !targets.is_empty();
            e.tags.push(format!("judged:{}", judged));
            if judged {
                // RFC 9172 section 3.6
                let mut w = cbor_head(4, targets.len() as u64);
                for x in &targets { w.extend(cbor_head(0, *x)); }
                w.extend(cbor_head(0, 1));
                w.extend(cbor_head(0, cf as u64));
                w.extend(serde_cbor::to_vec(&src).unwrap());
                let np = sv.is_some() as u64 + wk.is_some() as u64 + isf.is_some() as u64;
                w.extend(cbor_head(4, np));
                if let Some((i, v)) = sv { w.extend(cbor_head(4, 2)); w.extend(cbor_head(0, i as u64)); w.extend(cbor_head(0, v as u64)); }
                if let Some((i, k)) = &wk { w.extend(cbor_head(4, 2)); w.extend(cbor_head(0, *i as u64)); w.extend(bstr(k)); }
                if let Some((i, f)) = isf { w.extend(cbor_head(4, 2)); w.extend(cbor_head(0, i as u64)); w.extend(cbor_head(0, f as u64)); }
                w.extend(cbor_head(4, targets.len() as u64));
                for rs in &results { w.extend(cbor_head(4, 1)); w.extend(cbor_head(4, 2)); w.extend(cbor_head(0, rs[0].0)); w.extend(bstr(&rs[0].1)); }
                match &r {
                    Some(v) if *v == w => {}
                    Some(v) => e.oracle_fail = Some(format!("abstract security block {} is not the RFC 9172 3.6 field sequence {}", clip(&hex(v)), clip(&hex(&w)))),
                    None => e.oracle_fail = Some("to_cbor panics".into()),
                }
            }
            Some(e)
        }
        "sec.block" => {
            if t.len() != 4 { return None; }
            let num: u64 = t[1].parse().ok()?;
            let fl: u8 = t[2].parse().ok()?;
            let asb = unhex(t[3])?;
            let r = no_panic(|| new_integrity_block(num, flags::BlockControlFlags::from_bits_retain(fl), asb.clone()));
            let mut e = Exec::new(match &r { Some(c) => format!("ok {}", show_canon(c)), None => "panic".into() });
            match &r {
                Some(c) if c.block_type == 11 && c.block_number == num && c.block_control_flags == fl && *c.data() == CanonicalData::Unknown(asb.clone()) => {
                    // carried opaquely: the block survives encode/decode with the ASB bytes unchanged
                    let enc = serde_cbor::to_vec(c).unwrap();
                    match serde_cbor::from_slice::<CanonicalBlock>(&enc) { Ok(d) if d == *c => {}, _ => e.oracle_fail = Some("integrity block does not survive CBOR encode/decode".into()) }
                }
                _ => e.oracle_fail = Some("integrity block is not an opaque block of type 11 holding the ASB".into()),
            }
            Some(e)
        }
        _ => None,
    }
}

fn gen_target(rng: &mut Rng) -> CanonicalBlock {
    let mut c = loop { let c = gen_block(rng, true); if !matches!(c.data(), CanonicalData::DecodingError) { break c; } };
    // targets with and without a CRC of their own (the CRC is not a protected field)
    if rng.chance(2, 3) { c.crc = crc::CrcValue::CrcNo; } else if rng.chance(1, 2) { c.crc = crc::CrcValue::Crc32([1, 2, 3, 4]); } else { c.crc = crc::CrcValue::Crc16([9, 9]); }
    // typed data whose CBOR form has a length at a head-width boundary (23/24, 255/256, 65535/65536 bytes):
    // previous-node EIDs with node names of the matching lengths; opaque data of those lengths
    if rng.chance(1, 8) {
        let total = *rng.pick(&[22usize, 23, 24, 25, 254, 255, 256, 257, 65_535, 65_536]);
        let text = total - 2 - if total - 2 < 24 + 1 { 1 } else if total - 2 < 256 + 2 { 2 } else { 3 };   // [scheme, text]: 82 01 <head> <text>
        if text >= 4 {
            let name: String = std::iter::repeat('k').take(text - 3).collect();
            c = new_canonical_block(6, c.block_number, c.block_control_flags, CanonicalData::PreviousNode(EndpointID::Dtn(1, dtn_address(format!("//{}/", name).as_bytes()).unwrap())));
        }
    } else if rng.chance(1, 10) {
        let n = *rng.pick(&[23usize, 24, 255, 256, 65_535, 65_536]);
        c = new_canonical_block(if rng.chance(1, 2) { 1 } else { 192 }, c.block_number, c.block_control_flags, if rng.chance(1, 2) { CanonicalData::Data(rng.bytes(n)) } else { CanonicalData::Unknown(rng.bytes(n)) });
        if let CanonicalData::Unknown(_) = c.data() { c.block_type = 192; } else { c.block_type = 1; }
    }
    c
}

fn one_block(p: &primary::PrimaryBlock, cs: Vec<CanonicalBlock>) -> String { show_bundle(&Bundle::new(p.clone(), cs)) }

pub fn generate(ctx: &mut Ctx, rep: &mut Report, emit: &mut dyn FnMut(&mut Ctx, &mut Report, String)) {
    let mut rng = Rng::new(ctx.seed ^ 0x5ec);
    let hdrs = ["11.2.0", "11.3.1", "11.18446744073709551615.255", "12.24.4", "-"];
    // every scope-flag combination x every kind of target, with and without the optional parts
    for _ in 0..ctx.n(60, 3000) {
        for flags in 0..8u16 {
            let mut p = gen_primary(&mut rng, true);
            if !rng.chance(1, 10) { p.crc = crc::CrcValue::CrcNo; }
            let tg = gen_target(&mut rng);
            let hdr = if flags & 4 != 0 && !rng.chance(1, 12) { *rng.pick(&hdrs[..4]) } else { *rng.pick(&hdrs) };
            let pp = if flags & 1 != 0 && !rng.chance(1, 12) { "p" } else if rng.chance(1, 2) { "p" } else { "-" };
            let fl = if rng.chance(1, 10) { flags | (rng.next() as u16 & 0xfff8) } else { flags };
            emit(ctx, rep, format!("sec.ippt {} {} {} {}", fl, hdr, pp, one_block(&p, vec![tg.clone()])));
            // a second target differing in one field (or in none)
            let mut t2 = tg.clone();
            match rng.below(6) {
                0 => t2.block_number = t2.block_number.wrapping_add(1 + rng.below(3)),
                1 => t2.block_control_flags ^= 1 << rng.below(8),
                2 => { if let CanonicalData::Unknown(_) = t2.data() { t2.block_type = if t2.block_type == 192 { 193 } else { 192 }; } }
                3 => { let d = match t2.data().clone() {
                        CanonicalData::Data(mut b) => { if b.is_empty() { b.push(0) } else { let i = rng.below(b.len() as u64) as usize; b[i] ^= 1 << rng.below(8); } CanonicalData::Data(b) }
                        CanonicalData::Unknown(mut b) => { b.push(rng.next() as u8); CanonicalData::Unknown(b) }
                        CanonicalData::BundleAge(a) => CanonicalData::BundleAge(a ^ (1 << rng.below(64))),
                        CanonicalData::HopCount(l, c) => if rng.chance(1, 2) { CanonicalData::HopCount(l ^ 1, c) } else { CanonicalData::HopCount(l, c ^ 0x80) },
                        CanonicalData::PreviousNode(_) => CanonicalData::PreviousNode(gen_eid_wf(&mut rng)),
                        d => d };
                    t2.set_data(d); }
                4 => { // a typed block against an opaque block holding the same bytes
                    if !matches!(t2.data(), CanonicalData::Data(_) | CanonicalData::Unknown(_)) { let raw = serde_cbor::to_vec(t2.data()).unwrap(); t2 = new_canonical_block(200, t2.block_number, t2.block_control_flags, CanonicalData::Unknown(raw)); } }
                _ => {}
            }
            emit(ctx, rep, format!("sec.pair {} {} {} {}", fl, hdr, pp, one_block(&p, vec![tg, t2])));
        }
    }
    // HMAC results: three variants, message lengths around the SHA-2 block and padding boundaries
    let lens: [usize; 22] = [0, 1, 16, 54, 55, 56, 57, 63, 64, 65, 110, 111, 112, 113, 119, 120, 127, 128, 129, 200, 256, 1000];
    for i in 0..ctx.n(600, 40_000) {
        let variant = if rng.chance(1, 25) { *rng.pick(&[0u64, 1, 4, 8, 65535]) } else { 5 + rng.below(3) };
        let key = if rng.chance(1, 10) { vec![0u8; 16] } else { rng.bytes(16) };
        let nt = 1 + rng.below(3);
        let targets: Vec<u64> = (0..nt).map(|_| match rng.below(5) { 0 => rng.u64b(), _ => 1 + rng.below(6) }).collect();
        let nl = rng.below(4);
        let list: Vec<(u64, Vec<u8>)> = (0..nl).map(|j| {
            let num = if rng.chance(4, 5) { targets[(j as usize) % targets.len()] } else { 1 + rng.below(8) };
            let len = if (i + j) % 3 == 0 { lens[((i + j) / 3) as usize % lens.len()] } else { rng.below(300) as usize };
            (num, rng.bytes(len))
        }).collect();
        let l = if list.is_empty() { "-".to_string() } else { list.iter().map(|(n, v)| format!("{}:{}", n, hex(v))).collect::<Vec<_>>().join(",") };
        emit(ctx, rep, format!("sec.hmac {} {} {} {}", variant, hex(&key), targets.iter().map(|x| x.to_string()).collect::<Vec<_>>().join(","), l));
    }
    // abstract security block
    for _ in 0..ctx.n(800, 40_000) {
        let nt = if rng.chance(1, 20) { 0 } else { 1 + rng.below(3) };
        let targets: Vec<u64> = (0..nt).map(|_| match rng.below(5) { 0 => rng.u64b(), _ => 1 + rng.below(30) }).collect();
        let cf = if rng.chance(1, 10) { rng.next() as u8 } else { 1 };
        let src = gen_eid_wf(&mut rng);
        let sv = if rng.chance(9, 10) { format!("{}.{}", if rng.chance(1, 8) { rng.below(256) } else { 1 }, if rng.chance(1, 8) { rng.below(65536) } else { 5 + rng.below(3) }) } else { "-".into() };
        let wk = if rng.chance(1, 4) { let l = 1 + rng.below(40) as usize; format!("{}.{}", 2, hex(&rng.bytes(l))) } else { "-".into() };
        let isf = if rng.chance(9, 10) { format!("{}.{}", 3, if rng.chance(1, 8) { rng.below(65536) } else { rng.below(8) }) } else { "-".into() };
        let nr = if rng.chance(1, 12) { rng.below(4) } else { nt };
        let results: Vec<Vec<(u64, Vec<u8>)>> = (0..nr).map(|_| {
            let k = if rng.chance(1, 15) { rng.below(3) } else { 1 };
            (0..k).map(|_| (if rng.chance(1, 8) { rng.u64b() } else { 1 }, { let l = *rng.pick(&[32usize, 48, 64, 0, 23, 24]); rng.bytes(l) })).collect()
        }).collect();
        let ts = if targets.is_empty() { "-".to_string() } else { targets.iter().map(|x| x.to_string()).collect::<Vec<_>>().join(",") };
        emit(ctx, rep, format!("sec.asb {} {} {} {} {} {} {}", ts, cf, show_eid(&src), sv, wk, isf, show_results(&results)));
    }
    for _ in 0..ctx.n(200, 5000) {
        let n = match rng.below(4) { 0 => rng.u64b(), _ => 2 + rng.below(10) };
        let asb = gen_payload(&mut rng);
        emit(ctx, rep, format!("sec.block {} {} {}", n, rng.next() as u8, hex(&asb)));
    }
}
