//! C01–C04: CBOR codec, RFC reference encoder, CRC.
use crate::cborx;
use crate::fw::*;
use crate::gen::*;
use crate::notation::*;
use bp7::bundle::Bundle;
use bp7::canonical::{new_payload_block, CanonicalData};
use bp7::dtntime::CreationTimestamp;
use bp7::flags::BlockControlFlags;
use bp7::crc::{CrcBlock, CrcValue};
use bp7::eid::EndpointID;
use std::convert::TryFrom;

pub fn eid_canonical(e: &EndpointID) -> bool {
    match e {
        EndpointID::DtnNone(c, v) => *c == 1 && *v == 0,
        EndpointID::Dtn(c, a) => *c == 1 && !a.to_string().is_empty(),
        EndpointID::Ipn(c, a) => *c == 2 && a.node_number() >= 1,
    }
}

/// The C01 domain ("well-formed bundle value").
pub fn wf(b: &Bundle) -> bool { wf_with(b, false) }

/// The same with CRC type codes the library does not know (3..=255) allowed: such blocks carry no CRC
/// field and never verify, but they still have to survive encode / decode unchanged.
pub fn wf_x(b: &Bundle) -> bool { wf_with(b, true) }

fn wf_with(b: &Bundle, unknown_crc: bool) -> bool {
    let p = &b.primary;
    let crc_ok = |c: &CrcValue| match c { CrcValue::Unknown(k) => unknown_crc && *k >= 3, _ => true };
    if !crc_ok(&p.crc) || !eid_canonical(&p.destination) || !eid_canonical(&p.source) || !eid_canonical(&p.report_to) { return false; }
    if primary_version(p) > u32::MAX as u64 { return false; }
    if p.lifetime.subsec_nanos() % 1_000_000 != 0 || p.lifetime.as_millis() > u64::MAX as u128 { return false; }
    if p.bundle_control_flags & 1 == 0 && (p.fragmentation_offset != 0 || p.total_data_length != 0) { return false; }
    for c in &b.canonicals {
        if !crc_ok(&c.crc) { return false; }
        let ok = match c.data() {
            CanonicalData::Data(_) => c.block_type == 1,
            CanonicalData::BundleAge(_) => c.block_type == 7,
            CanonicalData::HopCount(_, _) => c.block_type == 10,
            CanonicalData::PreviousNode(e) => c.block_type == 6 && eid_canonical(e),
            CanonicalData::Unknown(_) => ![1u64, 6, 7, 10].contains(&c.block_type),
            CanonicalData::DecodingError => false,
        };
        if !ok { return false; }
    }
    true
}

fn erase_crc(b: &Bundle) -> Bundle {
    let mut x = b.clone();
    let t = x.primary.crc_type();
    x.primary.set_crc_type(t);
    for c in &mut x.canonicals { let t = c.crc_type(); c.set_crc_type(t); }
    x
}

/// C04 oracle on freshly encoded bytes: every block's CRC field is the independent CRC of the
/// block with zeroed CRC value; blocks with type 0 have no CRC item.
fn wire_crc_fail(b: &Bundle, bytes: &[u8]) -> Option<String> {
    let blocks = match cborx::bundle_blocks(bytes) { Some(x) => x, None => return Some("encoded bundle is not `9f <items> ff`".into()) };
    if blocks.len() != b.canonicals.len() + 1 { return Some(format!("{} blocks on the wire, {} in the bundle", blocks.len(), b.canonicals.len() + 1)); }
    for (i, r) in blocks.iter().enumerate() {
        let primary = i == 0;
        let want_t = if primary { b.primary.crc_type() } else { b.canonicals[i - 1].crc_type() } as u64;
        match cborx::block_crc_check(bytes, *r, primary) {
            None => return Some(format!("block {} is not a definite array with a CRC type", i)),
            Some((t, chk, n)) => {
                if t != want_t { return Some(format!("block {} CRC type {} on the wire, {} in the bundle", i, t, want_t)); }
                let frag = b.primary.bundle_control_flags & 1 == 1;
                let base = if primary { if frag { 10 } else { 8 } } else { 5 };
                let want_n = base + if t == 1 || t == 2 { 1 } else { 0 };
                if t <= 2 && n != want_n { return Some(format!("block {} has {} items, expected {}", i, n, want_n)); }
                if chk == Some(false) { return Some(format!("block {} CRC field is not the CRC of the block with zeroed CRC value", i)); }
            }
        }
    }
    None
}

pub fn exec(line: &str, model: &mut Model) -> Option<Exec> {
    let t: Vec<&str> = line.split(' ').collect();
    match t[0] {
        "crc16" | "crc32" => {
            let d = unhex(t.get(1)?)?;
            let (lib, ind) = if t[0] == "crc16" {
                (bp7::crc::X25.checksum(&d) as u64, cborx::crc16_x25(&d) as u64)
            } else {
                (bp7::crc::CASTAGNOLI.checksum(&d) as u64, cborx::crc32c(&d) as u64)
            };
            // the model prints its bit-serial value, the catalogue-parameter reference value and
            // the value of its model of the crc crate's table-driven algorithm
            let mut e = Exec::new(format!("ok {} {} {}", lib, lib, lib));
            if lib != ind { e.oracle_fail = Some(format!("library {} = {:#x}, independent bitwise CRC = {:#x}", t[0], lib, ind)); }
            e.nontrivial = d.len() > 0;
            Some(e)
        }
        "enc" | "spec.enc" => {
            let (b, n) = parse_bundle(&t[1..])?;
            if n + 1 != t.len() { return None; }
            let is_wf = wf(&b);
            let mut b1 = b.clone();
            if line.len() % 11 == 3 {
                // serialisations that FAIL half way (a fixed buffer that is too small) just before the one that counts:
                // whatever the serialisers keep between calls must be as after a successful call
                let _ = no_panic(|| {
                    for k in [0usize, 1, 2, 3, 5, 8, 13, 21] {
                        for c in &b.canonicals { let mut buf = vec![0u8; k]; let _ = serde_cbor::to_writer(&mut buf[..], c); }
                        let mut buf = vec![0u8; k + 9]; let _ = serde_cbor::to_writer(&mut buf[..], &b.primary);
                        let mut buf = vec![0u8; 3 * k + 1]; let _ = serde_cbor::to_writer(&mut buf[..], &b);
                    }
                });
            }
            let r = no_panic(|| { let bytes = b1.to_cbor(); (bytes, b1) });
            let (bytes, b1) = match r { Some(x) => x, None => {
                let mut e = Exec::new("panic".into());
                e.oracle_fail = Some("to_cbor panics".into());
                return Some(e);
            } };
            let mut e = Exec::new(format!("ok {} {}", hex(&bytes), show_bundle(&b1)));
            e.tags.push(format!("blocks:{}", match b.canonicals.len() { 0 => "0".into(), 1..=4 => "1-4".into(), 5..=21 => "5-21".to_string(), 22..=23 => "22-23".into(), 24..=255 => "24-255".into(), _ => "256+".to_string() }));
            e.tags.push(format!("wf:{}", is_wf));
            let is_wfx = wf_x(&b);
            if is_wfx && !is_wf { e.tags.push("unknown-crc-type:true".into()); }
            if is_wf || is_wfx {
                // C01: round trip, determinism, idempotence, only CRC values change
                let back = no_panic(|| Bundle::try_from(bytes.as_slice()));
                match &back {
                    Some(Ok(d)) if *d == b1 => {}
                    Some(Ok(d)) => e.oracle_fail = Some(format!("decode(encode(b)) differs from b: {}", show_bundle(d))),
                    Some(Err(err)) => e.oracle_fail = Some(format!("own encoding rejected by the decoder: {}", err)),
                    None => e.oracle_fail = Some("decoder panics on own encoding".into()),
                }
                // the same bytes through a reader (nothing can be borrowed from the input)
                if e.oracle_fail.is_none() {
                    let rd = no_panic(|| serde_cbor::from_reader::<Bundle, _>(bytes.as_slice()).ok()).flatten();
                    if rd.as_ref() != Some(&b1) { e.oracle_fail = Some("decode(encode(b)) through serde_cbor::from_reader differs from b".into()); }
                }
                let mut b2 = b1.clone();
                let again = no_panic(|| b2.to_cbor());
                if again.as_ref() != Some(&bytes) || b2 != b1 { e = e.fail(Some("second encoding differs (not idempotent)".into())); }
                let mut b3 = b.clone();
                if no_panic(|| b3.to_cbor()).as_ref() != Some(&bytes) { e = e.fail(Some("encoding the same bundle twice gives different bytes".into())); }
                if erase_crc(&b1) != erase_crc(&b) { e = e.fail(Some("encoding changed something other than stored CRC values".into())); }
                // C04
                e = e.fail(wire_crc_fail(&b1, &bytes));
                if let (true, Some(Ok(mut d))) = (is_wf, back) { if !d.crc_valid() { e = e.fail(Some("freshly encoded bundle fails crc_valid after decoding".into())); } }
            }
            Some(e)
        }
        "hist" => {
            // hist <B1> | <B2>: ONE object is encoded as B1, then changed field by field into B2 (its stored CRC values are
            // left as the first encoding computed them), then encoded again. The second encoding must be the encoding of
            // B2 — whatever the object remembers from the first one (memoised checksums, cached bytes) must not show.
            let k = t.iter().position(|x| *x == "|")?;
            let (b1, n1) = parse_bundle(&t[1..k])?;
            let (b2, n2) = parse_bundle(&t[k + 1..])?;
            if n1 + 1 != k || n2 + k + 1 != t.len() { return None; }
            let mut obj = b1.clone();
            let r = no_panic(move || {
                let _ = obj.to_cbor();
                obj.primary.bundle_control_flags = b2.primary.bundle_control_flags;
                obj.primary.destination = b2.primary.destination.clone();
                obj.primary.source = b2.primary.source.clone();
                obj.primary.report_to = b2.primary.report_to.clone();
                obj.primary.creation_timestamp = b2.primary.creation_timestamp.clone();
                obj.primary.lifetime = b2.primary.lifetime;
                obj.primary.fragmentation_offset = b2.primary.fragmentation_offset;
                obj.primary.total_data_length = b2.primary.total_data_length;
                if obj.canonicals.len() == b2.canonicals.len() {
                    for (o, n) in obj.canonicals.iter_mut().zip(b2.canonicals.iter()) {
                        o.block_type = n.block_type; o.block_number = n.block_number; o.block_control_flags = n.block_control_flags;
                        if o.data() != n.data() { o.set_data(n.data().clone()); }
                    }
                } else { obj.canonicals = b2.canonicals.clone(); }
                let bytes = obj.to_cbor();
                (bytes, obj)
            });
            let (bytes, obj) = match r { Some(x) => x, None => { let mut e = Exec::new("panic".into()); e.oracle_fail = Some("to_cbor panics".into()); return Some(e); } };
            let mut e = Exec::new(format!("ok {} {}", hex(&bytes), show_bundle(&obj)));
            e.model_line = Some(format!("enc {}", t[k + 1..].join(" ")));
            if wf(&obj) {
                e = e.fail(wire_crc_fail(&obj, &bytes));
                match no_panic(|| Bundle::try_from(bytes.as_slice())) {
                    Some(Ok(mut d)) => { if d != obj { e = e.fail(Some(format!("after encode / change / encode, decode(encode(b)) differs from b: {}", show_bundle(&d)))); } else if !d.crc_valid() { e = e.fail(Some("after encode / change / encode, the decoded bundle fails crc_valid".into())); } }
                    _ => { e = e.fail(Some("after encode / change / encode, the own encoding does not decode".into())); }
                }
            }
            Some(e)
        }
        "histupd" => {
            // histupd <node> <rt> <now> <B>: ONE object is encoded, updated for forwarding, and encoded again; the second
            // encoding must be the encoding of what a fresh, never encoded object looks like after the same update
            let node = parse_eid(t.get(1)?)?;
            let rt: u128 = t.get(2)?.parse().ok()?;
            let now: u64 = t.get(3)?.parse().ok()?;
            let (b, n) = parse_bundle(&t[4..])?;
            if n + 4 != t.len() { return None; }
            crate::p_misc::set_clock_dtn(now);
            let mut fresh = b.clone();
            let (node1, node2) = (node.clone(), node);
            let fr = no_panic(move || { let r = fresh.update_extensions(node1, rt); (r, fresh) });
            let mut obj = b.clone();
            let r = no_panic(move || { let _ = obj.to_cbor(); let ret = obj.update_extensions(node2, rt); let bytes = obj.to_cbor(); (ret, bytes, obj) });
            let (fret, fresh) = fr?;
            let (ret, bytes, obj) = match r { Some(x) => x, None => { let mut e = Exec::new("panic".into()); e.oracle_fail = Some("encode / update / encode panics".into()); return Some(e); } };
            let mut e = Exec::new(format!("ok {} {}", hex(&bytes), show_bundle(&obj)));
            e.model_line = Some(format!("enc {}", show_bundle(&fresh)));
            if ret != fret { e = e.fail(Some("update_extensions answers differently on an object that has been encoded before".into())); }
            if wf(&obj) {
                e = e.fail(wire_crc_fail(&obj, &bytes));
                match no_panic(|| Bundle::try_from(bytes.as_slice())) {
                    Some(Ok(d)) => { if d != obj { e = e.fail(Some(format!("after encode / update / encode, decode(encode(b)) differs from b: {}", show_bundle(&d)))); } }
                    _ => { e = e.fail(Some("after encode / update / encode, the own encoding does not decode".into())); }
                }
            }
            Some(e)
        }
        "spec.dec" => {
            // C03: bytes come from the independent reference encoder (the Lean spec through the driver)
            let (b, n) = parse_bundle(&t[1..])?;
            if n + 1 != t.len() { return None; }
            let ans = model.ask1(&format!("spec.enc {}", t[1..].join(" ")));
            let parts: Vec<&str> = ans.split(' ').collect();
            if parts.len() < 3 || parts[0] != "ok" { return None; }
            let bytes = unhex(parts[1])?;
            let expect = parts[2..].join(" ");
            let r = no_panic(|| Bundle::try_from(bytes.as_slice()));
            let mut e;
            match r {
                None => { e = Exec::new("panic".into()); e.oracle_fail = Some("decoder panics on a conformant bundle".into()); }
                Some(Err(err)) => { e = Exec::new("err".into()); if wf(&b) { e.oracle_fail = Some(format!("conformant bundle rejected: {}", err)); } }
                Some(Ok(mut d)) => {
                    let shown = show_bundle(&d);
                    let crcok = no_panic(|| d.crc_valid());
                    let mut d2 = d.clone();
                    let re = no_panic(|| d2.to_cbor());
                    let same = re.as_ref() == Some(&bytes);
                    e = Exec::new(format!("ok {} crcok={} reenc={}", shown, crcok.map(|x| x.to_string()).unwrap_or("panic".into()), if same { "same" } else { "diff" }));
                    if wf(&b) {
                        if shown != expect { e.oracle_fail = Some(format!("decoded content differs from what the peer encoded: {} vs {}", shown, expect)); }
                        else if crcok != Some(true) { e.oracle_fail = Some("conformant bundle with the peer's CRC values fails crc_valid".into()); }
                        else if !same { e.oracle_fail = Some("conformant bundle does not re-encode to the received bytes".into()); }
                        // the same item tree with some byte / text strings written in indefinite-length (chunked) form, which RFC
                        // 9171 does not exclude for them: same content
                        if e.oracle_fail.is_none() && line.len() % 4 == 2 {
                            let mut r = Rng::new(line.len() as u64 * 7919 + bytes.len() as u64);
                            let cb = crate::p_rx::chunk_strings(&mut r, &bytes);
                            match no_panic(|| Bundle::try_from(cb.as_slice())) {
                                Some(Ok(dt)) if show_bundle(&dt) == shown => {}
                                other => e.oracle_fail = Some(format!("the same conformant bundle with chunked strings ({}) is not decoded to the same content: {:?}", clip(&hex(&cb)), other.map(|r| r.map(|x| show_bundle(&x))))),
                            }
                        }
                        // the same bundle behind semantic tags (RFC 8949 3.4; theorem C03.accepted_tagged): same content
                        if e.oracle_fail.is_none() && line.len() % 4 == 1 {
                            let tags: &[u8] = match line.len() % 5 { 0 => &[0xd9, 0xd9, 0xf7], 1 => &[0xd8, 0x18], 2 => &[0xc0], 3 => &[0xdb, 0, 0, 0, 0, 0, 0, 0, 1], _ => &[0xd9, 0xd9, 0xf7, 0xd8, 0x18, 0xc1] };
                            let mut tb = tags.to_vec(); tb.extend_from_slice(&bytes);
                            match no_panic(|| Bundle::try_from(tb.as_slice())) {
                                Some(Ok(dt)) if show_bundle(&dt) == shown => {}
                                other => e.oracle_fail = Some(format!("the same conformant bundle behind semantic tags {} is not decoded to the same content: {:?}", hex(tags), other.map(|r| r.map(|x| show_bundle(&x))))),
                            }
                        }
                    }
                }
            }
            e.tags.push(format!("wf:{}", wf(&b)));
            Some(e)
        }
        "json.enc" => {
            let (b, n) = parse_bundle(&t[1..])?;
            if n + 1 != t.len() { return None; }
            let mut b1 = b.clone();
            let r = no_panic(|| { let j = b1.to_json(); (j, b1) });
            let (j, b1) = match r { Some(x) => x, None => { let mut e = Exec::new("panic".into()); e.oracle_fail = Some("to_json panics".into()); return Some(e); } };
            let back = no_panic(|| Bundle::try_from(j.clone()));
            let mut e = Exec::new(format!("ok {} {} rt={}", hex(j.as_bytes()), show_bundle(&b1), match &back { None => "panic".to_string(), Some(Ok(d)) => format!("ok {}", show_bundle(d)), Some(Err(_)) => "err".to_string() }));
            if wf_x(&b) {
                match &back {
                    Some(Ok(d)) if *d == b1 => {}
                    Some(Ok(d)) => e.oracle_fail = Some(format!("JSON round trip yields a different bundle: {}", show_bundle(d))),
                    Some(Err(err)) => e.oracle_fail = Some(format!("own JSON form rejected: {}", err)),
                    None => e.oracle_fail = Some("JSON parser panics on own output".into()),
                }
            }
            e.tags.push(format!("frag:{} wf:{}", b.primary.bundle_control_flags & 1, wf(&b)));
            Some(e)
        }
        "crcok" => {
            let (mut b, n) = parse_bundle(&t[1..])?;
            if n + 1 != t.len() { return None; }
            let r = no_panic(|| b.crc_valid());
            Some(Exec::new(match r { Some(v) => format!("ok {}", v), None => "panic".into() }))
        }
        "dec" => {
            let bytes = unhex(t.get(1)?)?;
            let (r, ways) = decode_ways(bytes.as_slice());
            let mut e = Exec::new(match &r { None => "panic".into(), Some(Err(_)) => "err".into(), Some(Ok(b)) => format!("ok {}", show_bundle(b)) });
            if r.is_none() { e.oracle_fail = Some("decoder panics".into()); } else { e.oracle_fail = ways; }
            e.nontrivial = bytes.len() > 2;
            Some(e)
        }
        _ => None,
    }
}

/// Mutate a bundle through the public mutators after a CRC computation (C04 history quantifier).
fn mutate_after_crc(rng: &mut Rng, b: &mut Bundle) {
    let _ = no_panic(|| { let mut x = b.clone(); x.calculate_crc(); *b = x; });
    match rng.below(5) {
        0 => b.set_payload(gen_payload(rng)),
        1 => { b.primary.lifetime = std::time::Duration::from_millis(rng.u64b()); }
        2 => { let t = rng.below(3) as u8; b.primary.set_crc_type(t); }
        3 => { if let Some(c) = b.canonicals.first_mut() { c.block_control_flags ^= 1; } }
        _ => { let t = rng.below(3) as u8; if let Some(c) = b.canonicals.last_mut() { c.set_crc_type(t); } }
    }
}

/// Bundles whose freshly computed CRC values are special bit patterns (all zero, all one, equal bytes,
/// byte-palindromes): found by search over the sequence number (CRC-16) and by solving the GF(2)-linear
/// system over four payload bytes (CRC-32C). Independent CRC routines (cborx) are used for the search.
pub fn special_crc_bundles(rng: &mut Rng) -> Vec<Bundle> {
    let mut out = vec![];
    // CRC-16 on the primary block: search the sequence number
    for target in [0x0000u16, 0xffff, 0xabab, 0x0100] {
        let mut b = gen_bundle(rng, &Opts { wf: true, max_blocks: 2 });
        b.primary.crc = CrcValue::Crc16Empty;
        let t = b.primary.creation_timestamp.dtntime();
        for s in 0..400_000u64 {
            b.primary.creation_timestamp = CreationTimestamp::with_time_and_seq(t, s);
            let mut p = b.primary.clone();
            p.crc = CrcValue::Crc16Empty;
            let enc = serde_cbor::to_vec(&p).unwrap();
            if crate::cborx::crc16_x25(&enc) == target { out.push(b.clone()); break; }
        }
    }
    // CRC-32C on a payload block: four free bytes at the end of the payload, solved linearly
    for target in [0x0000_0000u32, 0xffff_ffff, 0xabcd_cdab, 0x0000_0001] {
        let mut b = gen_bundle(rng, &Opts { wf: true, max_blocks: 2 });
        let pl = rng.below(12) as usize;
        let prefix = rng.bytes(pl);
        let enc = |x: u32| -> Vec<u8> {
            let mut d = prefix.clone(); d.extend_from_slice(&x.to_be_bytes());
            let mut c = new_payload_block(BlockControlFlags::empty(), d);
            c.crc = CrcValue::Crc32Empty;
            serde_cbor::to_vec(&c).unwrap()
        };
        let c0 = crate::cborx::crc32c(&enc(0));
        // columns d_i = crc(E(e_i)) ^ crc(E(0)); solve sum x_i d_i = target ^ c0
        let mut rows: Vec<(u32, u32)> = (0..32).map(|i| (crate::cborx::crc32c(&enc(1 << i)) ^ c0, 1u32 << i)).collect();
        let mut want = target ^ c0;
        let mut x = 0u32;
        for bit in (0..32).rev() {
            if let Some(pos) = rows.iter().position(|r| r.0 >> bit & 1 == 1) {
                let piv = rows.remove(pos);
                for r in rows.iter_mut() { if r.0 >> bit & 1 == 1 { r.0 ^= piv.0; r.1 ^= piv.1; } }
                if want >> bit & 1 == 1 { want ^= piv.0; x ^= piv.1; }
            }
        }
        if want == 0 && crate::cborx::crc32c(&enc(x)) == target {
            let mut d = prefix.clone(); d.extend_from_slice(&x.to_be_bytes());
            let mut c = new_payload_block(BlockControlFlags::empty(), d);
            c.crc = CrcValue::Crc32Empty;
            b.canonicals.retain(|k| k.block_type != 1);
            b.canonicals.push(c);
            out.push(b);
        }
    }
    out
}

pub fn generate(prop: &str, ctx: &mut Ctx, rep: &mut Report, emit: &mut dyn FnMut(&mut Ctx, &mut Report, String)) {
    let mut rng = Rng::new(ctx.seed ^ 0xC01);
    let op = match prop { "C02" => "spec.enc", "C03" => "spec.dec", "C15" => "json.enc", _ => "enc" };
    // all block counts across the array-head boundaries
    let counts: Vec<u64> = if ctx.tier_thorough { (0..=300).collect() } else { vec![0, 1, 2, 20, 21, 22, 23, 24, 25, 134, 135, 136, 137, 138, 139, 254, 255, 256, 257, 391, 392, 393, 394] };
    for n in counts {
        let mut b = gen_bundle(&mut rng, &Opts { wf: true, max_blocks: 0 });
        b.canonicals = (0..n).map(|_| gen_block(&mut rng, true)).collect();
        emit(ctx, rep, format!("{} {}", op, show_bundle(&b)));
    }
    // the next width of an array head: 65 534 / 65 535 / 65 536 blocks after the primary block (65 536 and more
    // array items need a five-byte head wherever a definite head is computed); small opaque blocks keep this cheap
    if prop == "C01" || prop == "C02" || prop == "C04" {
        for n in if ctx.tier_thorough { vec![65_534u64, 65_535, 65_536, 65_537] } else { vec![65_534, 65_535] } {
            let mut b = gen_bundle(&mut rng, &Opts { wf: true, max_blocks: 0 });
            b.canonicals = (0..n).map(|i| bp7::canonical::new_canonical_block(if i % 5 == 0 { 200 } else { 192 }, 2 + i, 0, bp7::canonical::CanonicalData::Unknown(vec![i as u8]))).collect();
            b.canonicals.push(bp7::canonical::new_payload_block(bp7::flags::BlockControlFlags::empty(), vec![1, 2, 3]));
            emit(ctx, rep, format!("{} {}", op, show_bundle(&b)));
        }
    }
    let n = ctx.n(3_000, 300_000);
    for i in 0..n {
        let mut b = gen_bundle(&mut rng, &Opts { wf: true, max_blocks: if i % 50 == 0 { 300 } else { 30 } });
        if prop == "C04" && i % 2 == 0 { mutate_after_crc(&mut rng, &mut b); }
        if prop == "C02" && i % 7 == 3 && b.primary.bundle_control_flags & 1 == 0 {
            // a non-fragment whose fragment fields still hold values (reassembled bundle, builder call without the
            // flag): the wire format has 8 (9) items all the same (outside the round-trip domain, inside C02's)
            b.primary.fragmentation_offset = rng.u64b();
            b.primary.total_data_length = if rng.chance(1, 4) { 0 } else { 1 + rng.u64b() / 2 };
        }
        if (prop == "C01" || prop == "C15") && i % 9 == 4 {
            // CRC type codes the library does not know, on fragments and non-fragments alike
            let k = *rng.pick(&[3u8, 4, 23, 24, 255]);
            match rng.below(3) { 0 => b.primary.crc = CrcValue::Unknown(k), 1 => { if let Some(c) = b.canonicals.last_mut() { c.crc = CrcValue::Unknown(k); } }
                _ => { b.primary.crc = CrcValue::Unknown(k); for c in b.canonicals.iter_mut() { if rng.chance(1, 2) { c.crc = CrcValue::Unknown(3 + rng.below(253) as u8); } } } }
            if rng.chance(1, 2) { b.primary.bundle_control_flags |= 1; b.primary.fragmentation_offset = rng.u64b(); b.primary.total_data_length = rng.u64b(); }
        }
        if prop == "C02" && i % 15 == 6 {
            // a lifetime with a fraction of a millisecond (API only): the wire carries whole milliseconds, rounded down
            // as everywhere else in the crate (Duration::as_millis)
            let mut toks: Vec<String> = show_bundle(&b).split(' ').map(|x| x.to_string()).collect();
            toks[9] = format!("{}+{}", toks[9], *rng.pick(&[1u32, 400_000, 333_333, 999_999, 500_000]));
            emit(ctx, rep, format!("{} {}", op, toks.join(" ")));
        }
        emit(ctx, rep, format!("{} {}", op, show_bundle(&b)));
        if i % 40 == 7 {
            // the same bundle again with ONE field changed, back to back on the same thread (whatever an encoder
            // remembers from the previous call — buffers, "same header" shortcuts — must not leak into the next)
            let base = b.clone();
            for k in 0..12 {
                let mut v = base.clone();
                match k {
                    0 => v.primary.report_to = crate::gen::gen_eid_wf(&mut rng),
                    1 => v.primary.destination = crate::gen::gen_eid_wf(&mut rng),
                    2 => v.primary.source = crate::gen::gen_eid_wf(&mut rng),
                    3 => v.primary.lifetime = std::time::Duration::from_millis(rng.u64b()),
                    4 => v.primary.creation_timestamp = bp7::CreationTimestamp::with_time_and_seq(base.primary.creation_timestamp.dtntime(), base.primary.creation_timestamp.seqno().wrapping_add(1)),
                    5 => v.primary.creation_timestamp = bp7::CreationTimestamp::with_time_and_seq(base.primary.creation_timestamp.dtntime().wrapping_add(1), base.primary.creation_timestamp.seqno()),
                    6 => v.primary.bundle_control_flags ^= *rng.pick(&[0x4u64, 0x80, 0x100, 1 << 21, 1 << 40]),
                    7 => { if v.primary.bundle_control_flags & 1 == 1 { v.primary.total_data_length = v.primary.total_data_length.wrapping_add(1); } else { continue; } }
                    8 => { let n = v.canonicals.len(); if n > 0 { let j = rng.below(n as u64) as usize; v.canonicals[j].block_control_flags ^= *rng.pick(&[0x10u8, 0x01, 0x20, 0x04]); } else { continue; } }
                    9 => { if let Some(c) = v.canonicals.last_mut() { c.block_number = c.block_number.wrapping_add(1); } else { continue; } }
                    10 => { let t = match v.primary.crc { CrcValue::CrcNo => 1, CrcValue::Crc16Empty | CrcValue::Crc16(_) => 2, _ => 0 }; v.set_crc(t); }
                    _ => { let n = v.canonicals.len(); if n >= 2 { v.canonicals.swap(0, n - 1); } else { continue; } }
                }
                emit(ctx, rep, format!("{} {}", op, show_bundle(&v)));
                if k % 4 == 3 { emit(ctx, rep, format!("{} {}", op, show_bundle(&base))); }
                // ... and as a history of ONE object (the variants that change a CRC type or move blocks are left out: the CRC
                // types stay where they were)
                if (prop == "C01" || prop == "C04") && k == 0 {
                    // ... and with a forwarding update between the two encodings (hop count, age, previous node present)
                    let mut u = base.clone();
                    u.canonicals.retain(|c| ![6u64, 7, 10].contains(&c.block_type));
                    u.canonicals.insert(0, bp7::canonical::new_canonical_block(10, 90, 0, bp7::canonical::CanonicalData::HopCount(40, rng.below(30) as u8)));
                    u.canonicals.insert(0, bp7::canonical::new_canonical_block(7, 91, 0, bp7::canonical::CanonicalData::BundleAge(rng.below(1000))));
                    u.canonicals.insert(0, bp7::canonical::new_canonical_block(6, 92, 0, bp7::canonical::CanonicalData::PreviousNode(crate::gen::gen_eid_wf(&mut rng))));
                    u.primary.lifetime = std::time::Duration::from_millis(u64::MAX / 4);
                    u.primary.creation_timestamp = bp7::CreationTimestamp::with_time_and_seq(0, 1);
                    emit(ctx, rep, format!("histupd {} {} {} {}", show_eid(&crate::gen::gen_eid_wf(&mut rng)), 1 + rng.below(50), 1_000_000, show_bundle(&u)));
                }
                if (prop == "C01" || prop == "C04") && k < 10 { emit(ctx, rep, format!("hist {} | {}", show_bundle(&base), show_bundle(&v))); }
            }
        }
        if prop == "C15" && (i == 5 || i == n / 2) {
            // a JSON text beyond 1 MiB, then ordinary bundles on the same thread
            let mut big = gen_bundle(&mut rng, &Opts { wf: true, max_blocks: 2 });
            big.set_payload(rng.bytes(400_000));
            emit(ctx, rep, format!("{} {}", op, show_bundle(&big)));
            for _ in 0..3 { let small = gen_bundle(&mut rng, &Opts { wf: true, max_blocks: 3 }); emit(ctx, rep, format!("{} {}", op, show_bundle(&small))); }
        }
        if (prop == "C04" || prop == "C01") && (i == 5 || i == n / 2) {
            // blocks beyond 1 MiB (streaming / scratch-buffer code paths), with and without reserved flag bits, and
            // the ordinary bundles that follow them on the same thread
            for (extra, fl) in [(1usize, 0u8), (4_097, 0x20), (0, 0x18), (3, 0x41)] {
                let mut big = gen_bundle(&mut rng, &Opts { wf: true, max_blocks: 2 });
                big.set_payload(rng.bytes((1 << 20) + extra));
                big.set_crc(if extra % 2 == 0 { 1 } else { 2 });
                for c in big.canonicals.iter_mut() { if c.block_type == 1 { c.block_control_flags = fl; } }
                if i == 5 || ctx.tier_thorough || extra == 1 { emit(ctx, rep, format!("{} {}", op, show_bundle(&big))); }
                let mut small = gen_bundle(&mut rng, &Opts { wf: true, max_blocks: 3 });
                small.set_crc(1 + (extra % 2) as u8);
                emit(ctx, rep, format!("{} {}", op, show_bundle(&small)));
            }
        }
        if prop == "C01" && i % 4 == 0 {
            // decode side on its own: the encoded form as a `dec` line
            let mut c = b.clone();
            if let Some(bytes) = no_panic(|| c.to_cbor()) { emit(ctx, rep, format!("dec {}", hex(&bytes))); }
        }
    }
    if prop == "C04" || prop == "C01" || prop == "C03" || prop == "C02" || prop == "C15" {
        for b in special_crc_bundles(&mut rng) { emit(ctx, rep, format!("{} {}", op, show_bundle(&b))); }
    }
    if prop == "C04" {
        for len in 0..ctx.n(300, 4097) {
            let d = rng.bytes(len as usize);
            emit(ctx, rep, format!("crc16 {}", hex(&d)));
            emit(ctx, rep, format!("crc32 {}", hex(&d)));
        }
        for _ in 0..ctx.n(3_000, 200_000) {
            let len = rng.below(64) as usize;
            let d = rng.bytes(len);
            emit(ctx, rep, format!("{} {}", if rng.chance(1, 2) { "crc16" } else { "crc32" }, hex(&d)));
        }
    }
}
