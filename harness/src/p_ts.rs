//! C09: CreationTimestamp::now() under forced schedules (real OS threads, baton scheduler through
//! the cfg(bp7_verif) scheduling point) and free-running stress.
use crate::fw::*;
use bp7::dtntime::CreationTimestamp;
use std::sync::mpsc::{channel, Receiver, Sender};

const MS2K: u64 = 946_684_800_000;

enum Go { Step(u64), Exit }
enum Done { Mid, Ret(u64, u64) }

fn worker(rx: Receiver<Go>, tx: Sender<Done>) {
    // the receiver is shared with the scheduling-point callback
    let rx = std::rc::Rc::new(rx);
    let rx2 = rx.clone();
    let tx2 = tx.clone();
    bp7::verif_hooks::set_sched(Some(Box::new(move |_id| {
        let _ = tx2.send(Done::Mid);
        // wait for the scheduler to give this thread its second step
        let _ = rx2.recv();
    })));
    loop {
        match rx.recv() {
            Ok(Go::Step(clock)) => {
                bp7::verif_hooks::set_clock_ms(Some(clock + MS2K));
                let ts = CreationTimestamp::now();
                let _ = tx.send(Done::Ret(ts.dtntime(), ts.seqno()));
            }
            _ => break,
        }
    }
    bp7::verif_hooks::set_sched(None);
}

/// Runs the schedule; returns the (time, seq) pairs in order of return.
pub fn run_schedule(sched: &[(usize, u64)]) -> Vec<(u64, u64)> {
    let n = sched.iter().map(|x| x.0).max().map(|m| m + 1).unwrap_or(0);
    let mut chans = vec![];
    let mut handles = vec![];
    for _ in 0..n {
        let (txg, rxg) = channel::<Go>();
        let (txd, rxd) = channel::<Done>();
        handles.push(std::thread::spawn(move || worker(rxg, txd)));
        chans.push((txg, rxd));
    }
    let mut mid = vec![false; n];
    let mut out = vec![];
    for (t, clock) in sched {
        chans[*t].0.send(Go::Step(*clock)).unwrap();
        match chans[*t].1.recv().unwrap() {
            Done::Mid => mid[*t] = true,
            Done::Ret(a, b) => { mid[*t] = false; out.push((a, b)); }
        }
    }
    // let calls that are still between their two steps finish (results not part of the case)
    for t in 0..n {
        if mid[t] { chans[t].0.send(Go::Step(0)).unwrap(); let _ = chans[t].1.recv(); }
        let _ = chans[t].0.send(Go::Exit);
    }
    for h in handles { let _ = h.join(); }
    out
}

fn parse_sched(s: &str) -> Option<Vec<(usize, u64)>> {
    if s == "-" { return Some(vec![]); }
    s.split(',').map(|e| { let (a, b) = e.split_once(':')?; Some((a.parse().ok()?, b.parse().ok()?)) }).collect()
}

pub fn exec(line: &str, _model: &mut Model) -> Option<Exec> {
    let t: Vec<&str> = line.split(' ').collect();
    match t[0] {
        "ts.run" => {
            let sched = parse_sched(t.get(1)?)?;
            if sched.iter().any(|x| x.0 > 7) { return None; }
            let out = run_schedule(&sched);
            let mut e = Exec::new(format!("ok {}", out.iter().map(|(a, b)| format!("{}.{}", a, b)).collect::<Vec<_>>().join(" ")));
            let mut seen = std::collections::HashSet::new();
            for p in &out { if !seen.insert(*p) { e.oracle_fail = Some(format!("the pair (time {}, seq {}) was returned twice", p.0, p.1)); break; } }
            e.nontrivial = out.len() >= 2;
            e.tags.push(format!("calls:{}", out.len()));
            Some(e)
        }
        _ => None,
    }
}

/// all interleavings of `threads` threads with `steps` steps each
fn interleavings(threads: usize, steps: usize) -> Vec<Vec<usize>> {
    fn go(rem: &mut Vec<usize>, cur: &mut Vec<usize>, out: &mut Vec<Vec<usize>>) {
        if rem.iter().all(|x| *x == 0) { out.push(cur.clone()); return; }
        for t in 0..rem.len() { if rem[t] > 0 { rem[t] -= 1; cur.push(t); go(rem, cur, out); cur.pop(); rem[t] += 1; } }
    }
    let mut out = vec![];
    go(&mut vec![steps; threads], &mut vec![], &mut out);
    out
}

pub fn generate(ctx: &mut Ctx, rep: &mut Report, emit: &mut dyn FnMut(&mut Ctx, &mut Report, String)) {
    let mut rng = Rng::new(ctx.seed ^ 0xC09);
    let mut base: u64 = 10_000;
    let mut emit_case = |ctx: &mut Ctx, rep: &mut Report, order: &[usize], deltas: &[i64], base: &mut u64| {
        // the k-th *call* of the whole case (in order of its clock read) gets clock base + 5 + delta_k
        let mut started = std::collections::HashMap::new();
        let mut k = 0;
        let mut items = vec![];
        for t in order {
            let mid = started.entry(*t).or_insert(false);
            let clock = if !*mid { let c = (*base as i64 + 5 + deltas[k % deltas.len()]) as u64; k += 1; c } else { 0 };
            *mid = !*mid;
            items.push(format!("{}:{}", t, clock));
        }
        emit(ctx, rep, format!("ts.run {}", if items.is_empty() { "-".to_string() } else { items.join(",") }));
        *base += 100;
    };
    // exhaustive: 2 threads x 2 calls (4 steps each), all 70 interleavings x all clock patterns in {-1,0,+1}^4
    let inter = interleavings(2, 4);
    let n_inter = inter.len();
    for order in &inter {
        for code in 0..81u32 {
            let d: Vec<i64> = (0..4).map(|i| ((code / 3u32.pow(i)) % 3) as i64 - 1).collect();
            if !ctx.tier_thorough && code % 3 != 0 && rng.chance(1, 2) { continue; }
            emit_case(ctx, rep, order, &d, &mut base);
        }
    }
    rep.exhaustive_parts.push(format!("all {} interleavings of 2 threads x 2 calls (two steps per call){}", n_inter, if ctx.tier_thorough { " x all 81 clock patterns (same / next / previous ms per call)" } else { " x a sample of the 81 clock patterns" }));
    // random: 3 threads, up to 3 calls each
    for _ in 0..ctx.n(2_000, 200_000) {
        let threads = 2 + rng.below(2) as usize;
        let mut rem: Vec<usize> = (0..threads).map(|_| 2 * (1 + rng.below(3) as usize)).collect();
        let mut order = vec![];
        while rem.iter().any(|x| *x > 0) { let t = rng.below(threads as u64) as usize; if rem[t] > 0 { rem[t] -= 1; order.push(t); } }
        if rng.chance(1, 3) { let cut = rng.below(order.len() as u64 + 1) as usize; order.truncate(cut); }
        let d: Vec<i64> = (0..9).map(|_| match rng.below(6) { 0 => -1, 1 => 1, 2 => -2, _ => 0 }).collect();
        emit_case(ctx, rep, &order, &d, &mut base);
    }
    // long sequential runs inside one stored millisecond (frozen clock; clock stepped back): the sequence numbers
    // have to keep counting past every narrow-integer boundary (2^8, 2^16, in the thorough tier 2^24)
    {
        let frozen = base + 1_000_000 + MS2K;
        let n_calls = ctx.n(70_000, 17_000_000);
        bp7::verif_hooks::set_clock_ms(Some(frozen));
        let first = CreationTimestamp::now();
        let mut prev = (first.dtntime(), first.seqno());
        let mut bad: Option<String> = None;
        for k in 1..n_calls {
            if k == n_calls / 2 { bp7::verif_hooks::set_clock_ms(Some(frozen - 7)); }   // the clock steps back
            let t = CreationTimestamp::now();
            let cur = (t.dtntime(), t.seqno());
            if cur.0 < prev.0 || (cur.0 == prev.0 && cur.1 != prev.1 + 1) {
                bad = Some(format!("call {} of a run of sequential calls in one millisecond returned (time {}, seq {}) after (time {}, seq {})", k, cur.0, cur.1, prev.0, prev.1));
                break;
            }
            prev = cur;
        }
        bp7::verif_hooks::set_clock_ms(None);
        rep.support.insert("long_run_one_millisecond".into(), serde_json::json!({"calls": n_calls, "note": "frozen clock, stepped back by 7 ms half way; consecutive sequence numbers demanded"}));
        if let Some(m) = bad { rep.oracle_fail("", "long-run-one-ms", &m); }
    }
    // sequential histories that mix timestamp generation with the other readers of the clock (dtn_time_now,
    // the lifetime check): reading the clock must not disturb the numbering
    {
        let mut clock = base + 5_000_000 + MS2K;
        let mut maxc = 0u64;
        let mut prev: Option<(u64, u64, u64)> = None;   // (clock at call, time, seq)
        let mut seen = std::collections::HashSet::new();
        let mut bad: Option<String> = None;
        let steps = ctx.n(30_000, 1_000_000);
        let pb = bp7::primary::PrimaryBlock::new();
        for k in 0..steps {
            match rng.below(8) { 0 | 1 => clock += 1, 2 => clock += 1 + rng.below(50), 3 => clock -= rng.below(3).min(clock - MS2K - 1), _ => {} }
            bp7::verif_hooks::set_clock_ms(Some(clock));
            match rng.below(5) { 0 => { let _ = bp7::dtn_time_now(); } 1 => { let _ = pb.is_lifetime_exceeded(); } _ => {} }
            let t = CreationTimestamp::now();
            let cur = (t.dtntime(), t.seqno());
            let c = clock - MS2K;
            if !seen.insert(cur) { bad = Some(format!("step {}: the pair (time {}, seq {}) was returned twice", k, cur.0, cur.1)); break; }
            if c > maxc && (cur.0 != c || cur.1 != 0) && k > 0 { bad = Some(format!("step {}: first call in a later millisecond (clock {}) returned (time {}, seq {}), expected sequence number 0", k, c, cur.0, cur.1)); break; }
            if let Some((pc, pt, ps)) = prev { if pc == c && pt == c && (cur.0 != c || cur.1 != ps + 1) { bad = Some(format!("step {}: consecutive calls in millisecond {} returned seq {} then (time {}, seq {})", k, c, ps, cur.0, cur.1)); break; } }
            if c > maxc { maxc = c; }
            prev = Some((c, cur.0, cur.1));
        }
        bp7::verif_hooks::set_clock_ms(None);
        rep.support.insert("mixed_sequential_history".into(), serde_json::json!({"steps": steps, "note": "now() interleaved with dtn_time_now() / is_lifetime_exceeded(); clock same / later / stepped back"}));
        if let Some(m) = bad { rep.oracle_fail("", "mixed-history", &m); }
    }
    // free-running stress on the real clock (supporting evidence only)
    let threads = 16;
    let per = ctx.n(20_000, 200_000);
    let hs: Vec<_> = (0..threads).map(|_| std::thread::spawn(move || { bp7::verif_hooks::set_clock_ms(None); (0..per).map(|_| { let t = CreationTimestamp::now(); (t.dtntime(), t.seqno()) }).collect::<Vec<_>>() })).collect();
    let mut all = std::collections::HashSet::new();
    let mut dups = 0u64;
    let mut total = 0u64;
    for h in hs { for p in h.join().unwrap() { total += 1; if !all.insert(p) { dups += 1; } } }
    rep.support.insert("free_running_stress".into(), serde_json::json!({"threads": threads, "calls": total, "duplicate_pairs": dups, "note": "real clock, no forced schedule; sanity check only"}));
    if dups > 0 { rep.oracle_fail("", "free-running-stress", &format!("{} duplicate (time, seq) pairs in {} calls from {} free-running threads", dups, total, threads)); }
}
