//! C07 validate, C08 update_extensions, C10 EIDs, C11 op sequences, C12 admin records,
//! C13 bundle IDs, C17 time.
use crate::fw::*;
use crate::gen::*;
use crate::notation::*;
use crate::p_codec::wf;
use bp7::administrative_record::*;
use bp7::bundle::Bundle;
use bp7::canonical::*;
use bp7::dtntime::{CreationTimestamp, DtnTimeHelpers};
use bp7::eid::EndpointID;
use bp7::error::Error;
use bp7::flags::BlockControlFlags;
use std::convert::{TryFrom, TryInto};

const MS2K: u64 = 946_684_800_000;

pub fn set_clock_dtn(now: u64) {
    bp7::verif_hooks::set_clock_ms(Some(now.wrapping_add(MS2K)));
}

// ---------------------------------------------------------------- C07

fn kind_of(e: &Error, in_blocks: bool) -> &'static str {
    let d = format!("{:?}", e);
    match e {
        Error::PrimaryBlockError(_) => "version",
        Error::BundleControlFlagsError(_) => {
            if d.contains("reserved") { "flagsReserved" } else if d.contains("Both") { "flagsFragment" } else { "flagsAdmin" }
        }
        Error::EIDError(_) => if in_blocks { "blockData" } else { "eid" },
        Error::BlockControlFlagsError(_) => "blockReserved",
        Error::CanonicalBlockError(_) => "blockData",
        Error::BundleError(_) => {
            if d.contains("Transmit status report") { "blockStatusReport" }
            else if d.contains("Block numbers") { "dupNumber" }
            else if d.contains("must not occure") { "dupType" }
            else if d.contains("Creation Timestamp") { "ageMissing" }
            else if d.contains("Missing Payload") { "noPayload" }
            else { "other" }
        }
        _ => "other",
    }
}

pub fn validate_kinds(b: &Bundle) -> Vec<&'static str> {
    let n0 = match b.primary.validate() { Ok(()) => 0, Err(v) => v.len() };
    match b.validate() {
        Ok(()) => vec![],
        Err(v) => v.iter().enumerate().map(|(i, e)| kind_of(e, i >= n0)).collect(),
    }
}

fn eid_well_formed(e: &EndpointID) -> bool {
    match e {
        EndpointID::DtnNone(c, v) => *c == 1 && *v == 0,
        EndpointID::Ipn(c, a) => *c == 2 && a.node_number() >= 1,
        EndpointID::Dtn(_, a) => { let s = a.to_string(); s.starts_with("//") && s[2..].contains('/') }
    }
}

/// The rules of the property statement, written from its text. None = not judged.
pub fn spec_valid(b: &Bundle) -> Option<bool> {
    let f = b.primary.bundle_control_flags;
    if f & 0xE218 == 0xE218 { return None; }
    for c in &b.canonicals {
        if c.block_control_flags & 0xF0 == 0xF0 { return None; }
        // only shapes a decoder can produce are judged
        match c.data() {
            CanonicalData::Unknown(_) if [1u64, 6, 7, 10].contains(&c.block_type) => return None,
            CanonicalData::DecodingError => return None,
            _ => {}
        }
    }
    let admin = f & 0x2 != 0;
    let mut ok = primary_version(&b.primary) == 7;
    ok &= !(f & 0x1 != 0 && f & 0x4 != 0);
    ok &= !(admin && f & (0x4000 | 0x10000 | 0x20000 | 0x40000) != 0);
    ok &= eid_well_formed(&b.primary.destination) && eid_well_formed(&b.primary.source) && eid_well_formed(&b.primary.report_to);
    let mut nums = std::collections::BTreeSet::new();
    let mut cnt = std::collections::BTreeMap::new();
    let mut payload = false;
    for c in &b.canonicals {
        let m = match c.data() {
            CanonicalData::Data(_) => c.block_type == 1 && c.block_number == 1,
            CanonicalData::BundleAge(_) => c.block_type == 7,
            CanonicalData::HopCount(_, _) => c.block_type == 10,
            CanonicalData::PreviousNode(e) => c.block_type == 6 && eid_well_formed(e),
            CanonicalData::Unknown(_) => true,
            CanonicalData::DecodingError => false,
        };
        ok &= m;
        if c.block_type == 1 && m { payload = true; }
        ok &= nums.insert(c.block_number);
        *cnt.entry(c.block_type).or_insert(0u32) += 1;
        if (admin || b.primary.source == EndpointID::none()) && c.block_control_flags & 0x02 != 0 { ok = false; }
    }
    for t in [6u64, 7, 10] { if cnt.get(&t).copied().unwrap_or(0) > 1 { ok = false; } }
    ok &= payload;
    if b.primary.creation_timestamp.dtntime() == 0 && cnt.get(&7).copied().unwrap_or(0) == 0 { ok = false; }
    Some(ok)
}

// ---------------------------------------------------------------- C08

fn first_valid<'a>(b: &'a Bundle, t: u64) -> Option<&'a CanonicalBlock> {
    b.canonicals.iter().find(|c| c.block_type == t && c.extension_validation().is_ok())
}

/// Independent statement of the forwarding rule (u128 arithmetic). Returns the expected return
/// value and, for the `true` case, the expected bundle.
fn spec_update(b: &Bundle, node: &EndpointID, rt: u128, now: u64) -> (bool, Option<Bundle>) {
    let life = b.primary.lifetime.as_millis();
    let mut hop_ex = false;
    let mut age_ex = false;
    let mut nb = b.clone();
    if let Some(c) = first_valid(b, 10) { if let CanonicalData::HopCount(l, n) = c.data() { hop_ex = (*n as u32) + 1 > *l as u32; } }
    if let Some(c) = first_valid(b, 7) { if let CanonicalData::BundleAge(a) = c.data() { age_ex = (*a as u128).saturating_add(rt) > life; } }
    let t = b.primary.creation_timestamp.dtntime();
    let expired = t != 0 && (t as u128) + life <= now as u128;
    let ret = !(hop_ex || age_ex || expired);
    if ret {
        let mut done = [false; 3];
        for c in nb.canonicals.iter_mut() {
            if c.extension_validation().is_err() { continue; }
            match (c.block_type, c.data().clone()) {
                (10, CanonicalData::HopCount(l, n)) if !done[0] => { c.set_data(CanonicalData::HopCount(l, n + 1)); done[0] = true; }
                (10, _) if !done[0] => { done[0] = true; }
                (7, CanonicalData::BundleAge(a)) if !done[1] => { // age + residence time exactly; where that does not fit the 64-bit field (possible only under a lifetime of
                // 2^64 ms or more, which only the API can build) the field holds its largest value — never a wrapped one
                c.set_data(CanonicalData::BundleAge(u64::try_from((a as u128).saturating_add(rt)).unwrap_or(u64::MAX))); done[1] = true; }
                (7, _) if !done[1] => { done[1] = true; }
                (6, CanonicalData::PreviousNode(_)) if !done[2] => { c.set_data(CanonicalData::PreviousNode(node.clone())); done[2] = true; }
                (6, _) if !done[2] => { done[2] = true; }
                _ => {}
            }
        }
        (true, Some(nb))
    } else { (false, None) }
}

// ---------------------------------------------------------------- C13

fn identity(b: &Bundle) -> (String, u64, u64, bool, u64) {
    let frag = b.primary.bundle_control_flags & 1 == 1;
    (eid_text(&b.primary.source), b.primary.creation_timestamp.dtntime(), b.primary.creation_timestamp.seqno(), frag,
     if frag { b.primary.fragmentation_offset } else { 0 })
}

// ---------------------------------------------------------------- C17

/// independent civil-from-days (Hinnant), for the oracle
fn civil(days: i64) -> (i64, u32, u32) {
    let z = days + 719468;
    let era = if z >= 0 { z } else { z - 146096 } / 146097;
    let doe = z - era * 146097;
    let yoe = (doe - doe / 1460 + doe / 36524 - doe / 146096) / 365;
    let y = yoe + era * 400;
    let doy = doe - (365 * yoe + yoe / 4 - yoe / 100);
    let mp = (5 * doy + 2) / 153;
    let d = doy - (153 * mp + 2) / 5 + 1;
    let m = if mp < 10 { mp + 3 } else { mp - 9 };
    (if m <= 2 { y + 1 } else { y }, m as u32, d as u32)
}
fn expected_rfc3339(dtn_ms: u64) -> String {
    let ms = dtn_ms as u128 + MS2K as u128;
    let secs = (ms / 1000) as i64;
    let (y, m, d) = civil(secs.div_euclid(86400));
    let sod = secs.rem_euclid(86400);
    let frac = (ms % 1000) as u32;
    let base = format!("{:04}-{:02}-{:02}T{:02}:{:02}:{:02}", y, m, d, sod / 3600, sod / 60 % 60, sod % 60);
    if frac == 0 { format!("{}Z", base) } else { format!("{}.{:03}000000Z", base, frac) }
}

// ---------------------------------------------------------------- exec

fn show_opt(o: Option<Vec<u8>>) -> String { match o { None => "none".into(), Some(b) => format!("some:{}", hex(&b)) } }
fn show_res_opt(o: Option<Option<String>>) -> String { match o { None => "panic".into(), Some(x) => show_opt(x.map(|s| s.into_bytes())) } }

fn eid_acc(e: &EndpointID) -> String {
    let node = no_panic(|| e.node());
    let nodeid = no_panic(|| e.node_id());
    format!("node={} nodeid={} svc={} isnode={} valid={} str={} nonsingle={} scheme={}",
        show_res_opt(node), show_res_opt(nodeid), show_opt(e.service_name().map(|s| s.into_bytes())),
        e.is_node_id(), e.validate().is_ok(), hex(e.to_string().as_bytes()), e.is_non_singleton(), e.scheme())
}

fn state_line(b: &Bundle) -> String {
    let mut c = b.clone();
    let rt = match no_panic(|| { let bytes = c.to_cbor(); (Bundle::try_from(bytes.as_slice()), c) }) {
        None => "panic".to_string(),
        Some((Ok(d), c2)) => (d == c2).to_string(),
        Some((Err(_), _)) => "err".to_string(),
    };
    format!("{} | payload={} valid={} rt={}", show_bundle(b), show_opt(b.payload().cloned()), validate_kinds(b).join(","), rt)
}

fn apply_op(b: &mut Bundle, t: &[&str]) -> Option<()> {
    match t {
        ["add", ty, nm, fl, crc, d] => { let mut c = new_canonical_block(ty.parse().ok()?, nm.parse().ok()?, fl.parse().ok()?, parse_data(d)?); c.crc = parse_crc(crc)?; b.add_canonical_block(c); }
        ["setpayload", h] => b.set_payload(unhex(h)?),
        // a payload block as a caller may hand it in: any block number (0 from CanonicalBlock::new, a taken one, …)
        ["setpayloadblock", nm, fl, h] => b.set_payload_block(new_canonical_block(1, nm.parse().ok()?, fl.parse().ok()?, CanonicalData::Data(unhex(h)?))),
        ["setcrc", c] => b.set_crc(c.parse().ok()?),
        // the object itself is encoded (not a copy): whatever an encoding leaves behind in it is there for the next operation
        ["tocbor"] => { let _ = b.to_cbor(); }
        ["upd", node, rt, now] => { set_clock_dtn(now.parse().ok()?); b.update_extensions(parse_eid(node)?, rt.parse().ok()?); }
        _ => return None,
    }
    Some(())
}

/// C11 invariants evaluated on the implementation alone.
fn inv_fail(b: &Bundle, last_payload: &Option<Vec<u8>>) -> Option<String> {
    let nums: Vec<u64> = b.canonicals.iter().map(|c| c.block_number).collect();
    if nums.iter().any(|n| *n == 0) { return Some("block number 0".into()); }
    if !nums.windows(2).all(|w| w[0] > w[1]) { return Some(format!("block numbers not strictly descending: {:?}", nums)); }
    let pl: Vec<&CanonicalBlock> = b.canonicals.iter().filter(|c| c.block_type == 1).collect();
    if pl.len() != 1 { return Some(format!("{} payload blocks", pl.len())); }
    if b.canonicals.last().map(|c| (c.block_type, c.block_number)) != Some((1, 1)) { return Some("payload block is not last with number 1".into()); }
    for t in [6u64, 7, 10] { if b.canonicals.iter().filter(|c| c.block_type == t).count() > 1 { return Some(format!("block type {} occurs more than once", t)); } }
    if let Some(p) = last_payload { if b.payload() != Some(p) { return Some("payload read back is not the one most recently set".into()); } }
    if let Err(e) = b.validate() { return Some(format!("bundle no longer validates: {:?}", e)); }
    let mut c = b.clone();
    match no_panic(|| { let bytes = c.to_cbor(); (Bundle::try_from(bytes.as_slice()), c) }) {
        Some((Ok(d), c2)) if d == c2 => None,
        _ => Some("bundle does not round-trip through CBOR".into()),
    }
}


/// An object with a history must behave like a fresh object of equal value: run the read-only operations on
/// `b`, edit public fields in place (chosen by `salt`), and compare every observable result with those of a
/// bundle rebuilt from the notation (fresh blocks, nothing remembered). Returns the first difference.
pub fn history_vs_fresh(b: &Bundle, salt: u64) -> Option<String> {
    let mut h = b.clone();
    let _ = no_panic(|| { let _ = h.validate(); let _ = h.payload().map(|p| p.len()); let _ = h.id(); let _ = h.previous_node().map(|e| e.to_string());
        let _ = h.is_administrative_record(); let _ = h.extension_block_by_type(10).is_some(); let _ = h.extension_block_by_type(7).is_some(); let _ = h.clone().crc_valid(); })?;
    let n = h.canonicals.len() as u64;
    match salt % 9 {
        0 if n > 0 => { let k = (salt / 9 % n) as usize; h.canonicals[k].block_number = h.canonicals[k].block_number.wrapping_add(1 + salt / 97 % 3); }
        1 if n > 0 => { let k = (salt / 9 % n) as usize; h.canonicals[k].block_type = [1u64, 6, 7, 10, 11, 192][(salt / 97 % 6) as usize]; }
        2 if n > 0 => { let k = (salt / 9 % n) as usize; h.canonicals[k].block_control_flags ^= [1u8, 2, 4, 0x10, 0x80][(salt / 97 % 5) as usize]; }
        3 => { h.primary.bundle_control_flags ^= [1u64, 2, 4, 0x40, 0x4000, 0x40000][(salt / 97 % 6) as usize]; }
        4 => { h.primary.source = if salt / 97 % 2 == 0 { EndpointID::none() } else { EndpointID::with_ipn(9, salt / 197 % 3).unwrap() }; }
        5 => { h.primary.creation_timestamp = CreationTimestamp::with_time_and_seq(if salt / 97 % 2 == 0 { 0 } else { 77 }, salt / 197 % 3); }
        6 if n > 1 => { h.canonicals.swap(0, n as usize - 1); }
        7 if n > 0 => { let k = (salt / 9 % n) as usize; h.canonicals.remove(k); }
        _ => {}
    }
    let (fresh, used) = parse_bundle(&show_bundle(&h).split(' ').collect::<Vec<_>>())?;
    let _ = used;
    if fresh != h { return None; }   // notation does not carry this value exactly: not judged
    let obs = |x: &Bundle| no_panic(|| (validate_kinds(x), x.id(), x.to_string(), x.payload().cloned(), x.previous_node().map(|e| e.to_string()), x.is_administrative_record(),
        x.clone().crc_valid(), x.clone().to_cbor(), x.primary.is_lifetime_exceeded()));
    let (a, f) = (obs(&h), obs(&fresh));
    if a != f { return Some(format!("a bundle that was inspected and then edited in place (edit {}) answers differently from a freshly built bundle of equal value: {} vs {}", salt % 9, clip(&format!("{:?}", a)), clip(&format!("{:?}", f)))); }
    None
}

pub fn exec(line: &str, _model: &mut Model) -> Option<Exec> {
    let t: Vec<&str> = line.split(' ').collect();
    match t[0] {
        "validate" => {
            let (b, n) = parse_bundle(&t[1..])?;
            if n + 1 != t.len() { return None; }
            let kinds = no_panic(|| validate_kinds(&b));
            let mut e = Exec::new(match &kinds { Some(k) => format!("ok {}", k.join(",")), None => "panic".into() });
            if let (Some(k), Some(sv)) = (&kinds, spec_valid(&b)) {
                if k.is_empty() != sv { e.oracle_fail = Some(format!("validate() says {}, the RFC rules of the property say {}", if k.is_empty() { "valid".to_string() } else { format!("invalid {:?}", k) }, if sv { "valid" } else { "invalid" })); }
                e.tags.push(format!("valid:{}", sv));
            } else { e.tags.push("valid:not-judged".into()); }
            // a verdict is required for EVERY bundle: accepted, or rejected with a non-empty error list — a panic is neither
            if kinds.is_none() { e.oracle_fail = Some("validate() panics instead of returning a verdict (the rules say: ".to_string() + match spec_valid(&b) { Some(true) => "valid)", Some(false) => "invalid)", None => "not judged)" }); }
            if e.oracle_fail.is_none() { set_clock_dtn(1_000); e.oracle_fail = history_vs_fresh(&b, line.len() as u64 * 31 + line.bytes().map(|x| x as u64).sum::<u64>()); }
            Some(e)
        }
        "id" => {
            let (b, n) = parse_bundle(&t[1..])?;
            if n + 1 != t.len() { return None; }
            let r = no_panic(|| (b.id(), b.to_string()));
            let mut e = Exec::new(match r { Some((i, d)) => format!("ok {} {}", hex(i.as_bytes()), hex(d.as_bytes())), None => "panic".into() });
            set_clock_dtn(1_000);
            e.oracle_fail = history_vs_fresh(&b, line.len() as u64 * 31 + line.bytes().map(|x| x as u64).sum::<u64>());
            Some(e)
        }
        "idpair" => {
            // idpair <B1> | <B2>
            let k = t.iter().position(|x| *x == "|")?;
            let (b1, n1) = parse_bundle(&t[1..k])?;
            let (b2, n2) = parse_bundle(&t[k + 1..])?;
            if n1 + 1 != k || n2 + k + 1 != t.len() { return None; }
            let (i1, i2) = (b1.id(), b2.id());
            let mut e = Exec::new(format!("ok {} {} {}", hex(i1.as_bytes()), hex(i2.as_bytes()), i1 == i2));
            let same_identity = identity(&b1) == identity(&b2);
            // the ID format written by the harness: the known finding covers exactly the collisions this format has
            // by itself ('-' inside a source string); any other collision or split is a failure of its own
            let honest = |b: &Bundle| -> String { let (s, ts, sq, fr, off) = identity(b); if fr { format!("{}-{}-{}-{}", s, ts, sq, off) } else { format!("{}-{}-{}", s, ts, sq) } };
            if (i1 == i2) != same_identity {
                if i1 == i2 && eid_text(&b1.primary.source) != eid_text(&b2.primary.source) && honest(&b1) == honest(&b2) {
                    e.known_key = "id-separator-ambiguity".into();
                    e.oracle_fail = Some(format!("bundles with different sources share the ID {}", i1));
                } else if i1 == i2 {
                    e.oracle_fail = Some(format!("bundles with different identity fields ({:?} / {:?}) share the ID {}", identity(&b1), identity(&b2), i1));
                } else {
                    e.oracle_fail = Some(format!("bundles with equal identity fields have different IDs {} / {}", i1, i2));
                }
            }
            e.tags.push(format!("ideq:{}", i1 == i2));
            Some(e)
        }
        "info" => {
            let (b, n) = parse_bundle(&t[1..])?;
            if n + 1 != t.len() { return None; }
            let r = no_panic(|| format!("ok payload={} prev={} admin={}", show_opt(b.payload().cloned()), b.previous_node().map(show_eid).unwrap_or("none".into()), b.is_administrative_record()));
            Some(Exec::new(r.unwrap_or("panic".into())))
        }
        "upd" => {
            let node = parse_eid(t.get(1)?)?;
            let rt: u128 = t.get(2)?.parse().ok()?;
            let now: u64 = t.get(3)?.parse().ok()?;
            if now > u64::MAX - MS2K { return None; } // not representable by the millisecond clock
            let (b, n) = parse_bundle(&t[4..])?;
            if n + 4 != t.len() { return None; }
            set_clock_dtn(now);
            let mut b1 = b.clone();
            let node2 = node.clone();
            let r = no_panic(move || { let ret = b1.update_extensions(node2, rt); (ret, b1) });
            let mut e;
            let (want_ret, want_b) = spec_update(&b, &node, rt, now);
            match r {
                None => { e = Exec::new("panic".into()); e.oracle_fail = Some("update_extensions panics".into()); }
                Some((ret, b1)) => {
                    e = Exec::new(format!("ok {} {}", ret, show_bundle(&b1)));
                    if ret != want_ret { e.oracle_fail = Some(format!("returned {}, the forwarding rule says {}", ret, want_ret)); }
                    else if let Some(wb) = want_b { if wb != b1 { e.oracle_fail = Some(format!("returned true but the bundle is {} instead of {}", show_bundle(&b1), show_bundle(&wb))); } }
                    e.tags.push(format!("ret:{}", ret));
                }
            }
            Some(e)
        }
        "build" => {
            // the public builders: PrimaryBlockBuilder, CanonicalBlockBuilder, BundleBuilder (+ `.payload(x)`)
            let pay = if *t.get(1)? == "n" { None } else { Some(unhex(t[1])?) };
            let helpers = *t.get(2)? == "h";
            let (b, n) = parse_bundle(&t[3..])?;
            if n + 3 != t.len() { return None; }
            let q = &b.primary;
            let r = no_panic(|| {
                let p = bp7::primary::PrimaryBlockBuilder::new().bundle_control_flags(q.bundle_control_flags).crc(q.crc.clone()).destination(q.destination.clone())
                    .source(q.source.clone()).report_to(q.report_to.clone()).creation_timestamp(q.creation_timestamp.clone()).lifetime(q.lifetime)
                    .fragmentation_offset(q.fragmentation_offset).total_data_length(q.total_data_length).build();
                let p = match p { Ok(p) => p, Err(_) => return "err primary".to_string() };
                let cs: Vec<CanonicalBlock> = b.canonicals.iter().map(|c| {
                    let bcf = BlockControlFlags::from_bits_retain(c.block_control_flags);
                    match (helpers, c.data()) {
                        (true, CanonicalData::Data(d)) => new_payload_block(bcf, d.clone()),
                        (true, CanonicalData::BundleAge(a)) => bp7::canonical::new_bundle_age_block(c.block_number, bcf, *a),
                        (true, CanonicalData::HopCount(l, _)) => bp7::canonical::new_hop_count_block(c.block_number, bcf, *l),
                        (true, CanonicalData::PreviousNode(e)) => bp7::canonical::new_previous_node_block(c.block_number, bcf, e.clone()),
                        _ => bp7::canonical::CanonicalBlockBuilder::new().block_type(c.block_type).block_number(c.block_number)
                            .block_control_flags(c.block_control_flags).crc(c.crc.clone()).data(c.data().clone()).build().unwrap(),
                    }
                }).collect();
                let mut bb = bp7::bundle::BundleBuilder::new().primary(p).canonicals(cs);
                if let Some(d) = &pay { bb = bb.payload(d.clone()); }
                match bb.build() { Ok(x) => format!("ok {}", show_bundle(&x)), Err(_) => "err payload".to_string() }
            });
            let mut e = Exec::new(r.clone().unwrap_or("panic".into()));
            if r.is_none() { e.oracle_fail = Some("a public builder panics".into()); }
            Some(e)
        }
        "seq" => {
            let (b0, n) = parse_bundle(&t[1..])?;
            let mut b = b0;
            let mut out = format!("ok {}", state_line(&b));
            let mut fail = None;
            let mut last_payload: Option<Vec<u8>> = b.payload().cloned();
            let init_ok = inv_fail(&b, &last_payload).is_none();
            let ops: Vec<&[&str]> = t[1 + n..].split(|x| *x == ";").filter(|o| !o.is_empty()).collect();
            let mut ok_ops = true;
            for o in ops {
                let r = no_panic(|| { let mut c = b.clone(); apply_op(&mut c, o).map(|_| c) });
                match r {
                    None => { out.push_str(" || panic"); fail = Some(format!("operation {:?} panics", o)); break; }
                    Some(None) => { out.push_str(" || bad-op"); break; }
                    Some(Some(c)) => { b = c; }
                }
                match o[0] { "setpayload" => last_payload = unhex(o[1]), "setpayloadblock" => last_payload = unhex(o[3]), _ => {} }
                // OpOk: added blocks are well typed, CRC types 0..2
                if o[0] == "add" { let c = parse_canon(&o[1..]); if !c.map(|c| c.block_control_flags & 0xf0 != 0xf0 && wf(&Bundle::new(bp7::primary::PrimaryBlock::new(), vec![c]))).unwrap_or(false) { ok_ops = false; } }
                if o[0] == "setcrc" && o[1].parse::<u8>().map(|x| x > 2).unwrap_or(true) { ok_ops = false; }
                if o[0] == "upd" && !parse_eid(o[1]).map(|e| eid_well_formed(&e)).unwrap_or(false) { ok_ops = false; }
                out.push_str(" || ");
                out.push_str(&state_line(&b));
                if fail.is_none() && init_ok && ok_ops { if let Some(f) = inv_fail(&b, &last_payload) { fail = Some(format!("after {:?}: {}", o, f)); } }
            }
            let mut e = Exec::new(out);
            e.oracle_fail = fail;
            e.tags.push(format!("judged:{}", init_ok && ok_ops));
            Some(e)
        }
        "eid.parse" => {
            let s = String::from_utf8(unhex(t.get(1)?)?).ok()?;
            let r = no_panic(|| EndpointID::try_from(s.as_str()));
            let mut e = Exec::new(match &r { None => "panic".into(), Some(Ok(x)) => format!("ok {}", show_eid(x)), Some(Err(_)) => "err".into() });
            // the other public ways to the same endpoint ID: TryFrom<String>, TryFrom<IpnAddress>, new()/none()/default()
            let r2 = no_panic(|| EndpointID::try_from(s.clone()));
            let cls = |x: &Option<Result<EndpointID, bp7::eid::EndpointIdError>>| match x { None => "panic".to_string(), Some(Ok(y)) => format!("ok {:?}", y), Some(Err(_)) => "err".to_string() };
            let mut ways: Option<String> = None;
            if cls(&r) != cls(&r2) { ways = Some(format!("EndpointID::try_from(&str) and try_from(String) disagree on {:?}: {} vs {}", s, cls(&r), cls(&r2))); }
            if let Some(Ok(EndpointID::Ipn(_, a))) = &r {
                let via = no_panic(|| EndpointID::try_from(a.clone()).ok()).flatten();
                if via.as_ref() != r.as_ref().and_then(|x| x.as_ref().ok()) { ways = Some(format!("EndpointID::try_from(IpnAddress) gives {:?} for the address of {:?}", via, s)); }
                if r.as_ref().and_then(|x| x.as_ref().ok()).and_then(|x| x.scheme_specific_part_ipn()) != Some(a.clone()) { ways = Some("scheme_specific_part_ipn differs from the address".into()); }
            }
            if let Some(Ok(x @ EndpointID::Dtn(_, a))) = &r {
                if x.scheme_specific_part_dtn() != Some(a.to_string()) || a.is_singleton() == a.is_non_singleton() || x.is_non_singleton() != a.is_non_singleton() { ways = Some(format!("dtn address accessors of {:?} disagree (scheme specific part / singleton tests)", s)); }
                let rebuilt = no_panic(|| bp7::eid::DtnAddress::new(a.node_name(), a.service_name().unwrap_or_default()).to_string());
                if rebuilt.as_deref() != Some(a.to_string().as_str()) { ways = Some(format!("DtnAddress::new(node, service) of {:?} prints {:?}", a.to_string(), rebuilt)); }
            }
            if EndpointID::new() != EndpointID::none() || EndpointID::default() != EndpointID::none() || EndpointID::none().to_string() != "dtn:none" { ways = Some("new() / default() / none() are not all dtn:none".into()); }
            match &r {
                None => e.oracle_fail = Some("parser panics".into()),
                Some(Ok(x)) => {
                    e.oracle_fail = ways.clone();
                    // C10: print/parse and CBOR round trips, accessors
                    let printed = x.to_string();
                    let back = no_panic(|| EndpointID::try_from(printed.as_str()));
                    if !matches!(&back, Some(Ok(y)) if y == x) { e = e.fail(Some(format!("{:?} prints as {:?} which does not parse back to it", s, printed))); }
                    let cb = serde_cbor::to_vec(x).ok().and_then(|v| serde_cbor::from_slice::<EndpointID>(&v).ok());
                    if cb.as_ref() != Some(x) { e = e.fail(Some("CBOR form does not decode back to an equal EID".into())); }
                    let cr = serde_cbor::to_vec(x).ok().and_then(|v| no_panic(|| serde_cbor::from_reader::<EndpointID, _>(&v[..]).ok()).flatten());
                    if cr.as_ref() != Some(x) { e = e.fail(Some(format!("CBOR form read through serde_cbor::from_reader does not decode back to an equal EID: {:?}", cr))); }
                    if let Some(Some(nid)) = no_panic(|| x.node_id()) {
                        match EndpointID::try_from(nid.as_str()) {
                            Ok(ne) if ne.node() == x.node() && ne.is_node_id() => {}
                            other => e = e.fail(Some(format!("node id {:?} of {:?} does not parse to a node ID with the same node part: {:?}", nid, printed, other))),
                        }
                    } else if *x != EndpointID::none() { e = e.fail(Some("node_id() is None or panics for a non-null EID".into())); }
                }
                Some(Err(_)) => { e.oracle_fail = ways.clone(); }
            }
            e.nontrivial = s.len() > 4;
            Some(e)
        }
        "eid.canon" => {
            // canonical string from the grammar: kind node service (hex each); must be accepted with parts unchanged
            let kind = *t.get(1)?;
            let a = String::from_utf8(unhex(t.get(2)?)?).ok()?;
            let b = String::from_utf8(unhex(t.get(3)?)?).ok()?;
            let s = match kind { "dtn" => format!("dtn://{}/{}", a, b), "ipn" => format!("ipn:{}.{}", a, b), _ => "dtn:none".to_string() };
            let r = no_panic(|| EndpointID::try_from(s.as_str()));
            let mut e = Exec::new(match &r { None => "panic".into(), Some(Ok(x)) => format!("ok {} {}", show_eid(x), eid_acc(x)), Some(Err(_)) => "err".into() });
            match &r {
                Some(Ok(x)) => {
                    let (wn, ws) = match kind { "dtn" => (Some(a.clone()), if b.is_empty() { None } else { Some(b.clone()) }),
                        "ipn" => (Some(a.clone()), if b == "0" { None } else { Some(b.clone()) }), _ => (None, None) };
                    if no_panic(|| x.node()) != Some(wn.clone()) || x.service_name() != ws { e.oracle_fail = Some(format!("{:?}: node/service reported as {:?}/{:?}, expected {:?}/{:?}", s, x.node(), x.service_name(), wn, ws)); }
                }
                _ => e.oracle_fail = Some(format!("canonical EID string {:?} rejected", s)),
            }
            Some(e)
        }
        "eid.bad" => {
            // near-miss string of a class the property says must be rejected
            let s = String::from_utf8(unhex(t.get(1)?)?).ok()?;
            let r = no_panic(|| EndpointID::try_from(s.as_str()));
            let mut e = Exec::new(match &r { None => "panic".into(), Some(Ok(x)) => format!("ok {}", show_eid(x)), Some(Err(_)) => "err".into() });
            if !matches!(r, Some(Err(_))) { e.oracle_fail = Some(format!("malformed EID string {:?} not rejected", s)); }
            // every public way in that takes text: the owned-String parser, and the text a bundle manifest / FFI caller hands over
            let r2 = no_panic(|| EndpointID::try_from(s.clone()));
            if e.oracle_fail.is_none() && !matches!(r2, Some(Err(_))) { e.oracle_fail = Some(format!("malformed EID string {:?} not rejected by TryFrom<String>: {:?}", s, r2)); }
            Some(e)
        }
        "eid.withdtn" => {
            let s = String::from_utf8(unhex(t.get(1)?)?).ok()?;
            let r = no_panic(|| EndpointID::with_dtn(&s));
            Some(Exec::new(match &r { None => "panic".into(), Some(Ok(x)) => format!("ok {}", show_eid(x)), Some(Err(_)) => "err".into() }))
        }
        "eid.withipn" => {
            let r = EndpointID::with_ipn(t.get(1)?.parse().ok()?, t.get(2)?.parse().ok()?);
            Some(Exec::new(match &r { Ok(x) => format!("ok {}", show_eid(x)), Err(_) => "err".into() }))
        }
        "eid.acc" => { let e = parse_eid(t.get(1)?)?; Some(Exec::new(format!("ok {}", eid_acc(&e)))) }
        "eid.cbor" => {
            let e = parse_eid(t.get(1)?)?;
            let v = serde_cbor::to_vec(&e).ok()?;
            let back = no_panic(|| serde_cbor::from_slice::<EndpointID>(&v));
            let mut ex = Exec::new(format!("ok {} {}", hex(&v), match &back { None => "panic".into(), Some(Ok(x)) => format!("ok {}", show_eid(x)), Some(Err(_)) => "err".into() }));
            // the same bytes through a reader (no borrowing from the input): same result
            if let Some(Ok(x)) = &back {
                let rd = no_panic(|| serde_cbor::from_reader::<EndpointID, _>(&v[..]).ok()).flatten();
                if rd.as_ref() != Some(x) { ex.oracle_fail = Some(format!("CBOR form decodes to {} from a slice but to {:?} from a reader", show_eid(x), rd)); }
            }
            Some(ex)
        }
        "eid.dec" => {
            let v = unhex(t.get(1)?)?;
            let back = no_panic(|| serde_cbor::from_slice::<EndpointID>(&v));
            Some(Exec::new(match back { None => "panic".into(), Some(Ok(x)) => format!("ok {}", show_eid(&x)), Some(Err(_)) => "err".into() }))
        }
        "eid.newep" => {
            let e0 = parse_eid(t.get(1)?)?;
            let s = String::from_utf8(unhex(t.get(2)?)?).ok()?;
            let r = no_panic(|| e0.new_endpoint(&s));
            let mut e = Exec::new(match &r { None => "panic".into(), Some(Ok(x)) => format!("ok {}", show_eid(x)), Some(Err(_)) => "err".into() });
            if let Some(Ok(x)) = &r {
                if eid_well_formed(&e0) && no_panic(|| x.node()) != no_panic(|| e0.node()) { e.oracle_fail = Some("sibling endpoint has a different node part".into()); }
                // ... and reports the new service (dtn receivers; the service is everything after "//node/")
                if let (EndpointID::Dtn(_, _), true, None) = (&e0, eid_well_formed(&e0), &e.oracle_fail) {
                    let got = no_panic(|| x.service_name()).flatten();
                    let want = if s.is_empty() { None } else { Some(s.clone()) };
                    if got != want { e.oracle_fail = Some(format!("sibling endpoint reports the service {:?}, the new service is {:?}", got, want)); }
                }
            }
            if r.is_none() && eid_well_formed(&e0) { e.oracle_fail = Some("new_endpoint panics".into()); }
            Some(e)
        }
        "time.unix" => {
            let x: u64 = t.get(1)?.parse().ok()?;
            let r = no_panic(|| x.unix());
            let mut e = Exec::new(match r { Some(v) => format!("ok {}", v), None => "panic".into() });
            if r != Some(x / 1000 + 946_684_800) { e.oracle_fail = Some(format!("unix({}) = {:?}, expected {}", x, r, x / 1000 + 946_684_800)); }
            Some(e)
        }
        "time.string" => {
            let x: u64 = t.get(1)?.parse().ok()?;
            let r = no_panic(|| x.string());
            let mut e = Exec::new(match &r { Some(v) => format!("ok {}", hex(v.as_bytes())), None => "panic".into() });
            match &r {
                None => e.oracle_fail = Some(format!("string({}) panics", x)),
                Some(sv) => if x <= 252_455_615_999_999 && *sv != expected_rfc3339(x) { e.oracle_fail = Some(format!("string({}) = {}, the instant is {}", x, sv, expected_rfc3339(x))); }
            }
            Some(e)
        }
        "ts.string" => {
            let x: u64 = t.get(1)?.parse().ok()?;
            let s: u64 = t.get(2)?.parse().ok()?;
            let r = no_panic(|| CreationTimestamp::with_time_and_seq(x, s).to_string());
            let mut e = Exec::new(match &r { Some(v) => format!("ok {}", hex(v.as_bytes())), None => "panic".into() });
            if r.is_none() { e.oracle_fail = Some("formatting a creation timestamp panics".into()); }
            Some(e)
        }
        "ts.sinks" => {
            // formatting into sinks that are not a plain String: a writer that itself formats a creation timestamp
            // whenever it is handed a piece of text (a log line stamper), and formatting from a thread-local's
            // destructor while the thread shuts down (in both registration orders). None of these may panic.
            let x: u64 = t.get(1)?.parse().ok()?;
            let sq: u64 = t.get(2)?.parse().ok()?;
            let ts = CreationTimestamp::with_time_and_seq(x, sq);
            let plain = no_panic(|| ts.to_string());
            struct Stamper { out: String, inner: CreationTimestamp, busy: bool, stamps: u32 }
            impl std::fmt::Write for Stamper {
                fn write_str(&mut self, p: &str) -> std::fmt::Result {
                    if !self.busy { self.busy = true; let st = self.inner.to_string(); self.stamps += 1; if st.is_empty() { return Err(std::fmt::Error); } self.busy = false; }
                    self.out.push_str(p); Ok(())
                }
            }
            let ts2 = ts.clone();
            let nested = no_panic(move || { use std::fmt::Write; let mut w = Stamper { out: String::new(), inner: ts2.clone(), busy: false, stamps: 0 }; let r = write!(w, "{}", ts2); (r.is_ok(), w.out) });
            // thread shutdown: a destructor that formats, registered before / after the thread's first formatting
            struct AtExit(std::cell::Cell<Option<(u64, u64)>>, std::sync::Arc<std::sync::Mutex<Option<bool>>>);
            impl Drop for AtExit { fn drop(&mut self) { if let Some((a, b)) = self.0.get() { let ok = std::panic::catch_unwind(|| CreationTimestamp::with_time_and_seq(a, b).to_string()).is_ok(); *self.1.lock().unwrap() = Some(ok); } } }
            thread_local! { static AT_EXIT: AtExit = AtExit(std::cell::Cell::new(None), std::sync::Arc::new(std::sync::Mutex::new(None))); }
            let mut at_exit_ok = true;
            for first in [true, false] {
                let res = std::sync::Arc::new(std::sync::Mutex::new(None));
                let r2 = res.clone();
                let _ = std::thread::spawn(move || {
                    let arm = || { let g = AtExit(std::cell::Cell::new(Some((x, sq))), r2.clone()); LOCAL_GUARDS.with(|v| v.borrow_mut().push(g)); };
                    thread_local! { static LOCAL_GUARDS: std::cell::RefCell<Vec<AtExit>> = const { std::cell::RefCell::new(Vec::new()) }; }
                    if first { arm(); let _ = std::panic::catch_unwind(|| CreationTimestamp::with_time_and_seq(x, sq).to_string()); }
                    else { let _ = std::panic::catch_unwind(|| CreationTimestamp::with_time_and_seq(x, sq).to_string()); arm(); }
                }).join();
                if *res.lock().unwrap() == Some(false) { at_exit_ok = false; }
            }
            let _ = &AT_EXIT;
            let mut e = Exec::new(match &plain { Some(v) => format!("ok {}", hex(v.as_bytes())), None => "panic".into() });
            match (&plain, &nested) {
                (Some(p), Some((true, out))) if out == p => {}
                (Some(_), other) => e.oracle_fail = Some(format!("formatting a creation timestamp into a writer that itself formats one: {:?}", other.as_ref().map(|x| &x.1))),
                _ => {}
            }
            if !at_exit_ok && e.oracle_fail.is_none() { e.oracle_fail = Some("formatting a creation timestamp from a thread-local destructor at thread exit panics".into()); }
            if plain.is_none() { e.oracle_fail = Some("formatting a creation timestamp panics".into()); }
            Some(e)
        }
        "time.mt" => {
            // several threads format different times at once: whatever string() remembers between calls must not
            // leak from one caller to another. Answer = what every thread saw (one string per time when all is well).
            let xs: Vec<u64> = t[1..].iter().map(|x| x.parse().ok()).collect::<Option<Vec<u64>>>()?;
            let seen: Vec<Vec<String>> = std::thread::scope(|sc| {
                let hs: Vec<_> = xs.iter().map(|&x| sc.spawn(move || {
                    let mut v: Vec<String> = vec![];
                    for k in 0..4000u64 {
                        let s = x.string(); if !v.contains(&s) { v.push(s); }
                        // creation timestamps of the same time through their Display, under the same load
                        if k % 4 == 0 { let t = CreationTimestamp::with_time_and_seq(x, k).to_string(); let want = format!("{} {}", x.string(), k);
                            if t != want && x <= 252_455_615_999_999 { let bad = format!("creation timestamp ({}, {}) printed as {:?}", x, k, t); if !v.contains(&bad) { v.push(bad); } } }
                    }
                    v })).collect();
                hs.into_iter().map(|h| h.join().unwrap_or_default()).collect() });
            let mut e = Exec::new(format!("ok{}", seen.iter().map(|v| format!(" {}", v.iter().map(|s| hex(s.as_bytes())).collect::<Vec<_>>().join("|"))).collect::<String>()));
            for (x, v) in xs.iter().zip(&seen) {
                if *x <= 252_455_615_999_999 && (v.len() != 1 || v[0] != expected_rfc3339(*x)) && e.oracle_fail.is_none() {
                    e.oracle_fail = Some(format!("under concurrent use string({}) returned {:?}, the instant is {}", x, v, expected_rfc3339(*x)));
                }
            }
            Some(e)
        }
        "time.real" => {
            // the real clock (no override): every reading of dtn_time_now() lies between two readings of the system
            // clock taken just before and just after it, minus the year-2000 offset
            let ms: u64 = t.get(1)?.parse().ok()?;
            bp7::verif_hooks::set_clock_ms(None);
            let sys = || std::time::SystemTime::now().duration_since(std::time::UNIX_EPOCH).map(|d| d.as_millis() as u64).unwrap_or(0);
            let bad: Vec<String> = std::thread::scope(|sc| {
                let hs: Vec<_> = (0..8).map(|_| sc.spawn(move || {
                    let start = std::time::Instant::now();
                    while (start.elapsed().as_millis() as u64) < ms {
                        for _ in 0..64 {
                            let before = sys(); let v = bp7::dtn_time_now(); let after = sys();
                            if before <= after && (v < before - MS2K || v > after - MS2K) {
                                return Some(format!("dtn_time_now() = {} but the clock read {} just before and {} just after (minus the epoch offset)", v, before - MS2K, after - MS2K));
                            }
                        }
                    }
                    None })).collect();
                hs.into_iter().filter_map(|h| h.join().ok().flatten()).collect() });
            let mut e = Exec::new("ok".into());
            if let Some(b) = bad.first() { e.oracle_fail = Some(b.clone()); }
            Some(e)
        }
        "time.now" => {
            let c: u64 = t.get(1)?.parse().ok()?;
            bp7::verif_hooks::set_clock_ms(Some(c));
            let r = no_panic(bp7::dtn_time_now);
            let mut e = Exec::new(match r { Some(v) => format!("ok {}", v), None => "panic".into() });
            if r != Some(c - MS2K) { e.oracle_fail = Some(format!("dtn_time_now() = {:?} with the clock at {} ms", r, c)); }
            Some(e)
        }
        "spec.adm" => {
            // layout: the bytes serde writes vs the RFC 9171 6.1 reference encoder (records in normal form)
            let r = parse_admin(&t[1..])?;
            if !admin_normal(&r) { return None; }
            let v = no_panic(|| serde_cbor::to_vec(&r).ok())??;
            Some(Exec::new(format!("ok {}", hex(&v))))
        }
        "adm.enc" => {
            let r = parse_admin(&t[1..])?;
            let v = no_panic(|| serde_cbor::to_vec(&r).ok())??;
            let back = no_panic(|| serde_cbor::from_slice::<AdministrativeRecord>(&v));
            let refb = match &r { AdministrativeRecord::BundleStatusReport(sr) => no_panic(|| sr.refbundle()).map(|x| hex(x.as_bytes())).unwrap_or("panic".into()), _ => "-".into() };
            let mut e = Exec::new(format!("ok {} {} ref={}", hex(&v), match &back { None => "panic".into(), Some(Ok(x)) => format!("ok {}", show_admin(x)), Some(Err(_)) => "err".into() }, refb));
            if admin_normal(&r) && !matches!(&back, Some(Ok(x)) if *x == r) { e.oracle_fail = Some("administrative record in normal form does not decode back to an equal record".into()); }
            if admin_normal(&r) && e.oracle_fail.is_none() {
                let rd = no_panic(|| serde_cbor::from_reader::<AdministrativeRecord, _>(&v[..]).ok()).flatten();
                if rd.as_ref() != Some(&r) { e.oracle_fail = Some("administrative record in normal form does not decode back to an equal record through serde_cbor::from_reader".into()); }
            }
            if let AdministrativeRecord::BundleStatusReport(sr) = &r {
                // the bundle (fragment) this report describes, and its ID
                let mut b = Bundle::default();
                b.primary.source = sr.source_node.clone();
                b.primary.creation_timestamp = sr.timestamp.clone();
                if sr.frag_len > 0 { b.primary.bundle_control_flags |= 1; b.primary.fragmentation_offset = sr.frag_offset; b.primary.total_data_length = sr.frag_len; }
                let want = no_panic(|| b.id());
                if admin_normal(&r) && e.oracle_fail.is_none() && want.as_ref().map(|x| hex(x.as_bytes())) != Some(refb.clone()) {
                    e.oracle_fail = Some(format!("status report reference {:?} is not the ID {:?} of the bundle it describes", sr.refbundle(), want));
                }
            }
            e.tags.push(format!("normal:{}", admin_normal(&r)));
            Some(e)
        }
        "adm.dec" => {
            let v = unhex(t.get(1)?)?;
            let back = no_panic(|| serde_cbor::from_slice::<AdministrativeRecord>(&v));
            let mut e = Exec::new(match &back { None => "panic".into(), Some(Ok(x)) => format!("ok {}", show_admin(x)), Some(Err(_)) => "err".into() });
            if back.is_none() { e.oracle_fail = Some("administrative record decoder panics".into()); }
            Some(e)
        }
        "adm.report" => {
            // adm.report <src> <crc> <pos> <reason> <now> <ts> <seq> <B>   (ts/seq: what CreationTimestamp::now() will return; ts == now)
            let src = parse_eid(t.get(1)?)?;
            let crc: u8 = t.get(2)?.parse().ok()?;
            let pos: u32 = t.get(3)?.parse().ok()?;
            let reason: u32 = t.get(4)?.parse().ok()?;
            let now: u64 = t.get(5)?.parse().ok()?;
            let (b, n) = parse_bundle(&t[8..])?;
            if n + 8 != t.len() { return None; }
            set_clock_dtn(now);
            let r = no_panic(|| new_status_report_bundle(&b, src.clone(), crc, pos, reason));
            let mut e;
            match r {
                None => { e = Exec::new("panic".into());
                    // a report about a whole (non-fragment) bundle with somewhere to report to, for one of the four status items, must come into being
                    if b.primary.bundle_control_flags & 1 == 0 && pos < 4 && b.primary.report_to != EndpointID::none() { e.oracle_fail = Some("building the status-report bundle panics for a non-fragment subject and a defined status item".into()); } }
                Some(mut rb) => {
                    // the sequence number comes from the process-wide generator: normalise it
                    let seq_real = rb.primary.creation_timestamp.seqno();
                    let want_seq: u64 = t.get(7)?.parse().ok()?;
                    rb.primary.creation_timestamp = CreationTimestamp::with_time_and_seq(rb.primary.creation_timestamp.dtntime(), want_seq);
                    e = Exec::new(format!("ok {}", show_bundle(&rb)));
                    let _ = seq_real;
                    e.oracle_fail = report_fail(&b, &src, crc, pos, reason, now, &rb);
                }
            }
            Some(e)
        }
        _ => None,
    }
}

pub fn admin_normal(r: &AdministrativeRecord) -> bool {
    match r {
        AdministrativeRecord::BundleStatusReport(sr) => {
            sr.status_information.iter().all(|i| if i.status_requested { i.asserted } else { i.time == 0 })
                && (sr.frag_len != 0 || sr.frag_offset == 0)
                && crate::p_codec::eid_canonical(&sr.source_node)
        }
        AdministrativeRecord::Unknown(c, _) => *c != 1,
        AdministrativeRecord::Mismatched(_, _) => false,
    }
}

/// C12 oracle for report bundles (B non-fragment, non-null report-to, valid)
fn report_fail(b: &Bundle, src: &EndpointID, crc: u8, pos: u32, reason: u32, now: u64, rb: &Bundle) -> Option<String> {
    if b.primary.report_to == EndpointID::none() || pos > 3 || crc > 2 || !eid_well_formed(src) || b.validate().is_err() || now == 0 { return None; }
    if let Err(e) = rb.validate() { return Some(format!("report bundle does not validate: {:?}", e)); }
    if !rb.is_administrative_record() { return Some("report bundle is not flagged as administrative record".into()); }
    if rb.primary.destination != b.primary.report_to { return Some("report bundle is not addressed to B's report-to endpoint".into()); }
    if rb.primary.source != *src { return Some("report bundle is not sourced from the reporting node".into()); }
    if rb.primary.lifetime != b.primary.lifetime { return Some("report bundle does not carry B's lifetime".into()); }
    if rb.primary.crc_type_code() != crc { return Some("report bundle has a different CRC type".into()); }
    let pl = rb.payload()?;
    let rec = match serde_cbor::from_slice::<AdministrativeRecord>(pl) { Ok(r) => r, Err(e) => return Some(format!("payload is not an administrative record: {}", e)) };
    let sr = match rec { AdministrativeRecord::BundleStatusReport(sr) => sr, _ => return Some("payload is not a status report".into()) };
    if sr.source_node != b.primary.source || sr.timestamp != b.primary.creation_timestamp { return Some("status report does not reference B's source and creation timestamp".into()); }
    if sr.status_information.len() != 4 { return Some("status report does not have 4 status items".into()); }
    let want_time = b.primary.bundle_control_flags & 0x40 != 0;
    for (i, it) in sr.status_information.iter().enumerate() {
        if it.asserted != (i as u32 == pos) { return Some(format!("status item {} asserted = {}", i, it.asserted)); }
        if i as u32 == pos {
            if it.status_requested != want_time { return Some(format!("status time present = {}, B requested status times = {}", it.status_requested, want_time)); }
            if want_time && it.time != now { return Some("status time is not the clock reading".into()); }
        } else if it.status_requested { return Some("unasserted item carries a time".into()); }
    }
    if sr.report_reason != reason { return Some("reason code differs".into()); }
    if sr.refbundle() != b.id() { return Some(format!("refbundle {} != bundle id {}", sr.refbundle(), b.id())); }
    None
}

trait CrcCode { fn crc_type_code(&self) -> u8; }
impl CrcCode for bp7::primary::PrimaryBlock { fn crc_type_code(&self) -> u8 { use bp7::crc::CrcBlock; self.crc_type() } }

// ---------------------------------------------------------------- generators

pub fn generate(prop: &str, ctx: &mut Ctx, rep: &mut Report, emit: &mut dyn FnMut(&mut Ctx, &mut Report, String)) {
    let mut rng = Rng::new(ctx.seed ^ 0x5EED ^ (prop.as_bytes()[2] as u64) << 8);
    match prop {
        "C07" => gen_c07(&mut rng, ctx, rep, emit),
        "C08" => gen_c08(&mut rng, ctx, rep, emit),
        "C10" => gen_c10(&mut rng, ctx, rep, emit),
        "C11" => gen_c11(&mut rng, ctx, rep, emit),
        "C12" => gen_c12(&mut rng, ctx, rep, emit),
        "C13" => gen_c13(&mut rng, ctx, rep, emit),
        "C17" => gen_c17(&mut rng, ctx, rep, emit),
        _ => {}
    }
}

type Emit<'a> = &'a mut dyn FnMut(&mut Ctx, &mut Report, String);

fn gen_c07(rng: &mut Rng, ctx: &mut Ctx, rep: &mut Report, emit: Emit) {
    // finite rule space (thorough: complete; quick: sampled)
    let flag_bits: [u64; 15] = [0x1, 0x2, 0x4, 0x20, 0x40, 0x4000, 0x10000, 0x20000, 0x40000, 0x8, 0x10, 0x200, 0x2000, 0x4000 << 1, 0x8000 << 1];
    let kinds: [(u64, fn(&mut Rng) -> CanonicalData); 6] = [
        (1, |_| CanonicalData::Data(vec![1, 2, 3])), (6, |_| CanonicalData::PreviousNode(EndpointID::with_dtn("n1").unwrap())),
        (7, |_| CanonicalData::BundleAge(5)), (10, |_| CanonicalData::HopCount(32, 1)), (192, |_| CanonicalData::Unknown(vec![9])),
        (9, |_| CanonicalData::Unknown(vec![])),   // an unassigned type between the at-most-once types 7 and 10: may repeat
    ];
    let mut lists: Vec<Vec<(usize, u64, u8)>> = vec![vec![]];
    // all block lists of up to 4 blocks over 6 kinds x numbers {1,2,3} x status-report flag on/off
    let maxlen = if ctx.tier_thorough { 4 } else { 2 };
    let mut frontier = lists.clone();
    for _ in 0..maxlen {
        let mut next = vec![];
        for l in &frontier { for k in 0..6 { for num in 1..=3u64 { for fl in [0u8, 2] { let mut x = l.clone(); x.push((k, num, fl)); next.push(x); } } } }
        lists.extend(next.iter().cloned());
        frontier = next;
    }
    let n_flagwords: u64 = if ctx.tier_thorough { 1 << 15 } else { 64 };
    let mut count = 0u64;
    let budget = ctx.n(12_000, 4_000_000);
    let total = lists.len() as u64 * n_flagwords * 4;
    let stride = (total / budget).max(1);
    let mut idx = 0u64;
    for l in &lists {
        for fw in 0..n_flagwords {
            for tz in [0u64, 1000] { for anon in [false, true] {
                idx += 1;
                if idx % stride != 0 { continue; }
                let word = if ctx.tier_thorough { fw } else { rng.below(1 << 15) };
                let mut f = 0u64;
                for (i, b) in flag_bits.iter().enumerate() { if word >> i & 1 == 1 { f |= b; } }
                let mut b = Bundle::default();
                b.primary.bundle_control_flags = f;
                b.primary.destination = EndpointID::with_dtn("d/in").unwrap();
                b.primary.source = if anon { EndpointID::none() } else { EndpointID::with_ipn(1, 2).unwrap() };
                b.primary.creation_timestamp = CreationTimestamp::with_time_and_seq(tz, 0);
                b.canonicals = l.iter().map(|(k, num, fl)| new_canonical_block(kinds[*k].0, *num, *fl, (kinds[*k].1)(rng))).collect();
                emit(ctx, rep, format!("validate {}", show_bundle(&b)));
                count += 1;
            } }
        }
    }
    if stride == 1 { rep.exhaustive_parts.push(format!("validation rule space: {} block lists x {} flag words x ts zero/non-zero x anonymous/named = {} bundles", lists.len(), n_flagwords, count)); }
    // long block lists (whatever bookkeeping the duplicate / at-most-once checks use must not depend on the list
    // being short): 12..40 blocks of distinct opaque types and numbers, then one rule broken at EVERY position —
    // the number of block j repeated by a later block, an at-most-once type twice with j blocks in between,
    // creation time zero with the bundle age block as the j-th block
    for n in [12usize, 16, 17, 18, 19, 24, 33, 40] {
        let mk = |rng: &mut Rng, n: usize| -> Bundle {
            let mut b = Bundle::default();
            b.primary.destination = EndpointID::with_dtn("d/in").unwrap();
            b.primary.source = EndpointID::with_ipn(1, 2).unwrap();
            b.primary.creation_timestamp = CreationTimestamp::with_time_and_seq(1000, 0);
            b.canonicals = (0..n).map(|i| new_canonical_block(192 + i as u64, 2 + i as u64, 0, CanonicalData::Unknown(vec![rng.next() as u8]))).collect();
            b.canonicals.push(new_canonical_block(1, 1, 0, CanonicalData::Data(vec![1])));
            b
        };
        emit(ctx, rep, format!("validate {}", show_bundle(&mk(rng, n))));
        for j in 0..n {
            if !ctx.tier_thorough && n > 19 && j % 3 != 0 { continue; }
            // block number of block j repeated by the last extension block / by the payload block's neighbour
            let mut b = mk(rng, n); let num = b.canonicals[j].block_number; if j != n - 1 { b.canonicals[n - 1].block_number = num; } else { b.canonicals[0].block_number = num; }
            emit(ctx, rep, format!("validate {}", show_bundle(&b)));
            // an at-most-once type at position j and again at the end
            for (t, d) in [(7u64, CanonicalData::BundleAge(5)), (10, CanonicalData::HopCount(3, 1)), (6, CanonicalData::PreviousNode(EndpointID::with_dtn("p").unwrap()))] {
                let mut b = mk(rng, n); b.canonicals[j] = new_canonical_block(t, 2 + j as u64, 0, d.clone());
                emit(ctx, rep, format!("validate {}", show_bundle(&b)));
                b.canonicals[if j == n - 1 { 0 } else { n - 1 }] = new_canonical_block(t, if j == n - 1 { 2 } else { 1 + n as u64 }, 0, d.clone());
                emit(ctx, rep, format!("validate {}", show_bundle(&b)));
            }
            // creation time zero: the bundle age block is the j-th block (valid), or absent (invalid)
            let mut b = mk(rng, n); b.primary.creation_timestamp = CreationTimestamp::with_time_and_seq(0, 3);
            emit(ctx, rep, format!("validate {}", show_bundle(&b)));
            b.canonicals[j] = new_canonical_block(7, 2 + j as u64, 0, CanonicalData::BundleAge(9));
            emit(ctx, rep, format!("validate {}", show_bundle(&b)));
        }
    }
    // random: valid bundles with one injected rule violation, and arbitrary decodable bundles
    for i in 0..ctx.n(10_000, 1_000_000) {
        let mut b = if i % 3 == 0 { gen_bundle(rng, &Opts { wf: true, max_blocks: 6 }) } else { gen_valid_bundle(rng) };
        if i % 3 == 1 {
            match rng.below(25) {
                // an opaque block whose type code equals an at-most-once type modulo 64, 2^8, 2^16 or 2^32, together with a real
                // block of that type (before or after it), or instead of the bundle age block when the creation time is zero
                23 | 24 => { let t = *rng.pick(&[6u64, 7, 10]); let alias = t + *rng.pick(&[64u64, 256, 512, 65_536, 1 << 32, 2 << 32, 1 << 63]);
                             let real = match t { 6 => CanonicalData::PreviousNode(EndpointID::with_dtn("p").unwrap()), 7 => CanonicalData::BundleAge(5), _ => CanonicalData::HopCount(3, 1) };
                             b.canonicals.retain(|c| c.block_type != t);
                             let a = new_canonical_block(alias, 80, 0, CanonicalData::Unknown(vec![1]));
                             match rng.below(3) { 0 => { b.canonicals.insert(0, new_canonical_block(t, 81, 0, real)); b.canonicals.insert(0, a); }
                                 1 => { b.canonicals.insert(0, a); b.canonicals.insert(0, new_canonical_block(t, 81, 0, real)); }
                                 _ => { b.canonicals.insert(0, a); if t == 7 { b.primary.creation_timestamp = CreationTimestamp::with_time_and_seq(0, 1); } } } }
                // a second block of the payload type that holds opaque data (only the API can build it; it passes its own
                // validation): before / after the payload block, numbered 0 or above — which block counts as "the payload
                // block" must not depend on where the extra one sits
                21 | 22 => { let c = new_canonical_block(1, *rng.pick(&[0u64, 70, 71]), 0, CanonicalData::Unknown(vec![7, 7]));
                             if rng.chance(1, 2) { b.canonicals.insert(0, c); } else { b.canonicals.push(c); } }
                // dtn endpoint IDs as they can arrive from the wire: no "//", multi-byte characters around every
                // byte offset the validation may slice at (a verdict, not a panic, is required for each)
                19 | 20 => {
                    const RAW: [&str; 22] = ["nöde1//svc", "/ö/nod/svc", "€//n1/svc", "😀/n1/svc", "aö", "ö", "/ö", "//ö", "//ö/", "ab€", "é/", "a€/", "/€", "//€/x", "/é/", "éé//", "a/é", "\u{7ff}/", "\u{800}//", "x\u{10000}", "//\u{10000}/", "ö//n/"];
                    let e = EndpointID::Dtn(1, dtn_address(rng.pick(&RAW).as_bytes()).unwrap());
                    match rng.below(4) { 0 => b.primary.destination = e, 1 => b.primary.source = e, 2 => b.primary.report_to = e,
                        _ => b.canonicals.insert(0, new_canonical_block(6, 64, 0, CanonicalData::PreviousNode(e))) }
                }
                // typed data in a block of another type; opaque payload data outside the payload block; payload
                // block carrying typed data; previous node naming an invalid EID
                14 => { let (t, d) = match rng.below(4) { 0 => (7u64, CanonicalData::HopCount(3, 1)), 1 => (10, CanonicalData::BundleAge(5)), 2 => (6, CanonicalData::BundleAge(5)), _ => (*rng.pick(&[7u64, 10, 192]), CanonicalData::PreviousNode(gen_eid_wf(rng))) }; b.canonicals.insert(0, new_canonical_block(t, 60, 0, d)); }
                15 => { b.canonicals.insert(0, new_canonical_block(*rng.pick(&[6u64, 7, 10, 192, 2]), 61, 0, CanonicalData::Data(vec![1, 2]))); }
                16 => { b.canonicals.retain(|c| c.block_type != 1); b.canonicals.push(new_canonical_block(1, 1, 0, rng.pick(&[CanonicalData::BundleAge(1), CanonicalData::HopCount(1, 1)]).clone())); }
                17 => { b.canonicals.insert(0, new_canonical_block(6, 62, 0, CanonicalData::PreviousNode(EndpointID::Dtn(1, dtn_address(*rng.pick(&[&b"abc"[..], b"/x", b"//x"])).unwrap())))); }
                18 => { b.canonicals.insert(0, new_canonical_block(200, 63, 0, CanonicalData::DecodingError)); }
                0 => { b.primary.bundle_control_flags |= 0x5; }
                1 => { b.primary.bundle_control_flags |= 0x2 | *rng.pick(&[0x4000u64, 0x10000, 0x20000, 0x40000]); }
                2 => { b.primary.source = EndpointID::Ipn(2, bp7::eid::IpnAddress::new(0, 1)); }
                3 => { b.primary.destination = EndpointID::DtnNone(1, 1); }
                4 => { if let Some(c) = b.canonicals.last_mut() { c.block_number = 2 + rng.below(3); } }
                5 => { if b.canonicals.len() > 1 { let n = b.canonicals[0].block_number; b.canonicals[1].block_number = n; } }
                6 => { let t = *rng.pick(&[6u64, 7, 10]); let d = match t { 6 => CanonicalData::PreviousNode(gen_eid_wf(rng)), 7 => CanonicalData::BundleAge(1), _ => CanonicalData::HopCount(3, 1) };
                       b.canonicals.insert(0, new_canonical_block(t, 90, 0, d.clone())); b.canonicals.insert(0, new_canonical_block(t, 91, 0, d)); }
                7 => { b.canonicals.retain(|c| c.block_type != 1); }
                8 => { if let Some(c) = b.canonicals.first_mut() { c.block_control_flags |= 2; } b.primary.source = EndpointID::none(); }
                9 => { b.primary.creation_timestamp = CreationTimestamp::with_time_and_seq(0, 1); b.canonicals.retain(|c| c.block_type != 7); }
                10 => { b.primary.report_to = EndpointID::Dtn(1, dtn_address(b"abc").unwrap()); }
                11 => { b = { let mut p = primary_with_version(*rng.pick(&[0u32, 6, 8, u32::MAX])).unwrap(); let q = b.primary.clone(); p.bundle_control_flags = q.bundle_control_flags; p.destination = q.destination; p.source = q.source; p.report_to = q.report_to; p.creation_timestamp = q.creation_timestamp; p.lifetime = q.lifetime; Bundle::new(p, b.canonicals.clone()) }; }
                12 => { b.canonicals.insert(0, new_canonical_block(6, 77, 0, CanonicalData::PreviousNode(EndpointID::Ipn(2, bp7::eid::IpnAddress::new(0, 0))))); }
                _ => { if let Some(c) = b.canonicals.first_mut() { c.block_control_flags = 0xf0 | (rng.next() as u8 & 0xf); } }
            }
        }
        emit(ctx, rep, format!("validate {}", show_bundle(&b)));
    }
}

fn gen_c08(rng: &mut Rng, ctx: &mut Ctx, rep: &mut Report, emit: Emit) {
    let node = EndpointID::with_dtn("here").unwrap();
    let base = |rng: &mut Rng| -> Bundle {
        let mut b = gen_valid_bundle(rng);
        b.canonicals.retain(|c| ![6u64, 7, 10].contains(&c.block_type));
        b
    };
    // all 65 536 (limit, count) pairs
    let b0 = { let mut b = base(rng); b.primary.creation_timestamp = CreationTimestamp::with_time_and_seq(0, 0); b };
    for l in 0..=255u8 { for c in 0..=255u8 {
        let mut b = b0.clone();
        b.canonicals.insert(0, new_canonical_block(10, 9, 0, CanonicalData::HopCount(l, c)));
        emit(ctx, rep, format!("upd {} 0 0 {}", show_eid(&node), show_bundle(&b)));
    } }
    rep.exhaustive_parts.push("all 65 536 (hop limit, hop count) pairs".into());
    let bv = |rng: &mut Rng, around: u64| -> u64 {
        match rng.below(12) { 0 => 0, 1 => 1, 2 => around.wrapping_sub(1), 3 => around, 4 => around.wrapping_add(1), 5 => 1 << 32, 6 => 1 << 63, 7 => u64::MAX, 8 => u64::MAX - 1, 9 => around / 2, _ => rng.u64b() }
    };
    for _ in 0..ctx.n(20_000, 2_000_000) {
        let mut b = base(rng);
        let life = match rng.below(4) { 0 => 3_600_000, 1 => 0, _ => rng.u64b() };
        b.primary.lifetime = std::time::Duration::from_millis(life);
        // lifetimes of 2^64 ms and more (only the API can build them): k * 2^64 ms + a small rest — what a narrowing
        // conversion would make of them expires at once
        if rng.chance(1, 15) { let ms: u128 = ((1 + rng.below(900)) as u128) << 64 | match rng.below(4) { 0 => 0, 1 => 384, 2 => 3_600_000, _ => rng.below(1 << 40) } as u128; b.primary.lifetime = std::time::Duration::new((ms / 1000) as u64, ((ms % 1000) as u32) * 1_000_000); }
        let ts = match rng.below(4) { 0 => 0, _ => bv(rng, u64::MAX - life) };
        b.primary.creation_timestamp = CreationTimestamp::with_time_and_seq(ts, rng.below(5));
        let mut rt: u128 = bv(rng, life) as u128;
        if rng.chance(1, 10) { rt = *rng.pick(&[u128::MAX, 1u128 << 64, (1u128 << 64) - 1, (1u128 << 64) + 1]); }
        // beyond 64 bits with arbitrary (often small) low bits: k * 2^64 + r
        if rng.chance(1, 12) { rt = ((1 + rng.below(1 << 20)) as u128) << (64 + rng.below(44)) | bv(rng, life) as u128; }
        if rng.chance(2, 3) {
            let age = match rng.below(6) { 0 => life.saturating_sub(rt as u64), 1 => life.saturating_sub(rt as u64).saturating_add(1), 2 => life.saturating_sub(rt as u64).saturating_sub(1), _ => bv(rng, life) };
            b.canonicals.insert(0, new_canonical_block(7, 8, 0, CanonicalData::BundleAge(age)));
        }
        if rng.chance(1, 2) { let l = *rng.pick(&[0u8, 1, 32, 254, 255]); let c = match rng.below(4) { 0 => l, 1 => l.wrapping_sub(1), 2 => 255, _ => rng.below(40) as u8 }; b.canonicals.insert(0, new_canonical_block(10, 9, 0, CanonicalData::HopCount(l, c))); }
        let n = if rng.chance(1, 4) { gen_eid_wf(rng) } else { node.clone() };
        // the previous node block already names the forwarding node now and then (a bundle that comes back, a second update)
        if rng.chance(1, 2) { b.canonicals.insert(0, new_canonical_block(6, 10, 0, CanonicalData::PreviousNode(if rng.chance(1, 4) { n.clone() } else { gen_eid_wf(rng) }))); }
        if rng.chance(1, 20) { b.canonicals.insert(0, new_canonical_block(*rng.pick(&[6u64, 7, 10]), 11, 0, CanonicalData::Unknown(vec![1]))); }
        // a block of the same type that fails its own validation (decoding error marker, previous node naming a
        // malformed endpoint) in front of the usable one: the update works on the first USABLE block of each type
        if rng.chance(1, 12) { let t = *rng.pick(&[6u64, 7, 10]); let d = if t == 6 && rng.chance(1, 2) { CanonicalData::PreviousNode(EndpointID::Dtn(1, dtn_address(b"old").unwrap())) } else { CanonicalData::DecodingError }; b.canonicals.insert(0, new_canonical_block(t, 12, 0, d)); }
        let now = bv(rng, ts.wrapping_add(life)).min(u64::MAX - MS2K);
        emit(ctx, rep, format!("upd {} {} {} {}", show_eid(&n), rt, now, show_bundle(&b)));
    }
}

fn gen_c10(rng: &mut Rng, ctx: &mut Ctx, rep: &mut Report, emit: Emit) {
    let nums = |rng: &mut Rng| -> String { match rng.below(6) { 0 => "0".into(), 1 => u64::MAX.to_string(), 2 => "18446744073709551616".into(), 3 => format!("{}", rng.u64b()), _ => format!("{}", 1 + rng.below(1000)) } };
    for i in 0..ctx.n(20_000, 2_000_000) {
        match i % 5 {
            0 => {
                // canonical strings from the grammar
                match rng.below(3) {
                    0 => emit(ctx, rep, "eid.canon none - -".to_string()),
                    1 => { let n = gen_name(rng, false, false); let s = if rng.chance(1, 5) { String::new() } else { gen_name(rng, true, false) };
                           let n = if n == "none" && s.is_empty() { "nonex".to_string() } else { n };
                           emit(ctx, rep, format!("eid.canon dtn {} {}", hex(n.as_bytes()), hex(s.as_bytes()))); }
                    _ => { let n = format!("{}", rng.u64b().max(1)); let s = format!("{}", rng.u64b()); emit(ctx, rep, format!("eid.canon ipn {} {}", hex(n.as_bytes()), hex(s.as_bytes()))); }
                }
            }
            1 => {
                // near-miss classes that must be rejected
                let s = match rng.below(9) {
                    0 => format!("dtn{}", gen_name(rng, true, false).replace(':', "")),
                    1 => format!("{}:{}", *rng.pick(&["DTN", "Dtn", "ipn6", "http", "", "dtnx"]), gen_name(rng, true, false)),
                    2 => format!("dtn:{}", gen_name(rng, true, false).trim_start_matches('/').replace("none", "nx")),
                    3 => "dtn://none".to_string(),
                    4 => format!("ipn:0.{}", rng.below(100)),
                    5 => format!("ipn:{}.{}", *rng.pick(&["a", "-1", "1x", "", " 1", "1 ", "0x1", "18446744073709551616"]), rng.below(5)),
                    6 => format!("ipn:{}.{}", 1 + rng.below(5), *rng.pick(&["b", "-0", "", "2 ", "18446744073709551616"])),
                    7 => format!("ipn:{}", 1 + rng.below(100)),
                    _ => format!("ipn:{}.{}.{}", 1 + rng.below(9), rng.below(9), rng.below(9)),
                };
                let s = if s == "dtn://none" || s.starts_with("dtn:/") && !s.starts_with("dtn://") || !s.starts_with("dtn:/") { s } else { "dtn:x".to_string() };
                emit(ctx, rep, format!("eid.bad {}", hex(s.as_bytes())));
            }
            2 => {
                // arbitrary / mutated strings through the parser (accept or reject, both worlds agree)
                let base = match rng.below(4) { 0 => format!("dtn://{}/{}", gen_name(rng, false, true), gen_name(rng, true, true)), 1 => format!("ipn:{}.{}", nums(rng), nums(rng)), 2 => "dtn:none".to_string(), _ => gen_name(rng, true, true) };
                let mut v: Vec<char> = base.chars().collect();
                for _ in 0..rng.below(3) { if v.is_empty() { break; } let k = rng.below(v.len() as u64) as usize; match rng.below(3) { 0 => { v.remove(k); } 1 => { v.insert(k, *rng.pick(&['/', ':', '.', '+', ' ', '0', 'é', '~'])); } _ => { v[k] = *rng.pick(&['/', ':', '.', '-', 'n', '1']); } } }
                let s: String = v.into_iter().collect();
                emit(ctx, rep, format!("eid.parse {}", hex(s.as_bytes())));
            }
            3 => {
                let e = if rng.chance(3, 4) { gen_eid_wf(rng) } else { gen_eid_any(rng) };
                emit(ctx, rep, format!("eid.acc {}", show_eid(&e)));
                emit(ctx, rep, format!("eid.cbor {}", show_eid(&e)));
            }
            _ => {
                let mut e = gen_eid_wf(rng);
                // endpoint IDs whose current service repeats the tail of "//node/" (what a textual replacement of the
                // old service would trip over): "dtn://node1/1/", "dtn://node1/node1/", "dtn://node1//"
                if rng.chance(1, 6) {
                    let node = gen_name(rng, false, false);
                    let tail: String = node.chars().rev().take(1 + rng.below(3) as usize).collect::<Vec<_>>().into_iter().rev().collect();
                    let old = match rng.below(4) { 0 => format!("{}/", tail), 1 => format!("{}/", node), 2 => "/".to_string(), _ => tail };
                    e = EndpointID::Dtn(1, dtn_address(format!("//{}/{}", node, old).as_bytes()).unwrap());
                }
                // an empty node name (the parser accepts "dtn:///inbox"), and new services that begin or end with the
                // separators the constructors look for ('/', "//")
                if rng.chance(1, 6) { e = EndpointID::Dtn(1, dtn_address(format!("///{}", if rng.chance(1, 3) { String::new() } else { gen_name(rng, true, false) }).as_bytes()).unwrap()); }
                // a receiver whose service has several segments, and a new service equal to a tail of it (a suffix test
                // on the stored address would take the receiver for the requested endpoint already)
                let mut tail_svc: Option<String> = None;
                if rng.chance(1, 6) { let segs: Vec<String> = (0..2 + rng.below(3)).map(|_| gen_name(rng, false, false)).collect(); let node = gen_name(rng, false, false);
                    e = EndpointID::Dtn(1, dtn_address(format!("//{}/{}", node, segs.join("/")).as_bytes()).unwrap());
                    let k = 1 + rng.below(segs.len() as u64 - 1) as usize; tail_svc = Some(segs[k..].join("/")); }
                let svc = match rng.below(9) { _ if tail_svc.is_some() => tail_svc.clone().unwrap(), 0 => format!(" {} ", rng.below(100)), 1 => format!("\u{2003}{}\u{a0}", rng.below(100)), 2 => nums(rng), 3 => String::new(),
                    4 => format!("/{}", gen_name(rng, true, false)), 5 => format!("//{}", gen_name(rng, true, false)), 6 => (*rng.pick(&["/", "//", "x/", "/x/", "x//y"])).to_string(), _ => gen_name(rng, true, true) };
                emit(ctx, rep, format!("eid.newep {} {}", show_eid(&e), hex(svc.as_bytes())));
                if rng.chance(1, 3) { emit(ctx, rep, format!("eid.withdtn {}", hex(gen_name(rng, true, true).as_bytes()))); }
                if rng.chance(1, 3) { emit(ctx, rep, format!("eid.withipn {} {}", rng.below(3), rng.u64b())); }
            }
        }
    }
}

fn gen_op(rng: &mut Rng, kind: u64) -> String {
    match kind {
        0 => { let c = gen_block(rng, true); let mut c2 = c.clone(); c2.block_number = *rng.pick(&[0u64, 1, 2, u64::MAX, 7, 1 << 63]); // the added block may carry its own CRC type (value not yet computed), whatever the bundle's other blocks have
            c2.crc = match rng.below(4) { 0 => bp7::crc::CrcValue::Crc16Empty, 1 => bp7::crc::CrcValue::Crc32Empty, _ => bp7::crc::CrcValue::CrcNo }; format!("add {}", show_canon(&c2)) }
        1 => format!("setpayload {}", hex(&gen_payload(rng))),
        2 => format!("setpayloadblock {} {} {}", match rng.below(6) { 0 => 0, 1 => u64::MAX, 2 => 2 + rng.below(4), 3 => rng.u64b(), _ => 1 }, *rng.pick(&[0u8, 1, 4]), hex(&gen_payload(rng))),
        3 => format!("setcrc {}", rng.below(3)),
        5 => "tocbor".to_string(),
        _ => format!("upd {} {} {}", show_eid(&gen_eid_wf(rng)), rng.below(3), 1 + rng.below(1000)),
    }
}

fn gen_c11(rng: &mut Rng, ctx: &mut Ctx, rep: &mut Report, emit: Emit) {
    let start = |rng: &mut Rng| -> Bundle {
        let mut b = gen_valid_bundle(rng);
        // anonymous / admin bundles constrain the block flags an added block may carry: keep named sources
        if b.primary.source == EndpointID::none() { b.primary.source = EndpointID::with_ipn(7, 1).unwrap(); }
        b.primary.bundle_control_flags &= !0x2;
        for c in b.canonicals.iter_mut() { if c.block_control_flags & 0xf0 == 0xf0 { c.block_control_flags = 0; } }
        // far-future lifetime so that `upd` does not depend on expiry here
        b
    };
    // exhaustive over operation kinds for length <= 3 (quick) / 4 (thorough)
    let maxlen = if ctx.tier_thorough { 4 } else { 3 };
    let mut seqs: Vec<Vec<u64>> = vec![vec![]];
    let mut frontier = seqs.clone();
    for _ in 0..maxlen { let mut next = vec![]; for s in &frontier { for k in 0..6 { let mut x = s.clone(); x.push(k); next.push(x); } } seqs.extend(next.iter().cloned()); frontier = next; }
    for s in &seqs {
        let b = start(rng);
        let ops: Vec<String> = s.iter().map(|k| gen_op(rng, *k)).collect();
        if ops.is_empty() { emit(ctx, rep, format!("seq {}", show_bundle(&b))); } else { emit(ctx, rep, format!("seq {} {}", show_bundle(&b), ops.join(" ; "))); }
    }
    rep.exhaustive_parts.push(format!("all {} sequences of operation kinds of length <= {}", seqs.len(), maxlen));
    // the same extension block type added twice and three times, for every type around the assigned codes and the
    // aliases of the at-most-once types: only 6, 7 and 10 are at-most-once, every other type may repeat
    for t in (2u64..=13).chain([14, 63, 64, 70, 71, 74, 191, 192, 193, 255, 256, 262, 263, 266, 65_542, (1 << 32) + 6, (1 << 32) + 7, (1 << 32) + 10, u64::MAX]) {
        let b = start(rng);
        let d = match t { 6 => "p:N:1:0".to_string(), 7 => "a:5".to_string(), 10 => "h:9.1".to_string(), _ => format!("u:{:02x}", t as u8) };
        let add = |num: u64| format!("add {} {} 0 n {}", t, num, d);
        emit(ctx, rep, format!("seq {} {} ; {}", show_bundle(&b), add(0), add(0)));
        emit(ctx, rep, format!("seq {} {} ; tocbor ; {} ; {}", show_bundle(&b), add(40), add(41), add(0)));
    }
    // the public builders as starting point: unsorted, duplicate, payload-less block lists
    for _ in 0..ctx.n(600, 60_000) {
        let mut b = gen_bundle(rng, &Opts { wf: true, max_blocks: 5 });
        if rng.chance(1, 2) { for (i, c) in b.canonicals.iter_mut().enumerate() { if c.block_type != 1 { c.block_number = match rng.below(4) { 0 => rng.u64b(), 1 => 0, _ => 2 + i as u64 + rng.below(3) }; } } }
        if rng.chance(1, 6) { b.canonicals.retain(|c| c.block_type != 1); }
        if rng.chance(1, 10) { b.primary.destination = EndpointID::none(); }
        for i in (1..b.canonicals.len()).rev() { let j = rng.below(i as u64 + 1) as usize; b.canonicals.swap(i, j); }
        let pay = if rng.chance(1, 3) { hex(&gen_payload(rng)) } else { "n".to_string() };
        emit(ctx, rep, format!("build {} {} {}", pay, if rng.chance(1, 3) { "h" } else { "b" }, show_bundle(&b)));
    }
    for _ in 0..ctx.n(3_000, 300_000) {
        let mut b = start(rng);
        if rng.chance(1, 10) { b.canonicals.insert(0, new_canonical_block(200, u64::MAX, 0, CanonicalData::Unknown(vec![]))); }
        let n = 1 + rng.below(8);
        let ops: Vec<String> = (0..n).map(|_| { let k = rng.below(6); gen_op(rng, k) }).collect();
        emit(ctx, rep, format!("seq {} {}", show_bundle(&b), ops.join(" ; ")));
    }
}

fn gen_c12(rng: &mut Rng, ctx: &mut Ctx, rep: &mut Report, emit: Emit) {
    // CreationTimestamp::now() never goes back in time: give every report a later clock reading
    let mut clock: u64 = 1_000_000;
    for i in 0..ctx.n(10_000, 1_000_000) {
        if i % 2 == 0 {
            let rec = if rng.chance(1, 5) {
                let c = match rng.below(4) { 0 => 0u32, 1 => 2, 2 => u32::MAX, _ => 2 + rng.below(1000) as u32 };
                // opaque content -- now and then content that is itself the encoding of a status report / a record
                let content = if rng.chance(1, 4) {
                    let sr = StatusReport { status_information: (0..4).map(|k| BundleStatusItem { asserted: k == 0, time: 0, status_requested: false }).collect(), report_reason: rng.below(10) as u32,
                        source_node: gen_eid_wf(rng), timestamp: CreationTimestamp::with_time_and_seq(rng.u64b(), rng.u64b()), frag_offset: 0, frag_len: 0 };
                    if rng.chance(1, 2) { serde_cbor::to_vec(&sr).unwrap() } else { serde_cbor::to_vec(&AdministrativeRecord::BundleStatusReport(sr)).unwrap() }
                } else { gen_payload(rng) };
                AdministrativeRecord::Unknown(if rng.chance(1, 20) { 1 } else { c }, content)
            } else {
                let n = match rng.below(6) { 0 => 0, 1 => 6, 2 => 1, _ => 4 };
                let items = (0..n).map(|_| { let a = rng.chance(1, 2); let r = a && rng.chance(1, 2); BundleStatusItem { asserted: a, time: if r { rng.u64b() } else if rng.chance(1, 30) { 5 } else { 0 }, status_requested: if rng.chance(1, 40) { !r } else { r } } }).collect();
                let fl = if rng.chance(1, 3) { 1 + rng.u64b() / 2 } else { 0 };
                AdministrativeRecord::BundleStatusReport(StatusReport { status_information: items, report_reason: match rng.below(4) { 0 => u32::MAX, _ => rng.below(12) as u32 },
                    source_node: gen_eid_wf(rng), timestamp: CreationTimestamp::with_time_and_seq(rng.u64b(), rng.u64b()), frag_offset: if fl != 0 && rng.chance(1, 3) { 0 } else if fl != 0 || rng.chance(1, 30) { rng.u64b() } else { 0 }, frag_len: fl })
            };
            emit(ctx, rep, format!("adm.enc {}", show_admin(&rec)));
            if admin_normal(&rec) { emit(ctx, rep, format!("spec.adm {}", show_admin(&rec))); }
        } else {
            let mut b = gen_valid_bundle(rng);
            b.primary.bundle_control_flags &= !1;
            b.primary.fragmentation_offset = 0; b.primary.total_data_length = 0;
            // fragment fields left over on a bundle that is not a fragment (reassembled, flag cleared) change nothing
            if rng.chance(1, 8) { b.primary.fragmentation_offset = rng.u64b(); b.primary.total_data_length = 1 + rng.u64b() / 2; }
            if rng.chance(9, 10) && b.primary.report_to == EndpointID::none() { b.primary.report_to = EndpointID::with_dtn("rpt/x").unwrap(); }
            if rng.chance(1, 2) { b.primary.bundle_control_flags |= 0x40; }
            // long endpoint names (the record that refers to the subject has no bounded size): subject source,
            // report-to and reporting node of 200 .. 5000 bytes
            if rng.chance(1, 12) {
                let name = |rng: &mut Rng| -> EndpointID { let n = *rng.pick(&[200usize, 230, 260, 300, 321, 1_000, 5_000]); let s: String = (0..n).map(|i| (b'a' + ((i * 7 + n) % 26) as u8) as char).collect(); EndpointID::with_dtn(&format!("{}/{}", &s[..n / 2], &s[n / 2..])).unwrap() };
                b.primary.source = name(rng);
                if rng.chance(1, 2) { b.primary.report_to = name(rng); }
            }
            let src = loop { let e = gen_eid_wf(rng); if e != EndpointID::none() { break e; } };
            clock += 1 + rng.below(100_000);
            let now = clock;
            let pos = if rng.chance(1, 30) { 4 + rng.below(3) } else { rng.below(4) };
            let reason = match rng.below(5) { 0 => u32::MAX as u64, _ => rng.below(12) };
            emit(ctx, rep, format!("adm.report {} {} {} {} {} {} {} {}", show_eid(&src), rng.below(3), pos, reason, now, now, rng.below(1000), show_bundle(&b)));
        }
    }
}

fn gen_c13(rng: &mut Rng, ctx: &mut Ctx, rep: &mut Report, emit: Emit) {
    let mk = |src: &str, ts: u64, seq: u64, frag: bool, off: u64| -> Bundle {
        let mut b = Bundle::default();
        b.primary.source = EndpointID::try_from(src).unwrap();
        b.primary.destination = EndpointID::with_dtn("d/x").unwrap();
        b.primary.creation_timestamp = CreationTimestamp::with_time_and_seq(ts, seq);
        if frag { b.primary.bundle_control_flags |= 1; b.primary.fragmentation_offset = off; b.primary.total_data_length = off.wrapping_add(10); }
        b.canonicals.push(new_payload_block(BlockControlFlags::empty(), vec![1]));
        b
    };
    for i in 0..ctx.n(10_000, 1_000_000) {
        let digits = |rng: &mut Rng| -> u64 { match rng.below(4) { 0 => rng.below(10), 1 => rng.below(1000), 2 => 10 * rng.below(100) + 1, _ => rng.u64b() } };
        let (a, b, c) = (digits(rng), digits(rng), digits(rng));
        let svc = *rng.pick(&["a", "a-1", "x-2-3", "svc", "7", "a-", "", "svc/", "~g/"]);
        let b1 = match i % 4 {
            // the anonymous source: an ordinary source as far as IDs are concerned
            _ if i % 11 == 7 => mk("dtn:none", a, b, rng.chance(1, 2), c),
            0 => mk(&format!("dtn://n/{}-{}", svc, a), b, c, false, 0),
            1 => mk(&format!("dtn://n/{}", svc), a, b, true, c),
            2 => mk(&format!("ipn:{}.{}", a.max(1), b), c, a, rng.chance(1, 2), b),
            _ => mk(&format!("dtn://n/{}", svc), a, b, false, 0),
        };
        let b2 = match rng.below(8) {
            // the adversarial twin: same text, different split
            0 if i % 4 == 0 => mk(&format!("dtn://n/{}", svc), a, b, true, c),
            1 if i % 4 == 1 => mk(&format!("dtn://n/{}-{}", svc, a), b, c, false, 0),
            // perturbations that must not change the ID
            2 => { let mut x = b1.clone(); x.primary.destination = gen_eid_wf(rng); if x.primary.destination == EndpointID::none() { x.primary.destination = EndpointID::with_dtn("q/q").unwrap(); } x }
            3 => { let mut x = b1.clone(); x.primary.report_to = gen_eid_wf(rng); x.primary.lifetime = std::time::Duration::from_millis(rng.u64b()); x.primary.bundle_control_flags ^= *rng.pick(&[0x4u64, 0x20, 0x40, 0x10000]); x.set_crc(rng.below(3) as u8); x.canonicals.insert(0, gen_block(rng, true)); x }
            // perturbations that must change it
            4 => { let mut x = b1.clone(); x.primary.creation_timestamp = CreationTimestamp::with_time_and_seq(b1.primary.creation_timestamp.dtntime(), b1.primary.creation_timestamp.seqno().wrapping_add(1)); x }
            5 => { let mut x = b1.clone(); x.primary.bundle_control_flags ^= 1; x }
            6 => { let mut x = b1.clone(); x.primary.fragmentation_offset = x.primary.fragmentation_offset.wrapping_add(1); x }
            _ => { let mut x = b1.clone(); x.primary.total_data_length = x.primary.total_data_length.wrapping_add(5); x }
        };
        emit(ctx, rep, format!("idpair {} | {}", show_bundle(&b1), show_bundle(&b2)));
        if i % 8 == 0 { emit(ctx, rep, format!("id {}", show_bundle(&b1))); }
        if i % 16 == 3 {
            // sources that differ in ONE character a printing routine might drop, fold or escape: control characters,
            // white space, zero-width and combining characters, case — different endpoints, so different IDs
            const TWINS: [(&str, &str); 27] = [("inbox/", "inbox"), ("a/b/", "a/b"), ("x//", "x/"), ("gw%41", "gwA"), ("n%2D1", "n-1"), ("lab\u{202e}7", "lab\\u{202e}7"), ("a\u{200e}b", "a\\u{200e}b"), ("a\u{2066}b", "ab"), ("in\\tbox", "in\tbox"),
                ("a&amp;b", "a&b"), ("a\\x41", "aA"), ("x\u{61c}y", "xy"), ("caf\u{e9}", "cafe"),("in\tbox", "inbox"), ("in\u{0}box", "inbox"), ("inbox\u{7f}", "inbox"), ("in\u{1b}[0mbox", "in[0mbox"), ("inbox ", "inbox"), (" inbox", "inbox"),
                ("in\u{200b}box", "inbox"), ("e\u{301}", "\u{e9}"), ("Inbox", "inbox"), ("in\nbox", "inbox"), ("in\r\nbox", "in\nbox"), ("in%09box", "in\tbox"), ("in\u{85}box", "inbox"), ("in\u{feff}box", "inbox")];
            let (x, y) = *rng.pick(&TWINS);
            let (t, q) = (digits(rng), digits(rng));
            let fr = rng.chance(1, 3);
            let mut p1 = mk("dtn://n/x", t, q, fr, 7); let mut p2 = p1.clone();
            if rng.chance(1, 2) { p1.primary.source = EndpointID::with_dtn(&format!("n/{}", x)).unwrap(); p2.primary.source = EndpointID::with_dtn(&format!("n/{}", y)).unwrap(); }
            else { p1.primary.source = EndpointID::with_dtn(&format!("{}/s", x)).unwrap(); p2.primary.source = EndpointID::with_dtn(&format!("{}/s", y)).unwrap(); }
            emit(ctx, rep, format!("idpair {} | {}", show_bundle(&p1), show_bundle(&p2)));
        }
        if i % 16 == 5 {
            // fragments whose payload happens to be as long as the total data length (offset 0 and > 0): still
            // fragments, still named with their offset
            let total = 1 + rng.below(40);
            let off = if rng.chance(1, 2) { 0 } else { rng.below(5) };
            let mut f = mk(&format!("dtn://n/{}", svc), a, b, true, off);
            f.primary.total_data_length = total;
            f.set_payload(rng.bytes(total as usize));
            let mut whole = f.clone(); whole.primary.bundle_control_flags &= !1; whole.primary.fragmentation_offset = 0; whole.primary.total_data_length = 0;
            emit(ctx, rep, format!("idpair {} | {}", show_bundle(&f), show_bundle(&whole)));
            emit(ctx, rep, format!("id {}", show_bundle(&f)));
        }
        if i % 3 == 1 {
            // C13: the reference string of status reports about b1 (whole bundles, first and later fragments)
            let fl = if b1.primary.bundle_control_flags & 1 != 0 { 1 + rng.u64b() / 2 } else { 0 };
            let rec = AdministrativeRecord::BundleStatusReport(StatusReport { status_information: (0..4).map(|k| BundleStatusItem { asserted: k == 1, time: 0, status_requested: false }).collect(), report_reason: 0,
                source_node: b1.primary.source.clone(), timestamp: b1.primary.creation_timestamp.clone(),
                frag_offset: if fl != 0 { if rng.chance(1, 3) { 0 } else { b1.primary.fragmentation_offset } } else { 0 }, frag_len: fl });
            emit(ctx, rep, format!("adm.enc {}", show_admin(&rec)));
        }
        if i % 5 == 0 {
            // same digits, different split between time / sequence number / fragment offset (a lost or
            // misplaced separator would make these collide)
            let (t, q, o) = (1 + rng.below(99), rng.below(100), rng.below(100));
            let cat = |x: u64, y: u64| -> u64 { format!("{}{}", x, y).parse().unwrap_or(u64::MAX) };
            let src = format!("dtn://n/{}", svc);
            let f = mk(&src, t, q, true, o);
            for twin in [mk(&src, t, cat(q, o), false, 0), mk(&src, cat(t, q), o, false, 0), mk(&src, t, q / 10, true, cat(q % 10, o)), mk(&src, cat(t, q), 0, true, o), mk(&src, t, q, false, 0)] {
                emit(ctx, rep, format!("idpair {} | {}", show_bundle(&f), show_bundle(&twin)));
            }
        }
    }
}

fn gen_c17(rng: &mut Rng, ctx: &mut Ctx, rep: &mut Report, emit: Emit) {
    let mut times: Vec<u64> = vec![0, 1, 999, 1000, 1001, 252_455_615_999_999, 252_455_616_000_000, 252_455_616_000_001, 1 << 63, u64::MAX,
        u64::MAX - 946_684_800_000, u64::MAX - 946_684_800_001, u64::MAX - 946_684_799_999, u64::MAX - 1];
    // every day boundary of selected years +- 1 ms
    let day = 86_400_000u64;
    for y in [2000u64, 2001, 2004, 2100, 2400, 9999] {
        let days_from_2000 = (0..(y - 2000)).map(|k| { let yy = 2000 + k; if (yy % 4 == 0 && yy % 100 != 0) || yy % 400 == 0 { 366 } else { 365 } }).sum::<u64>();
        let len = if (y % 4 == 0 && y % 100 != 0) || y % 400 == 0 { 366 } else { 365 };
        for d in 0..=len { let t = (days_from_2000 + d) * day; times.push(t); times.push(t.wrapping_sub(1)); times.push(t + 1); }
    }
    for t in &times {
        emit(ctx, rep, format!("time.unix {}", t));
        emit(ctx, rep, format!("time.string {}", t));
        emit(ctx, rep, format!("ts.string {} {}", t, rng.u64b()));
    }
    for _ in 0..ctx.n(20_000, 1_000_000) {
        let t = match rng.below(4) { 0 => rng.below(252_455_616_000_000), 1 => rng.below(4_102_444_800_000), _ => rng.u64b() };
        match rng.below(4) { 0 => emit(ctx, rep, format!("time.unix {}", t)),
            // neighbours in the same second / the same value again, back to back (anything remembered between calls shows)
            1 | 2 => { emit(ctx, rep, format!("time.string {}", t)); if rng.chance(1, 3) { emit(ctx, rep, format!("time.string {}", t ^ 1)); emit(ctx, rep, format!("time.string {}", t)); } }
            _ => emit(ctx, rep, format!("ts.string {} {}", t, rng.u64b())) }
    }
    for _ in 0..ctx.n(500, 10_000) { let c = MS2K + rng.u64b() / 2; emit(ctx, rep, format!("time.now {}", c)); }
    // concurrent formatting: neighbouring times, the same second, far apart, around the formatting boundary
    for _ in 0..ctx.n(40, 2_000) {
        let base = match rng.below(3) { 0 => rng.below(252_455_616_000_000), 1 => rng.below(4_102_444_800_000), _ => 252_455_615_999_000 + rng.below(2_000) };
        let k = 2 + rng.below(7);
        let ts: Vec<String> = (0..k).map(|i| match rng.below(4) { 0 => base, 1 => base ^ (1 << rng.below(20)), 2 => base.wrapping_add(i * 1000), _ => rng.below(252_455_616_000_000) }.to_string()).collect();
        emit(ctx, rep, format!("time.mt {}", ts.join(" ")));
    }
    // times whose seconds are a multiple of 2^32 apart (anything keyed by a narrowed second collides there), back to
    // back on one thread and as the very first formatting of fresh threads; unix seconds that ARE multiples of 2^32
    for k in 1..=58u64 {
        let unix_ms = (k << 32) * 1000;
        if unix_ms < MS2K { continue; }
        let t0 = unix_ms - MS2K;
        if k % 7 == 1 || ctx.tier_thorough { emit(ctx, rep, format!("time.mt {} {}", t0, t0 + 999)); emit(ctx, rep, format!("time.string {}", t0)); }
    }
    for _ in 0..ctx.n(300, 20_000) {
        let t = rng.below(4_102_444_800_000);
        let k = 1 + rng.below(50);
        let u = t + (k << 32) * 1000;
        emit(ctx, rep, format!("time.string {}", t)); emit(ctx, rep, format!("time.string {}", u)); emit(ctx, rep, format!("time.string {}", t + 1));
        if rng.chance(1, 4) { emit(ctx, rep, format!("time.string {}", t + (1u64 << 32))); emit(ctx, rep, format!("time.string {}", t + (1u64 << 16) * 1000)); }
    }
    for _ in 0..ctx.n(30, 1_000) { emit(ctx, rep, format!("ts.sinks {} {}", match rng.below(3) { 0 => rng.below(252_455_616_000_000), 1 => 0, _ => rng.u64b() }, rng.u64b())); }
    // the real clock across at least two changes of the second
    emit(ctx, rep, format!("time.real {}", ctx.n(2_200, 12_000)));
}
