//! Text notation of bp7 values (same grammar as lean/Bp7/Bp7/Driver/Notation.lean).
use crate::fw::{hex, unhex};
use bp7::administrative_record::{AdministrativeRecord, BundleStatusItem, StatusReport};
use bp7::bundle::Bundle;
use bp7::canonical::{new_canonical_block, CanonicalBlock, CanonicalData};
use bp7::crc::CrcValue;
use bp7::dtntime::CreationTimestamp;
use bp7::eid::{DtnAddress, EndpointID, IpnAddress};
use bp7::primary::PrimaryBlock;
use std::time::Duration;

pub fn show_crc(c: &CrcValue) -> String {
    match c {
        CrcValue::CrcNo => "n".into(),
        CrcValue::Crc16Empty => "e16".into(),
        CrcValue::Crc32Empty => "e32".into(),
        CrcValue::Crc16(b) => format!("c16:{}", hex(b)),
        CrcValue::Crc32(b) => format!("c32:{}", hex(b)),
        CrcValue::Unknown(c) => format!("u:{}", c),
    }
}
pub fn parse_crc(s: &str) -> Option<CrcValue> {
    Some(match s {
        "n" => CrcValue::CrcNo,
        "e16" => CrcValue::Crc16Empty,
        "e32" => CrcValue::Crc32Empty,
        _ => {
            let (k, v) = s.split_once(':')?;
            match k {
                "c16" => { let b = unhex(v)?; if b.len() != 2 { return None; } CrcValue::Crc16([b[0], b[1]]) }
                "c32" => { let b = unhex(v)?; if b.len() != 4 { return None; } CrcValue::Crc32([b[0], b[1], b[2], b[3]]) }
                "u" => CrcValue::Unknown(v.parse().ok()?),
                _ => return None,
            }
        }
    })
}

fn cbor_text(b: &[u8]) -> Vec<u8> {
    let mut v = cbor_head(3, b.len() as u64);
    v.extend_from_slice(b);
    v
}
pub fn cbor_head(major: u8, n: u64) -> Vec<u8> {
    let m = major << 5;
    if n < 24 { vec![m | n as u8] }
    else if n < 256 { vec![m | 24, n as u8] }
    else if n < 65536 { let mut v = vec![m | 25]; v.extend_from_slice(&(n as u16).to_be_bytes()); v }
    else if n < (1 << 32) { let mut v = vec![m | 26]; v.extend_from_slice(&(n as u32).to_be_bytes()); v }
    else { let mut v = vec![m | 27]; v.extend_from_slice(&n.to_be_bytes()); v }
}

/// A `DtnAddress` holding an arbitrary (valid UTF-8) string.
pub fn dtn_address(ssp: &[u8]) -> Option<DtnAddress> {
    std::str::from_utf8(ssp).ok()?;
    serde_cbor::from_slice::<DtnAddress>(&cbor_text(ssp)).ok()
}

/// The string a `DtnAddress` holds, read through its serde form (NOT through `Display`, which is code under test).
pub fn raw_ssp(a: &DtnAddress) -> Vec<u8> {
    let v = serde_cbor::to_vec(a).unwrap_or_default();
    let hl = match v.first().map(|b| b & 31) { Some(0..=23) => 1, Some(24) => 2, Some(25) => 3, Some(26) => 5, Some(27) => 9, _ => 0 };
    if v.first().map(|b| b >> 5) == Some(3) && hl > 0 && hl <= v.len() { v[hl..].to_vec() } else { a.to_string().into_bytes() }
}
/// URI text of an endpoint ID written by the harness itself (RFC 9171 4.2.5.1), for oracles
pub fn eid_text(e: &EndpointID) -> String {
    match e {
        EndpointID::DtnNone(_, _) => "dtn:none".into(),
        EndpointID::Dtn(_, a) => format!("dtn:{}", String::from_utf8_lossy(&raw_ssp(a))),
        EndpointID::Ipn(_, a) => format!("ipn:{}.{}", a.node_number(), a.service_number()),
    }
}
pub fn show_eid(e: &EndpointID) -> String {
    match e {
        EndpointID::DtnNone(c, v) => format!("N:{}:{}", c, v),
        EndpointID::Dtn(c, a) => format!("D:{}:{}", c, hex(&raw_ssp(a))),
        EndpointID::Ipn(c, a) => format!("I:{}:{}.{}", c, a.node_number(), a.service_number()),
    }
}
pub fn parse_eid(s: &str) -> Option<EndpointID> {
    let p: Vec<&str> = s.split(':').collect();
    match p.as_slice() {
        ["N", c, v] => Some(EndpointID::DtnNone(c.parse().ok()?, v.parse().ok()?)),
        ["D", c, h] => Some(EndpointID::Dtn(c.parse().ok()?, dtn_address(&unhex(h)?)?)),
        ["I", c, ns] => {
            let (n, sv) = ns.split_once('.')?;
            Some(EndpointID::Ipn(c.parse().ok()?, IpnAddress::new(n.parse().ok()?, sv.parse().ok()?)))
        }
        _ => None,
    }
}

pub fn show_data(d: &CanonicalData) -> String {
    match d {
        CanonicalData::Data(b) => format!("d:{}", hex(b)),
        CanonicalData::Unknown(b) => format!("u:{}", hex(b)),
        CanonicalData::BundleAge(n) => format!("a:{}", n),
        CanonicalData::HopCount(l, c) => format!("h:{}.{}", l, c),
        CanonicalData::PreviousNode(e) => format!("p:{}", show_eid(e)),
        CanonicalData::DecodingError => "x".into(),
    }
}
pub fn parse_data(s: &str) -> Option<CanonicalData> {
    if s == "x" { return Some(CanonicalData::DecodingError); }
    let (k, v) = s.split_once(':')?;
    Some(match k {
        "d" => CanonicalData::Data(unhex(v)?),
        "u" => CanonicalData::Unknown(unhex(v)?),
        "a" => CanonicalData::BundleAge(v.parse().ok()?),
        "h" => { let (l, c) = v.split_once('.')?; CanonicalData::HopCount(l.parse().ok()?, c.parse().ok()?) }
        "p" => CanonicalData::PreviousNode(parse_eid(v)?),
        _ => return None,
    })
}

pub fn show_canon(c: &CanonicalBlock) -> String {
    format!("{} {} {} {} {}", c.block_type, c.block_number, c.block_control_flags, show_crc(&c.crc), show_data(c.data()))
}
pub fn parse_canon(t: &[&str]) -> Option<CanonicalBlock> {
    if t.len() < 5 { return None; }
    let mut c = new_canonical_block(t[0].parse().ok()?, t[1].parse().ok()?, t[2].parse().ok()?, parse_data(t[4])?);
    c.crc = parse_crc(t[3])?;
    Some(c)
}

pub fn primary_version(p: &PrimaryBlock) -> u64 {
    let d = format!("{:?}", p);
    let i = d.find("version: ").map(|i| i + 9).unwrap_or(0);
    d[i..].chars().take_while(|c| c.is_ascii_digit()).collect::<String>().parse().unwrap_or(u64::MAX)
}

/// A primary block with the given version (the field is private: decode a minimal block).
pub fn primary_with_version(v: u32) -> Option<PrimaryBlock> {
    if v == 7 { return Some(PrimaryBlock::new()); }
    let mut b = vec![0x88];
    b.extend(cbor_head(0, v as u64));
    b.extend_from_slice(&[0, 0, 0x82, 1, 0, 0x82, 1, 0, 0x82, 1, 0, 0x82, 0, 0, 0]);
    serde_cbor::from_slice::<PrimaryBlock>(&b).ok()
}

pub fn show_bundle(b: &Bundle) -> String {
    let p = &b.primary;
    let mut s = format!(
        "B {} {} {} {} {} {} {} {} {} {} {} {}",
        primary_version(p), p.bundle_control_flags, show_crc(&p.crc), show_eid(&p.destination), show_eid(&p.source),
        show_eid(&p.report_to), p.creation_timestamp.dtntime(), p.creation_timestamp.seqno(), p.lifetime.as_millis(),
        p.fragmentation_offset, p.total_data_length, b.canonicals.len()
    );
    for c in &b.canonicals {
        s.push(' ');
        s.push_str(&show_canon(c));
    }
    s
}

/// Parses a bundle; returns it and the number of tokens consumed.
pub fn parse_bundle(t: &[&str]) -> Option<(Bundle, usize)> {
    if t.len() < 13 || t[0] != "B" { return None; }
    let mut p = primary_with_version(t[1].parse().ok()?)?;
    p.bundle_control_flags = t[2].parse().ok()?;
    p.crc = parse_crc(t[3])?;
    p.destination = parse_eid(t[4])?;
    p.source = parse_eid(t[5])?;
    p.report_to = parse_eid(t[6])?;
    p.creation_timestamp = CreationTimestamp::with_time_and_seq(t[7].parse().ok()?, t[8].parse().ok()?);
    // milliseconds, beyond u64 as well (a Duration built through the API holds up to 2^64 seconds)
    // "<ms>" or "<ms>+<ns>": a Duration built through the API may carry a fraction of a millisecond
    let (ms_s, ns_s) = t[9].split_once('+').unwrap_or((t[9], "0"));
    let ms: u128 = ms_s.parse().ok()?;
    let ns: u32 = ns_s.parse().ok()?;
    if ns >= 1_000_000 { return None; }
    p.lifetime = Duration::new(u64::try_from(ms / 1000).ok()?, ((ms % 1000) as u32) * 1_000_000 + ns);
    p.fragmentation_offset = t[10].parse().ok()?;
    p.total_data_length = t[11].parse().ok()?;
    let n: usize = t[12].parse().ok()?;
    let mut cs = Vec::with_capacity(n);
    let mut i = 13;
    for _ in 0..n {
        if i + 5 > t.len() { return None; }
        cs.push(parse_canon(&t[i..i + 5])?);
        i += 5;
    }
    Some((Bundle::new(p, cs), i))
}

pub fn show_admin(r: &AdministrativeRecord) -> String {
    match r {
        AdministrativeRecord::BundleStatusReport(sr) => {
            let mut s = format!("R {}", sr.status_information.len());
            for i in &sr.status_information {
                s.push_str(&format!(" {} {} {}", i.asserted, i.time, i.status_requested));
            }
            s.push_str(&format!(" {} {} {} {} {} {}", sr.report_reason, show_eid(&sr.source_node), sr.timestamp.dtntime(), sr.timestamp.seqno(), sr.frag_offset, sr.frag_len));
            s
        }
        AdministrativeRecord::Unknown(c, d) => format!("U {} {}", c, hex(d)),
        AdministrativeRecord::Mismatched(c, d) => format!("M {} {}", c, hex(d)),
    }
}
pub fn parse_admin(t: &[&str]) -> Option<AdministrativeRecord> {
    match t.first()? {
        &"R" => {
            let n: usize = t.get(1)?.parse().ok()?;
            let mut items = Vec::new();
            let mut i = 2;
            for _ in 0..n {
                items.push(BundleStatusItem { asserted: t.get(i)?.parse().ok()?, time: t.get(i + 1)?.parse().ok()?, status_requested: t.get(i + 2)?.parse().ok()? });
                i += 3;
            }
            if t.len() != i + 6 { return None; }
            Some(AdministrativeRecord::BundleStatusReport(StatusReport {
                status_information: items,
                report_reason: t[i].parse().ok()?,
                source_node: parse_eid(t[i + 1])?,
                timestamp: CreationTimestamp::with_time_and_seq(t[i + 2].parse().ok()?, t[i + 3].parse().ok()?),
                frag_offset: t[i + 4].parse().ok()?,
                frag_len: t[i + 5].parse().ok()?,
            }))
        }
        &"U" => Some(AdministrativeRecord::Unknown(t.get(1)?.parse().ok()?, unhex(t.get(2)?)?)),
        &"M" => Some(AdministrativeRecord::Mismatched(t.get(1)?.parse().ok()?, unhex(t.get(2)?)?)),
        _ => None,
    }
}
