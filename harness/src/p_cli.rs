//! C20: the `bp7` command-line tool (src/main.rs), run as a real process.
use crate::fw::*;
use crate::gen::*;
use crate::notation::*;
use bp7::dtntime::DtnTimeHelpers;
use bp7::*;
use std::convert::TryFrom;
use std::io::Write;
use std::process::{Command, Stdio};

fn cli_path() -> String { std::env::var("BP7_CLI").unwrap_or_else(|_| "/verif/.build/cli/debug/bp7".into()) }
fn tmp_dir() -> std::path::PathBuf {
    let d = std::path::PathBuf::from(std::env::var("BP7_TMP").unwrap_or_else(|_| "/verif/.build/tmp".into())).join(format!("cli-{}", std::process::id()));
    let _ = std::fs::create_dir_all(&d);
    d
}

struct Run { out: Vec<u8>, err: Vec<u8>, code: i32 }

fn run_cli(args: &[String], stdin: Option<&[u8]>) -> Option<Run> {
    let mut c = Command::new(cli_path());
    c.args(args).stdout(Stdio::piped()).stderr(Stdio::piped()).stdin(if stdin.is_some() { Stdio::piped() } else { Stdio::null() });
    let mut ch = c.spawn().ok()?;
    if let Some(b) = stdin {
        let mut si = ch.stdin.take()?;
        let data = b.to_vec();
        // write from a thread: the tool may exit (or fill its stdout pipe) before reading everything
        // now and then in several writes with pauses between them (a pipe delivers what the writer has written so
        // far: the reader sees short reads long before the end of input)
        let pieces = if data.len() >= 3 && (data.len() + data[0] as usize) % 23 == 0 { 3 } else { 1 };
        let h = std::thread::spawn(move || {
            let n = data.len();
            for k in 0..pieces {
                let (a, b) = (n * k / pieces, n * (k + 1) / pieces);
                if si.write_all(&data[a..b]).is_err() { break; }
                let _ = si.flush();
                if k + 1 < pieces { std::thread::sleep(std::time::Duration::from_millis(40)); }
            }
        });
        let o = ch.wait_with_output().ok()?;
        let _ = h.join();
        return Some(Run { out: o.stdout, err: o.stderr, code: o.status.code().unwrap_or(-1) });
    }
    let o = ch.wait_with_output().ok()?;
    Some(Run { out: o.stdout, err: o.stderr, code: o.status.code().unwrap_or(-1) })
}

fn status(r: &Run) -> String {
    match r.code { 0 => format!("ok {}", hex(&r.out)), 101 => "panic".into(), n => format!("exit {}", n) }
}

/// independent reading of a manifest: all `key = value` entries in order
fn manifest_entries(m: &str) -> Vec<(String, String)> {
    let mut h = vec![];
    for l in m.split('\n') {
        let l = l.trim();
        if l.is_empty() { continue; }
        if let Some((k, v)) = l.split_once('=') { h.push((k.trim().to_string(), v.trim().to_string())); }
    }
    h
}

struct Want { dst: EndpointID, src: EndpointID, rpt: EndpointID, life_ms: u64, flags: u64 }

/// the primary-block fields a valid manifest asks for, or None when the manifest is not valid
fn wanted(m: &str) -> Option<Want> {
    // valid manifest: every entry of a known key has a valid value (a later entry of the same key wins)
    let (mut dst, mut src, mut rpt) = (EndpointID::none(), EndpointID::none(), EndpointID::none());
    let mut life = std::time::Duration::from_secs(86400);
    let mut flags: u64 = 0;
    for (k, v) in manifest_entries(m) {
        match k.as_str() {
            "destination" => dst = EndpointID::try_from(v.as_str()).ok()?,
            "source" => src = EndpointID::try_from(v.as_str()).ok()?,
            "report_to" => rpt = EndpointID::try_from(v.as_str()).ok()?,
            "lifetime" => life = no_panic(|| humantime::parse_duration(&v))?.ok()?,
            "flags" => flags = v.parse().ok()?,
            _ => {}
        }
    }
    if dst == EndpointID::none() { return None; }
    // the library's own verdict on a bundle with these fields
    let p = primary::PrimaryBlockBuilder::default().destination(dst.clone()).source(src.clone()).report_to(rpt.clone())
        .creation_timestamp(CreationTimestamp::with_time_and_seq(1000, 0)).lifetime(life).bundle_control_flags(flags).build().ok()?;
    let b = Bundle::new(p, vec![new_payload_block(flags::BlockControlFlags::empty(), vec![])]);
    if b.validate().is_err() { return None; }
    Some(Want { dst, src, rpt, life_ms: life.as_millis() as u64, flags })
}

pub fn exec(line: &str, _model: &mut Model) -> Option<Exec> {
    let t: Vec<&str> = line.split(' ').collect();
    match t[0] {
        "cli.encode" => {
            if t.len() != 5 { return None; }
            let mode = t[1];
            let manifest = unhex(t[3])?;
            let payload = unhex(t[4])?;
            let d = tmp_dir();
            let mp = d.join("manifest");
            std::fs::write(&mp, &manifest).ok()?;
            let mut args = vec!["encode".to_string(), mp.to_string_lossy().to_string()];
            // "stdin": the documented "-"; "devstdin": the payload FILE is /dev/stdin fed from a pipe (a path whose
            // metadata says nothing about how much can be read from it)
            let from_stdin = t[2] == "stdin" || t[2] == "devstdin";
            if t[2] == "devstdin" { args.push("/dev/stdin".into()); } else if from_stdin { args.push("-".into()); } else { let pp = d.join("payload"); std::fs::write(&pp, &payload).ok()?; args.push(pp.to_string_lossy().to_string()); }
            let hexmode = mode == "x";
            if mode == "x" { args.push("-x".into()); } else if let Some(o) = mode.strip_prefix("o:") { args.push(String::from_utf8(unhex(o)?).ok()?); }
            let r = run_cli(&args, if from_stdin { Some(&payload) } else { None })?;
            let mut e = Exec::new(status(&r));
            e.tags.push(format!("encode:{}", if r.code == 0 { "ok" } else { "fail" }));
            let mtxt = String::from_utf8(manifest.clone()).ok();
            let want = mtxt.as_deref().and_then(wanted);
            e.tags.push(format!("manifest-valid:{}", want.is_some()));
            let mut ts = (dtn_time_now(), 0u64);
            if r.code == 0 {
                let raw: Option<Vec<u8>> = if hexmode {
                    match std::str::from_utf8(&r.out).ok().and_then(|s| s.strip_suffix('\n')) {
                        Some(h) if h.bytes().all(|c| c.is_ascii_digit() || (b'a'..=b'f').contains(&c)) => unhex(if h.is_empty() { "-" } else { h }),
                        _ => None,
                    }
                } else { Some(r.out.clone()) };
                match raw.as_ref().and_then(|b| Bundle::try_from(b.as_slice()).ok()) {
                    Some(b) => {
                        ts = (b.primary.creation_timestamp.dtntime(), b.primary.creation_timestamp.seqno());
                        let mut bad = vec![];
                        if b.validate().is_err() { bad.push("does not validate".to_string()); }
                        if b.payload() != Some(&payload) { bad.push("payload differs".into()); }
                        match &want {
                            Some(w) => {
                                if b.primary.destination != w.dst { bad.push("destination differs".into()); }
                                if b.primary.source != w.src { bad.push("source differs".into()); }
                                if b.primary.report_to != w.rpt { bad.push("report-to differs".into()); }
                                if b.primary.lifetime.as_millis() as u64 != w.life_ms { bad.push(format!("lifetime {} != {}", b.primary.lifetime.as_millis(), w.life_ms)); }
                                if b.primary.bundle_control_flags != w.flags { bad.push("flags differ".into()); }
                            }
                            None => {}
                        }
                        if !bad.is_empty() { e.oracle_fail = Some(format!("encode output: {}", bad.join(", "))); }
                    }
                    None => e.oracle_fail = Some(format!("encode output is not {} of a decodable bundle", if hexmode { "the lower-case hex form plus newline" } else { "the raw bytes" })),
                }
            } else if want.is_some() {
                e.oracle_fail = Some(format!("valid manifest rejected: exit {} stderr {}", r.code, clip(&String::from_utf8_lossy(&r.err))));
            }
            e.model_line = Some(format!("cli.encode {} {} {} {} {}", if hexmode { "x" } else { "r" }, ts.0, ts.1, t[3], t[4]));
            Some(e)
        }
        "cli.decode" => {
            if t.len() != 4 { return None; }
            let mode = t[1];
            let from_stdin = t[2] == "stdin";
            let input = unhex(t[3])?;
            let mut args = vec!["decode".to_string()];
            if from_stdin { args.push("-".into()); } else {
                let s = String::from_utf8(input.clone()).ok()?;
                if s.contains('\0') || s.len() > 100_000 || s.is_empty() { return None; }
                args.push(s);
            }
            let payload_mode = mode == "p";
            if payload_mode { args.push("-p".into()); } else if let Some(o) = mode.strip_prefix("o:") { args.push(String::from_utf8(unhex(o)?).ok()?); }
            let r = run_cli(&args, if from_stdin { Some(&input) } else { None })?;
            // what the library says about the same input
            let bytes: Option<Vec<u8>> = if from_stdin { Some(input.clone()) } else {
                let s = std::str::from_utf8(&input).ok()?;
                if s.len() % 2 == 0 && s.bytes().all(|c| c.is_ascii_hexdigit()) { unhex(&s.to_lowercase()) } else { None }
            };
            let lib = bytes.as_ref().and_then(|b| no_panic(|| Bundle::try_from(b.as_slice()).ok()).flatten());
            let mut e;
            if payload_mode {
                e = Exec::new(status(&r));
                e.model_line = Some(format!("cli.decode {} {}", t[2], t[3]));
                match (&lib, r.code) {
                    (Some(b), 0) => { let want: Vec<u8> = b.payload().cloned().unwrap_or_default(); if r.out != want { e.oracle_fail = Some(format!("payload mode printed {} but the payload is {}", clip(&hex(&r.out)), clip(&hex(&want)))); } }
                    (Some(_), c) => e.oracle_fail = Some(format!("decodable bundle rejected with exit {}", c)),
                    (None, 0) => e.oracle_fail = Some("undecodable input accepted".into()),
                    (None, _) => {}
                }
            } else {
                e = Exec::new(match r.code { 0 => "ok".into(), 101 => "panic".into(), n => format!("exit {}", n) });
                e.model_line = Some(format!("cli.decodable {} {}", t[2], t[3]));
                if lib.is_some() != (r.code == 0) { e.oracle_fail = Some(format!("decode exit {} but library decodes: {}", r.code, lib.is_some())); }
            }
            e.tags.push(format!("decode:{}:{}", if payload_mode { "payload" } else { "full" }, if r.code == 0 { "ok" } else { "fail" }));
            Some(e)
        }
        "cli.time" => {
            if t.len() != 3 { return None; }
            let arg = String::from_utf8(unhex(t[2])?).ok()?;
            if arg.contains('\0') { return None; }
            let r = run_cli(&[t[1].to_string(), arg.clone()], None)?;
            let mut e = Exec::new(status(&r));
            match arg.parse::<u64>() {
                Ok(v) => {
                    let want = if t[1] == "dtntime" { format!("{}\n", v.string()) } else { format!("{}\n", v.unix()) };
                    if r.code != 0 || r.out != want.as_bytes() { e.oracle_fail = Some(format!("{} {} printed {:?} (exit {}), the library gives {:?}", t[1], arg, String::from_utf8_lossy(&r.out), r.code, want)); }
                }
                Err(_) => if r.code == 0 { e.oracle_fail = Some(format!("non-numeric timestamp {:?} accepted", arg)); },
            }
            Some(e)
        }
        "cli.args" => {
            // usage paths: `bp7 <cmd> a a a …` with n arguments in total (argv[0] included)
            if t.len() != 3 { return None; }
            let n: usize = t[2].parse().ok()?;
            if n < 2 || n > 9 { return None; }
            let ok_counts: &[usize] = if t[1] == "encode" { &[4, 5] } else { &[3, 4] };
            if ok_counts.contains(&n) { return None; }
            let mut args = vec![t[1].to_string()];
            for _ in 2..n { args.push("a".into()); }
            let r = run_cli(&args, None)?;
            let usage = r.code == 1 && r.out.starts_with(b"usage");
            let mut e = Exec::new(if usage { "ok usage".into() } else { format!("exit {}", r.code) });
            e.model_line = Some(format!("cli.mode {} {} 61", t[1], n));
            if !usage { e.oracle_fail = Some(format!("wrong argument count: exit {} without usage", r.code)); }
            Some(e)
        }
        "cli.rnd" => {
            let raw_mode = t.get(1) == Some(&"r");
            let args: Vec<String> = if raw_mode { vec!["rnd".into(), "-r".into()] } else { vec!["rnd".into()] };
            let r = run_cli(&args, None)?;
            let bytes: Option<Vec<u8>> = if raw_mode { Some(r.out.clone()) } else {
                std::str::from_utf8(&r.out).ok().and_then(|s| s.strip_suffix("\n\n")).and_then(unhex)
            };
            let id = String::from_utf8_lossy(&r.err).trim_end_matches('\n').to_string();
            let b = bytes.as_ref().and_then(|x| Bundle::try_from(x.as_slice()).ok());
            let mut e = match (&b, r.code) {
                (Some(b), 0) => Exec::new(format!("ok valid={} id={}", b.validate().is_ok(), b.id() == id)),
                _ => Exec::new("undecodable".into()),
            };
            if e.imp != "ok valid=true id=true" { e.oracle_fail = Some(format!("rnd: {} (exit {}, stderr {:?})", e.imp, r.code, id)); }
            e.model_line = Some(format!("cli.rnd {} {}", bytes.as_ref().map(|x| hex(x)).unwrap_or("-".into()), hex(id.as_bytes())));
            Some(e)
        }
        "cli.now" => {
            // `bp7 dtntime` without argument: the current DTN time (library: dtn_time_now()), within a few seconds
            let before = dtn_time_now();
            let r = run_cli(&["dtntime".to_string()], None)?;
            let after = dtn_time_now();
            let printed: Option<u64> = std::str::from_utf8(&r.out).ok().and_then(|s| s.strip_suffix('\n')).and_then(|s| s.parse().ok());
            let good = r.code == 0 && matches!(printed, Some(v) if v + 5_000 >= before && v <= after + 5_000);
            let mut e = Exec::new(if good { "ok".into() } else { format!("exit {} {:?}", r.code, String::from_utf8_lossy(&r.out)) });
            if !good { e.oracle_fail = Some(format!("`bp7 dtntime` printed {:?} (exit {}), the library's dtn_time_now() is {}..{}", String::from_utf8_lossy(&r.out), r.code, before, after)); }
            e.model_line = Some("cli.nop".into());
            Some(e)
        }
        "cli.dur" => {
            let s = String::from_utf8(unhex(t.get(1)?)?).ok()?;
            let r = no_panic(|| humantime::parse_duration(&s));
            Some(Exec::new(match r { None => "panic".into(), Some(Ok(d)) => format!("ok {} {}", d.as_secs(), d.subsec_nanos()), Some(Err(_)) => "err".into() }))
        }
        _ => None,
    }
}

fn gen_lifetime(rng: &mut Rng) -> String {
    const UNITS: [&str; 40] = ["nanos", "nsec", "ns", "usec", "us", "millis", "msec", "ms", "seconds", "second", "secs", "sec", "s", "minutes", "minute", "min", "mins", "m",
        "hours", "hour", "hr", "hrs", "h", "days", "day", "d", "weeks", "week", "wk", "wks", "w", "months", "month", "M", "years", "year", "yr", "yrs", "y", "x"];
    match rng.below(24) {
        0 => "0".into(), 1 => "15".into(), 2 => "".into(), 3 => "1.5h".into(), 4 => "h".into(), 5 => "1 h".into(), 6 => "1h30".into(),
        7 => format!("{}y", rng.u64b()), 8 => format!("{}ns 1s", 999_999_999 + rng.below(3)), 9 => "1d 1d".into(), 10 => "5 µs".into(), 11 => "1h,30m".into(),
        12 => format!("{}s {}ns", u64::MAX, 1_000_000_000u64),
        _ => {
            let n = 1 + rng.below(3);
            (0..n).map(|_| { let v = match rng.below(6) { 0 => rng.u64b(), 1 => 0, _ => rng.below(100_000) }; format!("{}{}{}", v, if rng.chance(1, 6) { " " } else { "" }, *rng.pick(&UNITS)) }).collect::<Vec<_>>().join(if rng.chance(1, 2) { " " } else { "" })
        }
    }
}

fn gen_manifest(rng: &mut Rng) -> String {
    let mut lines: Vec<String> = vec![];
    let sp = |rng: &mut Rng| -> &'static str { *rng.pick(&["", "", "", " ", "  ", "\t"]) };
    let eid = |rng: &mut Rng| -> String { if rng.chance(1, 25) { (*rng.pick(&["dtn:none", "dtn:x", "ipn:0.1", "http://a", "", "ipn:1", "dtn://none"])).to_string() } else { loop { let e = gen_eid_wf(rng); let mut s = e.to_string(); if s.starts_with("dtn://") && rng.chance(1, 4) { s.push_str(*rng.pick(&["?prio=high", "=", "?a=b&c=d", "/k=v/", "#general", "/x#y", ";id=1", "%23"])); } if !s.contains('\n') { break s; } } } };
    if !rng.chance(1, 30) { let a = sp(rng); let b = sp(rng); let v = eid(rng); lines.push(format!("destination{}={}{}", a, b, v)); }
    if rng.chance(4, 5) { let a = sp(rng); let v = eid(rng); lines.push(format!("source{}={}", a, v)); }
    if rng.chance(1, 2) { let v = eid(rng); lines.push(format!("report_to={}", v)); }
    if rng.chance(3, 4) { let v = if rng.chance(3, 4) { (*rng.pick(&["1d", "3600s", "1h 30m", "2weeks", "100ms", "1y", "90min", "1hour 12min 5s", "36hrs", "1M 2d"])).to_string() } else { gen_lifetime(rng) }; lines.push(format!("lifetime = {}", v)); }
    if rng.chance(1, 2) { let v = match rng.below(24) { 0 => "5".to_string(), 1 => "x".into(), 2 => "+4".into(), 3 => format!("{}", rng.u64b()), 4 => "2".into(), _ => format!("{}", *rng.pick(&[0u64, 4, 0x20, 0x40, 0x4000, 0x44, 0x40000, 0x10000, 1])) }; lines.push(format!("flags={}", v)); }
    if rng.chance(1, 5) { lines.push("# comment = ignored".into()); }
    if rng.chance(1, 5) { lines.push("colour=blue".into()); }
    if rng.chance(1, 6) { lines.push(String::new()); }
    if rng.chance(1, 8) { let v = eid(rng); lines.push(format!("destination={}", v)); }
    // shuffle
    for i in (1..lines.len()).rev() { let j = rng.below(i as u64 + 1) as usize; lines.swap(i, j); }
    let nl = if rng.chance(1, 8) { "\r\n" } else { "\n" };
    let mut s = lines.join(nl);
    if rng.chance(2, 3) { s.push_str(nl); }
    s
}

pub fn generate(ctx: &mut Ctx, rep: &mut Report, emit: &mut dyn FnMut(&mut Ctx, &mut Report, String)) {
    let mut rng = Rng::new(ctx.seed ^ 0xc11);
    if !std::path::Path::new(&cli_path()).exists() { eprintln!("bp7 binary not found at {}", cli_path()); std::process::exit(2); }
    // documented example (README) first
    let readme = "destination=dtn://node2/inbox\nsource=dtn://node1/123456\nreport_to=dtn://node1/123456\nlifetime=1h\nflags=4\n";
    for m in ["r", "x"] { for src in ["file", "stdin"] { emit(ctx, rep, format!("cli.encode {} {} {} {}", m, src, hex(readme.as_bytes()), hex(b"hello world"))); } }
    for _ in 0..ctx.n(500, 20_000) {
        let m = gen_manifest(&mut rng);
        let payload = if rng.chance(1, 6) { vec![] } else { gen_payload(&mut rng) };
        let mode = match rng.below(9) { 0..=3 => "r".to_string(), 4..=7 => "x".to_string(), _ => format!("o:{}", hex(rng.pick(&["-X", "x", "--hex", "-p"]).as_bytes())) };
        emit(ctx, rep, format!("cli.encode {} {} {} {}", mode, match rng.below(5) { 0 | 1 => "file", 2 | 3 => "stdin", _ => "devstdin" }, hex(m.as_bytes()), hex(&payload)));
    }
    // raw output far beyond any buffer in front of stdout (64 KiB and more), with the newline — which a line-buffered
    // writer treats specially — at the start, in the middle, in the last KiB, or absent
    for (n, nl) in [(70_000usize, Some(0usize)), (65_536, Some(1)), (66_000, Some(33_000)), (150_000, Some(149_500)), (70_000, None), (131_072, Some(100))] {
        for _ in 0..ctx.n(1, 4) {
            let mut d: Vec<u8> = rng.bytes(n).into_iter().map(|x| if x == b'\n' { b'A' } else { x }).collect();
            if let Some(k) = nl { d[k] = b'\n'; }
            emit(ctx, rep, format!("cli.encode r {} {} {}", if rng.chance(1, 2) { "file" } else { "stdin" }, hex(readme.as_bytes()), hex(&d)));
            let mut b = gen_bundle(&mut rng, &Opts { wf: true, max_blocks: 2 });
            b.set_payload(d);
            emit(ctx, rep, format!("cli.decode p stdin {}", hex(&b.to_cbor())));
        }
    }
    // decode: encoded bundles of the C01 domain, raw on stdin or as hex argument; plus damaged ones
    for _ in 0..ctx.n(400, 20_000) {
        let mut b = gen_bundle(&mut rng, &Opts { wf: true, max_blocks: 4 });
        if rng.chance(1, 5) {
            // payloads beyond stdout's buffer size, text-like with newlines and binary
            let n = 1500 + rng.below(12_000) as usize;
            let mut d = rng.bytes(n);
            if rng.chance(1, 2) { for x in d.iter_mut() { *x = b'a' + (*x % 26); } }
            for _ in 0..1 + rng.below(4) { let k = rng.below(n as u64 / 2) as usize; d[k] = b'\n'; }
            b.set_payload(d);
        }
        let mut bytes = b.to_cbor();
        let damaged = rng.chance(1, 6);
        if damaged && !bytes.is_empty() { let i = rng.below(bytes.len() as u64) as usize; match rng.below(3) { 0 => bytes[i] ^= 1 << rng.below(8), 1 => bytes.truncate(i), _ => bytes.push(0) } }
        let mode = match rng.below(8) { 0..=4 => "p".to_string(), 5 | 6 => "f".to_string(), _ => format!("o:{}", hex(b"-P")) };
        if rng.chance(1, 2) && bytes.len() < 40_000 {
            let mut h = hex(&bytes);
            if h == "-" { continue; }
            if rng.chance(1, 10) { h = h.to_uppercase(); }
            if rng.chance(1, 15) { h.pop(); }
            if rng.chance(1, 15) { h.push('g'); }
            // text around valid hex that a lenient reader would forgive: white space at either end, a 0x prefix
            if rng.chance(1, 10) { h = match rng.below(7) { 0 => format!(" {}", h), 1 => format!("{} ", h), 2 => format!("{}\n", h), 3 => format!("\t{}", h), 4 => format!("{}\u{a0}", h), 5 => format!("0x{}", h), _ => format!("{}\r\n", h) }; }
            emit(ctx, rep, format!("cli.decode {} arg {}", mode, hex(h.as_bytes())));
        } else {
            emit(ctx, rep, format!("cli.decode {} stdin {}", mode, hex(&bytes)));
        }
    }
    // raw bundles on stdin in the other framing the library accepts (definite-length outer array: no 0xff at the end),
    // whose last byte is therefore payload data — ASCII white space, a hex digit, a quote
    for _ in 0..ctx.n(40, 2_000) {
        let mut b = gen_bundle(&mut rng, &Opts { wf: true, max_blocks: 3 });
        b.set_crc(0);
        let mut d = gen_payload(&mut rng);
        d.extend_from_slice(*rng.pick(&[&b"\n"[..], b" ", b"\t", b"\r\n", b"\x0b", b"\x0c", b"a", b"0", b"  \n", b"\""]));
        b.set_payload(d);
        // payload block last (the builders sort it there)
        b.sort_canonicals();
        let bytes = b.to_cbor();
        if let Some(blocks) = crate::cborx::bundle_blocks(&bytes) {
            if blocks.len() < 24 {
                let mut v = vec![0x80 | blocks.len() as u8];
                v.extend_from_slice(&bytes[1..bytes.len() - 1]);
                emit(ctx, rep, format!("cli.decode p stdin {}", hex(&v)));
                if v.len() < 20_000 { emit(ctx, rep, format!("cli.decode p arg {}", hex(hex(&v).as_bytes()))); }
            }
        }
    }
    for _ in 0..ctx.n(150, 5_000) {
        let v = match rng.below(8) { 0 => "0".to_string(), 1 => u64::MAX.to_string(), 2 => "252455615999999".into(), 3 => "252455616000000".into(), 4 => (*rng.pick(&["-1", "abc", "1.5", "18446744073709551616", "+7", " 5", "0x10"])).to_string(), 5 => rng.u64b().to_string(), _ => rng.below(2_000_000_000_000).to_string() };
        emit(ctx, rep, format!("cli.time {} {}", if rng.chance(1, 2) { "dtntime" } else { "d2u" }, hex(v.as_bytes())));
    }
    for (cmd, okc) in [("encode", [4usize, 5]), ("decode", [3, 4])] { for n in 2..=7usize { if !okc.contains(&n) { emit(ctx, rep, format!("cli.args {} {}", cmd, n)); } } }
    for i in 0..ctx.n(12, 200) { emit(ctx, rep, format!("cli.rnd {} {}", if i % 2 == 0 { "x" } else { "r" }, i)); }
    for i in 0..ctx.n(3, 20) { emit(ctx, rep, format!("cli.now {}", i)); }
    // the duration grammar, in process against the humantime crate
    for _ in 0..ctx.n(6_000, 500_000) {
        let s = gen_lifetime(&mut rng);
        emit(ctx, rep, format!("cli.dur {}", hex(s.as_bytes())));
    }
    let _ = std::fs::remove_dir_all(tmp_dir());
}
